(* C05: the save protocol is crash-atomic.  Lemmas about the map, about one save,
   then induction over the list of actions. *)
From PV Require Import Lib.Bytes Model.FsProto Spec.CrashSpec.
Open Scope N_scope.

(* ---------- the finite map ---------- *)

Lemma str_eqb_neq a b : a <> b -> str_eqb a b = false.
Proof.
  intro H. destruct (str_eqb a b) eqn:E; [|reflexivity].
  apply str_eqb_spec in E. contradiction.
Qed.

Lemma str_eqb_sym a b : str_eqb a b = str_eqb b a.
Proof.
  destruct (str_eqb a b) eqn:E.
  - apply str_eqb_spec in E. subst. symmetry. apply str_eqb_refl.
  - destruct (str_eqb b a) eqn:E2; [|reflexivity].
    apply str_eqb_spec in E2. subst. rewrite str_eqb_refl in E. discriminate.
Qed.

Lemma lookup_remove_eq p m : lookup p (remove p m) = None.
Proof.
  induction m as [|[q f] m IH]; simpl; [reflexivity|].
  destruct (str_eqb q p) eqn:E; [exact IH|]. simpl. rewrite E. exact IH.
Qed.

Lemma lookup_remove_neq p q m : p <> q -> lookup p (remove q m) = lookup p m.
Proof.
  intro H. induction m as [|[r f] m IH]; simpl; [reflexivity|].
  destruct (str_eqb r q) eqn:E.
  - apply str_eqb_spec in E. subst r.
    rewrite (str_eqb_neq q p) by congruence. exact IH.
  - simpl. destruct (str_eqb r p); [reflexivity|exact IH].
Qed.

Lemma lookup_set_eq p v m : lookup p (set p v m) = Some v.
Proof. unfold set. simpl. rewrite str_eqb_refl. reflexivity. Qed.

Lemma lookup_set_neq p q v m : p <> q -> lookup p (set q v m) = lookup p m.
Proof.
  intro H. unfold set. simpl. rewrite (str_eqb_neq q p) by congruence.
  apply lookup_remove_neq. exact H.
Qed.

Lemma fd_lookup_set_eq fd v t : fd_lookup fd (fd_set fd v t) = Some v.
Proof. unfold fd_set. simpl. rewrite N.eqb_refl. reflexivity. Qed.

Lemma tmp_name_neq f : tmp_name f <> f.
Proof.
  unfold tmp_name. intro H. apply (f_equal (@length N)) in H.
  rewrite app_length in H. simpl in H. lia.
Qed.

(* ---------- contents ---------- *)

Definition content (m : fsmap) (p : path) : option str := option_map f_data (lookup p m).

(* ---------- crash points of a concatenation ---------- *)

Lemma exec_app a b s : exec (a ++ b) s = exec b (exec a s).
Proof. unfold exec. apply fold_left_app. Qed.

Lemma crash_of_nil t : crash_of [] t -> t = [].
Proof.
  intro H. inversion H as [k|k fd data n Hn]; subst.
  - destruct k; reflexivity.
  - destruct k; discriminate.
Qed.

Lemma crash_of_app a b t :
  crash_of (a ++ b) t -> crash_of a t \/ exists t', t = a ++ t' /\ crash_of b t'.
Proof.
  intro H. inversion H as [k|k fd data n Hn]; subst.
  - rewrite firstn_app. destruct (Nat.le_gt_cases k (length a)) as [Hk|Hk].
    + left. replace (k - length a)%nat with 0%nat by lia. cbn [firstn]. rewrite app_nil_r.
      apply crash_prefix.
    + right. exists (firstn (k - length a) b). split.
      * rewrite firstn_all2 by lia. reflexivity.
      * apply crash_prefix.
  - destruct (Nat.lt_ge_cases k (length a)) as [Hk|Hk].
    + left. rewrite nth_error_app1 in Hn by exact Hk.
      rewrite firstn_app. replace (k - length a)%nat with 0%nat by lia.
      cbn [firstn]. rewrite app_nil_r. apply crash_partial. exact Hn.
    + right. rewrite nth_error_app2 in Hn by exact Hk.
      exists (firstn (k - length a) b ++ [Write fd (firstn n data)]). split.
      * rewrite firstn_app, firstn_all2 by lia. rewrite app_assoc. reflexivity.
      * apply crash_partial. exact Hn.
Qed.

Lemma crash_of_full a : crash_of a a.
Proof. rewrite <- (firstn_all a) at 2. apply crash_prefix. Qed.

(* ---------- one save, step by step ---------- *)

(* while a save is under way only the temporary file differs from the state s
   in which the save started *)
Definition tmp_only (s s' : state) (tmp : path) : Prop :=
  forall p, p <> tmp -> lookup p (st_fs s') = lookup p (st_fs s).

Record writing (s s' : state) (tmp : path) (d : str) (m : N) : Prop := {
  wr_only : tmp_only s s' tmp;
  wr_tmp : lookup tmp (st_fs s') = Some (mkfile KReg d m);
  wr_fd : fd_lookup 0 (st_fds s') = Some (Some tmp)
}.

Record closed (s s' : state) (tmp : path) (d : str) (m : N) : Prop := {
  cl_only : tmp_only s s' tmp;
  cl_tmp : lookup tmp (st_fs s') = Some (mkfile KReg d m)
}.

Lemma tmp_only_refl s tmp : tmp_only s s tmp.
Proof. intros p _. reflexivity. Qed.

Lemma step_openexcl_taken s tmp f0 :
  lookup tmp (st_fs s) = Some f0 -> step s (OpenExcl 0 tmp 438) = (s, Some EEXIST).
Proof. intro H. cbn [step]. rewrite H. reflexivity. Qed.

Lemma step_openexcl_free s tmp :
  lookup tmp (st_fs s) = None ->
  snd (step s (OpenExcl 0 tmp 438)) = None /\
  writing s (fst (step s (OpenExcl 0 tmp 438))) tmp [] (N.ldiff 438 (st_umask s)).
Proof.
  intro H. cbn [step]. rewrite H. cbn [fst snd]. split; [reflexivity|]. constructor; cbn [st_fs st_fds].
  - intros p Hp. apply lookup_set_neq. exact Hp.
  - apply lookup_set_eq.
  - apply fd_lookup_set_eq.
Qed.

Lemma step_write s s' tmp d m d' :
  writing s s' tmp d m ->
  snd (step s' (Write 0 d')) = None /\ writing s (fst (step s' (Write 0 d'))) tmp (d ++ d') m.
Proof.
  intros [Ho Ht Hf]. cbn [step]. rewrite Hf, Ht. cbn [fst snd f_data f_mode]. split; [reflexivity|].
  constructor; cbn [st_fs st_fds].
  - intros p Hp. cbn [st_fs]. rewrite lookup_set_neq by exact Hp. apply Ho. exact Hp.
  - apply lookup_set_eq.
  - exact Hf.
Qed.

Lemma step_close s s' tmp d m :
  writing s s' tmp d m ->
  snd (step s' (Close 0)) = None /\ closed s (fst (step s' (Close 0))) tmp d m.
Proof.
  intros [Ho Ht Hf]. cbn [step]. rewrite Hf. cbn [fst snd]. split; [reflexivity|].
  constructor; cbn [st_fs]; assumption.
Qed.

Lemma step_chmod_tmp s s' tmp d m m' :
  closed s s' tmp d m ->
  snd (step s' (Chmod tmp m')) = None /\ closed s (fst (step s' (Chmod tmp m'))) tmp d m'.
Proof.
  intros [Ho Ht]. cbn [step]. rewrite Ht. cbn [fst snd f_data]. split; [reflexivity|].
  constructor; cbn [st_fs].
  - intros p Hp. cbn [st_fs]. rewrite lookup_set_neq by exact Hp. apply Ho. exact Hp.
  - apply lookup_set_eq.
Qed.

Lemma step_rename_tmp s s' tmp f d m :
  closed s s' tmp d m -> tmp <> f ->
  snd (step s' (Rename tmp f)) = None /\
  lookup f (st_fs (fst (step s' (Rename tmp f)))) = Some (mkfile KReg d m) /\
  lookup tmp (st_fs (fst (step s' (Rename tmp f)))) = None /\
  (forall p, p <> tmp -> p <> f -> lookup p (st_fs (fst (step s' (Rename tmp f)))) = lookup p (st_fs s)).
Proof.
  intros [Ho Ht] Hne. cbn [step]. rewrite Ht. rewrite (str_eqb_neq _ _ Hne). cbn [fst snd st_fs].
  split; [reflexivity|]. split; [apply lookup_set_eq|]. split.
  - rewrite lookup_set_neq by exact Hne. apply lookup_remove_eq.
  - intros p H1 H2. rewrite lookup_set_neq by exact H2. rewrite lookup_remove_neq by exact H1.
    apply Ho. exact H1.
Qed.

Lemma step_unlink_tmp s s' tmp f0 :
  tmp_only s s' tmp -> lookup tmp (st_fs s') = Some f0 ->
  snd (step s' (Unlink tmp)) = None /\
  tmp_only s (fst (step s' (Unlink tmp))) tmp /\
  lookup tmp (st_fs (fst (step s' (Unlink tmp)))) = None.
Proof.
  intros Ho Ht. cbn [step]. rewrite Ht. cbn [fst snd st_fs]. split; [reflexivity|]. split.
  - intros p Hp. cbn [st_fs]. rewrite lookup_remove_neq by exact Hp. apply Ho. exact Hp.
  - apply lookup_remove_eq.
Qed.

Lemma exec_snoc ops o s : exec (ops ++ [o]) s = fst (step (exec ops s) o).
Proof. unfold exec. rewrite fold_left_app. reflexivity. Qed.

Lemma firstn_nil_any {A} k : firstn k (@nil A) = [].
Proof. destruct k; reflexivity. Qed.

Section OneSave.
  Variable s : state.
  Variable f : path.
  Variable new : str.
  Hypothesis Hfree : lookup (tmp_name f) (st_fs s) = None.

  Let tmp := tmp_name f.
  Let tm := N.ldiff 438 (st_umask s).
  Let A := [OpenExcl 0 tmp 438; Write 0 new; Close 0].
  (* the mode the new file gets *)
  Definition final_mode : N :=
    match lookup f (st_fs s) with Some old => f_mode old | None => N.ldiff 438 (st_umask s) end.
  Let chm := match lookup f (st_fs s) with Some old => [Chmod tmp (f_mode old)] | None => [] end.

  Lemma save_ops_free : save_ops s f new = A ++ chm ++ [Rename tmp f].
  Proof. unfold save_ops. rewrite Hfree. reflexivity. Qed.

  Lemma exec_open_w : writing s (exec [OpenExcl 0 tmp 438] s) tmp [] tm.
  Proof. apply (step_openexcl_free s tmp Hfree). Qed.

  Lemma exec_write_w d : writing s (exec [OpenExcl 0 tmp 438; Write 0 d] s) tmp d tm.
  Proof.
    change [OpenExcl 0 tmp 438; Write 0 d] with ([OpenExcl 0 tmp 438] ++ [Write 0 d]).
    rewrite exec_snoc. apply (step_write s _ tmp [] tm d exec_open_w).
  Qed.

  Lemma exec_A_closed : closed s (exec A s) tmp new tm.
  Proof.
    change A with ([OpenExcl 0 tmp 438; Write 0 new] ++ [Close 0]).
    rewrite exec_snoc. apply (step_close s _ tmp new tm (exec_write_w new)).
  Qed.

  Lemma exec_chm_closed : closed s (exec (A ++ chm) s) tmp new final_mode.
  Proof.
    unfold chm, final_mode. destruct (lookup f (st_fs s)) as [old|].
    - rewrite exec_snoc. apply (step_chmod_tmp s _ tmp new tm (f_mode old) exec_A_closed).
    - rewrite app_nil_r. exact exec_A_closed.
  Qed.

  Lemma exec_save_all :
    lookup f (st_fs (exec (save_ops s f new) s)) = Some (mkfile KReg new final_mode) /\
    lookup tmp (st_fs (exec (save_ops s f new) s)) = None /\
    (forall p, p <> tmp -> p <> f -> lookup p (st_fs (exec (save_ops s f new) s)) = lookup p (st_fs s)).
  Proof.
    rewrite save_ops_free, app_assoc, exec_snoc.
    destruct (step_rename_tmp s _ tmp f new final_mode exec_chm_closed (tmp_name_neq f)) as [_ H].
    exact H.
  Qed.

  (* every crash point of one save: a path other than the temporary one has its
     previous entry, or (after the rename) p = f holds exactly `new` *)
  Lemma save_crash t p :
    crash_of (save_ops s f new) t -> p <> tmp ->
    lookup p (st_fs (exec t s)) = lookup p (st_fs s) \/
    (t = save_ops s f new /\ p = f /\ content (st_fs (exec t s)) p = Some new).
  Proof.
    intros Hc Hp. rewrite save_ops_free in Hc.
    apply crash_of_app in Hc. destruct Hc as [Hc|[t1 [-> Hc]]].
    - (* inside open / write / close *)
      left. inversion Hc as [k|k fd data n Hn]; subst.
      + destruct k as [|[|[|k]]]; cbn [firstn A].
        * reflexivity.
        * apply (wr_only _ _ _ _ _ exec_open_w p Hp).
        * apply (wr_only _ _ _ _ _ (exec_write_w new) p Hp).
        * rewrite firstn_nil_any. apply (cl_only _ _ _ _ _ exec_A_closed p Hp).
      + destruct k as [|[|[|k]]]; cbn [nth_error A] in Hn; try discriminate.
        * inversion Hn; subst. cbn [firstn A app].
          apply (wr_only _ _ _ _ _ (exec_write_w (firstn n data)) p Hp).
        * destruct k; discriminate.
    - apply crash_of_app in Hc. destruct Hc as [Hc|[t2 [-> Hc]]].
      + (* inside the optional chmod *)
        left.
        assert (Hchm : chm = [] \/ exists m, chm = [Chmod tmp m]).
        { unfold chm. destruct (lookup f (st_fs s)) as [old|]; [right; eexists; reflexivity|left; reflexivity]. }
        assert (Ht1 : t1 = [] \/ t1 = chm).
        { destruct Hchm as [E|[m E]]; rewrite E in Hc.
          - left. apply crash_of_nil. exact Hc.
          - inversion Hc as [k|k fd data n Hn]; subst.
            + destruct k as [|k]; [left; reflexivity|]. right. rewrite E. cbn [firstn]. rewrite firstn_nil_any. reflexivity.
            + destruct k as [|k]; cbn [nth_error] in Hn; [discriminate|destruct k; discriminate]. }
        destruct Ht1 as [->| ->].
        * rewrite app_nil_r. apply (cl_only _ _ _ _ _ exec_A_closed p Hp).
        * apply (cl_only _ _ _ _ _ exec_chm_closed p Hp).
      + (* the rename *)
        assert (Ht2 : t2 = [] \/ t2 = [Rename tmp f]).
        { inversion Hc as [k|k fd data n Hn]; subst.
          - destruct k as [|k]; [left; reflexivity|]. right. cbn [firstn]. rewrite firstn_nil_any. reflexivity.
          - destruct k as [|k]; cbn [nth_error] in Hn; [discriminate|destruct k; discriminate]. }
        destruct Ht2 as [->| ->].
        * left. rewrite app_nil_r. apply (cl_only _ _ _ _ _ exec_chm_closed p Hp).
        * rewrite <- save_ops_free. destruct exec_save_all as [Hf [_ Ho]].
          destruct (str_eqb p f) eqn:E.
          -- apply str_eqb_spec in E. subst p. right. split; [reflexivity|]. split; [reflexivity|].
             unfold content. rewrite Hf. reflexivity.
          -- left. apply Ho; [exact Hp|]. intro; subst. rewrite str_eqb_refl in E. discriminate.
  Qed.
End OneSave.

(* ---------- the relation "old or one of the new contents" ---------- *)

Definition ok_rel (prog : list action) (p : path) (c0 c : option str) : Prop :=
  c = c0 \/ exists v, In v (versions prog p) /\ c = Some v.

Lemma versions_app a b p : versions (a ++ b) p = versions a p ++ versions b p.
Proof.
  induction a as [|[f new|f m|c f new] a IH]; simpl; [reflexivity| | |];
    try (destruct (str_eqb f p); simpl; rewrite IH; reflexivity); exact IH.
Qed.

Lemma ok_rel_refl prog p c : ok_rel prog p c c.
Proof. left. reflexivity. Qed.

Lemma ok_rel_trans a b p c0 c1 c2 :
  ok_rel a p c0 c1 -> ok_rel b p c1 c2 -> ok_rel (a ++ b) p c0 c2.
Proof.
  intros [H1|[v [Hv H1]]] [H2|[w [Hw H2]]]; subst.
  - left. reflexivity.
  - right. exists w. split; [|reflexivity]. rewrite versions_app. apply in_or_app. right. exact Hw.
  - right. exists v. split; [|reflexivity]. rewrite versions_app. apply in_or_app. left. exact Hv.
  - right. exists w. split; [|reflexivity]. rewrite versions_app. apply in_or_app. right. exact Hw.
Qed.

Lemma ok_rel_weaken_r a b p c0 c : ok_rel b p c0 c -> ok_rel (a ++ b) p c0 c.
Proof. intro H. apply (ok_rel_trans a b p c0 c0 c); [apply ok_rel_refl|exact H]. Qed.

Lemma ok_rel_weaken_l a b p c0 c : ok_rel a p c0 c -> ok_rel (a ++ b) p c0 c.
Proof. intro H. apply (ok_rel_trans a b p c0 c c); [exact H|apply ok_rel_refl]. Qed.

Lemma ok_rel_some prog p c0 c : ok_rel prog p c0 c -> c0 <> None -> c <> None.
Proof. intros [->|[v [_ ->]]] H; [exact H|discriminate]. Qed.

(* crash points of one save, in terms of contents: p is any path that exists when
   the save starts (so it cannot be the name the exclusive open creates) *)
Lemma save_crash_ok s f new t p b :
  crash_of (save_ops s f new) t -> content (st_fs s) p <> None ->
  ok_rel [AIfSaved b f new] p (content (st_fs s) p) (content (st_fs (exec t s)) p) /\
  ok_rel [ASave f new] p (content (st_fs s) p) (content (st_fs (exec t s)) p).
Proof.
  intros Hc Hex. destruct (lookup (tmp_name f) (st_fs s)) as [f0|] eqn:Etmp.
  - (* the name is taken: the open fails, nothing happens *)
    assert (E : exec t s = s).
    { unfold save_ops in Hc. rewrite Etmp in Hc.
      inversion Hc as [k|k fd data n Hn]; subst.
      - destruct k as [|k]; [reflexivity|]. cbn [firstn]. rewrite firstn_nil_any.
        unfold exec. cbn [fold_left]. rewrite (step_openexcl_taken s _ f0 Etmp). reflexivity.
      - destruct k as [|k]; cbn [nth_error] in Hn; [discriminate|destruct k; discriminate]. }
    rewrite E. split; apply ok_rel_refl.
  - assert (Hp : p <> tmp_name f).
    { intros ->. apply Hex. unfold content. rewrite Etmp. reflexivity. }
    destruct (save_crash s f new Etmp t p Hc Hp) as [H|[_ [-> H]]].
    + unfold content. rewrite H. split; apply ok_rel_refl.
    + split; right; exists new; (split; [simpl; rewrite str_eqb_refl; left; reflexivity|exact H]).
Qed.

Lemma content_exec_chmod s f m p :
  content (st_fs (exec [Chmod f m] s)) p = content (st_fs s) p.
Proof.
  unfold exec. cbn [fold_left step fst].
  destruct (lookup f (st_fs s)) as [f0|] eqn:El; [|reflexivity]. cbn [fst st_fs].
  unfold content. destruct (str_eqb p f) eqn:E.
  - apply str_eqb_spec in E. subst p. rewrite lookup_set_eq, El. reflexivity.
  - rewrite lookup_set_neq; [reflexivity|]. intro; subst. rewrite str_eqb_refl in E. discriminate.
Qed.

(* ---------- all crash points of a whole run ---------- *)

Lemma crash_run (D : path -> Prop) prog : forall saved s t,
  (forall p, D p -> content (st_fs s) p <> None) ->
  crash_of (prog_ops_from saved s prog) t ->
  forall p, D p -> ok_rel prog p (content (st_fs s) p) (content (st_fs (exec t s)) p).
Proof.
  induction prog as [|a prog IH]; intros saved s t Hex Hc p Hp.
  - apply crash_of_nil in Hc. subst. apply ok_rel_refl.
  - assert (Hsave : forall f new b saved',
      crash_of (save_ops s f new ++ prog_ops_from saved' (exec (save_ops s f new) s) prog) t ->
      ok_rel ([AIfSaved b f new] ++ prog) p (content (st_fs s) p) (content (st_fs (exec t s)) p) /\
      ok_rel ([ASave f new] ++ prog) p (content (st_fs s) p) (content (st_fs (exec t s)) p)).
    { intros f new b saved' Hc'. apply crash_of_app in Hc'. destruct Hc' as [Hc'|[t' [-> Hc']]].
      - destruct (save_crash_ok s f new t p b Hc' (Hex p Hp)) as [H1 H2].
        split; apply ok_rel_weaken_l; assumption.
      - rewrite exec_app.
        assert (Hex' : forall q, D q -> content (st_fs (exec (save_ops s f new) s)) q <> None).
        { intros q Hq. destruct (save_crash_ok s f new _ q b (crash_of_full _) (Hex q Hq)) as [_ H].
          apply (ok_rel_some _ _ _ _ H (Hex q Hq)). }
        destruct (save_crash_ok s f new _ p b (crash_of_full _) (Hex p Hp)) as [H1 H2].
        pose proof (IH saved' _ t' Hex' Hc' p Hp) as H3.
        split; [apply (ok_rel_trans _ _ _ _ _ _ H1 H3)|apply (ok_rel_trans _ _ _ _ _ _ H2 H3)]. }
    destruct a as [f new|f m|c f new]; cbn [prog_ops_from] in Hc.
    + apply (Hsave f new true _ Hc).
    + (* AChmod *)
      change (Chmod f (N.ldiff m 73) :: ?r) with ([Chmod f (N.ldiff m 73)] ++ r) in Hc.
      change (AChmod f m :: prog) with ([AChmod f m] ++ prog).
      apply crash_of_app in Hc. destruct Hc as [Hc|[t' [-> Hc]]].
      * left. inversion Hc as [k|k fd data n Hn]; subst.
        -- destruct k as [|k]; cbn [firstn]; [reflexivity|].
           rewrite firstn_nil_any. apply content_exec_chmod.
        -- destruct k as [|k]; cbn [nth_error] in Hn; [discriminate|destruct k; discriminate].
      * rewrite exec_app. apply ok_rel_weaken_r. rewrite <- (content_exec_chmod s f (N.ldiff m 73) p).
        apply (IH saved _ t'); [|exact Hc|exact Hp].
        intros q Hq. rewrite content_exec_chmod. apply Hex. exact Hq.
    + (* AIfSaved *)
      destruct (Bool.eqb saved c).
      * apply (Hsave f new c _ Hc).
      * change (AIfSaved c f new :: prog) with ([AIfSaved c f new] ++ prog).
        apply ok_rel_weaken_r. apply (IH saved s t Hex Hc p Hp).
Qed.

(* ---------- the theorems ---------- *)

Definition orig (init : fsmap) (p : path) : Prop := exists f0, lookup p init = Some f0.

Lemma orig_exists s p : orig (st_fs s) p -> content (st_fs s) p <> None.
Proof. intros [f0 H]. unfold content. rewrite H. discriminate. Qed.

(* no guard any more: the exclusive open never touches an existing file *)
Theorem crash_atomic : forall (s : state) (prog : list action) (t : list op),
  crash_of (prog_ops s prog) t ->
  atomic_at (st_fs s) prog (st_fs (exec t s)).
Proof.
  intros s prog t Hc p f0 Hl.
  pose proof (crash_run (orig (st_fs s)) prog false s t (orig_exists s) Hc p (ex_intro _ f0 Hl)) as H.
  unfold content in H. rewrite Hl in H. cbn [option_map] in H.
  destruct (lookup p (st_fs (exec t s))) as [f1|] eqn:E; cbn [option_map] in H.
  - exists f1. split; [reflexivity|]. destruct H as [H|[v [Hv H]]].
    + left. congruence.
    + right. congruence.
  - destruct H as [H|[v [_ H]]]; discriminate.
Qed.

Theorem no_file_disappears : forall (s : state) (prog : list action) (t : list op),
  crash_of (prog_ops s prog) t ->
  no_file_lost (st_fs s) (st_fs (exec t s)).
Proof.
  intros s prog t Hc p f0 Hl.
  destruct (crash_atomic s prog t Hc p f0 Hl) as [f1 [H _]]. exists f1. exact H.
Qed.

Lemma save_preserves_nothing_stale s f new :
  lookup (tmp_name f) (st_fs s) = None ->
  lookup (tmp_name f) (st_fs (exec (save_ops s f new) s)) = None.
Proof. intro H. apply (exec_save_all s f new H). Qed.

(* a complete save gives the new file the mode of the file it replaces, and leaves
   no temporary file *)
Theorem save_preserves_mode : forall (s : state) (f : path) (new : str) (old : file),
  lookup (tmp_name f) (st_fs s) = None -> lookup f (st_fs s) = Some old ->
  let s' := exec (save_ops s f new) s in
  lookup f (st_fs s') = Some (mkfile KReg new (f_mode old)) /\ lookup (tmp_name f) (st_fs s') = None.
Proof.
  intros s f new old Hfree Hold. destruct (exec_save_all s f new Hfree) as [H1 [H2 _]].
  unfold final_mode in H1. rewrite Hold in H1. split; [exact H1|exact H2].
Qed.

(* the boolean checker agrees with the Prop on the entries it looks at *)
Lemma first_bad_none entries init prog cur :
  first_bad entries init prog cur = None ->
  forall p f, In (p, f) entries -> forall f0, lookup p init = Some f0 ->
  exists f1, lookup p cur = Some f1 /\ In (f_data f1) (f_data f0 :: versions prog p).
Proof.
  induction entries as [|[q g] entries IH]; intros H p f Hin f0 Hl; [destruct Hin|].
  cbn [first_bad] in H.
  destruct Hin as [Heq|Hin].
  - inversion Heq; subst q g. rewrite Hl in H.
    destruct (lookup p cur) as [f1|]; [|discriminate].
    destruct (existsb (str_eqb (f_data f1)) (f_data f0 :: versions prog p)) eqn:E; [|discriminate].
    exists f1. split; [reflexivity|]. apply existsb_exists in E. destruct E as [x [Hx Ex]].
    apply str_eqb_spec in Ex. subst x. exact Hx.
  - destruct (match lookup q init with
              | Some f2 => match lookup q cur with
                           | Some f1 => existsb (str_eqb (f_data f1)) (f_data f2 :: versions prog q)
                           | None => false end
              | None => true end); [|discriminate].
    apply (IH H p f Hin f0 Hl).
Qed.

Lemma lookup_in p f m : lookup p m = Some f -> exists g, In (p, g) m.
Proof.
  induction m as [|[q g] m IH]; simpl; [discriminate|].
  destruct (str_eqb q p) eqn:E.
  - apply str_eqb_spec in E. subst. intros _. exists g. left. reflexivity.
  - intro H. destruct (IH H) as [g' Hg]. exists g'. right. exact Hg.
Qed.

Theorem atomic_okb_sound : forall init prog cur,
  atomic_okb init prog cur = true -> atomic_at init prog cur.
Proof.
  intros init prog cur H p f0 Hl. unfold atomic_okb in H.
  destruct (first_bad init init prog cur) eqn:E; [discriminate|].
  destruct (lookup_in p f0 init Hl) as [g Hg].
  apply (first_bad_none init init prog cur E p g Hg f0 Hl).
Qed.

(* ---------- the protocol before the repair did not have this property ---------- *)

Definition trunc_tmp_crash_atomic : Prop :=
  forall (s : state) (f : path) (new : str) (t : list op),
    crash_of (trunc_tmp_ops f new) t -> atomic_at (st_fs s) [ASave f new] (st_fs (exec t s)).

Definition ug_a : path := [97].
Definition ug_state : state :=
  mkstate [(ug_a, mkfile KReg [111] 420); (tmp_name ug_a, mkfile KReg [112; 114; 101] 420)] [] 18.

Lemma trunc_tmp_refuted : ~ trunc_tmp_crash_atomic.
Proof.
  intro H. specialize (H ug_state ug_a [110] (firstn 1 (trunc_tmp_ops ug_a [110])) (crash_prefix _ 1)).
  destruct (H (tmp_name ug_a) (mkfile KReg [112; 114; 101] 420) eq_refl) as [f1 [Hl Hin]].
  vm_compute in Hl. inversion Hl; subst f1. vm_compute in Hin.
  destruct Hin as [Hin|[]]. discriminate.
Qed.

(* the repaired protocol on the same tree: the open fails, both files keep their content *)
Definition ug_prog : list action := [ASave ug_a [110]].

Lemma excl_keeps_both :
  prog_ops ug_state ug_prog = [OpenExcl 0 (tmp_name ug_a) 438] /\
  exec (prog_ops ug_state ug_prog) ug_state = ug_state.
Proof. vm_compute. split; reflexivity. Qed.

(* ---------- the mode fix is one system call ---------- *)

Lemma chmod_atomic : forall (s : state) (f : path) (mode : N) (t : list op),
  crash_of (prog_ops s [AChmod f mode]) t ->
  (exec t s = s \/ exec t s = fst (step s (Chmod f (N.ldiff mode 73)))) /\
  mode_atomic_at (st_fs s) f (N.ldiff mode 73) (st_fs (exec t s)).
Proof.
  intros s f mode t Hc.
  assert (Ht : t = [] \/ t = [Chmod f (N.ldiff mode 73)]).
  { inversion Hc as [k|k fd data n Hn]; subst.
    - destruct k as [|k]; [left; reflexivity|]. right. cbn. destruct k; reflexivity.
    - destruct k as [|k]; cbn in Hn; [discriminate|destruct k; discriminate]. }
  destruct Ht as [->| ->].
  - split; [left; reflexivity|]. intros f0 Hl. exists f0. auto.
  - split; [right; reflexivity|]. intros f0 Hl. unfold exec. cbn [fold_left step fst].
    rewrite Hl. cbn [fst st_fs]. exists (mkfile (f_kind f0) (f_data f0) (N.ldiff mode 73)).
    rewrite lookup_set_eq. auto.
Qed.
