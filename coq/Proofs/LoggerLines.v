(* C06 diag_line_shape / logger_lines_recognised: every line the Logger machine writes
   to stdout is recognised by the executable recogniser of the whole-run part,
   Spec/OutputGrammar.v `classify` -- the same grammar the real binary's output is
   judged by (harness/c06run.go). *)
From PV Require Import Lib.Bytes Lib.Utf8 Model.Escape Model.Logger.
From PV Require Import Proofs.Escape Proofs.Logger Proofs.LoggerInv Proofs.LoggerOut.
From PV Require Spec.OutputGrammar Proofs.OutputGrammar Spec.LinesSpec.
From Coq Require Import ZifyBool ZifyN ZifyNat.
Open Scope N_scope.

Module G := PV.Spec.OutputGrammar.
Module GP := PV.Proofs.OutputGrammar.

(* ---------- lines ---------- *)

Definition clean (s : str) : Prop := Forall (fun b => b <> 10) s.     (* no newline *)
Definition recognised (g : bool) (x : str) : Prop := clean x /\ G.classify g x <> G.KUnknown.
Definition unlines (ls : list str) : str := concat (map (fun x => x ++ [10]) ls).

Lemma clean_app a b : clean a -> clean b -> clean (a ++ b).
Proof. unfold clean. intros. apply Forall_app. split; assumption. Qed.

Lemma clean_not_in s : clean s <-> ~ In 10 s.
Proof.
  unfold clean. rewrite Forall_forall. split.
  - intros H Hin. exact (H 10 Hin eq_refl).
  - intros H x Hx ->. contradiction.
Qed.

Lemma escape_clean s : clean s -> clean (escape_printable s).
Proof. rewrite !clean_not_in. apply escape_keeps_out. reflexivity. Qed.

Lemma unlines_app a b : unlines (a ++ b) = unlines a ++ unlines b.
Proof. unfold unlines. rewrite map_app, concat_app. reflexivity. Qed.

Lemma recognised_nil g : recognised g [].
Proof. split; [constructor|destruct g; discriminate]. Qed.

(* ---------- writing one complete line at a line boundary ---------- *)

Lemma sw_write_clean w x : sw_state w <> 2 -> clean x ->
  sw_out (sw_write w x) = sw_out w /\ sw_line (sw_write w x) = sw_line w ++ x /\ sw_state (sw_write w x) <> 2.
Proof.
  intros Hs Hx. revert w Hs. induction Hx as [|b x Hb Hx IH]; intros w Hs.
  - unfold sw_write. cbn [fold_left]. rewrite app_nil_r. auto.
  - cbn [sw_write fold_left]. change (fold_left sw_write_byte x (sw_write_byte w b)) with (sw_write (sw_write_byte w b) x).
    assert (sw_write_byte w b = mk_sw 1 (sw_line w ++ [b]) (sw_out w)) as E.
    { unfold sw_write_byte. destruct (N.eqb_spec b 10); [contradiction|].
      destruct (N.eqb_spec (sw_state w) 2); [contradiction|reflexivity]. }
    rewrite E. destruct (IH (mk_sw 1 (sw_line w ++ [b]) (sw_out w)) ltac:(cbn; discriminate)) as (H1 & H2 & H3).
    rewrite H1, H2. cbn [sw_out sw_line]. rewrite <- app_assoc. auto.
Qed.

Lemma sw_write_unit w x : sw_line w = [] -> clean x ->
  exists sep, (sep = [] \/ sep = [[]]) /\
    sw_out (sw_write w (x ++ [10])) = sw_out w ++ unlines (sep ++ [x]) /\ sw_line (sw_write w (x ++ [10])) = [].
Proof.
  intros Hl Hx. rewrite sw_write_app'.
  destruct x as [|b x].
  - exists []. split; [auto|]. unfold sw_write. cbn [fold_left app]. unfold sw_write_byte. rewrite N.eqb_refl.
    cbn [sw_out sw_line]. rewrite Hl. split; reflexivity.
  - inversion Hx as [|? ? Hb Hx']; subst.
    cbn [sw_write fold_left]. change (fold_left sw_write_byte x (sw_write_byte w b)) with (sw_write (sw_write_byte w b) x).
    unfold sw_write_byte at 2. destruct (N.eqb_spec b 10); [contradiction|].
    destruct (N.eqb_spec (sw_state w) 2).
    + exists [[]]. split; [auto|].
      destruct (sw_write_clean (mk_sw 1 [b] (sw_out w ++ sw_line w ++ [10])) x ltac:(cbn; discriminate) Hx') as (H1 & H2 & _).
      change (fold_left sw_write_byte [10] ?w0) with (sw_write_byte w0 10). unfold sw_write_byte. rewrite N.eqb_refl.
      cbn [sw_out sw_line]. rewrite H1, H2, Hl. cbn [sw_out sw_line unlines map concat app].
      rewrite <- ?app_assoc. cbn [app]. rewrite ?app_nil_r. auto.
    + exists []. split; [auto|].
      destruct (sw_write_clean (mk_sw 1 (sw_line w ++ [b]) (sw_out w)) x ltac:(cbn; discriminate) Hx') as (H1 & H2 & _).
      change (fold_left sw_write_byte [10] ?w0) with (sw_write_byte w0 10). unfold sw_write_byte. rewrite N.eqb_refl.
      cbn [sw_out sw_line]. rewrite H1, H2, Hl. cbn [sw_out sw_line unlines map concat app].
      rewrite <- ?app_assoc. cbn [app]. rewrite ?app_nil_r. auto.
Qed.

(* ---------- the invariant ---------- *)

Definition GLr (g : bool) (u : str) : Prop := exists x, u = x ++ [10] /\ recognised g x.

Definition Pr (g : bool) (l : logger) : Prop :=
  sw_line (l_out l) = [] /\ exists ls, sw_out (l_out l) = unlines ls /\ Forall (recognised g) ls.

Lemma Pr_writes g l ws w : GLr g (concat ws ++ w) -> Pr g l -> Pr g (out_write (fold_left out_write ws l) w).
Proof.
  intros (x & Hu & Hx) (Hl & ls & Ho & Hls). destruct (out_of_writes l ws w) as (H1 & _ & _).
  unfold Pr. rewrite H1, Hu.
  destruct (sw_write_unit (l_out l) x Hl (proj1 Hx)) as (sep & Hsep & E1 & E2).
  split; [assumption|]. exists (ls ++ sep ++ [x]). rewrite E1, Ho, <- unlines_app. split; [reflexivity|].
  apply Forall_app. split; [assumption|]. apply Forall_app. split; [|constructor; [assumption|constructor]].
  destruct Hsep as [-> | ->]; [constructor|constructor; [apply recognised_nil|constructor]].
Qed.

Lemma Pr_separate g l : Pr g l -> Pr g (out_separate l).
Proof.
  intros (Hl & ls & Ho & Hls). unfold out_separate, sw_separate. cbn.
  destruct (sw_state (l_out l) <? 2); cbn; (split; [assumption|exists ls; split; assumption]).
Qed.

(* ---------- when the recogniser does not say KUnknown ---------- *)

Ltac split_matches :=
  repeat match goal with
         | |- context [if ?x then _ else _] => destruct x
         | |- context [match ?x with [] => _ | _ :: _ => _ end] => destruct x
         | |- context [match ?x with Some _ => _ | None => _ end] => destruct x
         | |- context [match ?x with (_, _) => _ end] => destruct x
         | |- context [match ?x with 0 => _ | N.pos _ => _ end] => destruct x
         | |- context [match ?x with xI _ => _ | xO _ => _ | xH => _ end] => destruct x
         end.

Lemma classify_of_diag (g : bool) s lv p ln m :
  (if g then G.parse_diag_gcc s else G.parse_diag_trad s) = Some (G.KDiag lv p ln m) ->
  G.classify g s <> G.KUnknown.
Proof. intro H. unfold G.classify. rewrite H. split_matches; discriminate. Qed.

Lemma parse_diag_is_diag (g : bool) s k :
  (if g then G.parse_diag_gcc s else G.parse_diag_trad s) = Some k -> exists lv p ln m, k = G.KDiag lv p ln m.
Proof.
  destruct g; unfold G.parse_diag_gcc, G.parse_diag_trad; intro H;
    repeat match type of H with
           | context [match ?x with Some _ => _ | None => _ end] => destruct x
           | context [match ?x with (_, _) => _ end] => destruct x
           | context [match ?x with [] => _ | _ :: _ => _ end] => destruct x
           end; try discriminate; inversion H; eauto.
Qed.

Ltac split_num :=
  repeat match goal with
         | |- context [match ?x with 0 => _ | N.pos _ => _ end] => destruct x
         | |- context [match ?x with xI _ => _ | xO _ => _ | xH => _ end] => destruct x
         end.

(* a line whose first two bytes are not tabs goes through the "ordinary line" branch *)
Lemma classify_no_tab (g : bool) c0 c1 r :
  c0 <> 9 -> c1 <> 9 ->
  G.classify g (c0 :: c1 :: r) =
  let s := c0 :: c1 :: r in
  if str_eqb s G.s_looks_fine then G.KLooksFine else
  match G.parse_hint s with
  | Some k => G.KHint k
  | None =>
    match (if g then G.parse_diag_gcc s else G.parse_diag_trad s) with
    | Some k => k
    | None => match G.parse_summary s with Some (e, w, n) => G.KSummary e w n | None => G.KUnknown end
    end
  end.
Proof. intros H0 H1. unfold G.classify. split_num; try reflexivity; congruence. Qed.

Lemma classify_ordinary (g : bool) c0 c1 r :
  c0 <> 9 -> c1 <> 9 ->
  (exists k, G.parse_hint (c0 :: c1 :: r) = Some k) \/ (exists e w n, G.parse_summary (c0 :: c1 :: r) = Some (e, w, n)) ->
  G.classify g (c0 :: c1 :: r) <> G.KUnknown.
Proof.
  intros H0 H1 H. rewrite classify_no_tab by assumption. cbv zeta.
  destruct (str_eqb (c0 :: c1 :: r) G.s_looks_fine); [discriminate|].
  destruct (G.parse_hint (c0 :: c1 :: r)) eqn:Eh; [discriminate|].
  destruct (if g then G.parse_diag_gcc (c0 :: c1 :: r) else G.parse_diag_trad (c0 :: c1 :: r)) eqn:Ed.
  - destruct (parse_diag_is_diag g _ _ Ed) as (lv & p & ln & m & ->). discriminate.
  - destruct H as [[k Hk]|(e & w & n & Hs)]; [discriminate|]. rewrite Hs. discriminate.
Qed.

(* ---------- the units other than Logf's ---------- *)

Lemma GLr_nl g : GLr g [10].
Proof. exists []. split; [reflexivity|apply recognised_nil]. Qed.

(* a physical line: no newline except possibly as its last byte (C09: raw_ok) *)
Definition raw_clean (t : str) : Prop := exists t', clean t' /\ (t = t' \/ t = t' ++ [10]).

Lemma has_suffix_nl_snoc t : has_suffix_nl (t ++ [10]) = true.
Proof. induction t as [|c t IH]; [reflexivity|]. cbn [app has_suffix_nl]. destruct (t ++ [10]) eqn:E; [destruct t; discriminate|exact IH]. Qed.

Lemma has_suffix_nl_clean t : clean t -> has_suffix_nl t = false.
Proof.
  induction 1 as [|c t Hc Ht IH]; [reflexivity|]. cbn [has_suffix_nl]. destruct t; [|exact IH].
  apply N.eqb_neq. assumption.
Qed.

Lemma src_unit_shape p t : raw_clean t -> exists t', clean t' /\ src_unit p t = (p ++ escape_printable t') ++ [10].
Proof.
  intros (t' & Hc & [-> | ->]); exists t'; (split; [assumption|]); unfold src_unit.
  - rewrite (has_suffix_nl_clean _ Hc), <- app_assoc. reflexivity.
  - rewrite has_suffix_nl_snoc, app_nil_r, (escape_app_ascii t' [10]) by (cbn; lia).
    rewrite app_assoc. reflexivity.
Qed.

Lemma src_unit_GLr g p t : In p src_prefixes -> raw_clean t -> GLr g (src_unit p t).
Proof.
  intros Hp Ht. destruct (src_unit_shape p t Ht) as (t' & Hc & ->).
  exists (p ++ escape_printable t'). split; [reflexivity|].
  pose proof (escape_clean _ Hc) as He.
  destruct Hp as [<-|[<-|[<-|[<-|[]]]]]; (split; [apply clean_app; [repeat constructor; discriminate|assumption]|]);
    destruct g; discriminate.
Qed.

Lemma expl_unit_GLr g x : clean x -> GLr g (expl_unit x).
Proof.
  intro Hc. unfold expl_unit. destruct x as [|c x]; cbn [nonempty_list].
  - exists []. split; [reflexivity|apply recognised_nil].
  - exists ([9] ++ escape_printable (c :: x)). split; [rewrite <- app_assoc; reflexivity|].
    split; [apply clean_app; [repeat constructor; discriminate|apply escape_clean; assumption]|].
    destruct g; discriminate.
Qed.

(* ---------- the summary line is the whole-run part's print_summary ---------- *)

Lemma uint_digits_bytes u : uint_digits u = G.uint_bytes u.
Proof. induction u; cbn; congruence. Qed.

Lemma dec_of_N_print_dec n : dec_of_N n = G.print_dec n.
Proof. apply uint_digits_bytes. Qed.

Lemma num_is_num n word plural : plural = word ++ [115] -> num n word plural = G.num n word.
Proof.
  intros ->. unfold num, G.num. rewrite dec_of_N_print_dec.
  destruct (n =? 0); [reflexivity|]. destruct (n =? 1); reflexivity.
Qed.

Lemma join_cambridge_3 a b c :
  join_cambridge [97; 110; 100] [a; b; c] = G.join_cambridge [a; b; c].
Proof.
  unfold join_cambridge, G.join_cambridge.
  destruct a, b, c; cbn; rewrite <- ?app_assoc; reflexivity.
Qed.

Lemma summary_counts_is_print e w n : summary_counts e w n = G.print_summary e w n ++ [10].
Proof.
  unfold summary_counts, G.print_summary.
  rewrite (num_is_num e G.w_error), (num_is_num w G.w_warning), (num_is_num n G.w_note) by reflexivity.
  rewrite join_cambridge_3, <- app_assoc. reflexivity.
Qed.

Lemma safe_line_clean s : G.safe_line s = true -> clean s.
Proof.
  unfold G.safe_line, clean. rewrite forallb_forall, Forall_forall. intros H x Hx ->.
  specialize (H 10 Hx). discriminate.
Qed.

Lemma digit_not_tab d : GP.is_digit_b d = true -> d <> 9.
Proof. unfold GP.is_digit_b. lia. Qed.

Lemma dec_head_not_tab k r : exists c0 c1 r', G.print_dec k ++ 32 :: r = c0 :: c1 :: r' /\ c0 <> 9 /\ c1 <> 9.
Proof.
  pose proof (GP.print_dec_nonempty k) as Hn. pose proof (GP.print_dec_digits k) as Hd.
  destruct (G.print_dec k) as [|d [|d' ds]]; [congruence| |]; cbn [forallb] in Hd.
  - exists d, 32, r. apply andb_true_iff in Hd as [Hd _]. split; [reflexivity|]. split; [apply digit_not_tab; assumption|discriminate].
  - exists d, d', (ds ++ 32 :: r). apply andb_true_iff in Hd as [Hd Hd']. apply andb_true_iff in Hd' as [Hd' _].
    split; [reflexivity|]. split; apply digit_not_tab; assumption.
Qed.

Lemma print_summary_head e w n : e <> 0 \/ w <> 0 ->
  exists k r, G.print_summary e w n = G.print_dec k ++ 32 :: r.
Proof.
  intros NZ. unfold G.print_summary.
  destruct (N.eqb_spec e 0) as [->|He].
  - destruct NZ as [H|Hw]; [congruence|]. rewrite GP.num_zero, (GP.num_nonzero w) by assumption.
    unfold G.join_cambridge. cbn [filter str_eqb negb]. rewrite GP.El_nonempty. cbn [negb].
    destruct (negb (str_eqb (G.num n G.w_note) [])); cbn [filter]; unfold GP.El; rewrite <- ?app_assoc; cbn [app]; eauto.
  - rewrite (GP.num_nonzero e) by assumption.
    unfold G.join_cambridge. cbn [filter str_eqb negb]. rewrite GP.El_nonempty. cbn [negb].
    destruct (negb (str_eqb (G.num w G.w_warning) [])), (negb (str_eqb (G.num n G.w_note) []));
      cbn [filter]; unfold GP.El; rewrite <- ?app_assoc; cbn [app]; eauto.
Qed.

Lemma summary_line_GLr g e w n : GLr g (summary_line e w n).
Proof.
  unfold summary_line. destruct (negb (e =? 0) || negb (w =? 0)) eqn:E.
  - rewrite summary_counts_is_print. exists (G.print_summary e w n). split; [reflexivity|].
    split; [apply safe_line_clean, GP.print_summary_safe|].
    assert (e <> 0 \/ w <> 0) as NZ by lia.
    destruct (print_summary_head e w n NZ) as (k & r & Hs).
    destruct (dec_head_not_tab k r) as (c0 & c1 & r' & Hh & H0 & H1).
    rewrite Hs, Hh. apply classify_ordinary; [assumption|assumption|].
    right. exists e, w, n. rewrite <- Hh, <- Hs. apply GP.summary_line_roundtrip. lia.
  - exists G.s_looks_fine. split; [reflexivity|]. split; [repeat constructor; discriminate|].
    destruct g; discriminate.
Qed.

(* ---------- hints ---------- *)

Lemma hint_unit_GLr g cl h : clean cl -> In h [hint_e; hint_fs; hint_F] -> GLr g (hint_unit cl (snd h)).
Proof.
  intros Hc Hh. unfold hint_unit.
  exists (G.s_run ++ cl ++ [34; 32; 116; 111; 32] ++ snd h ++ [46; 41]).
  split; [unfold G.s_run; rewrite <- !app_assoc; reflexivity|].
  split.
  - apply clean_app; [repeat constructor; discriminate|]. apply clean_app; [assumption|].
    destruct Hh as [<-|[<-|[<-|[]]]]; repeat constructor; discriminate.
  - change (G.s_run ++ cl ++ [34; 32; 116; 111; 32] ++ snd h ++ [46; 41])
      with (40 :: 82 :: [117; 110; 32; 34] ++ cl ++ [34; 32; 116; 111; 32] ++ snd h ++ [46; 41]).
    apply classify_ordinary; [discriminate|discriminate|]. left.
    change (40 :: 82 :: [117; 110; 32; 34] ++ cl ++ [34; 32; 116; 111; 32] ++ snd h ++ [46; 41])
      with (G.s_run ++ (cl ++ [34; 32; 116; 111; 32] ++ snd h ++ [46; 41])).
    unfold G.parse_hint. rewrite (proj2 (strip_prefix_some G.s_run _ _) eq_refl).
    destruct Hh as [<-|[<-|[<-|[]]]].
    + change (cl ++ [34; 32; 116; 111; 32] ++ snd hint_e ++ [46; 41]) with (cl ++ G.s_hint1).
      rewrite GP.strip_suffix_app. eauto.
    + change (cl ++ [34; 32; 116; 111; 32] ++ snd hint_fs ++ [46; 41]) with (cl ++ G.s_hint2).
      rewrite GP.strip_suffix_app.
      match goal with |- context [G.strip_suffix G.s_hint1 ?X] => destruct (G.strip_suffix G.s_hint1 X) end; eauto.
    + change (cl ++ [34; 32; 116; 111; 32] ++ snd hint_F ++ [46; 41]) with (cl ++ G.s_hint3).
      rewrite GP.strip_suffix_app.
      match goal with |- context [G.strip_suffix G.s_hint1 ?X] => destruct (G.strip_suffix G.s_hint1 X), (G.strip_suffix G.s_hint2 X) end; eauto.
Qed.

(* ---------- the line Logf writes ---------- *)

Definition conv (lv : level) : G.level :=
  match lv with LError => G.LError | LWarn => G.LWarn | LNote => G.LNote | LAutofix => G.LAutofix end.

Lemma traditional_name_is lv : traditional_name lv = G.level_name false (conv lv).
Proof. destruct lv; reflexivity. Qed.
Lemma gcc_name_is lv : gcc_name lv = G.level_name true (conv lv).
Proof. destruct lv; reflexivity. Qed.

Lemma strip_level_name_gcc lv r :
  G.strip_level true G.all_levels (G.level_name true lv ++ G.s_colon_sp ++ r) = Some (lv, r).
Proof. destruct lv; reflexivity. Qed.

Lemma parse_diag_trad_level lv r : exists p ln m,
  G.parse_diag_trad (G.level_name false lv ++ G.s_colon_sp ++ r) = Some (G.KDiag lv p ln m).
Proof.
  unfold G.parse_diag_trad. rewrite GP.strip_level_name.
  destruct (G.split_at G.s_colon_sp r) as [[loc msg]|]; [destruct loc; [|destruct (G.split_loc _)]|]; eauto.
Qed.

(* characters of a Linenos text: digits, '-', "EOF" -- in any case printable, no ':' ' ' or newline *)
Definition lnos_ok (n : str) : Prop := Forall (fun c => xprint c = true /\ c <> 58 /\ c <> 32 /\ c <> 10) n.

Definition LogOKr (lv : level) (f n m : str) : Prop := clean f /\ ~ In 58 f /\ clean m /\ lnos_ok n.

Lemma lnos_ok_clean n : lnos_ok n -> clean n.
Proof. apply Forall_impl. tauto. Qed.
Lemma lnos_ok_safe n : lnos_ok n -> safe n.
Proof. apply Forall_impl. tauto. Qed.
Lemma lnos_ok_not58 n : lnos_ok n -> GP.not_byte 58 n.
Proof.
  unfold GP.not_byte. induction 1 as [|c n (_ & Hc & _) Hn IH]; [reflexivity|]. cbn [forallb]. rewrite IH.
  destruct (N.eqb_spec c 58); [contradiction|reflexivity].
Qed.

Lemma not_in_not_byte b s : ~ In b s -> GP.not_byte b s.
Proof.
  unfold GP.not_byte. induction s as [|c s IH]; intro H; [reflexivity|]. cbn [forallb].
  rewrite IH by (intro; apply H; right; assumption).
  destruct (N.eqb_spec c b); [exfalso; apply H; left; assumption|reflexivity].
Qed.

Lemma escape_nonempty s : s <> [] -> escape_printable s <> [].
Proof.
  destruct s as [|b0 s]; [congruence|]. intros _. unfold escape_printable. cbn [escape_from].
  destruct (decode_rune (b0 :: s)) as [r w]. unfold escape_piece.
  destruct ((r <? 256) && xprint b0); [discriminate|].
  destruct ((r =? rune_error) && negb (has_prefix utf8_rune_error (b0 :: s))); discriminate.
Qed.

(* "path[:linenos]: level: message" is split at the right ": " *)
Lemma split_gcc_loc F Lp rest :
  GP.not_byte 58 F -> (Lp = [] \/ exists n, Lp = 58 :: n /\ n <> [] /\ lnos_ok n) ->
  G.split_at G.s_colon_sp (F ++ Lp ++ G.s_colon_sp ++ rest) = Some (F ++ Lp, rest).
Proof.
  intros HF HL. unfold G.s_colon_sp. rewrite (GP.split_at_skip 58 [32] F _ HF).
  destruct HL as [->|(n & -> & Hn & Hok)].
  - rewrite app_nil_l, (GP.split_at_hit [58; 32] rest). rewrite !app_nil_r. reflexivity.
  - cbn [app]. rewrite GP.split_at_unfold. destruct n as [|c n]; [congruence|].
    inversion Hok as [|? ? (_ & _ & Hc & _) Hok']; subst.
    cbn [app strip_prefix]. rewrite N.eqb_refl. destruct (N.eqb_spec 32 c); [congruence|].
    change (c :: n ++ 58 :: 32 :: rest) with ((c :: n) ++ [58; 32] ++ rest).
    rewrite (GP.split_at_skip 58 [32] (c :: n) _ (lnos_ok_not58 _ Hok)), (GP.split_at_hit [58; 32] rest).
    rewrite app_nil_r. reflexivity.
Qed.

Lemma diag_line o lv f n m :
  LogOKr lv f n m ->
  exists x, escape_printable (format_diag o lv f (if nonempty_list f then n else []) m) = x ++ [10] /\
            recognised (lo_gcc o) x.
Proof.
  intros (Hf & Hf58 & Hm & Hn).
  pose proof (escape_clean _ Hm) as HM.
  destruct (lo_gcc o) eqn:Eg.
  - (* gcc form *)
    unfold format_diag. rewrite Eg.
    destruct f as [|f0 f]; cbn [nonempty_list].
    + (* no file: "level: message" *)
      exists ((gcc_name lv ++ [58; 32]) ++ escape_printable m). split.
      * replace ([] ++ [] ++ [] ++ [] ++ gcc_name lv ++ [58; 32] ++ m ++ [10]) with ((gcc_name lv ++ [58; 32]) ++ (m ++ [10]))
          by (cbn [app]; rewrite <- app_assoc; reflexivity).
        rewrite escape_safe_prefix by (destruct lv; repeat constructor).
        rewrite (escape_app_ascii m [10]) by (cbn; lia). rewrite <- !app_assoc. reflexivity.
      * split; [apply clean_app; [destruct lv; repeat constructor; discriminate|assumption]|].
        rewrite <- app_assoc, gcc_name_is.
        eapply (classify_of_diag true). unfold G.parse_diag_gcc.
        change [58; 32] with G.s_colon_sp. rewrite strip_level_name_gcc. reflexivity.
    + (* "file[:linenos]: level: message" *)
      set (file := f0 :: f) in *.
      set (Lp := (if nonempty_list n then [58] else []) ++ n).
      assert (Lp = [] \/ exists n', Lp = 58 :: n' /\ n' <> [] /\ lnos_ok n') as HLp.
      { unfold Lp. destruct n; [left; reflexivity|right; eexists; split; [reflexivity|split; [discriminate|assumption]]]. }
      assert (safe Lp) as HLs.
      { unfold Lp. apply safe_app; [destruct (nonempty_list n); repeat constructor|apply lnos_ok_safe; assumption]. }
      assert (clean Lp) as HLc.
      { unfold Lp. apply clean_app; [destruct (nonempty_list n); repeat constructor; discriminate|apply lnos_ok_clean; assumption]. }
      exists (escape_printable file ++ Lp ++ [58; 32] ++ gcc_name lv ++ [58; 32] ++ escape_printable m). split.
      * replace (file ++ (if nonempty_list n then [58] else []) ++ n ++ [58; 32] ++ gcc_name lv ++ [58; 32] ++ m ++ [10])
          with (file ++ ((Lp ++ [58; 32] ++ gcc_name lv ++ [58; 32]) ++ (m ++ [10])))
          by (unfold Lp; rewrite <- !app_assoc; reflexivity).
        rewrite escape_app_ascii.
        2: { unfold Lp. destruct n; cbn; lia. }
        rewrite escape_safe_prefix.
        2: { apply safe_app; [assumption|]. destruct lv; repeat constructor. }
        rewrite (escape_app_ascii m [10]) by (cbn; lia). rewrite <- !app_assoc. reflexivity.
      * split.
        { apply clean_app; [apply escape_clean; assumption|]. apply clean_app; [assumption|].
          apply clean_app; [repeat constructor; discriminate|]. apply clean_app; [destruct lv; repeat constructor; discriminate|].
          apply clean_app; [repeat constructor; discriminate|assumption]. }
        assert (GP.not_byte 58 (escape_printable file)) as HF.
        { apply not_in_not_byte, escape_keeps_out; [reflexivity|assumption]. }
        pose proof (escape_nonempty file ltac:(discriminate)) as HFn.
        assert (exists lv' p ln m', G.parse_diag_gcc
                  (escape_printable file ++ Lp ++ [58; 32] ++ gcc_name lv ++ [58; 32] ++ escape_printable m)
                  = Some (G.KDiag lv' p ln m')) as (lv' & p & ln & m' & Hp).
        { unfold G.parse_diag_gcc.
          match goal with |- context [G.strip_level true G.all_levels ?X] => destruct (G.strip_level true G.all_levels X) as [[lv0 msg0]|] end;
            [eauto|].
          change [58; 32] with G.s_colon_sp at 1.
          rewrite (split_gcc_loc (escape_printable file) Lp _ HF HLp).
          rewrite gcc_name_is. change [58; 32] with G.s_colon_sp. rewrite strip_level_name_gcc.
          destruct (escape_printable file ++ Lp) eqn:E; [destruct (escape_printable file); [congruence|discriminate]|].
          destruct (G.split_loc (n0 :: l)). eauto. }
        exact (classify_of_diag true _ _ _ _ _ Hp).
  - (* traditional form: "LEVEL: ..." *)
    set (R := if nonempty_list f
              then f ++ (if nonempty_list n then [58] else []) ++ n ++ [58; 32] ++ m
              else m).
    assert (clean R) as HR.
    { unfold R. destruct (nonempty_list f); [|assumption]. apply clean_app; [assumption|].
      apply clean_app; [destruct (nonempty_list n); repeat constructor; discriminate|].
      apply clean_app; [apply lnos_ok_clean; assumption|]. apply clean_app; [repeat constructor; discriminate|assumption]. }
    exists ((traditional_name lv ++ [58; 32]) ++ escape_printable R). split.
    + assert (format_diag o lv f (if nonempty_list f then n else []) m
              = (traditional_name lv ++ [58; 32]) ++ (R ++ [10])) as ->.
      { unfold format_diag, R. rewrite Eg. destruct f; cbn [nonempty_list app]; rewrite <- ?app_assoc; reflexivity. }
      rewrite escape_safe_prefix by (destruct lv; repeat constructor).
      rewrite (escape_app_ascii R [10]) by (cbn; lia). rewrite <- !app_assoc. reflexivity.
    + split; [apply clean_app; [destruct lv; repeat constructor; discriminate|apply escape_clean; assumption]|].
      rewrite <- app_assoc, traditional_name_is. change [58; 32] with G.s_colon_sp.
      destruct (parse_diag_trad_level (conv lv) (escape_printable R)) as (p & ln & m' & Hp).
      exact (classify_of_diag false _ _ _ _ _ Hp).
Qed.

(* ---------- Logf keeps the invariant ---------- *)

Lemma Pr_logf o l lv f n m : LogOKr lv f n m -> Pr (lo_gcc o) l -> Pr (lo_gcc o) (logf o l lv f n m).
Proof.
  intros (Hf & Hf58 & Hm & Hn) Hl. unfold logf. destruct (l_suppress_diag l); [exact Hl|].
  set (f' := if str_eqb f [46] then [] else f).
  assert (LogOKr lv f' n m) as Hok.
  { unfold f'. destruct (str_eqb f [46]); (split; [|split; [|split]]); try assumption; [constructor|intros []]. }
  destruct (diag_line o lv f' n m Hok) as (x & Hx & Hr).
  assert (Pr (lo_gcc o) (out_write l (escape_printable (format_diag o lv f' (if nonempty_list f' then n else []) m)))) as H.
  { apply (Pr_writes (lo_gcc o) l [] _); [|assumption]. cbn [concat app]. rewrite Hx. exists x. auto. }
  destruct lv; exact H.
Qed.

(* ---------- cleanliness of the pieces ---------- *)

Lemma uint_digits_lnos_ok u : lnos_ok (uint_digits u).
Proof. induction u; cbn [uint_digits]; constructor; try assumption; (split; [reflexivity|repeat split; discriminate]). Qed.

Lemma dec_of_Z_lnos_ok z : lnos_ok (dec_of_Z z).
Proof.
  destruct z; cbn [dec_of_Z].
  - repeat constructor; discriminate.
  - apply uint_digits_lnos_ok.
  - constructor; [repeat split; discriminate|apply uint_digits_lnos_ok].
Qed.

Lemma lnos_ok_app a b : lnos_ok a -> lnos_ok b -> lnos_ok (a ++ b).
Proof. unfold lnos_ok. intros. apply Forall_app. split; assumption. Qed.

Lemma linenos_lnos_ok ln : lnos_ok (linenos ln).
Proof.
  unfold linenos. destruct (ln_lineno ln =? -1)%Z; [repeat constructor; discriminate|].
  destruct (ln_lineno ln =? 0)%Z; [constructor|].
  destruct (Nat.eqb (length (ln_raws ln)) 1); [apply dec_of_Z_lnos_ok|].
  apply lnos_ok_app; [apply dec_of_Z_lnos_ok|]. apply lnos_ok_app; [repeat constructor; discriminate|apply dec_of_Z_lnos_ok].
Qed.

Lemma affected_linenos_lnos_ok ln actions : lnos_ok (affected_linenos ln actions).
Proof.
  unfold affected_linenos. destruct actions as [|a actions]; [apply linenos_lnos_ok|].
  match goal with |- context [fold_left ?f ?xs ?i] => destruct (fold_left f xs i) as [first last] end.
  destruct (last =? 0)%Z; [apply linenos_lnos_ok|].
  destruct (first <? last)%Z; [|apply dec_of_Z_lnos_ok].
  apply lnos_ok_app; [apply dec_of_Z_lnos_ok|]. apply lnos_ok_app; [repeat constructor; discriminate|apply dec_of_Z_lnos_ok].
Qed.

(* wrap only moves bytes around and inserts spaces *)
Lemma space_word_pairs_clean s sp wd b :
  clean s -> clean sp -> clean wd -> Forall (fun p => clean (fst p) /\ clean (snd p)) (space_word_pairs s sp wd b).
Proof.
  intros Hs. revert sp wd b. induction Hs as [|c s Hc Hs IH]; intros sp wd b Hsp Hwd; cbn [space_word_pairs].
  - destruct (nonempty_list sp || nonempty_list wd); repeat constructor; assumption.
  - assert (clean [c]) as Hc1 by (repeat constructor; assumption).
    destruct (is_space c); [destruct b|].
    + constructor; [split; assumption|]. apply IH; [assumption|constructor].
    + apply IH; [apply clean_app; assumption|constructor].
    + apply IH; [assumption|apply clean_app; assumption].
Qed.

Lemma wrap_pairs_clean max ps bol sb acc :
  Forall (fun p => clean (fst p) /\ clean (snd p)) ps -> clean sb -> Forall clean acc ->
  clean (fst (wrap_pairs max ps bol sb acc)) /\ Forall clean (snd (wrap_pairs max ps bol sb acc)).
Proof.
  intro Hps. revert bol sb acc. induction Hps as [|[sp wd] ps [Hsp Hwd] Hps IH]; intros bol sb acc Hsb Hacc; cbn [wrap_pairs].
  - cbn. auto.
  - cbn [fst snd] in Hsp, Hwd.
    set (sp' := if bol && nonempty_list sb then [32] else sp).
    assert (clean sp') as Hsp' by (unfold sp'; destruct (bol && nonempty_list sb); [repeat constructor; discriminate|assumption]).
    destruct (nonempty_list sb && (max <? length sb + length sp' + length wd)%nat).
    + apply IH; [apply clean_app; [constructor|apply clean_app; [constructor|assumption]]|].
      apply Forall_app. split; [assumption|repeat constructor; assumption].
    + apply IH; [apply clean_app; [assumption|apply clean_app; assumption]|assumption].
Qed.

Lemma wrap_lines_clean max lines sb acc :
  Forall clean lines -> clean sb -> Forall clean acc -> Forall clean (wrap_lines max lines sb acc).
Proof.
  intro Hl. revert sb acc. induction Hl as [|ln lines Hln Hl IH]; intros sb acc Hsb Hacc; cbn [wrap_lines].
  - destruct (nonempty_list sb); [apply Forall_app; split; [assumption|repeat constructor; assumption]|assumption].
  - assert (Forall clean ((if nonempty_list sb then acc ++ [sb] else acc) ++ [ln])) as Hflush.
    { apply Forall_app. split; [|repeat constructor; assumption].
      destruct (nonempty_list sb); [apply Forall_app; split; [assumption|repeat constructor; assumption]|assumption]. }
    destruct ln as [|c ln']; [apply IH; [constructor|assumption]|].
    destruct ((c =? 32) || (c =? 9) || (c =? 42)); [apply IH; [constructor|assumption]|].
    pose proof (wrap_pairs_clean max (space_word_pairs (c :: ln') [] [] false) true sb acc
                  (space_word_pairs_clean _ _ _ _ Hln ltac:(constructor) ltac:(constructor)) Hsb Hacc) as [H1 H2].
    destruct (wrap_pairs max (space_word_pairs (c :: ln') [] [] false) true sb acc) as [sb' acc'].
    apply IH; assumption.
Qed.

Lemma wrap_clean max e : Forall clean e -> Forall clean (wrap max e).
Proof. intro H. apply wrap_lines_clean; [assumption|constructor|constructor]. Qed.

Lemma shquote_clean s : clean s -> clean (shquote s).
Proof.
  intro H. unfold shquote. destruct (nonempty_list s && forallb shquote_safe s); [assumption|].
  apply clean_app; [repeat constructor; discriminate|]. apply clean_app; [|repeat constructor; discriminate].
  induction H as [|c s Hc Hs IH]; [constructor|]. cbn [flat_map].
  apply clean_app; [|assumption]. destruct (c =? 39); repeat constructor; try assumption; discriminate.
Qed.

Lemma join_clean sep l : clean sep -> Forall clean l -> clean (join sep l).
Proof.
  intros Hs Hl. induction Hl as [|a l Ha Hl IH]; [constructor|].
  cbn [join]. destruct l; [assumption|]. apply clean_app; [assumption|apply clean_app; assumption].
Qed.

Lemma command_line_clean args a cl : Forall clean args -> clean a -> command_line args a = Some cl -> clean cl.
Proof.
  intros Hargs Ha. unfold command_line. destruct args as [|a0 rest]; [discriminate|]. intro H.
  assert (cl = escape_printable (join [32] (map shquote (a0 :: a :: rest)))) as -> by congruence. clear H.
  inversion Hargs as [|? ? Ha0 Hrest]; subst. apply escape_clean, join_clean; [repeat constructor; discriminate|].
  apply Forall_forall. intros x Hx. apply in_map_iff in Hx as (y & <- & Hy). apply shquote_clean.
  destruct Hy as [<-|[<-|Hy]]; [assumption|assumption|]. rewrite Forall_forall in Hrest. auto.
Qed.

(* ---------- events whose strings contain no stray newline ---------- *)

Definition clean_file (f : str) : Prop := clean f /\ ~ In 58 f.   (* no newline, no ':' *)

Definition clean_line (ln : line) : Prop := clean_file (ln_file ln) /\ Forall raw_clean (ln_raws ln).

Definition clean_event (ev : event) : Prop :=
  match ev with
  | EvDiag ln lv f m => clean_line ln /\ clean m
  | EvExplain e => Forall clean e
  | EvFix ln fv lv f m e actions =>
    clean_line ln /\ clean m /\ Forall clean e /\ Forall (fun a : str * Z => clean (fst a)) actions /\
    Forall raw_clean (fv_above fv) /\ Forall raw_clean (fv_texts fv) /\ Forall raw_clean (fv_below fv)
  | EvSaved _ => True
  | EvTechError _ _ => True
  | EvSummary args => Forall clean args
  end.

Lemma src_ok_raw g t : raw_clean t -> src_ok (GLr g) t.
Proof. intros Ht p Hp. apply src_unit_GLr; assumption. Qed.

Lemma explanation_ok_clean g e : Forall clean e -> explanation_ok (GLr g) e.
Proof.
  intro He. split; [apply GLr_nl|].
  eapply Forall_impl; [|apply wrap_clean; exact He]. intros x Hx. apply expl_unit_GLr. assumption.
Qed.

Lemma ev_ok_clean g ev : clean_event ev -> ev_ok True (GLr g) LogOKr ev.
Proof.
  intro Hev. split; [left; exact I|].
  assert (forall ts, Forall raw_clean ts -> Forall (src_ok (GLr g)) ts) as Hsrc
    by (intros ts; apply Forall_impl; apply src_ok_raw).
  destruct ev; cbn [clean_event] in Hev.
  - destruct Hev as (((Hf & Hf58) & Hr) & Hm). split.
    + repeat split; [apply Hsrc; assumption|constructor|constructor|constructor].
    + repeat split; try assumption. apply linenos_lnos_ok.
  - apply explanation_ok_clean. assumption.
  - destruct Hev as (((Hf & Hf58) & Hr) & Hm & He & Hacts & Ha & Ht & Hb).
    split; [repeat split; apply Hsrc; assumption|].
    split; [repeat split; try assumption; apply affected_linenos_lnos_ok|].
    split; [|apply explanation_ok_clean; assumption].
    eapply Forall_impl; [|exact Hacts]. intros a Ha'. repeat split; try assumption.
    destruct (snd a =? 0)%Z; [constructor|apply dec_of_Z_lnos_ok].
  - exact I.
  - exact I.
  - assert (forall h, In h [hint_e; hint_fs; hint_F] -> hint_ok (GLr g) args h) as Hh.
    { intros h Hin cl Hcl. apply hint_unit_GLr; [|assumption].
      apply (command_line_clean args (fst h) cl Hev); [|assumption].
      destruct Hin as [<-|[<-|[<-|[]]]]; repeat constructor; discriminate. }
    repeat split; apply Hh; cbn; auto.
Qed.

(* ---------- the theorem ---------- *)

Lemma Pr_run o evs : Forall clean_event evs -> Pr (lo_gcc o) (log_run o evs).
Proof.
  intro Hev.
  apply (inv_run o (Pr (lo_gcc o)) True (GLr (lo_gcc o)) LogOKr); try (intros l v H; exact H).
  - intros l ws w. apply Pr_writes.
  - intros l. apply Pr_separate.
  - intros l s _ H. exact H.
  - intros l lv f n m. apply Pr_logf.
  - intros. apply summary_line_GLr.
  - eapply Forall_impl; [|exact Hev]. intros ev. apply ev_ok_clean.
  - split; [reflexivity|]. exists []. split; [reflexivity|constructor].
Qed.

(* For every option record and every list of events whose strings carry no stray newline
   (and whose file names contain no ':'): stdout is a sequence of newline-terminated lines,
   each of which the whole-run recogniser classifies as something other than KUnknown *)
Theorem logger_lines_recognised o evs :
  Forall clean_event evs ->
  exists ls, sw_out (l_out (log_run o evs)) = unlines ls /\
             Forall (fun x => clean x /\ G.classify (lo_gcc o) x <> G.KUnknown) ls.
Proof. intro H. destruct (Pr_run o evs H) as (_ & ls & H1 & H2). exists ls. auto. Qed.

(* diag_line_shape: the line Logf writes for (level, file, linenos, message) is
   "LEVEL: [file[:linenos]: ]message" resp. "[file[:linenos]: ]level: message" with -g,
   escaped, and the recogniser reads it as a diagnostic of that level *)
Theorem diag_line_shape o lv f n m :
  clean f -> ~ In 58 f -> clean m -> lnos_ok n ->
  exists x, escape_printable (format_diag o lv f (if nonempty_list f then n else []) m) = x ++ [10] /\
            clean x /\ G.classify (lo_gcc o) x <> G.KUnknown.
Proof. intros Hf H58 Hm Hn. destruct (diag_line o lv f n m (conj Hf (conj H58 (conj Hm Hn)))) as (x & H1 & H2). eauto. Qed.

(* the physical lines that the loader delivers (C09: raw_ok) are raw_clean *)
Lemma raw_ok_raw_clean r : PV.Spec.LinesSpec.raw_ok r = true -> raw_clean r.
Proof.
  unfold PV.Spec.LinesSpec.raw_ok. intro H. apply andb_true_iff in H as [Hne Hnl].
  destruct r as [|c r]; [discriminate|].
  assert (clean (removelast (c :: r))) as Hc.
  { unfold clean. apply Forall_forall. intros x Hx ->. apply negb_true_iff in Hnl.
    assert (existsb PV.Spec.LinesSpec.is_nl (removelast (c :: r)) = true); [|congruence].
    apply existsb_exists. exists 10. split; [assumption|reflexivity]. }
  pose proof (app_removelast_last 0 (l := c :: r) ltac:(discriminate)) as E.
  destruct (N.eqb_spec (last (c :: r) 0) 10) as [E10|E10].
  - exists (removelast (c :: r)). split; [assumption|]. right. rewrite <- E10. exact E.
  - exists (c :: r). split; [|left; reflexivity]. rewrite E. apply clean_app; [assumption|repeat constructor; assumption].
Qed.
