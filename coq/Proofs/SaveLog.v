(* C05, "is reported on stderr": what Logger.TechErrorf does with the failures of the
   save path (Model/SaveLog.v), for every Logger state; and the refutation of the
   variant that reports through Logf. *)
From Coq Require Import List Lia.
From PV Require Import Lib.Bytes Lib.Utf8 Model.Escape Model.FsProto Model.Logger Model.SaveLog
  Proofs.Escape Proofs.FsProtoFault Proofs.LoggerOut.
From Coq Require Import ZifyBool ZifyN ZifyNat.
Import ListNotations.
Open Scope N_scope.

(* ---------- the SeparatorWriter never drops a byte ---------- *)

Lemma sw_write_cons w b t : sw_write w (b :: t) = sw_write (sw_write_byte w b) t.
Proof. reflexivity. Qed.

Lemma sw_bytes_write_byte w b :
  sw_bytes (sw_write_byte w b) =
  sw_bytes w ++ (if (sw_state w =? 2) && negb (b =? 10) then [10] else []) ++ [b].
Proof.
  unfold sw_bytes, sw_write_byte. destruct (b =? 10) eqn:Hb.
  - apply N.eqb_eq in Hb. subst b. rewrite andb_false_r. cbn [sw_out sw_line].
    rewrite app_nil_r. change ([] ++ [10]) with [10]. apply app_assoc.
  - destruct (sw_state w =? 2); cbn [sw_out sw_line andb negb].
    + rewrite <- (app_assoc (sw_out w) (sw_line w) ([10] ++ [b])),
              <- (app_assoc (sw_out w) (sw_line w ++ [10]) [b]), <- (app_assoc (sw_line w) [10] [b]).
      reflexivity.
    + change ([] ++ [b]) with [b]. apply app_assoc.
Qed.

Lemma sw_state_write_byte w b : sw_state (sw_write_byte w b) <> 2.
Proof.
  unfold sw_write_byte.
  destruct (b =? 10); [destruct (sw_state w =? 1)|destruct (sw_state w =? 2)]; cbn [sw_state]; discriminate.
Qed.

Lemma sw_bytes_write_nosep t : forall w, sw_state w <> 2 -> sw_bytes (sw_write w t) = sw_bytes w ++ t.
Proof.
  induction t as [|b t IH]; intros w H.
  - unfold sw_write. cbn [fold_left]. rewrite app_nil_r. reflexivity.
  - rewrite sw_write_cons, IH by apply sw_state_write_byte.
    rewrite sw_bytes_write_byte. apply N.eqb_neq in H. rewrite H. cbn [andb].
    rewrite <- (app_assoc (sw_bytes w) ([] ++ [b]) t). reflexivity.
Qed.

Lemma sw_bytes_write w b t : b <> 10 ->
  sw_bytes (sw_write w (b :: t)) = sw_bytes w ++ sep_pending w ++ b :: t.
Proof.
  intro Hb. rewrite sw_write_cons, sw_bytes_write_nosep by apply sw_state_write_byte.
  rewrite sw_bytes_write_byte. apply N.eqb_neq in Hb. rewrite Hb. unfold sep_pending.
  destruct (sw_state w =? 2); cbn [andb negb].
  - rewrite <- (app_assoc (sw_bytes w) ([10] ++ [b]) t). reflexivity.
  - rewrite <- (app_assoc (sw_bytes w) ([] ++ [b]) t). reflexivity.
Qed.

Lemma sw_bytes_write_gen w t : exists x, sw_bytes (sw_write w t) = sw_bytes w ++ x ++ t.
Proof.
  destruct t as [|b t].
  - exists []. unfold sw_write. cbn [fold_left app]. rewrite app_nil_r. reflexivity.
  - rewrite sw_write_cons, sw_bytes_write_nosep by apply sw_state_write_byte.
    rewrite sw_bytes_write_byte. rewrite <- (app_assoc (sw_bytes w) _ t).
    eexists. f_equal. symmetry. exact (app_assoc _ [b] t).
Qed.

(* after a text that ends in "\n" the line buffer is empty and no separator is pending *)
Lemma sw_write_nl_flushed w p :
  sw_line (sw_write w (p ++ [10])) = [] /\
  sw_state (sw_write w (p ++ [10])) <> 1 /\ sw_state (sw_write w (p ++ [10])) <> 2.
Proof.
  unfold sw_write. rewrite fold_left_app. cbn [fold_left].
  set (w' := fold_left sw_write_byte p w). unfold sw_write_byte. rewrite N.eqb_refl.
  cbn [sw_line sw_state]. split; [reflexivity|].
  destruct (sw_state w' =? 1); split; discriminate.
Qed.

Lemma at_line_start_new_sw : at_line_start new_sw.
Proof. split; [reflexivity|discriminate]. Qed.

Lemma at_line_start_sep w : at_line_start w -> sep_pending w = [].
Proof. intros [_ H]. unfold sep_pending. apply N.eqb_neq in H. rewrite H. reflexivity. Qed.

Lemma at_line_start_bytes w : at_line_start w -> sw_bytes w = sw_out w.
Proof. intros [H _]. unfold sw_bytes. rewrite H. apply app_nil_r. Qed.

(* ---------- the ERROR line ---------- *)

Definition error_prefix : str := [69; 82; 82; 79; 82; 58; 32].

Lemma error_prefix_safe : safe error_prefix.
Proof. unfold safe, error_prefix. repeat (apply Forall_cons; [reflexivity|]). apply Forall_nil. Qed.

Lemma tech_line_prefix loc msg :
  tech_line loc msg =
  error_prefix ++ escape_printable ((loc ++ (if nonempty_list loc then [58; 32] else [])) ++ msg ++ [10]).
Proof. unfold tech_line. apply (escape_safe_prefix error_prefix). apply error_prefix_safe. Qed.

Lemma tech_line_head loc msg : exists r, tech_line loc msg = 69 :: r.
Proof. rewrite tech_line_prefix. eexists. reflexivity. Qed.

Lemma tech_line_ends loc msg : ends_nl (tech_line loc msg).
Proof.
  unfold tech_line. cbv zeta. apply escape_ends_nl.
  exists ([69; 82; 82; 79; 82; 58; 32] ++ (loc ++ (if nonempty_list loc then [58; 32] else [])) ++ msg).
  rewrite <- (app_assoc [69; 82; 82; 79; 82; 58; 32] _ [10]), <- (app_assoc (loc ++ _) msg [10]).
  reflexivity.
Qed.

(* only printable ASCII (tab and newline allowed) in location and message: the line is
   the plain text *)
Lemma tech_line_printable loc msg :
  Forall (fun b => xprint b = true) loc -> Forall (fun b => xprint b = true) msg ->
  tech_line loc msg =
  [69; 82; 82; 79; 82; 58; 32] ++ (loc ++ (if nonempty_list loc then [58; 32] else [])) ++ msg ++ [10].
Proof.
  intros Hl Hm. unfold tech_line. apply escape_safe_id.
  apply safe_app; [apply error_prefix_safe|].
  apply safe_app; [apply safe_app; [exact Hl|]|apply safe_app; [exact Hm|]].
  - destruct (nonempty_list loc); repeat (apply Forall_cons; [reflexivity|]); apply Forall_nil.
  - apply Forall_cons; [reflexivity|apply Forall_nil].
Qed.

(* ---------- TechErrorf ---------- *)

Lemma tech_error_err l loc msg :
  l_err (Model.Logger.tech_error l loc msg) = sw_write (l_err l) (tech_line loc msg).
Proof. reflexivity. Qed.

Lemma tech_error_bytes l loc msg :
  stderr_bytes (Model.Logger.tech_error l loc msg) =
  stderr_bytes l ++ sep_pending (l_err l) ++ tech_line loc msg.
Proof.
  unfold stderr_bytes. rewrite tech_error_err. destruct (tech_line_head loc msg) as [r Hr].
  rewrite Hr. apply sw_bytes_write. discriminate.
Qed.

Lemma tech_error_flushed l loc msg :
  at_line_start (l_err (Model.Logger.tech_error l loc msg)) /\
  sw_state (l_err (Model.Logger.tech_error l loc msg)) <> 1.
Proof.
  rewrite tech_error_err. destruct (tech_line_ends loc msg) as [p Hp]. rewrite Hp.
  destruct (sw_write_nl_flushed (l_err l) p) as (H1 & H2 & H3).
  split; [split; assumption|assumption].
Qed.

Theorem tech_error_stream : forall (o : opts) (werror : bool) (l : logger) (loc msg : str),
  let l' := Model.Logger.tech_error l loc msg in
  l' = set_err l (l_err l') /\
  l_out l' = l_out l /\ stdout_bytes l' = stdout_bytes l /\
  l_errors l' = l_errors l /\ l_warnings l' = l_warnings l /\ l_notes l' = l_notes l /\
  l_suppress_diag l' = l_suppress_diag l /\ l_suppress_expl l' = l_suppress_expl l /\
  exit_status werror l' = exit_status werror l /\
  stderr_bytes l' = stderr_bytes l ++ sep_pending (l_err l) ++ tech_line loc msg /\
  (exists rest, tech_line loc msg = [69; 82; 82; 79; 82; 58; 32] ++ rest) /\
  at_line_start (l_err l') /\ sw_state (l_err l') <> 1 /\
  sw_out (l_err l') = stderr_bytes l ++ sep_pending (l_err l) ++ tech_line loc msg /\
  (at_line_start (l_err l) -> sw_out (l_err l') = sw_out (l_err l) ++ tech_line loc msg).
Proof.
  intros o werror l loc msg l'. subst l'.
  destruct (tech_error_flushed l loc msg) as [Hs H1].
  repeat match goal with |- _ /\ _ => split end; try reflexivity.
  - apply tech_error_bytes.
  - rewrite tech_line_prefix. eexists. reflexivity.
  - exact Hs.
  - exact H1.
  - rewrite <- tech_error_bytes. symmetry. apply at_line_start_bytes. exact Hs.
  - intro H0. rewrite <- (at_line_start_bytes _ Hs).
    change (sw_bytes (l_err (Model.Logger.tech_error l loc msg))) with (stderr_bytes (Model.Logger.tech_error l loc msg)).
    rewrite tech_error_bytes, (at_line_start_sep _ H0). unfold stderr_bytes.
    rewrite (at_line_start_bytes _ H0). reflexivity.
Qed.

(* ---------- a list of failures ---------- *)

Lemma report_all_cons l e es detail :
  report_all l (e :: es) detail = report_all (report_one l e (detail e)) es detail.
Proof. reflexivity. Qed.

Lemma report_all_inv {A : Type} (f : logger -> A) :
  (forall l loc msg, f (Model.Logger.tech_error l loc msg) = f l) ->
  forall es detail l, f (report_all l es detail) = f l.
Proof.
  intros Hf es detail. induction es as [|e es IH]; intro l; [reflexivity|].
  rewrite report_all_cons, IH. unfold report_one. apply Hf.
Qed.

Lemma report_all_bytes_start es detail : forall l, at_line_start (l_err l) ->
  stderr_bytes (report_all l es detail) = stderr_bytes l ++ report_lines es detail /\
  at_line_start (l_err (report_all l es detail)).
Proof.
  induction es as [|e es IH]; intros l Hl.
  - unfold report_lines. cbn [report_all fold_left flat_map]. rewrite app_nil_r. split; [reflexivity|exact Hl].
  - rewrite report_all_cons.
    destruct (IH (report_one l e (detail e))) as [Hb Hs].
    { unfold report_one. apply tech_error_flushed. }
    split; [|exact Hs]. rewrite Hb. unfold report_one at 1. rewrite tech_error_bytes.
    rewrite (at_line_start_sep _ Hl). unfold report_lines. cbn [flat_map]. unfold error_line.
    change ([] ++ tech_line (snd e) (err_message (fst e) (detail e))) with (tech_line (snd e) (err_message (fst e) (detail e))).
    symmetry. apply app_assoc.
Qed.

Lemma report_all_bytes es detail l :
  stderr_bytes (report_all l es detail) =
  stderr_bytes l ++ (match es with [] => [] | _ :: _ => sep_pending (l_err l) end) ++ report_lines es detail /\
  (es <> [] -> at_line_start (l_err (report_all l es detail))).
Proof.
  destruct es as [|e es].
  - unfold report_lines. cbn [report_all fold_left flat_map app]. rewrite app_nil_r.
    split; [reflexivity|congruence].
  - rewrite report_all_cons.
    destruct (report_all_bytes_start es detail (report_one l e (detail e))) as [Hb Hs].
    { unfold report_one. apply tech_error_flushed. }
    split; [|intros _; exact Hs]. rewrite Hb. unfold report_one at 1. rewrite tech_error_bytes.
    unfold report_lines. cbn [flat_map]. unfold error_line.
    rewrite <- (app_assoc (stderr_bytes l) _ _), <- (app_assoc (sep_pending (l_err l)) _ _). reflexivity.
Qed.

Lemma report_lines_nonempty es detail : es <> [] -> report_lines es detail <> [].
Proof.
  destruct es as [|e es]; [congruence|]. intros _. unfold report_lines. cbn [flat_map].
  unfold error_line. destruct (tech_line_head (snd e) (err_message (fst e) (detail e))) as [r ->].
  discriminate.
Qed.

Lemma report_lines_infix es detail e : In e es ->
  exists a b, report_lines es detail = a ++ error_line e (detail e) ++ b.
Proof.
  intro Hin. destruct (in_split _ _ Hin) as (l1 & l2 & ->).
  exists (report_lines l1 detail), (report_lines l2 detail).
  unfold report_lines. rewrite flat_map_app. reflexivity.
Qed.

Lemma app_grows {A : Type} (x y : list A) : y <> [] -> x ++ y <> x.
Proof.
  intros Hy H. apply Hy. apply (app_inv_head x). rewrite app_nil_r. exact H.
Qed.

Theorem report_all_on_stderr : forall (o : opts) (werror : bool) (l0 : logger)
    (es : list (errkind * path)) (detail : errkind * path -> str),
  let l := report_all l0 es detail in
  (es <> [] -> stderr_bytes l <> stderr_bytes l0) /\
  stdout_bytes l = stdout_bytes l0 /\ l_out l = l_out l0 /\
  l_errors l = l_errors l0 /\ l_warnings l = l_warnings l0 /\ l_notes l = l_notes l0 /\
  exit_status werror l = exit_status werror l0 /\
  l_suppress_diag l = l_suppress_diag l0 /\ l_suppress_expl l = l_suppress_expl l0 /\
  stderr_bytes l = stderr_bytes l0 ++ (match es with [] => [] | _ :: _ => sep_pending (l_err l0) end)
                                   ++ report_lines es detail /\
  (forall e, In e es ->
     exists a b, stderr_bytes l = stderr_bytes l0 ++ a ++ error_line e (detail e) ++ b) /\
  (es <> [] -> at_line_start (l_err l)) /\
  (at_line_start (l_err l0) ->
     at_line_start (l_err l) /\ sw_out (l_err l) = sw_out (l_err l0) ++ report_lines es detail).
Proof.
  intros o werror l0 es detail l. subst l.
  destruct (report_all_bytes es detail l0) as [Hb Hs].
  repeat match goal with |- _ /\ _ => split end.
  - intro Hne. rewrite Hb. apply app_grows. intro H. apply app_eq_nil in H.
    apply (report_lines_nonempty es detail Hne). apply H.
  - apply (report_all_inv stdout_bytes). reflexivity.
  - apply (report_all_inv l_out). reflexivity.
  - apply (report_all_inv l_errors). reflexivity.
  - apply (report_all_inv l_warnings). reflexivity.
  - apply (report_all_inv l_notes). reflexivity.
  - apply (report_all_inv (exit_status werror)). reflexivity.
  - apply (report_all_inv l_suppress_diag). reflexivity.
  - apply (report_all_inv l_suppress_expl). reflexivity.
  - exact Hb.
  - intros e Hin. destruct (report_lines_infix es detail e Hin) as (a & b & Hab).
    rewrite Hb, Hab.
    exists ((match es with [] => [] | _ :: _ => sep_pending (l_err l0) end) ++ a), b.
    rewrite <- (app_assoc _ a _). reflexivity.
  - exact Hs.
  - intro H0. destruct (report_all_bytes_start es detail l0 H0) as [Hb' Hs'].
    split; [exact Hs'|]. unfold stderr_bytes in Hb'.
    rewrite (at_line_start_bytes _ Hs'), (at_line_start_bytes _ H0) in Hb'. exact Hb'.
Qed.

Theorem save_failure_reported_on_stderr : forall (s : state) (prog : list action) (k : nat) (fl : fault)
    (o : opts) (werror : bool) (l0 : logger) (detail : errkind * path -> str),
  let w := run prog (init_world s (Some (k, fl))) in
  let l := report_all l0 (w_stderr w) detail in
  ((k < w_count w)%nat -> stderr_bytes l <> stderr_bytes l0) /\
  stdout_bytes l = stdout_bytes l0 /\ l_out l = l_out l0 /\
  l_errors l = l_errors l0 /\ l_warnings l = l_warnings l0 /\ l_notes l = l_notes l0 /\
  exit_status werror l = exit_status werror l0 /\
  l_suppress_diag l = l_suppress_diag l0 /\ l_suppress_expl l = l_suppress_expl l0 /\
  stderr_bytes l = stderr_bytes l0 ++ (match w_stderr w with [] => [] | _ :: _ => sep_pending (l_err l0) end)
                                   ++ report_lines (w_stderr w) detail /\
  (forall e, In e (w_stderr w) ->
     exists a b, stderr_bytes l = stderr_bytes l0 ++ a ++ error_line e (detail e) ++ b) /\
  ((k < w_count w)%nat -> at_line_start (l_err l)) /\
  (at_line_start (l_err l0) ->
     at_line_start (l_err l) /\ sw_out (l_err l) = sw_out (l_err l0) ++ report_lines (w_stderr w) detail).
Proof.
  intros s prog k fl o werror l0 detail w l. subst l.
  pose proof (fault_atomic s prog k fl) as Hf. cbv zeta in Hf. destruct Hf as [_ Hf]. fold w in Hf.
  pose proof (report_all_on_stderr o werror l0 (w_stderr w) detail) as H. cbv zeta in H.
  destruct H as (H1 & H2 & H3 & H4 & H5 & H6 & H7 & H8 & H9 & H10 & H11 & H12 & H13).
  repeat match goal with |- _ /\ _ => split end; try assumption.
  - intro Hk. apply H1. apply Hf. exact Hk.
  - intro Hk. apply H12. apply Hf. exact Hk.
Qed.

(* ---------- the variant through Logf ---------- *)

Lemma logf_suppressed : forall (o : opts) (l : logger) (e : errkind * path) (detail : str),
  l_suppress_diag l = true ->
  let l' := report_one_logf o l e detail in
  stderr_bytes l' = stderr_bytes l /\ stdout_bytes l' = stdout_bytes l /\
  l_err l' = l_err l /\ l_out l' = l_out l /\ l_errors l' = l_errors l /\
  l_suppress_diag l' = false.
Proof.
  intros o l e detail H l'. subst l'. unfold report_one_logf, logf. rewrite H.
  repeat split; reflexivity.
Qed.

Lemma ends_nl_nonempty s : ends_nl s -> s <> [].
Proof. intros [p ->] H. apply app_eq_nil in H. destruct H as [_ H]. discriminate H. Qed.

Lemma logf_unsuppressed : forall (o : opts) (l : logger) (e : errkind * path) (detail : str),
  l_suppress_diag l = false ->
  let l' := report_one_logf o l e detail in
  stderr_bytes l' = stderr_bytes l /\ l_err l' = l_err l /\
  stdout_bytes l' <> stdout_bytes l /\ l_errors l' = l_errors l + 1.
Proof.
  intros o l e detail H l'. subst l'. unfold report_one_logf, logf. rewrite H.
  repeat match goal with |- _ /\ _ => split end; try reflexivity.
  unfold stdout_bytes. cbn [l_out set_emitted bump set_errors out_write set_out].
  match goal with |- sw_bytes (sw_write _ ?t) <> _ =>
    destruct (sw_bytes_write_gen (l_out l) t) as [x Hx]; rewrite Hx;
    apply app_grows; intro Hn; apply app_eq_nil in Hn; destruct Hn as [_ Hn];
    revert Hn; apply ends_nl_nonempty, escape_ends_nl, format_diag_ends
  end.
Qed.

Theorem logf_report_refuted :
  (* suppressDiag set: the failure is reported nowhere *)
  (forall (o : opts) (l : logger) (e : errkind * path) (detail : str),
     l_suppress_diag l = true ->
     stderr_bytes (report_one_logf o l e detail) = stderr_bytes l /\
     stdout_bytes (report_one_logf o l e detail) = stdout_bytes l) /\
  (* such a state is reached: --autofix --only foo, after one Autofix.Apply of a diagnostic "bar" *)
  (exists (o : opts) (l : logger) (e : errkind * path) (detail : str),
     l = log_run o [ex_fix_event] /\ l_suppress_diag l = true /\
     stderr_bytes (report_one_logf o l e detail) = stderr_bytes l /\
     stdout_bytes (report_one_logf o l e detail) = stdout_bytes l /\
     stderr_bytes (report_one l e detail) = stderr_bytes l ++ error_line e detail /\
     error_line e detail = ex_error_text) /\
  (* suppressDiag clear: the line goes to stdout and counts as an error *)
  (forall (o : opts) (l : logger) (e : errkind * path) (detail : str),
     l_suppress_diag l = false ->
     stderr_bytes (report_one_logf o l e detail) = stderr_bytes l /\
     stdout_bytes (report_one_logf o l e detail) <> stdout_bytes l /\
     l_errors (report_one_logf o l e detail) = l_errors l + 1) /\
  (exists (o : opts) (l : logger) (e : errkind * path) (detail : str),
     l_suppress_diag l = false /\
     stderr_bytes (report_one_logf o l e detail) = stderr_bytes l /\
     stdout_bytes (report_one_logf o l e detail) = stdout_bytes l ++ ex_error_text /\
     l_errors (report_one_logf o l e detail) = l_errors l + 1 /\
     exit_status false l = 0 /\ exit_status false (report_one_logf o l e detail) = 1).
Proof.
  split; [|split; [|split]].
  - intros o l e detail H. destruct (logf_suppressed o l e detail H) as (H1 & H2 & _). split; assumption.
  - exists ex_only_opts, ex_suppressed, ex_entry, ex_detail. vm_compute. repeat split; reflexivity.
  - intros o l e detail H. destruct (logf_unsuppressed o l e detail H) as (H1 & _ & H2 & H3).
    repeat split; assumption.
  - exists ex_only_opts, new_logger, ex_entry, ex_detail. vm_compute. repeat split; reflexivity.
Qed.

(* ---------- examples ---------- *)

Lemma tech_error_example :
  let l := Model.Logger.tech_error new_logger ex_tmp ([67; 97; 110; 110; 111; 116; 32; 119; 114; 105; 116; 101; 58; 32] ++ ex_detail) in
  stderr_bytes l = ex_error_text /\ sw_out (l_err l) = ex_error_text /\ stdout_bytes l = [] /\
  l_errors l = 0 /\ exit_status true l = 0.
Proof. vm_compute. repeat split; reflexivity. Qed.

Lemma report_one_example :
  report_one new_logger ex_entry ex_detail =
  Model.Logger.tech_error new_logger ex_tmp ([67; 97; 110; 110; 111; 116; 32; 119; 114; 105; 116; 101; 58; 32] ++ ex_detail) /\
  error_line ex_entry ex_detail = ex_error_text /\
  stderr_bytes (report_one ex_suppressed ex_entry ex_detail) = ex_error_text /\
  stdout_bytes (report_one ex_suppressed ex_entry ex_detail) = [].
Proof. vm_compute. repeat split; reflexivity. Qed.
