(* C19: Pkgsrc.Relpath leads from `from` to `to`. *)
From PV Require Import Lib.Bytes Model.Paths Spec.PathDenote Proofs.PathsBase Proofs.PathsClean
  Proofs.PathsRender Proofs.PathsPrefix Proofs.PathsContains Proofs.PathsRel.
Open Scope N_scope.

Definition absform (e : list str) : str := render true e.

Lemma shape_true e : Forall good e -> shape true e.
Proof. intro H. exists O, e. repeat split; auto. Qed.

Lemma shape_true_inv e : shape true e -> Forall good e.
Proof. intros (dd & ns & -> & H & Hd). rewrite (Hd eq_refl). exact H. Qed.

Lemma good_seg_name x : good x -> seg_is_name x = true.
Proof. intros [H _]. unfold real_name in H. apply andb_true_iff in H. tauto. Qed.

Lemma shape_seg_names rt e : shape rt e -> Forall (fun x => seg_is_name x = true) e.
Proof.
  intros (dd & ns & -> & H & _). apply Forall_app. split.
  - apply Forall_forall. intros x Hx. apply repeat_spec in Hx. subst. reflexivity.
  - eapply Forall_impl; [|exact H]. intros a Ha. apply good_seg_name. exact Ha.
Qed.

Lemma filter_all {A} (f : A -> bool) l : Forall (fun x => f x = true) l -> filter f l = l.
Proof. induction 1 as [|x l Hx _ IH]; simpl; [reflexivity|]. rewrite Hx, IH. reflexivity. Qed.

Lemma components_render rt e : shape rt e -> components (render rt e) = root_mark rt ++ e.
Proof.
  intro Hs. unfold components. rewrite (rooted_render rt e Hs).
  assert (Hn : filter seg_is_name (segs (render rt e)) = e).
  { rewrite (segs_split (render rt e)). unfold render. destruct rt.
    - change (slash :: join_slash e) with ([] ++ slash :: join_slash e). rewrite split_app_slash.
      simpl split_slash at 1. simpl app. cbn [filter]. change (seg_is_name []) with false. cbv iota.
      destruct e as [|x t]; [reflexivity|].
      rewrite split_join; [|discriminate|apply (shape_noslash true); exact Hs].
      apply filter_all. apply (shape_seg_names true). exact Hs.
    - destruct e as [|x t]; [reflexivity|].
      rewrite split_join; [|discriminate|apply (shape_noslash false); exact Hs].
      apply filter_all. apply (shape_seg_names false). exact Hs. }
  rewrite Hn. destruct rt; reflexivity.
Qed.

Lemma parts_render rt e :
  shape rt e -> parts (render rt e) = match root_mark rt ++ e with [] => [dotstr] | l => l end.
Proof.
  intro Hs. rewrite parts_components by (apply render_nonempty; exact Hs).
  rewrite (components_render rt e Hs). reflexivity.
Qed.

(* ---------- HasPrefixPath on absolute clean paths ---------- *)
Lemma hpp_abs ea eb : Forall good ea -> Forall good eb ->
  has_prefix_path (absform ea) (absform eb) = list_prefixb eb ea.
Proof.
  intros Ha Hb. pose proof (shape_true ea Ha) as Sa. pose proof (shape_true eb Hb) as Sb.
  rewrite prefix_is_parts_prefix.
  - unfold path_prefixb. unfold absform. rewrite (components_render true ea Sa), (components_render true eb Sb).
    rewrite !rooted_render by assumption. simpl. reflexivity.
  - apply render_nonempty. exact Sa.
  - apply render_nonempty. exact Sb.
  - intro H. unfold absform in H. rewrite (components_render true eb Sb) in H. discriminate.
Qed.

(* ---------- Path.Rel between absolute clean paths ---------- *)
Lemma list_str_eq_dec (a b : list str) : {a = b} + {a <> b}.
Proof. apply list_eq_dec. apply str_eqb_dec. Qed.

Lemma elems_ok t : Forall good t -> Forall nocolon t ->
  Forall (fun x => nonempty x /\ noslash x /\ nocolon x) t.
Proof.
  intros Hg Hc. apply Forall_forall. intros x Hx.
  eapply Forall_forall in Hg; [|exact Hx]. eapply Forall_forall in Hc; [|exact Hx].
  repeat split; [apply good_nonempty; exact Hg|apply Hg|exact Hc].
Qed.

Lemma new_rel_path_ok r : rooted r = false -> nocolon r -> new_rel_path r = Ok r.
Proof. intros H1 H2. unfold new_rel_path. rewrite (nocolon_is_abs r H2), H1. reflexivity. Qed.

Lemma Forall_app_l {A} (P : A -> Prop) a b : Forall P (a ++ b) -> Forall P a.
Proof. intro H. apply Forall_app in H. tauto. Qed.
Lemma Forall_app_r {A} (P : A -> Prop) a b : Forall P (a ++ b) -> Forall P b.
Proof. intro H. apply Forall_app in H. tauto. Qed.

Lemma path_rel_abs ea eb : Forall good ea -> Forall good eb -> Forall nocolon eb ->
  exists r, path_rel (absform ea) (absform eb) = Ok r /\ rooted r = false /\ nocolon r /\ r <> []
            /\ walk (rev ea) (segs r) = rev eb
            /\ ((ea = eb /\ r = dotstr) \/
                exists c b' t', ea = c ++ b' /\ eb = c ++ t' /\ (b' <> [] \/ t' <> [])
                                /\ r = join_slash (repeat dotdot (length b') ++ t')
                                /\ segs r = repeat dotdot (length b') ++ t').
Proof.
  intros Ha Hb Hc. pose proof (shape_true ea Ha) as Sa. pose proof (shape_true eb Hb) as Sb.
  destruct (list_str_eq_dec ea eb) as [->|Hne].
  - exists dotstr. unfold path_rel, rel_go. rewrite str_eqb_refl. repeat split; try discriminate.
    + intros [H|[]]; discriminate.
    + left. split; reflexivity.
  - destruct (rel_strip_spec ea eb (shape_nonempty _ _ Sa) (shape_nonempty _ _ Sb) Hne)
      as (c & b' & t' & Hst & E1 & E2 & Hnn & _).
    assert (Hb' : Forall good b') by (rewrite E1 in Ha; apply Forall_app_r in Ha; exact Ha).
    assert (Ht' : Forall good t') by (rewrite E2 in Hb; apply Forall_app_r in Hb; exact Hb).
    assert (Hct' : Forall nocolon t') by (rewrite E2 in Hc; apply Forall_app_r in Hc; exact Hc).
    pose proof (rel_go_render true ea eb b' t' Sa Sb Hne (or_introl eq_refl) Hst) as Hgo.
    assert (Hhd : str_eqb (hd [] b') dotdot = false).
    { destruct b' as [|x b'']; [reflexivity|]. inversion Hb' as [|? ? [Hx _] _]; subst. simpl.
      unfold real_name in Hx. apply andb_true_iff in Hx as [_ Hx]. apply negb_true_iff in Hx. exact Hx. }
    rewrite Hhd in Hgo.
    assert (Hn0 : length b' <> O \/ t' <> []).
    { destruct Hnn as [H|H]; [left; destruct b'; [contradiction|discriminate]|right; exact H]. }
    destruct (rel_result_ok (length b') t' (elems_ok t' Ht' Hct') Hn0) as (Hsegs & Hroot & Hcol).
    set (r := join_slash (repeat dotdot (length b') ++ t')) in *.
    exists r. unfold path_rel. unfold absform. rewrite Hgo. rewrite (new_rel_path_ok r Hroot Hcol).
    repeat split; auto.
    + intros E. rewrite E in Hsegs. change (segs []) with [@nil N] in Hsegs.
      destruct (length b') as [|n]; simpl in Hsegs; [|discriminate].
      destruct t' as [|z t'']; [discriminate|]. injection Hsegs as Hz _. subst z.
      inversion Ht' as [|? ? Hz _]. apply good_nonempty in Hz. contradiction.
    + rewrite Hsegs. rewrite <- (app_nil_r (rev ea)), <- (app_nil_r (rev eb)).
      rewrite <- (walk_good [] ea Ha), <- (walk_good [] eb Hb). rewrite E1, E2. apply rel_walk. exact Hb'.
    + right. exists c, b', t'. repeat split; auto.
Qed.

Lemma path_rel_abs_prefix P f : Forall good (P ++ f) -> Forall nocolon f -> f <> [] ->
  path_rel (absform P) (absform (P ++ f)) = Ok (join_slash f).
Proof.
  intros Hg Hc Hf.
  assert (Sa : shape true P) by (apply shape_true; apply Forall_app_l in Hg; exact Hg).
  pose proof (shape_true _ Hg) as Sb.
  assert (Hne : P <> P ++ f).
  { intro E. apply (f_equal (@length _)) in E. rewrite app_length in E. destruct f; [contradiction|simpl in E; lia]. }
  pose proof (rel_strip_prefix P f (shape_nonempty _ _ Sb) Hf) as Hst.
  pose proof (rel_go_render true P (P ++ f) [] f Sa Sb Hne (or_introl eq_refl) Hst) as Hgo.
  change (rel_go (render true P) (render true (P ++ f)) = RelOk (join_slash f)) in Hgo.
  unfold path_rel, absform. rewrite Hgo.
  assert (Hgf : Forall good f) by (apply Forall_app_r in Hg; exact Hg).
  destruct (rel_result_ok O f (elems_ok f Hgf Hc) (or_intror Hf)) as (_ & Hroot & Hcol). simpl in Hroot, Hcol.
  apply new_rel_path_ok; assumption.
Qed.

(* ---------- Pkglint.Abs gives the rendering of the denotation ---------- *)
Lemma rev_inj {A} (a b : list A) : rev a = rev b -> a = b.
Proof. intro H. rewrite <- (rev_involutive a), H, rev_involutive. reflexivity. Qed.

Lemma abs_path_form cwd x : rooted cwd = true -> nocolon cwd -> nocolon x ->
  abs_path cwd x = absform (denote cwd x) /\ Forall good (denote cwd x) /\ Forall nocolon (denote cwd x).
Proof.
  intros Hr Hcc Hcx. unfold abs_path. rewrite (nocolon_is_abs x Hcx).
  set (y := if rooted x then x else join_no_clean cwd x).
  assert (Ey : (if negb (rooted x) then clean (join_no_clean cwd x) else clean x) = clean y)
    by (subst y; destruct (rooted x); reflexivity).
  rewrite Ey. clear Ey.
  assert (Hry : rooted y = true).
  { subst y. destruct (rooted x) eqn:R; [exact R|]. unfold join_no_clean. destruct cwd; [discriminate|exact Hr]. }
  assert (Hcy : nocolon y).
  { subst y. destruct (rooted x); [exact Hcx|]. unfold join_no_clean. apply nocolon_app; [exact Hcc|].
    apply nocolon_cons; [discriminate|exact Hcx]. }
  assert (Hwy : walk [] (segs y) = rev (denote cwd x)).
  { unfold denote. rewrite rev_involutive. subst y. destruct (rooted x); [reflexivity|].
    unfold join_no_clean. rewrite (segs_split (cwd ++ slash :: x)), split_app_slash, walk_app.
    rewrite <- (segs_split cwd), <- (segs_split x). reflexivity. }
  destruct (clean_render y) as (e & Hs & Hcl & Hw & Hin). rewrite Hry in *.
  pose proof (shape_true_inv e Hs) as Hg.
  specialize (Hw []). rewrite (walk_good [] e Hg), app_nil_r, Hwy in Hw. apply rev_inj in Hw. subst e.
  split; [exact Hcl|]. split; [exact Hg|].
  apply Forall_forall. intros z Hz. destruct (Hin z Hz) as [->|Hs2]; [apply nocolon_dotdot|].
  eapply Forall_forall in Hs2; [exact Hs2|]. apply nocolon_split. exact Hcy.
Qed.

(* ---------- from / r ---------- *)
Lemma denote_join cwd from r T :
  from <> [] -> walk (rev (denote cwd from)) (segs r) = rev T -> denote cwd (join_path from r) = T.
Proof.
  intros Hf H. unfold join_path. unfold denote at 1. rewrite rooted_app by exact Hf.
  rewrite (segs_split (from ++ 47 :: r)). change 47 with slash. rewrite split_app_slash, walk_app.
  rewrite <- (segs_split from), <- (segs_split r).
  unfold denote in H. rewrite rev_involutive in H. rewrite H. apply rev_involutive.
Qed.

(* ---------- CleanDot on a relative path ---------- *)
Lemma parts_chars X x : In x (parts X) -> x = dotstr \/ x = [] \/ In x (split_slash X).
Proof.
  destruct X as [|c s] eqn:E; [intros []|]. rewrite <- E. intro H.
  rewrite parts_components in H by (subst; discriminate).
  destruct (components X) as [|y l] eqn:Ec.
  - destruct H as [<-|[]]. left. reflexivity.
  - rewrite <- Ec in H. unfold components in H. apply in_app_or in H as [H|H].
    + destruct (rooted X); [destruct H as [<-|[]]; right; left; reflexivity|destruct H].
    + right; right. apply filter_In in H as [H _]. rewrite (segs_split X) in H. exact H.
Qed.

Lemma clean_dot_props X : rooted X = false -> nocolon X ->
  rooted (clean_dot X) = false /\ nocolon (clean_dot X)
  /\ forall st, walk st (segs (clean_dot X)) = walk st (segs X).
Proof.
  intros Hr Hc. unfold clean_dot.
  destruct (negb (existsb (N.eqb dot) X) && negb (has_double_slash X)); [auto|].
  destruct X as [|c s] eqn:E; [repeat split; auto|]. rewrite <- E in *.
  assert (Hne : X <> []) by (subst; discriminate).
  assert (Hro : root_only X = false) by (unfold root_only; rewrite Hr; reflexivity).
  assert (Hpx : parts X <> [[]]) by (intro H; apply (parts_root_only X Hne) in H; congruence).
  replace (match parts X with [[]] => [slash] | ps => join_slash ps end) with (join_slash (parts X))
    by (destruct (parts X) as [|[|c1 x1] [|y1 t1]]; try reflexivity; contradiction).
  split; [rewrite join_parts_rooted by assumption; exact Hr|]. split.
  - apply nocolon_join. apply Forall_forall. intros x Hx.
    destruct (parts_chars X x Hx) as [->|[->|Hs]]; [apply nocolon_dot|intros []|].
    eapply Forall_forall in Hs; [exact Hs|]. apply nocolon_split. exact Hc.
  - intro st. apply join_parts_walk. exact Hne.
Qed.

(* ---------- branch 2: cto.HasPrefixPath(cfrom) ---------- *)
Lemma relpath_branch2 cwd from to :
  nocolon from -> nocolon to -> from <> [] -> clean from <> clean to ->
  has_prefix_path (clean to) (clean from) = true ->
  exists r, path_rel (clean from) (clean to) = Ok r /\ denote cwd (join_path from r) = denote cwd to.
Proof.
  intros Hcf Hct Hf Hne Hpp.
  destruct (clean_render from) as (e1 & S1 & C1 & W1 & I1).
  destruct (clean_render to) as (e2 & S2 & C2 & W2 & I2).
  assert (Hp : path_prefixb (clean from) (clean to) = true).
  { rewrite <- Hpp. symmetry. apply prefix_is_parts_prefix.
    - apply clean_nonempty.
    - apply clean_nonempty.
    - intros _. apply nocolon_is_abs. apply nocolon_clean. exact Hct. }
  unfold path_prefixb in Hp. apply andb_true_iff in Hp as [Hr Hl]. apply eqb_prop in Hr.
  rewrite !clean_rooted in Hr.
  rewrite C1, C2 in Hl. rewrite (components_render _ e1 S1), (components_render _ e2 S2) in Hl.
  rewrite <- Hr in *. remember (rooted from) as rt eqn:Ert.
  apply list_prefixb_spec in Hl as [rest Hl]. rewrite <- app_assoc in Hl. apply app_inv_head in Hl.
  assert (Hrest : rest <> []).
  { intros ->. rewrite app_nil_r in Hl. subst e2. apply Hne. rewrite C1, C2. reflexivity. }
  assert (Hne12 : e1 <> e2).
  { intro E. apply Hne. rewrite C1, C2, E. reflexivity. }
  assert (Hst : rel_strip e1 e2 = Some ([], rest)).
  { rewrite Hl. apply rel_strip_prefix; [|exact Hrest]. rewrite <- Hl. apply (shape_nonempty rt). exact S2. }
  assert (Hrt : rt = true \/ e2 <> []).
  { right. rewrite Hl. intro E. apply app_eq_nil in E as [_ E]. contradiction. }
  pose proof (rel_go_render rt e1 e2 [] rest S1 S2 Hne12 Hrt Hst) as Hgo.
  change (rel_go (render rt e1) (render rt e2) = RelOk (join_slash rest)) in Hgo.
  assert (Hok : Forall (fun x => nonempty x /\ noslash x /\ nocolon x) rest).
  { apply Forall_forall. intros x Hx. assert (Hx2 : In x e2) by (rewrite Hl; apply in_or_app; right; exact Hx).
    pose proof (shape_elems rt e2 S2) as He. eapply Forall_forall in He; [|exact Hx2]. destruct He as [Hn Hs].
    repeat split; [exact Hn|exact Hs|].
    destruct (I2 x Hx2) as [->|Hsp]; [apply nocolon_dotdot|].
    eapply Forall_forall in Hsp; [exact Hsp|]. apply nocolon_split. exact Hct. }
  destruct (rel_result_ok O rest Hok (or_intror Hrest)) as (Hsegs & Hroot & Hcol).
  simpl in Hsegs, Hroot, Hcol.
  exists (join_slash rest). split.
  - unfold path_rel. rewrite C1, C2, Hgo. apply new_rel_path_ok; assumption.
  - apply denote_join; [exact Hf|]. unfold denote. rewrite !rev_involutive. rewrite <- Hr, <- Ert.
    set (st := walk [] (segs cwd)). rewrite <- (W1 st), <- (W2 st), Hsegs, Hl. symmetry. apply walk_app.
Qed.

(* ---------- branch 3: from "category/package" to "." ---------- *)
Lemma relpath_branch3 cwd from to :
  nocolon from -> from <> [] -> clean to = dotstr ->
  length (parts (clean from)) = 2%nat -> nth_str (parts (clean from)) 0 <> dotdot ->
  is_abs (clean from) = false ->
  denote cwd (join_path from [46; 46; 47; 46; 46]) = denote cwd to.
Proof.
  intros Hcf Hf Hto Hlen Hfirst Habs.
  destruct (clean_render from) as (e1 & S1 & C1 & W1 & _).
  destruct (clean_render to) as (e2 & S2 & C2 & W2 & _).
  assert (Hrf : rooted from = false).
  { rewrite <- clean_rooted, <- (nocolon_is_abs (clean from)); [exact Habs|apply nocolon_clean; exact Hcf]. }
  rewrite Hrf in *. rewrite Hto in C2. symmetry in C2. apply (render_eq_dot _ _ S2) in C2 as [Hrt ->].
  rewrite Hrt in *.
  rewrite C1, (parts_render false e1 S1) in Hlen, Hfirst. simpl root_mark in Hlen, Hfirst. simpl app in Hlen, Hfirst.
  destruct e1 as [|x [|y [|z e1]]]; simpl in Hlen; try discriminate. clear Hlen.
  unfold nth_str in Hfirst. simpl in Hfirst.
  assert (Hg : Forall good [x; y]).
  { destruct S1 as (dd & ns & E & Hns & _). destruct dd as [|dd]; [simpl in E; subst ns; exact Hns|].
    simpl in E. inversion E. congruence. }
  apply denote_join; [exact Hf|]. unfold denote. rewrite !rev_involutive, Hrf, Hrt.
  set (st := walk [] (segs cwd)). rewrite <- (W1 st), <- (W2 st), (walk_good st [x; y] Hg).
  reflexivity.
Qed.

(* ---------- the part that works on absolute paths ---------- *)
Definition relpath_tail (absFrom absTopdir absTo : str) : nat * res :=
  bind (path_rel absFrom absTopdir) (fun up =>
  bind (path_rel absTopdir absTo) (fun down =>
    if has_prefix_path absFrom absTo || has_prefix_path absTo absFrom
    then (5%nat, path_rel absFrom absTo)
    else
      bind (path_rel absTopdir absFrom) (fun topToFrom =>
        let fromParts := parts topToFrom in
        let toParts := parts down in
        if (2 <=? length fromParts)%nat && (2 <=? length toParts)%nat
           && str_eqb (nth_str fromParts 0) (nth_str toParts 0)
           && str_eqb (nth_str fromParts 1) (nth_str toParts 1)
        then
          let relParts := repeat dotdot (length fromParts - 2) ++ skipn 2 toParts in
          (6%nat, new_rel_path (clean_dot (join_slash relParts)))
        else
          (7%nat, new_rel_path (clean_dot (join_no_clean up down)))))).

Lemma relpath_b_unfold cwd topdir from to :
  relpath_b cwd topdir from to =
  let cfrom := clean from in
  let cto := clean to in
  if str_eqb cfrom cto then (1%nat, Ok dotstr)
  else if has_prefix_path cto cfrom then (2%nat, path_rel cfrom cto)
  else if str_eqb cto dotstr
          && (length (parts cfrom) =? 2)%nat
          && negb (str_eqb (nth_str (parts cfrom) 0) dotdot)
          && negb (is_abs cfrom)
       then (3%nat, Ok [46; 46; 47; 46; 46])
  else if str_eqb cfrom dotstr && negb (is_abs cto) then (4%nat, new_rel_path (clean cto))
  else relpath_tail (abs_path cwd cfrom) (abs_path cwd topdir) (abs_path cwd cto).
Proof. reflexivity. Qed.

Lemma path_rel_same x : path_rel x x = Ok dotstr.
Proof. unfold path_rel, rel_go. rewrite str_eqb_refl. reflexivity. Qed.

(* "up to the pkgsrc root, then down" *)
Lemma up_down_ok F P T up down :
  rooted up = false -> nocolon up -> up <> [] -> walk (rev F) (segs up) = rev P ->
  rooted down = false -> nocolon down -> walk (rev P) (segs down) = rev T ->
  exists r, new_rel_path (clean_dot (join_no_clean up down)) = Ok r /\ walk (rev F) (segs r) = rev T.
Proof.
  intros Ru Cu Nu Wu Rd Cd Wd. set (X := join_no_clean up down).
  assert (RX : rooted X = false) by (unfold X, join_no_clean; rewrite rooted_app by exact Nu; exact Ru).
  assert (CX : nocolon X).
  { unfold X, join_no_clean. apply nocolon_app; [exact Cu|]. apply nocolon_cons; [discriminate|exact Cd]. }
  destruct (clean_dot_props X RX CX) as (R1 & C1 & W1).
  exists (clean_dot X). split; [apply new_rel_path_ok; assumption|].
  rewrite W1. unfold X, join_no_clean. rewrite (segs_split (up ++ slash :: down)), split_app_slash, walk_app.
  rewrite <- (segs_split up), <- (segs_split down), Wu. exact Wd.
Qed.

Lemma shape_false_good f : Forall good f -> shape false f.
Proof. intro H. exists O, f. repeat split; auto. Qed.

Lemma relpath_tail_ok F P T :
  Forall good F -> Forall good P -> Forall good T ->
  Forall nocolon F -> Forall nocolon P -> Forall nocolon T ->
  list_prefixb P F = true ->
  exists r, snd (relpath_tail (absform F) (absform P) (absform T)) = Ok r
            /\ walk (rev F) (segs r) = rev T.
Proof.
  intros GF GP GT CF CP CT Hin. unfold relpath_tail.
  destruct (path_rel_abs F P GF GP CP) as (up & Hup & Ru & Cu & Nu & Wu & _).
  destruct (path_rel_abs P T GP GT CT) as (down & Hdown & Rd & Cd & Nd & Wd & Xd).
  rewrite Hup. unfold bind at 1. rewrite Hdown. unfold bind at 1.
  rewrite !hpp_abs by assumption.
  destruct (list_prefixb T F || list_prefixb F T).
  { destruct (path_rel_abs F T GF GT CT) as (r & Hr & _ & _ & _ & Wr & _). exists r. simpl. split; assumption. }
  destruct (up_down_ok F P T up down Ru Cu Nu Wu Rd Cd Wd) as (r7 & Hr7 & Wr7).
  apply list_prefixb_spec in Hin as [f Hf].
  destruct f as [|f0 f].
  { (* from is the pkgsrc root itself *)
    rewrite app_nil_r in Hf. subst F. rewrite path_rel_same. unfold bind.
    change (parts dotstr) with [dotstr]. simpl length. simpl Nat.leb. simpl andb. cbv iota.
    exists r7. split; assumption. }
  assert (Gf : Forall good (f0 :: f)) by (rewrite Hf in GF; apply Forall_app_r in GF; exact GF).
  assert (Cf : Forall nocolon (f0 :: f)) by (rewrite Hf in CF; apply Forall_app_r in CF; exact CF).
  assert (Htf : path_rel (absform P) (absform F) = Ok (join_slash (f0 :: f))).
  { rewrite Hf. apply path_rel_abs_prefix; [rewrite <- Hf; exact GF|exact Cf|discriminate]. }
  rewrite Htf. unfold bind.
  change (join_slash (f0 :: f)) with (render false (f0 :: f)).
  rewrite (parts_render false (f0 :: f) (shape_false_good _ Gf)). simpl root_mark. simpl app. cbv iota.
  destruct ((2 <=? length (f0 :: f))%nat && (2 <=? length (parts down))%nat
            && str_eqb (nth_str (f0 :: f) 0) (nth_str (parts down) 0)
            && str_eqb (nth_str (f0 :: f) 1) (nth_str (parts down) 1)) eqn:Ec.
  2:{ exists r7. split; assumption. }
  (* same category/package *)
  repeat (apply andb_true_iff in Ec as [Ec ?]).
  destruct Xd as [[_ ->]|(c & b' & t' & EP & ET & Hnn & Edown & Hsd)].
  { change (parts dotstr) with [dotstr] in H1. discriminate. }
  destruct f as [|f1 f']; [discriminate|].
  assert (Hsh : shape false (repeat dotdot (length b') ++ t')).
  { exists (length b'), t'. repeat split; [|discriminate]. rewrite ET in GT. apply Forall_app_r in GT. exact GT. }
  assert (Hpd : parts down = repeat dotdot (length b') ++ t').
  { destruct (repeat dotdot (length b') ++ t') as [|x l] eqn:E.
    - destruct b'; destruct t'; simpl in E; try discriminate. destruct Hnn; contradiction.
    - rewrite Edown. change (join_slash (x :: l)) with (render false (x :: l)).
      rewrite parts_render by exact Hsh. reflexivity. }
  rewrite Hpd in *. unfold nth_str in H, H0.
  apply str_eqb_spec in H, H0. simpl in H0.
  pose proof Gf as Gf2. apply Forall_cons_iff in Gf2 as [Gf0 Gf1]. apply Forall_cons_iff in Gf1 as [Gf1' Gf'].
  destruct b' as [|bx b''].
  2:{ exfalso. simpl in H0. destruct Gf0 as [Gf0 _]. rewrite H0 in Gf0. discriminate. }
  simpl repeat in *. simpl app in *. rewrite app_nil_r in EP. subst c.
  destruct t' as [|t0 [|t1 rest']]; simpl in H1; try discriminate.
  simpl in H, H0. subst t0 t1. clear H1 Ec.
  try replace (length (f1 :: f') - 1)%nat with (length f') by (simpl; lia).
  try replace (length f' - 0)%nat with (length f') by lia.
  cbv iota.
  set (relParts := repeat dotdot (length f') ++ rest').
  assert (Grest : Forall good rest').
  { rewrite ET in GT. apply Forall_app_r in GT. inversion GT as [|? ? _ GT1]; subst. inversion GT1; assumption. }
  assert (Crest : Forall nocolon rest').
  { rewrite ET in CT. apply Forall_app_r in CT. inversion CT as [|? ? _ CT1]; subst. inversion CT1; assumption. }
  assert (Hwalk : walk (rev (P ++ f0 :: f1 :: f')) relParts = rev T).
  { rewrite ET. rewrite <- (app_nil_r (rev (P ++ f0 :: f1 :: f'))), <- (app_nil_r (rev (P ++ f0 :: f1 :: rest'))).
    rewrite <- (walk_good [] (P ++ f0 :: f1 :: f')) by (rewrite <- Hf; exact GF).
    rewrite <- (walk_good [] (P ++ f0 :: f1 :: rest')) by (rewrite <- ET; exact GT).
    change (P ++ f0 :: f1 :: f') with (P ++ [f0; f1] ++ f'). change (P ++ f0 :: f1 :: rest') with (P ++ [f0; f1] ++ rest').
    rewrite !app_assoc. apply rel_walk. exact Gf'. }
  destruct relParts as [|x l] eqn:Erp.
  - (* nothing to do: from and to coincide *)
    exists []. split; [reflexivity|]. rewrite Hf. exact Hwalk.
  - rewrite <- Erp in *.
    assert (Hn0 : length f' <> O \/ rest' <> []).
    { destruct f'; [right|left; discriminate]. intros ->. subst relParts. discriminate. }
    destruct (rel_result_ok (length f') rest' (elems_ok rest' Grest Crest) Hn0) as (Hsegs & Hroot & Hcol).
    fold relParts in Hsegs, Hroot, Hcol.
    destruct (clean_dot_props (join_slash relParts) Hroot Hcol) as (R1 & C1 & W1).
    exists (clean_dot (join_slash relParts)). simpl snd. split; [apply new_rel_path_ok; assumption|].
    rewrite W1, Hsegs, Hf. exact Hwalk.
Qed.

(* ---------- branch 4 cannot be reached ---------- *)
Lemma branch4_condition_false cfrom cto :
  has_prefix_path cto cfrom = false -> str_eqb cfrom dotstr && negb (is_abs cto) = false.
Proof.
  intro H. destruct (str_eqb cfrom dotstr) eqn:E; [|reflexivity].
  apply str_eqb_spec in E. subst cfrom. unfold has_prefix_path in H.
  destruct (text_prefix cto dotstr); [discriminate|]. simpl in H. exact H.
Qed.

Lemma relpath_tail_branch a b c : fst (relpath_tail a b c) <> 4%nat.
Proof.
  unfold relpath_tail, bind.
  repeat match goal with
         | |- context [match ?x with _ => _ end] => destruct x
         end; simpl; discriminate.
Qed.

Theorem relpath_branch4_dead cwd topdir from to : fst (relpath_b cwd topdir from to) <> 4%nat.
Proof.
  rewrite relpath_b_unfold. cbv zeta.
  destruct (str_eqb (clean from) (clean to)); [discriminate|].
  destruct (has_prefix_path (clean to) (clean from)) eqn:Eh; [discriminate|].
  destruct (str_eqb (clean to) dotstr && (length (parts (clean from)) =? 2)%nat
            && negb (str_eqb (nth_str (parts (clean from)) 0) dotdot) && negb (is_abs (clean from))); [discriminate|].
  rewrite (branch4_condition_false _ _ Eh). apply relpath_tail_branch.
Qed.

(* ---------- the theorem ---------- *)
Theorem relpath_denotes cwd topdir from to :
  rooted cwd = true -> nocolon cwd -> nocolon topdir -> nocolon from -> nocolon to ->
  from <> [] -> inside cwd topdir from = true ->
  exists r, relpath cwd topdir from to = Ok r /\ denote cwd (join_path from r) = denote cwd to.
Proof.
  intros Hrc Hcc Hct Hcf Hcto Hf Hin. unfold relpath. rewrite relpath_b_unfold. cbv zeta.
  destruct (str_eqb (clean from) (clean to)) eqn:E1.
  { (* cfrom == cto *)
    apply str_eqb_spec in E1. exists dotstr. split; [reflexivity|].
    apply denote_join; [exact Hf|]. change (segs dotstr) with [dotstr]. simpl. f_equal.
    rewrite <- (clean_denotes cwd from), <- (clean_denotes cwd to), E1. reflexivity. }
  apply str_eqb_false in E1.
  destruct (has_prefix_path (clean to) (clean from)) eqn:E2.
  { destruct (relpath_branch2 cwd from to Hcf Hcto Hf E1 E2) as (r & Hr & Hd). exists r. split; assumption. }
  destruct (str_eqb (clean to) dotstr && (length (parts (clean from)) =? 2)%nat
            && negb (str_eqb (nth_str (parts (clean from)) 0) dotdot) && negb (is_abs (clean from))) eqn:E3.
  { repeat (apply andb_true_iff in E3 as [E3 ?]).
    apply str_eqb_spec in E3. apply Nat.eqb_eq in H1. apply negb_true_iff in H0, H. apply str_eqb_false in H0.
    exists [46; 46; 47; 46; 46]. split; [reflexivity|]. apply relpath_branch3; assumption. }
  rewrite (branch4_condition_false _ _ E2).
  (* the absolute paths *)
  destruct (abs_path_form cwd (clean from) Hrc Hcc (nocolon_clean from Hcf)) as (AF & GF & CF).
  destruct (abs_path_form cwd topdir Hrc Hcc Hct) as (AP & GP & CP).
  destruct (abs_path_form cwd (clean to) Hrc Hcc (nocolon_clean to Hcto)) as (AT & GT & CT).
  rewrite AF, AP, AT. rewrite !clean_denotes in *.
  unfold inside in Hin.
  destruct (relpath_tail_ok _ _ _ GF GP GT CF CP CT Hin) as (r & Hr & Hw).
  exists r. split; [exact Hr|]. apply denote_join; assumption.
Qed.
