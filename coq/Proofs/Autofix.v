(* C03/C02: the model Model/Autofix.v satisfies the specification Spec/ApplyLog.v. *)
From PV Require Import Lib.Bytes Spec.ApplyLog Model.Autofix Proofs.ApplyLog.
From Coq Require Import Lia ZifyBool ZifyN ZifyNat.
Open Scope Z_scope.

(* ---------- small list facts ---------- *)

Lemma upd_nth_set_nth {A} n (x : A) l : upd_nth n x l = set_nth n x l.
Proof. reflexivity. Qed.

Lemma set_nth_length {A} n (x : A) l : length (set_nth n x l) = length l.
Proof. revert n; induction l as [|y l IH]; intros [|n]; simpl; try reflexivity. rewrite IH. reflexivity. Qed.

Lemma set_nth_same {A} n (x : A) l : nth_error l n = Some x -> set_nth n x l = l.
Proof.
  revert n; induction l as [|y l IH]; intros [|n] H; simpl in *; try discriminate.
  - inversion H. reflexivity.
  - rewrite IH by assumption. reflexivity.
Qed.

Lemma set_nth_twice {A} n (x y : A) l : set_nth n y (set_nth n x l) = set_nth n y l.
Proof. revert n; induction l as [|z l IH]; intros [|n]; simpl; try reflexivity. rewrite IH. reflexivity. Qed.

Lemma nth_error_set_nth {A} n (x : A) l : (n < length l)%nat -> nth_error (set_nth n x l) n = Some x.
Proof. revert n; induction l as [|z l IH]; intros [|n] H; simpl in *; try lia; [reflexivity|]. apply IH. lia. Qed.

Lemma nth_error_nth_default {A} (l : list A) n d : (n < length l)%nat -> nth_error l n = Some (nth n l d).
Proof. revert n; induction l as [|z l IH]; intros [|n] H; simpl in *; try lia; [reflexivity|]. apply IH. lia. Qed.

Lemma set_nth_split {A} (s1 s2 : list A) x y : set_nth (length s1) y (s1 ++ x :: s2) = s1 ++ y :: s2.
Proof. induction s1 as [|z s1 IH]; simpl; [reflexivity|]. rewrite IH. reflexivity. Qed.

Lemma nth_error_split' {A} (l : list A) n x :
  nth_error l n = Some x -> exists s1 s2, l = s1 ++ x :: s2 /\ length s1 = n.
Proof. apply nth_error_split. Qed.

Lemma rev_last_nth {A} (l : list A) x r : rev l = x :: r -> nth_error l (length l - 1) = Some x.
Proof.
  intro H. assert (E : l = rev r ++ [x]).
  { rewrite <- (rev_involutive l), H. reflexivity. }
  subst l. rewrite app_length. simpl. replace (length (rev r) + 1 - 1)%nat with (length (rev r)) by lia.
  rewrite nth_error_app2 by lia. rewrite Nat.sub_diag. reflexivity.
Qed.

(* ---------- string facts (Go's Index / replaceOnce) ---------- *)

Lemma has_prefix_split p s : has_prefix p s = true -> exists r, s = p ++ r.
Proof.
  unfold has_prefix. destruct (strip_prefix p s) as [r|] eqn:E; [|discriminate].
  intros _. exists r. apply strip_prefix_some. exact E.
Qed.

Lemma skipn_app_exact {A} (a b : list A) : skipn (length a) (a ++ b) = b.
Proof. induction a; simpl; auto. Qed.

Lemma firstn_app_exact {A} (a b : list A) : firstn (length a) (a ++ b) = a.
Proof. induction a; simpl; [reflexivity|]. f_equal. assumption. Qed.

Lemma index_spec s sub i : index s sub = Some i -> s = firstn i s ++ sub ++ skipn (i + length sub) s.
Proof.
  revert i; induction s as [|c s IH]; intros i H; simpl in H.
  - destruct (has_prefix sub []) eqn:E; [|discriminate]. inversion H; subst.
    apply has_prefix_split in E as [r E]. destruct sub; [|discriminate]. reflexivity.
  - destruct (has_prefix sub (c :: s)) eqn:E.
    + inversion H; subst. apply has_prefix_split in E as [r E]. rewrite E. simpl firstn. simpl plus.
      rewrite skipn_app_exact. reflexivity.
    + destruct (index s sub) as [k|] eqn:Ek; [|discriminate]. inversion H; subst. simpl.
      f_equal. apply IH. reflexivity.
Qed.

Lemma replace_once_spec s from to r :
  replace_once s from to = (true, r) -> exists a b, s = a ++ from ++ b /\ r = a ++ to ++ b.
Proof.
  unfold replace_once. destruct (index s from) as [i|] eqn:Ei; [|discriminate].
  destruct (last_index s from) as [j|]; [|discriminate].
  destruct (Nat.eqb i j); [|discriminate]. intro H. inversion H; subst.
  exists (firstn i s), (skipn (i + length from) s). split; [apply index_spec; exact Ei|reflexivity].
Qed.

Lemma replace_once_false s from to r : replace_once s from to = (false, r) -> r = s.
Proof.
  unfold replace_once. destruct (index s from); [|intro H; inversion H; reflexivity].
  destruct (last_index s from); [|intro H; inversion H; reflexivity].
  destruct (Nat.eqb _ _); intro H; inversion H; reflexivity.
Qed.

Lemma first_replace_spec texts from to i0 k r :
  first_replace texts from to i0 = Some (k, r) ->
  exists j t, k = (i0 + j)%nat /\ nth_error texts j = Some t /\ replace_once t from to = (true, r).
Proof.
  revert i0; induction texts as [|t ts IH]; intros i0 H; simpl in H; [discriminate|].
  destruct (replace_once t from to) as [ok r'] eqn:E. destruct ok.
  - inversion H; subst. exists O, t. repeat split; [lia|exact E].
  - apply IH in H as (j & t' & -> & Hn & Hr). exists (S j), t'. repeat split; [lia|exact Hn|exact Hr].
Qed.

(* ---------- from the model's lines to the specification's blocks ---------- *)

Definition action_of (d : descr) : action :=
  match d with
  | DRepl f t => ARepl f t
  | DAbove t => AAbove t
  | DBelow t => ABelow t
  | DDelete => ADelete
  | DSort => ASort
  | DChmod => AChmod
  end.

Definition entry_of (p : descr * Z) : entry := (Z.to_N (snd p), action_of (fst p)).

Fixpoint mapi_from {A B} (k : nat) (f : nat -> A -> B) (l : list A) : list B :=
  match l with
  | [] => []
  | x :: l' => f k x :: mapi_from (S k) f l'
  end.

(* the block of raw line number i (of n): the first one carries the lines inserted
   above, the last one those inserted below *)
Definition blk (above below : list str) (n i : nat) (t : str) : block :=
  Block (if Nat.eqb i 0 then above else []) t (if Nat.eqb (S i) n then below else []).

Definition blocks_of_fix (above texts below : list str) : list block :=
  mapi_from 0 (blk above below (length texts)) texts.

Definition blocks_of_line (l : line) : list block :=
  match l_fix l with
  | None => map (fun r => Block [] r []) (l_raw l)
  | Some f => blocks_of_fix (f_above f) (f_texts f) (f_below f)
  end.

Definition blocks_of_store (ls : list line) : list block := flat_map blocks_of_line ls.

Lemma mapi_from_length {A B} k (f : nat -> A -> B) l : length (mapi_from k f l) = length l.
Proof. revert k; induction l; intro k; simpl; auto. Qed.

Lemma mapi_from_nth {A B} k (f : nat -> A -> B) l j :
  nth_error (mapi_from k f l) j = option_map (f (k + j)%nat) (nth_error l j).
Proof.
  revert k j; induction l as [|x l IH]; intros k [|j]; simpl; try reflexivity.
  - rewrite Nat.add_0_r. reflexivity.
  - rewrite IH. replace (S k + j)%nat with (k + S j)%nat by lia. reflexivity.
Qed.

Lemma mapi_from_set_nth {A B} k (f : nat -> A -> B) l j r :
  mapi_from k f (set_nth j r l) = set_nth j (f (k + j)%nat r) (mapi_from k f l).
Proof.
  revert k j; induction l as [|x l IH]; intros k [|j]; simpl; try reflexivity.
  - rewrite Nat.add_0_r. reflexivity.
  - rewrite IH. replace (S k + j)%nat with (k + S j)%nat by lia. reflexivity.
Qed.

Lemma mapi_from_ext_ge {A B} k (f g : nat -> A -> B) l :
  (forall i t, (k <= i)%nat -> g i t = f i t) -> mapi_from k g l = mapi_from k f l.
Proof.
  revert k; induction l as [|x l IH]; intros k H; simpl; [reflexivity|].
  rewrite H by lia. rewrite IH; [reflexivity|]. intros; apply H; lia.
Qed.

(* g differs from f only at index j *)
Lemma mapi_from_set_fun {A B} k (f g : nat -> A -> B) l j t :
  (forall i x, i <> j -> g i x = f i x) -> (k <= j)%nat -> nth_error l (j - k) = Some t ->
  mapi_from k g l = set_nth (j - k) (g j t) (mapi_from k f l).
Proof.
  revert k; induction l as [|x l IH]; intros k H Hk Hn; simpl in *.
  - destruct (j - k)%nat; discriminate.
  - destruct (j - k)%nat as [|m] eqn:E.
    + inversion Hn; subst. assert (k = j) by lia. subst k. simpl. f_equal.
      apply mapi_from_ext_ge. intros; apply H; lia.
    + simpl. rewrite H by lia. f_equal.
      replace m with (j - S k)%nat by lia. apply IH; [exact H|lia|].
      replace (j - S k)%nat with m by lia. exact Hn.
Qed.

Lemma blocks_of_fix_length a ts b : length (blocks_of_fix a ts b) = length ts.
Proof. apply mapi_from_length. Qed.

Lemma blocks_of_new raws : blocks_of_fix [] raws [] = map (fun r => Block [] r []) raws.
Proof.
  unfold blocks_of_fix. generalize (length raws) as n. generalize O as k.
  induction raws as [|r rs IH]; intros k n; simpl; [reflexivity|]. rewrite IH. f_equal.
  unfold blk. destruct (Nat.eqb k 0), (Nat.eqb (S k) n); reflexivity.
Qed.

Lemma blocks_of_line_length l :
  match l_fix l with Some f => length (f_texts f) = length (l_raw l) | None => True end ->
  length (blocks_of_line l) = length (l_raw l).
Proof.
  unfold blocks_of_line. destruct (l_fix l) as [f|]; intro H.
  - rewrite blocks_of_fix_length. exact H.
  - apply map_length.
Qed.

(* changing the text of raw line j *)
Lemma blocks_set_text a ts b j r :
  blocks_of_fix a (set_nth j r ts) b = set_nth j (blk a b (length ts) j r) (blocks_of_fix a ts b).
Proof. unfold blocks_of_fix. rewrite set_nth_length, mapi_from_set_nth. reflexivity. Qed.

Lemma blocks_nth a ts b j t :
  nth_error ts j = Some t -> nth_error (blocks_of_fix a ts b) j = Some (blk a b (length ts) j t).
Proof. intro H. unfold blocks_of_fix. rewrite mapi_from_nth, H. reflexivity. Qed.

Lemma blocks_set_above a a' ts b t0 :
  nth_error ts 0 = Some t0 ->
  blocks_of_fix a' ts b = set_nth 0 (blk a' b (length ts) 0 t0) (blocks_of_fix a ts b).
Proof.
  intro H. unfold blocks_of_fix.
  apply (mapi_from_set_fun 0 (blk a b (length ts)) (blk a' b (length ts)) ts 0 t0); [|lia|exact H].
  intros i x Hi. unfold blk. destruct (Nat.eqb_spec i 0); [lia|reflexivity].
Qed.

Lemma blocks_set_below a ts b b' tl :
  nth_error ts (length ts - 1) = Some tl ->
  blocks_of_fix a ts b' = set_nth (length ts - 1) (blk a b' (length ts) (length ts - 1) tl) (blocks_of_fix a ts b).
Proof.
  intro H. unfold blocks_of_fix.
  pose proof (mapi_from_set_fun 0 (blk a b (length ts)) (blk a b' (length ts)) ts (length ts - 1) tl) as L.
  rewrite Nat.sub_0_r in L. apply L; [|lia|exact H].
  intros i x Hi. unfold blk. destruct (Nat.eqb_spec (S i) (length ts)); [lia|reflexivity].
Qed.

(* what the blocks of a line are worth as bytes *)
Lemma flat_block_blk a b n k t :
  flat_block (blk a b n k t) =
  (if Nat.eqb k 0 then concat a else []) ++ t ++ (if Nat.eqb (S k) n then concat b else []).
Proof. unfold flat_block, blk. cbn [b_above b_text b_below]. destruct (Nat.eqb k 0), (Nat.eqb (S k) n); reflexivity. Qed.

Lemma flat_mapi a b n ts k :
  (k + length ts = n)%nat -> ts <> [] ->
  flat_blocks (mapi_from k (blk a b n) ts) = (if Nat.eqb k 0 then concat a else []) ++ concat ts ++ concat b.
Proof.
  revert k; induction ts as [|t ts IH]; intros k Hn Hne; [congruence|].
  destruct ts as [|t2 ts].
  - cbn [mapi_from]. unfold flat_blocks. cbn [map concat]. rewrite flat_block_blk.
    cbn [length] in Hn.
    destruct (Nat.eqb_spec (S k) n); [|lia]. rewrite !app_nil_r. reflexivity.
  - change (mapi_from k (blk a b n) (t :: t2 :: ts))
      with (blk a b n k t :: mapi_from (S k) (blk a b n) (t2 :: ts)).
    change (flat_blocks (blk a b n k t :: mapi_from (S k) (blk a b n) (t2 :: ts)))
      with (flat_block (blk a b n k t) ++ flat_blocks (mapi_from (S k) (blk a b n) (t2 :: ts))).
    cbn [length] in Hn.
    rewrite IH by (cbn [length]; try lia; discriminate).
    rewrite flat_block_blk.
    destruct (Nat.eqb_spec (S k) n); [lia|].
    change (Nat.eqb (S k) 0) with false. cbn [concat app]. rewrite !app_nil_r.
    rewrite <- !app_assoc. reflexivity.
Qed.

Lemma flat_blocks_of_fix a ts b : ts <> [] ->
  flat_blocks (blocks_of_fix a ts b) = concat a ++ concat ts ++ concat b.
Proof. intro H. unfold blocks_of_fix. rewrite (flat_mapi a b (length ts) ts 0) by (auto; lia). reflexivity. Qed.

Lemma flat_blocks_app x y : flat_blocks (x ++ y) = flat_blocks x ++ flat_blocks y.
Proof. unfold flat_blocks. rewrite map_app, concat_app. reflexivity. Qed.

(* ---------- one line: every operation is a step of the specification ---------- *)

Record wf_line (l : line) : Prop := {
  wf_real : 1 <= l_lineno l;
  wf_raw : l_raw l <> [];
  wf_len : match l_fix l with Some f => length (f_texts f) = length (l_raw l) | None => True end
}.

(* the blocks of the line sit at their place in the file *)
Definition lreach (l l' : line) (log : list entry) : Prop :=
  forall pre post, Z.of_nat (length pre) = l_lineno l - 1 ->
    reach (pre ++ blocks_of_line l ++ post) log (pre ++ blocks_of_line l' ++ post).

Lemma lreach_refl l l' : blocks_of_line l' = blocks_of_line l -> lreach l l' [].
Proof. intros E pre post _. rewrite E. constructor. Qed.

Lemma lreach_trans l1 l2 l3 a b :
  l_lineno l2 = l_lineno l1 -> lreach l1 l2 a -> lreach l2 l3 b -> lreach l1 l3 (a ++ b).
Proof.
  intros E H1 H2 pre post Hp. eapply reach_app; [apply H1; exact Hp|apply H2; rewrite E; exact Hp].
Qed.

Lemma act_entry_at lineno (pre : list block) j a st :
  1 <= lineno -> Z.of_nat (length pre) = lineno - 1 -> needs_line a = true ->
  act_entry (Z.to_N (lineno + Z.of_nat j), a) st = at_index (length pre + j) (act_block a) st.
Proof.
  intros H1 Hp Hn. unfold act_entry. cbn [fst snd]. rewrite Hn.
  destruct (Z.to_N (lineno + Z.of_nat j)) eqn:E; [lia|].
  replace (N.to_nat (N.pos p - 1)) with (length pre + j)%nat by lia. reflexivity.
Qed.

(* what is not named in the appended actions is unchanged: raw text number j unless
   an action carries its line number, the lines inserted above / below unless an
   action carries the number of the first / last raw line *)
Definition quiet (l : line) (f f' : fixst) (acts : list (descr * Z)) : Prop :=
  (forall j, ~ In (l_lineno l + Z.of_nat j) (map snd acts) -> nth_error (f_texts f') j = nth_error (f_texts f) j) /\
  (~ In (l_lineno l) (map snd acts) -> f_above f' = f_above f) /\
  (~ In (l_lineno l + Z.of_nat (length (l_raw l)) - 1) (map snd acts) -> f_below f' = f_below f).

Lemma quiet_refl l f : quiet l f f [].
Proof. repeat split; reflexivity. Qed.

Lemma quiet_trans l f1 f2 f3 a1 a2 : quiet l f1 f2 a1 -> quiet l f2 f3 a2 -> quiet l f1 f3 (a1 ++ a2).
Proof.
  intros (T1 & A1 & B1) (T2 & A2 & B2). unfold quiet. rewrite map_app. repeat split.
  - intros j H. rewrite T2, T1; [reflexivity| |]; intro X; apply H; apply in_or_app; auto.
  - intro H. rewrite A2, A1; [reflexivity| |]; intro X; apply H; apply in_or_app; auto.
  - intro H. rewrite B2, B1; [reflexivity| |]; intro X; apply H; apply in_or_app; auto.
Qed.

Lemma nth_error_set_nth_other {A} n m (x : A) l : n <> m -> nth_error (set_nth n x l) m = nth_error l m.
Proof.
  revert n m; induction l as [|y l IH]; intros [|n] [|m] H; simpl; try reflexivity; try congruence.
  apply IH. congruence.
Qed.

(* the line after an operation: same identity, actions appended, and the appended
   actions lead from the old blocks to the new ones *)
Definition step_ok (o : opts) (l l' : line) : Prop :=
  match l_fix l, l_fix l' with
  | Some f, Some f' =>
    exists acts,
      f_actions f' = f_actions f ++ acts /\ f_diag f' = f_diag f /\ f_level f' = f_level f /\
      f_modified f' = f_modified f /\
      l_lineno l' = l_lineno l /\ l_raw l' = l_raw l /\ l_file l' = l_file l /\
      length (f_texts f') = length (f_texts f) /\
      (acts <> [] -> shall_be_logged o (f_diag f) = true) /\
      Forall (fun a => fst a <> DSort) acts /\
      (acts = [] -> f_above f' = f_above f /\ f_texts f' = f_texts f /\ f_below f' = f_below f) /\
      quiet l f f' acts /\
      lreach l l' (map entry_of acts)
  | _, _ => False
  end.

Lemma step_ok_refl o l f : l_fix l = Some f -> step_ok o l l.
Proof.
  intro E. unfold step_ok. rewrite E. exists []. rewrite app_nil_r.
  split; [reflexivity|]. split; [reflexivity|]. split; [reflexivity|]. split; [reflexivity|].
  split; [reflexivity|]. split; [reflexivity|]. split; [reflexivity|]. split; [reflexivity|].
  split; [congruence|]. split; [constructor|]. split; [auto|]. split; [apply quiet_refl|].
  apply lreach_refl; reflexivity.
Qed.

Lemma step_ok_trans o l1 l2 l3 : step_ok o l1 l2 -> step_ok o l2 l3 -> step_ok o l1 l3.
Proof.
  unfold step_ok. destruct (l_fix l1) as [f1|]; [|tauto]. destruct (l_fix l2) as [f2|]; [|tauto].
  destruct (l_fix l3) as [f3|]; [|tauto].
  intros (a1 & A1 & D1 & V1 & M1 & N1 & R1 & F1 & L1 & S1 & NS1 & U1 & Q1 & P1)
         (a2 & A2 & D2 & V2 & M2 & N2 & R2 & F2 & L2 & S2 & NS2 & U2 & Q2 & P2).
  exists (a1 ++ a2).
  split; [rewrite A2, A1, app_assoc; reflexivity|].
  split; [congruence|]. split; [congruence|]. split; [congruence|]. split; [congruence|].
  split; [congruence|]. split; [congruence|]. split; [congruence|].
  split; [intro Hne; destruct a1 as [|x a1]; [apply S2 in Hne; congruence|apply S1; discriminate]|].
  split; [apply Forall_app; split; assumption|].
  split; [intro Hnil; apply app_eq_nil in Hnil as [-> ->];
          destruct (U1 eq_refl) as (X1 & X2 & X3); destruct (U2 eq_refl) as (Y1 & Y2 & Y3);
          repeat split; congruence|].
  split; [eapply quiet_trans; [exact Q1|]; unfold quiet in *; rewrite <- N1, <- R1; exact Q2|].
  rewrite map_app. eapply lreach_trans; eassumption.
Qed.

(* the common prelude of the operations *)
Lemma skip_false o f : skip o f = Ok false -> shall_be_logged o (f_diag f) = true.
Proof.
  unfold skip. destruct (f_diag f); [discriminate|]. intro H. inversion H.
  destruct (shall_be_logged o (n :: s)); [reflexivity|discriminate].
Qed.

Lemma real_line_ok l u : real_line l = Ok u -> 1 <= l_lineno l.
Proof. unfold real_line. destruct (1 <=? l_lineno l) eqn:E; [lia|discriminate]. Qed.

(* one raw text replaced, one Replacing action described *)
Lemma step_replace o l f j t r from to :
  wf_line l -> l_fix l = Some f -> shall_be_logged o (f_diag f) = true ->
  nth_error (f_texts f) j = Some t -> In r (replace_each from to t) ->
  forall text' zj, zj = Z.of_nat j ->
  step_ok o l (with_fix (with_text l text')
     (describe zj (DRepl from to) (with_text l text')
        (Fix (f_above f) (set_nth j r (f_texts f)) (f_below f) (f_modified f) (f_actions f) (f_level f) (f_diag f)))).
Proof.
  intros W E S Hn Hr text' zj ->. unfold step_ok. rewrite E. cbn [l_fix with_fix].
  exists [(DRepl from to, l_lineno l + Z.of_nat j)].
  unfold describe, lineno_of. cbn.
  repeat split; try reflexivity.
  - apply set_nth_length.
  - intros _. exact S.
  - constructor; [discriminate|constructor].
  - discriminate.
  - intros j0 Hj. cbn. apply nth_error_set_nth_other. intro; subst; apply Hj; left; reflexivity.
  - intros pre post Hp. apply reach_one.
    unfold entry_of. cbn [fst snd action_of].
    rewrite (act_entry_at (l_lineno l) pre j) by (try apply W; auto).
    unfold blocks_of_line. rewrite E. cbn [l_fix with_fix f_above f_texts f_below].
    rewrite blocks_set_text, <- upd_nth_set_nth.
    eapply at_index_embedded; [apply blocks_nth; exact Hn|].
    unfold blk, act_block. cbn [b_above b_text b_below].
    apply in_map with (f := fun x => Block _ x _). exact Hr.
Qed.

Lemma replace_after_step o pre from to l l' f :
  o_autofix o = true -> wf_line l -> l_fix l = Some f ->
  replace_after o pre from to l = Ok l' -> step_ok o l l'.
Proof.
  intros Ha W E. unfold replace_after, bind.
  destruct (real_line l) eqn:R; [|discriminate].
  unfold the_fix. rewrite E.
  destruct (skip o f) as [sk|] eqn:K; [|discriminate].
  destruct sk; [intro H; inversion H; subst; eapply step_ok_refl; eassumption|].
  apply skip_false in K.
  destruct (negb (Nat.eqb (sum_counts (f_texts f) (pre ++ from)) 1));
    [intro H; inversion H; subst; eapply step_ok_refl; eassumption|].
  destruct (first_replace (f_texts f) (pre ++ from) (pre ++ to) 0) as [[ri replaced]|] eqn:FR;
    [|intro H; inversion H; subst; eapply step_ok_refl; eassumption].
  apply first_replace_spec in FR as (j & t & -> & Hn & Hr). simpl plus.
  apply replace_once_spec in Hr as (xa & xb & Ht & Hrep).
  assert (Hin : In replaced (replace_each from to t)).
  { subst t replaced. rewrite <- !app_assoc.
    replace (xa ++ pre ++ from ++ xb) with ((xa ++ pre) ++ from ++ xb) by (rewrite <- app_assoc; reflexivity).
    replace (xa ++ pre ++ to ++ xb) with ((xa ++ pre) ++ to ++ xb) by (rewrite <- app_assoc; reflexivity).
    apply replace_each_in. }
  unfold is_autofix. rewrite Ha. cbn [orb].
  intro H. inversion H; subst l'. apply step_replace with (t := t); auto.
Qed.

Lemma replace_at_step o ri ti from to l l' f :
  wf_line l -> l_fix l = Some f ->
  replace_at o ri ti from to l = Ok l' -> step_ok o l l'.
Proof.
  intros W E. unfold replace_at, bind.
  destruct (str_eqb from to); [discriminate|].
  destruct (real_line l) eqn:R; [|discriminate].
  unfold the_fix. rewrite E.
  destruct (skip o f) as [sk|] eqn:K; [|discriminate].
  destruct sk; [intro H; inversion H; subst; eapply step_ok_refl; eassumption|].
  apply skip_false in K.
  destruct ((ri <? 0) || (Z.of_nat (length (f_texts f)) <=? ri)) eqn:Rg; [discriminate|].
  destruct (negb (ti <? Z.of_nat (length (nth (Z.to_nat ri) (f_texts f) [])))); [discriminate|].
  destruct (ti <? 0); [discriminate|].
  destruct (strip_prefix from (skipn (Z.to_nat ti) (nth (Z.to_nat ri) (f_texts f) []))) as [rest|] eqn:SP; [|discriminate].
  intro H. inversion H; subst l'.
  apply strip_prefix_some in SP.
  set (text := nth (Z.to_nat ri) (f_texts f) []) in *.
  assert (Hn : nth_error (f_texts f) (Z.to_nat ri) = Some text) by (apply nth_error_nth_default; lia).
  assert (Hin : In (firstn (Z.to_nat ti) text ++ to ++ rest) (replace_each from to text)).
  { rewrite <- (firstn_skipn (Z.to_nat ti) text) at 2. rewrite SP. apply replace_each_in. }
  apply step_replace with (t := text); auto. lia.
Qed.

Lemma nl_eq : Autofix.nl = ApplyLog.nl.
Proof. reflexivity. Qed.

Lemma insert_above_step o t l l' f :
  wf_line l -> l_fix l = Some f ->
  insert_above o t l = Ok l' -> step_ok o l l'.
Proof.
  intros W E. unfold insert_above, bind.
  destruct (real_line l) eqn:R; [|discriminate].
  unfold the_fix. rewrite E.
  destruct (skip o f) as [sk|] eqn:K; [|discriminate].
  destruct sk; [intro H; inversion H; subst; eapply step_ok_refl; eassumption|].
  apply skip_false in K. intro H. inversion H; subst l'. clear H.
  unfold step_ok. rewrite E. cbn [l_fix with_fix].
  exists [(DAbove t, l_lineno l + 0)]. unfold describe, lineno_of. cbn.
  repeat split; try reflexivity; try discriminate;
    [intros _; exact K|constructor; [discriminate|constructor]
    |intro Hq; exfalso; apply Hq; left; cbn; lia|].
  intros pre post Hp. apply reach_one. unfold entry_of. cbn [fst snd action_of].
  change 0 with (Z.of_nat 0).
  rewrite (act_entry_at (l_lineno l) pre 0) by (try apply W; auto).
  unfold blocks_of_line. rewrite E. cbn [l_fix with_fix f_above f_texts f_below].
  destruct (f_texts f) as [|t0 ts] eqn:Ets.
  { exfalso. destruct W as [_ Wr Wl]. rewrite E, Ets in Wl. destruct (l_raw l); [congruence|discriminate]. }
  rewrite (blocks_set_above (f_above f) (f_above f ++ [t ++ Autofix.nl]) (t0 :: ts) (f_below f) t0) by reflexivity.
  rewrite <- upd_nth_set_nth.
  eapply at_index_embedded; [apply blocks_nth; reflexivity|].
  unfold blk, act_block. cbn [b_above b_text b_below Nat.eqb]. left. reflexivity.
Qed.

Lemma ends_nl_eq s : has_suffix_nl s = ends_nl s.
Proof. reflexivity. Qed.

Lemma insert_below_step o t l l' f :
  wf_line l -> l_fix l = Some f ->
  insert_below o t l = Ok l' -> step_ok o l l'.
Proof.
  intros W E. unfold insert_below, bind.
  destruct (real_line l) eqn:R; [|discriminate].
  unfold the_fix. rewrite E.
  destruct (skip o f) as [sk|] eqn:K; [|discriminate].
  destruct sk; [intro H; inversion H; subst; eapply step_ok_refl; eassumption|].
  apply skip_false in K. intro H. inversion H; subst l'. clear H.
  assert (Hlen : length (f_texts f) = length (l_raw l)).
  { destruct W as [_ _ Wl]. rewrite E in Wl. exact Wl. }
  assert (Hpos : (0 < length (f_texts f))%nat).
  { rewrite Hlen. destruct W as [_ Wr _]. destruct (l_raw l); [congruence|simpl; lia]. }
  destruct (rev (f_texts f)) as [|tl rr] eqn:Erev.
  { exfalso. apply (f_equal (@length _)) in Erev. rewrite rev_length in Erev. simpl in Erev. lia. }
  pose proof (rev_last_nth _ _ _ Erev) as Hlast.
  (* the new last text, uniformly *)
  set (tl' := if ApplyLog.is_nil (f_below f) && negb (ApplyLog.is_nil tl) && negb (ends_nl tl)
              then tl ++ ApplyLog.nl else tl).
  set (n := length (f_texts f)) in *.
  assert (Etexts :
    match f_below f with
    | [] => if negb (is_nil tl) && negb (has_suffix_nl tl) then set_nth (n - 1) (tl ++ Autofix.nl) (f_texts f) else f_texts f
    | _ :: _ => f_texts f
    end = set_nth (n - 1) tl' (f_texts f)).
  { unfold tl'. destruct (f_below f); cbn [ApplyLog.is_nil andb].
    - destruct tl as [|c tl0]; cbn [is_nil ApplyLog.is_nil negb andb].
      + symmetry. apply set_nth_same. exact Hlast.
      + rewrite ends_nl_eq. destruct (ends_nl (c :: tl0)); cbn [negb];
          [symmetry; apply set_nth_same; exact Hlast|reflexivity].
    - symmetry. apply set_nth_same. exact Hlast. }
  match goal with
  | |- step_ok _ _ (with_fix _ (describe _ _ _ (Fix _ ?X _ _ _ _ _))) =>
    assert (EX : X = set_nth (n - 1) tl' (f_texts f)) by exact Etexts; rewrite EX; clear EX
  end.
  unfold step_ok. rewrite E. cbn [l_fix with_fix].
  exists [(DBelow t, l_lineno l + (Z.of_nat (length (l_raw l)) - 1))]. unfold describe, lineno_of. cbn.
  repeat split; try reflexivity; try discriminate;
    [apply set_nth_length|intros _; exact K|constructor; [discriminate|constructor]
    |intros j0 Hj; cbn; apply nth_error_set_nth_other; intro; subst j0; apply Hj; left; cbn; unfold n; lia
    |intro Hq; exfalso; apply Hq; left; cbn; lia|].
  intros pre post Hp. apply reach_one. unfold entry_of. cbn [fst snd action_of].
  replace (Z.of_nat (length (l_raw l)) - 1) with (Z.of_nat (n - 1)) by (unfold n; lia).
  rewrite (act_entry_at (l_lineno l) pre (n - 1)) by (try apply W; auto).
  unfold blocks_of_line. rewrite E. cbn [l_fix with_fix f_above f_texts f_below].
  rewrite blocks_set_text. fold n.
  rewrite (blocks_set_below (f_above f) (f_texts f) (f_below f) (f_below f ++ [t ++ Autofix.nl]) tl) by exact Hlast.
  fold n. rewrite set_nth_twice, <- upd_nth_set_nth.
  eapply at_index_embedded; [apply blocks_nth; exact Hlast|].
  fold n. unfold blk, act_block, terminate_for_insert. cbn [b_above b_text b_below].
  replace (Nat.eqb (S (n - 1)) n) with true by (symmetry; apply Nat.eqb_eq; lia).
  left. reflexivity.
Qed.

(* Delete: the first k texts are already empty *)
Lemma set_nth_repeat_skipn {A} (x : A) k ts :
  (k < length ts)%nat ->
  set_nth k x (repeat x k ++ skipn k ts) = repeat x (S k) ++ skipn (S k) ts.
Proof.
  revert ts; induction k as [|k IH]; intros ts H; destruct ts as [|t ts]; simpl in *; try lia.
  - reflexivity.
  - f_equal. apply IH. lia.
Qed.

Lemma delete_reach lineno a b ts m k pre post :
  1 <= lineno -> Z.of_nat (length pre) = lineno - 1 ->
  (k + m = length ts)%nat ->
  reach (pre ++ blocks_of_fix a (repeat [] k ++ skipn k ts) b ++ post)
        (map entry_of (delete_actions lineno m (Z.of_nat k)))
        (pre ++ blocks_of_fix a (repeat [] (length ts)) b ++ post).
Proof.
  intros H1 Hp. revert k; induction m as [|m IH]; intros k Hk.
  - replace k with (length ts) by lia. rewrite skipn_all, app_nil_r. constructor.
  - cbn [delete_actions map].
    assert (Hlen : length (repeat (@nil N) k ++ skipn k ts) = length ts).
    { rewrite app_length, repeat_length, skipn_length. lia. }
    destruct (nth_error (repeat (@nil N) k ++ skipn k ts) k) as [tk|] eqn:Hn.
    2:{ apply nth_error_None in Hn. lia. }
    econstructor.
    + unfold entry_of. cbn [fst snd action_of].
      rewrite (act_entry_at lineno pre k) by auto.
      eapply at_index_embedded; [apply blocks_nth; exact Hn|].
      unfold act_block. left. reflexivity.
    + rewrite upd_nth_set_nth.
      match goal with
      | |- reach (pre ++ set_nth k ?B _ ++ post) _ _ =>
        change B with (blk a b (length (repeat (@nil N) k ++ skipn k ts)) k [])
      end.
      assert (Hklt : (k < length ts)%nat) by lia.
      rewrite <- blocks_set_text. rewrite set_nth_repeat_skipn by exact Hklt.
      replace (Z.of_nat k + 1) with (Z.of_nat (S k)) by lia. apply IH. lia.
Qed.

Lemma delete_actions_props lineno n i :
  Forall (fun a : descr * Z => fst a <> DSort) (delete_actions lineno n i).
Proof. revert i; induction n; intro i; simpl; constructor; [discriminate|apply IHn]. Qed.

Lemma delete_actions_linenos lineno n : forall k j,
  (k <= j < k + n)%nat -> In (lineno + Z.of_nat j) (map snd (delete_actions lineno n (Z.of_nat k))).
Proof.
  induction n as [|n IH]; intros k j H; [lia|]. cbn [delete_actions map snd].
  destruct (Nat.eq_dec j k) as [->|Hne]; [left; reflexivity|right].
  replace (Z.of_nat k + 1) with (Z.of_nat (S k)) by lia. apply IH. lia.
Qed.

Lemma delete_step o l l' f :
  wf_line l -> l_fix l = Some f ->
  delete o l = Ok l' -> step_ok o l l'.
Proof.
  intros W E. unfold delete, bind.
  destruct (real_line l) eqn:R; [|discriminate].
  unfold the_fix. rewrite E.
  destruct (skip o f) as [sk|] eqn:K; [|discriminate].
  destruct sk; [intro H; inversion H; subst; eapply step_ok_refl; eassumption|].
  apply skip_false in K. intro H. inversion H; subst l'. clear H.
  unfold step_ok. rewrite E. cbn [l_fix with_fix].
  exists (delete_actions (l_lineno l) (length (f_texts f)) 0). cbn.
  assert (Hnil : delete_actions (l_lineno l) (length (f_texts f)) 0 = [] -> repeat [] (length (f_texts f)) = f_texts f).
  { destruct (f_texts f); [reflexivity|discriminate]. }
  repeat split; try reflexivity;
    [apply repeat_length|intros _; exact K|apply delete_actions_props|apply Hnil; assumption| |].
  { intros j Hj. cbn.
    assert (Hge : (length (f_texts f) <= j)%nat).
    { destruct (le_lt_dec (length (f_texts f)) j) as [Hle|Hlt]; [exact Hle|].
      exfalso. apply Hj.
      apply (delete_actions_linenos (l_lineno l) (length (f_texts f)) 0 j). lia. }
    assert (E1 : nth_error (repeat (@nil N) (length (f_texts f))) j = None)
      by (apply nth_error_None; rewrite repeat_length; exact Hge).
    assert (E2 : nth_error (f_texts f) j = None) by (apply nth_error_None; exact Hge).
    rewrite E2. exact E1. }
  intros pre post Hp. unfold blocks_of_line. rewrite E. cbn [l_fix with_fix f_above f_texts f_below].
  pose proof (delete_reach (l_lineno l) (f_above f) (f_below f) (f_texts f) (length (f_texts f)) 0 pre post) as D.
  apply D; [apply W|exact Hp|reflexivity].
Qed.

Lemma custom_step o ri l l' ran f :
  l_fix l = Some f -> custom o ri DChmod l = Ok (l', ran) -> step_ok o l l'.
Proof.
  intros E. unfold custom, bind, the_fix. rewrite E.
  destruct (skip o f) as [sk|] eqn:K; [|discriminate].
  destruct sk; [intro H; inversion H; subst; eapply step_ok_refl; eassumption|].
  apply skip_false in K. intro H. inversion H; subst l' ran. clear H.
  unfold step_ok. rewrite E. cbn [l_fix with_fix].
  exists [(DChmod, l_lineno l + ri)]. unfold describe, lineno_of. cbn.
  repeat split; try reflexivity; try discriminate; [intros _; exact K|constructor; [discriminate|constructor]|].
  intros pre post Hp. apply reach_one. unfold entry_of, act_entry. cbn. left.
  unfold blocks_of_line. rewrite E. reflexivity.
Qed.

Lemma do_op_step o p l l' f :
  o_autofix o = true -> wf_line l -> l_fix l = Some f ->
  do_op o p l = Ok l' -> step_ok o l l'.
Proof.
  intros Ha W E. destruct p; cbn [do_op].
  - apply replace_after_step with (f := f); assumption.
  - apply replace_at_step with (f := f); assumption.
  - apply insert_above_step with (f := f); assumption.
  - apply insert_below_step with (f := f); assumption.
  - apply delete_step with (f := f); assumption.
  - unfold bind. destruct (custom o rawIndex DChmod l) as [[l1 ran]|] eqn:C; [|discriminate].
    intro H. inversion H; subst. eapply custom_step; eassumption.
Qed.

Lemma step_ok_wf o l l' : wf_line l -> step_ok o l l' -> wf_line l'.
Proof.
  intros [W1 W2 W3]. unfold step_ok. destruct (l_fix l) as [f|] eqn:E; [|tauto].
  destruct (l_fix l') as [f'|] eqn:E'; [|tauto].
  intros (acts & _ & _ & _ & _ & N & R & _ & L & _).
  split; [rewrite N; exact W1|rewrite R; exact W2|rewrite E', L, R; exact W3].
Qed.

Lemma do_ops_step o ps : forall l l' f,
  o_autofix o = true -> wf_line l -> l_fix l = Some f ->
  do_ops o ps l = Ok l' -> step_ok o l l'.
Proof.
  induction ps as [|p ps IH]; intros l l' f Ha W E; cbn [do_ops].
  - intro H. inversion H; subst. eapply step_ok_refl; eassumption.
  - unfold bind. destruct (do_op o p l) as [l1|] eqn:D; [|discriminate]. intro H.
    pose proof (do_op_step o p l l1 f Ha W E D) as S1.
    assert (exists f1, l_fix l1 = Some f1) as [f1 E1].
    { unfold step_ok in S1. rewrite E in S1. destruct (l_fix l1); [eexists; reflexivity|tauto]. }
    eapply step_ok_trans; [exact S1|].
    eapply IH; [exact Ha|eapply step_ok_wf; eassumption|exact E1|exact H].
Qed.

(* ---------- one fix transaction ---------- *)

Definition idle (l : line) : Prop :=
  match l_fix l with
  | None => True
  | Some f => f_actions f = [] /\ f_diag f = [] /\ f_level f = false
  end.

Lemma apply_autofix o l f :
  is_autofix o = true -> l_fix l = Some f -> f_level f = true ->
  (f_actions f <> [] -> shall_be_logged o (f_diag f) = true) ->
  apply o l = Ok (with_fix l (reset f), f_actions f).
Proof.
  intros Ha E Hl Hs. unfold apply, bind, the_fix. rewrite E, Hl, Ha. cbn [negb].
  destruct (f_actions f) as [|x xs] eqn:Ea.
  - rewrite andb_false_r. reflexivity.
  - rewrite Hs by discriminate. reflexivity.
Qed.

Lemma blocks_with_fix_reset l f :
  l_fix l = Some f -> blocks_of_line (with_fix l (reset f)) = blocks_of_line l.
Proof. intro E. unfold blocks_of_line. rewrite E. reflexivity. Qed.

(* the current texts / inserted lines of a line, whether or not it has a fix object *)
Definition cur_texts (l : line) : list str := match l_fix l with Some f => f_texts f | None => l_raw l end.
Definition cur_above (l : line) : list str := match l_fix l with Some f => f_above f | None => [] end.
Definition cur_below (l : line) : list str := match l_fix l with Some f => f_below f | None => [] end.

Definition quiet_line (l l' : line) (acts : list (descr * Z)) : Prop :=
  (forall j, ~ In (l_lineno l + Z.of_nat j) (map snd acts) -> nth_error (cur_texts l') j = nth_error (cur_texts l) j) /\
  (~ In (l_lineno l) (map snd acts) -> cur_above l' = cur_above l) /\
  (~ In (l_lineno l + Z.of_nat (length (l_raw l)) - 1) (map snd acts) -> cur_below l' = cur_below l).

Lemma do_txn_reach o t l0 l4 printed :
  o_autofix o = true -> wf_line l0 -> idle l0 ->
  do_txn o t l0 = Ok (l4, printed) ->
  wf_line l4 /\ idle l4 /\ l_lineno l4 = l_lineno l0 /\ l_raw l4 = l_raw l0 /\ l_file l4 = l_file l0 /\
  Forall (fun a : descr * Z => fst a <> DSort) printed /\
  lreach l0 l4 (map entry_of printed) /\
  (line_modified l4 = true -> line_modified l0 = true \/ printed <> []) /\
  (printed = [] -> line_bytes l4 = line_bytes l0) /\
  (printed <> [] -> line_modified l4 = true) /\
  (line_modified l0 = true -> line_modified l4 = true) /\
  quiet_line l0 l4 printed.
Proof.
  intros Ha W I. unfold do_txn, bind.
  (* fix := line.Autofix(); setDiag *)
  assert (P : exists l2 f2,
    (do (l1, _) <- autofix l0; set_diag (t_diag t) l1) = Ok l2 /\
    l_fix l2 = Some f2 /\ f_actions f2 = [] /\ f_level f2 = true /\ f_diag f2 = t_diag t /\
    f_modified f2 = line_modified l0 /\ blocks_of_line l2 = blocks_of_line l0 /\
    wf_line l2 /\ l_lineno l2 = l_lineno l0 /\ l_raw l2 = l_raw l0 /\ l_file l2 = l_file l0 /\
    f_above f2 ++ f_texts f2 ++ f_below f2 = line_bytes l0 /\
    f_above f2 = cur_above l0 /\ f_texts f2 = cur_texts l0 /\ f_below f2 = cur_below l0).
  { unfold autofix, bind, idle, line_modified in *. destruct (l_fix l0) as [f|] eqn:E.
    - destruct I as (A & D & L). rewrite D. unfold set_diag, bind, the_fix. rewrite E, L, D.
      eexists _, _. split; [reflexivity|]. cbn.
      unfold blocks_of_line. rewrite E. cbn.
      split; [reflexivity|]. split; [exact A|]. split; [reflexivity|]. split; [reflexivity|].
      split; [reflexivity|]. split; [reflexivity|].
      split; [|repeat split; try reflexivity; unfold line_bytes, cur_above, cur_texts, cur_below; rewrite E; reflexivity].
      destruct W as [W1 W2 W3]. split; cbn; [exact W1|exact W2|]. rewrite E in W3. exact W3.
    - unfold set_diag, bind, the_fix. cbn.
      eexists _, _. split; [reflexivity|]. cbn.
      split; [reflexivity|]. split; [reflexivity|]. split; [reflexivity|]. split; [reflexivity|].
      split; [reflexivity|].
      split; [change (blocks_of_fix [] (l_raw l0) [] = blocks_of_line l0);
              unfold blocks_of_line; rewrite E; apply blocks_of_new|].
      split; [|repeat split; try reflexivity; unfold line_bytes, cur_above, cur_texts, cur_below; rewrite E; cbn; try reflexivity; apply app_nil_r].
      destruct W as [W1 W2 W3]. split; cbn; [exact W1|exact W2|reflexivity]. }
  destruct P as (l2 & f2 & P0 & E2 & A2 & L2 & D2 & M2 & B2 & W2 & N2 & R2 & F2 & LB2 & CA2 & CT2 & CB2).
  unfold bind in P0.
  destruct (autofix l0) as [[l1 f1]|]; [|discriminate]. rewrite P0.
  destruct (do_ops o (t_ops t) l2) as [l3|] eqn:DO; [|discriminate].
  pose proof (do_ops_step o (t_ops t) l2 l3 f2 Ha W2 E2 DO) as S.
  pose proof (step_ok_wf o l2 l3 W2 S) as W3.
  unfold step_ok in S. rewrite E2 in S. destruct (l_fix l3) as [f3|] eqn:E3; [|tauto].
  destruct S as (acts & A3 & D3 & L3 & M3 & N3 & R3 & F3 & Len3 & S3 & NS3 & U3 & Q3 & P3).
  rewrite A2 in A3. cbn [app] in A3.
  rewrite (apply_autofix o l3 f3); [|unfold is_autofix; rewrite Ha; reflexivity|exact E3|congruence|].
  2:{ rewrite A3, D3. exact S3. }
  intro H. inversion H; subst l4 printed. clear H.
  repeat split.
  - cbn. rewrite N3, N2. apply W.
  - cbn. rewrite R3, R2. apply W.
  - cbn. rewrite Len3. destruct W2 as [_ _ Wl]. rewrite E2 in Wl. rewrite R3. exact Wl.
  - cbn. congruence.
  - cbn. congruence.
  - cbn. congruence.
  - rewrite A3. exact NS3.
  - rewrite A3. intros pre post Hp.
    rewrite (blocks_with_fix_reset l3 f3 E3). rewrite <- B2.
    apply P3. rewrite N2. exact Hp.
  - unfold line_modified. cbn. rewrite A3. destruct acts; [|intros _; right; discriminate].
    intro Hm. left. change (line_modified l0 = true). rewrite <- M2, <- M3. exact Hm.
  - intro Hnil. rewrite A3 in Hnil. destruct (U3 Hnil) as (X1 & X2 & X3).
    unfold line_bytes at 1. cbn. rewrite X1, X2, X3. exact LB2.
  - intro Hne. unfold line_modified. cbn. rewrite A3 in *. destruct acts; [congruence|reflexivity].
  - intro Hm. unfold line_modified at 1. cbn. rewrite A3. destruct acts; [|reflexivity].
    rewrite M3, M2. exact Hm.
  - rewrite A3. destruct Q3 as (QT & QA & QB). intros j Hj. rewrite <- CT2.
    unfold cur_texts. cbn [l_fix with_fix reset f_texts]. apply QT. rewrite N2. exact Hj.
  - rewrite A3. destruct Q3 as (QT & QA & QB). intro Hq. rewrite <- CA2.
    unfold cur_above. cbn [l_fix with_fix reset f_above]. apply QA. rewrite N2. exact Hq.
  - rewrite A3. destruct Q3 as (QT & QA & QB). intro Hq. rewrite <- CB2.
    unfold cur_below. cbn [l_fix with_fix reset f_below]. apply QB. rewrite N2, R2. exact Hq.
Qed.

(* ---------- the lines of a file ---------- *)

Fixpoint numbered (start : Z) (ls : list line) : Prop :=
  match ls with
  | [] => True
  | l :: ls' => l_lineno l = start /\ numbered (start + Z.of_nat (length (l_raw l))) ls'
  end.

Lemma blocks_of_store_app a b : blocks_of_store (a ++ b) = blocks_of_store a ++ blocks_of_store b.
Proof. unfold blocks_of_store. apply flat_map_app. Qed.

Lemma numbered_offset start s1 l s2 :
  numbered start (s1 ++ l :: s2) -> Forall wf_line s1 ->
  Z.of_nat (length (blocks_of_store s1)) = l_lineno l - start.
Proof.
  revert start; induction s1 as [|x s1 IH]; intros start H W; simpl in *.
  - destruct H as [H _]. lia.
  - destruct H as [Hx H]. inversion W as [|? ? Wx Ws]; subst.
    specialize (IH _ H Ws). unfold blocks_of_store in *. cbn [flat_map]. rewrite app_length, blocks_of_line_length by apply Wx. lia.
Qed.

Lemma numbered_replace start s1 l l' s2 :
  numbered start (s1 ++ l :: s2) -> l_lineno l' = l_lineno l -> l_raw l' = l_raw l ->
  numbered start (s1 ++ l' :: s2).
Proof.
  revert start; induction s1 as [|x s1 IH]; intros start H E1 E2; simpl in *.
  - rewrite E1, E2. exact H.
  - destruct H as [Hx H]. split; [exact Hx|]. apply IH; assumption.
Qed.

Definition entries_of (file : str) (log : list logline) : list entry :=
  map (fun g => entry_of (g_descr g, g_lineno g)) (filter (fun g => str_eqb (g_file g) file) log).

Lemma entries_of_app file a b : entries_of file (a ++ b) = entries_of file a ++ entries_of file b.
Proof. unfold entries_of. rewrite filter_app, map_app. reflexivity. Qed.

Lemma entries_of_log_of file l printed :
  l_file l = file -> entries_of file (log_of l printed) = map entry_of printed.
Proof.
  intro E. subst file. unfold entries_of, log_of. induction printed as [|[d z] ps IH]; [reflexivity|].
  cbn [map filter g_file]. rewrite str_eqb_refl. cbn [map g_descr g_lineno fst snd].
  f_equal. exact IH.
Qed.

Definition modified_logged (ls : list line) (log : list logline) : Prop :=
  Forall (fun l => line_modified l = true -> exists g, In g log /\ g_file g = l_file l) ls.

Record inv (file content : str) (st : state) : Prop := {
  inv_wf : Forall wf_line (s_store st);
  inv_idle : Forall idle (s_store st);
  inv_num : numbered 1 (s_store st);
  inv_file : Forall (fun l => l_file l = file) (s_store st);
  inv_nosort : Forall (fun g => g_descr g <> DSort) (s_log st);
  inv_logged : modified_logged (s_store st) (s_log st);
  inv_unmod : Forall (fun l => line_modified l = false -> line_bytes l = l_raw l) (s_store st);
  inv_reach : reach (init_blocks content) (entries_of file (s_log st)) (blocks_of_store (s_store st))
}.

Lemma Forall_split_mid {A} (P : A -> Prop) s1 x s2 :
  Forall P (s1 ++ x :: s2) <-> Forall P s1 /\ P x /\ Forall P s2.
Proof.
  rewrite Forall_app. split.
  - intros [H1 H2]. inversion H2; subst. auto.
  - intros (H1 & H2 & H3). split; [assumption|constructor; assumption].
Qed.

Lemma modified_logged_mono ls log log' : modified_logged ls log -> modified_logged ls (log ++ log').
Proof.
  unfold modified_logged. apply Forall_impl. intros l H Hm. destruct (H Hm) as (g & Hg & Hf).
  exists g. split; [apply in_or_app; left; exact Hg|exact Hf].
Qed.

Lemma step_txn_inv o keys file content t st st' :
  o_autofix o = true -> inv file content st -> step o keys (ETxn t) st = Ok st' -> inv file content st'.
Proof.
  intros Ha [Wf Id Nu Fi Ns Lg Um Re]. cbn [step].
  destruct (nth_error (s_store st) (t_line t)) as [l0|] eqn:En.
  2:{ intro H. inversion H; subst. constructor; assumption. }
  unfold bind. destruct (do_txn o t l0) as [[l1 printed]|] eqn:DT; [|discriminate].
  intro H. inversion H; subst st'. clear H. cbn [s_store s_log s_ops].
  apply nth_error_split in En as (s1 & s2 & Es & Elen). rewrite Es in *.
  rewrite <- Elen, set_nth_split.
  apply Forall_split_mid in Wf as (Wf1 & Wf0 & Wf2).
  apply Forall_split_mid in Id as (Id1 & Id0 & Id2).
  apply Forall_split_mid in Fi as (Fi1 & Fi0 & Fi2).
  destruct (do_txn_reach o t l0 l1 printed Ha Wf0 Id0 DT) as (W1 & I1 & N1 & R1 & F1 & NS1 & P1 & M1 & LB1 & MD1 & MM1 & QL1).
  constructor; cbn [s_store s_log s_ops].
  - apply Forall_split_mid. auto.
  - apply Forall_split_mid. auto.
  - eapply numbered_replace; eassumption.
  - apply Forall_split_mid. repeat split; try assumption. congruence.
  - apply Forall_app. split; [exact Ns|]. unfold log_of. apply Forall_forall.
    intros g Hg. apply in_map_iff in Hg as (p & <- & Hp). cbn.
    rewrite Forall_forall in NS1. apply NS1. exact Hp.
  - unfold modified_logged in *. apply Forall_split_mid in Lg as (Lg1 & Lg0 & Lg2).
    apply Forall_split_mid. repeat split.
    + apply (modified_logged_mono s1 (s_log st)). exact Lg1.
    + intro Hm. apply M1 in Hm as [Hm|Hne].
      * destruct (Lg0 Hm) as (g & Hg & Hf). exists g. split; [apply in_or_app; left; exact Hg|congruence].
      * destruct printed as [|p ps]; [congruence|]. exists (Log (l_file l1) (fst p) (snd p)).
        split; [apply in_or_app; right; left; reflexivity|reflexivity].
    + apply (modified_logged_mono s2 (s_log st)). exact Lg2.
  - apply Forall_split_mid in Um as (Um1 & Um0 & Um2).
    apply Forall_split_mid. repeat split; try assumption.
    intro Hm. destruct printed as [|p ps].
    + rewrite (LB1 eq_refl), R1. apply Um0.
      destruct (line_modified l0) eqn:M0; [rewrite (MM1 eq_refl) in Hm; discriminate|reflexivity].
    + rewrite MD1 in Hm by discriminate. discriminate.
  - rewrite entries_of_app, (entries_of_log_of file l1 printed) by congruence.
    eapply reach_app; [exact Re|].
    rewrite !blocks_of_store_app. cbn [blocks_of_store flat_map].
    apply P1. pose proof (numbered_offset 1 s1 l0 s2 Nu Wf1). lia.
Qed.

(* ---------- checkExecutable ---------- *)

Lemma check_executable_spec o file x c printed ops :
  check_executable o file x c = Ok (printed, ops) ->
  Forall (fun p : descr * Z => fst p = DChmod) printed /\
  (ops = [] \/ (ops = [OpChmod file] /\ o_autofix o = true /\ printed <> [])).
Proof.
  unfold check_executable. destruct x; cbn [negb]; [|intro H; inversion H; split; [constructor|left; reflexivity]].
  destruct c; [intro H; inversion H; split; [constructor|left; reflexivity]|].
  unfold bind, autofix, set_diag, the_fix, custom, bind, skip, apply, the_fix, bind, not_executable_format.
  cbn -[shall_be_logged is_autofix].
  match goal with |- context [shall_be_logged o ?d] => destruct (shall_be_logged o d) eqn:S end;
    cbn -[shall_be_logged is_autofix].
  - unfold is_autofix. destruct (o_autofix o) eqn:A, (o_show o); cbn.
    all: try rewrite S; cbn.
    all: intro H; inversion H; subst; (split; [repeat constructor|]); auto.
    all: right; repeat split; discriminate.
  - try rewrite S; cbn. intro H; inversion H; subst. split; [constructor|left; reflexivity].
Qed.

Definition no_sort_event (e : event) : Prop := match e with ESort => False | _ => True end.

Lemma step_inv o keys file content e st st' :
  o_autofix o = true -> no_sort_event e -> inv file content st -> step o keys e st = Ok st' -> inv file content st'.
Proof.
  intros Ha Hn I. destruct e; try contradiction.
  - apply step_txn_inv; assumption.
  - cbn [step]. destruct (save o (s_store st)) as [ops b]. intro H. inversion H; subst.
    destruct I. constructor; assumption.
  - cbn [step]. unfold bind. destruct (check_executable o file0 executable committed) as [[printed ops]|] eqn:CE; [|discriminate].
    intro H. inversion H; subst st'. clear H.
    apply check_executable_spec in CE as [Hp _].
    destruct I as [Wf Id Nu Fi Ns Lg Um Re]. constructor; cbn [s_store s_log s_ops]; try assumption.
    + apply Forall_app. split; [exact Ns|]. apply Forall_forall. intros g Hg.
      apply in_map_iff in Hg as (p & <- & Hin). cbn. rewrite Forall_forall in Hp. rewrite (Hp p Hin). discriminate.
    + apply modified_logged_mono. exact Lg.
    + rewrite entries_of_app. eapply reach_app; [exact Re|].
      unfold entries_of. induction printed as [|p ps IH]; [constructor|].
      inversion Hp as [|? ? Hd Hps]; subst. cbn [map filter g_file].
      destruct (str_eqb file0 file); [|apply IH; exact Hps].
      cbn [map g_descr g_lineno]. econstructor; [|apply IH; exact Hps].
      unfold entry_of, act_entry. cbn [fst snd]. rewrite Hd. cbn. left. reflexivity.
Qed.

Lemma run_inv o keys file content evs : forall st st',
  o_autofix o = true -> Forall no_sort_event evs -> inv file content st ->
  run o keys evs st = Ok st' -> inv file content st'.
Proof.
  induction evs as [|e evs IH]; intros st st' Ha Hn I; cbn [run].
  - intro H. inversion H; subst. exact I.
  - unfold bind. destruct (step o keys e st) as [s1|] eqn:S; [|discriminate].
    inversion Hn; subst. intro H. eapply IH; [exact Ha|assumption| |exact H].
    eapply step_inv; eassumption.
Qed.

(* ---------- the initial state: a loaded file ---------- *)

Definition wf_groups (content : str) (groups : list (list str * str)) : Prop :=
  concat (map fst groups) = phys_lines content /\ Forall (fun g => fst g <> []) groups.

Lemma mk_lines_props file groups : forall start, 1 <= start ->
  Forall (fun g : list str * str => fst g <> []) groups ->
  let ls := mk_lines file start groups in
  Forall wf_line ls /\ Forall idle ls /\ numbered start ls /\ Forall (fun l => l_file l = file) ls /\
  Forall (fun l => line_modified l = false) ls /\
  Forall (fun l => line_bytes l = l_raw l) ls /\
  blocks_of_store ls = map (fun r => Block [] r []) (concat (map fst groups)).
Proof.
  induction groups as [|[raws text] gs IH]; intros start H1 Hg; cbn.
  - repeat split; constructor.
  - inversion Hg as [|? ? Hr Hgs]; subst. cbn in Hr.
    destruct (IH (start + Z.of_nat (length raws)) ltac:(lia) Hgs) as (A & B & C & D & E & G & F).
    split; [constructor; [constructor; cbn; [lia|exact Hr|exact I]|exact A]|].
    split; [constructor; [exact I|exact B]|].
    split; [split; [reflexivity|exact C]|].
    split; [constructor; [reflexivity|exact D]|].
    split; [constructor; [reflexivity|exact E]|].
    split; [constructor; [reflexivity|exact G]|].
    unfold blocks_of_store in *. cbn [flat_map]. rewrite F, map_app. reflexivity.
Qed.

Lemma init_inv file content groups :
  wf_groups content groups -> inv file content (init_state file groups).
Proof.
  intros [Hc Hg]. destruct (mk_lines_props file groups 1 ltac:(lia) Hg) as (A & B & C & D & E & G & F).
  unfold init_state. constructor; cbn [s_store s_log s_ops]; try assumption.
  - constructor.
  - unfold modified_logged. eapply Forall_impl; [|exact E]. cbn. intros l H1 H2. congruence.
  - eapply Forall_impl; [|exact G]. cbn. intros l H1 _. exact H1.
  - cbn. rewrite F, Hc. constructor.
Qed.

(* ---------- what a save writes ---------- *)

Lemma flat_blocks_of_line l : wf_line l -> flat_blocks (blocks_of_line l) = concat (line_bytes l).
Proof.
  intros [_ Wr Wl]. unfold blocks_of_line, line_bytes. destruct (l_fix l) as [f|].
  - rewrite flat_blocks_of_fix.
    + rewrite !concat_app. reflexivity.
    + intro E. rewrite E in Wl. destruct (l_raw l); [congruence|discriminate].
  - unfold flat_blocks. rewrite map_map. unfold flat_block. cbn. clear Wr Wl.
    induction (l_raw l) as [|r rs IH]; cbn; [reflexivity|]. rewrite app_nil_r.
    f_equal. exact IH.
Qed.

Lemma file_content_blocks file ls :
  Forall wf_line ls -> Forall (fun l => l_file l = file) ls ->
  flat_blocks (blocks_of_store ls) = file_content file ls.
Proof.
  unfold file_content, blocks_of_store. induction ls as [|l ls IH]; intros W F; [reflexivity|].
  inversion W as [|? ? Wl Wls]; inversion F as [|? ? Fl Fls]; subst.
  cbn [flat_map]. rewrite flat_blocks_app, concat_app, IH by assumption.
  rewrite flat_blocks_of_line by assumption. rewrite str_eqb_refl. reflexivity.
Qed.

Lemma has_sort_entries file log :
  Forall (fun g => g_descr g <> DSort) log -> has_sort (entries_of file log) = false.
Proof.
  unfold has_sort, entries_of. induction log as [|g log IH]; intro H; [reflexivity|].
  inversion H; subst. cbn [filter]. destruct (str_eqb (g_file g) file); [|apply IH; assumption].
  cbn [map existsb]. rewrite IH by assumption. unfold entry_of. cbn [fst snd].
  destruct (g_descr g); try reflexivity. congruence.
Qed.

(* C03: what a save writes is the old file with the logged actions applied *)
Theorem save_consistent_with_log o keys file content groups evs st :
  o_autofix o = true -> wf_groups content groups -> Forall no_sort_event evs ->
  run o keys evs (init_state file groups) = Ok st ->
  consistent content (entries_of file (s_log st)) (file_content file (s_store st)) = true.
Proof.
  intros Ha Wg Hn R.
  pose proof (run_inv o keys file content evs _ _ Ha Hn (init_inv file content groups Wg) R) as I.
  destruct I as [Wf Id Nu Fi Ns Lg Um Re].
  rewrite <- (file_content_blocks file) by assumption.
  apply reach_consistent; [exact Re|apply has_sort_entries; assumption].
Qed.

(* ---------- the bytes on disk ---------- *)

Inductive paired (file : str) : list fsop -> Prop :=
| paired_nil : paired file []
| paired_save c ops : paired file ops ->
    paired file (save_seq file c ++ ops)
| paired_chmod p ops : paired file ops -> paired file (OpChmod p :: ops).

Lemma paired_app file a b : paired file a -> paired file b -> paired file (a ++ b).
Proof. induction 1; intro; cbn; [assumption|constructor; auto|constructor; auto]. Qed.

Lemma disk_after_save_seq file c before rest :
  disk_after file before None (save_seq file c ++ rest) = disk_after file c None rest.
Proof. unfold save_seq. cbn [app disk_after]. rewrite !str_eqb_refl. reflexivity. Qed.

Lemma disk_after_paired file ops : paired file ops -> forall before rest,
  disk_after file before None (ops ++ rest) = disk_after file (disk_after file before None ops) None rest.
Proof.
  induction 1 as [|c ops P IH|p ops P IH]; intros before rest.
  - reflexivity.
  - rewrite <- app_assoc, !disk_after_save_seq. apply IH.
  - cbn [app disk_after]. apply IH.
Qed.

Lemma changed_files_single file ls : Forall (fun l => l_file l = file) ls ->
  forall seen, changed_files ls seen =
    if existsb line_modified ls && negb (existsb (str_eqb file) seen) then [file] else [].
Proof.
  induction ls as [|l ls IH]; intros F seen; [reflexivity|].
  inversion F as [|? ? Fl Fls]; subst. cbn [changed_files existsb].
  destruct (line_modified l); cbn [andb orb].
  - destruct (existsb (str_eqb (l_file l)) seen) eqn:S; cbn [negb].
    + rewrite IH by assumption. rewrite S. rewrite andb_false_r. reflexivity.
    + rewrite IH by assumption. cbn [existsb]. rewrite str_eqb_refl. cbn. rewrite andb_false_r. reflexivity.
  - apply IH. assumption.
Qed.

Lemma save_ops_single o file ls :
  o_autofix o = true -> Forall (fun l => l_file l = file) ls ->
  fst (save o ls) =
    if existsb line_modified ls
    then save_seq file (file_content file ls)
    else [].
Proof.
  intros Ha F. unfold save. rewrite Ha. cbn [negb fst].
  rewrite (changed_files_single file ls F []). cbn [existsb negb]. rewrite andb_true_r.
  destruct (existsb line_modified ls); reflexivity.
Qed.

Lemma unmodified_content file ls :
  Forall (fun l => l_file l = file) ls ->
  Forall (fun l => line_modified l = false -> line_bytes l = l_raw l) ls ->
  existsb line_modified ls = false ->
  file_content file ls = concat (flat_map l_raw ls).
Proof.
  unfold file_content. induction ls as [|l ls IH]; intros F U E; [reflexivity|].
  inversion F as [|? ? Fl Fls]; inversion U as [|? ? Ul Uls]; subst. cbn [existsb] in E.
  apply orb_false_iff in E as [E1 E2]. cbn [flat_map]. rewrite str_eqb_refl, !concat_app.
  rewrite (Ul E1). f_equal. apply IH; assumption.
Qed.

(* the operations so far are complete save pairs for this file, or chmods; as long
   as no line is modified the disk holds the original content *)
Record disk_inv (file content : str) (st : state) : Prop := {
  di_paired : paired file (s_ops st);
  di_raws : concat (flat_map l_raw (s_store st)) = content;
  di_clean : existsb line_modified (s_store st) = false -> disk_after file content None (s_ops st) = content
}.

Lemma mk_lines_raws file groups : forall start,
  flat_map l_raw (mk_lines file start groups) = concat (map fst groups).
Proof. induction groups as [|[raws text] gs IH]; intro start; cbn; [reflexivity|]. rewrite IH. reflexivity. Qed.

Lemma set_nth_raws (ls : list line) i l l0 :
  nth_error ls i = Some l0 -> l_raw l = l_raw l0 -> flat_map l_raw (set_nth i l ls) = flat_map l_raw ls.
Proof.
  revert i; induction ls as [|x ls IH]; intros [|i] Hn E; cbn in *; try discriminate.
  - inversion Hn; subst. rewrite E. reflexivity.
  - rewrite (IH i) by assumption. reflexivity.
Qed.

Lemma set_nth_modified (ls : list line) i l l0 :
  nth_error ls i = Some l0 -> (line_modified l0 = true -> line_modified l = true) ->
  existsb line_modified (set_nth i l ls) = false -> existsb line_modified ls = false.
Proof.
  revert i; induction ls as [|x ls IH]; intros [|i] Hn M E; cbn in *; try discriminate.
  - inversion Hn; subst. apply orb_false_iff in E as [E1 E2]. rewrite E2, orb_false_r.
    destruct (line_modified l0); [rewrite M in E1 by reflexivity; discriminate|reflexivity].
  - apply orb_false_iff in E as [E1 E2]. rewrite E1. cbn. eapply IH; eassumption.
Qed.

Lemma step_disk_inv o keys file content e st st' :
  o_autofix o = true -> no_sort_event e -> inv file content st -> disk_inv file content st ->
  step o keys e st = Ok st' -> disk_inv file content st'.
Proof.
  intros Ha Hn I [P Rw Cl]. destruct e; try contradiction; cbn [step].
  - destruct (nth_error (s_store st) (t_line t)) as [l0|] eqn:En.
    2:{ intro H. inversion H; subst st'. constructor; assumption. }
    unfold bind. destruct (do_txn o t l0) as [[l1 printed]|] eqn:DT; [|discriminate].
    intro H. inversion H; subst st'. clear H.
    pose proof En as En'. apply nth_error_split in En' as (s1 & s2 & Es & Elen).
    assert (W0 : wf_line l0 /\ idle l0).
    { destruct I as [Wf Id _ _ _ _ _ _]. rewrite Es in Wf, Id.
      apply Forall_split_mid in Wf as (_ & W & _). apply Forall_split_mid in Id as (_ & D & _). auto. }
    destruct (do_txn_reach o t l0 l1 printed Ha (proj1 W0) (proj2 W0) DT) as (_ & _ & _ & R1 & _ & _ & _ & _ & _ & _ & MM1 & _).
    constructor; cbn [s_store s_ops]; [exact P| |].
    + rewrite (set_nth_raws (s_store st) (t_line t) l1 l0 En R1). exact Rw.
    + intro E. apply Cl. eapply set_nth_modified; eassumption.
  - pose proof (save_ops_single o file (s_store st) Ha (inv_file _ _ _ I)) as S.
    destruct (save o (s_store st)) as [ops b]. cbn [fst] in S. subst ops.
    intro H. inversion H; subst st'. constructor; cbn [s_store s_ops]; [|exact Rw|].
    + apply paired_app; [exact P|]. destruct (existsb line_modified (s_store st)); repeat constructor.
    + intro E. rewrite E, app_nil_r. apply Cl. exact E.
  - unfold bind. destruct (check_executable o file0 executable committed) as [[printed ops]|] eqn:CE; [|discriminate].
    intro H. inversion H; subst st'. constructor; cbn [s_store s_ops]; [|exact Rw|].
    + apply check_executable_spec in CE as [_ [->|[-> _]]]; [rewrite app_nil_r; exact P|].
      apply paired_app; [exact P|repeat constructor].
    + intro E. rewrite disk_after_paired by exact P. rewrite (Cl E).
      apply check_executable_spec in CE as [_ [->|[-> _]]]; reflexivity.
Qed.

Lemma run_both_inv o keys file content evs : forall st st',
  o_autofix o = true -> Forall no_sort_event evs -> inv file content st -> disk_inv file content st ->
  run o keys evs st = Ok st' -> inv file content st' /\ disk_inv file content st'.
Proof.
  induction evs as [|e evs IH]; intros st st' Ha Hn I D; cbn [run].
  - intro H. inversion H; subst st'. auto.
  - unfold bind. destruct (step o keys e st) as [s1|] eqn:S; [|discriminate].
    inversion Hn; subst. intro H. eapply IH; [exact Ha|assumption| | |exact H].
    + eapply step_inv; eassumption.
    + eapply step_disk_inv; eassumption.
Qed.

Lemma run_app o keys a b st : run o keys (a ++ b) st = do s <- run o keys a st; run o keys b s.
Proof.
  revert st; induction a as [|e a IH]; intro st; cbn [app run bind]; [reflexivity|].
  unfold bind. destruct (step o keys e st); [apply IH|reflexivity].
Qed.

(* after a history that ends with a save, the bytes on disk are the bytes of a state
   that the log leads to *)
Lemma disk_reach o keys file content groups evs st :
  o_autofix o = true -> wf_groups content groups -> Forall no_sort_event evs ->
  run o keys (evs ++ [ESave]) (init_state file groups) = Ok st ->
  has_sort (entries_of file (s_log st)) = false /\
  exists blocks, reach (init_blocks content) (entries_of file (s_log st)) blocks /\
                 flat_blocks blocks = disk_after file content None (s_ops st).
Proof.
  intros Ha Wg Hn R. rewrite run_app in R. unfold bind in R.
  destruct (run o keys evs (init_state file groups)) as [s1|] eqn:R1; [|discriminate].
  assert (D0 : disk_inv file content (init_state file groups)).
  { constructor; cbn; [constructor| |reflexivity].
    rewrite mk_lines_raws. destruct Wg as [Hc _]. rewrite Hc. apply phys_lines_concat. }
  destruct (run_both_inv o keys file content evs _ _ Ha Hn (init_inv file content groups Wg) D0 R1) as [I1 [P1 Rw1 Cl1]].
  cbn [run step bind] in R.
  pose proof (save_ops_single o file (s_store s1) Ha (inv_file _ _ _ I1)) as S.
  destruct (save o (s_store s1)) as [ops b]. cbn [fst] in S. subst ops.
  inversion R; subst st. clear R. cbn [s_log s_ops].
  split; [apply has_sort_entries; exact (inv_nosort _ _ _ I1)|].
  exists (blocks_of_store (s_store s1)). split; [exact (inv_reach _ _ _ I1)|].
  rewrite (file_content_blocks file) by (apply I1).
  rewrite disk_after_paired by exact P1.
  destruct (existsb line_modified (s_store s1)) eqn:M.
  - rewrite <- (app_nil_r (save_seq _ _)), disk_after_save_seq. reflexivity.
  - cbn [disk_after]. rewrite (Cl1 eq_refl).
    rewrite (unmodified_content file (s_store s1) (inv_file _ _ _ I1) (inv_unmod _ _ _ I1) M). exact Rw1.
Qed.

(* after a history that ends with a save, the bytes on disk are the old bytes with
   the logged actions applied *)
Theorem disk_consistent_with_log o keys file content groups evs st :
  o_autofix o = true -> wf_groups content groups -> Forall no_sort_event evs ->
  run o keys (evs ++ [ESave]) (init_state file groups) = Ok st ->
  consistent content (entries_of file (s_log st)) (disk_after file content None (s_ops st)) = true.
Proof.
  intros Ha Wg Hn R.
  destruct (disk_reach o keys file content groups evs st Ha Wg Hn R) as (Hs & blocks & Re & <-).
  apply reach_consistent; assumption.
Qed.

(* ---------- nothing changes without a log line ---------- *)

Definition no_entry (file : str) (log : list logline) (z : Z) : Prop :=
  forall g, In g log -> g_file g = file -> g_lineno g <> z.

Definition since_load (file : str) (log : list logline) (l : line) : Prop :=
  (forall j, no_entry file log (l_lineno l + Z.of_nat j) -> nth_error (cur_texts l) j = nth_error (l_raw l) j) /\
  (no_entry file log (l_lineno l) -> cur_above l = []) /\
  (no_entry file log (l_lineno l + Z.of_nat (length (l_raw l)) - 1) -> cur_below l = []).

Lemma no_entry_app file a b z : no_entry file (a ++ b) z -> no_entry file a z /\ no_entry file b z.
Proof. intro H. split; intros g Hg; apply H; apply in_or_app; auto. Qed.

Lemma since_load_mono file log log' l : since_load file log l -> since_load file (log ++ log') l.
Proof.
  intros (T & A & B). repeat split.
  - intros j H. apply T. apply (no_entry_app _ _ _ _ H).
  - intro H. apply A. apply (no_entry_app _ _ _ _ H).
  - intro H. apply B. apply (no_entry_app _ _ _ _ H).
Qed.

Lemma no_entry_log_of file l printed z :
  l_file l = file -> no_entry file (log_of l printed) z -> ~ In z (map snd printed).
Proof.
  intros F H Hin. apply in_map_iff in Hin as (p & <- & Hp).
  apply (H (Log (l_file l) (fst p) (snd p))); [|exact F|reflexivity].
  unfold log_of. apply in_map_iff. exists p. split; [reflexivity|exact Hp].
Qed.

Lemma step_since o keys file content e st st' :
  o_autofix o = true -> no_sort_event e -> inv file content st ->
  Forall (since_load file (s_log st)) (s_store st) ->
  step o keys e st = Ok st' -> Forall (since_load file (s_log st')) (s_store st').
Proof.
  intros Ha Hn I SL. destruct e; try contradiction; cbn [step].
  - destruct (nth_error (s_store st) (t_line t)) as [l0|] eqn:En.
    2:{ intro H. inversion H; subst st'. exact SL. }
    unfold bind. destruct (do_txn o t l0) as [[l1 printed]|] eqn:DT; [|discriminate].
    intro H. inversion H; subst st'. clear H. cbn [s_store s_log].
    destruct I as [Wf Id _ Fi _ _ _ _].
    apply nth_error_split in En as (s1 & s2 & Es & Elen). rewrite Es in *. rewrite <- Elen, set_nth_split.
    apply Forall_split_mid in Wf as (_ & W0 & _). apply Forall_split_mid in Id as (_ & I0 & _).
    apply Forall_split_mid in Fi as (_ & F0 & _).
    destruct (do_txn_reach o t l0 l1 printed Ha W0 I0 DT) as (_ & _ & N1 & R1 & F1 & _ & _ & _ & _ & _ & _ & QT & QA & QB).
    apply Forall_split_mid in SL as (S1 & (T0 & A0 & B0) & S2).
    apply Forall_split_mid. repeat split.
    + eapply Forall_impl; [|exact S1]. intros; apply since_load_mono; assumption.
    + intros j H. apply no_entry_app in H as [H1 H2]. rewrite N1, R1 in *.
      rewrite QT; [apply T0; exact H1|]. eapply no_entry_log_of; [|exact H2]. congruence.
    + intro H. apply no_entry_app in H as [H1 H2]. rewrite N1 in *.
      rewrite QA; [apply A0; exact H1|]. eapply no_entry_log_of; [|exact H2]. congruence.
    + intro H. apply no_entry_app in H as [H1 H2]. rewrite N1, R1 in *.
      rewrite QB; [apply B0; exact H1|]. eapply no_entry_log_of; [|exact H2]. congruence.
    + eapply Forall_impl; [|exact S2]. intros; apply since_load_mono; assumption.
  - destruct (save o (s_store st)) as [ops b]. intro H. inversion H; subst st'. exact SL.
  - unfold bind. destruct (check_executable o file0 executable committed) as [[printed ops]|]; [|discriminate].
    intro H. inversion H; subst st'. cbn [s_store s_log].
    eapply Forall_impl; [|exact SL]. intros; apply since_load_mono; assumption.
Qed.

Lemma run_since o keys file content evs : forall st st',
  o_autofix o = true -> Forall no_sort_event evs -> inv file content st ->
  Forall (since_load file (s_log st)) (s_store st) ->
  run o keys evs st = Ok st' -> Forall (since_load file (s_log st')) (s_store st').
Proof.
  induction evs as [|e evs IH]; intros st st' Ha Hn I SL; cbn [run].
  - intro H. inversion H; subst st'. exact SL.
  - unfold bind. destruct (step o keys e st) as [s1|] eqn:S; [|discriminate].
    inversion Hn; subst. intro H. eapply IH; [exact Ha|assumption| | |exact H].
    + eapply step_inv; eassumption.
    + eapply step_since; eassumption.
Qed.

Lemma init_since file groups : forall start,
  Forall (since_load file []) (mk_lines file start groups).
Proof.
  induction groups as [|[raws text] gs IH]; intro start; cbn; constructor; [|apply IH].
  unfold since_load, cur_texts, cur_above, cur_below. cbn. repeat split; reflexivity.
Qed.

Lemma run_since_load o keys file content groups evs st :
  o_autofix o = true -> wf_groups content groups -> Forall no_sort_event evs ->
  run o keys evs (init_state file groups) = Ok st ->
  Forall (since_load file (s_log st)) (s_store st).
Proof.
  intros Ha Wg Hn R. eapply run_since; [exact Ha|exact Hn|apply init_inv; exact Wg| |exact R].
  apply init_since.
Qed.

Lemma entry_dec file (log : list logline) z :
  (exists g, In g log /\ g_file g = file /\ g_lineno g = z) \/ no_entry file log z.
Proof.
  induction log as [|g log [(x & Hx & E)|N]].
  - right. intros g [].
  - left. exists x. split; [right; exact Hx|exact E].
  - destruct (str_eqb (g_file g) file) eqn:F.
    + apply str_eqb_spec in F. destruct (Z.eq_dec (g_lineno g) z) as [Ez|Nz].
      * left. exists g. repeat split; [left; reflexivity|exact F|exact Ez].
      * right. intros x [<-|Hx] Fx; [exact Nz|exact (N x Hx Fx)].
    + right. intros x [<-|Hx] Fx; [|exact (N x Hx Fx)].
      rewrite <- Fx in F. rewrite str_eqb_refl in F. discriminate.
Qed.

(* a raw line whose bytes changed has a logged action with its line number; lines
   were inserted above / below only with a logged action at the first / last raw line *)
Theorem nothing_unlogged o keys file content groups evs st :
  o_autofix o = true -> wf_groups content groups -> Forall no_sort_event evs ->
  run o keys evs (init_state file groups) = Ok st ->
  forall l, In l (s_store st) ->
    (forall j, nth_error (cur_texts l) j <> nth_error (l_raw l) j ->
       exists g, In g (s_log st) /\ g_file g = file /\ g_lineno g = l_lineno l + Z.of_nat j) /\
    (cur_above l <> [] -> exists g, In g (s_log st) /\ g_file g = file /\ g_lineno g = l_lineno l) /\
    (cur_below l <> [] -> exists g, In g (s_log st) /\ g_file g = file /\
                                     g_lineno g = l_lineno l + Z.of_nat (length (l_raw l)) - 1).
Proof.
  intros Ha Wg Hn R l Hl.
  pose proof (run_since_load o keys file content groups evs st Ha Wg Hn R) as SL.
  rewrite Forall_forall in SL. destruct (SL l Hl) as (T & A & B).
  repeat split.
  - intros j Hne. destruct (entry_dec file (s_log st) (l_lineno l + Z.of_nat j)) as [H|H]; [exact H|].
    exfalso. apply Hne. apply T. exact H.
  - intro Hne. destruct (entry_dec file (s_log st) (l_lineno l)) as [H|H]; [exact H|].
    exfalso. apply Hne. apply A. exact H.
  - intro Hne. destruct (entry_dec file (s_log st) (l_lineno l + Z.of_nat (length (l_raw l)) - 1)) as [H|H]; [exact H|].
    exfalso. apply Hne. apply B. exact H.
Qed.

Lemma nth_error_ext {A} (a b : list A) : (forall j, nth_error a j = nth_error b j) -> a = b.
Proof.
  revert b; induction a as [|x a IH]; intros [|y b] H.
  - reflexivity.
  - specialize (H O). discriminate.
  - specialize (H O). discriminate.
  - pose proof (H O) as H0. cbn in H0. inversion H0; subst. f_equal. apply IH. intro j. exact (H (S j)).
Qed.

(* a logical line none of whose physical line numbers occurs in the log is written
   back byte for byte *)
Theorem untouched_preserved o keys file content groups evs st :
  o_autofix o = true -> wf_groups content groups -> Forall no_sort_event evs ->
  run o keys evs (init_state file groups) = Ok st ->
  forall l, In l (s_store st) ->
    (forall g, In g (s_log st) -> g_file g = file ->
       ~ (l_lineno l <= g_lineno g < l_lineno l + Z.of_nat (length (l_raw l)))) ->
    line_bytes l = l_raw l.
Proof.
  intros Ha Wg Hn R l Hl Hno.
  pose proof (run_since_load o keys file content groups evs st Ha Wg Hn R) as SL.
  rewrite Forall_forall in SL. destruct (SL l Hl) as (T & A & B).
  pose proof (run_inv o keys file content evs _ _ Ha Hn (init_inv file content groups Wg) R) as I.
  destruct I as [Wf _ _ _ _ _ _ _]. rewrite Forall_forall in Wf. destruct (Wf l Hl) as [W1 W2 W3].
  assert (Hpos : (0 < length (l_raw l))%nat) by (destruct (l_raw l); [congruence|cbn; lia]).
  assert (NE : forall z, l_lineno l <= z < l_lineno l + Z.of_nat (length (l_raw l)) -> no_entry file (s_log st) z).
  { intros z Hz g Hg Fg Eg. apply (Hno g Hg Fg). lia. }
  assert (ET : cur_texts l = l_raw l).
  { apply nth_error_ext. intro j. destruct (le_lt_dec (length (l_raw l)) j) as [Hge|Hlt].
    - assert (E1 : nth_error (l_raw l) j = None) by (apply nth_error_None; exact Hge).
      rewrite E1. apply nth_error_None. unfold cur_texts. destruct (l_fix l); [rewrite W3|]; exact Hge.
    - apply T. apply NE. lia. }
  assert (EA : cur_above l = []) by (apply A; apply NE; lia).
  assert (EB : cur_below l = []) by (apply B; apply NE; lia).
  unfold line_bytes, cur_texts, cur_above, cur_below in *. destruct (l_fix l); [|reflexivity].
  rewrite EA, ET, EB. cbn. apply app_nil_r.
Qed.
