(* C03/C02: the model Model/Autofix.v satisfies the specification Spec/ApplyLog.v. *)
From PV Require Import Lib.Bytes Spec.ApplyLog Model.Autofix Proofs.ApplyLog.
From Coq Require Import Lia ZifyBool ZifyN ZifyNat.
Open Scope Z_scope.

(* ---------- small list facts ---------- *)

Lemma upd_nth_set_nth {A} n (x : A) l : upd_nth n x l = set_nth n x l.
Proof. reflexivity. Qed.

Lemma set_nth_length {A} n (x : A) l : length (set_nth n x l) = length l.
Proof. revert n; induction l as [|y l IH]; intros [|n]; simpl; try reflexivity. rewrite IH. reflexivity. Qed.

Lemma set_nth_same {A} n (x : A) l : nth_error l n = Some x -> set_nth n x l = l.
Proof.
  revert n; induction l as [|y l IH]; intros [|n] H; simpl in *; try discriminate.
  - inversion H. reflexivity.
  - rewrite IH by assumption. reflexivity.
Qed.

Lemma set_nth_twice {A} n (x y : A) l : set_nth n y (set_nth n x l) = set_nth n y l.
Proof. revert n; induction l as [|z l IH]; intros [|n]; simpl; try reflexivity. rewrite IH. reflexivity. Qed.

Lemma nth_error_set_nth {A} n (x : A) l : (n < length l)%nat -> nth_error (set_nth n x l) n = Some x.
Proof. revert n; induction l as [|z l IH]; intros [|n] H; simpl in *; try lia; [reflexivity|]. apply IH. lia. Qed.

Lemma nth_error_nth_default {A} (l : list A) n d : (n < length l)%nat -> nth_error l n = Some (nth n l d).
Proof. revert n; induction l as [|z l IH]; intros [|n] H; simpl in *; try lia; [reflexivity|]. apply IH. lia. Qed.

Lemma set_nth_split {A} (s1 s2 : list A) x y : set_nth (length s1) y (s1 ++ x :: s2) = s1 ++ y :: s2.
Proof. induction s1 as [|z s1 IH]; simpl; [reflexivity|]. rewrite IH. reflexivity. Qed.

Lemma nth_error_split' {A} (l : list A) n x :
  nth_error l n = Some x -> exists s1 s2, l = s1 ++ x :: s2 /\ length s1 = n.
Proof. apply nth_error_split. Qed.

Lemma rev_last_nth {A} (l : list A) x r : rev l = x :: r -> nth_error l (length l - 1) = Some x.
Proof.
  intro H. assert (E : l = rev r ++ [x]).
  { rewrite <- (rev_involutive l), H. reflexivity. }
  subst l. rewrite app_length. simpl. replace (length (rev r) + 1 - 1)%nat with (length (rev r)) by lia.
  rewrite nth_error_app2 by lia. rewrite Nat.sub_diag. reflexivity.
Qed.

(* ---------- string facts (Go's Index / replaceOnce) ---------- *)

Lemma has_prefix_split p s : has_prefix p s = true -> exists r, s = p ++ r.
Proof.
  unfold has_prefix. destruct (strip_prefix p s) as [r|] eqn:E; [|discriminate].
  intros _. exists r. apply strip_prefix_some. exact E.
Qed.

Lemma skipn_app_exact {A} (a b : list A) : skipn (length a) (a ++ b) = b.
Proof. induction a; simpl; auto. Qed.

Lemma firstn_app_exact {A} (a b : list A) : firstn (length a) (a ++ b) = a.
Proof. induction a; simpl; [reflexivity|]. f_equal. assumption. Qed.

Lemma index_spec s sub i : index s sub = Some i -> s = firstn i s ++ sub ++ skipn (i + length sub) s.
Proof.
  revert i; induction s as [|c s IH]; intros i H; simpl in H.
  - destruct (has_prefix sub []) eqn:E; [|discriminate]. inversion H; subst.
    apply has_prefix_split in E as [r E]. destruct sub; [|discriminate]. reflexivity.
  - destruct (has_prefix sub (c :: s)) eqn:E.
    + inversion H; subst. apply has_prefix_split in E as [r E]. rewrite E. simpl firstn. simpl plus.
      rewrite skipn_app_exact. reflexivity.
    + destruct (index s sub) as [k|] eqn:Ek; [|discriminate]. inversion H; subst. simpl.
      f_equal. apply IH. reflexivity.
Qed.

Lemma replace_once_spec s from to r :
  replace_once s from to = (true, r) -> exists a b, s = a ++ from ++ b /\ r = a ++ to ++ b.
Proof.
  unfold replace_once. destruct (index s from) as [i|] eqn:Ei; [|discriminate].
  destruct (last_index s from) as [j|]; [|discriminate].
  destruct (Nat.eqb i j); [|discriminate]. intro H. inversion H; subst.
  exists (firstn i s), (skipn (i + length from) s). split; [apply index_spec; exact Ei|reflexivity].
Qed.

Lemma replace_once_false s from to r : replace_once s from to = (false, r) -> r = s.
Proof.
  unfold replace_once. destruct (index s from); [|intro H; inversion H; reflexivity].
  destruct (last_index s from); [|intro H; inversion H; reflexivity].
  destruct (Nat.eqb _ _); intro H; inversion H; reflexivity.
Qed.

Lemma first_replace_spec texts from to i0 k r :
  first_replace texts from to i0 = Some (k, r) ->
  exists j t, k = (i0 + j)%nat /\ nth_error texts j = Some t /\ replace_once t from to = (true, r).
Proof.
  revert i0; induction texts as [|t ts IH]; intros i0 H; simpl in H; [discriminate|].
  destruct (replace_once t from to) as [ok r'] eqn:E. destruct ok.
  - inversion H; subst. exists O, t. repeat split; [lia|exact E].
  - apply IH in H as (j & t' & -> & Hn & Hr). exists (S j), t'. repeat split; [lia|exact Hn|exact Hr].
Qed.

(* ---------- from the model's lines to the specification's blocks ---------- *)

Definition action_of (d : descr) : action :=
  match d with
  | DRepl f t => ARepl f t
  | DAbove t => AAbove t
  | DBelow t => ABelow t
  | DDelete => ADelete
  | DSort => ASort
  | DChmod => AChmod
  end.

Definition entry_of (p : descr * Z) : entry := (Z.to_N (snd p), action_of (fst p)).

Fixpoint mapi_from {A B} (k : nat) (f : nat -> A -> B) (l : list A) : list B :=
  match l with
  | [] => []
  | x :: l' => f k x :: mapi_from (S k) f l'
  end.

(* the block of raw line number i (of n): the first one carries the lines inserted
   above, the last one those inserted below *)
Definition blk (above below : list str) (n i : nat) (t : str) : block :=
  Block (if Nat.eqb i 0 then above else []) t (if Nat.eqb (S i) n then below else []).

Definition blocks_of_fix (above texts below : list str) : list block :=
  mapi_from 0 (blk above below (length texts)) texts.

Definition blocks_of_line (l : line) : list block :=
  match l_fix l with
  | None => map (fun r => Block [] r []) (l_raw l)
  | Some f => blocks_of_fix (f_above f) (f_texts f) (f_below f)
  end.

Definition blocks_of_store (ls : list line) : list block := flat_map blocks_of_line ls.

Lemma mapi_from_length {A B} k (f : nat -> A -> B) l : length (mapi_from k f l) = length l.
Proof. revert k; induction l; intro k; simpl; auto. Qed.

Lemma mapi_from_nth {A B} k (f : nat -> A -> B) l j :
  nth_error (mapi_from k f l) j = option_map (f (k + j)%nat) (nth_error l j).
Proof.
  revert k j; induction l as [|x l IH]; intros k [|j]; simpl; try reflexivity.
  - rewrite Nat.add_0_r. reflexivity.
  - rewrite IH. replace (S k + j)%nat with (k + S j)%nat by lia. reflexivity.
Qed.

Lemma mapi_from_set_nth {A B} k (f : nat -> A -> B) l j r :
  mapi_from k f (set_nth j r l) = set_nth j (f (k + j)%nat r) (mapi_from k f l).
Proof.
  revert k j; induction l as [|x l IH]; intros k [|j]; simpl; try reflexivity.
  - rewrite Nat.add_0_r. reflexivity.
  - rewrite IH. replace (S k + j)%nat with (k + S j)%nat by lia. reflexivity.
Qed.

Lemma mapi_from_ext_ge {A B} k (f g : nat -> A -> B) l :
  (forall i t, (k <= i)%nat -> g i t = f i t) -> mapi_from k g l = mapi_from k f l.
Proof.
  revert k; induction l as [|x l IH]; intros k H; simpl; [reflexivity|].
  rewrite H by lia. rewrite IH; [reflexivity|]. intros; apply H; lia.
Qed.

(* g differs from f only at index j *)
Lemma mapi_from_set_fun {A B} k (f g : nat -> A -> B) l j t :
  (forall i x, i <> j -> g i x = f i x) -> (k <= j)%nat -> nth_error l (j - k) = Some t ->
  mapi_from k g l = set_nth (j - k) (g j t) (mapi_from k f l).
Proof.
  revert k; induction l as [|x l IH]; intros k H Hk Hn; simpl in *.
  - destruct (j - k)%nat; discriminate.
  - destruct (j - k)%nat as [|m] eqn:E.
    + inversion Hn; subst. assert (k = j) by lia. subst k. simpl. f_equal.
      apply mapi_from_ext_ge. intros; apply H; lia.
    + simpl. rewrite H by lia. f_equal.
      replace m with (j - S k)%nat by lia. apply IH; [exact H|lia|].
      replace (j - S k)%nat with m by lia. exact Hn.
Qed.

Lemma blocks_of_fix_length a ts b : length (blocks_of_fix a ts b) = length ts.
Proof. apply mapi_from_length. Qed.

Lemma blocks_of_new raws : blocks_of_fix [] raws [] = map (fun r => Block [] r []) raws.
Proof.
  unfold blocks_of_fix. generalize (length raws) as n. generalize O as k.
  induction raws as [|r rs IH]; intros k n; simpl; [reflexivity|]. rewrite IH. f_equal.
  unfold blk. destruct (Nat.eqb k 0), (Nat.eqb (S k) n); reflexivity.
Qed.

Lemma blocks_of_line_length l :
  match l_fix l with Some f => length (f_texts f) = length (l_raw l) | None => True end ->
  length (blocks_of_line l) = length (l_raw l).
Proof.
  unfold blocks_of_line. destruct (l_fix l) as [f|]; intro H.
  - rewrite blocks_of_fix_length. exact H.
  - apply map_length.
Qed.

(* changing the text of raw line j *)
Lemma blocks_set_text a ts b j r :
  blocks_of_fix a (set_nth j r ts) b = set_nth j (blk a b (length ts) j r) (blocks_of_fix a ts b).
Proof. unfold blocks_of_fix. rewrite set_nth_length, mapi_from_set_nth. reflexivity. Qed.

Lemma blocks_nth a ts b j t :
  nth_error ts j = Some t -> nth_error (blocks_of_fix a ts b) j = Some (blk a b (length ts) j t).
Proof. intro H. unfold blocks_of_fix. rewrite mapi_from_nth, H. reflexivity. Qed.

Lemma blocks_set_above a a' ts b t0 :
  nth_error ts 0 = Some t0 ->
  blocks_of_fix a' ts b = set_nth 0 (blk a' b (length ts) 0 t0) (blocks_of_fix a ts b).
Proof.
  intro H. unfold blocks_of_fix.
  apply (mapi_from_set_fun 0 (blk a b (length ts)) (blk a' b (length ts)) ts 0 t0); [|lia|exact H].
  intros i x Hi. unfold blk. destruct (Nat.eqb_spec i 0); [lia|reflexivity].
Qed.

Lemma blocks_set_below a ts b b' tl :
  nth_error ts (length ts - 1) = Some tl ->
  blocks_of_fix a ts b' = set_nth (length ts - 1) (blk a b' (length ts) (length ts - 1) tl) (blocks_of_fix a ts b).
Proof.
  intro H. unfold blocks_of_fix.
  pose proof (mapi_from_set_fun 0 (blk a b (length ts)) (blk a b' (length ts)) ts (length ts - 1) tl) as L.
  rewrite Nat.sub_0_r in L. apply L; [|lia|exact H].
  intros i x Hi. unfold blk. destruct (Nat.eqb_spec (S i) (length ts)); [lia|reflexivity].
Qed.

(* what the blocks of a line are worth as bytes *)
Lemma flat_block_blk a b n k t :
  flat_block (blk a b n k t) =
  (if Nat.eqb k 0 then concat a else []) ++ t ++ (if Nat.eqb (S k) n then concat b else []).
Proof. unfold flat_block, blk. cbn [b_above b_text b_below]. destruct (Nat.eqb k 0), (Nat.eqb (S k) n); reflexivity. Qed.

Lemma flat_mapi a b n ts k :
  (k + length ts = n)%nat -> ts <> [] ->
  flat_blocks (mapi_from k (blk a b n) ts) = (if Nat.eqb k 0 then concat a else []) ++ concat ts ++ concat b.
Proof.
  revert k; induction ts as [|t ts IH]; intros k Hn Hne; [congruence|].
  destruct ts as [|t2 ts].
  - cbn [mapi_from]. unfold flat_blocks. cbn [map concat]. rewrite flat_block_blk.
    cbn [length] in Hn.
    destruct (Nat.eqb_spec (S k) n); [|lia]. rewrite !app_nil_r. reflexivity.
  - change (mapi_from k (blk a b n) (t :: t2 :: ts))
      with (blk a b n k t :: mapi_from (S k) (blk a b n) (t2 :: ts)).
    change (flat_blocks (blk a b n k t :: mapi_from (S k) (blk a b n) (t2 :: ts)))
      with (flat_block (blk a b n k t) ++ flat_blocks (mapi_from (S k) (blk a b n) (t2 :: ts))).
    cbn [length] in Hn.
    rewrite IH by (cbn [length]; try lia; discriminate).
    rewrite flat_block_blk.
    destruct (Nat.eqb_spec (S k) n); [lia|].
    change (Nat.eqb (S k) 0) with false. cbn [concat app]. rewrite !app_nil_r.
    rewrite <- !app_assoc. reflexivity.
Qed.

Lemma flat_blocks_of_fix a ts b : ts <> [] ->
  flat_blocks (blocks_of_fix a ts b) = concat a ++ concat ts ++ concat b.
Proof. intro H. unfold blocks_of_fix. rewrite (flat_mapi a b (length ts) ts 0) by (auto; lia). reflexivity. Qed.

Lemma flat_blocks_app x y : flat_blocks (x ++ y) = flat_blocks x ++ flat_blocks y.
Proof. unfold flat_blocks. rewrite map_app, concat_app. reflexivity. Qed.

(* ---------- one line: every operation is a step of the specification ---------- *)

Record wf_line (l : line) : Prop := {
  wf_real : 1 <= l_lineno l;
  wf_raw : l_raw l <> [];
  wf_len : match l_fix l with Some f => length (f_texts f) = length (l_raw l) | None => True end
}.

(* the blocks of the line sit at their place in the file *)
Definition lreach (l l' : line) (log : list entry) : Prop :=
  forall pre post, Z.of_nat (length pre) = l_lineno l - 1 ->
    reach (pre ++ blocks_of_line l ++ post) log (pre ++ blocks_of_line l' ++ post).

Lemma lreach_refl l l' : blocks_of_line l' = blocks_of_line l -> lreach l l' [].
Proof. intros E pre post _. rewrite E. constructor. Qed.

Lemma lreach_trans l1 l2 l3 a b :
  l_lineno l2 = l_lineno l1 -> lreach l1 l2 a -> lreach l2 l3 b -> lreach l1 l3 (a ++ b).
Proof.
  intros E H1 H2 pre post Hp. eapply reach_app; [apply H1; exact Hp|apply H2; rewrite E; exact Hp].
Qed.

Lemma act_entry_at lineno (pre : list block) j a st :
  1 <= lineno -> Z.of_nat (length pre) = lineno - 1 -> needs_line a = true ->
  act_entry (Z.to_N (lineno + Z.of_nat j), a) st = at_index (length pre + j) (act_block a) st.
Proof.
  intros H1 Hp Hn. unfold act_entry. cbn [fst snd]. rewrite Hn.
  destruct (Z.to_N (lineno + Z.of_nat j)) eqn:E; [lia|].
  replace (N.to_nat (N.pos p - 1)) with (length pre + j)%nat by lia. reflexivity.
Qed.

(* the line after an operation: same identity, actions appended, and the appended
   actions lead from the old blocks to the new ones *)
Definition step_ok (o : opts) (l l' : line) : Prop :=
  match l_fix l, l_fix l' with
  | Some f, Some f' =>
    exists acts,
      f_actions f' = f_actions f ++ acts /\ f_diag f' = f_diag f /\ f_level f' = f_level f /\
      f_modified f' = f_modified f /\
      l_lineno l' = l_lineno l /\ l_raw l' = l_raw l /\ l_file l' = l_file l /\
      length (f_texts f') = length (f_texts f) /\
      (acts <> [] -> shall_be_logged o (f_diag f) = true) /\
      Forall (fun a => fst a <> DSort) acts /\
      lreach l l' (map entry_of acts)
  | _, _ => False
  end.

Lemma step_ok_refl o l f : l_fix l = Some f -> step_ok o l l.
Proof.
  intro E. unfold step_ok. rewrite E. exists []. rewrite app_nil_r.
  repeat split; try reflexivity; try congruence; [constructor|apply lreach_refl; reflexivity].
Qed.

Lemma step_ok_trans o l1 l2 l3 : step_ok o l1 l2 -> step_ok o l2 l3 -> step_ok o l1 l3.
Proof.
  unfold step_ok. destruct (l_fix l1) as [f1|]; [|tauto]. destruct (l_fix l2) as [f2|]; [|tauto].
  destruct (l_fix l3) as [f3|]; [|tauto].
  intros (a1 & A1 & D1 & V1 & M1 & N1 & R1 & F1 & L1 & S1 & NS1 & P1)
         (a2 & A2 & D2 & V2 & M2 & N2 & R2 & F2 & L2 & S2 & NS2 & P2).
  exists (a1 ++ a2). repeat split; try congruence.
  - rewrite A2, A1, app_assoc. reflexivity.
  - intro Hne. destruct a1 as [|x a1]; [apply S2 in Hne; congruence|apply S1; discriminate].
  - apply Forall_app; split; assumption.
  - rewrite map_app. eapply lreach_trans; eassumption.
Qed.

(* the common prelude of the operations *)
Lemma skip_false o f : skip o f = Ok false -> shall_be_logged o (f_diag f) = true.
Proof.
  unfold skip. destruct (f_diag f); [discriminate|]. intro H. inversion H.
  destruct (shall_be_logged o (n :: s)); [reflexivity|discriminate].
Qed.

Lemma real_line_ok l u : real_line l = Ok u -> 1 <= l_lineno l.
Proof. unfold real_line. destruct (1 <=? l_lineno l) eqn:E; [lia|discriminate]. Qed.

(* one raw text replaced, one Replacing action described *)
Lemma step_replace o l f j t r from to :
  wf_line l -> l_fix l = Some f -> shall_be_logged o (f_diag f) = true ->
  nth_error (f_texts f) j = Some t -> In r (replace_each from to t) ->
  forall text' zj, zj = Z.of_nat j ->
  step_ok o l (with_fix (with_text l text')
     (describe zj (DRepl from to) (with_text l text')
        (Fix (f_above f) (set_nth j r (f_texts f)) (f_below f) (f_modified f) (f_actions f) (f_level f) (f_diag f)))).
Proof.
  intros W E S Hn Hr text' zj ->. unfold step_ok. rewrite E. cbn [l_fix with_fix].
  exists [(DRepl from to, l_lineno l + Z.of_nat j)].
  unfold describe, lineno_of. cbn.
  repeat split; try reflexivity.
  - apply set_nth_length.
  - intros _. exact S.
  - constructor; [discriminate|constructor].
  - intros pre post Hp. apply reach_one.
    unfold entry_of. cbn [fst snd action_of].
    rewrite (act_entry_at (l_lineno l) pre j) by (try apply W; auto).
    unfold blocks_of_line. rewrite E. cbn [l_fix with_fix f_above f_texts f_below].
    rewrite blocks_set_text, <- upd_nth_set_nth.
    eapply at_index_embedded; [apply blocks_nth; exact Hn|].
    unfold blk, act_block. cbn [b_above b_text b_below].
    apply in_map with (f := fun x => Block _ x _). exact Hr.
Qed.

Lemma replace_after_step o pre from to l l' f :
  o_autofix o = true -> wf_line l -> l_fix l = Some f ->
  replace_after o pre from to l = Ok l' -> step_ok o l l'.
Proof.
  intros Ha W E. unfold replace_after, bind.
  destruct (real_line l) eqn:R; [|discriminate].
  unfold the_fix. rewrite E.
  destruct (skip o f) as [sk|] eqn:K; [|discriminate].
  destruct sk; [intro H; inversion H; subst; eapply step_ok_refl; eassumption|].
  apply skip_false in K.
  destruct (negb (Nat.eqb (sum_counts (f_texts f) (pre ++ from)) 1));
    [intro H; inversion H; subst; eapply step_ok_refl; eassumption|].
  destruct (first_replace (f_texts f) (pre ++ from) (pre ++ to) 0) as [[ri replaced]|] eqn:FR;
    [|intro H; inversion H; subst; eapply step_ok_refl; eassumption].
  apply first_replace_spec in FR as (j & t & -> & Hn & Hr). simpl plus.
  apply replace_once_spec in Hr as (xa & xb & Ht & Hrep).
  assert (Hin : In replaced (replace_each from to t)).
  { subst t replaced. rewrite <- !app_assoc.
    replace (xa ++ pre ++ from ++ xb) with ((xa ++ pre) ++ from ++ xb) by (rewrite <- app_assoc; reflexivity).
    replace (xa ++ pre ++ to ++ xb) with ((xa ++ pre) ++ to ++ xb) by (rewrite <- app_assoc; reflexivity).
    apply replace_each_in. }
  unfold is_autofix. rewrite Ha. cbn [orb].
  intro H. inversion H; subst l'. apply step_replace with (t := t); auto.
Qed.

Lemma replace_at_step o ri ti from to l l' f :
  wf_line l -> l_fix l = Some f ->
  replace_at o ri ti from to l = Ok l' -> step_ok o l l'.
Proof.
  intros W E. unfold replace_at, bind.
  destruct (str_eqb from to); [discriminate|].
  destruct (real_line l) eqn:R; [|discriminate].
  unfold the_fix. rewrite E.
  destruct (skip o f) as [sk|] eqn:K; [|discriminate].
  destruct sk; [intro H; inversion H; subst; eapply step_ok_refl; eassumption|].
  apply skip_false in K.
  destruct ((ri <? 0) || (Z.of_nat (length (f_texts f)) <=? ri)) eqn:Rg; [discriminate|].
  destruct (negb (ti <? Z.of_nat (length (nth (Z.to_nat ri) (f_texts f) [])))); [discriminate|].
  destruct (ti <? 0); [discriminate|].
  destruct (strip_prefix from (skipn (Z.to_nat ti) (nth (Z.to_nat ri) (f_texts f) []))) as [rest|] eqn:SP; [|discriminate].
  intro H. inversion H; subst l'.
  apply strip_prefix_some in SP.
  set (text := nth (Z.to_nat ri) (f_texts f) []) in *.
  assert (Hn : nth_error (f_texts f) (Z.to_nat ri) = Some text) by (apply nth_error_nth_default; lia).
  assert (Hin : In (firstn (Z.to_nat ti) text ++ to ++ rest) (replace_each from to text)).
  { rewrite <- (firstn_skipn (Z.to_nat ti) text) at 2. rewrite SP. apply replace_each_in. }
  apply step_replace with (t := text); auto. lia.
Qed.

Lemma nl_eq : Autofix.nl = ApplyLog.nl.
Proof. reflexivity. Qed.

Lemma insert_above_step o t l l' f :
  wf_line l -> l_fix l = Some f ->
  insert_above o t l = Ok l' -> step_ok o l l'.
Proof.
  intros W E. unfold insert_above, bind.
  destruct (real_line l) eqn:R; [|discriminate].
  unfold the_fix. rewrite E.
  destruct (skip o f) as [sk|] eqn:K; [|discriminate].
  destruct sk; [intro H; inversion H; subst; eapply step_ok_refl; eassumption|].
  apply skip_false in K. intro H. inversion H; subst l'. clear H.
  unfold step_ok. rewrite E. cbn [l_fix with_fix].
  exists [(DAbove t, l_lineno l + 0)]. unfold describe, lineno_of. cbn.
  repeat split; try reflexivity; [intros _; exact K|constructor; [discriminate|constructor]|].
  intros pre post Hp. apply reach_one. unfold entry_of. cbn [fst snd action_of].
  change 0 with (Z.of_nat 0).
  rewrite (act_entry_at (l_lineno l) pre 0) by (try apply W; auto).
  unfold blocks_of_line. rewrite E. cbn [l_fix with_fix f_above f_texts f_below].
  destruct (f_texts f) as [|t0 ts] eqn:Ets.
  { exfalso. destruct W as [_ Wr Wl]. rewrite E, Ets in Wl. destruct (l_raw l); [congruence|discriminate]. }
  rewrite (blocks_set_above (f_above f) (f_above f ++ [t ++ Autofix.nl]) (t0 :: ts) (f_below f) t0) by reflexivity.
  rewrite <- upd_nth_set_nth.
  eapply at_index_embedded; [apply blocks_nth; reflexivity|].
  unfold blk, act_block. cbn [b_above b_text b_below Nat.eqb]. left. reflexivity.
Qed.

Lemma ends_nl_eq s : has_suffix_nl s = ends_nl s.
Proof. reflexivity. Qed.

Lemma insert_below_step o t l l' f :
  wf_line l -> l_fix l = Some f ->
  insert_below o t l = Ok l' -> step_ok o l l'.
Proof.
  intros W E. unfold insert_below, bind.
  destruct (real_line l) eqn:R; [|discriminate].
  unfold the_fix. rewrite E.
  destruct (skip o f) as [sk|] eqn:K; [|discriminate].
  destruct sk; [intro H; inversion H; subst; eapply step_ok_refl; eassumption|].
  apply skip_false in K. intro H. inversion H; subst l'. clear H.
  assert (Hlen : length (f_texts f) = length (l_raw l)).
  { destruct W as [_ _ Wl]. rewrite E in Wl. exact Wl. }
  assert (Hpos : (0 < length (f_texts f))%nat).
  { rewrite Hlen. destruct W as [_ Wr _]. destruct (l_raw l); [congruence|simpl; lia]. }
  destruct (rev (f_texts f)) as [|tl rr] eqn:Erev.
  { exfalso. apply (f_equal (@length _)) in Erev. rewrite rev_length in Erev. simpl in Erev. lia. }
  pose proof (rev_last_nth _ _ _ Erev) as Hlast.
  (* the new last text, uniformly *)
  set (tl' := if ApplyLog.is_nil (f_below f) && negb (ApplyLog.is_nil tl) && negb (ends_nl tl)
              then tl ++ ApplyLog.nl else tl).
  set (n := length (f_texts f)) in *.
  assert (Etexts :
    match f_below f with
    | [] => if negb (is_nil tl) && negb (has_suffix_nl tl) then set_nth (n - 1) (tl ++ Autofix.nl) (f_texts f) else f_texts f
    | _ :: _ => f_texts f
    end = set_nth (n - 1) tl' (f_texts f)).
  { unfold tl'. destruct (f_below f); cbn [ApplyLog.is_nil andb].
    - destruct tl as [|c tl0]; cbn [is_nil ApplyLog.is_nil negb andb].
      + symmetry. apply set_nth_same. exact Hlast.
      + rewrite ends_nl_eq. destruct (ends_nl (c :: tl0)); cbn [negb];
          [symmetry; apply set_nth_same; exact Hlast|reflexivity].
    - symmetry. apply set_nth_same. exact Hlast. }
  match goal with
  | |- step_ok _ _ (with_fix _ (describe _ _ _ (Fix _ ?X _ _ _ _ _))) =>
    assert (EX : X = set_nth (n - 1) tl' (f_texts f)) by exact Etexts; rewrite EX; clear EX
  end.
  unfold step_ok. rewrite E. cbn [l_fix with_fix].
  exists [(DBelow t, l_lineno l + (Z.of_nat (length (l_raw l)) - 1))]. unfold describe, lineno_of. cbn.
  repeat split; try reflexivity;
    [apply set_nth_length|intros _; exact K|constructor; [discriminate|constructor]|].
  intros pre post Hp. apply reach_one. unfold entry_of. cbn [fst snd action_of].
  replace (Z.of_nat (length (l_raw l)) - 1) with (Z.of_nat (n - 1)) by (unfold n; lia).
  rewrite (act_entry_at (l_lineno l) pre (n - 1)) by (try apply W; auto).
  unfold blocks_of_line. rewrite E. cbn [l_fix with_fix f_above f_texts f_below].
  rewrite blocks_set_text. fold n.
  rewrite (blocks_set_below (f_above f) (f_texts f) (f_below f) (f_below f ++ [t ++ Autofix.nl]) tl) by exact Hlast.
  fold n. rewrite set_nth_twice, <- upd_nth_set_nth.
  eapply at_index_embedded; [apply blocks_nth; exact Hlast|].
  fold n. unfold blk, act_block, terminate_for_insert. cbn [b_above b_text b_below].
  replace (Nat.eqb (S (n - 1)) n) with true by (symmetry; apply Nat.eqb_eq; lia).
  left. reflexivity.
Qed.

(* Delete: the first k texts are already empty *)
Lemma set_nth_repeat_skipn {A} (x : A) k ts :
  (k < length ts)%nat ->
  set_nth k x (repeat x k ++ skipn k ts) = repeat x (S k) ++ skipn (S k) ts.
Proof.
  revert ts; induction k as [|k IH]; intros ts H; destruct ts as [|t ts]; simpl in *; try lia.
  - reflexivity.
  - f_equal. apply IH. lia.
Qed.

Lemma delete_reach lineno a b ts m k pre post :
  1 <= lineno -> Z.of_nat (length pre) = lineno - 1 ->
  (k + m = length ts)%nat ->
  reach (pre ++ blocks_of_fix a (repeat [] k ++ skipn k ts) b ++ post)
        (map entry_of (delete_actions lineno m (Z.of_nat k)))
        (pre ++ blocks_of_fix a (repeat [] (length ts)) b ++ post).
Proof.
  intros H1 Hp. revert k; induction m as [|m IH]; intros k Hk.
  - replace k with (length ts) by lia. rewrite skipn_all, app_nil_r. constructor.
  - cbn [delete_actions map].
    assert (Hlen : length (repeat (@nil N) k ++ skipn k ts) = length ts).
    { rewrite app_length, repeat_length, skipn_length. lia. }
    destruct (nth_error (repeat (@nil N) k ++ skipn k ts) k) as [tk|] eqn:Hn.
    2:{ apply nth_error_None in Hn. lia. }
    econstructor.
    + unfold entry_of. cbn [fst snd action_of].
      rewrite (act_entry_at lineno pre k) by auto.
      eapply at_index_embedded; [apply blocks_nth; exact Hn|].
      unfold act_block. left. reflexivity.
    + rewrite upd_nth_set_nth.
      match goal with
      | |- reach (pre ++ set_nth k ?B _ ++ post) _ _ =>
        change B with (blk a b (length (repeat (@nil N) k ++ skipn k ts)) k [])
      end.
      assert (Hklt : (k < length ts)%nat) by lia.
      rewrite <- blocks_set_text. rewrite set_nth_repeat_skipn by exact Hklt.
      replace (Z.of_nat k + 1) with (Z.of_nat (S k)) by lia. apply IH. lia.
Qed.

Lemma delete_actions_props lineno n i :
  Forall (fun a : descr * Z => fst a <> DSort) (delete_actions lineno n i).
Proof. revert i; induction n; intro i; simpl; constructor; [discriminate|apply IHn]. Qed.

Lemma delete_step o l l' f :
  wf_line l -> l_fix l = Some f ->
  delete o l = Ok l' -> step_ok o l l'.
Proof.
  intros W E. unfold delete, bind.
  destruct (real_line l) eqn:R; [|discriminate].
  unfold the_fix. rewrite E.
  destruct (skip o f) as [sk|] eqn:K; [|discriminate].
  destruct sk; [intro H; inversion H; subst; eapply step_ok_refl; eassumption|].
  apply skip_false in K. intro H. inversion H; subst l'. clear H.
  unfold step_ok. rewrite E. cbn [l_fix with_fix].
  exists (delete_actions (l_lineno l) (length (f_texts f)) 0). cbn.
  repeat split; try reflexivity;
    [apply repeat_length|intros _; exact K|apply delete_actions_props|].
  intros pre post Hp. unfold blocks_of_line. rewrite E. cbn [l_fix with_fix f_above f_texts f_below].
  pose proof (delete_reach (l_lineno l) (f_above f) (f_below f) (f_texts f) (length (f_texts f)) 0 pre post) as D.
  apply D; [apply W|exact Hp|reflexivity].
Qed.

Lemma custom_step o ri l l' ran f :
  l_fix l = Some f -> custom o ri DChmod l = Ok (l', ran) -> step_ok o l l'.
Proof.
  intros E. unfold custom, bind, the_fix. rewrite E.
  destruct (skip o f) as [sk|] eqn:K; [|discriminate].
  destruct sk; [intro H; inversion H; subst; eapply step_ok_refl; eassumption|].
  apply skip_false in K. intro H. inversion H; subst l' ran. clear H.
  unfold step_ok. rewrite E. cbn [l_fix with_fix].
  exists [(DChmod, l_lineno l + ri)]. unfold describe, lineno_of. cbn.
  repeat split; try reflexivity; [intros _; exact K|constructor; [discriminate|constructor]|].
  intros pre post Hp. apply reach_one. unfold entry_of, act_entry. cbn. left.
  unfold blocks_of_line. rewrite E. reflexivity.
Qed.

Lemma do_op_step o p l l' f :
  o_autofix o = true -> wf_line l -> l_fix l = Some f ->
  do_op o p l = Ok l' -> step_ok o l l'.
Proof.
  intros Ha W E. destruct p; cbn [do_op].
  - apply replace_after_step with (f := f); assumption.
  - apply replace_at_step with (f := f); assumption.
  - apply insert_above_step with (f := f); assumption.
  - apply insert_below_step with (f := f); assumption.
  - apply delete_step with (f := f); assumption.
  - unfold bind. destruct (custom o rawIndex DChmod l) as [[l1 ran]|] eqn:C; [|discriminate].
    intro H. inversion H; subst. eapply custom_step; eassumption.
Qed.

Lemma step_ok_wf o l l' : wf_line l -> step_ok o l l' -> wf_line l'.
Proof.
  intros [W1 W2 W3]. unfold step_ok. destruct (l_fix l) as [f|] eqn:E; [|tauto].
  destruct (l_fix l') as [f'|] eqn:E'; [|tauto].
  intros (acts & _ & _ & _ & _ & N & R & _ & L & _).
  split; [rewrite N; exact W1|rewrite R; exact W2|rewrite E', L, R; exact W3].
Qed.

Lemma do_ops_step o ps : forall l l' f,
  o_autofix o = true -> wf_line l -> l_fix l = Some f ->
  do_ops o ps l = Ok l' -> step_ok o l l'.
Proof.
  induction ps as [|p ps IH]; intros l l' f Ha W E; cbn [do_ops].
  - intro H. inversion H; subst. eapply step_ok_refl; eassumption.
  - unfold bind. destruct (do_op o p l) as [l1|] eqn:D; [|discriminate]. intro H.
    pose proof (do_op_step o p l l1 f Ha W E D) as S1.
    assert (exists f1, l_fix l1 = Some f1) as [f1 E1].
    { unfold step_ok in S1. rewrite E in S1. destruct (l_fix l1); [eexists; reflexivity|tauto]. }
    eapply step_ok_trans; [exact S1|].
    eapply IH; [exact Ha|eapply step_ok_wf; eassumption|exact E1|exact H].
Qed.
