(* Lines handed out by FileCache.Get stay private to the caller: the cache never
   holds a Line object of a view that was served from the cache, at any later
   point of the run.  (The view of a cache MISS is what Put stores: that aliasing
   is the subject of C20_load_transparent_refuted.) *)
From PV Require Import Lib.Bytes Model.FileCache Spec.FreshLoad
  Proofs.FileCacheLists Proofs.FileCacheWf Proofs.FileCacheInv Proofs.FileCache.
From Coq Require Import Permutation Arith Lia.
Open Scope N_scope.
Arguments map_set : simpl never.

(* the Line object at address a is reachable from the cache *)
Definition addr_cached (s : state) (a : nat) : Prop :=
  exists eid, In eid (c_table (st_cache s)) /\ In a (e_lines (entry_at (c_store (st_cache s)) eid)).

Lemma shape_lines e e' : shape e = shape e' -> e_lines e = e_lines e'.
Proof. unfold shape. intros H. inversion H. auto. Qed.

Section Private.
Variable convert : str -> N -> list lval.
Variable is_mk : N -> bool.

Notation reach := (reach convert is_mk).
Notation load := (load convert is_mk).
Notation step := (step convert is_mk).
Notation Inv := (Inv convert).

Lemma cached_lt s a : Inv s -> addr_cached s a -> (a < length (st_heap s))%nat.
Proof.
  intros I (eid & Hin & Hl).
  destruct (inv_first _ _ I _ Hin) as (v & fn & V & _).
  destruct (inv_views _ _ I _ _ _ _ V Hl); auto.
Qed.

(* what a Load adds to the cache are new Line objects, and only on a miss *)
Lemma load_cached s fn o s' r : Inv s -> load s fn o = Ok (s', r) ->
  forall a, addr_cached s' a ->
    addr_cached s a \/
    ((forall eid, map_get (key fn) (c_map (st_cache s)) = Some eid ->
                  e_opts (entry_at (c_store (st_cache s)) eid) <> o) /\
     (length (st_heap s) <= a)%nat).
Proof.
  intros I. unfold FileCache.load.
  destruct (get (st_cache s) (st_heap s) fn o) as [[c1 h1] r0] eqn:G.
  destruct (wf_get _ _ _ _ _ _ _ (inv_wf _ _ I) G) as (W1 & HC1 & HT1 & HM1 & HS1).
  assert (Old : forall a, (exists eid, In eid (c_table c1) /\ In a (e_lines (entry_at (c_store c1) eid))) ->
                          addr_cached s a).
  { intros a (eid & Hin & Ha). exists eid. rewrite HT1 in Hin. split; auto.
    destruct HS1 as [_ HS1]. rewrite (shape_lines _ _ (HS1 eid)) in Ha. auto. }
  destruct (get_spec _ _ _ _ _ _ _ G) as [(eid & E & Ho & -> & ->)|(-> & -> & Miss)].
  - intros H; inversion H; subst; clear H. intros a Hc. left. apply Old. exact Hc.
  - assert (M : forall eid, map_get (key fn) (c_map (st_cache s)) = Some eid ->
                  e_opts (entry_at (c_store (st_cache s)) eid) <> o).
    { intros eid E. destruct Miss as [N|(eid' & E' & Ho')]; [congruence|].
      assert (eid' = eid) by congruence. subst. auto. }
    destruct (map_get (key fn) (st_disk s)) as [raw|].
    + destruct (is_empty raw && has_opt o NotEmpty)%bool.
      * destruct (has_opt o MustSucceed); [discriminate|].
        intros H; inversion H; subst; clear H. intros a Hc. left. apply Old. exact Hc.
      * destruct (is_mk (key fn)).
        -- destruct (wf_put c1 (key fn) o (seq (length (st_heap s)) (length (convert raw o))) W1)
             as (c2 & eid0 & P & W2 & HC2 & HG & HE & HO).
           { rewrite HC1. apply (inv_cap _ _ I). }
           rewrite P. simpl. intros H; inversion H; subst; clear H.
           intros a (eid & Hin & Hl). simpl in Hin, Hl.
           destruct (Nat.eq_dec eid eid0) as [->|Hne].
           ++ right. split; auto. rewrite HE in Hl. simpl in Hl. apply in_seq in Hl. lia.
           ++ destruct (HO _ Hin Hne) as [Hin1 Hsh]. left. apply Old. exists eid. split; auto.
              rewrite <- (shape_lines _ _ Hsh). auto.
        -- simpl. intros H; inversion H; subst; clear H. intros a Hc. left. apply Old. exact Hc.
    + destruct (has_opt o MustSucceed); [discriminate|].
      intros H; inversion H; subst; clear H. intros a Hc. left. apply Old. exact Hc.
Qed.

(* no operation makes the cache point to a Line object that existed before and
   was not in the cache *)
Lemma step_cached md s o s' ob : Inv s -> step md s o = Ok (s', ob) ->
  forall a, (a < length (st_heap s))%nat -> addr_cached s' a -> addr_cached s a.
Proof.
  intros I. destruct o as [fn opts|v i f|v fl|k x]; simpl.
  - destruct (load s fn opts) as [[s1 r]|w] eqn:L; simpl; [|discriminate].
    intros H; inversion H; subst. intros a Ha Hc.
    destruct (load_cached _ _ _ _ _ I L a Hc) as [|[_ Hge]]; auto. lia.
  - destruct (nth_error (st_views s) v) as [[fn addrs]|]; [|intros H; inversion H; subst; auto].
    destruct (nth_error addrs i) as [a0|]; [|intros H; inversion H; subst; auto].
    destruct (fix_line md (line_at (st_heap s) a0) f) as [[l' acted]|w]; simpl; [|discriminate].
    intros H; inversion H; subst. intros a _ Hc. exact Hc.
  - unfold view_lines. destruct (nth_error (st_views s) v) as [[fn addrs]|]; [|intros H; inversion H; subst; auto].
    destruct (save_lines md fl (st_cache s) (st_disk s) (map (line_at (st_heap s)) addrs)) as [[c' d'] w] eqn:S.
    intros H; inversion H; subst; clear H.
    destruct (save_lines_spec _ _ _ _ _ _ _ _ S) as (ks & -> & _).
    destruct (evicts_spec ks _ (inv_wf _ _ I)) as (_ & _ & HS & HT & _).
    intros a _ (eid & Hin & Hl). simpl in Hin, Hl. exists eid. split; [apply HT; auto|].
    rewrite HS in Hl. auto.
  - intros H; inversion H; subst; clear H. intros a _ (eid & Hin & Hl). simpl in Hin, Hl.
    exists eid. split; [eapply evict_table_incl; eauto; apply (inv_wf _ _ I)|].
    rewrite evict_store in Hl. auto.
Qed.

Lemma step_views_keep md s o s' ob v x : step md s o = Ok (s', ob) ->
  nth_error (st_views s) v = Some x -> nth_error (st_views s') v = Some x.
Proof.
  intros St H. destruct (step_views convert is_mk _ _ _ _ _ St) as [->|(fn & st & n & ->)]; auto.
  apply nth_error_snoc_old; auto.
Qed.

Lemma run_keeps_private md v fn addrs h : forall s s2 obs w,
  Inv s -> nth_error (st_views s) v = Some (fn, addrs) ->
  (forall a, In a addrs -> ~ addr_cached s a) ->
  run convert is_mk md s h = (s2, obs, w) ->
  Inv s2 /\ nth_error (st_views s2) v = Some (fn, addrs) /\
  (forall a, In a addrs -> ~ addr_cached s2 a).
Proof.
  induction h as [|o t IH]; intros s s2 obs w I V P; simpl.
  - intros H; inversion H; subst; auto.
  - destruct (step md s o) as [[s1 ob]|w1] eqn:St.
    + destruct (run convert is_mk md s1 t) as [[s3 obs3] w3] eqn:Rn.
      intros H; inversion H; subst; clear H.
      eapply IH; [| |  |exact Rn].
      * eapply Inv_step; eauto.
      * eapply step_views_keep; eauto.
      * intros a Ha Hc. apply (P a Ha).
        eapply step_cached; eauto.
        destruct (inv_views _ _ I _ _ _ _ V Ha); auto.
    + intros H; inversion H; subst; auto.
Qed.

(* THE THEOREM.  A Load that is served by FileCache.Get (the file is cached with
   these options) returns a view none of whose Line objects the cache holds --
   then and at every later point of the run, whatever the history does
   (further loads, overflow, fixes through any view, successful and failing
   saves, modifications).  Hence nothing that is done to these lines (fixes,
   Line.once marks) can reach what a later Get copies from. *)
Theorem get_lines_private : forall md cap disk s fn o eid s1 v, (1 <= cap)%nat -> reach md cap disk s ->
  map_get (key fn) (c_map (st_cache s)) = Some eid ->
  e_opts (entry_at (c_store (st_cache s)) eid) = o ->
  load s fn o = Ok (s1, Some v) ->
  forall h s2 obs w, run convert is_mk md s1 h = (s2, obs, w) ->
  exists addrs, nth_error (st_views s2) v = Some (fn, addrs) /\
    (forall a, In a addrs -> ~ addr_cached s2 a) /\
    (forall u fu au a, u <> v -> nth_error (st_views s2) u = Some (fu, au) -> In a au -> ~ In a addrs).
Proof.
  intros md cap disk s fn o eid s1 v Hc R E Ho L h s2 obs w Rn.
  destruct (reach_Inv_cap _ _ _ _ _ _ Hc R) as [I _].
  destruct (fresh_lines_per_load convert is_mk md cap disk s fn o s1 v Hc R L) as (-> & addrs & V1 & Hnew & _).
  assert (I1 : Inv s1).
  { eapply (Inv_step convert is_mk md s (OLoad fn o)); eauto. simpl. rewrite L. simpl. reflexivity. }
  assert (P1 : forall a, In a addrs -> ~ addr_cached s1 a).
  { intros a Ha Hca. destruct (Hnew a Ha) as [[Hge _] _].
    destruct (load_cached _ _ _ _ _ I L a Hca) as [Hold|[Hmiss _]].
    - pose proof (cached_lt _ _ I Hold). lia.
    - apply (Hmiss eid E Ho). }
  destruct (run_keeps_private md _ _ _ h s1 s2 obs w I1 V1 P1 Rn) as (I2 & V2 & P2).
  exists addrs. split; auto. split; auto.
  intros u fu au a Hne U Ha Hin. apply Hne. eapply (inv_disj _ _ I2); eauto.
Qed.

End Private.
