(* C05: the crash specification is not vacuous -- three other ways of replacing
   a file violate it. *)
From PV Require Import Lib.Bytes Model.FsProto Spec.CrashSpec.
Open Scope N_scope.

(* "writing f through the operation list (mk f new) is crash-atomic" *)
Definition crash_atomic_for (mk : path -> str -> list op) : Prop :=
  forall (s : state) (f : path) (new : str) (t : list op),
    lookup (tmp_name f) (st_fs s) = None ->
    crash_of (mk f new) t ->
    atomic_at (st_fs s) [ASave f new] (st_fs (exec t s)).

Definition ex_path : path := [97].                     (* "a" *)
Definition ex_old : str := [111; 108; 100].            (* "old" *)
Definition ex_new : str := [110; 101; 119; 101; 114].  (* "newer" *)
Definition ex_state : state := mkstate [(ex_path, mkfile KReg ex_old 420)] [] 18.

Lemma refute_at (mk : path -> str -> list op) (k : nat) :
  (match lookup ex_path (st_fs (exec (firstn k (mk ex_path ex_new)) ex_state)) with
   | Some f1 => negb (existsb (str_eqb (f_data f1)) [ex_old; ex_new])
   | None => true
   end = true) ->
  ~ crash_atomic_for mk.
Proof.
  intros Hbad H.
  specialize (H ex_state ex_path ex_new (firstn k (mk ex_path ex_new)) eq_refl (crash_prefix _ k)).
  destruct (H ex_path (mkfile KReg ex_old 420) eq_refl) as [f1 [Hl Hin]].
  rewrite Hl in Hbad.
  assert (E : existsb (str_eqb (f_data f1)) [ex_old; ex_new] = true).
  { apply existsb_exists. exists (f_data f1). split.
    - change (In (f_data f1) [ex_old; ex_new]) in Hin. exact Hin.
    - apply str_eqb_refl. }
  rewrite E in Hbad. discriminate.
Qed.

(* truncate and write in place: after the open the file is empty *)
Lemma inplace_refuted : ~ crash_atomic_for inplace_ops.
Proof. apply (refute_at inplace_ops 1). vm_compute. reflexivity. Qed.

(* remove, then rename: between the two the file does not exist *)
Lemma remove_rename_refuted : ~ crash_atomic_for remove_rename_ops.
Proof. apply (refute_at remove_rename_ops 4). vm_compute. reflexivity. Qed.

(* write the temporary file, then copy it back over the original: the copy is not atomic *)
Lemma copyback_refuted : ~ crash_atomic_for copyback_ops.
Proof. apply (refute_at copyback_ops 4). vm_compute. reflexivity. Qed.

Lemma variants_refuted :
  ~ crash_atomic_for inplace_ops /\ ~ crash_atomic_for remove_rename_ops /\ ~ crash_atomic_for copyback_ops.
Proof. split; [exact inplace_refuted | split; [exact remove_rename_refuted | exact copyback_refuted]]. Qed.
