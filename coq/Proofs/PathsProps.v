(* C19: the theorems in the form in which Props/C19.v states them. *)
From PV Require Import Lib.Bytes Model.Paths Spec.PathDenote Proofs.PathsBase Proofs.PathsClean
  Proofs.PathsRender Proofs.PathsPrefix Proofs.PathsContains Proofs.PathsSuffix Proofs.PathsRel
  Proofs.PathsRelpath Proofs.PathsRefute.
Open Scope N_scope.

Lemma prefix_is_parts_prefix_all p q :
  p <> [] -> q <> [] ->
  (components q = [] -> is_abs p = rooted p) ->   (* for ".", "./", ...: no Windows drive prefix X:/ on p *)
  has_prefix_path p q = path_prefixb q p.
Proof. apply prefix_is_parts_prefix. Qed.

Lemma contains_is_parts_infix_all p sub :
  p <> [] -> sub <> [] ->
  (components sub = [] -> ~ In colon p) ->         (* for ".", "./", ...: no ':' in p *)
  contains_path p sub = path_infixb sub p.
Proof. apply contains_is_parts_infix. Qed.

Lemma suffix_is_parts_suffix_all p suffix :
  p <> [] -> suffix <> [] -> components suffix <> [] ->
  has_suffix_path p suffix = path_suffixb suffix p.
Proof. apply suffix_is_parts_suffix. Qed.

(* Relpath for ALL byte strings: false, a component "c:" makes NewRelPath panic *)
Definition relpath_denotes_full : Prop :=
  forall cwd topdir from to, rooted cwd = true -> from <> [] -> inside cwd topdir from = true ->
  exists r, relpath cwd topdir from to = Ok r /\ denote cwd (join_path from r) = denote cwd to.

Definition ex_colon_to : str := [97; 47; 99; 58; 47; 120].   (* "a/c:/x" *)

Lemma relpath_denotes_refuted : ~ relpath_denotes_full.
Proof.
  intro H. destruct (H p_root p_root p_a ex_colon_to eq_refl ltac:(discriminate) eq_refl) as (r & Hr & _).
  vm_compute in Hr. discriminate.
Qed.

Lemma relpath_denotes_partial cwd topdir from to :
  rooted cwd = true ->
  ~ In colon cwd -> ~ In colon topdir -> ~ In colon from -> ~ In colon to ->
  from <> [] -> inside cwd topdir from = true ->
  exists r, relpath cwd topdir from to = Ok r /\ denote cwd (join_path from r) = denote cwd to.
Proof. apply relpath_denotes. Qed.

(* Line.Rel *)
Lemma line_rel_denotes cwd topdir filename other :
  rooted cwd = true ->
  ~ In colon cwd -> ~ In colon topdir -> ~ In colon (dir filename) -> ~ In colon other ->
  inside cwd topdir (dir filename) = true ->
  exists r, line_rel cwd topdir filename other = Ok r
            /\ denote cwd (join_path (dir filename) r) = denote cwd other.
Proof.
  intros. unfold line_rel. apply relpath_denotes; try assumption.
  unfold dir. destruct (dir_trim (dir_skip_base (rev filename))) eqn:E; [discriminate|].
  intro H6. apply (f_equal (@rev _)) in H6. rewrite rev_involutive in H6. simpl in H6. discriminate.
Qed.
