(* The paragraph-level check of Model/ModesPara.v (VaralignBlock.Process ...
   other fixes ... Finish): as coded -- a line changed since it was split =>
   the paragraph is given up -- Finish adds no diagnostic to the -f run that
   the default run does not have; the variant that re-splits does. *)
From PV Require Import Lib.Bytes Model.Modes Model.ModesPara Proofs.Modes Proofs.ModesDiags.
Open Scope N_scope.

Definition k3 (l : lstate) := (l_file l, l_lineno l, l_raw l).
Definition k4 (l : lstate) := (l_file l, l_lineno l, l_raw l, l_texts l).

(* operations that leave Autofix.texts alone in default mode *)
Definition op_keeps (o : op) : Prop :=
  match o with OReplaceAfter _ _ _ | OInsertAbove _ | ODescribe _ _ => True | _ => False end.
(* the operations VaralignBlock uses *)
Definition op_at (o : op) : Prop :=
  match o with OReplaceAt _ _ _ _ | ODescribe _ _ => True | _ => False end.

Lemma k4_k3 a b : k4 a = k4 b -> k3 a = k3 b.
Proof. unfold k4, k3. intros H. inversion H. reflexivity. Qed.

(* ---------- the operations and file / line number / raw lines ---------- *)
Lemma do_op_k3 m skip f o f' : do_op m skip f o = Some f' -> k3 (f_line f') = k3 (f_line f).
Proof.
  intros H. destruct o; cbn [do_op] in H; break_some H; inversion H; subst; try reflexivity;
    cbn [f_line describe]; try destruct (is_autofix m); try destruct (l_below (f_line f)); reflexivity.
Qed.
Lemma do_ops_k3 m skip ops : forall f f', do_ops m skip f ops = Some f' -> k3 (f_line f') = k3 (f_line f).
Proof.
  induction ops as [|o ops IH]; intros f f' H; cbn [do_ops] in H.
  - inversion H. reflexivity.
  - destruct (do_op m skip f o) as [f1|] eqn:E; [|discriminate].
    rewrite (IH _ _ H). eapply do_op_k3; eauto.
Qed.

(* in default mode Replace/ReplaceAfter, InsertAbove and Custom keep the texts *)
Lemma do_op_keeps skip f o f' : op_keeps o -> do_op Default skip f o = Some f' -> k4 (f_line f') = k4 (f_line f).
Proof.
  intros Hk H. destruct o; cbn in Hk; try destruct Hk; cbn [do_op] in H; break_some H; inversion H; subst; reflexivity.
Qed.
Lemma do_ops_keeps skip ops : Forall op_keeps ops -> forall f f',
  do_ops Default skip f ops = Some f' -> k4 (f_line f') = k4 (f_line f).
Proof.
  induction 1 as [|o ops Ho _ IH]; intros f f' H; cbn [do_ops] in H.
  - inversion H. reflexivity.
  - destruct (do_op Default skip f o) as [f1|] eqn:E; [|discriminate].
    rewrite (IH _ _ H). eapply do_op_keeps; eauto.
Qed.

(* ReplaceAt / Custom: result and actions are a function of k4 and the actions so far *)
Definition fx_sim (r1 r2 : option fx) : Prop :=
  match r1, r2 with
  | Some f1, Some f2 => k4 (f_line f1) = k4 (f_line f2) /\ f_acts f1 = f_acts f2
  | None, None => True
  | _, _ => False
  end.
Lemma do_op_at m1 m2 skip f1 f2 o : op_at o ->
  k4 (f_line f1) = k4 (f_line f2) -> f_acts f1 = f_acts f2 ->
  fx_sim (do_op m1 skip f1 o) (do_op m2 skip f2 o).
Proof.
  intros Ho Hk Ha. pose proof Hk as Hk'. unfold k4 in Hk'. injection Hk' as Hf Hn Hr Ht.
  destruct o; cbn in Ho; try destruct Ho; cbn [do_op].
  - destruct (str_eqb from to); [exact I|].
    unfold real_line. rewrite Hn. destruct (negb (1 <=? l_lineno (f_line f2))); [exact I|].
    destruct skip; [split; [exact Hk|exact Ha]|].
    rewrite Ht. destruct (nth_error (l_texts (f_line f2)) (N.to_nat rawIndex)) as [text|]; [|exact I].
    destruct (negb (textIndex <? N.of_nat (length text))); [exact I|].
    destruct (strip_prefix from (skipn (N.to_nat textIndex) text)) as [rest|]; [|exact I].
    cbn [fx_sim describe f_line f_acts set_texts]. unfold k4. cbn. rewrite Hf, Hn, Hr, Ha. split; reflexivity.
  - destruct skip; [split; [exact Hk|exact Ha]|].
    cbn [fx_sim describe f_line f_acts]. rewrite Hn, Ha. split; [exact Hk|reflexivity].
Qed.
Lemma do_ops_at m1 m2 skip ops : Forall op_at ops -> forall f1 f2,
  k4 (f_line f1) = k4 (f_line f2) -> f_acts f1 = f_acts f2 ->
  fx_sim (do_ops m1 skip f1 ops) (do_ops m2 skip f2 ops).
Proof.
  induction 1 as [|o ops Ho _ IH]; intros f1 f2 Hk Ha; cbn [do_ops].
  - split; assumption.
  - pose proof (do_op_at m1 m2 skip f1 f2 o Ho Hk Ha) as S.
    destruct (do_op m1 skip f1 o) as [g1|], (do_op m2 skip f2 o) as [g2|]; cbn in S; try contradiction; [|exact I].
    destruct S as [S1 S2]. apply IH; assumption.
Qed.

Lemma apply_fix_k4 m only g f lv fmt msg expl : k4 (snd (apply_fix m only g f lv fmt msg expl)) = k4 (f_line f).
Proof. rewrite apply_fix_snd. destruct (nonempty (f_acts f)); reflexivity. Qed.

(* ---------- set_line ---------- *)
Lemma nth_set_line_same ls : forall i l l', nth_error ls i = Some l -> nth_error (set_line ls i l') i = Some l'.
Proof. induction ls as [|x ls IH]; intros [|i] l l' H; cbn in *; try discriminate; [reflexivity|eapply IH; eauto]. Qed.
Lemma nth_set_line_other ls : forall i j l', i <> j -> nth_error (set_line ls i l') j = nth_error ls j.
Proof.
  induction ls as [|x ls IH]; intros [|i] [|j] l' H; cbn; try reflexivity; [congruence|].
  apply IH. congruence.
Qed.
Lemma nth_set_line_proj {A} (p : lstate -> A) ls i l l' j :
  nth_error ls i = Some l -> p l' = p l ->
  option_map p (nth_error (set_line ls i l') j) = option_map p (nth_error ls j).
Proof.
  intros E Hp. destruct (Nat.eq_dec i j) as [<-|Hn].
  - rewrite (nth_set_line_same ls i l l' E), E. cbn. rewrite Hp. reflexivity.
  - rewrite nth_set_line_other by exact Hn. reflexivity.
Qed.

Definition same_proj {A} (p : lstate -> A) (ls1 ls2 : list lstate) : Prop :=
  forall j, option_map p (nth_error ls1 j) = option_map p (nth_error ls2 j).

(* ---------- the default run: the Logger invariant, for any events ---------- *)
Lemma step_default_log lvl only st e : event_level lvl e -> LogInv lvl (s_lg st) ->
  LogInv lvl (s_lg (step Default only st e)) /\ grows (s_lg st) (s_lg (step Default only st e)).
Proof.
  intros Hlv HL. unfold step. destruct (s_panic st); [split; [exact HL|apply grows_refl]|].
  destruct e as [i lv fmt msg| |i lv fmt msg expl ops| |]; cbn [event_level] in Hlv.
  - destruct (nth_error (s_lines st) i) as [l|]; cbn [s_lg panic]; [|split; [exact HL|apply grows_refl]].
    apply diag_default; assumption.
  - cbn [s_lg]. split.
    + eapply LogInv_grows; [exact HL|apply explain_logged|]. exists []. rewrite explain_out, app_nil_r. reflexivity.
    + exists []. rewrite explain_out, app_nil_r. reflexivity.
  - destruct (nth_error (s_lines st) i) as [l|]; cbn [s_lg panic]; [|split; [exact HL|apply grows_refl]].
    destruct (expl && _); cbn [s_lg panic]; [split; [exact HL|apply grows_refl]|].
    destruct (match ops with [] => false | _ => _ end); cbn [s_lg panic]; [split; [exact HL|apply grows_refl]|].
    destruct (do_ops Default _ _ ops) as [f|]; cbn [s_lg panic]; [|split; [exact HL|apply grows_refl]].
    destruct (apply_fix_default lvl only (s_lg st) f lv fmt msg expl HL Hlv) as (A & B & _).
    destruct (apply_fix Default only (s_lg st) f lv fmt msg expl) as [g' l']. cbn [fst s_lg] in *. split; assumption.
  - cbn [s_lg]. split.
    + eapply LogInv_grows; [exact HL|apply save_logged|]. exists []. rewrite save_out, app_nil_r. reflexivity.
    + exists []. rewrite save_out, app_nil_r. reflexivity.
  - cbn [s_lg]. split; [eapply LogInv_grows; [exact HL|apply summary_logged|apply summary_grows]|apply summary_grows].
Qed.

Lemma grows_trans a b c : grows a b -> grows b c -> grows a c.
Proof. intros [x Hx] [y Hy]. exists (x ++ y). rewrite Hy, Hx, app_assoc. reflexivity. Qed.

(* ---------- between Process and Finish, default mode: the texts stay ---------- *)
Definition mid_event_ok (lvl : str -> level) (seen : list nat) (e : event) : Prop :=
  event_level lvl e /\ match e with EFix i _ _ _ _ ops => In i seen /\ Forall op_keeps ops | _ => True end.

Lemma step_default_mid only st e :
  match e with EFix _ _ _ _ _ ops => Forall op_keeps ops | _ => True end ->
  same_proj k4 (s_lines (step Default only st e)) (s_lines st).
Proof.
  intros Hk j. unfold step. destruct (s_panic st); [reflexivity|].
  destruct e as [i lv fmt msg| |i lv fmt msg expl ops| |]; try reflexivity.
  - destruct (nth_error (s_lines st) i); reflexivity.
  - destruct (nth_error (s_lines st) i) as [l|] eqn:En; [|reflexivity].
    destruct (expl && _); [reflexivity|].
    destruct (match ops with [] => false | _ => _ end); [reflexivity|].
    destruct (do_ops Default _ _ ops) as [f|] eqn:Eo; [|reflexivity].
    pose proof (apply_fix_k4 Default only (s_lg st) f lv fmt msg expl) as K.
    destruct (apply_fix Default only (s_lg st) f lv fmt msg expl) as [g' l']. cbn [snd s_lines] in *.
    eapply nth_set_line_proj; [exact En|]. rewrite K. apply (do_ops_keeps _ ops Hk _ _ Eo).
Qed.

(* ---------- any mode: a transaction touches only its own line ---------- *)
Lemma step_local m only seen st e :
  match e with EFix i _ _ _ _ _ => In i seen | _ => True end ->
  same_proj k3 (s_lines (step m only st e)) (s_lines st)
  /\ forall j, ~ In j seen -> nth_error (s_lines (step m only st e)) j = nth_error (s_lines st) j.
Proof.
  intros Hi. unfold step. destruct (s_panic st); [split; [intros j|]; reflexivity|].
  destruct e as [i lv fmt msg| |i lv fmt msg expl ops| |]; try (split; [intros j|]; reflexivity).
  - destruct (nth_error (s_lines st) i); split; try intros j; reflexivity.
  - destruct (nth_error (s_lines st) i) as [l|] eqn:En; [|split; [intros j|]; reflexivity].
    destruct (expl && _); [split; [intros j|]; reflexivity|].
    destruct (match ops with [] => false | _ => _ end); [split; [intros j|]; reflexivity|].
    destruct (do_ops m _ _ ops) as [f|] eqn:Eo; [|split; [intros j|]; reflexivity].
    pose proof (apply_fix_k4 m only (s_lg st) f lv fmt msg expl) as K.
    destruct (apply_fix m only (s_lg st) f lv fmt msg expl) as [g' l']. cbn [snd s_lines] in *. split.
    + intros j. eapply nth_set_line_proj; [exact En|]. apply k4_k3 in K. rewrite K. apply (do_ops_k3 _ _ ops _ _ Eo).
    + intros j Hj. apply nth_set_line_other. intros ->. apply Hj, Hi.
Qed.

Lemma run_events_panic m only evs : forall s, s_panic s = true -> s_panic (run_events m only s evs) = true.
Proof.
  induction evs as [|e evs IH]; intros s H; cbn; [exact H|]. apply IH. rewrite panic_sticky by exact H. exact H.
Qed.
Lemma checks_panic m only (cs : list check) : forall s, s_panic s = true -> s_panic (fold_left (run_check m only) cs s) = true.
Proof.
  induction cs as [|c cs IH]; intros s H; cbn [fold_left]; [exact H|]. apply IH. apply run_events_panic. exact H.
Qed.

(* folds *)
Lemma run_events_default_mid lvl only seen evs : forall st,
  Forall (mid_event_ok lvl seen) evs -> LogInv lvl (s_lg st) ->
  same_proj k4 (s_lines (run_events Default only st evs)) (s_lines st)
  /\ LogInv lvl (s_lg (run_events Default only st evs)).
Proof.
  induction evs as [|e evs IH]; intros st Hf HL; cbn; [split; [intros j; reflexivity|exact HL]|].
  inversion Hf as [|? ? [Hlv Hm] Hf']; subst.
  destruct (step_default_log lvl only st e Hlv HL) as [HL' _].
  destruct (IH _ Hf' HL') as [A B]. split; [|exact B].
  intros j. rewrite A. apply step_default_mid. destruct e; auto. destruct Hm; assumption.
Qed.
Lemma checks_default_mid lvl only seen (cs : list check) : forall st,
  (forall c ls e, In c cs -> In e (c ls) -> mid_event_ok lvl seen e) -> LogInv lvl (s_lg st) ->
  same_proj k4 (s_lines (fold_left (run_check Default only) cs st)) (s_lines st)
  /\ LogInv lvl (s_lg (fold_left (run_check Default only) cs st)).
Proof.
  induction cs as [|c cs IH]; intros st Hok HL; cbn [fold_left]; [split; [intros j; reflexivity|exact HL]|].
  assert (Hc : Forall (mid_event_ok lvl seen) (c (s_lines st))).
  { rewrite Forall_forall. intros e He. apply (Hok c (s_lines st) e); [left; reflexivity|exact He]. }
  destruct (run_events_default_mid lvl only seen _ st Hc HL) as [A B].
  destruct (IH (run_check Default only st c)) as [A' B']; [intros c' ls e H1 H2; apply (Hok c' ls e); [right; exact H1|exact H2]|exact B|].
  split; [|exact B']. intros j. rewrite A'. apply A.
Qed.

Definition fix_in (seen : list nat) (e : event) : Prop :=
  match e with EFix i _ _ _ _ _ => In i seen | _ => True end.
Lemma run_events_local m only seen evs : forall st, Forall (fix_in seen) evs ->
  same_proj k3 (s_lines (run_events m only st evs)) (s_lines st)
  /\ forall j, ~ In j seen -> nth_error (s_lines (run_events m only st evs)) j = nth_error (s_lines st) j.
Proof.
  induction evs as [|e evs IH]; intros st Hf; cbn; [split; [intros j|]; reflexivity|].
  inversion Hf as [|? ? He Hf']; subst.
  destruct (step_local m only seen st e He) as [A B]. destruct (IH (step m only st e) Hf') as [A' B'].
  split; [intros j; rewrite A'; apply A|intros j Hj; rewrite B' by exact Hj; apply B; exact Hj].
Qed.
Lemma checks_local m only seen (cs : list check) : forall st,
  (forall c ls e, In c cs -> In e (c ls) -> fix_in seen e) ->
  same_proj k3 (s_lines (fold_left (run_check m only) cs st)) (s_lines st)
  /\ forall j, ~ In j seen -> nth_error (s_lines (fold_left (run_check m only) cs st)) j = nth_error (s_lines st) j.
Proof.
  induction cs as [|c cs IH]; intros st Hok; cbn [fold_left]; [split; [intros j|]; reflexivity|].
  assert (Hc : Forall (fix_in seen) (c (s_lines st))).
  { rewrite Forall_forall. intros e He. apply (Hok c (s_lines st) e); [left; reflexivity|exact He]. }
  destruct (run_events_local m only seen _ st Hc) as [A B].
  destruct (IH (run_check m only st c)) as [A' B']; [intros c' ls e H1 H2; apply (Hok c' ls e); [right; exact H1|exact H2]|].
  split; [intros j; rewrite A'; apply A|intros j Hj; rewrite B' by exact Hj; apply B; exact Hj].
Qed.

(* ---------- Finish in both modes, from states that agree on the remembered lines ---------- *)
Definition notes_event_ok (lvl : str -> level) (dom : list nat) (e : event) : Prop :=
  event_level lvl e /\ match e with EFix i _ _ _ _ ops => In i dom /\ Forall op_at ops | _ => True end.

Lemma affected_linenos_k3 l1 l2 acts : k3 l1 = k3 l2 -> affected_linenos l1 acts = affected_linenos l2 acts.
Proof.
  intros H. unfold k3 in H. injection H as Hf Hn Hr.
  unfold affected_linenos, line_linenos. rewrite Hn, Hr. reflexivity.
Qed.

Lemma diag_show_out only g l lv fmt msg : g_out (diag ShowAutofix only g l lv fmt msg) = g_out g.
Proof. unfold diag. cbn [is_autofix ShowAutofix m_show m_fix orb]. apply out_set_suppress. Qed.

Definition agree (dom : list nat) (sD sS : state) : Prop :=
  same_proj k3 (s_lines sD) (s_lines sS)
  /\ forall j, In j dom -> option_map k4 (nth_error (s_lines sD) j) = option_map k4 (nth_error (s_lines sS) j).

Definition QI (lvl : str -> level) (dom : list nat) (base : list item) (sD sS : state) : Prop :=
  LogInv lvl (s_lg sD)
  /\ (forall it, is_diag_item it = true -> In it (g_out (s_lg sS)) -> In it base \/ In it (g_out (s_lg sD)))
  /\ (s_panic sS = true \/ agree dom sD sS).

Lemma step_QI lvl only dom base sD sS e :
  notes_event_ok lvl dom e -> s_panic (step Default only sD e) = false ->
  QI lvl dom base sD sS -> QI lvl dom base (step Default only sD e) (step ShowAutofix only sS e).
Proof.
  intros [Hlv Hev] Hnp (HL & Hsub & Hag).
  destruct (step_default_log lvl only sD e Hlv HL) as [HL' Hgr].
  assert (EpD : s_panic sD = false).
  { destruct (s_panic sD) eqn:E; [|reflexivity]. rewrite panic_sticky in Hnp by exact E. congruence. }
  destruct (s_panic sS) eqn:EpS.
  { rewrite (panic_sticky ShowAutofix only sS e EpS). repeat split; [exact HL'| |left; exact EpS].
    intros it Hd Hin. destruct (Hsub it Hd Hin) as [H|H]; [left; exact H|right; eapply grows_in; eauto]. }
  destruct Hag as [Hag|Hag]; [congruence|]. destruct Hag as [A3 A4].
  split; [exact HL'|].
  revert Hnp Hgr. unfold step. rewrite EpD, EpS. intros Hnp Hgr.
  destruct e as [i lv fmt msg| |i lv fmt msg expl ops| |].
  - (* a plain diagnostic: -f prints nothing *)
    pose proof (A3 i) as Ai.
    destruct (nth_error (s_lines sD) i) as [lD|]; [|discriminate Hnp].
    destruct (nth_error (s_lines sS) i) as [lS|]; [|discriminate Ai].
    cbn [s_lines s_lg s_panic] in *. split; [|right; split; assumption].
    intros it Hd Hin. rewrite diag_show_out in Hin.
    destruct (Hsub it Hd Hin) as [H|H]; [left; exact H|right; eapply grows_in; eauto].
  - cbn [s_lines s_lg s_panic] in *. split; [|right; split; assumption].
    intros it Hd Hin. rewrite explain_out in *. auto.
  - destruct Hev as [Hi Hops]. cbn [event_level] in Hlv.
    pose proof (A4 i Hi) as Ai.
    destruct (nth_error (s_lines sD) i) as [lD|] eqn:EnD; [|discriminate Hnp].
    destruct (nth_error (s_lines sS) i) as [lS|] eqn:EnS; [|discriminate Ai].
    assert (Ai' : k4 lD = k4 lS) by (cbn [option_map] in Ai; congruence).
    destruct (expl && _); [discriminate Hnp|].
    destruct (match ops with [] => false | _ => _ end); [discriminate Hnp|].
    pose proof (do_ops_at Default ShowAutofix (negb (shall_be_logged only fmt)) ops Hops
                  {| f_line := lD; f_acts := [] |} {| f_line := lS; f_acts := [] |} Ai' eq_refl) as S.
    destruct (do_ops Default _ _ ops) as [fD|]; [|discriminate Hnp].
    destruct (do_ops ShowAutofix _ _ ops) as [fS|]; [|contradiction S].
    destruct S as [Sk Sa].
    destruct (apply_fix_default lvl only (s_lg sD) fD lv fmt msg expl HL Hlv) as (_ & B & C).
    pose proof (apply_fix_show only (s_lg sS) fS lv fmt msg expl) as S1.
    pose proof (apply_fix_k4 Default only (s_lg sD) fD lv fmt msg expl) as KD.
    pose proof (apply_fix_k4 ShowAutofix only (s_lg sS) fS lv fmt msg expl) as KS.
    destruct (apply_fix Default only (s_lg sD) fD lv fmt msg expl) as [gD lD'].
    destruct (apply_fix ShowAutofix only (s_lg sS) fS lv fmt msg expl) as [gS lS'].
    cbn [fst snd s_lines s_lg s_panic] in *.
    assert (K : k4 lD' = k4 lS') by (rewrite KD, KS; exact Sk).
    split.
    + intros it Hd Hin. destruct (S1 it Hd Hin) as [H|(H1 & H2 & ->)].
      * destruct (Hsub it Hd H) as [H'|H']; [left; exact H'|right; eapply grows_in; eauto].
      * right. pose proof (C H1 H2) as C'.
        assert (E1 : l_file (f_line fS) = l_file (f_line fD)).
        { pose proof Sk as Sk'. unfold k4 in Sk'. injection Sk' as X _ _ _. symmetry. exact X. }
        rewrite E1, <- Sa, (affected_linenos_k3 (f_line fS) (f_line fD)); [exact C'|symmetry; apply k4_k3; exact Sk].
    + right. split; cbn [s_lines].
      * intros j. destruct (Nat.eq_dec i j) as [<-|Hn].
        -- rewrite (nth_set_line_same _ i lD lD' EnD), (nth_set_line_same _ i lS lS' EnS). cbn. f_equal. apply k4_k3. exact K.
        -- rewrite !nth_set_line_other by exact Hn. apply A3.
      * intros j Hj. destruct (Nat.eq_dec i j) as [<-|Hn].
        -- rewrite (nth_set_line_same _ i lD lD' EnD), (nth_set_line_same _ i lS lS' EnS). cbn. f_equal. exact K.
        -- rewrite !nth_set_line_other by exact Hn. apply A4. exact Hj.
  - cbn [s_lines s_lg s_panic] in *. split; [|right; split; assumption].
    intros it Hd Hin. rewrite save_out in *. auto.
  - cbn [s_lines s_lg s_panic] in *. split; [|right; split; assumption].
    intros it Hd Hin. apply summary_diags in Hin; [|exact Hd].
    destruct (Hsub it Hd Hin) as [H|H]; [left; exact H|right; eapply grows_in; eauto].
Qed.

Lemma run_events_QI lvl only dom base evs : forall sD sS,
  Forall (notes_event_ok lvl dom) evs -> s_panic (run_events Default only sD evs) = false ->
  QI lvl dom base sD sS -> QI lvl dom base (run_events Default only sD evs) (run_events ShowAutofix only sS evs).
Proof.
  induction evs as [|e evs IH]; intros sD sS Hf Hnp H; [exact H|].
  change (run_events Default only sD (e :: evs)) with (run_events Default only (step Default only sD e) evs) in *.
  change (run_events ShowAutofix only sS (e :: evs)) with (run_events ShowAutofix only (step ShowAutofix only sS e) evs).
  inversion Hf as [|? ? He Hf']; subst.
  assert (Hs : s_panic (step Default only sD e) = false).
  { destruct (s_panic (step Default only sD e)) eqn:E; [|reflexivity].
    rewrite (run_events_panic Default only evs _ E) in Hnp. discriminate. }
  apply IH; [exact Hf'|exact Hnp|]. apply step_QI; assumption.
Qed.

(* ---------- the lines of the paragraph, one after the other ---------- *)
Fixpoint mid_ok (lvl : str -> level) (seen : list nat) (phases : list (nat * list check)) : Prop :=
  match phases with
  | [] => True
  | ph :: r => ~ In (fst ph) seen
      /\ (forall c ls e, In c (snd ph) -> In e (c ls) -> mid_event_ok lvl (fst ph :: seen) e)
      /\ mid_ok lvl (fst ph :: seen) r
  end.

Lemma texts_eqb_true a : forall b, texts_eqb a b = true -> a = b.
Proof.
  induction a as [|x a IH]; intros [|y b] H; cbn in H; try discriminate; [reflexivity|].
  apply andb_true_iff in H as [H1 H2]. apply str_eqb_spec in H1. subst y. f_equal. apply IH. exact H2.
Qed.
Lemma texts_eqb_refl a : texts_eqb a a = true.
Proof. induction a as [|x a IH]; cbn; [reflexivity|]. rewrite IH, andb_true_r. apply str_eqb_spec. reflexivity. Qed.

Definition PI (lvl : str -> level) (lines1 : list lstate) (seen : list nat) (psD psS : pstate) : Prop :=
  same_proj k4 (s_lines (p_st psD)) lines1
  /\ same_proj k3 (s_lines (p_st psS)) lines1
  /\ (forall j, ~ In j seen -> nth_error (s_lines (p_st psS)) j = nth_error lines1 j)
  /\ p_snap psD = p_snap psS
  /\ (forall i t, In (i, t) (p_snap psD) -> In i seen /\ option_map l_texts (nth_error lines1 i) = Some t)
  /\ LogInv lvl (s_lg (p_st psD)).

Lemma mid_fix_in lvl seen e : mid_event_ok lvl seen e -> fix_in seen e.
Proof. intros [_ H]. destruct e; cbn in *; auto. destruct H; assumption. Qed.

Lemma phase_PI lvl only lines1 seen psD psS ph :
  ~ In (fst ph) seen ->
  (forall c ls e, In c (snd ph) -> In e (c ls) -> mid_event_ok lvl (fst ph :: seen) e) ->
  PI lvl lines1 seen psD psS ->
  PI lvl lines1 (fst ph :: seen) (para_phase Default only psD ph) (para_phase ShowAutofix only psS ph).
Proof.
  intros Hni Hok (A & B & C & D & D' & E). destruct ph as [i cs]. cbn [fst snd] in *.
  destruct (checks_default_mid lvl only (i :: seen) cs (p_st psD) Hok E) as [MA ME].
  destruct (checks_local ShowAutofix only (i :: seen) cs (p_st psS)) as [LB LC].
  { intros c ls e H1 H2. eapply mid_fix_in. eapply Hok; eauto. }
  unfold para_phase. cbn [fst snd p_st p_snap].
  split; [|split; [|split; [|split; [|split]]]].
  - intros j. rewrite MA. apply A.
  - intros j. rewrite LB. apply B.
  - intros j Hj. rewrite LC by exact Hj. apply C. intros H. apply Hj. right. exact H.
  - pose proof (A i) as Ai. rewrite (C i Hni). rewrite D.
    destruct (nth_error lines1 i) as [l1|]; destruct (nth_error (s_lines (p_st psD)) i) as [lD|]; cbn in Ai; try discriminate; [|reflexivity].
    assert (K : k4 lD = k4 l1) by congruence. unfold k4 in K. injection K as _ _ _ K. rewrite K. reflexivity.
  - pose proof (A i) as Ai. intros ii t Hin.
    destruct (nth_error (s_lines (p_st psD)) i) as [lD|] eqn:En.
    + apply in_app_or in Hin as [Hin|[Hin|[]]].
      * destruct (D' _ _ Hin) as [H1 H2]. split; [right; exact H1|exact H2].
      * inversion Hin; subst. split; [left; reflexivity|].
        destruct (nth_error lines1 ii) as [l1|]; cbn in Ai; [|discriminate].
        assert (K : k4 lD = k4 l1) by congruence. unfold k4 in K. injection K as _ _ _ K. cbn. rewrite K. reflexivity.
    + destruct (D' _ _ Hin) as [H1 H2]. split; [right; exact H1|exact H2].
  - exact ME.
Qed.

Lemma phases_PI lvl only lines1 phases : forall seen psD psS,
  mid_ok lvl seen phases -> PI lvl lines1 seen psD psS ->
  exists seen', PI lvl lines1 seen' (fold_left (para_phase Default only) phases psD)
                                    (fold_left (para_phase ShowAutofix only) phases psS).
Proof.
  induction phases as [|ph r IH]; intros seen psD psS Hm H; cbn [fold_left].
  - exists seen. exact H.
  - destruct Hm as (H1 & H2 & H3). eapply IH; [exact H3|]. apply phase_PI; assumption.
Qed.

Lemma step_save_out m only st : g_out (s_lg (step m only st ESave)) = g_out (s_lg st).
Proof. unfold step. destruct (s_panic st); [reflexivity|]. cbn [s_lg]. apply save_out. Qed.
Lemma step_save_panic m only st : s_panic (step m only st ESave) = s_panic st.
Proof. unfold step. destruct (s_panic st) eqn:E; [exact E|reflexivity]. Qed.

Definition notes_ok (lvl : str -> level) (notes : snap -> list event) : Prop :=
  forall sn e, In e (notes sn) -> notes_event_ok lvl (map fst sn) e.

(* Finish as coded adds no diagnostic to the -f run that the default run lacks *)
Theorem para_finish_adds_nothing lvl only ls pre phases notes :
  checks_ok lvl pre -> mid_ok lvl [] phases -> notes_ok lvl notes ->
  s_panic (run_para para_finish Default only ls pre phases notes) = false ->
  forall it, In it (diags (run_para para_finish ShowAutofix only ls pre phases notes)) ->
    In it (diags (p_st (para_before ShowAutofix only ls pre phases)))
    \/ In it (diags (run_para para_finish Default only ls pre phases notes)).
Proof.
  intros Hpre Hmid Hnotes Hnp it Hin.
  unfold diags in *. apply filter_In in Hin as [Hin Hd].
  rewrite !filter_In. unfold run_para in *. rewrite step_save_out in *. rewrite step_save_panic in Hnp.
  assert (H0 : DInv lvl (init ls) (init ls)) by (repeat split; auto; intros f ln msg []).
  destruct (checks_DInv lvl only pre _ _ Hpre H0) as (Hl & _ & HL & _).
  set (sD1 := fold_left (run_check Default only) pre (init ls)) in *.
  set (sS1 := fold_left (run_check ShowAutofix only) pre (init ls)) in *.
  assert (P0 : PI lvl (s_lines sD1) [] {| p_st := sD1; p_snap := [] |} {| p_st := sS1; p_snap := [] |}).
  { split; [|split; [|split; [|split; [|split]]]]; cbn [p_st p_snap].
    - intros j. reflexivity.
    - intros j. rewrite Hl. reflexivity.
    - intros j _. rewrite Hl. reflexivity.
    - reflexivity.
    - intros i t [].
    - exact HL. }
  destruct (phases_PI lvl only (s_lines sD1) phases [] _ _ Hmid P0) as (seen & A & B & C & D & D' & E).
  unfold para_before in *. fold sD1 sS1 in Hin, Hnp |- *.
  set (psD := fold_left (para_phase Default only) phases {| p_st := sD1; p_snap := [] |}) in *.
  set (psS := fold_left (para_phase ShowAutofix only) phases {| p_st := sS1; p_snap := [] |}) in *.
  unfold run_check, para_finish in *. rewrite <- D in Hin.
  set (sn := p_snap psD) in *.
  (* the default run never sees a changed line *)
  assert (UD : unchanged (s_lines (p_st psD)) sn = true).
  { unfold unchanged. apply forallb_forall. intros [i t] Hi. cbn [fst snd].
    destruct (D' i t Hi) as [_ H2]. pose proof (A i) as Ai.
    destruct (nth_error (s_lines sD1) i) as [l1|]; [|discriminate H2].
    destruct (nth_error (s_lines (p_st psD)) i) as [lD|]; [|discriminate Ai].
    cbn in Ai, H2. assert (K : k4 lD = k4 l1) by congruence. unfold k4 in K. injection K as _ _ _ K.
    rewrite K. injection H2 as ->. apply texts_eqb_refl. }
  rewrite UD in *.
  destruct (unchanged (s_lines (p_st psS)) sn) eqn:US.
  2:{ left. cbn [run_events fold_left] in Hin. split; assumption. }
  assert (Ag : agree (map fst sn) (p_st psD) (p_st psS)).
  { split.
    - intros j. rewrite B. pose proof (A j) as Aj.
      destruct (nth_error (s_lines (p_st psD)) j), (nth_error (s_lines sD1) j); cbn in *; try discriminate; [|reflexivity].
      f_equal. apply k4_k3. congruence.
    - intros j Hj. apply in_map_iff in Hj as ([i t] & <- & Hi). cbn [fst].
      destruct (D' i t Hi) as [_ H2]. pose proof (A i) as Ai. pose proof (B i) as Bi.
      unfold unchanged in US. rewrite forallb_forall in US. specialize (US _ Hi). cbn [fst snd] in US.
      destruct (nth_error (s_lines sD1) i) as [l1|]; [|discriminate H2].
      destruct (nth_error (s_lines (p_st psD)) i) as [lD|]; [|discriminate Ai].
      destruct (nth_error (s_lines (p_st psS)) i) as [lS|]; [|discriminate US].
      apply texts_eqb_true in US. cbn in Ai, Bi, H2 |- *.
      assert (K : k4 lD = k4 l1) by congruence. assert (K3 : k3 lS = k3 l1) by congruence.
      unfold k4 in *. unfold k3 in K3. injection K as K1 K2 K3' K4. injection K3 as J1 J2 J3. injection H2 as H2.
      f_equal. congruence. }
  assert (Q0 : QI lvl (map fst sn) (g_out (s_lg (p_st psS))) (p_st psD) (p_st psS)).
  { split; [exact E|split; [intros it' _ H; left; exact H|right; exact Ag]]. }
  assert (Hev : Forall (notes_event_ok lvl (map fst sn)) (notes sn)).
  { rewrite Forall_forall. intros e He. apply (Hnotes sn e He). }
  destruct (run_events_QI lvl only (map fst sn) _ (notes sn) _ _ Hev Hnp Q0) as (_ & Hsub & _).
  destruct (Hsub it Hd Hin) as [H|H]; [left|right]; split; assumption.
Qed.

(* ---------- the variant that splits the changed line again ---------- *)
Definition para_resplit_adds_nothing : Prop :=
  forall lvl only ls pre phases notes,
  checks_ok lvl pre -> mid_ok lvl [] phases -> notes_ok lvl notes ->
  s_panic (run_para para_finish_resplit Default only ls pre phases notes) = false ->
  forall it, In it (diags (run_para para_finish_resplit ShowAutofix only ls pre phases notes)) ->
    In it (diags (p_st (para_before ShowAutofix only ls pre phases)))
    \/ In it (diags (run_para para_finish_resplit Default only ls pre phases notes)).

(* witness: the line `A=v`; after Process another checker replaces "=" by "+=";
   the notes of the paragraph depend on the width of "varname+op" *)
Definition pw_line : lstate := mk_line [102] 1 [65;61;118] [[65;61;118;10]].
Definition pw_line2 : lstate := mk_line [102] 1 [65;43;61;118] [[65;43;61;118;10]].
Definition pw_lvl (msg : str) : level := if str_eqb msg [110] then Note else Warn.
Definition pw_mid : check := fun _ => [EFix 0 Warn [109] [109] false [OReplaceAfter [] [61] [43;61]]].
Definition pw_notes (sn : snap) : list event :=
  match sn with
  | [(O, [t])] => if has_prefix [65;43;61] t
                  then [EFix 0 Note [110] [110] false [OReplaceAt 0 3 [118] [32;118]]] else []
  | _ => []
  end.
Definition pw_item : item := IDiag Note [102] (1, 1) [110].

Lemma pw_notes_ok : notes_ok pw_lvl pw_notes.
Proof.
  intros sn e He. unfold pw_notes in He.
  destruct sn as [|[[|i] [|t [|t2 ts]]] [|p r]]; try destruct He.
  destruct (has_prefix _ t); [|destruct He]. destruct He as [<-|[]].
  split; [reflexivity|]. split; [left; reflexivity|repeat constructor].
Qed.
Lemma pw_mid_ok : mid_ok pw_lvl [] [(0%nat, [pw_mid])].
Proof.
  split; [intros []|]. split; [|exact I].
  intros c ls e [<-|[]] [<-|[]]. split; [reflexivity|]. split; [left; reflexivity|repeat constructor].
Qed.
Lemma pw_pre_ok : checks_ok pw_lvl [].
Proof. intros c ls e []. Qed.

Theorem para_resplit_refuted : ~ para_resplit_adds_nothing.
Proof.
  intros H.
  assert (Hnp : s_panic (run_para para_finish_resplit Default [] [pw_line] [] [(0%nat, [pw_mid])] pw_notes) = false)
    by (vm_compute; reflexivity).
  assert (Hin : In pw_item (diags (run_para para_finish_resplit ShowAutofix [] [pw_line] [] [(0%nat, [pw_mid])] pw_notes)))
    by (vm_compute; right; left; reflexivity).
  destruct (H pw_lvl [] [pw_line] [] [(0%nat, [pw_mid])] pw_notes pw_pre_ok pw_mid_ok pw_notes_ok Hnp pw_item Hin) as [X|X];
    vm_compute in X; intuition discriminate.
Qed.

(* the same witness under Finish as coded: -f gives the paragraph up (no note),
   and without the other fix both modes print the note *)
Example para_witness_as_coded :
  diags (run_para para_finish ShowAutofix [] [pw_line] [] [(0%nat, [pw_mid])] pw_notes)
  = diags (p_st (para_before ShowAutofix [] [pw_line] [] [(0%nat, [pw_mid])]))
  /\ s_panic (run_para para_finish Default [] [pw_line] [] [(0%nat, [pw_mid])] pw_notes) = false
  /\ In pw_item (diags (run_para para_finish ShowAutofix [] [pw_line2] [] [(0%nat, [])] pw_notes))
  /\ In pw_item (diags (run_para para_finish Default [] [pw_line2] [] [(0%nat, [])] pw_notes)).
Proof. vm_compute. intuition. Qed.
