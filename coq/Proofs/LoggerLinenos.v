(* C06 linenos_in_range: what Line.Linenos prints for the lines that the loader
   (files.go convertToLogicalLines, Model/Lines.v from C09) produces, for the two
   pseudo-lines (NewLineWhole, NewLineEOF) and what Autofix.affectedLinenos prints. *)
From PV Require Import Lib.Bytes Model.Lines Proofs.Lines Proofs.LinesLoop.
From PV Require Import Lib.Utf8 Model.Escape Model.Logger.
From Coq Require Import ZifyBool ZifyN ZifyNat.
Open Scope N_scope.

(* the Logger's view of a loaded line: NewLineMulti(filename, lineno, text, rawLines) *)
Definition of_loaded (id : N) (file : str) (l : Lines.line) : Logger.line :=
  Logger.mk_line id file (Z.of_N (Lines.lineno l)) (Lines.raws l).

(* NewLineWhole(filename) = NewLineMulti(filename, 0, "", nil); NewLineEOF: lineno -1 *)
Definition line_whole (id : N) (file : str) : Logger.line := Logger.mk_line id file 0%Z [].
Definition line_eof (id : N) (file : str) : Logger.line := Logger.mk_line id file (-1)%Z [].

Lemma dec_of_Z_of_N n : dec_of_Z (Z.of_N n) = dec_of_N n.
Proof. destruct n; reflexivity. Qed.

Lemma loaded_raws_nonempty s mk ls e l :
  convert_to_logical_lines s mk = Ok (ls, e) -> In l ls -> (1 <= length (Lines.raws l))%nat.
Proof.
  intros H Hin. destruct mk.
  - destruct (in_split _ _ Hin) as (pre & post & ->).
    destruct (grouping_exact_mk s _ e H pre l post eq_refl) as (init & lst & -> & _).
    rewrite app_length. simpl. lia.
  - pose proof (grouping_exact_plain s ls e H) as G. rewrite Forall_forall in G.
    destruct (G l Hin) as (r & -> & _). simpl. lia.
Qed.

(* For every file content s, both loaders, every loaded line l: with
   n = the number of physical lines of the file, first = l's line number and
   last = first + (number of physical lines of l) - 1:  1 <= first <= last <= n,
   and Linenos prints "first" for a single physical line, else "first--last". *)
Theorem linenos_in_range s mk ls e :
  convert_to_logical_lines s mk = Ok (ls, e) ->
  forall l, In l ls -> forall id file,
    let n := N.of_nat (length (flat_map Lines.raws ls)) in
    let first := Lines.lineno l in
    let last := first + N.of_nat (length (Lines.raws l)) - 1 in
    1 <= first /\ first <= last /\ last <= n /\
    linenos (of_loaded id file l) =
      if Nat.eqb (length (Lines.raws l)) 1 then dec_of_N first
      else dec_of_N first ++ [45; 45] ++ dec_of_N last.
Proof.
  intros H l Hin id file n first last.
  pose proof (loaded_raws_nonempty s mk ls e l H Hin) as Hk.
  destruct (in_split _ _ Hin) as (pre & post & Hls).
  pose proof (numbering_exact_prop s mk ls e H pre l post Hls) as Hnum.
  assert (n = N.of_nat (length (flat_map Lines.raws pre)) + N.of_nat (length (Lines.raws l))
              + N.of_nat (length (flat_map Lines.raws post))) as Hn.
  { unfold n. rewrite Hls, flat_map_app. cbn [flat_map]. rewrite !app_length. lia. }
  unfold first, last in *. split; [lia|]. split; [lia|]. split; [lia|].
  unfold linenos, of_loaded. cbn [ln_lineno ln_raws].
  replace (Z.of_N (Lines.lineno l) =? -1)%Z with false by lia.
  replace (Z.of_N (Lines.lineno l) =? 0)%Z with false by lia.
  rewrite dec_of_Z_of_N.
  destruct (Nat.eqb (length (Lines.raws l)) 1); [reflexivity|].
  replace (Z.of_N (Lines.lineno l) + Z.of_nat (length (Lines.raws l)) - 1)%Z
    with (Z.of_N (Lines.lineno l + N.of_nat (length (Lines.raws l)) - 1)) by lia.
  rewrite dec_of_Z_of_N. reflexivity.
Qed.

(* the pseudo-lines print no number ("path: message") and "EOF" ("path:EOF: message") *)
Theorem linenos_pseudo id file :
  linenos (line_whole id file) = [] /\ linenos (line_eof id file) = [69; 79; 70].
Proof. split; reflexivity. Qed.

(* Autofix.affectedLinenos: when every action's line number is 0 ("no line") or lies in
   [lo, hi] (Describef: Location.Lineno(rawIndex) = first + rawIndex), the result is the
   line's own Linenos, or "a", or "a--b" with lo <= a < b <= hi *)
Theorem affected_linenos_in_range ln actions lo hi :
  (1 <= lo)%Z -> Forall (fun a : str * Z => snd a = 0%Z \/ (lo <= snd a <= hi)%Z) actions ->
  affected_linenos ln actions = linenos ln \/
  (exists a, (lo <= a <= hi)%Z /\ affected_linenos ln actions = dec_of_Z a) \/
  (exists a b, (lo <= a)%Z /\ (a < b)%Z /\ (b <= hi)%Z /\
               affected_linenos ln actions = dec_of_Z a ++ [45; 45] ++ dec_of_Z b).
Proof.
  intros Hlo Hact. unfold affected_linenos. destruct actions as [|a0 actions0] eqn:Ea; [left; reflexivity|].
  rewrite <- Ea in *. clear Ea a0 actions0.
  set (stepf := fun (fl : Z * Z) (a : str * Z) =>
                  let '(first, last) := fl in
                  let n := snd a in
                  if (n =? 0)%Z then (first, last)
                  else (if (last =? 0)%Z || (n <? first)%Z then n else first,
                        if (last =? 0)%Z || (last <? n)%Z then n else last)).
  assert (forall fl, (fl = (0, 0) \/ (lo <= fst fl /\ fst fl <= snd fl /\ snd fl <= hi))%Z ->
            let r := fold_left stepf actions fl in
            (r = (0, 0) \/ (lo <= fst r /\ fst r <= snd r /\ snd r <= hi))%Z) as Hinv.
  { induction Hact as [|a actions Ha Hact IH]; intros fl Hfl; [exact Hfl|].
    cbn [fold_left]. apply IH. destruct fl as [f l]. unfold stepf. cbn [fst snd] in *.
    destruct Ha as [Ha|Ha]; [rewrite Ha; exact Hfl|].
    destruct (snd a =? 0)%Z eqn:E0; [lia|].
    right. destruct Hfl as [Hfl|Hfl].
    - inversion Hfl; subst. cbn. lia.
    - destruct (l =? 0)%Z eqn:El; cbn [orb]; [lia|].
      destruct (snd a <? f)%Z eqn:E1, (l <? snd a)%Z eqn:E2; cbn [fst snd]; lia. }
  specialize (Hinv (0, 0)%Z (or_introl eq_refl)). cbv zeta in Hinv.
  change (fold_left _ actions (0%Z, 0%Z)) with (fold_left stepf actions (0, 0)%Z).
  destruct (fold_left stepf actions (0, 0)%Z) as [f l]. cbn [fst snd] in Hinv.
  destruct Hinv as [Hinv|Hinv].
  - inversion Hinv; subst. left. reflexivity.
  - replace (l =? 0)%Z with false by lia.
    destruct (f <? l)%Z eqn:E.
    + right. right. exists f, l. repeat split; lia.
    + right. left. exists f. split; [lia|reflexivity].
Qed.
