(* C09, part 3: the specification is complete -- any observation that passes the
   five clauses is the model's output.  So "the model meets the spec" is not
   vacuous, and the harness' spec_check pins the loader down completely. *)
From PV Require Import Lib.Bytes Lib.LinesLib Model.Lines Spec.LinesSpec Proofs.Lines Proofs.LinesLoop.
From Coq Require Import ZifyBool ZifyN ZifyNat.
Open Scope N_scope.

(* ---- physical lines are determined by their concatenation ------------------ *)

Definition nlfree (a : str) : Prop := existsb is_nl a = false.

Lemma nl_split_unique a x b y :
  nlfree a -> nlfree b -> a ++ 10 :: x = b ++ 10 :: y -> a = b /\ x = y.
Proof.
  unfold nlfree. revert b. induction a as [|c a IH]; intros [|d b] Ha Hb E; simpl in *.
  - inversion E. split; reflexivity.
  - inversion E; subst. unfold is_nl in Hb. simpl in Hb. discriminate.
  - inversion E; subst. unfold is_nl in Ha. simpl in Ha. discriminate.
  - inversion E; subst. apply orb_false_iff in Ha as [_ Ha]. apply orb_false_iff in Hb as [_ Hb].
    destruct (IH b Ha Hb H1) as [-> ->]. split; reflexivity.
Qed.

Lemma nl_not_in_nlfree a x b : nlfree b -> a ++ 10 :: x = b -> False.
Proof.
  unfold nlfree. intros Hb E. subst b. rewrite existsb_app in Hb. simpl in Hb.
  rewrite orb_true_r in Hb. discriminate.
Qed.

(* a valid raw line either is a ++ [LF] with a LF-free, or is LF-free itself *)
Lemma raw_ok_cases r : raw_ok r = true ->
  (ends_nl r = true /\ exists a, r = a ++ [10] /\ nlfree a) \/ (ends_nl r = false /\ nlfree r /\ r <> []).
Proof.
  unfold raw_ok. intros H. apply andb_true_iff in H as [Hn Hf].
  apply negb_true_iff in Hf. destruct (list_snoc_cases r) as [->|[a [c ->]]]; [discriminate|].
  rewrite removelast_snoc in Hf. unfold ends_nl. rewrite last_snoc.
  destruct (is_nl c) eqn:Ec.
  - left. split; [reflexivity|]. exists a. apply N.eqb_eq in Ec. subst c. split; [reflexivity|exact Hf].
  - right. split; [reflexivity|]. split; [|destruct a; discriminate].
    unfold nlfree. rewrite existsb_app, Hf. simpl. rewrite Ec. reflexivity.
Qed.

Lemma all_but_last_tail p (r : str) t : all_but_last p (r :: t) = true -> all_but_last p t = true.
Proof. destruct t as [|r' t]; [reflexivity|]. cbn [all_but_last]. intros H. apply andb_true_iff in H. tauto. Qed.

Lemma all_but_last_head p (r r' : str) t : all_but_last p (r :: r' :: t) = true -> p r = true.
Proof. cbn [all_but_last]. intros H. apply andb_true_iff in H. tauto. Qed.

Definition valid_raws (L : list str) : Prop :=
  forallb raw_ok L = true /\ all_but_last ends_nl L = true.

Lemma valid_raws_tail r t : valid_raws (r :: t) -> valid_raws t.
Proof.
  intros [H1 H2]. simpl in H1. apply andb_true_iff in H1 as [_ H1].
  split; [exact H1|exact (all_but_last_tail _ _ _ H2)].
Qed.

Lemma valid_raws_concat_nil L : valid_raws L -> concat L = [] -> L = [].
Proof.
  destruct L as [|r t]; [reflexivity|]. intros [H _] E. simpl in H, E.
  apply andb_true_iff in H as [H _]. destruct r; [discriminate|discriminate].
Qed.

Theorem valid_raws_unique L1 : forall L2,
  valid_raws L1 -> valid_raws L2 -> concat L1 = concat L2 -> L1 = L2.
Proof.
  induction L1 as [|r1 t1 IH]; intros L2 V1 V2 E.
  - symmetry. apply valid_raws_concat_nil; [exact V2|symmetry; exact E].
  - destruct L2 as [|r2 t2]; [apply valid_raws_concat_nil; assumption|].
    assert (R1 : raw_ok r1 = true) by (destruct V1 as [H _]; simpl in H; apply andb_true_iff in H; tauto).
    assert (R2 : raw_ok r2 = true) by (destruct V2 as [H _]; simpl in H; apply andb_true_iff in H; tauto).
    simpl in E.
    destruct (raw_ok_cases _ R1) as [[E1 [a [-> Ha]]]|[E1 [F1 N1]]];
    destruct (raw_ok_cases _ R2) as [[E2 [b [-> Hb]]]|[E2 [F2 N2]]].
    + rewrite <- !app_assoc in E. simpl in E. destruct (nl_split_unique _ _ _ _ Ha Hb E) as [-> E'].
      f_equal. apply IH; [exact (valid_raws_tail _ _ V1)|exact (valid_raws_tail _ _ V2)|exact E'].
    + exfalso. destruct t2 as [|r' t2].
      * simpl in E. rewrite app_nil_r in E. rewrite <- app_assoc in E. simpl in E.
        exact (nl_not_in_nlfree _ _ _ F2 E).
      * destruct V2 as [_ V2]. rewrite (all_but_last_head _ _ _ _ V2) in E2. discriminate.
    + exfalso. destruct t1 as [|r' t1].
      * simpl in E. rewrite app_nil_r in E. rewrite <- app_assoc in E. simpl in E. symmetry in E.
        exact (nl_not_in_nlfree _ _ _ F1 E).
      * destruct V1 as [_ V1]. rewrite (all_but_last_head _ _ _ _ V1) in E1. discriminate.
    + destruct t1 as [|r' t1]; [|destruct V1 as [_ V1]; rewrite (all_but_last_head _ _ _ _ V1) in E1; discriminate].
      destruct t2 as [|r'' t2]; [|destruct V2 as [_ V2]; rewrite (all_but_last_head _ _ _ _ V2) in E2; discriminate].
      simpl in E. rewrite !app_nil_r in E. subst. reflexivity.
Qed.

(* ---- the grouping is determined by the physical lines ---------------------- *)

Lemma group_unique g1 : forall g2 c1 c2,
  group_ok (ends_here c1) g1 = true -> group_ok (ends_here c2) g2 = true ->
  g1 ++ c1 = g2 ++ c2 -> g1 = g2 /\ c1 = c2.
Proof.
  induction g1 as [|r g1 IH]; intros g2 c1 c2 H1 H2 E; [discriminate|].
  destruct g2 as [|r' g2]; [discriminate|]. simpl in E. inversion E; subst r'. clear E.
  cbn [group_ok] in H1, H2.
  destruct g1 as [|x g1]; destruct g2 as [|y g2].
  - simpl in H3. subst. split; reflexivity.
  - exfalso. apply andb_true_iff in H2 as [C _]. rewrite C in H1. simpl in H1.
    simpl in H3. subst c1. discriminate.
  - exfalso. apply andb_true_iff in H1 as [C _]. rewrite C in H2. simpl in H2.
    simpl in H3. subst c2. discriminate.
  - apply andb_true_iff in H1 as [_ H1]. apply andb_true_iff in H2 as [_ H2].
    destruct (IH (y :: g2) c1 c2 H1 H2 H3) as [-> ->]. split; reflexivity.
Qed.

Lemma grouping_mk_unique O1 : forall O2,
  grouping_mk O1 = true -> grouping_mk O2 = true ->
  all_raws O1 = all_raws O2 -> map o_raws O1 = map o_raws O2.
Proof.
  unfold all_raws. induction O1 as [|l1 O1 IH]; intros O2 G1 G2 E.
  - destruct O2 as [|l2 O2]; [reflexivity|]. cbn [grouping_mk] in G2. apply andb_true_iff in G2 as [G2 _].
    apply group_ok_nonempty in G2. simpl in E. destruct (o_raws l2); [congruence|discriminate].
  - destruct O2 as [|l2 O2].
    + cbn [grouping_mk] in G1. apply andb_true_iff in G1 as [G1 _].
      apply group_ok_nonempty in G1. simpl in E. destruct (o_raws l1); [congruence|discriminate].
    + cbn [grouping_mk] in G1, G2. apply andb_true_iff in G1 as [A1 B1]. apply andb_true_iff in G2 as [A2 B2].
      simpl in E.
      assert (F1 : (match O1 with [] => true | _ => false end) = ends_here (flat_map o_raws O1)).
      { destruct O1 as [|x O1]; [reflexivity|]. cbn [grouping_mk] in B1. apply andb_true_iff in B1 as [B1 _].
        apply group_ok_nonempty in B1. simpl. destruct (o_raws x); [congruence|reflexivity]. }
      assert (F2 : (match O2 with [] => true | _ => false end) = ends_here (flat_map o_raws O2)).
      { destruct O2 as [|x O2]; [reflexivity|]. cbn [grouping_mk] in B2. apply andb_true_iff in B2 as [B2 _].
        apply group_ok_nonempty in B2. simpl. destruct (o_raws x); [congruence|reflexivity]. }
      rewrite F1 in A1. rewrite F2 in A2.
      destruct (group_unique _ _ _ _ A1 A2 E) as [Eg Ec].
      simpl. rewrite Eg. f_equal. apply IH; assumption.
Qed.

Lemma grouping_plain_unique O1 : forall O2,
  grouping_plain O1 = true -> grouping_plain O2 = true ->
  all_raws O1 = all_raws O2 -> map o_raws O1 = map o_raws O2.
Proof.
  unfold all_raws, grouping_plain. induction O1 as [|l1 O1 IH]; intros O2 G1 G2 E.
  - destruct O2 as [|l2 O2]; [reflexivity|]. simpl in G2, E. apply andb_true_iff in G2 as [G2 _].
    destruct (o_raws l2); discriminate.
  - simpl in G1. apply andb_true_iff in G1 as [A1 B1].
    destruct (o_raws l1) as [|r1 [|? ?]] eqn:R1; try discriminate.
    destruct O2 as [|l2 O2]; [simpl in E; rewrite R1 in E; discriminate|].
    simpl in G2. apply andb_true_iff in G2 as [A2 B2].
    destruct (o_raws l2) as [|r2 [|? ?]] eqn:R2; try discriminate.
    simpl in E. rewrite R1, R2 in E. simpl in E. inversion E; subst.
    simpl. rewrite R1, R2. f_equal. apply IH; assumption.
Qed.

(* ---- numbers and texts are determined by the grouping ----------------------- *)

Lemma lines_determined mk O1 : forall O2 k,
  map o_raws O1 = map o_raws O2 ->
  numbering_from k O1 = true -> numbering_from k O2 = true ->
  grouping_ok mk O1 = true ->
  text_ok mk O1 = true -> text_ok mk O2 = true -> O1 = O2.
Proof.
  unfold text_ok. induction O1 as [|l1 O1 IH]; intros O2 k E N1 N2 G T1 T2.
  - destruct O2; [reflexivity|discriminate].
  - destruct O2 as [|l2 O2]; [discriminate|]. simpl in E. inversion E as [[Er Et]].
    cbn [numbering_from] in N1, N2. apply andb_true_iff in N1 as [A1 B1]. apply andb_true_iff in N2 as [A2 B2].
    cbn [forallb] in T1, T2. apply andb_true_iff in T1 as [C1 D1]. apply andb_true_iff in T2 as [C2 D2].
    apply N.eqb_eq in A1, A2. apply str_eqb_spec in C1, C2.
    assert (G' : grouping_ok mk O1 = true /\ (mk = false -> exists r, o_raws l1 = [r])).
    { destruct mk; simpl in G.
      - apply andb_true_iff in G as [_ G]. split; [exact G|discriminate].
      - unfold grouping_plain in G. cbn [forallb] in G. apply andb_true_iff in G as [G0 G]. split; [exact G|].
        intros _. destruct (o_raws l1) as [|r [|? ?]]; try discriminate. eauto. }
    destruct G' as [G' Gp].
    assert (El : l1 = l2).
    { destruct l1 as [[n1 t1] r1], l2 as [[n2 t2] r2]. unfold o_lineno, o_text, o_raws in *. simpl in *.
      subst r2. assert (En : n1 = n2) by congruence.
      assert (Ett : t1 = t2).
      { destruct mk; [congruence|]. destruct (Gp eq_refl) as [r Hr]. subst r1. congruence. }
      congruence. }
    subst l2. f_equal. apply (IH O2 _ Et B1 B2 G' D1 D2).
Qed.

(* ---- completeness ----------------------------------------------------------- *)

Theorem spec_complete s mk ls e O :
  convert_to_logical_lines s mk = Ok (ls, e) -> spec_holds mk s O = true -> O = map obs ls.
Proof.
  intros Hc HO. assert (HM := model_meets_spec _ _ _ _ Hc).
  unfold spec_holds, spec_check in HO, HM. cbn [forallb] in HO, HM.
  repeat (apply andb_true_iff in HO as [? HO]). repeat (apply andb_true_iff in HM as [? HM]).
  rename H into P1, H0 into S1, H1 into N1, H2 into G1, H3 into T1.
  rename H4 into P2, H5 into S2, H6 into N2, H7 into G2, H8 into T2.
  unfold partition_ok in P1, P2. apply str_eqb_spec in P1, P2.
  unfold raws_shape_ok in S1, S2. apply andb_true_iff in S1, S2.
  assert (R : all_raws O = all_raws (map obs ls)).
  { apply valid_raws_unique; [exact S1|exact S2|congruence]. }
  assert (Rm : map o_raws O = map o_raws (map obs ls)).
  { destruct mk; simpl in G1, G2; [apply grouping_mk_unique|apply grouping_plain_unique]; assumption. }
  apply (lines_determined mk O (map obs ls) 1 Rm N1 N2 G1 T1 T2).
Qed.
