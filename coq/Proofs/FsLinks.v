(* C05/C02 with symbolic links (Model/FsLinks.v): what a run may change.

   touched s o = the entry names the system call o can change in state s, after link
   resolution.  One frame lemma per system call, one for sys_l under every plan (no fault,
   a failing call, every crash point with a partial write), then one per program action,
   then induction over the program. *)
From PV Require Import Lib.Bytes Model.FsProto Model.FsLinks Proofs.FsProto.
Import ListNotations.
Open Scope N_scope.

Lemma path_dec (p q : path) : {p = q} + {p <> q}.
Proof. apply (list_eq_dec N.eq_dec). Qed.

(* ---------- names a call can change ---------- *)

Definition tgt (p : path) (m : fsmap) : list path :=
  match resolve link_fuel p m with RFound q _ => [q] | RDangling q => [q] | RLoop => [] end.

Definition touched (s : state) (o : op) : list path :=
  match o with
  | Open _ p _ => tgt p (st_fs s)
  | OpenExcl _ p _ => [p]
  | Write fd _ => match fd_lookup fd (st_fds s) with Some (Some p) => [p] | _ => [] end
  | Close _ => []
  | Rename a b => [a; b]
  | Chmod p _ => tgt p (st_fs s)
  | Unlink p => [p]
  end.

(* p is not a symbolic link (it may be absent) *)
Definition nolink (p : path) (m : fsmap) : Prop :=
  forall f, lookup p m = Some f -> f_kind f <> KSymlink.

Lemma resolve_nolink n p m : nolink p m ->
  match resolve n p m with RFound q _ => q = p | RDangling q => q = p | RLoop => False end.
Proof.
  intro H. destruct n; cbn [resolve]; (destruct (lookup p m) as [f|] eqn:L; [|reflexivity]);
    specialize (H f L); destruct (f_kind f); try reflexivity; congruence.
Qed.

Lemma resolve_nonlink n p m f : lookup p m = Some f -> f_kind f <> KSymlink -> resolve n p m = RFound p f.
Proof.
  intros L K. destruct n; cbn [resolve]; rewrite L; destruct (f_kind f); try reflexivity; congruence.
Qed.

Lemma tgt_nolink p m : nolink p m -> tgt p m = [p].
Proof.
  intro H. unfold tgt. pose proof (resolve_nolink link_fuel p m H) as R.
  destruct (resolve link_fuel p m); subst; try reflexivity. destruct R.
Qed.

(* ---------- one system call ---------- *)

Lemma not_in_1 (q p : path) : ~ In q [p] -> q <> p.
Proof. intros H E. apply H. left. congruence. Qed.

Lemma lstep_frame s o q : ~ In q (touched s o) ->
  lookup q (st_fs (fst (lstep s o))) = lookup q (st_fs s).
Proof.
  destruct o as [fd p perm|fd p perm|fd d|fd|a b|p mode|p]; cbn [lstep step touched]; intro H.
  - unfold tgt in H. destruct (resolve link_fuel p (st_fs s)) as [r f|r|]; cbn [fst st_fs]; try reflexivity;
      apply lookup_set_neq; apply not_in_1; exact H.
  - destruct (lookup p (st_fs s)); cbn [fst st_fs]; [reflexivity|].
    apply lookup_set_neq; apply not_in_1; exact H.
  - destruct (fd_lookup fd (st_fds s)) as [[p|]|]; try reflexivity.
    destruct (lookup p (st_fs s)); cbn [fst st_fs]; [|reflexivity].
    apply lookup_set_neq; apply not_in_1; exact H.
  - destruct (fd_lookup fd (st_fds s)); reflexivity.
  - destruct (lookup a (st_fs s)); [|reflexivity]. destruct (str_eqb a b); [reflexivity|].
    cbn [fst st_fs]. rewrite lookup_set_neq, lookup_remove_neq; [reflexivity| |];
      intro E; apply H; subst; cbn; auto.
  - unfold tgt in H. destruct (resolve link_fuel p (st_fs s)) as [r f|r|]; cbn [fst st_fs]; try reflexivity;
      apply lookup_set_neq; apply not_in_1; exact H.
  - destruct (lookup p (st_fs s)); cbn [fst st_fs]; [|reflexivity].
    apply lookup_remove_neq; apply not_in_1; exact H.
Qed.

(* every effect a call can have on the state under any plan: none (a failed call, a
   killed process), the call itself, or -- for a write -- the write of other bytes
   (a prefix) through the same descriptor *)
Definition eff (s : state) (o : op) (s' : state) : Prop :=
  s' = s \/ s' = fst (lstep s o) \/
  exists fd d d', o = Write fd d /\ s' = fst (lstep s (Write fd d')).

Lemma eff_frame s o s' q : eff s o s' -> ~ In q (touched s o) ->
  lookup q (st_fs s') = lookup q (st_fs s).
Proof.
  intros [->|[->|(fd & d & d' & -> & ->)]] H; [reflexivity|apply lstep_frame; exact H|].
  apply lstep_frame. exact H.
Qed.

Lemma normal_st w o :
  lw_st (fst (let (s', r) := lstep (lw_st w) o in lw_next w o s' r)) = fst (lstep (lw_st w) o).
Proof. destruct (lstep (lw_st w) o); reflexivity. Qed.

Lemma step_fault_eff s o fl : eff s o (step_fault s o fl).
Proof.
  destruct o; cbn [step_fault]; try (left; reflexivity).
  - right; right. exists fd, data, (firstn (fl_short fl) data). split; reflexivity.
  - right; left. reflexivity.
Qed.

Lemma sys_l_eff o w : eff (lw_st w) o (lw_st (fst (sys_l o w))).
Proof.
  unfold sys_l. cbv zeta. destruct (lw_plan w) as [|k fl|k n].
  - rewrite normal_st. right; left; reflexivity.
  - destruct (Nat.eqb k (lw_count w)).
    + cbn [lw_next fst lw_st]. apply step_fault_eff.
    + rewrite normal_st. right; left; reflexivity.
  - destruct (Nat.ltb (lw_count w) k); [rewrite normal_st; right; left; reflexivity|].
    destruct (Nat.eqb (lw_count w) k); [|left; reflexivity].
    destruct o; cbn [lw_next fst lw_st]; try (left; reflexivity).
    right; right. exists fd, data, (firstn n data). split; reflexivity.
Qed.

Lemma sys_l_frame o w q : ~ In q (touched (lw_st w) o) ->
  lookup q (st_fs (lw_st (fst (sys_l o w)))) = lookup q (st_fs (lw_st w)).
Proof. apply eff_frame. apply sys_l_eff. Qed.

Lemma sys_l_plan o w : lw_plan (fst (sys_l o w)) = lw_plan w.
Proof.
  destruct w as [st c pl tr se sv]. unfold sys_l, lw_next. cbv zeta. cbn [lw_st lw_plan lw_count].
  destruct (lstep st o) as [s' r].
  destruct pl as [|k fl|k n]; [reflexivity| |].
  - destruct (Nat.eqb k c); reflexivity.
  - destruct (Nat.ltb c k); [reflexivity|].
    destruct (Nat.eqb c k); [|reflexivity]. destruct o; reflexivity.
Qed.

(* a call that reports success has been performed: a failing call and every call at or
   after the crash point report an error *)
Lemma sys_l_none_normal o w w1 : sys_l o w = (w1, None) -> lstep (lw_st w) o = (lw_st w1, None).
Proof.
  unfold sys_l. cbv zeta. destruct (lstep (lw_st w) o) as [s' r].
  assert (N : lw_next w o s' r = (w1, None) -> (s', r) = (lw_st w1, None)).
  { unfold lw_next. intro H. inversion H; subst. reflexivity. }
  destruct (lw_plan w) as [|k fl|k n]; [exact N| |].
  - destruct (Nat.eqb k (lw_count w)); [|exact N]. unfold lw_next. intro H. inversion H.
  - destruct (Nat.ltb (lw_count w) k); [exact N|].
    destruct (Nat.eqb (lw_count w) k); [destruct o|]; unfold lw_next; intro H; inversion H.
Qed.

Lemma openexcl_ok s fd p perm s1 : lstep s (OpenExcl fd p perm) = (s1, None) ->
  fd_lookup fd (st_fds s1) = Some (Some p) /\
  lookup p (st_fs s1) = Some (mkfile KReg [] (N.ldiff perm (st_umask s))).
Proof.
  cbn [lstep step]. destruct (lookup p (st_fs s)); intro H; inversion H; subst. cbn [st_fds st_fs].
  split; [apply fd_lookup_set_eq|apply lookup_set_eq].
Qed.

Lemma write_nolink s fd d p : nolink p (st_fs s) -> nolink p (st_fs (fst (lstep s (Write fd d)))).
Proof.
  intro H. cbn [lstep step]. destruct (fd_lookup fd (st_fds s)) as [[p0|]|]; try exact H.
  destruct (lookup p0 (st_fs s)) as [f0|] eqn:L; try exact H. cbn [fst st_fs].
  intros f Hf. destruct (path_dec p p0) as [E|Hne].
  - subst p0. rewrite lookup_set_eq in Hf. inversion Hf; subst f. cbn [f_kind]. apply (H f0 L).
  - rewrite lookup_set_neq in Hf by exact Hne. apply (H f Hf).
Qed.

Lemma eff_write_nolink s fd d s' p : eff s (Write fd d) s' -> nolink p (st_fs s) -> nolink p (st_fs s').
Proof.
  intros [->|[->|(fd' & d0 & d' & E & ->)]] H; [exact H|apply write_nolink; exact H|].
  apply write_nolink. exact H.
Qed.

Lemma eff_close_fs s fd s' : eff s (Close fd) s' -> st_fs s' = st_fs s.
Proof.
  intros [->|[->|(fd' & d0 & d' & E & _)]]; [reflexivity| |discriminate].
  cbn [lstep step]. destruct (fd_lookup fd (st_fds s)); reflexivity.
Qed.

(* ---------- one save ---------- *)

Lemma save_one_l_frame w f new q : q <> f -> q <> tmp_name f ->
  lookup q (st_fs (lw_st (save_one_l f new w))) = lookup q (st_fs (lw_st w)).
Proof.
  intros Hf Ht. unfold save_one_l. cbv zeta.
  destruct (sys_l (OpenExcl 0 (tmp_name f) 438) (set_saved_l false w)) as [w1 r1] eqn:E1.
  assert (F1 : lookup q (st_fs (lw_st w1)) = lookup q (st_fs (lw_st w))).
  { change w1 with (fst (w1, r1)). rewrite <- E1. rewrite sys_l_frame; [reflexivity|].
    cbn [touched]. intros [H|[]]. congruence. }
  destruct r1 as [e|]; [exact F1|].
  apply sys_l_none_normal in E1. apply openexcl_ok in E1. destruct E1 as [Hfd Hl].
  destruct (sys_l (Write 0 new) w1) as [w2 err] eqn:E2.
  assert (F2 : lookup q (st_fs (lw_st w2)) = lookup q (st_fs (lw_st w1))).
  { change w2 with (fst (w2, err)). rewrite <- E2. apply sys_l_frame.
    cbn [touched]. rewrite Hfd. intros [H|[]]. congruence. }
  assert (N2 : nolink (tmp_name f) (st_fs (lw_st w2))).
  { change w2 with (fst (w2, err)). rewrite <- E2.
    apply (eff_write_nolink _ _ _ _ _ (sys_l_eff _ _)).
    intros g Hg. rewrite Hl in Hg. inversion Hg. cbn. discriminate. }
  destruct (sys_l (Close 0) w2) as [w3 err1] eqn:E3.
  assert (F3 : st_fs (lw_st w3) = st_fs (lw_st w2)).
  { change w3 with (fst (w3, err1)). rewrite <- E3. apply (eff_close_fs _ 0). apply sys_l_eff. }
  set (err' := match err with Some e => Some e | None => err1 end). clearbody err'.
  match goal with |- context [match ?x with _ => _ end] =>
    match type of x with (lworld * option errno)%type => destruct x as [w4 err''] eqn:E4 end end.
  assert (F4 : lookup q (st_fs (lw_st w4)) = lookup q (st_fs (lw_st w3))).
  { destruct err' as [e|]; [inversion E4; reflexivity|].
    destruct (stat_follow f (st_fs (lw_st w3))) as [old|]; [|inversion E4; reflexivity].
    change w4 with (fst (w4, err'')). rewrite <- E4. apply sys_l_frame.
    cbn [touched]. rewrite F3, (tgt_nolink _ _ N2). intros [H|[]]. congruence. }
  assert (F : lookup q (st_fs (lw_st w4)) = lookup q (st_fs (lw_st w))) by congruence.
  assert (U : forall k wx, lookup q (st_fs (lw_st wx)) = lookup q (st_fs (lw_st w)) ->
    lookup q (st_fs (lw_st (fst (sys_l (Unlink (tmp_name f)) (tech_error_l k (tmp_name f) wx))))) =
    lookup q (st_fs (lw_st w))).
  { intros k wx Hx. rewrite sys_l_frame; [exact Hx|]. cbn [touched]. intros [H|[]]. congruence. }
  destruct err'' as [e|]; [apply U; exact F|].
  destruct (sys_l (Rename (tmp_name f) f) w4) as [w5 r5] eqn:E5.
  assert (F5 : lookup q (st_fs (lw_st w5)) = lookup q (st_fs (lw_st w4))).
  { change w5 with (fst (w5, r5)). rewrite <- E5. apply sys_l_frame.
    cbn [touched]. intros [H|[H|[]]]; congruence. }
  destruct r5 as [e|]; [apply U; congruence|]. cbn [set_saved_l lw_st]. congruence.
Qed.

(* ---------- the mode fix ---------- *)

Lemma tech_error_l_st k loc w : lw_st (tech_error_l k loc w) = lw_st w.
Proof. reflexivity. Qed.

Lemma set_saved_l_st b w : lw_st (set_saved_l b w) = lw_st w.
Proof. reflexivity. Qed.

Lemma chmod_fix_l_st f mode w : lw_st (chmod_fix_l f mode w) = lw_st (fst (sys_l (Chmod f (N.ldiff mode 73)) w)).
Proof. unfold chmod_fix_l. destruct (sys_l (Chmod f (N.ldiff mode 73)) w) as [w1 [e|]]; reflexivity. Qed.

(* Lstat: the Chmod is only issued for an entry that is a regular file itself, so it
   changes that entry and no other *)
Lemma check_exec_l_frame w f q : q <> f ->
  lookup q (st_fs (lw_st (check_exec_l f w))) = lookup q (st_fs (lw_st w)).
Proof.
  intro Hf. unfold check_exec_l, check_exec_with.
  destruct (lookup f (st_fs (lw_st w))) as [e|] eqn:L; [|reflexivity].
  destruct (f_kind e) eqn:K; try reflexivity.
  destruct (N.land (f_mode e) 73 =? 0); [reflexivity|].
  rewrite chmod_fix_l_st. apply sys_l_frame. cbn [touched]. rewrite tgt_nolink.
  - intros [H|[]]. congruence.
  - intros g Hg. rewrite L in Hg. inversion Hg; subst g. rewrite K. discriminate.
Qed.

(* ---------- the whole run ---------- *)

Lemma l_named_tail a prog q : l_named prog q -> l_named (a :: prog) q.
Proof. unfold l_named. destruct a; cbn [l_saved_paths l_exec_paths map In]; tauto. Qed.

Lemma l_named_save f new prog : l_named (LSave f new :: prog) f /\ l_named (LSave f new :: prog) (tmp_name f).
Proof. unfold l_named. cbn [l_saved_paths l_exec_paths map In]. tauto. Qed.

Lemma l_named_ifsaved b f new prog :
  l_named (LIfSaved b f new :: prog) f /\ l_named (LIfSaved b f new :: prog) (tmp_name f).
Proof. unfold l_named. cbn [l_saved_paths l_exec_paths map In]. tauto. Qed.

Lemma l_named_exec f prog : l_named (LCheckExec f :: prog) f.
Proof. unfold l_named. cbn [l_saved_paths l_exec_paths map In]. tauto. Qed.

Lemma lrun_action_frame a prog w q : ~ l_named (a :: prog) q ->
  lookup q (st_fs (lw_st (lrun_action w a))) = lookup q (st_fs (lw_st w)).
Proof.
  intro H. destruct a as [f new|f|b f new]; cbn [lrun_action].
  - apply save_one_l_frame; intro E; subst q; apply H; apply l_named_save.
  - apply check_exec_l_frame; intro E; subst q; apply H; apply l_named_exec.
  - destruct (Bool.eqb (lw_saved w) b); [|reflexivity].
    apply save_one_l_frame; intro E; subst q; apply H; apply l_named_ifsaved.
Qed.

Lemma lrun_frame prog : forall w q, ~ l_named prog q ->
  lookup q (st_fs (lw_st (lrun prog w))) = lookup q (st_fs (lw_st w)).
Proof.
  induction prog as [|a prog IH]; intros w q H; [reflexivity|].
  change (lrun (a :: prog) w) with (lrun prog (lrun_action w a)).
  rewrite IH.
  - apply (lrun_action_frame a prog). exact H.
  - intro N. apply H. apply l_named_tail. exact N.
Qed.

(* 1. FRAME: an entry the run does not name is never changed -- for every initial state,
   program, fault and crash point (also in the middle of a write) *)
Theorem links_unnamed_untouched : forall (s : state) (prog : list laction) (plan : lplan) (q : path),
  ~ l_named prog q ->
  lookup q (st_fs (lw_st (lrun prog (init_lworld s plan)))) = lookup q (st_fs s).
Proof. intros s prog plan q H. apply (lrun_frame prog (init_lworld s plan) q H). Qed.

(* 2. the target of a link -- content, mode, kind -- is never modified, also when the link
   itself is saved or given on the command line *)
Theorem symlink_target_untouched : forall (s : state) (prog : list laction) (plan : lplan) (F : path) (l : file),
  lookup F (st_fs s) = Some l -> f_kind l = KSymlink -> ~ l_named prog (f_data l) ->
  lookup (f_data l) (st_fs (lw_st (lrun prog (init_lworld s plan)))) = lookup (f_data l) (st_fs s).
Proof. intros s prog plan F l _ _ H. apply links_unnamed_untouched. exact H. Qed.

(* every entry name on the chain of links that starts at F *)
Fixpoint chain (fuel : nat) (p : path) (m : fsmap) : list path :=
  p :: match lookup p m with
       | Some f => match f_kind f, fuel with
                   | KSymlink, S n => chain n (f_data f) m
                   | _, _ => []
                   end
       | None => []
       end.

Lemma resolve_in_chain n : forall p m, 
  match resolve n p m with RFound q _ => In q (chain n p m) | RDangling q => In q (chain n p m) | RLoop => True end.
Proof.
  induction n as [|n IH]; intros p m; cbn [resolve chain];
    (destruct (lookup p m) as [f|]; [|left; reflexivity]); destruct (f_kind f); try (left; reflexivity).
  - exact I.
  - specialize (IH (f_data f) m). destruct (resolve n (f_data f) m); try exact I; right; exact IH.
Qed.

Theorem symlink_chain_untouched : forall (s : state) (prog : list laction) (plan : lplan) (F : path) (n : nat) (q : path),
  In q (chain n F (st_fs s)) -> ~ l_named prog q ->
  lookup q (st_fs (lw_st (lrun prog (init_lworld s plan)))) = lookup q (st_fs s).
Proof. intros s prog plan F n q _ H. apply links_unnamed_untouched. exact H. Qed.

(* per action, in a world that is in any condition (any plan, any earlier calls) *)
Theorem lstat_argument_frame : forall (s : state) (f : path) (plan : lplan) (q : path), q <> f ->
  lookup q (st_fs (lw_st (check_exec_l f (init_lworld s plan)))) = lookup q (st_fs s).
Proof. intros s f plan q H. apply (check_exec_l_frame (init_lworld s plan) f q H). Qed.

(* ---------- l_namedb decides l_named ---------- *)

Lemma existsb_str_iff p l : existsb (str_eqb p) l = true <-> In p l.
Proof.
  rewrite existsb_exists. split.
  - intros [x [Hx E]]. apply str_eqb_spec in E. subst. exact Hx.
  - intro H. exists p. split; [exact H|apply str_eqb_refl].
Qed.

Lemma l_namedb_spec prog q : l_namedb prog q = true <-> l_named prog q.
Proof.
  unfold l_namedb, l_named. rewrite !Bool.orb_true_iff, !existsb_str_iff. tauto.
Qed.

(* 6. contrapositive: an entry that differs from the initial one is named by the run *)
Theorem link_changed_entry_is_named : forall (s : state) (prog : list laction) (plan : lplan) (q : path),
  lookup q (st_fs (lw_st (lrun prog (init_lworld s plan)))) <> lookup q (st_fs s) -> l_named prog q.
Proof.
  intros s prog plan q H. destruct (l_namedb prog q) eqn:E; [apply l_namedb_spec; exact E|].
  exfalso. apply H. apply links_unnamed_untouched. intro N. apply l_namedb_spec in N. congruence.
Qed.

(* ---------- 3. the judge for snapshots of real runs ---------- *)

Lemma l_unnamed_changed_in_none entries init prog cur :
  l_unnamed_changed_in entries init prog cur = None ->
  forall p g, In (p, g) entries -> ~ l_named prog p -> lookup p cur = lookup p init.
Proof.
  induction entries as [|[q h] entries IH]; intros H p g Hin Hn; [destruct Hin|].
  cbn [l_unnamed_changed_in] in H.
  match type of H with (if ?c then _ else _) = _ => destruct c eqn:Eok; [|discriminate] end.
  destruct Hin as [Heq|Hin]; [|apply (IH H p g Hin Hn)].
  inversion Heq; subst q h.
  apply Bool.orb_true_iff in Eok. destruct Eok as [E|E]; [exfalso; apply Hn; apply l_namedb_spec; exact E|].
  destruct (lookup p init) as [[k1 d1 m1]|], (lookup p cur) as [[k2 d2 m2]|]; try discriminate; [|reflexivity].
  cbn [f_kind f_data f_mode] in E.
  destruct k1, k2; try discriminate; apply andb_prop in E; destruct E as [E1 E2];
    apply str_eqb_spec in E1; apply N.eqb_eq in E2; subst; reflexivity.
Qed.

Theorem l_unnamed_changed_sound : forall (init : fsmap) (prog : list laction) (cur : fsmap),
  l_unnamed_changed init prog cur = None ->
  forall q, ~ l_named prog q -> lookup q cur = lookup q init.
Proof.
  intros init prog cur H q Hn. unfold l_unnamed_changed in H.
  destruct (l_unnamed_changed_in init init prog cur) eqn:E1; [discriminate|].
  destruct (lookup q init) as [f0|] eqn:Li.
  - destruct (lookup_in q f0 init Li) as [g Hg]. rewrite <- Li.
    apply (l_unnamed_changed_in_none init init prog cur E1 q g Hg Hn).
  - destruct (lookup q cur) as [f1|] eqn:Lc; [|reflexivity].
    destruct (lookup_in q f1 cur Lc) as [g Hg]. rewrite <- Lc, <- Li.
    apply (l_unnamed_changed_in_none cur init prog cur H q g Hg Hn).
Qed.

(* ---------- 4. the variants that are not the code ---------- *)

Definition lx_L : path := [76].          (* "L" *)
Definition lx_T : path := [84].          (* "T" *)
Definition lx_old : str := [111; 108; 100].
Definition lx_new : str := [110; 101; 119].
Definition lx_state : state :=
  mkstate [(lx_L, mkfile KSymlink lx_T 511); (lx_T, mkfile KReg lx_old 420)] [] 18.
Definition lx_state_x : state :=
  mkstate [(lx_L, mkfile KSymlink lx_T 511); (lx_T, mkfile KReg lx_old 493)] [] 18.

(* writing in place through the link: killed after the open, the link's target -- an entry
   the run does not name -- is an empty file *)
Theorem write_through_link_refuted :
  ~ (forall (s : state) (f : path) (new : str) (plan : lplan) (q : path), q <> f -> q <> tmp_name f ->
       lookup q (st_fs (lw_st (save_through_link f new (init_lworld s plan)))) = lookup q (st_fs s)).
Proof.
  intro H. specialize (H lx_state lx_L lx_new (PKill 1 0) lx_T).
  assert (A : lx_T <> lx_L) by (vm_compute; discriminate).
  assert (B : lx_T <> tmp_name lx_L) by (vm_compute; discriminate).
  specialize (H A B). vm_compute in H. discriminate H.
Qed.

(* Stat instead of Lstat on the argument: the link's target is chmod-ed *)
Theorem stat_argument_refuted :
  ~ (forall (s : state) (f : path) (plan : lplan) (q : path), q <> f ->
       lookup q (st_fs (lw_st (check_exec_stat f (init_lworld s plan)))) = lookup q (st_fs s)).
Proof.
  intro H. specialize (H lx_state_x lx_L PNone lx_T).
  assert (A : lx_T <> lx_L) by (vm_compute; discriminate).
  specialize (H A). vm_compute in H. discriminate H.
Qed.

(* ---------- 5. what the save does to a link that is saved (no fault) ---------- *)

Lemma sys_l_pnone o w s' r : lw_plan w = PNone -> lstep (lw_st w) o = (s', r) ->
  sys_l o w = (mklw s' (S (lw_count w)) PNone (lw_trace w ++ [(o, r)]) (lw_stderr w) (lw_saved w), r).
Proof. intros P E. unfold sys_l. cbv zeta. rewrite P, E. unfold lw_next. rewrite P. reflexivity. Qed.

Lemma resolve_link_step n p m l : lookup p m = Some l -> f_kind l = KSymlink ->
  resolve (S n) p m = resolve n (f_data l) m.
Proof. intros L K. cbn [resolve]. rewrite L, K. reflexivity. Qed.

Theorem save_replaces_link : forall (s : state) (F T : path) (l t : file) (new : str),
  lookup F (st_fs s) = Some l -> f_kind l = KSymlink -> f_data l = T ->
  lookup T (st_fs s) = Some t -> f_kind t = KReg ->
  lookup (tmp_name F) (st_fs s) = None -> F <> T -> tmp_name F <> T ->
  let w := save_one_l F new (init_lworld s PNone) in
  lookup F (st_fs (lw_st w)) = Some (mkfile KReg new (f_mode t)) /\
  lookup T (st_fs (lw_st w)) = Some t /\
  lookup (tmp_name F) (st_fs (lw_st w)) = None /\
  lw_stderr w = [] /\ lw_saved w = true.
Proof.
  intros s F T l t new HF Kl Dl HT Kt Htmp NFT NtT.
  pose proof (tmp_name_neq F) as NtF.
  set (tmp := tmp_name F) in *. set (fs := st_fs s) in *.
  set (m0 := N.ldiff 438 (st_umask s)).
  set (fs1 := set tmp (mkfile KReg [] m0) fs).
  set (fs2 := set tmp (mkfile KReg new m0) fs1).
  set (fs4 := set tmp (mkfile KReg new (f_mode t)) fs2).
  set (fds1 := fd_set 0 (Some tmp) (st_fds s)).
  set (s1 := mkstate fs1 fds1 (st_umask s)).
  set (s2 := mkstate fs2 fds1 (st_umask s)).
  set (s3 := mkstate fs2 (fd_remove 0 fds1) (st_umask s)).
  set (s4 := mkstate fs4 (fd_remove 0 fds1) (st_umask s)).
  set (s5 := mkstate (set F (mkfile KReg new (f_mode t)) (remove tmp fs4))
                     (fd_renamed tmp F (fd_remove 0 fds1)) (st_umask s)).
  assert (L2 : forall q, q <> tmp -> lookup q fs2 = lookup q fs).
  { intros q Hq. unfold fs2, fs1. rewrite !lookup_set_neq by exact Hq. reflexivity. }
  assert (S1 : lstep s (OpenExcl 0 tmp 438) = (s1, None)).
  { cbn [lstep step]. fold fs. rewrite Htmp. reflexivity. }
  assert (S2 : lstep s1 (Write 0 new) = (s2, None)).
  { cbn [lstep step s1 st_fds st_fs st_umask]. unfold fds1 at 1. rewrite fd_lookup_set_eq.
    unfold fs1 at 1. rewrite lookup_set_eq. reflexivity. }
  assert (S3 : lstep s2 (Close 0) = (s3, None)).
  { cbn [lstep step s2 st_fds st_fs st_umask]. unfold fds1 at 1. rewrite fd_lookup_set_eq. reflexivity. }
  assert (ST : stat_follow F (st_fs s3) = Some t).
  { unfold stat_follow, link_fuel. cbn [s3 st_fs].
    rewrite (resolve_link_step _ F fs2 l); [|rewrite L2 by congruence; exact HF|exact Kl].
    rewrite Dl. rewrite (resolve_nonlink _ T fs2 t); [reflexivity|rewrite L2 by congruence; exact HT|].
    rewrite Kt. discriminate. }
  assert (S4 : lstep s3 (Chmod tmp (f_mode t)) = (s4, None)).
  { cbn [lstep s3 st_fds st_fs st_umask].
    rewrite (resolve_nonlink _ tmp fs2 (mkfile KReg new m0)); [reflexivity|apply lookup_set_eq|discriminate]. }
  assert (S5 : lstep s4 (Rename tmp F) = (s5, None)).
  { cbn [lstep step s4 st_fds st_fs st_umask]. unfold fs4 at 1. rewrite lookup_set_eq.
    rewrite (str_eqb_neq tmp F NtF). reflexivity. }
  unfold save_one_l. cbv zeta. fold tmp.
  erewrite sys_l_pnone; [|reflexivity|exact S1]. cbv beta iota.
  erewrite sys_l_pnone; [|reflexivity|exact S2]. cbv beta iota.
  erewrite sys_l_pnone; [|reflexivity|exact S3]. cbv beta iota.
  cbn [lw_st]. rewrite ST.
  erewrite sys_l_pnone; [|reflexivity|exact S4]. cbv beta iota.
  erewrite sys_l_pnone; [|reflexivity|exact S5]. cbv beta iota.
  cbn [set_saved_l lw_st lw_stderr lw_saved s5 st_fs].
  split; [apply lookup_set_eq|]. split.
  - rewrite lookup_set_neq by congruence. rewrite lookup_remove_neq by congruence.
    unfold fs4. rewrite lookup_set_neq by congruence. rewrite L2 by congruence. exact HT.
  - split; [|split; reflexivity].
    rewrite lookup_set_neq by exact NtF. apply lookup_remove_eq.
Qed.
