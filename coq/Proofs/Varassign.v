(* matchVarassign: value, space and comment recombine; the fuel suffices; together with
   VaralignSplitter.split (MkLine.ValueAlign()) the whole line recombines. *)
From PV Require Import Lib.Bytes Model.MkLexPrim Model.MkLexer Model.MkTokensLexer Model.MkLineSplit
  Model.VaralignSplit Spec.MkPartition Proofs.MkLineSplit.
Open Scope N_scope.

(* ---- what does hold: the value is the tail of the main part, and main, the space
   before the comment and the comment recombine to the line ---- *)
From PV Require Import Proofs.MkLexPrim Proofs.MkLexer.
From Coq Require Import ZifyBool ZifyN ZifyNat.

Lemma rtrim_fixed_tail a y : rtrim_hspace (a :: y) = a :: y -> rtrim_hspace y = y.
Proof.
  cbn [rtrim_hspace]. destruct (rtrim_hspace y) as [|x t'] eqn:R.
  - destruct (is_hspace a); intro H; inversion H; reflexivity.
  - intro H; inversion H; reflexivity.
Qed.

Lemma rtrim_suffix_fixed m x : rtrim_hspace m = m -> is_suffix x m -> rtrim_hspace x = x.
Proof.
  intros Hm (c & ->). induction c as [|a c IH]; [exact Hm|].
  apply IH. apply (rtrim_fixed_tail a). exact Hm.
Qed.

Lemma rtrim_idem s : rtrim_hspace (rtrim_hspace s) = rtrim_hspace s.
Proof.
  induction s as [|c t IH]; [reflexivity|].
  cbn [rtrim_hspace]. destruct (rtrim_hspace t) as [|x t'] eqn:R.
  - destruct (is_hspace c) eqn:Hc; [reflexivity|]. cbn [rtrim_hspace]. rewrite Hc. reflexivity.
  - change (rtrim_hspace (c :: x :: t')) with
      (match rtrim_hspace (x :: t') with [] => if is_hspace c then [] else [c] | t'' => c :: t'' end).
    rewrite IH. reflexivity.
Qed.

Lemma skip_spaces_suffix s : is_suffix (skip_spaces s) s.
Proof.
  induction s as [|c t IH]; [apply is_suffix_refl|].
  cbn [skip_spaces]. destruct (c =? 32); [|apply is_suffix_refl].
  eapply is_suffix_trans; [exact IH|apply is_suffix_cons].
Qed.

Lemma tl_cur_suffix (cur' : str) (m : tlexer) :
  is_suffix cur' (fst m) -> is_suffix (tl_rest (cur', snd m)) (tl_rest m).
Proof.
  intros (c & Hc). unfold tl_rest. cbn [fst snd]. rewrite Hc. exists c. rewrite app_assoc. reflexivity.
Qed.

Definition va_law (text : str) (a : varassign) : Prop :=
  exists head pre sp,
    text = (if va_commented a then [35] else []) ++ pre ++ comment_tail (va_split a) /\
    unescape_hash pre = head ++ va_value a ++ sp /\
    sr_main (va_split a) = head ++ va_value a /\
    forallb is_hspace sp = true /\
    (va_value a <> [] -> sp = sr_space_before_comment (va_split a)).

(* the part of matchVarassign after the (re-)split: T is the text that was split into sr *)
Lemma match_varassign_tail_law (commented : bool) (text T : str) (sr : split_result) a :
  split T true = Ok sr ->
  match_varassign_tail commented text sr = Ok (Some a) ->
  exists head sp,
    va_commented a = commented /\
    comment_tail (va_split a) = comment_tail sr /\
    sr_main (va_split a) = sr_main sr /\
    sr_main sr = head ++ va_value a /\
    sp = sr_space_before_comment sr /\
    (va_value a <> [] -> sp = sr_space_before_comment (va_split a)).
Proof.
  intros Hsplit Hdef. unfold match_varassign_tail in Hdef.
  destruct (tokenize_partition (sr_main sr)) as (toks & Et & Pt & _). rewrite Et in Hdef. cbn [bind] in Hdef.
  cbv zeta in Hdef.
  set (lexer1 := if commented then tl_new toks else tl_lift skip_spaces (tl_new toks)) in *.
  assert (S1 : is_suffix (tl_rest lexer1) (sr_main sr)).
  { rewrite app_nil_r in Pt. rewrite <- Pt, <- tl_rest_new. unfold lexer1. destruct commented; [apply is_suffix_refl|].
    unfold tl_lift. apply tl_cur_suffix, skip_spaces_suffix. }
  destruct (varname_partition (tl_rest lexer1)) as (vname & mkrest & Ev & _). rewrite Ev in Hdef. cbn [bind] in Hdef.
  destruct (tl_skip_mixed _ _ lexer1) as [lexer2| |] eqn:E2; cbn [bind] in Hdef; try discriminate.
  apply tl_skip_mixed_suffix in E2.
  destruct vname as [|v0 vname]; [discriminate|].
  destruct (next_bytes is_hspace (fst lexer2)) as [sav cur3] eqn:E3.
  assert (S3 : is_suffix cur3 (fst lexer2)).
  { pose proof (next_bytes_suffix is_hspace (fst lexer2)) as H. rewrite E3 in H. exact H. }
  set (cur4 := match cur3 with
               | c :: t => if (c =? 33) || (c =? 43) || (c =? 58) || (c =? 63) then t else cur3
               | [] => cur3 end) in *.
  assert (S4 : is_suffix cur4 cur3).
  { unfold cur4. destruct cur3 as [|c t]; [apply is_suffix_refl|].
    destruct ((c =? 33) || (c =? 43) || (c =? 58) || (c =? 63)); [apply is_suffix_cons|apply is_suffix_refl]. }
  destruct (skip_byte 61 cur4) as [cur5|] eqn:E5; [|discriminate].
  assert (S5 : is_suffix cur5 (fst lexer2)).
  { eapply is_suffix_trans; [apply chops_suffix, (skip_byte_chops _ _ _ E5)|]. eapply is_suffix_trans; eauto. }
  match type of Hdef with (if ?c then Panic else _) = _ => destruct c; [discriminate|] end.
  match type of Hdef with (let '(_, _) := ?c in _) = _ => destruct c as [vname' op] end.
  destruct (get_raw_value_align _ _) as [align| |]; cbn [bind] in Hdef; try discriminate.
  set (rest6 := tl_rest (tl_lift (fun s => snd (next_bytes is_hspace s)) (cur5, snd lexer2))) in *.
  assert (S6 : is_suffix rest6 (sr_main sr)).
  { unfold rest6, tl_lift. cbn [fst snd].
    eapply is_suffix_trans; [apply (tl_cur_suffix _ (cur5, snd lexer2)); cbn [fst]; apply next_bytes_suffix|].
    eapply is_suffix_trans; [apply (tl_cur_suffix cur5 lexer2); exact S5|].
    eapply is_suffix_trans; [exact E2|exact S1]. }
  (* main is trimmed on the right, so is every suffix of it *)
  destruct (split_recombines _ _ _ Hsplit) as (pre & _ & _ & _ & Hrt & _).
  assert (Hm : rtrim_hspace (sr_main sr) = sr_main sr) by (rewrite <- Hrt at 1; rewrite rtrim_idem; exact Hrt).
  assert (Sv : is_suffix (trim_hspace rest6) (sr_main sr)).
  { unfold trim_hspace.
    assert (Sl : is_suffix (ltrim_hspace rest6) (sr_main sr)).
    { eapply is_suffix_trans; [|exact S6]. unfold ltrim_hspace. apply next_bytes_suffix. }
    rewrite (rtrim_suffix_fixed _ _ Hm Sl). exact Sl. }
  destruct Sv as (head & Hhead).
  exists head, (sr_space_before_comment sr).
  destruct (trim_hspace rest6) as [|x value'] eqn:Ev6; inversion Hdef; subst a; cbn.
  - repeat split; try reflexivity; [exact Hhead|congruence].
  - repeat split; try reflexivity. exact Hhead.
Qed.

(* for every accepted assignment: [#] ++ pre ++ comment is the line, and the
   unescaped pre is head ++ value ++ blanks, where head ++ value is the main part *)
Lemma varassign_value_comment_recombine text a : parse_varassign text = Ok (Some a) -> va_law text a.
Proof.
  unfold parse_varassign. destruct (split text true) as [first| |] eqn:E1; cbn [bind]; try discriminate.
  unfold match_varassign.
  assert (Fin : forall (commented : bool) T sr, split T true = Ok sr ->
            text = (if commented then [35] else []) ++ T ->
            match_varassign_tail commented text sr = Ok (Some a) -> va_law text a).
  { intros commented T sr Hs Ht Hm.
    destruct (match_varassign_tail_law commented text T sr a Hs Hm) as (head & sp & A1 & A2 & A3 & A4 & A5 & A6).
    destruct (split_recombines _ _ _ Hs) as (pre & B1 & B2 & B3 & _).
    exists head, pre, sp. rewrite A1, A2, A3. subst sp.
    split; [rewrite Ht, B1; reflexivity|].
    split; [rewrite B2, A4, <- app_assoc; reflexivity|].
    split; [exact A4|]. split; [exact B3|exact A6]. }
  destruct (negb (nonempty (sr_main first)) && sr_has_comment first && has_prefix [35] text) eqn:C.
  - apply andb_true_iff in C as [_ Hp]. apply has_prefix_app in Hp as (t1 & Ht1).
    destruct (next_bytes is_hspace (sr_comment first)) as [hs crest].
    destruct (nonempty hs || negb (nonempty crest)); [discriminate|].
    subst text. rewrite skip_ok by (simpl; lia). cbn [bind skipn app].
    destruct (split t1 true) as [sr| |] eqn:E2; cbn [bind]; try discriminate.
    intro Hm. apply (Fin true t1 sr E2); [reflexivity|exact Hm].
  - intro Hm. apply (Fin false text first E1); [reflexivity|exact Hm].
Qed.

(* ---- the fuel of matchVarassign always suffices ---- *)

Lemma tl_skip_mixed_fuel : forall fuel k m,
  Forall (fun t : token => fst t <> []) (snd m) -> (k < Z.of_nat fuel)%Z -> (0 < fuel)%nat ->
  tl_skip_mixed fuel k m <> OutOfFuel.
Proof.
  induction fuel as [|f IH]; intros k m Hne Hk H0.
  - lia.
  - cbn [tl_skip_mixed]. destruct (Z.leb_spec k 0); [discriminate|].
    destruct (tl_next_expr m) as [[[text e] m1]|] eqn:En.
    + destruct (Z.ltb_spec (k - Z.of_nat (length text)) 0); [discriminate|].
      unfold tl_next_expr in En. destruct m as [[|c cur] [|[text0 [|]] rest]]; try discriminate.
      inversion En; subst. cbn [snd] in Hne. inversion Hne as [|? ? Hx Hrest]; subst.
      apply IH.
      * unfold tl_next. destruct rest as [|[t1 [|]] rest']; cbn [snd]; try exact Hrest.
        inversion Hrest; assumption.
      * cbn [fst] in Hx. destruct text; [congruence|]. simpl length. lia.
      * lia.
    + destruct (Z.leb_spec (Z.min (Z.of_nat (length (fst m))) k) 0); [discriminate|].
      apply IH; [exact Hne|lia|lia].
Qed.

Lemma match_varassign_tail_fuel commented text sr :
  match_varassign_tail commented text sr <> OutOfFuel.
Proof.
  unfold match_varassign_tail.
  destruct (tokenize_partition (sr_main sr)) as (toks & Et & _ & Pne). rewrite Et. cbn [bind]. cbv zeta.
  set (lexer1 := if commented then tl_new toks else tl_lift skip_spaces (tl_new toks)).
  assert (Hne : Forall (fun t : token => fst t <> []) (snd lexer1)).
  { assert (H0 : Forall (fun t : token => fst t <> []) (snd (tl_new toks))).
    { unfold tl_new, tl_next. destruct toks as [|[t0 [|]] rest]; cbn [snd]; try exact Pne.
      inversion Pne; assumption. }
    unfold lexer1. destruct commented; [exact H0|]. unfold tl_lift. cbn [snd]. exact H0. }
  destruct (varname_partition (tl_rest lexer1)) as (vname & mkrest & Ev & _). rewrite Ev. cbn [bind].
  pose proof (tl_skip_mixed_fuel (S (length (tl_rest lexer1)))
                (Z.of_nat (length (tl_rest lexer1)) - Z.of_nat (length mkrest))%Z lexer1 Hne ltac:(lia) ltac:(lia)) as F2.
  destruct (tl_skip_mixed _ _ lexer1) as [lexer2| |]; cbn [bind]; [|congruence|discriminate].
  destruct vname; [discriminate|].
  destruct (next_bytes is_hspace (fst lexer2)) as [sav cur3].
  match goal with |- context [skip_byte 61 ?c] => destruct (skip_byte 61 c) end; [|discriminate].
  match goal with |- (if ?c then Panic else _) <> _ => destruct c; [discriminate|] end.
  match goal with |- (let '(_, _) := ?c in _) <> _ => destruct c end.
  match goal with |- context [get_raw_value_align ?a ?b] =>
    pose proof (raw_value_align_loop_fuel (S (length b)) a b ltac:(lia)) as F3;
    unfold get_raw_value_align; destruct (raw_value_align_loop (S (length b)) a b) end;
    cbn [bind]; [|congruence|discriminate].
  match goal with |- (let '(_, _) := ?c in _) <> _ => destruct c end. discriminate.
Qed.

Lemma varassign_fuel text : parse_varassign text <> OutOfFuel.
Proof.
  unfold parse_varassign. pose proof (split_fuel text true) as F1.
  destruct (split text true) as [first| |]; cbn [bind]; [|congruence|discriminate].
  unfold match_varassign.
  destruct (negb (nonempty (sr_main first)) && sr_has_comment first && has_prefix [35] text);
    [|apply match_varassign_tail_fuel].
  destruct (next_bytes is_hspace (sr_comment first)) as [hs crest].
  destruct (nonempty hs || negb (nonempty crest)); [discriminate|].
  unfold skip. destruct (1 <=? length text)%nat; cbn [bind]; [|discriminate].
  pose proof (split_fuel (skipn 1 text) true) as F2.
  destruct (split (skipn 1 text) true) as [sr| |]; cbn [bind]; [|congruence|discriminate].
  apply match_varassign_tail_fuel.
Qed.
