(* The recombination law for matchVarassign + MkLine.ValueAlign() is false of the
   faithful model: witness by computation. *)
From PV Require Import Lib.Bytes Model.MkLexPrim Model.MkLexer Model.MkTokensLexer Model.MkLineSplit
  Model.VaralignSplit Spec.MkPartition Proofs.MkLineSplit.
Open Scope N_scope.

Definition refute_text : str := [36; 92; 35; 61].     (* $\#= *)

Lemma refute_accepted : exists a, parse_varassign refute_text = Ok (Some a).
Proof. vm_compute. eexists; reflexivity. Qed.

Lemma refute_splitter_panics : varalign_split refute_text true = Panic.
Proof. vm_compute. reflexivity. Qed.

Lemma varassign_recombines_refuted :
  ~ (forall (text : str) (a : varassign), parse_varassign text = Ok (Some a) ->
     exists (p : varalign_parts) (mid : str),
       varalign_split text true = Ok p /\
       text = (vp_leading_comment p ++ vp_varname_op p ++ vp_space_before_value p) ++ mid ++
              sr_space_before_comment (va_split a) ++ comment_tail (va_split a) /\
       unescape_hash mid = va_value a).
Proof.
  intro H. destruct refute_accepted as (a & Ha).
  destruct (H refute_text a Ha) as (p & mid & Hp & _).
  rewrite refute_splitter_panics in Hp. discriminate.
Qed.
