(* C03: histories that end with the PLIST sorter.  The log is consistent with the
   bytes on disk provided that no replacement touches a line terminator. *)
From PV Require Import Lib.Bytes Spec.ApplyLog Model.Autofix Proofs.ApplyLog Proofs.Autofix Proofs.AutofixSort.
From Coq Require Import Lia Permutation.
Open Scope Z_scope.

(* ---------- the guard, a boolean predicate on histories ---------- *)

Definition no_nl (s : str) : bool := forallb (fun c => negb (c =? 10)%N) s.

(* no argument of Replace / ReplaceAfter / ReplaceAt contains a newline; the text that
   ReplaceAfter looks for (prefix ++ from) is not empty *)
Definition op_guard (p : op) : bool :=
  match p with
  | OReplaceAfter pre f t => no_nl pre && no_nl f && no_nl t && negb (Autofix.is_nil (pre ++ f))
  | OReplaceAt _ _ f t => no_nl f && no_nl t
  | _ => true
  end.

Definition event_guard (e : event) : bool :=
  match e with
  | ETxn t => forallb op_guard (t_ops t)
  | _ => true
  end.

Definition no_newline_args (evs : list event) : bool := forallb event_guard evs.

(* ---------- terminated texts ---------- *)

Lemma no_nl_ends (s : str) : s <> [] -> no_nl s = true -> ends_nl s = false.
Proof.
  intros Hne H. unfold ends_nl. destruct (rev s) as [|c r] eqn:E.
  - exfalso. apply Hne. rewrite <- (rev_involutive s), E. reflexivity.
  - assert (Hin : In c s) by (apply in_rev; rewrite E; left; reflexivity).
    unfold no_nl in H. rewrite forallb_forall in H. specialize (H c Hin).
    destruct (c =? 10)%N; [discriminate|reflexivity].
Qed.

Lemma no_nl_app a b : no_nl (a ++ b) = no_nl a && no_nl b.
Proof. unfold no_nl. apply forallb_app. Qed.

(* replacing [from] inside a terminated text keeps the terminator *)
Lemma replace_keeps_nl (a from to b : str) :
  no_nl from = true -> (from <> [] \/ b <> []) -> ends_nl (a ++ from ++ b) = true ->
  ends_nl (a ++ to ++ b) = true.
Proof.
  intros Hn Hne He.
  assert (Hb : b <> []).
  { destruct Hne as [Hf|Hb]; [|exact Hb]. intro E. subst b. rewrite app_nil_r in He.
    rewrite ends_nl_app_nonempty in He by exact Hf. rewrite no_nl_ends in He by assumption. discriminate. }
  rewrite app_assoc in *. rewrite ends_nl_app_nonempty in * by exact Hb. exact He.
Qed.

Definition term_fix (raws : list str) (f : fixst) : Prop :=
  (forall j r t, nth_error raws j = Some r -> nth_error (f_texts f) j = Some t ->
                 ends_nl r = true -> nil_or_nl t) /\
  Forall (fun a => ends_nl a = true) (f_above f) /\
  Forall (fun a => ends_nl a = true) (f_below f).

Definition term_line (l : line) : Prop :=
  match l_fix l with None => True | Some f => term_fix (l_raw l) f end.

(* an operation keeps the raw lines and the terminators *)
Definition tpres (l l' : line) : Prop :=
  l_raw l' = l_raw l /\ (term_line l -> term_line l') /\ (exists f', l_fix l' = Some f').

Lemma tpres_refl l f : l_fix l = Some f -> tpres l l.
Proof. intro E. repeat split; auto. eexists; exact E. Qed.

Lemma tpres_trans a b c : tpres a b -> tpres b c -> tpres a c.
Proof. intros (R1 & T1 & F1) (R2 & T2 & F2). repeat split; [congruence|auto|exact F2]. Qed.

(* the texts change at one index only *)
Lemma tpres_set_text l f j t t' M AC LV DG text' :
  l_fix l = Some f -> nth_error (f_texts f) j = Some t -> (nil_or_nl t -> nil_or_nl t') ->
  tpres l (with_fix (with_text l text') (Fix (f_above f) (set_nth j t' (f_texts f)) (f_below f) M AC LV DG)).
Proof.
  intros E Hn Ht. split; [reflexivity|]. split; [|eexists; reflexivity].
  unfold term_line. rewrite E. cbn [l_fix with_fix with_text l_raw]. intros (T & A & B).
  split; [|split; assumption]. cbn [f_texts]. intros i r x Hr Hx Hnl.
  destruct (Nat.eq_dec j i) as [->|Hne].
  - rewrite nth_error_set_nth in Hx by (apply nth_error_Some; congruence). inversion Hx; subst x.
    apply Ht. eapply T; eassumption.
  - rewrite nth_error_set_nth_other in Hx by exact Hne. eapply T; eassumption.
Qed.

Lemma replace_after_tpres o pre from to l l' f :
  l_fix l = Some f -> op_guard (OReplaceAfter pre from to) = true ->
  replace_after o pre from to l = Ok l' -> tpres l l'.
Proof.
  intros E G. cbn [op_guard] in G. apply andb_true_iff in G as [G Gne].
  apply andb_true_iff in G as [G Gt]. apply andb_true_iff in G as [Gp Gf].
  assert (Hpf : pre ++ from <> []) by (intro PF; rewrite PF in Gne; discriminate). clear Gne.
  unfold replace_after, bind. destruct (real_line l); [|discriminate].
  unfold the_fix. rewrite E. destruct (skip o f) as [[|]|]; [| |discriminate];
    [intro H; inversion H; subst; eapply tpres_refl; eassumption|].
  destruct (negb _); [intro H; inversion H; subst; eapply tpres_refl; eassumption|].
  destruct (first_replace (f_texts f) (pre ++ from) (pre ++ to) 0) as [[ri rep]|] eqn:FR;
    [|intro H; inversion H; subst; eapply tpres_refl; eassumption].
  apply first_replace_spec in FR as (j & t & -> & Hn & Hr). simpl plus.
  apply replace_once_spec in Hr as (xa & xb & Ht & Hrep).
  destruct (is_autofix o); intro H; inversion H; subst l'.
  - unfold describe. cbn [f_above f_texts f_below f_modified f_actions f_level f_diag].
    apply tpres_set_text with (t := t); [exact E|exact Hn|].
    intros [Hnil|Hnl].
    + exfalso. subst t. destruct xa; [|discriminate]. destruct (pre ++ from) eqn:PF; [|discriminate].
      apply Hpf. reflexivity.
    + right. subst t rep. eapply replace_keeps_nl; [| |exact Hnl].
      * rewrite no_nl_app, Gp, Gf. reflexivity.
      * left. exact Hpf.
  - (* texts unchanged *)
    unfold describe. split; [reflexivity|]. split; [|eexists; reflexivity].
    unfold term_line. rewrite E. cbn. auto.
Qed.

Lemma replace_at_tpres o ri ti from to l l' f :
  l_fix l = Some f -> op_guard (OReplaceAt ri ti from to) = true ->
  replace_at o ri ti from to l = Ok l' -> tpres l l'.
Proof.
  intros E G. cbn [op_guard] in G. apply andb_true_iff in G as [Gf Gt].
  unfold replace_at, bind. destruct (str_eqb from to); [discriminate|].
  destruct (real_line l); [|discriminate].
  unfold the_fix. rewrite E. destruct (skip o f) as [[|]|]; [| |discriminate];
    [intro H; inversion H; subst; eapply tpres_refl; eassumption|].
  destruct ((ri <? 0) || (Z.of_nat (length (f_texts f)) <=? ri)) eqn:Rg; [discriminate|].
  destruct (negb (ti <? Z.of_nat (length (nth (Z.to_nat ri) (f_texts f) [])))) eqn:Ti; [discriminate|].
  destruct (ti <? 0) eqn:T0; [discriminate|].
  destruct (strip_prefix from (skipn (Z.to_nat ti) (nth (Z.to_nat ri) (f_texts f) []))) as [rest|] eqn:SP; [|discriminate].
  intro H. inversion H; subst l'. apply strip_prefix_some in SP.
  set (text := nth (Z.to_nat ri) (f_texts f) []) in *.
  assert (Hn : nth_error (f_texts f) (Z.to_nat ri) = Some text) by (apply nth_error_nth_default; lia).
  unfold describe. cbn [f_above f_texts f_below f_modified f_actions f_level f_diag].
  apply tpres_set_text with (t := text); [exact E|exact Hn|].
  assert (Etext : text = firstn (Z.to_nat ti) text ++ from ++ rest).
  { rewrite <- SP. symmetry. apply firstn_skipn. }
  intros [Hnil|Hnl].
  - exfalso. rewrite Hnil in Ti. cbn in Ti. lia.
  - right. rewrite Etext in Hnl. eapply replace_keeps_nl; [exact Gf| |exact Hnl].
    destruct from as [|c fr]; [right|left; discriminate].
    cbn in SP. intro Er. subst rest.
    apply (f_equal (@length _)) in Er. rewrite skipn_length in Er. cbn [length] in Er. lia.
Qed.

Lemma insert_below_texts (texts below : list str) :
  let texts1 :=
      match rev texts, below with
      | last :: _, [] =>
        if negb (Autofix.is_nil last) && negb (has_suffix_nl last)
        then set_nth (length texts - 1) (last ++ Autofix.nl) texts
        else texts
      | _, _ => texts
      end in
  forall j t', nth_error texts1 j = Some t' ->
    nth_error texts j = Some t' \/ exists t, nth_error texts j = Some t /\ t' = t ++ Autofix.nl.
Proof.
  intros texts1 j t' H. subst texts1.
  destruct (rev texts) as [|last r] eqn:Er; [left; exact H|].
  destruct below; [|left; exact H].
  destruct (negb (Autofix.is_nil last) && negb (has_suffix_nl last)); [|left; exact H].
  pose proof (rev_last_nth _ _ _ Er) as Hl.
  destruct (Nat.eq_dec (length texts - 1) j) as [<-|Hne].
  - rewrite nth_error_set_nth in H by (apply nth_error_Some; congruence). inversion H; subst.
    right. exists last. auto.
  - rewrite nth_error_set_nth_other in H by exact Hne. left. exact H.
Qed.

Lemma do_op_tpres o p l l' f :
  l_fix l = Some f -> op_guard p = true -> do_op o p l = Ok l' -> tpres l l'.
Proof.
  intros E G. destruct p; cbn [do_op].
  - apply replace_after_tpres with (f := f); assumption.
  - apply replace_at_tpres with (f := f); assumption.
  - (* insert_above *)
    unfold insert_above, bind. destruct (real_line l); [|discriminate]. unfold the_fix. rewrite E.
    destruct (skip o f) as [[|]|]; [| |discriminate];
      [intro H; inversion H; subst; eapply tpres_refl; eassumption|].
    intro H. inversion H; subst l'. split; [reflexivity|]. split; [|eexists; reflexivity].
    unfold term_line. rewrite E. cbn. intros (T & A & B). repeat split; try assumption.
    apply Forall_app. split; [exact A|]. constructor; [apply ends_nl_snoc|constructor].
  - (* insert_below *)
    unfold insert_below, bind. destruct (real_line l); [|discriminate]. unfold the_fix. rewrite E.
    destruct (skip o f) as [[|]|]; [| |discriminate];
      [intro H; inversion H; subst; eapply tpres_refl; eassumption|].
    intro H. inversion H; subst l'. split; [reflexivity|]. split; [|eexists; reflexivity].
    unfold term_line. rewrite E. cbn [l_fix with_fix l_raw describe f_texts f_above f_below].
    intros (T & A & B). split; [|split].
    + intros j r t' Hr Ht' Hnl.
      destruct (insert_below_texts (f_texts f) (f_below f) j t' Ht') as [H0|(t0 & H0 & ->)].
      * eapply T; eassumption.
      * right. apply ends_nl_snoc.
    + exact A.
    + apply Forall_app. split; [exact B|]. constructor; [apply ends_nl_snoc|constructor].
  - (* delete *)
    unfold delete, bind. destruct (real_line l); [|discriminate]. unfold the_fix. rewrite E.
    destruct (skip o f) as [[|]|]; [| |discriminate];
      [intro H; inversion H; subst; eapply tpres_refl; eassumption|].
    intro H. inversion H; subst l'. split; [reflexivity|]. split; [|eexists; reflexivity].
    unfold term_line. rewrite E. cbn. intros (T & A & B). repeat split; try assumption.
    intros j r t Hr Ht _. left. apply nth_error_In in Ht. apply repeat_spec in Ht. exact Ht.
  - (* custom *)
    unfold custom, the_fix, bind. rewrite E.
    destruct (skip o f) as [[|]|]; [| |discriminate];
      [intro H; inversion H; subst; eapply tpres_refl; eassumption|].
    intro H. inversion H; subst l'. split; [reflexivity|]. split; [|eexists; reflexivity].
    unfold term_line. rewrite E. cbn. auto.
Qed.

Lemma do_ops_tpres o ps : forall l l' f,
  l_fix l = Some f -> forallb op_guard ps = true -> do_ops o ps l = Ok l' -> tpres l l'.
Proof.
  induction ps as [|p ps IH]; intros l l' f E G; cbn [do_ops].
  - intro H. inversion H; subst. eapply tpres_refl; eassumption.
  - cbn [forallb] in G. apply andb_true_iff in G as [Gp Gps].
    unfold bind. destruct (do_op o p l) as [l1|] eqn:D; [|discriminate]. intro H.
    pose proof (do_op_tpres o p l l1 f E Gp D) as T1. destruct T1 as (R1 & T1 & (f1 & E1)).
    eapply tpres_trans; [split; [exact R1|split; [exact T1|eexists; exact E1]]|].
    eapply IH; eassumption.
Qed.

Lemma do_txn_term o t l0 l4 printed :
  idle l0 -> forallb op_guard (t_ops t) = true -> term_line l0 ->
  do_txn o t l0 = Ok (l4, printed) -> term_line l4.
Proof.
  intros I G T. unfold do_txn, bind.
  destruct (autofix l0) as [[l1 f1]|] eqn:AF; [|discriminate].
  destruct (set_diag (t_diag t) l1) as [l2|] eqn:SD; [|discriminate].
  destruct (do_ops o (t_ops t) l2) as [l3|] eqn:DO; [|discriminate].
  assert (P : exists f2, l_fix l2 = Some f2 /\ l_raw l2 = l_raw l0 /\ term_line l2).
  { unfold autofix, idle, term_line in *. destruct (l_fix l0) as [f|] eqn:E.
    - destruct I as (A & D & L). rewrite D in AF. inversion AF; subst l1 f1.
      unfold set_diag, bind, the_fix in SD. rewrite E, L, D in SD. inversion SD; subst l2.
      eexists. cbn. repeat split; apply T.
    - inversion AF; subst l1 f1. unfold set_diag, bind, the_fix in SD. cbn in SD. inversion SD; subst l2.
      eexists. cbn. split; [reflexivity|]. split; [reflexivity|]. split; [|split; constructor].
      intros j r t0 Hr Ht Hnl. cbn [f_texts] in Ht. rewrite Hr in Ht. inversion Ht; subst. right. exact Hnl. }
  destruct P as (f2 & E2 & R2 & T2).
  destruct (do_ops_tpres o (t_ops t) l2 l3 f2 E2 G DO) as (R3 & T3 & (f3 & E3)).
  unfold apply, bind, the_fix. rewrite E3. destruct (negb (f_level f3)); [discriminate|].
  specialize (T3 T2). unfold term_line in T3. rewrite E3 in T3.
  match goal with |- (if ?c then _ else _) = _ -> _ => destruct c end;
    intro H; inversion H; subst l4; unfold term_line; cbn; exact T3.
Qed.

(* ---------- the store ---------- *)

Lemma step_term o keys file content e st st' :
  o_autofix o = true -> no_sort_event e -> event_guard e = true -> inv file content st ->
  Forall term_line (s_store st) -> step o keys e st = Ok st' ->
  Forall term_line (s_store st') /\ flat_map l_raw (s_store st') = flat_map l_raw (s_store st).
Proof.
  intros Ha Hn G I T. destruct e; try contradiction; cbn [step].
  - destruct (nth_error (s_store st) (t_line t)) as [l0|] eqn:En.
    2:{ intro H. inversion H; subst st'. auto. }
    unfold bind. destruct (do_txn o t l0) as [[l1 printed]|] eqn:DT; [|discriminate].
    intro H. inversion H; subst st'. clear H. cbn [s_store].
    pose proof En as En'. apply nth_error_split in En' as (s1 & s2 & Es & Elen).
    destruct I as [Wf Id _ _ _ _ _ _]. rewrite Es in Wf, Id, T.
    apply Forall_split_mid in Wf as (_ & W0 & _). apply Forall_split_mid in Id as (_ & I0 & _).
    apply Forall_split_mid in T as (T1 & T0 & T2).
    destruct (do_txn_reach o t l0 l1 printed Ha W0 I0 DT) as (_ & _ & _ & R1 & _).
    split.
    + rewrite Es, <- Elen, set_nth_split. apply Forall_split_mid. repeat split; try assumption.
      eapply do_txn_term; eassumption.
    + apply (set_nth_raws (s_store st) (t_line t) l1 l0 En R1).
  - destruct (save o (s_store st)). intro H. inversion H; subst st'. auto.
  - unfold bind. destruct (check_executable o file0 executable committed) as [[pr ops]|]; [|discriminate].
    intro H. inversion H; subst st'. auto.
Qed.

Lemma run_term o keys file content evs : forall st st',
  o_autofix o = true -> Forall no_sort_event evs -> no_newline_args evs = true -> inv file content st ->
  Forall term_line (s_store st) -> run o keys evs st = Ok st' ->
  Forall term_line (s_store st') /\ flat_map l_raw (s_store st') = flat_map l_raw (s_store st).
Proof.
  induction evs as [|e evs IH]; intros st st' Ha Hn G I T; cbn [run].
  - intro H. inversion H; subst st'. auto.
  - unfold bind. destruct (step o keys e st) as [s1|] eqn:S; [|discriminate].
    inversion Hn; subst. cbn [no_newline_args forallb] in G. apply andb_true_iff in G as [Ge Gs]. intro H.
    destruct (step_term o keys file content e st s1 Ha H1 Ge I T S) as [T1 R1].
    destruct (IH s1 st' Ha H2 Gs (step_inv o keys file content e st s1 Ha H1 I S) T1 H) as [T2 R2].
    split; [exact T2|congruence].
Qed.

(* ---------- the sorter, in detail ---------- *)

Definition last_raw_terminated (store : list line) : Prop :=
  match rev store with
  | lastl :: _ => match rev (l_raw lastl) with r :: _ => ends_nl r = true | [] => True end
  | [] => True
  end.

Lemma plist_sort_cases o keys store store' printed ops af :
  o_autofix o = true -> length keys = length store ->
  Forall idle store -> Forall wf_line store -> Forall term_line store ->
  plist_sort o keys store = Ok (store', printed, ops, af) ->
  (store' = store /\ printed = [] /\ ops = [] /\ af = false) \/
  (last_raw_terminated store /\ exists first l0 l4 view,
     nth_error store first = Some l0 /\ store' = set_nth first l4 store /\
     blocks_of_line l4 = blocks_of_line l0 /\ l_raw l4 = l_raw l0 /\ l_lineno l4 = l_lineno l0 /\
     l_file l4 = l_file l0 /\ wf_line l4 /\ term_line l4 /\ line_modified l4 = true /\
     printed = [Log (l_file l0) DSort (l_lineno l0)] /\
     Permutation view store' /\ (ops, af) = save o view).
Proof.
  intros Ha Hlen Hidle Hwf Hterm. unfold plist_sort.
  destruct (split_plist (combine (seq 0 (length keys)) keys)) as [[header middle] footer] eqn:SP.
  apply split_plist_app in SP.
  match goal with |- context [if ?c then _ else _] => destruct c eqn:C end; [intro H; inversion H; auto|].
  destruct (negb (shall_be_logged o sorted_before_format)); [intro H; inversion H; auto|].
  destruct (shall_be_logged o silent_format) eqn:SL; cbn [negb]; [|intro H; inversion H; auto].
  destruct middle as [|[first k] middle']; [intro H; inversion H; auto|].
  destruct (nat_list_eqb _ _); [intro H; inversion H; auto|].
  destruct (nth_error store first) as [l0|] eqn:En; [|discriminate].
  assert (I0 : idle l0) by (rewrite Forall_forall in Hidle; apply Hidle; eapply nth_error_In; eassumption).
  assert (W0 : wf_line l0) by (rewrite Forall_forall in Hwf; apply Hwf; eapply nth_error_In; eassumption).
  assert (T0 : term_line l0) by (rewrite Forall_forall in Hterm; apply Hterm; eapply nth_error_In; eassumption).
  unfold bind. destruct (autofix l0) as [[l1 f1]|] eqn:AF; [|discriminate].
  destruct (set_diag silent_format l1) as [l2|] eqn:SD; [|discriminate].
  destruct (the_fix l2) as [f2|] eqn:TF; [|discriminate].
  assert (P : l_fix l2 = Some f2 /\ f_actions f2 = [] /\ f_level f2 = true /\ f_diag f2 = silent_format /\
              l_file l2 = l_file l0 /\ l_lineno l2 = l_lineno l0 /\ l_raw l2 = l_raw l0 /\
              blocks_of_line l2 = blocks_of_line l0 /\ term_line l2 /\
              length (f_texts f2) = length (l_raw l0)).
  { unfold the_fix in TF. destruct (l_fix l2) as [f|] eqn:E2; [|discriminate]. inversion TF; subst f.
    destruct W0 as [_ _ W3].
    unfold autofix, idle, term_line, blocks_of_line in *. destruct (l_fix l0) as [f|] eqn:E.
    - destruct I0 as (A & D & L). rewrite D in AF. inversion AF; subst l1 f1.
      unfold set_diag, bind, the_fix in SD. rewrite E, L, D in SD. inversion SD; subst l2.
      cbn in E2. inversion E2; subst f2. cbn. try rewrite E.
      split; [reflexivity|]. split; [exact A|]. split; [reflexivity|]. split; [reflexivity|].
      split; [reflexivity|]. split; [reflexivity|]. split; [reflexivity|]. split; [reflexivity|].
      split; [exact T0|exact W3].
    - inversion AF; subst l1 f1. unfold set_diag, bind, the_fix in SD. cbn in SD. inversion SD; subst l2.
      cbn in E2. inversion E2; subst f2. cbn. try rewrite E.
      split; [reflexivity|]. split; [reflexivity|]. split; [reflexivity|]. split; [reflexivity|].
      split; [reflexivity|]. split; [reflexivity|]. split; [reflexivity|].
      split; [apply blocks_of_new|]. split; [|reflexivity].
      split; [|split; constructor].
      intros j r t0 Hr Ht Hnl. cbn [f_texts] in Ht. rewrite Hr in Ht. inversion Ht; subst. right. exact Hnl. }
  destruct P as (E2 & A2 & L2 & D2 & F2 & N2 & R2 & B2 & T2 & Len2).
  set (l3 := with_fix l2 (describe 0 DSort l2 f2)).
  rewrite (apply_autofix o l3 (describe 0 DSort l2 f2));
    [|unfold is_autofix; rewrite Ha; reflexivity|reflexivity|exact L2|intros _; cbn; rewrite D2; exact SL].
  set (l4 := with_fix l3 (reset (describe 0 DSort l2 f2))).
  set (store1 := set_nth first l4 store).
  set (view := map (fun p : nat * pkey => nth (fst p) store1 dummy_line) (header ++ stable_sort ((first, k) :: middle') ++ footer)).
  destruct (save o view) as [sops saf] eqn:SV.
  intro H. inversion H; subst store' printed ops af. clear H. right.
  split.
  { (* the unsortable test was negative: the last raw line is terminated *)
    apply orb_false_iff in C as [_ C]. unfold last_raw_terminated.
    rewrite firstn_all2 in C by lia.
    destruct (rev store) as [|lastl rs]; [exact I|]. destruct (rev (l_raw lastl)) as [|r rr]; [exact I|].
    destruct (has_suffix_nl r) eqn:Hr; [exact Hr|discriminate]. }
  exists first, l0, l4, view.
  split; [exact En|]. split; [reflexivity|].
  split. { unfold blocks_of_line at 1. cbn. rewrite <- B2. unfold blocks_of_line. rewrite E2. reflexivity. }
  split; [exact R2|]. split; [exact N2|]. split; [exact F2|].
  split. { destruct W0 as [W1 W2 _]. split; cbn; [rewrite N2; exact W1|rewrite R2; exact W2|rewrite R2; exact Len2]. }
  split. { unfold term_line in *. rewrite E2 in T2. cbn. rewrite R2 in T2. rewrite R2. exact T2. }
  split. { unfold line_modified. cbn. rewrite A2. reflexivity. }
  split. { unfold log_of, describe, lineno_of. cbn. rewrite A2. cbn. rewrite F2, N2, Z.add_0_r. reflexivity. }
  split; [|symmetry; exact SV].
  unfold view.
  assert (P : Permutation (header ++ stable_sort ((first, k) :: middle') ++ footer)
                          (combine (seq 0 (length keys)) keys)).
  { rewrite <- SP. apply Permutation_app_head. apply Permutation_app_tail. apply stable_sort_perm. }
  rewrite (Permutation_map _ P).
  replace (map (fun p : nat * pkey => nth (fst p) store1 dummy_line) (combine (seq 0 (length keys)) keys))
    with (map (fun i => nth i store1 dummy_line) (map fst (combine (seq 0 (length keys)) keys)))
    by (rewrite map_map; reflexivity).
  rewrite map_fst_combine by (rewrite seq_length; reflexivity).
  replace (length keys) with (length store1) by (unfold store1; rewrite set_nth_length; lia).
  rewrite map_nth_seq. reflexivity.
Qed.

(* ---------- small facts ---------- *)

Lemma step_length o keys e st st' : no_sort_event e -> step o keys e st = Ok st' ->
  length (s_store st') = length (s_store st).
Proof.
  intros Hn. destruct e; try contradiction; cbn [step].
  - destruct (nth_error (s_store st) (t_line t)); [|intro H; inversion H; reflexivity].
    unfold bind. destruct (do_txn o t l) as [[l1 pr]|]; [|discriminate].
    intro H. inversion H. cbn. apply set_nth_length.
  - destruct (save o (s_store st)). intro H. inversion H. reflexivity.
  - unfold bind. destruct (check_executable o file executable committed) as [[pr ops]|]; [|discriminate].
    intro H. inversion H. reflexivity.
Qed.

Lemma run_length o keys evs : forall st st', Forall no_sort_event evs -> run o keys evs st = Ok st' ->
  length (s_store st') = length (s_store st).
Proof.
  induction evs as [|e evs IH]; intros st st' Hn; cbn [run].
  - intro H. inversion H. reflexivity.
  - unfold bind. destruct (step o keys e st) as [s1|] eqn:S; [|discriminate]. inversion Hn; subst. intro H.
    rewrite (IH _ _ H2 H). eapply step_length; eassumption.
Qed.

Lemma mk_lines_length file groups : forall start, length (mk_lines file start groups) = length groups.
Proof. induction groups as [|[r t] gs IH]; intro start; cbn; [reflexivity|]. rewrite IH. reflexivity. Qed.

Lemma mk_lines_term file groups : forall start, Forall term_line (mk_lines file start groups).
Proof. induction groups as [|[r t] gs IH]; intro start; cbn; constructor; [exact I|apply IH]. Qed.

Lemma save_af_single o file ls :
  o_autofix o = true -> Forall (fun l => l_file l = file) ls -> snd (save o ls) = existsb line_modified ls.
Proof.
  intros Ha F. unfold save. rewrite Ha. cbn [negb snd].
  rewrite (changed_files_single file ls F []). cbn [existsb negb]. rewrite andb_true_r.
  destruct (existsb line_modified ls); reflexivity.
Qed.

Lemma blocks_set_same (store : list line) i l0 l4 :
  nth_error store i = Some l0 -> blocks_of_line l4 = blocks_of_line l0 ->
  blocks_of_store (set_nth i l4 store) = blocks_of_store store.
Proof.
  intros En B. apply nth_error_split in En as (s1 & s2 & -> & <-). rewrite set_nth_split.
  rewrite !blocks_of_store_app. cbn [blocks_of_store flat_map]. rewrite B. reflexivity.
Qed.

Lemma Forall_set_nth {A} (P : A -> Prop) (l : list A) i x y :
  nth_error l i = Some x -> Forall P l -> P y -> Forall P (set_nth i y l).
Proof.
  intros En F Py. apply nth_error_split in En as (s1 & s2 & -> & <-). rewrite set_nth_split.
  apply Forall_split_mid in F as (F1 & _ & F2). apply Forall_split_mid. auto.
Qed.

Lemma Forall_mapi {A B} (P : B -> Prop) (f : nat -> A -> B) ts : forall k,
  (forall j t, nth_error ts j = Some t -> P (f (k + j)%nat t)) -> Forall P (mapi_from k f ts).
Proof.
  induction ts as [|t ts IH]; intros k H; cbn; constructor.
  - specialize (H O t eq_refl). rewrite Nat.add_0_r in H. exact H.
  - apply IH. intros j x Hj. specialize (H (S j) x Hj). replace (S k + j)%nat with (k + S j)%nat by lia. exact H.
Qed.

(* the blocks of a line whose raw lines are all terminated are empty or terminated *)
Lemma blocks_term l :
  wf_line l -> term_line l -> Forall (fun r => ends_nl r = true) (l_raw l) ->
  Forall (fun b => nil_or_nl (flat_block b)) (blocks_of_line l).
Proof.
  intros [_ _ W3] T R. unfold blocks_of_line, term_line in *. destruct (l_fix l) as [f|].
  - destruct T as (Tt & Ta & Tb). unfold blocks_of_fix. apply Forall_mapi. intros j t Hj.
    rewrite flat_block_blk. cbn [plus].
    assert (Ht : nil_or_nl t).
    { destruct (nth_error (l_raw l) j) as [r|] eqn:Hr.
      - apply (Tt j r t Hr Hj). rewrite Forall_forall in R. apply R. eapply nth_error_In; exact Hr.
      - exfalso. apply nth_error_None in Hr. rewrite <- W3 in Hr. apply nth_error_None in Hr. congruence. }
    apply nil_or_nl_app; [destruct (Nat.eqb j 0); [apply nil_or_nl_concat; exact Ta|left; reflexivity]|].
    apply nil_or_nl_app; [exact Ht|].
    destruct (Nat.eqb (S j) (length (f_texts f))); [apply nil_or_nl_concat; exact Tb|left; reflexivity].
  - apply Forall_forall. intros b Hb. apply in_map_iff in Hb as (r & <- & Hr).
    unfold flat_block. cbn. rewrite app_nil_r. right. rewrite Forall_forall in R. apply R. exact Hr.
Qed.

Lemma all_raws_terminated store pl :
  last_raw_terminated store -> Forall wf_line store -> flat_map l_raw store = pl ->
  Forall (fun r => ends_nl r = true) (removelast pl) -> Forall (fun r => ends_nl r = true) pl.
Proof.
  intros L W E Hr. unfold last_raw_terminated in L.
  destruct (rev store) as [|ll rs] eqn:Es.
  { assert (store = []) by (rewrite <- (rev_involutive store), Es; reflexivity). subst store. cbn in E. subst pl. constructor. }
  assert (Est : store = rev rs ++ [ll]) by (rewrite <- (rev_involutive store), Es; reflexivity).
  destruct (rev (l_raw ll)) as [|x rr] eqn:Er.
  { exfalso. assert (Wl : wf_line ll).
    { rewrite Forall_forall in W. apply W. rewrite Est. apply in_or_app. right. left. reflexivity. }
    destruct Wl as [_ W2 _]. apply W2. rewrite <- (rev_involutive (l_raw ll)), Er. reflexivity. }
  assert (Erw : l_raw ll = rev rr ++ [x]) by (rewrite <- (rev_involutive (l_raw ll)), Er; reflexivity).
  assert (Epl : pl = (flat_map l_raw (rev rs) ++ rev rr) ++ [x]).
  { rewrite <- E, Est, flat_map_app. cbn [flat_map]. rewrite app_nil_r, Erw, app_assoc. reflexivity. }
  rewrite Epl in *. rewrite removelast_last in Hr. apply Forall_app. split; [exact Hr|].
  constructor; [exact L|constructor].
Qed.

Lemma has_sort_app a b : has_sort (a ++ b) = has_sort a || has_sort b.
Proof. unfold has_sort. apply existsb_app. Qed.

(* ---------- the theorem ---------- *)

Theorem save_consistent_with_log_sorted_partial o keys file content groups evs st :
  o_autofix o = true -> wf_groups content groups -> length keys = length groups ->
  Forall no_sort_event evs -> no_newline_args evs = true ->
  run o keys (evs ++ [ESort]) (init_state file groups) = Ok st ->
  consistent content (entries_of file (s_log st)) (disk_after file content None (s_ops st)) = true.
Proof.
  intros Ha Wg Hk Hn G R. rewrite run_app in R. unfold bind in R.
  destruct (run o keys evs (init_state file groups)) as [s1|] eqn:R1; [|discriminate].
  assert (D0 : disk_inv file content (init_state file groups)).
  { constructor; cbn; [constructor| |reflexivity].
    rewrite mk_lines_raws. destruct Wg as [Hc _]. rewrite Hc. apply phys_lines_concat. }
  pose proof (init_inv file content groups Wg) as I0.
  destruct (run_both_inv o keys file content evs _ _ Ha Hn I0 D0 R1) as [I1 [P1 Rw1 Cl1]].
  destruct (run_term o keys file content evs _ _ Ha Hn G I0 (mk_lines_term file groups 1) R1) as [T1 Raw1].
  pose proof (run_length o keys evs _ _ Hn R1) as Len1. cbn [init_state s_store] in Len1, Raw1.
  rewrite mk_lines_length in Len1. rewrite mk_lines_raws in Raw1.
  cbn [run step bind] in R. unfold bind in R.
  destruct (plist_sort o keys (s_store s1)) as [[[[store' printed] ops] af]|] eqn:PS; [|discriminate].
  inversion R; subst st. clear R. cbn [s_log s_ops].
  assert (Hks : length keys = length (s_store s1)) by congruence.
  destruct (plist_sort_cases o keys _ _ _ _ _ Ha Hks (inv_idle _ _ _ I1) (inv_wf _ _ _ I1) T1 PS)
    as [(-> & -> & -> & ->)|(LT & first & l0 & l4 & view & En & -> & B4 & R4 & N4 & F4 & W4 & T4 & M4 & -> & Pv & Sv)].
  - (* the sorter did nothing: the history is the one that ends with a save *)
    rewrite app_nil_r. cbn [app].
    apply (disk_consistent_with_log o keys file content groups evs
             (State (s_store s1) (s_log s1) (s_ops s1 ++ fst (save o (s_store s1)))) Ha Wg Hn).
    rewrite run_app, R1. cbn [bind run step]. destruct (save o (s_store s1)); reflexivity.
  - (* sorted *)
    set (store' := set_nth first l4 (s_store s1)) in *.
    assert (F0 : l_file l0 = file).
    { pose proof (inv_file _ _ _ I1) as Fi. rewrite Forall_forall in Fi. apply Fi. eapply nth_error_In; exact En. }
    assert (Fs : Forall (fun l => l_file l = file) store').
    { eapply Forall_set_nth; [exact En|exact (inv_file _ _ _ I1)|congruence]. }
    assert (Ws : Forall wf_line store') by (eapply Forall_set_nth; [exact En|exact (inv_wf _ _ _ I1)|exact W4]).
    assert (Ts : Forall term_line store') by (eapply Forall_set_nth; [exact En|exact T1|exact T4]).
    assert (Fv : Forall (fun l => l_file l = file) view).
    { apply Forall_forall. intros x Hx. rewrite Forall_forall in Fs. apply Fs. eapply Permutation_in; eassumption. }
    assert (Wv : Forall wf_line view).
    { apply Forall_forall. intros x Hx. rewrite Forall_forall in Ws. apply Ws. eapply Permutation_in; eassumption. }
    assert (Mv : existsb line_modified view = true).
    { apply existsb_exists. exists l4. split; [|exact M4].
      eapply Permutation_in; [apply Permutation_sym; exact Pv|].
      unfold store'. eapply nth_error_In. apply nth_error_set_nth. apply nth_error_Some. congruence. }
    assert (Eops : ops = save_seq file (file_content file view)).
    { pose proof (save_ops_single o file view Ha Fv) as S. rewrite <- Sv, Mv in S. exact S. }
    assert (Eaf : af = true).
    { pose proof (save_af_single o file view Ha Fv) as S. rewrite <- Sv, Mv in S. exact S. }
    subst ops af. rewrite disk_after_paired by exact P1. rewrite disk_after_save_seq. cbn [disk_after].
    rewrite <- (file_content_blocks file view Wv Fv).
    (* all raw lines are terminated *)
    assert (Rall : Forall (fun r => ends_nl r = true) (flat_map l_raw (s_store s1))).
    { eapply all_raws_terminated; [exact LT|exact (inv_wf _ _ _ I1)|reflexivity|].
      rewrite Raw1. destruct Wg as [Hc _]. rewrite Hc. apply phys_lines_terminated. }
    assert (Rs' : flat_map l_raw store' = flat_map l_raw (s_store s1)) by (apply (set_nth_raws _ _ _ _ En R4)).
    apply (reach_consistent_sorted content _ (blocks_of_store (s_store s1))).
    + rewrite entries_of_app. eapply reach_app; [exact (inv_reach _ _ _ I1)|].
      unfold entries_of. cbn [filter g_file]. rewrite F0, str_eqb_refl. cbn [map g_descr g_lineno].
      apply reach_one. unfold entry_of, act_entry. cbn. left. reflexivity.
    + rewrite entries_of_app, has_sort_app. unfold entries_of at 2. cbn [filter g_file].
      rewrite F0, str_eqb_refl. cbn. apply orb_true_r.
    + rewrite <- (blocks_set_same (s_store s1) first l0 l4 En B4). fold store'.
      unfold blocks_of_store. apply Permutation_flat_map. exact Pv.
    + unfold blocks_of_store. apply Forall_forall. intros b Hb. apply in_flat_map in Hb as (x & Hx & Hb).
      assert (Hx' : In x store') by (eapply Permutation_in; eassumption).
      assert (Bx : Forall (fun b => nil_or_nl (flat_block b)) (blocks_of_line x)).
      { apply blocks_term.
        - rewrite Forall_forall in Ws. apply Ws. exact Hx'.
        - rewrite Forall_forall in Ts. apply Ts. exact Hx'.
        - apply Forall_forall. intros r Hr. rewrite <- Rs' in Rall. rewrite Forall_forall in Rall.
          apply Rall. apply in_flat_map. exists x. auto. }
      rewrite Forall_forall in Bx. apply Bx. exact Hb.
Qed.

(* ---------- without the guard the statement is false ---------- *)

Definition save_consistent_with_log_sorted_full : Prop :=
  forall o keys file content groups evs st,
    o_autofix o = true -> wf_groups content groups -> length keys = length groups ->
    Forall no_sort_event evs ->
    run o keys (evs ++ [ESort]) (init_state file groups) = Ok st ->
    consistent content (entries_of file (s_log st)) (disk_after file content None (s_ops st)) = true.

(* PLIST "b\na\n"; a fix replaces the terminator of line 2 by nothing; the sorter then
   puts the unterminated "a" in front of "b\n": the file is "ab\n" *)
Definition sx_file : str := [47;102]%N.
Definition sx_content : str := [98;10;97;10]%N.
Definition sx_groups : list (list str * str) := [([[98;10]%N], [98]%N); ([[97;10]%N], [97]%N)].
Definition sx_keys : list pkey := map (fun g => new_pkey (snd g)) sx_groups.
Definition sx_evs : list event := [ETxn (Txn 1 [68;46]%N [OReplaceAfter [] [10]%N []])].

Theorem save_consistent_with_log_sorted_refuted : ~ save_consistent_with_log_sorted_full.
Proof.
  intro H.
  destruct (run (Opts true false []) sx_keys (sx_evs ++ [ESort]) (init_state sx_file sx_groups)) as [st|] eqn:R;
    [|vm_compute in R; discriminate].
  assert (W : wf_groups sx_content sx_groups).
  { split; [vm_compute; reflexivity|repeat constructor; discriminate]. }
  specialize (H (Opts true false []) sx_keys sx_file sx_content sx_groups sx_evs st
                eq_refl W eq_refl ltac:(repeat constructor) R).
  vm_compute in R. inversion R; subst st. vm_compute in H. discriminate.
Qed.

Example sorted_refutation_disk :
  exists st, run (Opts true false []) sx_keys (sx_evs ++ [ESort]) (init_state sx_file sx_groups) = Ok st /\
             disk_after sx_file sx_content None (s_ops st) = [97;98;10]%N /\ no_newline_args sx_evs = false.
Proof. eexists. split; [vm_compute; reflexivity|]. split; vm_compute; reflexivity. Qed.
