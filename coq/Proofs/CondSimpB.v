(* C14, part B: the rewrites preserve the value, stated on the syntax trees of
   Spec/BmakeCond.v, independent of the model. *)
From PV Require Import Lib.Bytes Spec.BmakeCond Proofs.CondSimpA.
From Coq Require Import ZifyBool ZifyN ZifyNat.
Open Scope N_scope.

(* If the original condition is inside the fragment, so is the rewritten one;
   and if the original is valid (not malformed), the rewritten one has the same
   value -- in particular it is valid too. *)
Definition preserves (e : env) (f t : cond) : Prop :=
  forall r, eval e f = Some r -> exists r', eval e t = Some r' /\ (r <> TMalformed -> r' = r).

(* both directions: same value, same malformedness *)
Definition equivalent (e : env) (f t : cond) : Prop := eval e f = eval e t.

Lemma equivalent_preserves e f t : equivalent e f t -> preserves e f t.
Proof. unfold equivalent, preserves. intros H r Hf. exists r. split; [congruence|auto]. Qed.

Lemma preserves_refl e f : preserves e f f.
Proof. apply equivalent_preserves. reflexivity. Qed.

(* preservation is compositional: rewriting an operand keeps the value of the
   whole condition (the rewrites replace a part of a larger condition) *)
Lemma preserves_not e f t : preserves e f t -> preserves e (CNot f) (CNot t).
Proof.
  unfold preserves. intros H r. simpl. destruct (eval e f) as [x|]; [|discriminate].
  intros Hr. injection Hr as <-. destruct (H x eq_refl) as (x' & -> & Hx).
  exists (tri_not x'). split; [reflexivity|]. intros Hnm. rewrite Hx; [reflexivity|].
  destruct x; simpl in *; congruence.
Qed.

Lemma preserves_and_r e a f t : preserves e f t -> preserves e (CAnd a f) (CAnd a t).
Proof.
  unfold preserves. intros H r. simpl. destruct (eval e a) as [[| |]|]; try discriminate.
  - intros Hr. exact (H r Hr).
  - destruct (eval e f) as [y|]; [|discriminate]. destruct (H y eq_refl) as (y' & -> & _).
    intros Hr. exists r. split; [exact Hr|auto].
  - intros Hr. exists r. split; [exact Hr|auto].
Qed.

Lemma preserves_and_l e a a' f : preserves e a a' -> eval e f <> None -> preserves e (CAnd a f) (CAnd a' f).
Proof.
  unfold preserves. intros H Hf r. simpl. destruct (eval e a) as [x|]; [|discriminate].
  destruct (H x eq_refl) as (x' & -> & Hx). destruct (eval e f) as [y|]; [|congruence].
  destruct x; try (rewrite Hx by discriminate; intros Hr; exists r; split; [exact Hr|auto]).
  intros Hr. injection Hr as <-. destruct x'; eexists; (split; [reflexivity|congruence]).
Qed.

Lemma preserves_or_r e a f t : preserves e f t -> preserves e (COr a f) (COr a t).
Proof.
  unfold preserves. intros H r. simpl. destruct (eval e a) as [[| |]|]; try discriminate.
  - destruct (eval e f) as [y|]; [|discriminate]. destruct (H y eq_refl) as (y' & -> & _).
    intros Hr. exists r. split; [exact Hr|auto].
  - intros Hr. exact (H r Hr).
  - intros Hr. exists r. split; [exact Hr|auto].
Qed.

Lemma preserves_or_l e a a' f : preserves e a a' -> eval e f <> None -> preserves e (COr a f) (COr a' f).
Proof.
  unfold preserves. intros H Hf r. simpl. destruct (eval e a) as [x|]; [|discriminate].
  destruct (H x eq_refl) as (x' & -> & Hx). destruct (eval e f) as [y|]; [|congruence].
  destruct x; try (rewrite Hx by discriminate; intros Hr; exists r; split; [exact Hr|auto]).
  intros Hr. injection Hr as <-. destruct x'; eexists; (split; [reflexivity|congruence]).
Qed.

(* ---------- closed forms of the three kinds of atoms ---------- *)

Lemma eval_expr_snoc e v ms m d s :
  eval_expr e v ms = Some (d, s) -> eval_expr e v (ms ++ [m]) = apply_mod e m (d, s).
Proof.
  unfold eval_expr. destruct (e v); rewrite apply_mods_app; intros ->; cbn [apply_mods];
    destruct (apply_mod e m (d, s)); reflexivity.
Qed.

Lemma eval_expr_snoc_none e v ms m :
  eval_expr e v ms = None -> eval_expr e v (ms ++ [m]) = None.
Proof. unfold eval_expr. destruct (e v); rewrite apply_mods_app; intros ->; reflexivity. Qed.

Lemma eval_not e c : eval e (CNot c) = option_map tri_not (eval e c).
Proof. reflexivity. Qed.

Definition tri_of_def (d : defstate) (b : bool) : tri :=
  match d with DUndef => TMalformed | _ => tri_of_bool b end.

Lemma eval_empty e v ms d r :
  eval_expr e v ms = Some (d, r) ->
  eval e (CEmpty v ms) = Some (tri_of_bool (negb (nonempty (skip_cspace r)))).
Proof. simpl. intros ->. reflexivity. Qed.

Lemma eval_bare e v ms d r :
  eval_expr e v ms = Some (d, r) ->
  eval e (CLeaf (LExpr v ms)) = Some (tri_of_def d (truthy r false)).
Proof. simpl. intros ->. destruct d; reflexivity. Qed.

Definition rhs_leaf (quoted : bool) (w : str) : leaf := if quoted then LQuoted [PLit w] else LWord w.

Lemma eval_cmp e v ms d s eq quoted w :
  eval_expr e v ms = Some (d, s) ->
  eval e (CCmp (LExpr v ms) eq (rhs_leaf quoted w)) =
  Some (tri_of_def d (if eq then compare_eq s false w quoted else negb (compare_eq s false w quoted))).
Proof.
  cbn [eval eval_leaf]. intros ->. destruct quoted; cbn [rhs_leaf eval_leaf eval_parts option_map];
    rewrite ?app_nil_r; destruct d; reflexivity.
Qed.

Lemma eval_cmp_empty e v ms d s eq :
  eval_expr e v ms = Some (d, s) ->
  eval e (CCmp (LExpr v ms) eq (LQuoted [])) =
  Some (tri_of_def d (if eq then str_eqb s [] else negb (str_eqb s []))).
Proof. cbn [eval eval_leaf]. intros ->. cbn [eval_parts]. destruct d; reflexivity. Qed.

(* ---------- the result of the last :M / :N on at most one word ---------- *)

Lemma last_M_word pat s (matches : str -> bool) :
  wordlike s -> matches s = str_eqb s pat -> pat <> [] ->
  join_sp (filter matches (words s)) = if str_eqb s pat then pat else [].
Proof.
  intros Hs Hm Hp. rewrite filter_word by exact Hs. rewrite Hm.
  destruct (str_eqb s pat) eqn:E.
  - apply str_eqb_spec in E. subst. destruct pat; [congruence|reflexivity].
  - rewrite andb_false_r. reflexivity.
Qed.

Lemma last_N_word pat s (matches : str -> bool) :
  wordlike s -> matches s = str_eqb s pat ->
  join_sp (filter (fun w => negb (matches w)) (words s)) = if str_eqb s pat then [] else s.
Proof.
  intros Hs Hm. rewrite filter_word by exact Hs. rewrite Hm.
  destruct (str_eqb s pat); [rewrite andb_false_r; reflexivity|].
  rewrite andb_true_r. destruct s; reflexivity.
Qed.

(* ---------- the shape shared by simplifyWord and simplifyYesNo ---------- *)

Definition atom (from_empty : bool) (v : str) (ms : list modifier) : cond :=
  if from_empty then CEmpty v ms else CLeaf (LExpr v ms).

(* Model.from_cond, re-stated on modifiers *)
Definition from_shape (neg from_empty : bool) (v : str) (ms : list modifier) : cond :=
  if negb (Bool.eqb neg from_empty) then atom from_empty v ms else CNot (atom from_empty v ms).

Definition u_mods (add_u : bool) : list modifier := if add_u then [ModU []] else [].

Lemma tri_of_def_defined d b : d <> DUndef -> tri_of_def d b = tri_of_bool b.
Proof. destruct d; [reflexivity|congruence|reflexivity]. Qed.

Lemma nonempty_wordlike s : wordlike s -> nonempty (skip_cspace s) = nonempty s.
Proof. intros H. rewrite wordlike_skip by exact H. reflexivity. Qed.

(* The common core.  [cmp_ms] are the modifiers of the comparison's left side
   (prefix, or prefix + :tl), [key s] is what that left side evaluates to for the
   word s (s itself, or its lower-case form), [w] is the literal it is compared
   with; the pattern [pat] of the last modifier matches a word s iff key s = w. *)
Lemma eval_expr_u e v ms add_u d s :
  eval_expr e v ms = Some (d, s) ->
  exists d', eval_expr e v (u_mods add_u ++ ms) = Some (d', s)
             /\ (add_u = true -> d' <> DUndef) /\ (add_u = false -> d' = d).
Proof.
  intros H. destruct add_u; simpl.
  - destruct (eval_expr_with_U e v ms d s H) as (d' & H1 & H2). exists d'. repeat split; auto; discriminate.
  - exists d. repeat split; auto; discriminate.
Qed.

Section Core.
  Variables (e : env) (v : str) (pms cmp_ms : list modifier) (pat w : str).
  Variable key : str -> str.
  Variables (positive from_empty neg add_u quoted : bool).

  Let last_mod := if positive then ModM pat else ModN pat.
  Let from := from_shape neg from_empty v (pms ++ [last_mod]).
  Let to := CCmp (LExpr v (u_mods add_u ++ cmp_ms)) (Bool.eqb neg positive) (rhs_leaf quoted w).

  (* the pattern has no nested reference: it is matched as written *)
  Hypothesis Hpat : expand_pat e pat = Some pat.
  Hypothesis Hkey_match : forall s, wordlike s -> str_match s pat = str_eqb (key s) w.
  Hypothesis Hkey_nil : key [] = [].
  Hypothesis Hw_ne : w <> [].
  Hypothesis Hcmp : forall d s, eval_expr e v (u_mods add_u ++ pms) = Some (d, s) ->
                               eval_expr e v (u_mods add_u ++ cmp_ms) = Some (d, key s).
  Hypothesis Hw_string : quoted = true \/ try_parse_number w = None.

  Theorem core_preserves d s :
    eval_expr e v pms = Some (d, s) -> wordlike s ->
    (* the variable cannot be undefined where pkglint did not add :U, unless the
       original is the bare form, which is then malformed itself *)
    (add_u = false -> from_empty = true -> d <> DUndef) ->
    (* a word that matches is "true" as a bare expression *)
    (from_empty = false -> positive = true -> str_match s pat = true -> truthy s false = true) ->
    (* :N: the value is not empty, and as a bare expression it is "true" *)
    (positive = false -> s <> [] /\ (from_empty = false -> truthy s false = true)) ->
    preserves e from to.
  Proof.
    intros Hev Hs Hdef Hbare HN r Hf.
    assert (Hm := Hkey_match s Hs).
    set (m := str_eqb (key s) w) in *.
    assert (Hs_ne : m = true -> s <> []).
    { subst m. intros E ->. rewrite Hkey_nil in E. apply str_eqb_spec in E. congruence. }
    assert (Hmdef : str_eqb (key s) w = m) by reflexivity.
    clearbody m.
    (* the value of the last modifier *)
    set (res := if positive then (if m then s else []) else (if m then [] else s)).
    assert (Hres : eval_expr e v (pms ++ [last_mod]) = Some (d, res)).
    { rewrite (eval_expr_snoc e v pms last_mod d s Hev). subst last_mod res.
      destruct positive; cbn [apply_mod]; rewrite Hpat; rewrite filter_word by exact Hs; rewrite Hm.
      - destruct m; [|rewrite andb_false_r; reflexivity]. rewrite andb_true_r. destruct s; reflexivity.
      - destruct m; [rewrite andb_false_r; reflexivity|]. rewrite andb_true_r. destruct s; reflexivity. }
    assert (Hres_word : wordlike res).
    { subst res. destruct positive, m; try exact Hs; exact wordlike_nil. }
    (* what the original tests about that value *)
    assert (Hne : nonempty res = if positive then m else negb m).
    { subst res. destruct positive.
      - destruct m eqn:E; [|reflexivity]. destruct s; [exfalso; apply Hs_ne; reflexivity|reflexivity].
      - destruct HN as [Hne _]; [reflexivity|]. destruct m; [reflexivity|]. destruct s; [congruence|reflexivity]. }
    assert (Htr : from_empty = false -> truthy res false = if positive then m else negb m).
    { intros Hfe. subst res. destruct positive.
      - destruct m eqn:E; [|reflexivity]. apply Hbare; [exact Hfe|reflexivity|exact Hm].
      - destruct HN as [_ Ht]; [reflexivity|]. destruct m; [reflexivity|]. apply Ht. exact Hfe. }
    (* the rewritten condition *)
    destruct (eval_expr_u e v pms add_u d s Hev) as (d' & Hu & Hd1 & Hd2).
    pose proof (Hcmp d' s Hu) as Hc.
    subst to. rewrite (eval_cmp _ _ _ _ _ _ _ _ Hc).
    rewrite compare_eq_string by (destruct Hw_string; auto). rewrite Hmdef.
    eexists. split; [reflexivity|]. intros Hnm.
    (* the original is valid: the left side of the comparison is defined *)
    subst from. unfold from_shape, atom in Hf.
    assert (Hd : d' <> DUndef).
    { destruct add_u; [apply Hd1; reflexivity|]. rewrite Hd2 by reflexivity.
      destruct from_empty eqn:Hfe; [apply Hdef; reflexivity|].
      intros ->. destruct neg; cbn [Bool.eqb negb] in Hf; rewrite ?eval_not in Hf;
        rewrite (eval_bare _ _ _ _ _ Hres) in Hf; simpl in Hf; congruence. }
    rewrite tri_of_def_defined by exact Hd.
    destruct from_empty.
    - (* empty(...) / !empty(...) *)
      assert (Hval : eval e (CEmpty v (pms ++ [last_mod])) = Some (tri_of_bool (negb (nonempty res)))).
      { rewrite (eval_empty _ _ _ _ _ Hres). rewrite nonempty_wordlike by exact Hres_word. reflexivity. }
      rewrite Hne in Hval.
      destruct neg; cbn [Bool.eqb negb] in Hf; rewrite ?eval_not in Hf; rewrite Hval in Hf; injection Hf as <-;
        destruct positive, m; reflexivity.
    - (* ${...} / !${...} *)
      assert (Hdd : d <> DUndef).
      { intros ->. destruct neg; cbn [Bool.eqb negb] in Hf; rewrite ?eval_not in Hf;
          rewrite (eval_bare _ _ _ _ _ Hres) in Hf; simpl in Hf; congruence. }
      assert (Hval : eval e (CLeaf (LExpr v (pms ++ [last_mod]))) = Some (tri_of_bool (truthy res false))).
      { rewrite (eval_bare _ _ _ _ _ Hres). rewrite tri_of_def_defined by exact Hdd. reflexivity. }
      rewrite Htr in Hval by reflexivity.
      destruct neg; cbn [Bool.eqb negb] in Hf; rewrite ?eval_not in Hf; rewrite Hval in Hf; injection Hf as <-;
        destruct positive, m; reflexivity.
  Qed.
End Core.
