(* A generic invariant principle for the Logger machine: a predicate on the Logger
   state that survives the primitive updates (field setters, writes of
   XPrint-only strings, Separate, Logf) survives every event and every run.
   Instantiated in Proofs/LoggerOut.v (output safety, counters). *)
From PV Require Import Lib.Bytes Lib.Utf8 Model.Escape Model.Logger Proofs.Escape.
Open Scope N_scope.

Section Invariant.
  Variable P : logger -> Prop.
  Hypothesis P_suppress_diag : forall l v, P l -> P (set_suppress_diag l v).
  Hypothesis P_suppress_expl : forall l v, P l -> P (set_suppress_expl l v).
  Hypothesis P_logged : forall l v, P l -> P (set_logged l v).
  Hypothesis P_prev_line : forall l v, P l -> P (set_prev_line l v).
  Hypothesis P_explained : forall l v, P l -> P (set_explained l v).
  Hypothesis P_expl_avail : forall l v, P l -> P (set_expl_avail l v).
  Hypothesis P_fix_avail : forall l v, P l -> P (set_fix_avail l v).
  Hypothesis P_panicked : forall l v, P l -> P (set_panicked l v).
  Hypothesis P_out_write : forall l s, safe s -> P l -> P (out_write l s).
  Hypothesis P_out_separate : forall l, P l -> P (out_separate l).
  Hypothesis P_err_write : forall l s, safe s -> P l -> P (set_err l (sw_write (l_err l) s)).
  Hypothesis P_logf : forall o l lv f n m, P l -> P (logf o l lv f n m).

  Lemma inv_out_write_line l s : safe s -> P l -> P (out_write_line l s).
  Proof.
    intros Hs Hl. unfold out_write_line, sw_write_line.
    assert (set_out l (sw_write_byte (sw_write (l_out l) s) 10) = out_write (out_write l s) [10]) as ->
        by (destruct l; reflexivity).
    apply P_out_write; [repeat constructor|]. apply P_out_write; assumption.
  Qed.

  Lemma inv_write_line l p t : safe p -> P l -> P (write_line l p t).
  Proof.
    intros Hp Hl. unfold write_line.
    assert (P (out_write (out_write l p) (escape_printable t))) as H
        by (apply P_out_write; [apply escape_printable_safe|apply P_out_write; assumption]).
    destruct (has_suffix_nl t); [assumption|]. apply P_out_write; [repeat constructor|assumption].
  Qed.

  Lemma inv_write_lines l p ts : safe p -> P l -> P (write_lines l p ts).
  Proof.
    intro Hp. unfold write_lines. revert l. induction ts as [|t ts IH]; intros l Hl; simpl; [assumption|].
    apply IH, inv_write_line; assumption.
  Qed.

  Lemma inv_write_diff_lines l p raws texts flags : safe p -> P l -> P (write_diff_lines l p raws texts flags).
  Proof.
    intro Hp. revert l texts flags. induction raws as [|r raws IH]; intros l texts flags Hl; simpl; [assumption|].
    destruct flags as [|f flags]; [assumption|]. apply IH.
    destruct f; [|apply inv_write_line; assumption].
    assert (P (write_line l [45; 9] r)) as H by (apply inv_write_line; [repeat constructor|assumption]).
    destruct (nonempty_list (hd [] texts)); [apply inv_write_line; [repeat constructor|assumption]|assumption].
  Qed.

  Lemma inv_write_diff o l ln fv : P l -> P (write_diff o l ln fv).
  Proof.
    intro Hl. unfold write_diff. destruct (is_autofix o).
    - destruct (changed_flags (ln_raws ln) (fv_texts fv)) as [flags|]; [|apply P_panicked; assumption].
      apply inv_write_diff_lines; [|assumption]. destruct (existsb (fun b => b) flags); repeat constructor.
    - apply inv_write_diff_lines; [repeat constructor|assumption].
  Qed.

  Lemma inv_write_source o l ln fv : P l -> P (write_source o l ln fv).
  Proof.
    intro Hl. unfold write_source. destruct (negb (lo_show_source o)); [assumption|].
    destruct (is_autofix o).
    - apply P_out_separate, inv_write_lines; [repeat constructor|].
      apply inv_write_diff, inv_write_lines; [repeat constructor|assumption].
    - destruct (match l_prev_line l with Some p => p =? ln_id ln | None => false end); [assumption|].
      apply inv_write_diff, P_out_separate, P_prev_line. assumption.
  Qed.

  Lemma inv_fold {A} (f : logger -> A -> logger) xs l :
    (forall l x, P l -> P (f l x)) -> P l -> P (fold_left f xs l).
  Proof. intro Hf. revert l. induction xs as [|x xs IH]; intros l Hl; simpl; [assumption|]. apply IH, Hf, Hl. Qed.

  Lemma inv_explain o l e : P l -> P (explain o l e).
  Proof.
    intro Hl. unfold explain. destruct (l_suppress_expl l); [assumption|].
    assert (P (set_expl_avail l true)) as H1 by (apply P_expl_avail; assumption).
    destruct (negb (lo_explain o)); [assumption|].
    destruct (once_seen _ _); [assumption|].
    apply inv_out_write_line; [constructor|].
    apply inv_fold.
    - intros l0 x H0. apply inv_out_write_line; [apply escape_printable_safe|].
      destruct (nonempty_list x); [apply P_out_write; [repeat constructor|assumption]|assumption].
    - apply P_out_separate, P_prev_line, P_explained. assumption.
  Qed.

  Lemma inv_relevant o l f : P l -> P (snd (relevant o l f)).
  Proof. intro Hl. unfold relevant. cbn [snd]. apply P_suppress_expl, P_suppress_diag, Hl. Qed.

  Lemma inv_first_time l f n m : P l -> P (snd (first_time l f n m)).
  Proof.
    intro Hl. unfold first_time. destruct (once_seen _ _); cbn [snd].
    - apply P_suppress_expl, P_suppress_diag, Hl.
    - apply P_logged, Hl.
  Qed.

  Lemma inv_diag o l ln lv f m : P l -> P (diag o l ln lv f m).
  Proof.
    intro Hl. unfold diag. destruct (is_autofix o); [apply P_suppress_expl, Hl|].
    pose proof (inv_relevant o l f Hl) as H1. destruct (relevant o l f) as [r la]. cbn [snd] in H1.
    destruct (negb r); [assumption|].
    pose proof (inv_first_time la (ln_file ln) (linenos ln) m H1) as H2.
    destruct (first_time la (ln_file ln) (linenos ln) m) as [ft lb]. cbn [snd] in H2.
    destruct (negb ft); [apply P_suppress_diag, H2|].
    apply P_logf. destruct (lo_show_source o); [|assumption].
    apply inv_write_source.
    destruct (match l_prev_line lb with Some p => p =? ln_id ln | None => false end); [assumption|apply P_out_separate, H2].
  Qed.

  Lemma inv_apply_fix o l ln fv lv f m e actions : P l -> P (apply_fix o l ln fv lv f m e actions).
  Proof.
    intro Hl. unfold apply_fix.
    pose proof (inv_relevant o l f Hl) as H1. destruct (relevant o l f) as [r la]. cbn [snd] in H1.
    destruct (negb (r && (nonempty_list actions || negb (is_autofix o)))); [assumption|].
    set (logDiagnostic := if str_eqb f silent_autofix_format then false
                          else if lo_autofix o && negb (lo_show_autofix o) then false else true).
    set (lb := if logDiagnostic then logf o _ lv (ln_file ln) (affected_linenos ln actions) m else la).
    assert (P lb) as H2.
    { unfold lb. destruct logDiagnostic; [|assumption]. apply P_logf.
      destruct (is_autofix o); [assumption|].
      pose proof (inv_first_time la (ln_file ln) (affected_linenos ln actions) m H1) as H3.
      destruct (first_time la (ln_file ln) (affected_linenos ln actions) m) as [ft lb0]. cbn [snd] in H3.
      destruct ft; [apply inv_write_source|]; assumption. }
    clearbody lb.
    set (lc := if is_autofix o then write_source o (fold_left _ actions lb) ln fv else lb).
    assert (P lc) as H3.
    { unfold lc. destruct (is_autofix o); [|assumption]. apply inv_write_source, inv_fold; [|assumption].
      intros l0 a H0. apply P_logf, H0. }
    clearbody lc.
    destruct (logDiagnostic && nonempty_list e); [apply inv_explain|]; assumption.
  Qed.

  Lemma inv_hint l args a w : safe w -> P l -> P (hint l args a w).
  Proof.
    intros Hw Hl. unfold hint, command_line. destruct args as [|a0 rest]; [apply P_panicked, Hl|].
    apply inv_out_write_line; [|assumption].
    repeat (apply safe_cons; [reflexivity|]).
    apply safe_app; [apply escape_printable_safe|].
    repeat (apply safe_cons; [reflexivity|]).
    apply safe_app; [assumption|]. repeat constructor.
  Qed.

  Hypothesis summary_line_safe : forall e w n, safe (summary_line e w n).

  Lemma inv_show_summary o l args : P l -> P (show_summary o l args).
  Proof.
    intro Hl. unfold show_summary. destruct (lo_quiet o || lo_autofix o); [assumption|].
    set (l1 := if lo_show_source o then out_separate l else l).
    assert (P l1) as H1 by (unfold l1; destruct (lo_show_source o); [apply P_out_separate|]; assumption).
    set (l2 := out_write l1 _).
    assert (P l2) as H2 by (unfold l2; apply P_out_write; [apply summary_line_safe|assumption]).
    clearbody l2. clear l1 H1.
    set (l3 := if l_expl_avail l2 && negb (lo_explain o) then hint l2 args _ _ else l2).
    assert (P l3) as H3.
    { unfold l3. destruct (l_expl_avail l2 && negb (lo_explain o)); [apply inv_hint; [repeat constructor|]|]; assumption. }
    clearbody l3.
    destruct (l_fix_avail l3); [|assumption].
    apply inv_hint; [repeat constructor|].
    destruct (negb (lo_show_autofix o)); [apply inv_hint; [repeat constructor|]|]; assumption.
  Qed.

  Lemma inv_step o l ev : P l -> P (log_step o l ev).
  Proof.
    intro Hl. destruct ev; cbn [log_step].
    - apply inv_diag, Hl.
    - apply inv_explain, Hl.
    - apply inv_apply_fix, Hl.
    - unfold saved. destruct (negb (lo_autofix o) && modified); [apply P_fix_avail|]; assumption.
    - unfold tech_error. apply P_err_write; [apply escape_printable_safe|assumption].
    - apply inv_show_summary, Hl.
  Qed.

  Theorem inv_run o evs : P new_logger -> P (log_run o evs).
  Proof. intro H0. unfold log_run. apply inv_fold; [intros; apply inv_step; assumption|assumption]. Qed.
End Invariant.
