(* A generic invariant principle for the Logger machine: a predicate on the Logger
   state that survives the primitive updates (field setters, writes of complete
   XPrint-only lines, Separate, Logf) survives every event and every run.
   Instantiated in Proofs/LoggerOut.v (output safety, counters, no panic). *)
From PV Require Import Lib.Bytes Lib.Utf8 Model.Escape Model.Logger Proofs.Escape.
Open Scope N_scope.

(* events for which the two index expressions of the Go code are in range:
   line.fix.texts[rawIndex] in writeDiff and args[0] in ShowSummary *)
Definition wf_event (ev : event) : Prop :=
  match ev with
  | EvFix ln fv _ _ _ _ _ => (length (ln_raws ln) <= length (fv_texts fv))%nat
  | EvSummary args => args <> []
  | _ => True
  end.

Lemma has_suffix_nl_ends t : has_suffix_nl t = true -> ends_nl t.
Proof.
  induction t as [|c t IH]; [discriminate|]. cbn [has_suffix_nl]. destruct t as [|c' t].
  - intro H. apply N.eqb_eq in H. subst. exists []. reflexivity.
  - intro H. destruct (IH H) as [p Hp]. exists (c :: p). rewrite Hp. reflexivity.
Qed.

Lemma changed_flags_some raws texts : (length raws <= length texts)%nat -> changed_flags raws texts <> None.
Proof.
  revert texts. induction raws as [|r raws IH]; intros texts Hl; cbn [changed_flags]; [discriminate|].
  destruct texts as [|t texts]; [simpl in Hl; lia|]. simpl in Hl.
  specialize (IH texts ltac:(lia)). destruct (changed_flags raws texts); [discriminate|congruence].
Qed.

Section Invariant.
  Variable P : logger -> Prop.
  (* PanicOK: P does not care about the ghost flag l_panicked; otherwise the events must be well-formed *)
  Variable PanicOK : Prop.
  Hypothesis P_suppress_diag : forall l v, P l -> P (set_suppress_diag l v).
  Hypothesis P_suppress_expl : forall l v, P l -> P (set_suppress_expl l v).
  Hypothesis P_logged : forall l v, P l -> P (set_logged l v).
  Hypothesis P_prev_line : forall l v, P l -> P (set_prev_line l v).
  Hypothesis P_explained : forall l v, P l -> P (set_explained l v).
  Hypothesis P_expl_avail : forall l v, P l -> P (set_expl_avail l v).
  Hypothesis P_fix_avail : forall l v, P l -> P (set_fix_avail l v).
  Hypothesis P_panicked : forall l, PanicOK -> P l -> P (set_panicked l true).
  (* some pieces and then a piece that ends the line *)
  Hypothesis P_writes : forall l ws w, Forall safe ws -> safe w -> ends_nl w -> P l ->
    P (out_write (fold_left out_write ws l) w).
  Hypothesis P_out_separate : forall l, P l -> P (out_separate l).
  Hypothesis P_err_write : forall l s, safe s -> P l -> P (set_err l (sw_write (l_err l) s)).
  Hypothesis P_logf : forall o l lv f n m, P l -> P (logf o l lv f n m).

  Lemma inv_out_write l w : safe w -> ends_nl w -> P l -> P (out_write l w).
  Proof. intros Hs He Hl. apply (P_writes l [] w); auto. Qed.

  Lemma nl_safe : safe [10]. Proof. repeat constructor. Qed.
  Lemma nl_ends : ends_nl [10]. Proof. exists []. reflexivity. Qed.

  Lemma inv_out_write_line l s : safe s -> P l -> P (out_write_line l s).
  Proof.
    intros Hs Hl. unfold out_write_line, sw_write_line.
    assert (set_out l (sw_write_byte (sw_write (l_out l) s) 10) = out_write (fold_left out_write [s] l) [10]) as ->
        by (destruct l; reflexivity).
    apply P_writes; [repeat constructor; assumption|apply nl_safe|apply nl_ends|assumption].
  Qed.

  Lemma inv_write_line l p t : safe p -> P l -> P (write_line l p t).
  Proof.
    intros Hp Hl. unfold write_line.
    destruct (has_suffix_nl t) eqn:E.
    - apply (P_writes l [p] (escape_printable t)); [repeat constructor; assumption|apply escape_printable_safe| |assumption].
      apply escape_ends_nl, has_suffix_nl_ends, E.
    - apply (P_writes l [p; escape_printable t] [10]); [|apply nl_safe|apply nl_ends|assumption].
      repeat constructor; [assumption|apply escape_printable_safe].
  Qed.

  Lemma inv_write_lines l p ts : safe p -> P l -> P (write_lines l p ts).
  Proof.
    intro Hp. unfold write_lines. revert l. induction ts as [|t ts IH]; intros l Hl; simpl; [assumption|].
    apply IH, inv_write_line; assumption.
  Qed.

  Lemma inv_write_diff_lines l p raws texts flags : safe p -> P l -> P (write_diff_lines l p raws texts flags).
  Proof.
    intro Hp. revert l texts flags. induction raws as [|r raws IH]; intros l texts flags Hl; simpl; [assumption|].
    destruct flags as [|f flags]; [assumption|]. apply IH.
    destruct f; [|apply inv_write_line; assumption].
    assert (P (write_line l [45; 9] r)) as H by (apply inv_write_line; [repeat constructor|assumption]).
    destruct (nonempty_list (hd [] texts)); [apply inv_write_line; [repeat constructor|assumption]|assumption].
  Qed.

  Lemma inv_write_diff o l ln fv :
    PanicOK \/ (length (ln_raws ln) <= length (fv_texts fv))%nat \/ is_autofix o = false ->
    P l -> P (write_diff o l ln fv).
  Proof.
    intros Hw Hl. unfold write_diff. destruct (is_autofix o).
    - destruct (changed_flags (ln_raws ln) (fv_texts fv)) as [flags|] eqn:E.
      + apply inv_write_diff_lines; [|assumption]. destruct (existsb (fun b => b) flags); repeat constructor.
      + destruct Hw as [Hw|[Hw|Hw]]; [apply P_panicked; assumption| |discriminate].
        exfalso. exact (changed_flags_some _ _ Hw E).
    - apply inv_write_diff_lines; [repeat constructor|assumption].
  Qed.

  Lemma inv_write_source o l ln fv :
    PanicOK \/ (length (ln_raws ln) <= length (fv_texts fv))%nat \/ is_autofix o = false ->
    P l -> P (write_source o l ln fv).
  Proof.
    intros Hw Hl. unfold write_source. destruct (negb (lo_show_source o)); [assumption|].
    destruct (is_autofix o) eqn:Em.
    - apply P_out_separate, inv_write_lines; [repeat constructor|].
      apply inv_write_diff; [rewrite Em; assumption|]. apply inv_write_lines; [repeat constructor|assumption].
    - destruct (match l_prev_line l with Some p => p =? ln_id ln | None => false end); [assumption|].
      apply inv_write_diff; [rewrite Em; auto|]. apply P_out_separate, P_prev_line. assumption.
  Qed.

  Lemma inv_fold {A} (f : logger -> A -> logger) xs l :
    (forall l x, P l -> P (f l x)) -> P l -> P (fold_left f xs l).
  Proof. intro Hf. revert l. induction xs as [|x xs IH]; intros l Hl; simpl; [assumption|]. apply IH, Hf, Hl. Qed.

  Lemma inv_explain o l e : P l -> P (explain o l e).
  Proof.
    intro Hl. unfold explain. destruct (l_suppress_expl l); [assumption|].
    assert (P (set_expl_avail l true)) as H1 by (apply P_expl_avail; assumption).
    destruct (negb (lo_explain o)); [assumption|].
    destruct (once_seen _ _); [assumption|].
    apply inv_out_write_line; [constructor|].
    apply inv_fold.
    - intros l0 x H0. destruct (nonempty_list x).
      + unfold out_write_line, sw_write_line.
        assert (set_out (out_write l0 [9]) (sw_write_byte (sw_write (l_out (out_write l0 [9])) (escape_printable x)) 10)
                = out_write (fold_left out_write [[9]; escape_printable x] l0) [10]) as -> by (destruct l0; reflexivity).
        apply P_writes; [|apply nl_safe|apply nl_ends|assumption].
        repeat constructor. apply escape_printable_safe.
      + apply inv_out_write_line; [apply escape_printable_safe|assumption].
    - apply P_out_separate, P_prev_line, P_explained. assumption.
  Qed.

  Lemma inv_relevant o l f : P l -> P (snd (relevant o l f)).
  Proof. intro Hl. unfold relevant. cbn [snd]. apply P_suppress_expl, P_suppress_diag, Hl. Qed.

  Lemma inv_first_time l f n m : P l -> P (snd (first_time l f n m)).
  Proof.
    intro Hl. unfold first_time. destruct (once_seen _ _); cbn [snd].
    - apply P_suppress_expl, P_suppress_diag, Hl.
    - apply P_logged, Hl.
  Qed.

  Lemma inv_diag o l ln lv f m : P l -> P (diag o l ln lv f m).
  Proof.
    intro Hl. unfold diag. destruct (is_autofix o) eqn:Em; [apply P_suppress_expl, Hl|].
    pose proof (inv_relevant o l f Hl) as H1. destruct (relevant o l f) as [r la]. cbn [snd] in H1.
    destruct (negb r); [assumption|].
    pose proof (inv_first_time la (ln_file ln) (linenos ln) m H1) as H2.
    destruct (first_time la (ln_file ln) (linenos ln) m) as [ft lb]. cbn [snd] in H2.
    destruct (negb ft); [apply P_suppress_diag, H2|].
    apply P_logf. destruct (lo_show_source o); [|assumption].
    apply inv_write_source; [auto|].
    destruct (match l_prev_line lb with Some p => p =? ln_id ln | None => false end); [assumption|apply P_out_separate, H2].
  Qed.

  Lemma inv_apply_fix o l ln fv lv f m e actions :
    PanicOK \/ (length (ln_raws ln) <= length (fv_texts fv))%nat ->
    P l -> P (apply_fix o l ln fv lv f m e actions).
  Proof.
    intros Hw Hl. unfold apply_fix.
    assert (PanicOK \/ (length (ln_raws ln) <= length (fv_texts fv))%nat \/ is_autofix o = false) as Hw' by tauto.
    pose proof (inv_relevant o l f Hl) as H1. destruct (relevant o l f) as [r la]. cbn [snd] in H1.
    destruct (negb (r && (nonempty_list actions || negb (is_autofix o)))); [assumption|].
    set (logDiagnostic := if str_eqb f silent_autofix_format then false
                          else if lo_autofix o && negb (lo_show_autofix o) then false else true).
    set (lb := if logDiagnostic then logf o _ lv (ln_file ln) (affected_linenos ln actions) m else la).
    assert (P lb) as H2.
    { unfold lb. destruct logDiagnostic; [|assumption]. apply P_logf.
      destruct (is_autofix o) eqn:Em; [assumption|].
      pose proof (inv_first_time la (ln_file ln) (affected_linenos ln actions) m H1) as H3.
      destruct (first_time la (ln_file ln) (affected_linenos ln actions) m) as [ft lb0]. cbn [snd] in H3.
      destruct ft; [apply inv_write_source; [auto|]|]; assumption. }
    clearbody lb.
    set (lc := if is_autofix o then write_source o (fold_left _ actions lb) ln fv else lb).
    assert (P lc) as H3.
    { unfold lc. destruct (is_autofix o) eqn:Em; [|assumption]. apply inv_write_source; [tauto|].
      apply inv_fold; [|assumption]. intros l0 a H0. apply P_logf, H0. }
    clearbody lc.
    destruct (logDiagnostic && nonempty_list e); [apply inv_explain|]; assumption.
  Qed.

  Lemma inv_hint l args a w : PanicOK \/ args <> [] -> safe w -> P l -> P (hint l args a w).
  Proof.
    intros Hw Hs Hl. unfold hint, command_line. destruct args as [|a0 rest].
    - destruct Hw as [Hw|Hw]; [apply P_panicked; assumption|congruence].
    - apply inv_out_write_line; [|assumption].
      repeat (apply safe_cons; [reflexivity|]).
      apply safe_app; [apply escape_printable_safe|].
      repeat (apply safe_cons; [reflexivity|]).
      apply safe_app; [assumption|]. repeat constructor.
  Qed.

  Hypothesis summary_line_safe : forall e w n, safe (summary_line e w n).
  Hypothesis summary_line_ends : forall e w n, ends_nl (summary_line e w n).

  Lemma inv_show_summary o l args : PanicOK \/ args <> [] -> P l -> P (show_summary o l args).
  Proof.
    intros Hw Hl. unfold show_summary. destruct (lo_quiet o || lo_autofix o); [assumption|].
    set (l1 := if lo_show_source o then out_separate l else l).
    assert (P l1) as H1 by (unfold l1; destruct (lo_show_source o); [apply P_out_separate|]; assumption).
    set (l2 := out_write l1 _).
    assert (P l2) as H2 by (unfold l2; apply inv_out_write; [apply summary_line_safe|apply summary_line_ends|assumption]).
    clearbody l2. clear l1 H1.
    set (l3 := if l_expl_avail l2 && negb (lo_explain o) then hint l2 args _ _ else l2).
    assert (P l3) as H3.
    { unfold l3. destruct (l_expl_avail l2 && negb (lo_explain o)); [apply inv_hint; [assumption|repeat constructor|]|]; assumption. }
    clearbody l3.
    destruct (l_fix_avail l3); [|assumption].
    apply inv_hint; [assumption|repeat constructor|].
    destruct (negb (lo_show_autofix o)); [apply inv_hint; [assumption|repeat constructor|]|]; assumption.
  Qed.

  Lemma inv_step o l ev : PanicOK \/ wf_event ev -> P l -> P (log_step o l ev).
  Proof.
    intros Hw Hl. destruct ev; cbn [log_step]; cbn [wf_event] in Hw.
    - apply inv_diag, Hl.
    - apply inv_explain, Hl.
    - apply inv_apply_fix; assumption.
    - unfold saved. destruct (negb (lo_autofix o) && modified); [apply P_fix_avail|]; assumption.
    - unfold tech_error. apply P_err_write; [apply escape_printable_safe|assumption].
    - apply inv_show_summary; assumption.
  Qed.

  Theorem inv_run o evs : PanicOK \/ Forall wf_event evs -> P new_logger -> P (log_run o evs).
  Proof.
    intros Hw H0. unfold log_run. generalize dependent new_logger.
    induction evs as [|ev evs IH]; intros l Hl; simpl; [assumption|].
    apply IH.
    - destruct Hw as [Hw|Hw]; [auto|]. right. inversion Hw; assumption.
    - apply inv_step; [|assumption]. destruct Hw as [Hw|Hw]; [auto|]. right. inversion Hw; assumption.
  Qed.
End Invariant.
