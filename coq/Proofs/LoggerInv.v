(* A generic invariant principle for the Logger machine: a predicate on the Logger
   state that survives the primitive updates (field setters, writes of complete
   XPrint-only lines, Separate, Logf) survives every event and every run.
   Instantiated in Proofs/LoggerOut.v (output safety, counters, no panic). *)
From PV Require Import Lib.Bytes Lib.Utf8 Model.Escape Model.Logger Proofs.Escape.
Open Scope N_scope.

(* events for which the two index expressions of the Go code are in range:
   line.fix.texts[rawIndex] in writeDiff and args[0] in ShowSummary *)
Definition wf_event (ev : event) : Prop :=
  match ev with
  | EvFix ln fv _ _ _ _ _ => (length (ln_raws ln) <= length (fv_texts fv))%nat
  | EvSummary args => args <> []
  | _ => True
  end.

Lemma has_suffix_nl_ends t : has_suffix_nl t = true -> ends_nl t.
Proof.
  induction t as [|c t IH]; [discriminate|]. cbn [has_suffix_nl]. destruct t as [|c' t].
  - intro H. apply N.eqb_eq in H. subst. exists []. reflexivity.
  - intro H. destruct (IH H) as [p Hp]. exists (c :: p). rewrite Hp. reflexivity.
Qed.

Lemma changed_flags_some raws texts : (length raws <= length texts)%nat -> changed_flags raws texts <> None.
Proof.
  revert texts. induction raws as [|r raws IH]; intros texts Hl; cbn [changed_flags]; [discriminate|].
  destruct texts as [|t texts]; [simpl in Hl; lia|]. simpl in Hl.
  specialize (IH texts ltac:(lia)). destruct (changed_flags raws texts); [discriminate|congruence].
Qed.

(* the four prefixes of writeLine *)
Definition src_prefixes : list str := [[62; 9]; [9]; [43; 9]; [45; 9]].   (* ">\t" "\t" "+\t" "-\t" *)

(* what writeLine(prefix, t) writes *)
Definition src_unit (p t : str) : str :=
  p ++ escape_printable t ++ (if has_suffix_nl t then [] else [10]).

(* what Explain writes for one wrapped line *)
Definition expl_unit (x : str) : str :=
  (if nonempty_list x then [9] else []) ++ escape_printable x ++ [10].

(* what ShowSummary writes as a hint *)
Definition hint_unit (cl what : str) : str :=
  [40; 82; 117; 110; 32; 34] ++ cl ++ [34; 32; 116; 111; 32] ++ what ++ [46; 41] ++ [10].

Definition hint_e : str * str := ([45; 101], [115; 104; 111; 119; 32; 101; 120; 112; 108; 97; 110; 97; 116; 105; 111; 110; 115]).
Definition hint_fs : str * str := ([45; 102; 115], [115; 104; 111; 119; 32; 119; 104; 97; 116; 32; 99; 97; 110; 32; 98; 101; 32; 102; 105; 120; 101; 100; 32; 97; 117; 116; 111; 109; 97; 116; 105; 99; 97; 108; 108; 121]).
Definition hint_F : str * str := ([45; 70], [97; 117; 116; 111; 109; 97; 116; 105; 99; 97; 108; 108; 121; 32; 102; 105; 120; 32; 115; 111; 109; 101; 32; 105; 115; 115; 117; 101; 115]).

Section Invariant.
  Variable o : opts.
  Variable P : logger -> Prop.
  (* PanicOK: P does not care about the ghost flag l_panicked; otherwise the events must be well-formed *)
  Variable PanicOK : Prop.
  (* GL u: u is an acceptable unit of output -- the bytes written between two line boundaries *)
  Variable GL : str -> Prop.
  (* LogOK lv file linenos msg: acceptable arguments of Logf *)
  Variable LogOK : level -> str -> str -> str -> Prop.
  Hypothesis P_suppress_diag : forall l v, P l -> P (set_suppress_diag l v).
  Hypothesis P_suppress_expl : forall l v, P l -> P (set_suppress_expl l v).
  Hypothesis P_logged : forall l v, P l -> P (set_logged l v).
  Hypothesis P_prev_line : forall l v, P l -> P (set_prev_line l v).
  Hypothesis P_explained : forall l v, P l -> P (set_explained l v).
  Hypothesis P_expl_avail : forall l v, P l -> P (set_expl_avail l v).
  Hypothesis P_fix_avail : forall l v, P l -> P (set_fix_avail l v).
  Hypothesis P_panicked : forall l, PanicOK -> P l -> P (set_panicked l true).
  (* some pieces and then a piece that ends the unit *)
  Hypothesis P_writes : forall l ws w, GL (concat ws ++ w) -> P l ->
    P (out_write (fold_left out_write ws l) w).
  Hypothesis P_out_separate : forall l, P l -> P (out_separate l).
  Hypothesis P_err_write : forall l s, safe s -> P l -> P (set_err l (sw_write (l_err l) s)).
  Hypothesis P_logf : forall l lv f n m, LogOK lv f n m -> P l -> P (logf o l lv f n m).
  Hypothesis GL_summary_line : forall e w n, GL (summary_line e w n).

  Definition src_ok (t : str) : Prop := forall p, In p src_prefixes -> GL (src_unit p t).
  Definition view_ok (ln : line) (fv : fixview) : Prop :=
    Forall src_ok (ln_raws ln) /\ Forall src_ok (fv_above fv) /\ Forall src_ok (fv_texts fv) /\ Forall src_ok (fv_below fv).
  Definition explanation_ok (e : list str) : Prop :=
    GL [10] /\ Forall (fun x => GL (expl_unit x)) (wrap explanation_width e).
  Definition hint_ok (args : list str) (h : str * str) : Prop :=
    forall cl, command_line args (fst h) = Some cl -> GL (hint_unit cl (snd h)).
  Definition summary_ok (args : list str) : Prop := hint_ok args hint_e /\ hint_ok args hint_fs /\ hint_ok args hint_F.

  Definition ev_ok (ev : event) : Prop :=
    (PanicOK \/ wf_event ev) /\
    match ev with
    | EvDiag ln lv f m => view_ok ln no_fix /\ LogOK lv (ln_file ln) (linenos ln) m
    | EvExplain e => explanation_ok e
    | EvFix ln fv lv f m e actions =>
      view_ok ln fv /\ LogOK lv (ln_file ln) (affected_linenos ln actions) m /\
      Forall (fun a : str * Z => LogOK LAutofix (ln_file ln) (if (snd a =? 0)%Z then [] else dec_of_Z (snd a)) (fst a)) actions /\
      explanation_ok e
    | EvSaved _ => True
    | EvTechError _ _ => True
    | EvSummary args => summary_ok args
    end.

  Lemma inv_out_write l w : GL w -> P l -> P (out_write l w).
  Proof. intros Hg Hl. apply (P_writes l [] w); auto. Qed.

  Lemma inv_write_line l p t : In p src_prefixes -> src_ok t -> P l -> P (write_line l p t).
  Proof.
    intros Hp Ht Hl. specialize (Ht p Hp). unfold src_unit in Ht. unfold write_line.
    destruct (has_suffix_nl t) eqn:E.
    - apply (P_writes l [p] (escape_printable t)); [|assumption].
      cbn [concat]. rewrite !app_nil_r in *. exact Ht.
    - apply (P_writes l [p; escape_printable t] [10]); [|assumption].
      cbn [concat]. rewrite app_nil_r, <- app_assoc. exact Ht.
  Qed.

  Lemma inv_write_lines l p ts : In p src_prefixes -> Forall src_ok ts -> P l -> P (write_lines l p ts).
  Proof.
    intros Hp Hts. unfold write_lines. revert l. induction Hts as [|t ts Ht Hts IH]; intros l Hl; simpl; [assumption|].
    apply IH, inv_write_line; assumption.
  Qed.

  Lemma in_prefix_gt : In [62; 9] src_prefixes. Proof. left. reflexivity. Qed.
  Lemma in_prefix_tab : In [9] src_prefixes. Proof. right. left. reflexivity. Qed.
  Lemma in_prefix_plus : In [43; 9] src_prefixes. Proof. right. right. left. reflexivity. Qed.
  Lemma in_prefix_minus : In [45; 9] src_prefixes. Proof. right. right. right. left. reflexivity. Qed.

  Lemma inv_write_diff_lines l p raws texts flags :
    In p src_prefixes -> Forall src_ok raws -> Forall src_ok texts -> P l -> P (write_diff_lines l p raws texts flags).
  Proof.
    intros Hp Hr. revert l texts flags. induction Hr as [|r raws Hr Hrs IH]; intros l texts flags Ht Hl; simpl; [assumption|].
    destruct flags as [|f flags]; [assumption|].
    assert (Forall src_ok (tl texts)) as Htl by (destruct texts; [constructor|inversion Ht; assumption]).
    apply IH; [assumption|].
    destruct f; [|apply inv_write_line; assumption].
    assert (P (write_line l [45; 9] r)) as H by (apply inv_write_line; [apply in_prefix_minus|assumption|assumption]).
    destruct texts as [|t texts]; cbn [hd nonempty_list]; [assumption|].
    destruct (nonempty_list t); [|assumption].
    apply inv_write_line; [apply in_prefix_plus|inversion Ht; assumption|assumption].
  Qed.

  Lemma inv_write_diff l ln fv :
    PanicOK \/ (length (ln_raws ln) <= length (fv_texts fv))%nat \/ is_autofix o = false ->
    Forall src_ok (ln_raws ln) -> Forall src_ok (fv_texts fv) ->
    P l -> P (write_diff o l ln fv).
  Proof.
    intros Hw Hr Ht Hl. unfold write_diff. destruct (is_autofix o).
    - destruct (changed_flags (ln_raws ln) (fv_texts fv)) as [flags|] eqn:E.
      + apply inv_write_diff_lines; try assumption.
        destruct (existsb (fun b => b) flags); [apply in_prefix_tab|apply in_prefix_gt].
      + destruct Hw as [Hw|[Hw|Hw]]; [apply P_panicked; assumption| |discriminate].
        exfalso. exact (changed_flags_some _ _ Hw E).
    - apply inv_write_diff_lines; [apply in_prefix_gt|assumption|constructor|assumption].
  Qed.

  Lemma inv_write_source l ln fv :
    PanicOK \/ (length (ln_raws ln) <= length (fv_texts fv))%nat \/ is_autofix o = false ->
    view_ok ln fv -> P l -> P (write_source o l ln fv).
  Proof.
    intros Hw (Hr & Ha & Ht & Hb) Hl. unfold write_source. destruct (negb (lo_show_source o)); [assumption|].
    destruct (is_autofix o) eqn:Em.
    - apply P_out_separate, inv_write_lines; [apply in_prefix_plus|assumption|].
      apply inv_write_diff; [rewrite Em; assumption|assumption|assumption|].
      apply inv_write_lines; [apply in_prefix_plus|assumption|assumption].
    - destruct (match l_prev_line l with Some p => p =? ln_id ln | None => false end); [assumption|].
      apply inv_write_diff; [rewrite Em; auto|assumption|assumption|]. apply P_out_separate, P_prev_line. assumption.
  Qed.

  Lemma inv_fold {A} (Q : A -> Prop) (f : logger -> A -> logger) xs l :
    (forall l x, Q x -> P l -> P (f l x)) -> Forall Q xs -> P l -> P (fold_left f xs l).
  Proof.
    intros Hf Hxs. revert l. induction Hxs as [|x xs Hx Hxs IH]; intros l Hl; simpl; [assumption|].
    apply IH, Hf; assumption.
  Qed.

  Lemma inv_out_write_line_nil l : GL [10] -> P l -> P (out_write_line l []).
  Proof.
    intros Hg Hl. unfold out_write_line, sw_write_line.
    assert (set_out l (sw_write_byte (sw_write (l_out l) []) 10) = out_write l [10]) as -> by (destruct l; reflexivity).
    apply inv_out_write; assumption.
  Qed.

  Lemma inv_explain l e : explanation_ok e -> P l -> P (explain o l e).
  Proof.
    intros (Hnl & He) Hl. unfold explain. destruct (l_suppress_expl l); [assumption|].
    assert (P (set_expl_avail l true)) as H1 by (apply P_expl_avail; assumption).
    destruct (negb (lo_explain o)); [assumption|].
    destruct (once_seen _ _); [assumption|].
    apply inv_out_write_line_nil; [assumption|].
    apply (inv_fold (fun x => GL (expl_unit x))); [|assumption|].
    - intros l0 x Hx H0. unfold expl_unit in Hx. destruct (nonempty_list x).
      + unfold out_write_line, sw_write_line.
        assert (set_out (out_write l0 [9]) (sw_write_byte (sw_write (l_out (out_write l0 [9])) (escape_printable x)) 10)
                = out_write (fold_left out_write [[9]; escape_printable x] l0) [10]) as -> by (destruct l0; reflexivity).
        apply P_writes; [|assumption]. cbn [concat]. rewrite app_nil_r, <- app_assoc. exact Hx.
      + unfold out_write_line, sw_write_line.
        assert (set_out l0 (sw_write_byte (sw_write (l_out l0) (escape_printable x)) 10)
                = out_write (fold_left out_write [escape_printable x] l0) [10]) as -> by (destruct l0; reflexivity).
        apply P_writes; [|assumption]. cbn [concat]. rewrite app_nil_r. exact Hx.
    - apply P_out_separate, P_prev_line, P_explained. assumption.
  Qed.

  Lemma inv_relevant l f : P l -> P (snd (relevant o l f)).
  Proof. intro Hl. unfold relevant. cbn [snd]. apply P_suppress_expl, P_suppress_diag, Hl. Qed.

  Lemma inv_first_time l f n m : P l -> P (snd (first_time l f n m)).
  Proof.
    intro Hl. unfold first_time. destruct (once_seen _ _); cbn [snd].
    - apply P_suppress_expl, P_suppress_diag, Hl.
    - apply P_logged, Hl.
  Qed.

  Lemma inv_diag l ln lv f m :
    view_ok ln no_fix -> LogOK lv (ln_file ln) (linenos ln) m -> P l -> P (diag o l ln lv f m).
  Proof.
    intros Hv Hlog Hl. unfold diag. destruct (is_autofix o) eqn:Em; [apply P_suppress_expl, Hl|].
    pose proof (inv_relevant l f Hl) as H1. destruct (relevant o l f) as [r la]. cbn [snd] in H1.
    destruct (negb r); [assumption|].
    pose proof (inv_first_time la (ln_file ln) (linenos ln) m H1) as H2.
    destruct (first_time la (ln_file ln) (linenos ln) m) as [ft lb]. cbn [snd] in H2.
    destruct (negb ft); [apply P_suppress_diag, H2|].
    apply P_logf; [assumption|]. destruct (lo_show_source o); [|assumption].
    apply inv_write_source; [auto|assumption|].
    destruct (match l_prev_line lb with Some p => p =? ln_id ln | None => false end); [assumption|apply P_out_separate, H2].
  Qed.

  Lemma inv_apply_fix l ln fv lv f m e actions :
    PanicOK \/ (length (ln_raws ln) <= length (fv_texts fv))%nat ->
    view_ok ln fv -> LogOK lv (ln_file ln) (affected_linenos ln actions) m ->
    Forall (fun a : str * Z => LogOK LAutofix (ln_file ln) (if (snd a =? 0)%Z then [] else dec_of_Z (snd a)) (fst a)) actions ->
    explanation_ok e ->
    P l -> P (apply_fix o l ln fv lv f m e actions).
  Proof.
    intros Hw Hv Hlog Hacts He Hl. unfold apply_fix.
    assert (PanicOK \/ (length (ln_raws ln) <= length (fv_texts fv))%nat \/ is_autofix o = false) as Hw' by tauto.
    pose proof (inv_relevant l f Hl) as H1. destruct (relevant o l f) as [r la]. cbn [snd] in H1.
    destruct (negb (r && (nonempty_list actions || negb (is_autofix o)))); [assumption|].
    set (logDiagnostic := if str_eqb f silent_autofix_format then false
                          else if lo_autofix o && negb (lo_show_autofix o) then false else true).
    set (lb := if logDiagnostic then logf o _ lv (ln_file ln) (affected_linenos ln actions) m else la).
    assert (P lb) as H2.
    { unfold lb. destruct logDiagnostic; [|assumption]. apply P_logf; [assumption|].
      destruct (is_autofix o) eqn:Em; [assumption|].
      pose proof (inv_first_time la (ln_file ln) (affected_linenos ln actions) m H1) as H3.
      destruct (first_time la (ln_file ln) (affected_linenos ln actions) m) as [ft lb0]. cbn [snd] in H3.
      destruct ft; [apply inv_write_source; [auto|assumption|]|]; assumption. }
    clearbody lb.
    set (lc := if is_autofix o then write_source o (fold_left _ actions lb) ln fv else lb).
    assert (P lc) as H3.
    { unfold lc. destruct (is_autofix o) eqn:Em; [|assumption]. apply inv_write_source; [tauto|assumption|].
      apply (inv_fold (fun a : str * Z => LogOK LAutofix (ln_file ln) (if (snd a =? 0)%Z then [] else dec_of_Z (snd a)) (fst a)));
        [|assumption|assumption].
      intros l0 a Ha H0. apply P_logf; assumption. }
    clearbody lc.
    destruct (logDiagnostic && nonempty_list e); [apply inv_explain|]; assumption.
  Qed.

  Lemma inv_hint l args h : PanicOK \/ args <> [] -> hint_ok args h -> P l -> P (hint l args (fst h) (snd h)).
  Proof.
    intros Hw Hh Hl. unfold hint. unfold hint_ok in Hh. destruct (command_line args (fst h)) as [cl|] eqn:E.
    - specialize (Hh cl eq_refl). unfold out_write_line, sw_write_line.
      match goal with |- P (set_out l (sw_write_byte (sw_write (l_out l) ?s) 10)) =>
        assert (set_out l (sw_write_byte (sw_write (l_out l) s) 10) = out_write (fold_left out_write [s] l) [10]) as ->
          by (destruct l; reflexivity) end.
      apply P_writes; [|assumption]. cbn [concat]. rewrite app_nil_r.
      unfold hint_unit in Hh. rewrite <- !app_assoc in *. exact Hh.
    - unfold command_line in E. destruct args; [|discriminate].
      destruct Hw as [Hw|Hw]; [apply P_panicked; assumption|congruence].
  Qed.

  Lemma inv_show_summary l args : PanicOK \/ args <> [] -> summary_ok args -> P l -> P (show_summary o l args).
  Proof.
    intros Hw (He & Hfs & HF) Hl. unfold show_summary. destruct (lo_quiet o || lo_autofix o); [assumption|].
    set (l1 := if lo_show_source o then out_separate l else l).
    assert (P l1) as H1 by (unfold l1; destruct (lo_show_source o); [apply P_out_separate|]; assumption).
    set (l2 := out_write l1 _).
    assert (P l2) as H2 by (unfold l2; apply inv_out_write; [apply GL_summary_line|assumption]).
    clearbody l2. clear l1 H1.
    set (l3 := if l_expl_avail l2 && negb (lo_explain o) then hint l2 args _ _ else l2).
    assert (P l3) as H3.
    { unfold l3. destruct (l_expl_avail l2 && negb (lo_explain o)); [|assumption].
      apply (inv_hint l2 args hint_e); assumption. }
    clearbody l3.
    destruct (l_fix_avail l3); [|assumption].
    apply (inv_hint _ args hint_F); [assumption|assumption|].
    destruct (negb (lo_show_autofix o)); [apply (inv_hint l3 args hint_fs)|]; assumption.
  Qed.

  Lemma inv_step l ev : ev_ok ev -> P l -> P (log_step o l ev).
  Proof.
    intros (Hw & Hev) Hl. destruct ev; cbn [log_step]; cbn [wf_event] in Hw.
    - destruct Hev. apply inv_diag; assumption.
    - apply inv_explain; assumption.
    - destruct Hev as (? & ? & ? & ?). apply inv_apply_fix; assumption.
    - unfold saved. destruct (negb (lo_autofix o) && modified); [apply P_fix_avail|]; assumption.
    - unfold tech_error. apply P_err_write; [apply escape_printable_safe|assumption].
    - apply inv_show_summary; assumption.
  Qed.

  Theorem inv_run evs : Forall ev_ok evs -> P new_logger -> P (log_run o evs).
  Proof.
    intros Hw H0. unfold log_run. generalize dependent new_logger.
    induction Hw as [|ev evs Hev Hw IH]; intros l Hl; simpl; [assumption|].
    apply IH, inv_step; assumption.
  Qed.
End Invariant.

(* ---------- every event is fine for units that only need to be XPrint-only and newline-terminated ---------- *)

Definition GL0 (u : str) : Prop := safe u /\ ends_nl u.

Lemma ends_nl_app' a b : ends_nl b -> ends_nl (a ++ b).
Proof. intros [p ->]. exists (a ++ p). rewrite app_assoc. reflexivity. Qed.

Lemma src_unit_GL0 p t : In p src_prefixes -> GL0 (src_unit p t).
Proof.
  intro Hp. assert (safe p) as Hs.
  { destruct Hp as [<-|[<-|[<-|[<-|[]]]]]; repeat constructor. }
  unfold src_unit, GL0. destruct (has_suffix_nl t) eqn:E.
  - rewrite app_nil_r. split; [apply safe_app; [assumption|apply escape_printable_safe]|].
    apply ends_nl_app', escape_ends_nl, has_suffix_nl_ends, E.
  - split; [apply safe_app; [assumption|apply safe_app; [apply escape_printable_safe|repeat constructor]]|].
    apply ends_nl_app', ends_nl_app'. exists []. reflexivity.
Qed.

Lemma expl_unit_GL0 x : GL0 (expl_unit x).
Proof.
  unfold expl_unit, GL0. split.
  - apply safe_app; [destruct (nonempty_list x); repeat constructor|].
    apply safe_app; [apply escape_printable_safe|repeat constructor].
  - apply ends_nl_app', ends_nl_app'. exists []. reflexivity.
Qed.

Lemma hint_unit_GL0 cl what : safe cl -> safe what -> GL0 (hint_unit cl what).
Proof.
  intros Hc Hw. unfold hint_unit, GL0. split.
  - apply safe_app; [repeat constructor|]. apply safe_app; [assumption|].
    apply safe_app; [repeat constructor|]. apply safe_app; [assumption|repeat constructor].
  - repeat apply ends_nl_app'. exists []. reflexivity.
Qed.

Lemma ev_ok_GL0 (PanicOK : Prop) ev : PanicOK \/ wf_event ev -> ev_ok PanicOK GL0 (fun _ _ _ _ => True) ev.
Proof.
  intro Hw. split; [assumption|].
  assert (forall t, src_ok GL0 t) as Hsrc by (intros t p Hp; apply src_unit_GL0; assumption).
  assert (forall ln fv, view_ok GL0 ln fv) as Hview.
  { intros ln fv. repeat split; apply Forall_forall; intros; apply Hsrc. }
  assert (forall e, explanation_ok GL0 e) as Hexpl.
  { intro e. split; [split; [repeat constructor|exists []; reflexivity]|].
    apply Forall_forall. intros x _. apply expl_unit_GL0. }
  assert (forall args h, safe (snd h) -> hint_ok GL0 args h) as Hhint.
  { intros args h Hs cl Hcl. apply hint_unit_GL0; [|assumption].
    unfold command_line in Hcl. destruct args; [discriminate|]. inversion Hcl. apply escape_printable_safe. }
  destruct ev; auto.
  - split; [apply Hview|]. split; [exact I|]. split; [|apply Hexpl]. apply Forall_forall. intros; exact I.
  - split; [|split]; apply Hhint; repeat constructor.
Qed.
