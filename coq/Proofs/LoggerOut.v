(* C06 (Logger part): everything the Logger machine writes is XPrint-only; the
   counters are exactly the numbers of ERROR / WARN / NOTE lines written; "Looks
   fine." iff there are none of the first two; the exit status. *)
From PV Require Import Lib.Bytes Lib.Utf8 Model.Escape Model.Logger Proofs.Escape Proofs.Logger Proofs.LoggerInv.
From Coq Require Import ZifyBool ZifyN ZifyNat.
Open Scope N_scope.

(* ---------- small safe strings ---------- *)

Lemma dec_aux_safe fuel n acc : safe acc -> safe (dec_aux fuel n acc).
Proof.
  revert n acc. induction fuel as [|fuel IH]; intros n acc Ha; cbn [dec_aux]; [assumption|].
  assert (xprint (48 + n mod 10) = true) as Hd.
  { pose proof (N.mod_lt n 10 ltac:(lia)). unfold xprint. lia. }
  destruct (n / 10 =? 0); [|apply IH]; apply safe_cons; assumption.
Qed.

Lemma dec_of_N_safe n : safe (dec_of_N n).
Proof. apply dec_aux_safe, safe_nil. Qed.

Lemma join_safe sep l : safe sep -> Forall safe l -> safe (join sep l).
Proof.
  intros Hs Hl. induction Hl as [|a l Ha Hl IH]; [apply safe_nil|].
  cbn [join]. destruct l as [|b l]; [assumption|].
  apply safe_app; [assumption|]. apply safe_app; assumption.
Qed.

Lemma num_safe n s p : safe s -> safe p -> safe (num n s p).
Proof.
  intros Hs Hp. unfold num. destruct (n =? 0); [apply safe_nil|].
  destruct (n =? 1); (apply safe_app; [apply dec_of_N_safe|apply safe_cons; [reflexivity|assumption]]).
Qed.

Lemma Forall_removelast {A} (Q : A -> Prop) l : Forall Q l -> Forall Q (removelast l).
Proof.
  induction 1 as [|a l Ha Hl IH]; [constructor|]. cbn [removelast].
  destruct l; [constructor|]. constructor; assumption.
Qed.

Lemma Forall_last {A} (Q : A -> Prop) l d : Forall Q l -> Q d -> Q (last l d).
Proof. induction 1 as [|a l Ha Hl IH]; intro Hd; [assumption|]. cbn [last]. destruct l; auto. Qed.

Lemma Forall_filter {A} (Q : A -> Prop) f l : Forall Q l -> Forall Q (filter f l).
Proof. induction 1 as [|a l Ha Hl IH]; simpl; [constructor|]. destruct (f a); [constructor|]; assumption. Qed.

Lemma join_cambridge_aux conn (fl : list str) : safe conn -> Forall safe fl ->
  safe (match fl with
        | [] => []
        | [a] => a
        | a :: l1 :: l2 => join [44; 32] (removelast (a :: l1 :: l2)) ++ [32] ++ conn ++ [32] ++ last (a :: l1 :: l2) []
        end).
Proof.
  intros Hc Hf. destruct fl as [|a [|b r]]; [apply safe_nil|inversion Hf; assumption|].
  apply safe_app; [apply join_safe; [repeat constructor|apply Forall_removelast; assumption]|].
  apply safe_cons; [reflexivity|]. apply safe_app; [assumption|]. apply safe_cons; [reflexivity|].
  apply Forall_last; [assumption|apply safe_nil].
Qed.

Lemma join_cambridge_safe conn l : safe conn -> Forall safe l -> safe (join_cambridge conn l).
Proof.
  intros Hc Hl. unfold join_cambridge. apply join_cambridge_aux; [assumption|].
  apply Forall_filter. assumption.
Qed.

Lemma summary_line_safe e w n : safe (summary_line e w n).
Proof.
  unfold summary_line. destruct (negb (e =? 0) || negb (w =? 0)); [|repeat constructor].
  unfold summary_counts. apply safe_app; [|repeat constructor].
  apply join_cambridge_safe; [repeat constructor|].
  repeat (apply Forall_cons; [apply num_safe; repeat constructor|]). constructor.
Qed.

(* ---------- output safety ---------- *)

Definition safe_w (w : swriter) : Prop := safe (sw_out w) /\ safe (sw_line w).
Definition safe_l (l : logger) : Prop := safe_w (l_out l) /\ safe_w (l_err l).

Lemma sw_write_byte_safe w b : xprint b = true -> safe_w w -> safe_w (sw_write_byte w b).
Proof.
  intros Hb [Ho Hl]. unfold sw_write_byte.
  destruct (b =? 10); [|destruct (sw_state w =? 2)]; split; cbn [sw_out sw_line];
    repeat (first [assumption | apply safe_nil | apply safe_app | apply safe_cons; [reflexivity|] | apply safe_cons; [assumption|]]).
Qed.

Lemma sw_write_safe w s : safe s -> safe_w w -> safe_w (sw_write w s).
Proof.
  unfold sw_write. intro Hs. revert w. induction Hs as [|b s Hb Hs IH]; intros w Hw; simpl; [assumption|].
  apply IH, sw_write_byte_safe; assumption.
Qed.

Lemma sw_separate_safe w : safe_w w -> safe_w (fst (sw_separate w)).
Proof. intros [Ho Hl]. unfold sw_separate. cbn [fst]. destruct (sw_state w <? 2); split; assumption. Qed.

Lemma safe_l_logf o l lv f n m : safe_l l -> safe_l (logf o l lv f n m).
Proof.
  intros [Ho He]. unfold logf. destruct (l_suppress_diag l); [split; assumption|].
  destruct lv; (split; [|exact He]); cbn; apply sw_write_safe; try assumption; apply escape_printable_safe.
Qed.

Theorem logger_output_safe o evs :
  safe (sw_out (l_out (log_run o evs))) /\ safe (sw_out (l_err (log_run o evs))).
Proof.
  assert (safe_l (log_run o evs)) as [[H1 _] [H2 _]]; [|split; assumption].
  apply (inv_run safe_l); try (intros l v H; exact H).
  - intros l s Hs [Ho He]. split; [|exact He]. cbn. apply sw_write_safe; assumption.
  - intros l [Ho He]. unfold out_separate. pose proof (sw_separate_safe _ Ho) as H.
    destruct (sw_separate (l_out l)) as [w bad]. split; [exact H|exact He].
  - intros l s Hs [Ho He]. split; [exact Ho|]. cbn. apply sw_write_safe; assumption.
  - intros. apply safe_l_logf. assumption.
  - apply summary_line_safe.
  - repeat split; apply safe_nil.
Qed.

(* ---------- counters ---------- *)

Definition tuple_level (t : diag_tuple) : level := fst (fst (fst t)).
Definition cnt (lv : level) (em : list diag_tuple) : N :=
  N.of_nat (length (filter (fun t => level_eqb (tuple_level t) lv) em)).

Definition counts_ok (l : logger) : Prop :=
  l_errors l = cnt LError (l_emitted l) /\ l_warnings l = cnt LWarn (l_emitted l) /\ l_notes l = cnt LNote (l_emitted l).

Lemma cnt_snoc lv em t : cnt lv (em ++ [t]) = cnt lv em + (if level_eqb (tuple_level t) lv then 1 else 0).
Proof.
  unfold cnt. rewrite filter_app, app_length. cbn [filter].
  destruct (level_eqb (tuple_level t) lv); cbn [length]; lia.
Qed.

Lemma counts_ok_logf o l lv f n m : counts_ok l -> counts_ok (logf o l lv f n m).
Proof.
  intros (He & Hw & Hn). unfold logf. destruct (l_suppress_diag l); [repeat split; assumption|].
  unfold counts_ok. destruct lv; cbn [l_errors l_warnings l_notes l_emitted set_emitted bump set_errors set_warnings set_notes out_write set_out];
    rewrite !cnt_snoc; cbn [tuple_level fst level_eqb]; repeat split; lia.
Qed.

Lemma counts_ok_run o evs : counts_ok (log_run o evs).
Proof.
  apply (inv_run counts_ok); try (intros l v H; exact H).
  - intros l s _ H. exact H.
  - intros l H. unfold out_separate. destruct (sw_separate (l_out l)). exact H.
  - intros l s _ H. exact H.
  - intros. apply counts_ok_logf. assumption.
  - apply summary_line_safe.
  - repeat split.
Qed.

(* the counters (which ShowSummary prints and the exit status is computed from) are the
   numbers of ERROR, WARN and NOTE lines that Logf wrote *)
Theorem counts_exact o evs :
  let l := log_run o evs in
  l_errors l = cnt LError (l_emitted l) /\
  l_warnings l = cnt LWarn (l_emitted l) /\
  l_notes l = cnt LNote (l_emitted l).
Proof. apply counts_ok_run. Qed.

(* ---------- Looks fine. ---------- *)

Definition looks_fine : str := [76; 111; 111; 107; 115; 32; 102; 105; 110; 101; 46; 10].

Lemma summary_counts_not_looks_fine e w n : summary_counts e w n <> looks_fine.
Proof.
  unfold summary_counts, looks_fine. intro H. apply (f_equal (@rev N)) in H.
  rewrite rev_app_distr in H. cbn [rev app] in H. inversion H.
Qed.

Theorem looks_fine_iff_counters e w n : summary_line e w n = looks_fine <-> e = 0 /\ w = 0.
Proof.
  unfold summary_line. split.
  - intro H. destruct (negb (e =? 0) || negb (w =? 0)) eqn:E; [exfalso; eapply summary_counts_not_looks_fine; eassumption|].
    lia.
  - intros [-> ->]. reflexivity.
Qed.

(* the first line of the summary is "Looks fine." exactly when no ERROR and no WARN line was written *)
Theorem looks_fine_iff o evs :
  let l := log_run o evs in
  summary_line (l_errors l) (l_warnings l) (l_notes l) = looks_fine <->
  cnt LError (l_emitted l) = 0 /\ cnt LWarn (l_emitted l) = 0.
Proof.
  cbv zeta. destruct (counts_exact o evs) as (He & Hw & _). rewrite looks_fine_iff_counters, He, Hw. reflexivity.
Qed.

(* ---------- exit status ---------- *)

Theorem exit_status_exact o evs werror :
  let l := log_run o evs in
  exit_status werror l =
  if negb (cnt LError (l_emitted l) =? 0) || (werror && negb (cnt LWarn (l_emitted l) =? 0)) then 1 else 0.
Proof.
  cbv zeta. destruct (counts_exact o evs) as (He & Hw & _). unfold exit_status. rewrite He, Hw.
  destruct werror, (cnt LWarn _ =? 0), (cnt LError _ =? 0); reflexivity.
Qed.
