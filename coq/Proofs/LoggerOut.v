(* C06 (Logger part): everything the Logger machine writes is XPrint-only; the
   counters are exactly the numbers of ERROR / WARN / NOTE lines written; "Looks
   fine." iff there are none of the first two; the exit status. *)
From PV Require Import Lib.Bytes Lib.Utf8 Model.Escape Model.Logger Proofs.Escape Proofs.Logger Proofs.LoggerInv.
From Coq Require Import ZifyBool ZifyN ZifyNat.
Open Scope N_scope.

(* ---------- small safe strings ---------- *)

Lemma uint_digits_safe u : safe (uint_digits u).
Proof. induction u; cbn [uint_digits]; [apply safe_nil|..]; (apply safe_cons; [reflexivity|assumption]). Qed.

Lemma dec_of_N_safe n : safe (dec_of_N n).
Proof. apply uint_digits_safe. Qed.

Lemma join_safe sep l : safe sep -> Forall safe l -> safe (join sep l).
Proof.
  intros Hs Hl. induction Hl as [|a l Ha Hl IH]; [apply safe_nil|].
  cbn [join]. destruct l as [|b l]; [assumption|].
  apply safe_app; [assumption|]. apply safe_app; assumption.
Qed.

Lemma num_safe n s p : safe s -> safe p -> safe (num n s p).
Proof.
  intros Hs Hp. unfold num. destruct (n =? 0); [apply safe_nil|].
  destruct (n =? 1); (apply safe_app; [apply dec_of_N_safe|apply safe_cons; [reflexivity|assumption]]).
Qed.

Lemma Forall_removelast {A} (Q : A -> Prop) l : Forall Q l -> Forall Q (removelast l).
Proof.
  induction 1 as [|a l Ha Hl IH]; [constructor|]. cbn [removelast].
  destruct l; [constructor|]. constructor; assumption.
Qed.

Lemma Forall_last {A} (Q : A -> Prop) l d : Forall Q l -> Q d -> Q (last l d).
Proof. induction 1 as [|a l Ha Hl IH]; intro Hd; [assumption|]. cbn [last]. destruct l; auto. Qed.

Lemma Forall_filter {A} (Q : A -> Prop) f l : Forall Q l -> Forall Q (filter f l).
Proof. induction 1 as [|a l Ha Hl IH]; simpl; [constructor|]. destruct (f a); [constructor|]; assumption. Qed.

Lemma join_cambridge_aux conn (fl : list str) : safe conn -> Forall safe fl ->
  safe (match fl with
        | [] => []
        | [a] => a
        | a :: l1 :: l2 => join [44; 32] (removelast (a :: l1 :: l2)) ++ [32] ++ conn ++ [32] ++ last (a :: l1 :: l2) []
        end).
Proof.
  intros Hc Hf. destruct fl as [|a [|b r]]; [apply safe_nil|inversion Hf; assumption|].
  apply safe_app; [apply join_safe; [repeat constructor|apply Forall_removelast; assumption]|].
  apply safe_cons; [reflexivity|]. apply safe_app; [assumption|]. apply safe_cons; [reflexivity|].
  apply Forall_last; [assumption|apply safe_nil].
Qed.

Lemma join_cambridge_safe conn l : safe conn -> Forall safe l -> safe (join_cambridge conn l).
Proof.
  intros Hc Hl. unfold join_cambridge. apply join_cambridge_aux; [assumption|].
  apply Forall_filter. assumption.
Qed.

Lemma summary_line_safe e w n : safe (summary_line e w n).
Proof.
  unfold summary_line. destruct (negb (e =? 0) || negb (w =? 0)); [|repeat constructor].
  unfold summary_counts. apply safe_app; [|repeat constructor].
  apply join_cambridge_safe; [repeat constructor|].
  repeat (apply Forall_cons; [apply num_safe; repeat constructor|]). constructor.
Qed.

Lemma ends_nl_app a b : ends_nl b -> ends_nl (a ++ b).
Proof. intros [p ->]. exists (a ++ p). rewrite app_assoc. reflexivity. Qed.

Lemma summary_line_ends e w n : ends_nl (summary_line e w n).
Proof.
  unfold summary_line. destruct (negb (e =? 0) || negb (w =? 0)).
  - unfold summary_counts. apply ends_nl_app. exists [32; 102; 111; 117; 110; 100; 46]. reflexivity.
  - exists [76; 111; 111; 107; 115; 32; 102; 105; 110; 101; 46]. reflexivity.
Qed.

(* ---------- output safety ---------- *)

Definition safe_w (w : swriter) : Prop := safe (sw_out w) /\ safe (sw_line w).
Definition safe_l (l : logger) : Prop := safe_w (l_out l) /\ safe_w (l_err l).

Lemma sw_write_byte_safe w b : xprint b = true -> safe_w w -> safe_w (sw_write_byte w b).
Proof.
  intros Hb [Ho Hl]. unfold sw_write_byte.
  destruct (b =? 10); [|destruct (sw_state w =? 2)]; split; cbn [sw_out sw_line];
    repeat (first [assumption | apply safe_nil | apply safe_app | apply safe_cons; [reflexivity|] | apply safe_cons; [assumption|]]).
Qed.

Lemma sw_write_safe w s : safe s -> safe_w w -> safe_w (sw_write w s).
Proof.
  unfold sw_write. intro Hs. revert w. induction Hs as [|b s Hb Hs IH]; intros w Hw; simpl; [assumption|].
  apply IH, sw_write_byte_safe; assumption.
Qed.

Lemma sw_write_app' w a b : sw_write w (a ++ b) = sw_write (sw_write w a) b.
Proof. unfold sw_write. apply fold_left_app. Qed.

Lemma sw_separate_safe w : safe_w w -> safe_w (fst (sw_separate w)).
Proof. intros [Ho Hl]. unfold sw_separate. cbn [fst]. destruct (sw_state w <? 2); split; assumption. Qed.

Lemma safe_l_logf o l lv f n m : safe_l l -> safe_l (logf o l lv f n m).
Proof.
  intros [Ho He]. unfold logf. destruct (l_suppress_diag l); [split; assumption|].
  destruct lv; (split; [|exact He]); cbn; apply sw_write_safe; try assumption; apply escape_printable_safe.
Qed.

Lemma out_of_writes l ws w :
  l_out (out_write (fold_left out_write ws l) w) = sw_write (l_out l) (concat ws ++ w) /\
  l_err (out_write (fold_left out_write ws l) w) = l_err l /\
  l_panicked (out_write (fold_left out_write ws l) w) = l_panicked l.
Proof.
  revert l. induction ws as [|x ws IH]; intro l; cbn [fold_left concat app].
  - repeat split.
  - destruct (IH (out_write l x)) as (H1 & H2 & H3). rewrite H1, H2, H3.
    cbn. rewrite !sw_write_app'. repeat split.
Qed.

Lemma safe_l_writes l ws w : GL0 (concat ws ++ w) -> safe_l l -> safe_l (out_write (fold_left out_write ws l) w).
Proof.
  intros [Hs _] [Ho He]. destruct (out_of_writes l ws w) as (H1 & H2 & _). unfold safe_l. rewrite H1, H2.
  split; [apply sw_write_safe; assumption|assumption].
Qed.

Theorem logger_output_safe o evs :
  safe (sw_out (l_out (log_run o evs))) /\ safe (sw_out (l_err (log_run o evs))).
Proof.
  assert (safe_l (log_run o evs)) as [[H1 _] [H2 _]]; [|split; assumption].
  apply (inv_run o safe_l True GL0 (fun _ _ _ _ => True)); try (intros l v H; exact H).
  - intros l ws w. apply safe_l_writes.
  - intros l [Ho He]. unfold out_separate. pose proof (sw_separate_safe _ Ho) as H.
    destruct (sw_separate (l_out l)) as [w bad]. split; [exact H|exact He].
  - intros l s Hs [Ho He]. split; [exact Ho|]. cbn. apply sw_write_safe; assumption.
  - intros. apply safe_l_logf. assumption.
  - intros. split; [apply summary_line_safe|apply summary_line_ends].
  - apply Forall_forall. intros ev _. apply ev_ok_GL0. left. exact I.
  - repeat split; apply safe_nil.
Qed.

(* ---------- counters ---------- *)

Definition tuple_level (t : diag_tuple) : level := fst (fst (fst t)).
Definition cnt (lv : level) (em : list diag_tuple) : N :=
  N.of_nat (length (filter (fun t => level_eqb (tuple_level t) lv) em)).

Definition counts_ok (l : logger) : Prop :=
  l_errors l = cnt LError (l_emitted l) /\ l_warnings l = cnt LWarn (l_emitted l) /\ l_notes l = cnt LNote (l_emitted l).

Lemma cnt_snoc lv em t : cnt lv (em ++ [t]) = cnt lv em + (if level_eqb (tuple_level t) lv then 1 else 0).
Proof.
  unfold cnt. rewrite filter_app, app_length. cbn [filter].
  destruct (level_eqb (tuple_level t) lv); cbn [length]; lia.
Qed.

Lemma counts_ok_logf o l lv f n m : counts_ok l -> counts_ok (logf o l lv f n m).
Proof.
  intros (He & Hw & Hn). unfold logf. destruct (l_suppress_diag l); [repeat split; assumption|].
  unfold counts_ok. destruct lv; cbn [l_errors l_warnings l_notes l_emitted set_emitted bump set_errors set_warnings set_notes out_write set_out];
    rewrite !cnt_snoc; cbn [tuple_level fst level_eqb]; repeat split; lia.
Qed.

Lemma counts_ok_fold_write ws l : counts_ok l -> counts_ok (fold_left out_write ws l).
Proof. revert l. induction ws as [|w ws IH]; intros l Hl; simpl; [assumption|]. apply IH. exact Hl. Qed.

Lemma counts_ok_run o evs : counts_ok (log_run o evs).
Proof.
  apply (inv_run o counts_ok True GL0 (fun _ _ _ _ => True)); try (intros l v H; exact H).
  - intros l ws w _ Hl. apply (counts_ok_fold_write ws l) in Hl. exact Hl.
  - intros l H. unfold out_separate. destruct (sw_separate (l_out l)). exact H.
  - intros l s _ H. exact H.
  - intros. apply counts_ok_logf. assumption.
  - intros. split; [apply summary_line_safe|apply summary_line_ends].
  - apply Forall_forall. intros ev _. apply ev_ok_GL0. left. exact I.
  - repeat split.
Qed.

(* the counters (which ShowSummary prints and the exit status is computed from) are the
   numbers of ERROR, WARN and NOTE lines that Logf wrote *)
Theorem counts_exact o evs :
  let l := log_run o evs in
  l_errors l = cnt LError (l_emitted l) /\
  l_warnings l = cnt LWarn (l_emitted l) /\
  l_notes l = cnt LNote (l_emitted l).
Proof. apply counts_ok_run. Qed.

(* ---------- Looks fine. ---------- *)

Definition looks_fine : str := [76; 111; 111; 107; 115; 32; 102; 105; 110; 101; 46; 10].

Lemma summary_counts_not_looks_fine e w n : summary_counts e w n <> looks_fine.
Proof.
  unfold summary_counts, looks_fine. intro H. apply (f_equal (@rev N)) in H.
  rewrite rev_app_distr in H. cbn [rev app] in H. inversion H.
Qed.

Theorem looks_fine_iff_counters e w n : summary_line e w n = looks_fine <-> e = 0 /\ w = 0.
Proof.
  unfold summary_line. split.
  - intro H. destruct (negb (e =? 0) || negb (w =? 0)) eqn:E; [exfalso; eapply summary_counts_not_looks_fine; eassumption|].
    lia.
  - intros [-> ->]. reflexivity.
Qed.

(* the first line of the summary is "Looks fine." exactly when no ERROR and no WARN line was written *)
Theorem looks_fine_iff o evs :
  let l := log_run o evs in
  summary_line (l_errors l) (l_warnings l) (l_notes l) = looks_fine <->
  cnt LError (l_emitted l) = 0 /\ cnt LWarn (l_emitted l) = 0.
Proof.
  cbv zeta. destruct (counts_exact o evs) as (He & Hw & _). rewrite looks_fine_iff_counters, He, Hw. reflexivity.
Qed.

(* ---------- exit status ---------- *)

Theorem exit_status_exact o evs werror :
  let l := log_run o evs in
  exit_status werror l =
  if negb (cnt LError (l_emitted l) =? 0) || (werror && negb (cnt LWarn (l_emitted l) =? 0)) then 1 else 0.
Proof.
  cbv zeta. destruct (counts_exact o evs) as (He & Hw & _). unfold exit_status. rewrite He, Hw.
  destruct werror, (cnt LWarn _ =? 0), (cnt LError _ =? 0); reflexivity.
Qed.

(* ---------- no panic ---------- *)

(* between events the writer is never in the middle of a line, so the assertion in
   SeparatorWriter.Separate holds; with well-formed events the two index expressions
   are in range *)
Definition ok (l : logger) : Prop := l_panicked l = false /\ sw_state (l_out l) <> 1.

Lemma sw_write_app w a b : sw_write w (a ++ b) = sw_write (sw_write w a) b.
Proof. unfold sw_write. apply fold_left_app. Qed.

Lemma sw_write_nl_state w s : ends_nl s -> sw_state (sw_write w s) <> 1.
Proof.
  intros [p ->]. rewrite sw_write_app.
  change (sw_write (sw_write w p) [10]) with (sw_write_byte (sw_write w p) 10).
  unfold sw_write_byte. rewrite N.eqb_refl. cbn [sw_state].
  destruct (sw_state (sw_write w p) =? 1); discriminate.
Qed.

Lemma panicked_fold_write_unused ws l : l_panicked (fold_left out_write ws l) = l_panicked l.
Proof. revert l. induction ws as [|w ws IH]; intro l; simpl; [reflexivity|]. rewrite IH. reflexivity. Qed.

Lemma format_diag_ends o lv f n m : ends_nl (format_diag o lv f n m).
Proof. unfold format_diag. destruct (lo_gcc o); repeat apply ends_nl_app; exists []; reflexivity. Qed.

Lemma ok_logf o l lv f n m : ok l -> ok (logf o l lv f n m).
Proof.
  intros [Hp Hs]. unfold logf. destruct (l_suppress_diag l); [split; assumption|].
  destruct lv; (split; [exact Hp|]); cbn; apply sw_write_nl_state, escape_ends_nl, format_diag_ends.
Qed.

Lemma ok_run o evs : Forall wf_event evs -> ok (log_run o evs).
Proof.
  intro Hwf. apply (inv_run o ok False GL0 (fun _ _ _ _ => True)); try (intros l v H; exact H).
  - intros l [].
  - intros l ws w [_ Hw] [Hp Hs]. destruct (out_of_writes l ws w) as (H1 & _ & H3). split.
    + rewrite H3. exact Hp.
    + rewrite H1. apply sw_write_nl_state. assumption.
  - intros l [Hp Hs]. unfold out_separate, sw_separate. cbn.
    split.
    + rewrite Hp. cbn. apply N.eqb_neq. assumption.
    + destruct (sw_state (l_out l) <? 2) eqn:E; cbn; [discriminate|assumption].
  - intros l s _ H. exact H.
  - intros. apply ok_logf. assumption.
  - intros. split; [apply summary_line_safe|apply summary_line_ends].
  - eapply Forall_impl; [|exact Hwf]. intros ev Hev. apply ev_ok_GL0. right. exact Hev.
  - split; [reflexivity|discriminate].
Qed.

(* for well-formed events (line.fix.texts covers line.raw; ShowSummary gets argv[0]) no
   panic site of logging.go is reached: not the assert in Separate, not an index *)
Theorem logger_never_panics o evs : Forall wf_event evs -> l_panicked (log_run o evs) = false.
Proof. intro H. apply (ok_run o evs H). Qed.
