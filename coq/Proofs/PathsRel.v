(* C19: filepath.Rel / Path.Rel on cleaned paths. *)
From PV Require Import Lib.Bytes Model.Paths Spec.PathDenote Proofs.PathsBase Proofs.PathsClean
  Proofs.PathsRender Proofs.PathsPrefix Proofs.PathsContains.
Open Scope N_scope.

Definition nonempty (x : str) : Prop := x <> [].

(* ---------- the elements the scanning loop of filepath.Rel sees ---------- *)
Lemma drop_last_empty_id l : Forall nonempty l -> drop_last_empty l = l.
Proof.
  induction 1 as [|x l Hx _ IH]; [reflexivity|]. destruct l as [|y l].
  - simpl. destruct x; [contradiction|reflexivity].
  - change (drop_last_empty (x :: y :: l)) with (x :: drop_last_empty (y :: l)). rewrite IH. reflexivity.
Qed.

Lemma shape_nonempty rt e : shape rt e -> Forall nonempty e.
Proof. intro H. eapply Forall_impl; [|apply (shape_elems rt e H)]. intros a [Ha _]. exact Ha. Qed.

Definition root_mark (rt : bool) : list str := if rt then [[]] else [].

Lemma rel_elems_render rt e :
  shape rt e -> (rt = true \/ e <> []) -> rel_elems (render rt e) = root_mark rt ++ e.
Proof.
  intros Hs Hne. unfold rel_elems, render. destruct rt.
  - change (slash :: join_slash e) with ([] ++ slash :: join_slash e). rewrite split_app_slash.
    simpl split_slash at 1. simpl app. destruct e as [|x t].
    + reflexivity.
    + rewrite split_join; [|discriminate|apply (shape_noslash true); exact Hs].
      change (drop_last_empty ([] :: x :: t)) with ([] :: drop_last_empty (x :: t)).
      rewrite drop_last_empty_id by (apply (shape_nonempty true); exact Hs). reflexivity.
  - destruct Hne as [Hne|Hne]; [discriminate|]. destruct e as [|x t]; [contradiction|].
    rewrite split_join; [|discriminate|apply (shape_noslash false); exact Hs].
    apply drop_last_empty_id. apply (shape_nonempty false). exact Hs.
Qed.

Lemma shape_not_dot rt e : shape rt e -> ~ In dotstr e.
Proof.
  intros (dd & ns & -> & Hns & _) H. apply in_app_or in H as [H|H].
  - apply repeat_spec in H. discriminate.
  - eapply Forall_forall in Hns; [|exact H]. destruct Hns as [Hn _]. discriminate.
Qed.

Lemma render_eq_dot rt e : shape rt e -> render rt e = dotstr -> rt = false /\ e = [].
Proof.
  intros Hs H. destruct rt; [discriminate|]. split; [reflexivity|].
  destruct e as [|x t]; [reflexivity|]. exfalso. change (join_slash (x :: t) = dotstr) in H.
  assert (E : split_slash (join_slash (x :: t)) = [dotstr]) by (rewrite H; reflexivity).
  rewrite split_join in E; [|discriminate|apply (shape_noslash false); exact Hs].
  apply (shape_not_dot false _ Hs). rewrite E. left. reflexivity.
Qed.

Lemma render_inj rt e1 e2 : shape rt e1 -> shape rt e2 -> render rt e1 = render rt e2 -> e1 = e2.
Proof.
  intros H1 H2 H.
  assert (Hj : forall e, shape rt e -> e <> [] -> split_slash (join_slash e) = e).
  { intros e He Hne. apply split_join; [exact Hne|apply (shape_noslash rt); exact He]. }
  assert (Hjn : forall e, shape rt e -> join_slash e = [] -> e = []).
  { intros e He Hj0. destruct e as [|x t]; [reflexivity|]. exfalso.
    pose proof (shape_nonempty rt _ He) as Hn. inversion Hn as [|? ? Hx _]; subst.
    destruct x; [contradiction|]. destruct t; discriminate. }
  destruct rt.
  - unfold render in H. injection H as H.
    destruct e1 as [|x1 t1].
    + symmetry. apply (Hjn e2 H2). rewrite <- H. reflexivity.
    + destruct e2 as [|x2 t2].
      * apply (Hjn _ H1). exact H.
      * rewrite <- (Hj _ H1), <- (Hj _ H2), H by discriminate. reflexivity.
  - destruct e1 as [|x1 t1], e2 as [|x2 t2]; [reflexivity| | |].
    + symmetry in H. apply (render_eq_dot false _ H2) in H as [_ H]. discriminate.
    + apply (render_eq_dot false _ H1) in H as [_ H]. discriminate.
    + change (join_slash (x1 :: t1) = join_slash (x2 :: t2)) in H.
      rewrite <- (Hj _ H1), <- (Hj _ H2) by discriminate. rewrite H. reflexivity.
Qed.

(* ---------- stripping the common elements ---------- *)
Lemma rel_strip_mark rt b t : rel_strip (root_mark rt ++ b) (root_mark rt ++ t) = rel_strip b t.
Proof. destruct rt; reflexivity. Qed.

Lemma rel_strip_spec b : forall t, Forall nonempty b -> Forall nonempty t -> b <> t ->
  exists c b' t', rel_strip b t = Some (b', t') /\ b = c ++ b' /\ t = c ++ t'
                  /\ (b' <> [] \/ t' <> [])
                  /\ (match b', t' with x :: _, y :: _ => x <> y | _, _ => True end).
Proof.
  induction b as [|x b IH]; intros t Hb Ht Hne.
  - destruct t as [|y t]; [contradiction|]. inversion Ht as [|? ? Hy _]; subst.
    exists [], [], (y :: t). simpl. destruct y; [contradiction|]. repeat split; auto; right; discriminate.
  - inversion Hb as [|? ? Hx Hb']; subst. destruct t as [|y t].
    + exists [], (x :: b), []. simpl. destruct x; [contradiction|]. repeat split; auto; left; discriminate.
    + inversion Ht as [|? ? Hy Ht']; subst. simpl. destruct (str_eqb x y) eqn:E.
      * apply str_eqb_spec in E. subst y. assert (Hbt : b <> t) by congruence.
        destruct (IH t Hb' Ht' Hbt) as (c & b' & t' & H1 & -> & -> & H4 & H5).
        exists (x :: c), b', t'. repeat split; auto.
      * apply str_eqb_false in E. exists [], (x :: b), (y :: t). repeat split; auto; left; discriminate.
Qed.

Lemma rel_strip_prefix b : forall rest, Forall nonempty (b ++ rest) -> rest <> [] ->
  rel_strip b (b ++ rest) = Some ([], rest).
Proof.
  induction b as [|x b IH]; intros rest H Hr.
  - simpl. destruct rest as [|y r]; [contradiction|]. inversion H as [|? ? Hy _]; subst.
    destruct y; [contradiction|reflexivity].
  - simpl. rewrite str_eqb_refl. inversion H; subst. apply IH; assumption.
Qed.

(* ---------- filepath.Rel on two rendered paths ---------- *)
Lemma rel_go_render rt e1 e2 b' t' :
  shape rt e1 -> shape rt e2 -> e1 <> e2 -> (rt = true \/ e2 <> []) ->
  rel_strip e1 e2 = Some (b', t') ->
  rel_go (render rt e1) (render rt e2) =
  if str_eqb (hd [] b') dotdot then RelErr
  else RelOk (join_slash (repeat dotdot (length b') ++ t')).
Proof.
  intros H1 H2 Hne Hrt Hst. unfold rel_go.
  rewrite (clean_of_render rt e1 H1), (clean_of_render rt e2 H2).
  destruct (str_eqb (render rt e2) (render rt e1)) eqn:E.
  { apply str_eqb_spec in E. apply render_inj in E; [congruence|assumption|assumption]. }
  set (base := if str_eqb (render rt e1) dotstr then [] else render rt e1).
  assert (Hbase : starts_slash base = rt /\ rel_elems base = root_mark rt ++ e1).
  { subst base. destruct (str_eqb (render rt e1) dotstr) eqn:Ed.
    - apply str_eqb_spec in Ed. apply (render_eq_dot rt e1 H1) in Ed as [-> ->]. split; reflexivity.
    - split; [apply (rooted_render rt e1 H1)|]. apply rel_elems_render; [exact H1|].
      destruct rt; [left; reflexivity|right]. intros ->. discriminate. }
  destruct Hbase as [Hb1 Hb2]. rewrite Hb1, Hb2.
  change (starts_slash (render rt e2)) with (rooted (render rt e2)). rewrite (rooted_render rt e2 H2).
  rewrite eqb_reflx. simpl negb. cbv iota.
  rewrite (rel_elems_render rt e2 H2 Hrt), rel_strip_mark, Hst. reflexivity.
Qed.

(* walking up from the differing elements and down again *)
Lemma rel_walk st c b' t' :
  Forall good b' ->
  walk (walk st (c ++ b')) (repeat dotdot (length b') ++ t') = walk st (c ++ t').
Proof.
  intro Hb. rewrite (walk_app st c b'), (walk_good _ b' Hb).
  rewrite walk_app, walk_dotdots.
  replace (skipn (length b') (rev b' ++ walk st c)) with (walk st c).
  - rewrite <- walk_app. reflexivity.
  - rewrite <- (rev_length b'). rewrite skipn_app, Nat.sub_diag, skipn_all. reflexivity.
Qed.

(* the result of Rel is a relative path made of "..", and elements of the target *)
Lemma rel_result_ok n t' :
  Forall (fun x => nonempty x /\ noslash x /\ nocolon x) t' -> (n <> O \/ t' <> []) ->
  let r := join_slash (repeat dotdot n ++ t') in
  segs r = repeat dotdot n ++ t' /\ rooted r = false /\ nocolon r.
Proof.
  intros Ht Hne r. subst r.
  assert (Hall : Forall (fun x => nonempty x /\ noslash x /\ nocolon x) (repeat dotdot n ++ t')).
  { apply Forall_app. split; [|exact Ht]. apply Forall_forall. intros x Hx. apply repeat_spec in Hx. subst.
    repeat split; [discriminate|apply noslash_dotdot|apply nocolon_dotdot]. }
  destruct (repeat dotdot n ++ t') as [|x l] eqn:E.
  { destruct n; simpl in E; [destruct Hne as [H|H]; [contradiction|subst; contradiction]|discriminate]. }
  inversion Hall as [|? ? (Hx1 & Hx2 & Hx3) Hl]; subst. repeat split.
  - rewrite (segs_split (join_slash (x :: l))). apply split_join; [discriminate|].
    eapply Forall_impl; [|exact Hall]. intros a (_ & Ha & _). exact Ha.
  - rewrite rooted_join by exact Hx2. destruct x; [contradiction|reflexivity].
  - apply nocolon_join. eapply Forall_impl; [|exact Hall]. intros a (_ & _ & Ha). exact Ha.
Qed.
