(* escapePrintable only ever produces printable ASCII, tab and newline -- for every
   byte string (in fact for every list of numbers). *)
From PV Require Import Lib.Bytes Lib.Utf8 Model.Escape.
From Coq Require Import ZifyBool ZifyN ZifyNat.
Open Scope N_scope.

(* every byte is in textproc.XPrint: newline, tab, 0x20..0x7E *)
Definition safe (s : str) : Prop := Forall (fun b => xprint b = true) s.

Lemma safe_app a b : safe a -> safe b -> safe (a ++ b).
Proof. unfold safe. intros. apply Forall_app. split; assumption. Qed.

Lemma safe_cons x s : xprint x = true -> safe s -> safe (x :: s).
Proof. unfold safe. intros. constructor; assumption. Qed.

Lemma safe_nil : safe []. Proof. constructor. Qed.

Lemma hex_digit_safe d : d < 16 -> xprint (hex_digit d) = true.
Proof. intro H. unfold xprint, hex_digit. destruct (N.ltb_spec d 10); lia. Qed.

Lemma hex_aux_safe fuel n acc : safe acc -> safe (hex_aux fuel n acc).
Proof.
  revert n acc. induction fuel as [|fuel IH]; intros n acc Ha; cbn [hex_aux]; [assumption|].
  assert (xprint (hex_digit (n mod 16)) = true) by (apply hex_digit_safe, N.mod_lt; lia).
  destruct (n / 16 =? 0); [|apply IH]; apply safe_cons; assumption.
Qed.

Lemma safe_repeat x n : xprint x = true -> safe (repeat x n).
Proof. intro H. induction n; simpl; [apply safe_nil|apply safe_cons; assumption]. Qed.

Lemma fmt_U_safe r : safe (fmt_U r).
Proof.
  unfold fmt_U. apply safe_cons; [reflexivity|]. apply safe_cons; [reflexivity|].
  apply safe_app; [apply safe_repeat; reflexivity|]. apply hex_aux_safe, safe_nil.
Qed.

Lemma fmt_02X_safe b : safe (fmt_02X b).
Proof.
  unfold fmt_02X. apply safe_cons; [apply hex_digit_safe, N.mod_lt; lia|].
  apply safe_cons; [apply hex_digit_safe, N.mod_lt; lia|apply safe_nil].
Qed.

Lemma xprint_ascii b : xprint b = true -> b <? 128 = true.
Proof. unfold xprint. lia. Qed.

Lemma escape_piece_safe b0 s' r w :
  decode_rune (b0 :: s') = (r, w) -> safe (escape_piece (b0 :: s') b0 r).
Proof.
  intro Hd. unfold escape_piece.
  destruct ((r <? 256) && xprint b0) eqn:E1.
  - apply andb_true_iff in E1 as [_ Hx].
    rewrite (decode_rune_ascii b0 s' (xprint_ascii _ Hx)) in Hd. inversion Hd; subst.
    apply safe_cons; [assumption|apply safe_nil].
  - destruct ((r =? rune_error) && negb (has_prefix utf8_rune_error (b0 :: s'))).
    + repeat (apply safe_cons; [reflexivity|]).
      apply safe_app; [apply fmt_02X_safe|]. apply safe_cons; [reflexivity|apply safe_nil].
    + apply safe_cons; [reflexivity|].
      apply safe_app; [apply fmt_U_safe|]. apply safe_cons; [reflexivity|apply safe_nil].
Qed.

Lemma escape_from_safe s k : safe (escape_from s k).
Proof.
  revert k. induction s as [|b0 s IH]; intro k; cbn [escape_from]; [apply safe_nil|].
  destruct k as [|k]; [|apply IH].
  destruct (decode_rune (b0 :: s)) as [r w] eqn:Hd.
  apply safe_app; [eapply escape_piece_safe; eassumption|apply IH].
Qed.

Theorem escape_printable_safe s : safe (escape_printable s).
Proof. apply escape_from_safe. Qed.

(* ---------- a trailing newline survives escaping ---------- *)

Definition ends_nl (s : str) : Prop := exists p, s = p ++ [10].

(* the bytes of a multi-byte rune after the first are continuation bytes (>= 0x80):
   the final newline of s ++ "\n" is never swallowed by a rune that starts in s *)
Lemma decode_width_app (b0 : N) (s' : str) : (snd (decode_rune (b0 :: s' ++ [10%N])) - 1 <= length s')%nat.
Proof.
  unfold decode_rune. destruct s' as [|x1 [|x2 [|x3 s']]]; cbn [app length];
    repeat match goal with |- context [if ?c then _ else _] => destruct c eqn:? end; cbn [snd]; try lia.
  all: exfalso; repeat match goal with H : _ = true |- _ => vm_compute in H; try discriminate H; clear H end.
Qed.

Lemma escape_from_nl s k : (k <= length s)%nat -> ends_nl (escape_from (s ++ [10]) k).
Proof.
  revert k. induction s as [|b0 s IH]; intros k Hk.
  - destruct k; [|simpl in Hk; lia]. exists []. reflexivity.
  - cbn [app escape_from]. destruct k as [|k].
    + destruct (decode_rune (b0 :: s ++ [10])) as [r w] eqn:Hd.
      pose proof (decode_width_app b0 s) as Hw. rewrite Hd in Hw. cbn [snd] in Hw.
      destruct (IH (w - 1)%nat Hw) as [p Hp]. rewrite Hp.
      exists (escape_piece (b0 :: s ++ [10]) b0 r ++ p). rewrite app_assoc. reflexivity.
    + apply IH. simpl in Hk. lia.
Qed.

Lemma escape_ends_nl s : ends_nl s -> ends_nl (escape_printable s).
Proof. intros [p ->]. apply escape_from_nl. lia. Qed.
