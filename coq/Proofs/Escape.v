(* escapePrintable only ever produces printable ASCII, tab and newline -- for every
   byte string (in fact for every list of numbers). *)
From PV Require Import Lib.Bytes Lib.Utf8 Model.Escape.
From Coq Require Import ZifyBool ZifyN ZifyNat.
Open Scope N_scope.

(* every byte is in textproc.XPrint: newline, tab, 0x20..0x7E *)
Definition safe (s : str) : Prop := Forall (fun b => xprint b = true) s.

Lemma safe_app a b : safe a -> safe b -> safe (a ++ b).
Proof. unfold safe. intros. apply Forall_app. split; assumption. Qed.

Lemma safe_cons x s : xprint x = true -> safe s -> safe (x :: s).
Proof. unfold safe. intros. constructor; assumption. Qed.

Lemma safe_nil : safe []. Proof. constructor. Qed.

Lemma hex_digit_safe d : d < 16 -> xprint (hex_digit d) = true.
Proof. intro H. unfold xprint, hex_digit. destruct (N.ltb_spec d 10); lia. Qed.

Lemma hex_aux_safe fuel n acc : safe acc -> safe (hex_aux fuel n acc).
Proof.
  revert n acc. induction fuel as [|fuel IH]; intros n acc Ha; cbn [hex_aux]; [assumption|].
  assert (xprint (hex_digit (n mod 16)) = true) by (apply hex_digit_safe, N.mod_lt; lia).
  destruct (n / 16 =? 0); [|apply IH]; apply safe_cons; assumption.
Qed.

Lemma safe_repeat x n : xprint x = true -> safe (repeat x n).
Proof. intro H. induction n; simpl; [apply safe_nil|apply safe_cons; assumption]. Qed.

Lemma fmt_U_safe r : safe (fmt_U r).
Proof.
  unfold fmt_U. apply safe_cons; [reflexivity|]. apply safe_cons; [reflexivity|].
  apply safe_app; [apply safe_repeat; reflexivity|]. apply hex_aux_safe, safe_nil.
Qed.

Lemma fmt_02X_safe b : safe (fmt_02X b).
Proof.
  unfold fmt_02X. apply safe_cons; [apply hex_digit_safe, N.mod_lt; lia|].
  apply safe_cons; [apply hex_digit_safe, N.mod_lt; lia|apply safe_nil].
Qed.

Lemma xprint_ascii b : xprint b = true -> b <? 128 = true.
Proof. unfold xprint. lia. Qed.

Lemma escape_piece_safe b0 s' r w :
  decode_rune (b0 :: s') = (r, w) -> safe (escape_piece (b0 :: s') b0 r).
Proof.
  intro Hd. unfold escape_piece.
  destruct ((r <? 256) && xprint b0) eqn:E1.
  - apply andb_true_iff in E1 as [_ Hx].
    rewrite (decode_rune_ascii b0 s' (xprint_ascii _ Hx)) in Hd. inversion Hd; subst.
    apply safe_cons; [assumption|apply safe_nil].
  - destruct ((r =? rune_error) && negb (has_prefix utf8_rune_error (b0 :: s'))).
    + repeat (apply safe_cons; [reflexivity|]).
      apply safe_app; [apply fmt_02X_safe|]. apply safe_cons; [reflexivity|apply safe_nil].
    + apply safe_cons; [reflexivity|].
      apply safe_app; [apply fmt_U_safe|]. apply safe_cons; [reflexivity|apply safe_nil].
Qed.

Lemma escape_from_safe s k : safe (escape_from s k).
Proof.
  revert k. induction s as [|b0 s IH]; intro k; cbn [escape_from]; [apply safe_nil|].
  destruct k as [|k]; [|apply IH].
  destruct (decode_rune (b0 :: s)) as [r w] eqn:Hd.
  apply safe_app; [eapply escape_piece_safe; eassumption|apply IH].
Qed.

Theorem escape_printable_safe s : safe (escape_printable s).
Proof. apply escape_from_safe. Qed.

(* ---------- a trailing newline survives escaping ---------- *)

Definition ends_nl (s : str) : Prop := exists p, s = p ++ [10].

(* the bytes of a multi-byte rune after the first are continuation bytes (>= 0x80):
   the final newline of s ++ "\n" is never swallowed by a rune that starts in s *)
Lemma decode_width_app (b0 : N) (s' : str) : (snd (decode_rune (b0 :: s' ++ [10%N])) - 1 <= length s')%nat.
Proof.
  unfold decode_rune. destruct s' as [|x1 [|x2 [|x3 s']]]; cbn [app length];
    repeat match goal with |- context [if ?c then _ else _] => destruct c eqn:? end; cbn [snd]; try lia.
  all: exfalso; repeat match goal with H : _ = true |- _ => vm_compute in H; try discriminate H; clear H end.
Qed.

Lemma escape_from_nl s k : (k <= length s)%nat -> ends_nl (escape_from (s ++ [10]) k).
Proof.
  revert k. induction s as [|b0 s IH]; intros k Hk.
  - destruct k; [|simpl in Hk; lia]. exists []. reflexivity.
  - cbn [app escape_from]. destruct k as [|k].
    + destruct (decode_rune (b0 :: s ++ [10])) as [r w] eqn:Hd.
      pose proof (decode_width_app b0 s) as Hw. rewrite Hd in Hw. cbn [snd] in Hw.
      destruct (IH (w - 1)%nat Hw) as [p Hp]. rewrite Hp.
      exists (escape_piece (b0 :: s ++ [10]) b0 r ++ p). rewrite app_assoc. reflexivity.
    + apply IH. simpl in Hk. lia.
Qed.

Lemma escape_ends_nl s : ends_nl s -> ends_nl (escape_printable s).
Proof. intros [p ->]. apply escape_from_nl. lia. Qed.

(* ---------- escaping distributes over a cut in front of an ASCII byte ---------- *)

Definition ascii_head (b : str) : Prop := match b with [] => True | c :: _ => c < 128 end.

(* decoding at the head of x does not look past x when an ASCII byte (or nothing) follows:
   an ASCII byte is not a continuation byte *)
Lemma decode_rune_app_ascii x b : x <> [] -> ascii_head b -> decode_rune (x ++ b) = decode_rune x.
Proof.
  intros Hx Hb. destruct b as [|c b]; [rewrite app_nil_r; reflexivity|]. cbn [ascii_head] in Hb.
  destruct x as [|x0 [|x1 [|x2 [|x3 x]]]]; [congruence|..]; destruct b as [|c1 [|c2 b]];
    unfold decode_rune; cbn [app];
    destruct (x0 =? 224) eqn:?, (x0 =? 237) eqn:?, (x0 =? 240) eqn:?, (x0 =? 244) eqn:?;
    repeat match goal with |- context [if ?cnd then _ else _] => destruct cnd eqn:? end; try reflexivity;
    exfalso; unfold is_cont, in_range in *; lia.
Qed.

Lemma has_prefix_app_ascii p x b :
  Forall (fun c => 128 <= c) p -> x <> [] -> ascii_head b -> has_prefix p (x ++ b) = has_prefix p x.
Proof.
  intros Hp Hx Hb. unfold has_prefix. revert x Hx. induction Hp as [|c p Hc Hp IH]; intros x Hx; [reflexivity|].
  destruct x as [|x0 x]; [congruence|]. cbn [app strip_prefix].
  destruct (c =? x0); [|reflexivity].
  destruct x as [|x1 x]; [|apply IH; discriminate].
  cbn [app]. destruct p as [|c' p]; [reflexivity|]. cbn [strip_prefix].
  destruct b as [|b0 b]; [reflexivity|]. cbn [ascii_head] in Hb.
  inversion Hp; subst. destruct (N.eqb_spec c' b0); [lia|reflexivity].
Qed.

Lemma escape_piece_app_ascii x b b0 r :
  x <> [] -> ascii_head b -> escape_piece (x ++ b) b0 r = escape_piece x b0 r.
Proof.
  intros Hx Hb. unfold escape_piece.
  rewrite (has_prefix_app_ascii utf8_rune_error x b); [reflexivity| |assumption|assumption].
  unfold utf8_rune_error. repeat constructor; lia.
Qed.

Lemma decode_width_app_ascii x b : x <> [] -> ascii_head b ->
  (snd (decode_rune (x ++ b)) <= length x)%nat.
Proof. intros Hx Hb. rewrite decode_rune_app_ascii by assumption. apply decode_rune_width_le. Qed.

Lemma escape_from_app_ascii a b k : ascii_head b -> (k <= length a)%nat ->
  escape_from (a ++ b) k = escape_from a k ++ escape_from b 0.
Proof.
  intro Hb. revert k. induction a as [|a0 a IH]; intros k Hk.
  - destruct k; [reflexivity|simpl in Hk; lia].
  - cbn [app escape_from]. destruct k as [|k]; [|apply IH; simpl in Hk; lia].
    change (a0 :: a ++ b) with ((a0 :: a) ++ b).
    rewrite (decode_rune_app_ascii (a0 :: a) b ltac:(discriminate) Hb).
    pose proof (decode_rune_width_le (a0 :: a)) as Hw.
    destruct (decode_rune (a0 :: a)) as [r w]. cbn [snd length] in Hw.
    rewrite (escape_piece_app_ascii (a0 :: a) b a0 r ltac:(discriminate) Hb).
    rewrite IH by lia. rewrite app_assoc. reflexivity.
Qed.

Theorem escape_app_ascii a b : ascii_head b ->
  escape_printable (a ++ b) = escape_printable a ++ escape_printable b.
Proof. intro Hb. apply escape_from_app_ascii; [assumption|lia]. Qed.

(* printable ASCII (and tab, newline) is left alone *)
Lemma escape_safe_id p : safe p -> escape_printable p = p.
Proof.
  unfold escape_printable. induction 1 as [|c p Hc Hp IH]; [reflexivity|].
  cbn [escape_from]. rewrite (decode_rune_ascii c p (xprint_ascii _ Hc)).
  unfold escape_piece. replace (c <? 256) with true by (pose proof (xprint_ascii _ Hc); lia).
  rewrite Hc. cbn [andb app Nat.sub]. rewrite IH. reflexivity.
Qed.

(* a cut after an ASCII-only, XPrint-only prefix *)
Lemma escape_safe_prefix p r : safe p -> escape_printable (p ++ r) = p ++ escape_printable r.
Proof.
  unfold escape_printable. induction 1 as [|c p Hc Hp IH]; [reflexivity|].
  cbn [app escape_from]. rewrite (decode_rune_ascii c (p ++ r) (xprint_ascii _ Hc)).
  unfold escape_piece. replace (c <? 256) with true by (pose proof (xprint_ascii _ Hc); lia).
  rewrite Hc. cbn [andb app Nat.sub]. rewrite IH. reflexivity.
Qed.

(* escaping introduces no byte that was not there, other than  < > U + x 0-9 A-F *)
Definition escape_alphabet (c : N) : bool :=
  (c =? 60) || (c =? 62) || (c =? 85) || (c =? 43) || (c =? 120) || is_digit c || ((65 <=? c) && (c <=? 70)).

Lemma hex_digit_alphabet d : d < 16 -> escape_alphabet (hex_digit d) = true.
Proof. intro H. unfold escape_alphabet, hex_digit, is_digit. destruct (N.ltb_spec d 10); lia. Qed.

Definition from_or_alphabet (s : str) (out : str) : Prop :=
  Forall (fun c => In c s \/ escape_alphabet c = true) out.

Lemma hex_aux_alphabet fuel n acc : Forall (fun c => escape_alphabet c = true) acc ->
  Forall (fun c => escape_alphabet c = true) (hex_aux fuel n acc).
Proof.
  revert n acc. induction fuel as [|fuel IH]; intros n acc Ha; cbn [hex_aux]; [assumption|].
  assert (escape_alphabet (hex_digit (n mod 16)) = true) by (apply hex_digit_alphabet, N.mod_lt; lia).
  destruct (n / 16 =? 0); [|apply IH]; constructor; assumption.
Qed.

Lemma escape_piece_alphabet s b0 r w s' : s = b0 :: s' -> decode_rune s = (r, w) ->
  Forall (fun c => c = b0 \/ escape_alphabet c = true) (escape_piece s b0 r).
Proof.
  intros -> Hd. unfold escape_piece.
  destruct ((r <? 256) && xprint b0) eqn:E1.
  - apply andb_true_iff in E1 as [_ Hx].
    rewrite (decode_rune_ascii b0 s' (xprint_ascii _ Hx)) in Hd. inversion Hd; subst. repeat constructor.
  - destruct ((r =? rune_error) && negb (has_prefix utf8_rune_error (b0 :: s'))).
    + change ([60; 48; 120] ++ fmt_02X b0 ++ [62]) with (60 :: 48 :: 120 :: fmt_02X b0 ++ [62]).
      do 3 (apply Forall_cons; [right; reflexivity|]). apply Forall_app. split.
      * unfold fmt_02X. do 2 (apply Forall_cons; [right; apply hex_digit_alphabet, N.mod_lt; lia|]). constructor.
      * apply Forall_cons; [right; reflexivity|constructor].
    + change ([60] ++ fmt_U r ++ [62]) with (60 :: fmt_U r ++ [62]).
      apply Forall_cons; [right; reflexivity|]. apply Forall_app. split.
      * unfold fmt_U. change ([85; 43] ++ ?x) with (85 :: 43 :: x).
        do 2 (apply Forall_cons; [right; reflexivity|]). apply Forall_app. split.
        -- apply Forall_forall. intros c Hc. apply repeat_spec in Hc. subst. right. reflexivity.
        -- eapply Forall_impl; [|apply hex_aux_alphabet; constructor]. intros c Hc. right. exact Hc.
      * apply Forall_cons; [right; reflexivity|constructor].
Qed.

Lemma escape_from_alphabet s k : from_or_alphabet s (escape_from s k).
Proof.
  unfold from_or_alphabet. revert k. induction s as [|b0 s IH]; intro k; cbn [escape_from]; [constructor|].
  destruct k as [|k].
  - destruct (decode_rune (b0 :: s)) as [r w] eqn:Hd. apply Forall_app. split.
    + eapply Forall_impl; [|eapply escape_piece_alphabet; [reflexivity|exact Hd]].
      intros c [-> |Hc]; [left; left; reflexivity|right; exact Hc].
    + eapply Forall_impl; [|apply IH]. intros c [Hc|Hc]; [left; right; exact Hc|right; exact Hc].
  - eapply Forall_impl; [|apply IH]. intros c [Hc|Hc]; [left; right; exact Hc|right; exact Hc].
Qed.

(* a byte outside the escape alphabet that does not occur in s does not occur in the result:
   in particular newline (10), ':' (58) and ' ' (32) *)
Theorem escape_keeps_out c s : escape_alphabet c = false -> ~ In c s -> ~ In c (escape_printable s).
Proof.
  intros Hc Hs Hin. pose proof (escape_from_alphabet s 0) as H. unfold from_or_alphabet in H.
  rewrite Forall_forall in H. destruct (H c Hin) as [H1|H1]; [contradiction|congruence].
Qed.
