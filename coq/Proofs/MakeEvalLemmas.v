(* Facts about the reference evaluator Spec/MakeEval.v: extensionality in the
   store, locality of assignments, and the behaviour of "plain" assignments
   (eager operators whose text contains no '$'). *)
From PV Require Import Lib.Bytes Spec.MakeEval.

Definition ext_eq (s1 s2 : store) : Prop := forall y, s1 y = s2 y.
Definition agree_off (x : str) (s1 s2 : store) : Prop := forall y, y <> x -> s1 y = s2 y.

Lemma ext_eq_refl s : ext_eq s s.
Proof. intro; reflexivity. Qed.

Lemma str_eqb_neq a b : a <> b -> str_eqb a b = false.
Proof.
  intro H. destruct (str_eqb a b) eqn:E; [|reflexivity].
  apply str_eqb_spec in E. contradiction.
Qed.

Lemma supd_same st k x : supd st k x k = Some x.
Proof. unfold supd. rewrite str_eqb_refl. reflexivity. Qed.

Lemma supd_other st k x y : y <> k -> supd st k x y = st y.
Proof. intro H. unfold supd. rewrite str_eqb_neq; [reflexivity|congruence]. Qed.

Lemma supd_ext s1 s2 k x : ext_eq s1 s2 -> ext_eq (supd s1 k x) (supd s2 k x).
Proof. intros H y. unfold supd. destruct (str_eqb k y); [reflexivity|apply H]. Qed.

(* ---------- plain texts ---------- *)

Lemma tokenize_plain t : no_dollar t = true -> tokenize t = map TByte t.
Proof.
  unfold tokenize. induction t as [|c t IH]; simpl; intro H; [reflexivity|].
  apply andb_true_iff in H as [Hc Ht].
  apply negb_true_iff in Hc. rewrite Hc. f_equal. apply IH; exact Ht.
Qed.

Lemma expand_unfold fuel keep st ts :
  expand fuel keep st ts =
  match ts with
  | [] => Some []
  | TByte b :: r => match expand fuel keep st r with Some e => Some (b :: e) | None => None end
  | TBad :: _ => None
  | TRef x :: r =>
      match st x with
      | None =>
          match expand fuel keep st r with
          | Some e => Some ((if keep then ref_text x else []) ++ e)
          | None => None
          end
      | Some Err => None
      | Some (Txt t) =>
          match fuel with
          | O => None
          | S f =>
              match expand f keep st (tokenize t), expand fuel keep st r with
              | Some e, Some e' => Some (e ++ e')
              | _, _ => None
              end
          end
      end
  end.
Proof. destruct fuel; destruct ts as [|[b|x|] r]; reflexivity. Qed.

Lemma expand_bytes fuel keep st t : expand fuel keep st (map TByte t) = Some t.
Proof.
  induction t as [|c t IH]; rewrite expand_unfold; simpl map; cbv iota; [reflexivity|].
  rewrite IH. reflexivity.
Qed.

Lemma expand_plain fuel keep st t :
  no_dollar t = true -> expand fuel keep st (tokenize t) = Some t.
Proof. intro H. rewrite tokenize_plain by exact H. apply expand_bytes. Qed.

(* ---------- extensionality ---------- *)

Lemma expand_ext fuel : forall keep s1 s2 ts,
  ext_eq s1 s2 -> expand fuel keep s1 ts = expand fuel keep s2 ts.
Proof.
  induction fuel as [|f IHf]; intros keep s1 s2 ts H.
  - induction ts as [|[b|x|] r IH]; rewrite (expand_unfold _ _ s1), (expand_unfold _ _ s2);
      try reflexivity.
    + rewrite IH. reflexivity.
    + rewrite <- (H x). destruct (s1 x) as [[t|]|]; try reflexivity. rewrite IH. reflexivity.
  - induction ts as [|[b|x|] r IH]; rewrite (expand_unfold _ _ s1), (expand_unfold _ _ s2);
      try reflexivity.
    + rewrite IH. reflexivity.
    + rewrite <- (H x). destruct (s1 x) as [[t|]|]; try reflexivity.
      * rewrite (IHf keep s1 s2 (tokenize t) H). rewrite IH. reflexivity.
      * rewrite IH. reflexivity.
Qed.

Lemma exec_assign_ext fuel s1 s2 a :
  ext_eq s1 s2 -> ext_eq (exec_assign fuel s1 a) (exec_assign fuel s2 a).
Proof.
  intros H. unfold exec_assign. destruct (s_op a).
  - apply supd_ext; exact H.
  - rewrite <- (H (s_name a)). destruct (s1 (s_name a)) as [[old|]|]; try (apply supd_ext; exact H). exact H.
  - rewrite <- (H (s_name a)). destruct (s1 (s_name a)); [exact H|apply supd_ext; exact H].
  - rewrite <- (H (s_name a)).
    assert (E : ext_eq (match s1 (s_name a) with None => supd s1 (s_name a) (Txt []) | Some _ => s1 end)
                       (match s1 (s_name a) with None => supd s2 (s_name a) (Txt []) | Some _ => s2 end)).
    { destruct (s1 (s_name a)); [exact H|apply supd_ext; exact H]. }
    rewrite (expand_ext fuel true _ _ (tokenize (s_text a)) E).
    destruct (expand fuel true _ (tokenize (s_text a))); apply supd_ext; exact H.
  - rewrite (expand_ext fuel false _ _ (tokenize (s_text a)) H).
    destruct (expand fuel false s2 (tokenize (s_text a))); apply supd_ext; exact H.
Qed.

Definition exec_from (fuel : nat) (st : store) (p : sprogram) : store :=
  fold_left (exec_line fuel) p st.

Lemma exec_is_exec_from fuel p : exec fuel p = exec_from fuel empty_store p.
Proof. reflexivity. Qed.

Lemma exec_from_app fuel st p q :
  exec_from fuel st (p ++ q) = exec_from fuel (exec_from fuel st p) q.
Proof. unfold exec_from. apply fold_left_app. Qed.

Lemma exec_line_ext fuel s1 s2 l :
  ext_eq s1 s2 -> ext_eq (exec_line fuel s1 l) (exec_line fuel s2 l).
Proof. intro H. destruct l as [a|]; simpl; [apply exec_assign_ext; exact H|exact H]. Qed.

Lemma exec_from_ext fuel p : forall s1 s2,
  ext_eq s1 s2 -> ext_eq (exec_from fuel s1 p) (exec_from fuel s2 p).
Proof.
  induction p as [|l p IH]; intros s1 s2 H; simpl; [exact H|].
  apply IH. apply exec_line_ext; exact H.
Qed.

Lemma final_ext_stores fuel s1 s2 x :
  ext_eq s1 s2 -> expand (S fuel) false s1 [TRef x] = expand (S fuel) false s2 [TRef x].
Proof. intro H. apply expand_ext; exact H. Qed.

(* ---------- locality ---------- *)

Lemma exec_assign_other fuel st a y :
  y <> s_name a -> exec_assign fuel st a y = st y.
Proof.
  intro H. unfold exec_assign. destruct (s_op a).
  - apply supd_other; exact H.
  - destruct (st (s_name a)) as [[old|]|]; try (apply supd_other; exact H). reflexivity.
  - destruct (st (s_name a)); [reflexivity|apply supd_other; exact H].
  - destruct (expand fuel true _ (tokenize (s_text a))); apply supd_other; exact H.
  - destruct (expand fuel false st (tokenize (s_text a))); apply supd_other; exact H.
Qed.

Definition sassigns (x : str) (l : option sassign) : bool :=
  match l with Some a => str_eqb (s_name a) x | None => false end.

Lemma exec_line_other fuel st l y :
  sassigns y l = false -> exec_line fuel st l y = st y.
Proof.
  destruct l as [a|]; simpl; [|reflexivity]. intro H.
  apply exec_assign_other. intro E. subst y. rewrite str_eqb_refl in H. discriminate.
Qed.

Lemma exec_from_untouched fuel p : forall st y,
  forallb (fun l => negb (sassigns y l)) p = true -> exec_from fuel st p y = st y.
Proof.
  induction p as [|l p IH]; intros st y H; simpl; [reflexivity|].
  simpl in H. apply andb_true_iff in H as [H1 H2]. apply negb_true_iff in H1.
  rewrite IH by exact H2. apply exec_line_other; exact H1.
Qed.

(* ---------- plain assignments: the new value of the assigned variable depends
   on its old value only ---------- *)

Definition splain (l : option sassign) : bool :=
  match l with
  | Some a => match s_op a with SEval | SShell => no_dollar (s_text a) | _ => true end
  | None => true
  end.

Definition plain_step (old : option sval) (a : sassign) : option sval :=
  match s_op a with
  | SAssign => Some (Txt (s_text a))
  | SAppend => match old with
               | None => Some (Txt (s_text a))
               | Some (Txt o) => Some (Txt (o ++ [32] ++ s_text a))
               | Some Err => Some Err
               end
  | SDefault => match old with None => Some (Txt (s_text a)) | Some v => Some v end
  | SEval => Some (Txt (s_text a))
  | SShell => Some (Txt (sh_output (s_text a)))
  end.

Lemma exec_assign_plain fuel st a :
  splain (Some a) = true ->
  forall y, exec_assign fuel st a y =
            if str_eqb (s_name a) y then plain_step (st (s_name a)) a else st y.
Proof.
  intros Hp y. unfold exec_assign, plain_step. simpl in Hp.
  destruct (s_op a).
  - unfold supd. destruct (str_eqb (s_name a) y); reflexivity.
  - destruct (st (s_name a)) as [[o|]|] eqn:E; unfold supd;
      destruct (str_eqb (s_name a) y) eqn:Ey; try reflexivity.
    apply str_eqb_spec in Ey. subst y. exact E.
  - destruct (st (s_name a)) as [v|] eqn:E; unfold supd;
      destruct (str_eqb (s_name a) y) eqn:Ey; try reflexivity.
    apply str_eqb_spec in Ey. subst y. exact E.
  - rewrite expand_plain by exact Hp. unfold supd. destruct (str_eqb (s_name a) y); reflexivity.
  - rewrite expand_plain by exact Hp. unfold supd. destruct (str_eqb (s_name a) y); reflexivity.
Qed.

Lemma exec_line_agree_off fuel x s1 s2 l :
  splain l = true -> agree_off x s1 s2 ->
  agree_off x (exec_line fuel s1 l) (exec_line fuel s2 l).
Proof.
  intros Hp H y Hy. destruct l as [a|]; simpl; [|apply H; exact Hy].
  rewrite !(exec_assign_plain fuel _ a Hp).
  destruct (str_eqb (s_name a) y) eqn:E.
  - apply str_eqb_spec in E. subst y. rewrite (H _ Hy). reflexivity.
  - apply H; exact Hy.
Qed.

Lemma exec_from_agree_off fuel x p : forall s1 s2,
  forallb splain p = true -> agree_off x s1 s2 ->
  agree_off x (exec_from fuel s1 p) (exec_from fuel s2 p).
Proof.
  induction p as [|l p IH]; intros s1 s2 Hp H; simpl; [exact H|].
  simpl in Hp. apply andb_true_iff in Hp as [H1 H2].
  apply IH; [exact H2|]. apply exec_line_agree_off; assumption.
Qed.

(* under plain assignments no error value is ever stored *)
Definition err_free (st : store) : Prop := forall y, st y <> Some Err.

Lemma exec_line_err_free fuel st l :
  splain l = true -> err_free st -> err_free (exec_line fuel st l).
Proof.
  intros Hp H y. destruct l as [a|]; simpl; [|apply H].
  rewrite (exec_assign_plain fuel _ a Hp).
  destruct (str_eqb (s_name a) y); [|apply H].
  unfold plain_step. specialize (H (s_name a)).
  destruct (s_op a); try discriminate; destruct (st (s_name a)) as [[o|]|]; try discriminate; congruence.
Qed.
