(* C14, file level, part A: pkglint's LoadsPrefs (Model/CondFile.v) only says yes
   where the reference reading of the path (Spec/PrefsFile.v) says yes. *)
From Coq Require Import List NArith Bool Lia.
From PV Require Import Lib.Bytes Gen.CondSimpSets Spec.BmakeCond Spec.PrefsFile Model.CondSimp Model.CondFile.
Import ListNotations.
Open Scope N_scope.

(* every name of the regenerated table is a reference file, the directory is the reference directory *)
Lemma loads_prefs_table_sound :
  forallb (fun n => in_strs n prefs_reference) loads_prefs_names = true /\ loads_prefs_dir = infrastructure_dir.
Proof. split; vm_compute; reflexivity. Qed.

(* the reference names are proper file names *)
Lemma prefs_reference_proper :
  forallb (fun n => nonempty_str n && negb (existsb (N.eqb 47) n) && negb (str_eqb n [46]))
          prefs_reference = true.
Proof. vm_compute. reflexivity. Qed.

(* ---------- comps ---------- *)

Lemma comps_ne s : comps s <> [].
Proof.
  induction s as [|c r IH]; [discriminate|].
  cbn [comps]. destruct (c =? 47); [discriminate|].
  destruct (comps r); discriminate.
Qed.

Lemma comps_hd_tl s : comps s = hd [] (comps s) :: tl (comps s).
Proof. generalize (comps_ne s). destruct (comps s); [congruence|reflexivity]. Qed.

Lemma comps_slash r : comps (47 :: r) = [] :: comps r.
Proof. reflexivity. Qed.

Lemma comps_other c r : c <> 47 -> comps (c :: r) = (c :: hd [] (comps r)) :: tl (comps r).
Proof.
  intros H. cbn [comps]. apply N.eqb_neq in H. rewrite H.
  generalize (comps_ne r). destruct (comps r); [congruence|reflexivity].
Qed.

Lemma tl_in {A} (x : A) l : In x (tl l) -> In x l.
Proof. destruct l; simpl; auto. Qed.

Lemma hd_comps_in p : In (hd [] (comps p)) (comps p).
Proof. generalize (comps_ne p). destruct (comps p); [congruence|]. intros _. left. reflexivity. Qed.

Lemma noslash_cons c r :
  existsb (N.eqb 47) (c :: r) = false -> c <> 47 /\ existsb (N.eqb 47) r = false.
Proof.
  cbn [existsb]. intros H. apply orb_false_iff in H as [Hc H]. split; [|exact H].
  apply N.eqb_neq in Hc. congruence.
Qed.

(* ---------- Path.ContainsPath ---------- *)

Lemma has_prefix_hd : forall sub p,
  existsb (N.eqb 47) sub = false -> has_prefix_path sub p = true -> hd [] (comps p) = sub.
Proof.
  induction sub as [|x sub IH]; intros p Hs Hp.
  - unfold has_prefix_path in Hp. cbn [strip_prefix] in Hp.
    destruct p as [|c r]; [reflexivity|].
    apply N.eqb_eq in Hp. subst c. reflexivity.
  - apply noslash_cons in Hs as [Hx Hs].
    destruct p as [|y p]; [discriminate Hp|].
    unfold has_prefix_path in Hp. cbn [strip_prefix] in Hp.
    destruct (N.eqb_spec x y) as [E|E]; [|discriminate Hp].
    subst y.
    assert (Hp' : has_prefix_path sub p = true) by exact Hp.
    rewrite comps_other by exact Hx.
    rewrite (IH p Hs Hp'). reflexivity.
Qed.

Lemma contains_path_from_sound sub :
  existsb (N.eqb 47) sub = false ->
  forall p,
    (contains_path_from true sub p = true -> In sub (comps p)) /\
    (contains_path_from false sub p = true -> In sub (tl (comps p))).
Proof.
  intros Hs. induction p as [|c r [IHt IHf]].
  - split; cbn [contains_path_from]; intro H.
    + rewrite orb_false_r, andb_true_l in H.
      apply has_prefix_hd in H; [|exact Hs]. rewrite <- H. apply hd_comps_in.
    + discriminate H.
  - assert (Hrec : contains_path_from ((c =? 47) && negb (starts_with_slash r)) sub r = true ->
                   if c =? 47 then In sub (comps r) else In sub (tl (comps r))).
    { destruct (c =? 47).
      - destruct (negb (starts_with_slash r)); cbn [andb]; intro H.
        + apply IHt; exact H.
        + apply tl_in, IHf; exact H.
      - cbn [andb]. exact IHf. }
    split; cbn [contains_path_from]; intro H.
    + apply orb_true_iff in H as [H|H].
      * rewrite andb_true_l in H.
        apply has_prefix_hd in H; [|exact Hs]. rewrite <- H. apply hd_comps_in.
      * apply Hrec in H. destruct (N.eqb_spec c 47) as [E|E].
        -- subst c. rewrite comps_slash. right. exact H.
        -- rewrite comps_other by exact E. right. exact H.
    + rewrite andb_false_l, orb_false_l in H.
      apply Hrec in H. destruct (N.eqb_spec c 47) as [E|E].
      * subst c. rewrite comps_slash. exact H.
      * rewrite comps_other by exact E. exact H.
Qed.

(* Path.ContainsPath on a plain component = some component of the spec's reading is that component *)
Lemma contains_path_components : forall sub p,
  sub <> [] -> existsb (N.eqb 47) sub = false ->
  contains_path sub p = true -> in_strs sub (components p) = true.
Proof.
  intros sub p Hne Hs H. unfold contains_path in H.
  apply (proj1 (contains_path_from_sound sub Hs p)) in H.
  unfold in_strs, components. apply existsb_exists. exists sub. split.
  - apply filter_In. split; [exact H|]. destruct sub; [congruence|reflexivity].
  - apply str_eqb_refl.
Qed.

(* ---------- path.Base ---------- *)

Lemma comps_noslash : forall r, existsb (N.eqb 47) r = false -> comps r = [r].
Proof.
  induction r as [|c r IH]; intros H; [reflexivity|].
  apply noslash_cons in H as [Hc H].
  rewrite comps_other by exact Hc. rewrite (IH H). reflexivity.
Qed.

Lemma comps_hasslash : forall r, existsb (N.eqb 47) r = true -> tl (comps r) <> [].
Proof.
  induction r as [|c r IH]; cbn [existsb]; [discriminate|].
  destruct (N.eqb_spec 47 c) as [E|E]; cbn [orb]; intro H.
  - subst c. rewrite comps_slash. cbn [tl]. apply comps_ne.
  - rewrite comps_other by congruence. cbn [tl]. apply IH. exact H.
Qed.

Lemma last_cons_ne {A} (a : A) l d : l <> [] -> last (a :: l) d = last l d.
Proof. destruct l; [congruence|reflexivity]. Qed.

Lemma after_last_slash_comps : forall s, after_last_slash s = last (comps s) [].
Proof.
  induction s as [|c r IH]; [reflexivity|].
  cbn [after_last_slash]. destruct (existsb (N.eqb 47) r) eqn:E.
  - rewrite IH. destruct (N.eqb_spec c 47) as [Ec|Ec].
    + subst c. rewrite comps_slash. symmetry. apply last_cons_ne, comps_ne.
    + rewrite comps_other by exact Ec.
      generalize (comps_ne r) (comps_hasslash r E).
      destruct (comps r) as [|h t]; [congruence|]. cbn [hd tl]. intros _ Ht.
      rewrite !last_cons_ne by exact Ht. reflexivity.
  - destruct (N.eqb_spec c 47) as [Ec|Ec].
    + subst c. rewrite comps_slash, (comps_noslash r E). reflexivity.
    + rewrite comps_other by exact Ec. rewrite (comps_noslash r E). reflexivity.
Qed.

Lemma strip_comps : forall s,
  hd [] (comps s) = hd [] (comps (strip_trailing_slashes s)) /\
  filter nonempty_str (tl (comps s)) = filter nonempty_str (tl (comps (strip_trailing_slashes s))).
Proof.
  induction s as [|c r [IHh IHt]]; [split; reflexivity|].
  cbn [strip_trailing_slashes]. destruct (strip_trailing_slashes r) as [|x r'] eqn:E.
  - cbn [comps hd tl filter] in IHh, IHt.
    destruct (N.eqb_spec c 47) as [Ec|Ec].
    + subst c. rewrite comps_slash. cbn [comps hd tl filter]. split; [reflexivity|].
      rewrite (comps_hd_tl r). rewrite IHh. cbn [filter nonempty_str]. exact IHt.
    + rewrite (comps_other c r), (comps_other c []) by exact Ec.
      rewrite IHh. cbn [comps hd tl filter]. split; [reflexivity|exact IHt].
  - destruct (N.eqb_spec c 47) as [Ec|Ec].
    + subst c. rewrite !comps_slash. cbn [hd tl]. split; [reflexivity|].
      rewrite (comps_hd_tl r), (comps_hd_tl (x :: r')). cbn [filter].
      rewrite IHh, IHt. reflexivity.
    + rewrite (comps_other c r), (comps_other c (x :: r')) by exact Ec.
      cbn [hd tl]. rewrite IHh. split; [reflexivity|exact IHt].
Qed.

Lemma filter_comps_strip s :
  filter nonempty_str (comps s) = filter nonempty_str (comps (strip_trailing_slashes s)).
Proof.
  destruct (strip_comps s) as [Hh Ht].
  rewrite (comps_hd_tl s), (comps_hd_tl (strip_trailing_slashes s)). cbn [filter].
  rewrite Hh, Ht. reflexivity.
Qed.

Lemma last_filter : forall l b,
  last l [] = b -> b <> [] -> last (filter nonempty_str l) [] = b.
Proof.
  induction l as [|a l IH]; intros b H Hb.
  - cbn in H. congruence.
  - destruct l as [|a' l'].
    + cbn in H. subst a. cbn [filter]. destruct b; [congruence|reflexivity].
    + assert (H' : last (a' :: l') [] = b) by exact H.
      specialize (IH b H' Hb).
      change (filter nonempty_str (a :: a' :: l'))
        with (if nonempty_str a then a :: filter nonempty_str (a' :: l')
              else filter nonempty_str (a' :: l')).
      destruct (nonempty_str a); [|exact IH].
      rewrite last_cons_ne; [exact IH|].
      intro E0. rewrite E0 in IH. cbn in IH. congruence.
Qed.

(* path.Base = the last non-empty component of the spec's reading, whenever it is a proper name *)
Lemma path_base_last_component : forall p b,
  path_base p = b -> b <> [] -> existsb (N.eqb 47) b = false -> b <> [46] ->
  last (components p) [] = b.
Proof.
  intros p b H Hne Hs Hdot. destruct p as [|c r].
  - cbn in H. congruence.
  - unfold path_base in H.
    destruct (after_last_slash (strip_trailing_slashes (c :: r))) as [|y b'] eqn:E.
    + subst b. vm_compute in Hs. discriminate Hs.
    + rewrite after_last_slash_comps in E. unfold components.
      rewrite filter_comps_strip. subst b. apply last_filter; [exact E|discriminate].
Qed.

(* ---------- MAIN RESULT ---------- *)
Lemma loads_prefs_sound : forall p, loads_prefs p = true -> really_loads_prefs p = true.
Proof.
  intros p H. unfold loads_prefs in H. unfold really_loads_prefs.
  apply orb_true_iff in H as [H|H]; apply orb_true_iff; [left|right].
  - apply existsb_exists in H as (n & Hin & Heq). apply str_eqb_spec in Heq.
    destruct loads_prefs_table_sound as [Ht _].
    rewrite forallb_forall in Ht. specialize (Ht n Hin). cbv beta in Ht.
    assert (Hn := Ht). unfold in_strs in Hn.
    apply existsb_exists in Hn as (m & Hm & Hnm). apply str_eqb_spec in Hnm. subst m.
    pose proof prefs_reference_proper as Hp. rewrite forallb_forall in Hp.
    specialize (Hp n Hm). cbv beta in Hp.
    apply andb_true_iff in Hp as [Hp H3]. apply andb_true_iff in Hp as [H1 H2].
    apply negb_true_iff in H2, H3.
    rewrite (path_base_last_component p n Heq); [exact Ht| |exact H2|].
    + intro E0. rewrite E0 in H1. discriminate H1.
    + intro E0. rewrite E0 in H3. rewrite str_eqb_refl in H3. discriminate H3.
  - apply contains_path_components; [discriminate|reflexivity|exact H].
Qed.
