(* Proofs about Model/ShTok.v, part 3: totality corollaries, the table-driven
   expression lexer of the correspondence run meets the advance contract, and the
   link to the executable specification Spec/ShPartition.v. *)
From PV Require Import Lib.Bytes Model.ShTok Spec.ShPartition Proofs.ShTok Proofs.ShTokLoop.
From Coq Require Import ZifyBool ZifyN ZifyNat.
Open Scope N_scope.

Definition no_failure {A : Type} (x : res A) : Prop := x <> Panic /\ x <> OutOfFuel.

Lemma ok_no_failure {A : Type} (x : res A) a : x = Ok a -> no_failure x.
Proof. intros ->. split; discriminate. Qed.

Section WithExpr.

Variable expr : str -> option (str * str).
Hypothesis Hexpr : expr_contract expr.

Lemma sh_atom_total q iw (s : str) : no_failure (sh_atom expr q (iw, s)).
Proof.
  destruct (sh_atom_spec expr Hexpr q iw s) as (iw' & [E | (a & r & E & _)]);
    exact (ok_no_failure _ _ E).
Qed.

Lemma sh_atoms_from_total q iw (s : str) : no_failure (sh_atoms_from expr q (iw, s)).
Proof.
  destruct (sh_atoms_from_ok expr Hexpr q iw s) as (l & iw' & r & E & _).
  exact (ok_no_failure _ _ E).
Qed.

Lemma sh_token_total iw (s : str) : no_failure (sh_token expr (iw, s)).
Proof.
  destruct (sh_token_ok expr Hexpr iw s) as (p & iw' & r & _ & [(E & _) | (t & E & _)]);
    exact (ok_no_failure _ _ E).
Qed.

Lemma sh_tokens_total (s : str) : no_failure (sh_tokens expr s).
Proof.
  destruct (sh_tokens_ok expr Hexpr s) as (l & iw' & r & E & _).
  exact (ok_no_failure _ _ E).
Qed.

(* ShAtoms() itself: start state plain, inWord false *)
Lemma sh_atoms_ok (s : str) :
  exists atoms iw' r,
    sh_atoms expr s = Ok (atoms, (iw', r)) /\
    s = concat (map a_text atoms) ++ r /\ Forall (fun a => a_text a <> []) atoms.
Proof. exact (sh_atoms_from_ok expr Hexpr QPlain false s). Qed.

End WithExpr.

(* ---------- the expression lexers used as instances ---------- *)

Lemma no_expr_contract : expr_contract (fun _ => None).
Proof. intros s t r H. discriminate. Qed.

Lemma table_expr_contract total tbl : expr_contract (table_expr total tbl).
Proof.
  intros s t r H. unfold table_expr in H.
  destruct (nth (total - length s) tbl 0%nat) as [|n] eqn:E; [discriminate|].
  remember (S n) as m eqn:Hm.
  destruct (m <=? length s)%nat eqn:L; [|discriminate].
  injection H as <- <-. apply Nat.leb_le in L. split.
  - symmetry. apply firstn_skipn.
  - intro Z. apply (f_equal (@length N)) in Z. rewrite firstn_length in Z. simpl in Z. lia.
Qed.

(* ---------- link to the executable specification ---------- *)

Lemma nonempty_true (p : str) : p <> [] -> nonempty p = true.
Proof. destruct p; [congruence|reflexivity]. Qed.

Lemma partition_ok_intro (s : str) pieces r :
  s = concat pieces ++ r -> Forall (fun p => p <> []) pieces -> partition_ok s pieces r = true.
Proof.
  intros -> H. unfold partition_ok. rewrite str_eqb_refl, andb_true_r.
  apply forallb_forall. intros p Hp. apply nonempty_true.
  rewrite Forall_forall in H. auto.
Qed.

Lemma sh_atoms_from_partition_ok expr (Hexpr : expr_contract expr) q iw (s : str) :
  exists atoms iw' r,
    sh_atoms_from expr q (iw, s) = Ok (atoms, (iw', r)) /\
    partition_ok s (map a_text atoms) r = true.
Proof.
  destruct (sh_atoms_from_ok expr Hexpr q iw s) as (l & iw' & r & E & Hs & Hn).
  exists l, iw', r. split; [exact E|]. apply partition_ok_intro; [exact Hs|].
  unfold all_nonempty in Hn. rewrite Forall_forall in *. intros p Hp.
  apply in_map_iff in Hp as (a & <- & Ha). auto.
Qed.
