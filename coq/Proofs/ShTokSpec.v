(* Proofs about Model/ShTok.v, part 3: totality corollaries, the table-driven
   expression lexer of the correspondence run meets the advance contract, and the
   link to the executable specification Spec/ShPartition.v. *)
From PV Require Import Lib.Bytes Model.ShTok Spec.ShPartition Proofs.ShTok Proofs.ShTokLoop.
From Coq Require Import ZifyBool ZifyN ZifyNat.
Open Scope N_scope.

Definition no_failure {A : Type} (x : res A) : Prop := x <> Panic /\ x <> OutOfFuel.

Lemma ok_no_failure {A : Type} (x : res A) a : x = Ok a -> no_failure x.
Proof. intros ->. split; discriminate. Qed.

Section WithExpr.

Variable expr : str -> option (str * str).
Hypothesis Hexpr : expr_contract expr.

Lemma sh_atom_total q iw (s : str) : no_failure (sh_atom expr q (iw, s)).
Proof.
  destruct (sh_atom_spec expr Hexpr q iw s) as (iw' & [E | (a & r & E & _)]);
    exact (ok_no_failure _ _ E).
Qed.

Lemma sh_atoms_from_total q iw (s : str) : no_failure (sh_atoms_from expr q (iw, s)).
Proof.
  destruct (sh_atoms_from_ok expr Hexpr q iw s) as (l & iw' & r & E & _).
  exact (ok_no_failure _ _ E).
Qed.

Lemma sh_token_total iw (s : str) : no_failure (sh_token expr (iw, s)).
Proof.
  destruct (sh_token_ok expr Hexpr iw s) as (p & iw' & r & _ & [(E & _) | (t & E & _)]);
    exact (ok_no_failure _ _ E).
Qed.

Lemma sh_tokens_total (s : str) : no_failure (sh_tokens expr s).
Proof.
  destruct (sh_tokens_ok expr Hexpr s) as (l & iw' & r & E & _).
  exact (ok_no_failure _ _ E).
Qed.

(* ShAtoms() itself: start state plain, inWord false *)
Lemma sh_atoms_ok (s : str) :
  exists atoms iw' r,
    sh_atoms expr s = Ok (atoms, (iw', r)) /\
    s = concat (map a_text atoms) ++ r /\ Forall (fun a => a_text a <> []) atoms.
Proof. exact (sh_atoms_from_ok expr Hexpr QPlain false s). Qed.

End WithExpr.

(* ---------- the expression lexers used as instances ---------- *)

Lemma no_expr_contract : expr_contract (fun _ => None).
Proof. intros s t r H. discriminate. Qed.

Lemma table_expr_contract total tbl : expr_contract (table_expr total tbl).
Proof.
  intros s t r H. unfold table_expr in H.
  destruct (nth (total - length s) tbl 0%nat) as [|n] eqn:E; [discriminate|].
  remember (S n) as m eqn:Hm.
  destruct (m <=? length s)%nat eqn:L; [|discriminate].
  injection H as <- <-. apply Nat.leb_le in L. split.
  - symmetry. apply firstn_skipn.
  - intro Z. apply (f_equal (@length N)) in Z. rewrite firstn_length in Z. simpl in Z. lia.
Qed.

(* ---------- link to the executable specification ---------- *)

Lemma nonempty_true (p : str) : p <> [] -> nonempty p = true.
Proof. destruct p; [congruence|reflexivity]. Qed.

Lemma partition_ok_intro (s : str) pieces r :
  s = concat pieces ++ r -> Forall (fun p => p <> []) pieces -> partition_ok s pieces r = true.
Proof.
  intros -> H. unfold partition_ok. rewrite str_eqb_refl, andb_true_r.
  apply forallb_forall. intros p Hp. apply nonempty_true.
  rewrite Forall_forall in H. auto.
Qed.

Lemma sh_atoms_from_partition_ok expr (Hexpr : expr_contract expr) q iw (s : str) :
  exists atoms iw' r,
    sh_atoms_from expr q (iw, s) = Ok (atoms, (iw', r)) /\
    partition_ok s (map a_text atoms) r = true.
Proof.
  destruct (sh_atoms_from_ok expr Hexpr q iw s) as (l & iw' & r & E & Hs & Hn).
  exists l, iw', r. split; [exact E|]. apply partition_ok_intro; [exact Hs|].
  unfold all_nonempty in Hn. rewrite Forall_forall in *. intros p Hp.
  apply in_map_iff in Hp as (a & <- & Ha). auto.
Qed.

(* ---------- the ShToken chain satisfies the executable tokens_ok ---------- *)

Lemma only_skipped_hspace p : forall (t : str) fuel,
  forallb is_hspace p = true ->
  (forall fuel', (length t < fuel')%nat -> only_skipped fuel' t = true) ->
  (length (p ++ t) < fuel)%nat -> only_skipped fuel (p ++ t) = true.
Proof.
  induction p as [|c p IH]; intros t fuel Hp Ht Hf; [exact (Ht fuel Hf)|].
  cbn [forallb] in Hp. apply andb_true_iff in Hp as [Hc Hp].
  destruct fuel as [|f]; [simpl in Hf; lia|].
  cbn [app only_skipped]. rewrite Hc. apply IH; auto. simpl in Hf. lia.
Qed.

Lemma only_skipped_concat pieces : Forall skipped_piece pieces ->
  forall fuel, (length (concat pieces) < fuel)%nat -> only_skipped fuel (concat pieces) = true.
Proof.
  induction 1 as [|p pieces [Hn [Hh | ->]] _ IH]; intros fuel Hf.
  - destruct fuel; [simpl in Hf; lia|reflexivity].
  - cbn [concat] in *. apply only_skipped_hspace; auto.
  - cbn [concat] in *. destruct fuel as [|f]; [simpl in Hf; lia|].
    change ulimit_cmd with ulimit_text in *.
    assert (E : strip_prefix ulimit_text (ulimit_text ++ concat pieces) = Some (concat pieces))
      by (apply strip_prefix_some; reflexivity).
    change (only_skipped (S f) (ulimit_text ++ concat pieces)) with
      (match strip_prefix ulimit_text (ulimit_text ++ concat pieces) with
       | Some r => only_skipped f r | None => false end).
    rewrite E. apply IH. rewrite app_length in Hf. simpl in Hf. lia.
Qed.

Lemma skipped_prefix_ok (before : str) pieces (tail : str) :
  Forall skipped_piece pieces -> before = concat pieces ++ tail ->
  let n := (length before - length tail)%nat in
  (length tail <=? length before)%nat = true /\
  str_eqb (skipn n before) tail = true /\
  only_skipped (S (length before)) (firstn n before) = true.
Proof.
  intros Hp -> n. subst n. rewrite app_length.
  replace (length (concat pieces) + length tail - length tail)%nat with (length (concat pieces)) by lia.
  split; [apply Nat.leb_le; lia|]. split.
  - rewrite skipn_app, Nat.sub_diag, skipn_all. apply str_eqb_refl.
  - rewrite firstn_app, Nat.sub_diag, firstn_all. cbn [firstn]. rewrite app_nil_r.
    apply only_skipped_concat; [exact Hp|]. lia.
Qed.

Lemma tokens_chain_ok : forall l (before final : str),
  tokens_chain before l final ->
  tokens_ok before (map (fun p => (tok_text (fst p), snd p)) l) final = true.
Proof.
  induction l as [|[t after] l IH]; intros before final H; cbn [tokens_chain map tokens_ok fst snd] in *.
  - destruct H as (pieces & Hp & Hb).
    destruct (skipped_prefix_ok before pieces final Hp Hb) as (A & B & C).
    rewrite A, B, C. reflexivity.
  - destruct H as ((pieces & Hp & Hb) & Hn & _ & Hc).
    rewrite (IH after final Hc), andb_true_r. unfold token_ok.
    destruct (skipped_prefix_ok before pieces (tok_text t ++ after) Hp Hb) as (A & B & C).
    rewrite A, B, C, (nonempty_true _ Hn). reflexivity.
Qed.

Lemma sh_tokens_meet_spec expr (Hexpr : expr_contract expr) (s : str) :
  exists l iw' r,
    sh_tokens expr s = Ok (l, (iw', r)) /\
    tokens_ok s (map (fun p => (tok_text (fst p), snd p)) l) r = true.
Proof.
  destruct (sh_tokens_ok expr Hexpr s) as (l & iw' & r & E & Hc).
  exists l, iw', r. split; [exact E|]. exact (tokens_chain_ok l s r Hc).
Qed.

(* ... and the declarative chain_ok of the specification *)
Definition token_view (p : token * str) : str * list str * str :=
  (tok_text (fst p), map a_text (tok_atoms (fst p)), snd p).

Lemma tokens_chain_chain_ok : forall l (before final : str),
  tokens_chain before l final -> chain_ok before (map token_view l) final.
Proof.
  induction l as [|[t after] l IH]; intros before final H; cbn [tokens_chain map chain_ok token_view fst snd] in *.
  - exact H.
  - destruct H as (Hp & Hn & (Ht & Ha & Hne) & Hc).
    split; [exact Hp|]. split; [exact Hn|]. split; [exact Ht|]. split; [|split].
    + destruct (tok_atoms t); [congruence|discriminate].
    + unfold all_nonempty in Hne. rewrite Forall_forall in *. intros x Hx.
      apply in_map_iff in Hx as (a & <- & Hin). auto.
    + apply IH. exact Hc.
Qed.

Lemma sh_tokens_chain_ok expr (Hexpr : expr_contract expr) (s : str) :
  exists l iw' r,
    sh_tokens expr s = Ok (l, (iw', r)) /\ chain_ok s (map token_view l) r.
Proof.
  destruct (sh_tokens_ok expr Hexpr s) as (l & iw' & r & E & Hc).
  exists l, iw', r. split; [exact E|]. exact (tokens_chain_chain_ok l s r Hc).
Qed.
