From PV Require Import Lib.Bytes Gen.VercmpTable Model.Vercmp Spec.Dewey.
From Coq Require Import ZifyBool ZifyN ZifyNat.
Open Scope Z_scope.

(* ---------- order axioms of cmp_from on arbitrary field functions ---------- *)

Lemma cmp_from_refl n i f : cmp_from n i f f = Eq.
Proof. revert i; induction n as [|n IH]; intro i; simpl; [reflexivity|]. rewrite Z.compare_refl. apply IH. Qed.

Lemma cmp_from_antisym n i f g : cmp_from n i f g = CompOpp (cmp_from n i g f).
Proof.
  revert i; induction n as [|n IH]; intro i; simpl; [reflexivity|].
  rewrite (Z.compare_antisym (f i) (g i)). destruct (f i ?= g i); simpl; auto.
Qed.

(* Composition table: Eq is neutral, Lt;Lt = Lt, Gt;Gt = Gt. *)
Definition comp_ok (x y z : comparison) : Prop :=
  match x, y with
  | Eq, c => z = c
  | c, Eq => z = c
  | Lt, Lt => z = Lt
  | Gt, Gt => z = Gt
  | _, _ => True
  end.

Lemma Zcompare_comp a b c : comp_ok (a ?= b) (b ?= c) (a ?= c).
Proof.
  destruct (Z.compare_spec a b), (Z.compare_spec b c), (Z.compare_spec a c); simpl; auto; lia.
Qed.

Lemma cmp_from_comp n i f g h :
  comp_ok (cmp_from n i f g) (cmp_from n i g h) (cmp_from n i f h).
Proof.
  revert i; induction n as [|n IH]; intro i; simpl; [reflexivity|].
  pose proof (Zcompare_comp (f i) (g i) (h i)) as H. specialize (IH (S i)).
  destruct (f i ?= g i), (g i ?= h i), (f i ?= h i); simpl in *; auto; try discriminate;
    destruct (cmp_from n (S i) f g), (cmp_from n (S i) g h); simpl in *; auto; congruence.
Qed.

(* more iterations than needed do not matter when the functions agree beyond n *)
Lemma cmp_from_extend n k i f g :
  (forall j, (i + n <= j)%nat -> f j = g j) ->
  cmp_from (n + k) i f g = cmp_from n i f g.
Proof.
  revert i; induction n as [|n IH]; intros i H; simpl.
  - revert i H; induction k as [|k IHk]; intros i H; simpl; [reflexivity|].
    rewrite H by lia. rewrite Z.compare_refl. apply IHk. intros j Hj; apply H; lia.
  - destruct (f i ?= g i); auto. apply IH. intros j Hj; apply H; lia.
Qed.

Lemma field_beyond v j : (length v <= j)%nat -> field v j = 0.
Proof. intro H. unfold field. apply nth_overflow. exact H. Qed.

Definition cmpN (N : nat) (a b : list Z * Z) : comparison :=
  match cmp_from N 0 (field (fst a)) (field (fst b)) with
  | Eq => snd a ?= snd b
  | c => c
  end.

Lemma compare_versions_cmpN N a b :
  (Nat.max (length (fst a)) (length (fst b)) <= N)%nat -> compare_versions a b = cmpN N a b.
Proof.
  intro H. unfold compare_versions, cmpN.
  replace N with (Nat.max (length (fst a)) (length (fst b)) + (N - Nat.max (length (fst a)) (length (fst b))))%nat by lia.
  rewrite cmp_from_extend; [reflexivity|].
  intros j Hj. rewrite !field_beyond by lia. reflexivity.
Qed.

Lemma compare_versions_refl a : compare_versions a a = Eq.
Proof. unfold compare_versions. rewrite cmp_from_refl. apply Z.compare_refl. Qed.

Lemma compare_versions_antisym a b : compare_versions a b = CompOpp (compare_versions b a).
Proof.
  unfold compare_versions. rewrite (Nat.max_comm (length (fst b))).
  rewrite (cmp_from_antisym _ _ (field (fst a))).
  destruct (cmp_from _ 0 (field (fst b)) (field (fst a))); simpl; auto.
  apply Z.compare_antisym.
Qed.

Definition lexc (c d : comparison) : comparison := match c with Eq => d | Lt => Lt | Gt => Gt end.

Lemma lexc_comp x1 y1 z1 x2 y2 z2 :
  comp_ok x1 y1 z1 -> comp_ok x2 y2 z2 -> comp_ok (lexc x1 x2) (lexc y1 y2) (lexc z1 z2).
Proof.
  destruct x1, y1, z1; simpl; intro H1; try discriminate; try exact I;
    destruct x2, y2, z2; simpl; intro H2; try discriminate; try exact I; reflexivity.
Qed.

Lemma cmpN_comp N a b c : comp_ok (cmpN N a b) (cmpN N b c) (cmpN N a c).
Proof.
  unfold cmpN.
  apply (lexc_comp _ _ _ _ _ _
          (cmp_from_comp N 0%nat (field (fst a)) (field (fst b)) (field (fst c)))
          (Zcompare_comp (snd a) (snd b) (snd c))).
Qed.

Lemma compare_versions_comp a b c :
  comp_ok (compare_versions a b) (compare_versions b c) (compare_versions a c).
Proof.
  set (N := Nat.max (length (fst a)) (Nat.max (length (fst b)) (length (fst c)))).
  rewrite !(compare_versions_cmpN N) by (subst N; lia). apply cmpN_comp.
Qed.

Lemma compare_versions_trans a b c :
  compare_versions a b <> Gt -> compare_versions b c <> Gt -> compare_versions a c <> Gt.
Proof.
  pose proof (compare_versions_comp a b c) as H.
  destruct (compare_versions a b), (compare_versions b c); simpl in H; intros H1 H2; try congruence; rewrite H; congruence.
Qed.

(* ---------- totality of new_version ---------- *)

Definition shrinks (step : stepfn) : Prop :=
  forall s adds nbo r, step s = Some (adds, nbo, r) -> (length r < length s)%nat.

Lemma nv_loop_total step : shrinks step ->
  forall fuel s v nb, (length s < fuel)%nat -> nv_loop step fuel s v nb <> None.
Proof.
  intros Hs fuel; induction fuel as [|f IH]; intros s v nb Hl; [lia|]. simpl.
  destruct (step s) as [[[adds nbo] r]|] eqn:E; [|discriminate].
  apply IH. apply Hs in E. lia.
Qed.

Lemma span_snd_length f s : (length (snd (span f s)) <= length s)%nat.
Proof. pose proof (span_length f s). lia. Qed.

Lemma span_digit_shrinks c s :
  is_digit c = true -> (length (snd (span is_digit (c :: s))) < length (c :: s))%nat.
Proof.
  intro H. simpl. rewrite H. destruct (span is_digit s) as [a b] eqn:E. simpl.
  pose proof (span_snd_length is_digit s) as L. rewrite E in L. simpl in L. lia.
Qed.

Lemma strip_prefix_length p s r : strip_prefix p s = Some r -> (length s = length p + length r)%nat.
Proof. intro H. apply strip_prefix_some in H. subst. apply app_length. Qed.

Lemma find_kw_length tbl s w r :
  Forall (fun e => fst e <> []) tbl -> find_kw tbl s = Some (w, r) -> (length r < length s)%nat.
Proof.
  induction tbl as [|[k w'] t IH]; simpl; intros HF H; [discriminate|].
  inversion HF as [|? ? Hk HF']; subst. simpl in Hk.
  destruct (strip_prefix k s) as [r'|] eqn:E.
  - inversion H; subst. apply strip_prefix_length in E. destruct k; [congruence|]. simpl in E. lia.
  - eauto.
Qed.

Lemma keyword_table_nonempty : Forall (fun e : str * Z => fst e <> []) keyword_table.
Proof. unfold keyword_table. repeat constructor; simpl; discriminate. Qed.

Lemma nv_step_shrinks : shrinks nv_step.
Proof.
  intros s adds nbo r. unfold nv_step. destruct s as [|c s']; [discriminate|].
  destruct (is_digit c) eqn:Ed.
  - pose proof (span_digit_shrinks c s' Ed) as L.
    destruct (span is_digit (c :: s')) as [ds r0]. simpl in L. intro H; inversion H; subst. exact L.
  - destruct (existsb (N.eqb c) sep_bytes); [intro H; inversion H; subst; simpl; lia|].
    destruct (find_kw keyword_table (c :: s')) as [[w r0]|] eqn:Ek.
    + intro H; inversion H; subst. eapply find_kw_length; [apply keyword_table_nonempty|exact Ek].
    + destruct (strip_prefix nb_keyword (c :: s')) as [r0|] eqn:En.
      * apply strip_prefix_length in En. unfold nb_keyword in En. simpl in En.
        pose proof (span_snd_length is_digit r0) as L.
        destruct (span is_digit r0) as [ds r']. simpl in L. intro H; inversion H; subst. simpl. lia.
      * destruct (is_lower c); intro H; inversion H; subst; simpl; lia.
Qed.

Lemma new_version_total s : new_version s <> None.
Proof.
  unfold new_version. apply nv_loop_total; [apply nv_step_shrinks|].
  unfold lower. rewrite map_length. lia.
Qed.

(* ---------- the order axioms for Compare on all byte strings ---------- *)

Lemma compare_defined a b : exists c, compare a b = Some c.
Proof.
  unfold compare. pose proof (new_version_total a). pose proof (new_version_total b).
  destruct (new_version a), (new_version b); try congruence. eauto.
Qed.

Lemma compare_refl a : compare a a = Some Eq.
Proof.
  unfold compare. pose proof (new_version_total a).
  destruct (new_version a); [|congruence]. rewrite compare_versions_refl. reflexivity.
Qed.

Lemma compare_antisym a b : compare a b = option_map CompOpp (compare b a).
Proof.
  unfold compare. destruct (new_version a), (new_version b); simpl; auto.
  rewrite compare_versions_antisym. reflexivity.
Qed.

Definition le_ver (a b : str) : Prop := exists c, compare a b = Some c /\ c <> Gt.

Lemma compare_trans a b c : le_ver a b -> le_ver b c -> le_ver a c.
Proof.
  unfold le_ver, compare. intros [x [H1 H1']] [y [H2 H2']].
  destruct (new_version a), (new_version b), (new_version c); try discriminate.
  inversion H1; inversion H2; subst. eexists; split; [reflexivity|].
  eapply compare_versions_trans; eauto.
Qed.

(* ---------- model = dewey.c (up to Go's saturation of huge numbers) ---------- *)

Definition clamp (z : Z) : Z := Z.min z max_int.
Definition clamp_step (x : list Z * option Z * str) : list Z * option Z * str :=
  match x with (adds, nbo, r) => (map clamp adds, option_map clamp nbo, lower r) end.

Lemma is_digit_lower c : is_digit (to_lower c) = is_digit c.
Proof. unfold to_lower, is_upper, is_digit. destruct ((65 <=? c)%N && (c <=? 90)%N) eqn:E; lia. Qed.

Lemma digit_lower_id c : is_digit c = true -> to_lower c = c.
Proof. unfold to_lower, is_upper, is_digit. intro. destruct ((65 <=? c)%N && (c <=? 90)%N) eqn:E; lia. Qed.

Lemma span_digit_lower s :
  span is_digit (lower s) = (fst (span is_digit s), lower (snd (span is_digit s))).
Proof.
  induction s as [|c s IH]; simpl; [reflexivity|].
  rewrite is_digit_lower. destruct (is_digit c) eqn:E; [|reflexivity].
  rewrite IH. destruct (span is_digit s) as [a b]. simpl. rewrite digit_lower_id by exact E. reflexivity.
Qed.

Lemma strip_prefix_lower k s :
  strip_prefix k (lower s) = option_map lower (strip_prefix_ci k s).
Proof.
  revert s; induction k as [|x k IH]; intros s; simpl; [reflexivity|].
  destruct s as [|y s]; simpl; [reflexivity|]. destruct (x =? to_lower y)%N; auto.
Qed.

Lemma find_kw_lower tbl s :
  find_kw tbl (lower s) = option_map (fun p => (fst p, lower (snd p))) (find_mod tbl s).
Proof.
  induction tbl as [|[k w] t IH]; simpl; [reflexivity|].
  rewrite strip_prefix_lower. destruct (strip_prefix_ci k s); simpl; auto.
Qed.

Lemma table_is_dewey :
  map (fun b => ([b], 0)) sep_bytes ++ keyword_table
  = [ ([95]%N, 0); ([46]%N, 0) ] ++ firstn 5 modifiers
  /\ skipn 5 modifiers = [ ([95]%N, 0); ([46]%N, 0) ] /\ nb_keyword = [110; 98]%N.
Proof. repeat split. Qed.

Lemma clamp_small z : z <= max_int -> clamp z = z.
Proof. unfold clamp. lia. Qed.

Lemma is_lower_to_lower c : is_lower (to_lower c) = is_alpha c.
Proof.
  unfold to_lower, is_alpha, is_lower, is_upper.
  destruct ((65 <=? c)%N && (c <=? 90)%N) eqn:E; lia.
Qed.

Lemma find_mod_sep c s' : to_lower c = 95%N \/ to_lower c = 46%N ->
  find_mod modifiers (c :: s') = Some (0, s').
Proof. intros [H|H]; unfold modifiers; cbn [find_mod strip_prefix_ci]; rewrite H; reflexivity. Qed.

Lemma find_mod_nosep c s' : to_lower c <> 95%N -> to_lower c <> 46%N ->
  find_mod modifiers (c :: s') = find_mod keyword_table (c :: s').
Proof.
  intros H1 H2. unfold modifiers, keyword_table. cbn [find_mod strip_prefix_ci].
  replace (95 =? to_lower c)%N with false by lia. replace (46 =? to_lower c)%N with false by lia.
  reflexivity.
Qed.

Lemma keyword_weights_small tbl s w r :
  Forall (fun e : str * Z => snd e <= 0) tbl -> find_mod tbl s = Some (w, r) -> w <= 0.
Proof.
  induction tbl as [|[k w'] t IH]; simpl; intros HF H; [discriminate|].
  inversion HF; subst. destruct (strip_prefix_ci k s); [inversion H; subst; assumption|eauto].
Qed.

Lemma keyword_table_small : Forall (fun e : str * Z => snd e <= 0) keyword_table.
Proof. unfold keyword_table. repeat constructor; simpl; lia. Qed.

Lemma nv_step_is_mkcomponent s :
  nv_step (lower s) = option_map clamp_step (mkcomponent s).
Proof.
  destruct s as [|c s']; [reflexivity|].
  change (lower (c :: s')) with (to_lower c :: lower s').
  unfold nv_step, mkcomponent.
  rewrite is_digit_lower. destruct (is_digit c) eqn:Ed.
  - change (to_lower c :: lower s') with (lower (c :: s')). rewrite span_digit_lower.
    destruct (span is_digit (c :: s')) as [ds r]. simpl. reflexivity.
  - change (to_lower c :: lower s') with (lower (c :: s')).
    rewrite find_kw_lower, strip_prefix_lower.
    destruct (existsb (N.eqb (to_lower c)) sep_bytes) eqn:Es.
    + rewrite find_mod_sep; [reflexivity|]. unfold sep_bytes in Es. simpl in Es. lia.
    + rewrite find_mod_nosep by (unfold sep_bytes in Es; simpl in Es; lia).
      destruct (find_mod keyword_table (c :: s')) as [[w r]|] eqn:Ek.
      * simpl. rewrite clamp_small; [reflexivity|].
        pose proof (keyword_weights_small _ _ _ _ keyword_table_small Ek). unfold max_int; lia.
      * cbn [option_map]. change [110%N; 98%N] with nb_keyword.
        destruct (strip_prefix_ci nb_keyword (c :: s')) as [r|] eqn:En; cbn [option_map].
        -- rewrite span_digit_lower.
           destruct (span is_digit r) as [ds r']. reflexivity.
        -- rewrite is_lower_to_lower. destruct (is_alpha c) eqn:Ea; cbn [option_map clamp_step map]; [|reflexivity].
           rewrite !clamp_small; [reflexivity| |unfold max_int; lia].
           unfold to_lower, is_alpha, is_lower, is_upper, max_int in *.
           destruct ((65 <=? c)%N && (c <=? 90)%N) eqn:E; lia.
Qed.

Lemma nv_loop_is_mkversion fuel s v nb :
  nv_loop nv_step fuel (lower s) (map clamp v) (clamp nb)
  = option_map (fun p => (map clamp (fst p), clamp (snd p))) (mkversion_loop fuel s v nb).
Proof.
  revert s v nb; induction fuel as [|f IH]; intros s v nb; simpl; [reflexivity|].
  rewrite nv_step_is_mkcomponent.
  destruct (mkcomponent s) as [[[adds nbo] r]|]; simpl; [|reflexivity].
  rewrite <- map_app.
  replace (match option_map clamp nbo with Some n => n | None => clamp nb end)
    with (clamp (match nbo with Some n => n | None => nb end)) by (destruct nbo; reflexivity).
  apply IH.
Qed.

Theorem new_version_is_mkversion s :
  new_version s = option_map (fun p => (map clamp (fst p), clamp (snd p))) (mkversion s).
Proof.
  unfold new_version, mkversion.
  change (@nil Z) with (map clamp []). change 0 with (clamp 0) at 1.
  apply nv_loop_is_mkversion.
Qed.

(* sign of vtest = compare_versions *)
Lemma vtest_from_sign n i l r :
  sign_of (cmp_from n i (field l) (field r)) = Z.sgn (vtest_from n i l r).
Proof.
  revert i; induction n as [|n IH]; intro i; simpl; [reflexivity|].
  unfold DIGIT, field in *. 
  destruct (Z.compare_spec (nth i l 0) (nth i r 0)) as [E|E|E].
  - replace (nth i l 0 - nth i r 0 =? 0) with true by lia. apply IH.
  - replace (nth i l 0 - nth i r 0 =? 0) with false by lia. simpl. lia.
  - replace (nth i l 0 - nth i r 0 =? 0) with false by lia. simpl. lia.
Qed.

Lemma vtest_sign a b : sign_of (compare_versions a b) = Z.sgn (vtest a b).
Proof.
  unfold compare_versions, vtest.
  pose proof (vtest_from_sign (Nat.max (length (fst a)) (length (fst b))) 0 (fst a) (fst b)) as H.
  destruct (cmp_from _ 0 (field (fst a)) (field (fst b))) eqn:E; simpl in H.
  - replace (vtest_from _ 0 (fst a) (fst b) =? 0) with true by lia.
    destruct (Z.compare_spec (snd a) (snd b)); simpl; lia.
  - replace (vtest_from _ 0 (fst a) (fst b) =? 0) with false by lia. simpl. lia.
  - replace (vtest_from _ 0 (fst a) (fst b) =? 0) with false by lia. simpl. lia.
Qed.

Definition in_range (v : list Z * Z) : Prop := Forall (fun z => z <= max_int) (fst v) /\ snd v <= max_int.

Lemma clamp_version_id v : in_range v -> (map clamp (fst v), clamp (snd v)) = v.
Proof.
  intros [H1 H2]. destruct v as [l n]. simpl in *. f_equal; [|apply clamp_small; exact H2].
  induction H1 as [|x l Hx Hl IH]; simpl; [reflexivity|]. rewrite clamp_small by exact Hx. f_equal; exact IH.
Qed.

Theorem compare_is_dewey a b va vb :
  mkversion a = Some va -> mkversion b = Some vb -> in_range va -> in_range vb ->
  option_map sign_of (compare a b) = dewey_cmp a b.
Proof.
  intros Ha Hb Ra Rb. unfold compare, dewey_cmp.
  rewrite !new_version_is_mkversion, Ha, Hb. simpl.
  rewrite !clamp_version_id by assumption. rewrite vtest_sign. reflexivity.
Qed.

Lemma mkversion_total s : mkversion s <> None.
Proof.
  pose proof (new_version_total s) as H. rewrite new_version_is_mkversion in H.
  destruct (mkversion s); [discriminate|]. simpl in H. congruence.
Qed.
