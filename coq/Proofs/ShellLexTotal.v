(* The fuel of Model.ShellLex.shell_lex always suffices: every call of Lex that
   returns a terminal consumes a token of `remaining` or the pending `ioRedirect`. *)
From Coq Require Import NArith ZArith List Bool Lia.
From PV Require Import Lib.Bytes Gen.ShellGrammar Model.ShellLex.
Import ListNotations.

Definition io_ok (lx : lexer) : Prop :=
  ioRedirect lx = [] \/ existsb (str_eqb (ioRedirect lx)) redirect_ops = true.

Definition measure (lx : lexer) : nat :=
  2 * length (remaining lx) + match ioRedirect lx with [] => 0 | _ => 1 end.

Definition keeps (eff : lexer -> lexer) : Prop :=
  forall lx, remaining (eff lx) = remaining lx /\ ioRedirect (eff lx) = ioRedirect lx.

Lemma operator_effects_keep s t eff : lookup operator_table s = Some (t, eff) -> keeps eff.
Proof.
  unfold operator_table. cbn [lookup].
  repeat (destruct (str_eqb s _); [intro H; injection H as <- <-; intro lx; split; reflexivity |]).
  discriminate.
Qed.

Lemma keyword_effects_keep s t eff : lookup keyword_table s = Some (t, eff) -> keeps eff.
Proof.
  unfold keyword_table. cbn [lookup].
  repeat (destruct (str_eqb s _); [intro H; injection H as <- <-; intro lx; split; reflexivity |]).
  discriminate.
Qed.

Lemma bump_keeps : keeps bump.
Proof.
  intro lx. unfold bump. destruct (0 <=? sinceFor lx)%Z; cbn [sinceCase set_for];
    destruct (0 <=? sinceCase lx)%Z; split; reflexivity.
Qed.

Lemma lex_word_keeps token kind aa lx t lx' :
  lex_word token kind aa lx = LexTok t lx' ->
  remaining lx' = remaining lx /\ ioRedirect lx' = ioRedirect lx.
Proof.
  unfold lex_word.
  repeat match goal with |- context [if ?b then _ else _] => destruct b end;
    try destruct kind; intro H; inversion H; subst; split; reflexivity.
Qed.

(* the part of Lex after the operator and io-number tests *)
Definition lex_tail (token : str) (kind : wkind) (aa : bool) (lx : lexer) : lex_result :=
  let lx := if atCommandStart lx then set_for (-1) (set_case (-1) lx) else lx in
  match (if atCommandStart lx && negb (inCasePattern lx) && negb aa
         then lookup keyword_table token else None) with
  | Some (t, eff) => LexTok t (eff lx)
  | None => lex_word token kind aa (bump lx)
  end.

Lemma lex_tail_keeps token kind aa lx t lx' :
  lex_tail token kind aa lx = LexTok t lx' ->
  remaining lx' = remaining lx /\ ioRedirect lx' = ioRedirect lx.
Proof.
  unfold lex_tail.
  set (l2 := if atCommandStart lx then set_for (-1) (set_case (-1) lx) else lx).
  assert (H2 : remaining l2 = remaining lx /\ ioRedirect l2 = ioRedirect lx)
    by (unfold l2; destruct (atCommandStart lx); split; reflexivity).
  destruct H2 as [Hr2 Hi2].
  destruct (if atCommandStart l2 && negb (inCasePattern l2) && negb aa then lookup keyword_table token else None)
    as [[t0 eff] |] eqn:Ekw.
  - assert (Hk : lookup keyword_table token = Some (t0, eff))
      by (destruct (atCommandStart l2 && negb (inCasePattern l2) && negb aa)%bool; [exact Ekw | discriminate]).
    intro H. injection H as <- <-. destruct (keyword_effects_keep _ _ _ Hk l2) as [Hr Hi]. split; congruence.
  - intro H. apply lex_word_keeps in H. destruct H as [Hr Hi].
    destruct (bump_keeps l2) as [Hrb Hib]. split; congruence.
Qed.

Lemma lex_tail_panic token kind aa lx : lex_tail token kind aa lx = LexPanic -> kind = WkNil.
Proof.
  unfold lex_tail.
  match goal with |- context [match ?x with Some _ => _ | None => _ end] => destruct x as [[t0 eff] |] end;
    [discriminate |].
  unfold lex_word.
  repeat match goal with |- context [if ?b then _ else _] => destruct b end;
    try discriminate; destruct kind; try discriminate; reflexivity.
Qed.

(* Lex in terms of lex_tail *)
Lemma Lex_shape lx :
  Lex lx =
  match remaining lx with
  | [] => LexEOF lx
  | first :: rest =>
    let '(token, kind, lx1) :=
      match ioRedirect lx with
      | [] => (t_text first, t_kind first, set_remaining rest (set_io [] lx))
      | io => (io, WkPlain, set_io [] lx)
      end in
    let lx2 := set_aa false lx1 in
    match lookup operator_table token with
    | Some (t, eff) => LexTok t (eff lx2)
    | None =>
      match match_io_number token with
      | Some (_, op) => LexTok tkIO_NUMBER (set_io op lx2)
      | None => lex_tail token kind (afterAssign lx1) lx2
      end
    end
  end.
Proof. reflexivity. Qed.

Lemma pending_is_operator io :
  existsb (str_eqb io) redirect_ops = true ->
  exists t, lookup operator_table io = Some (t, set_acs false).
Proof.
  intro H. apply existsb_exists in H. destruct H as (k & Hin & Heq).
  apply str_eqb_spec in Heq. subst k. unfold redirect_ops in Hin. simpl in Hin.
  repeat (destruct Hin as [<- | Hin]; [eexists; reflexivity |]). destruct Hin.
Qed.

Lemma match_io_number_op token ds op :
  match_io_number token = Some (ds, op) -> existsb (str_eqb op) redirect_ops = true.
Proof.
  unfold match_io_number. destruct (span is_digit token) as [d r]. destruct d; [discriminate |].
  destruct (existsb (str_eqb r) redirect_ops) eqn:E; [| discriminate].
  intro H. injection H as _ <-. exact E.
Qed.

Lemma Lex_progress lx t lx' :
  io_ok lx -> Lex lx = LexTok t lx' -> io_ok lx' /\ (measure lx' < measure lx)%nat.
Proof.
  intros Hio. rewrite Lex_shape. destruct (remaining lx) as [| first rest] eqn:Erem; [discriminate |].
  destruct (ioRedirect lx) as [| b bs] eqn:Eio.
  - (* a token of `remaining` is consumed *)
    set (lx1 := set_remaining rest (set_io [] lx)). set (lx2 := set_aa false lx1).
    assert (Hr2 : remaining lx2 = rest) by reflexivity.
    assert (Hi2 : ioRedirect lx2 = []) by reflexivity.
    assert (Hm : forall l, remaining l = rest ->
                (ioRedirect l = [] \/ existsb (str_eqb (ioRedirect l)) redirect_ops = true) ->
                io_ok l /\ (measure l < measure lx)%nat).
    { intros l Hr Hi. split; [exact Hi |]. unfold measure. rewrite Hr, Erem, Eio. cbn [length].
      destruct (ioRedirect l); lia. }
    cbv zeta. fold lx1. fold lx2.
    destruct (lookup operator_table (t_text first)) as [[t0 eff] |] eqn:Eop.
    + intro H. injection H as <- <-. destruct (operator_effects_keep _ _ _ Eop lx2) as [Hr Hi].
      apply Hm; [congruence | left; congruence].
    + destruct (match_io_number (t_text first)) as [[ds op] |] eqn:Enum.
      * intro H. injection H as <- <-. apply Hm; [reflexivity | right].
        cbn [ioRedirect set_io]. exact (match_io_number_op _ _ _ Enum).
      * intro H. apply lex_tail_keeps in H. destruct H as [Hr Hi].
        apply Hm; [congruence | left; congruence].
  - (* the pending operator of an io-number token is consumed *)
    destruct Hio as [Hio | Hio]; [congruence |]. rewrite Eio in Hio.
    destruct (pending_is_operator _ Hio) as (t0 & Hop). cbv zeta. rewrite Hop.
    intro H. injection H as <- <-. split; [left; reflexivity |].
    unfold measure. cbn [remaining ioRedirect set_acs set_io set_aa]. rewrite Erem, Eio. lia.
Qed.

Lemma lex_stream_fuel fuel : forall lx,
  io_ok lx -> (measure lx < fuel)%nat -> lex_stream fuel lx <> LexedOutOfFuel.
Proof.
  induction fuel as [| fuel IH]; intros lx Hio Hm; [lia |].
  cbn [lex_stream]. destruct (Lex lx) as [t lx' | lx' |] eqn:E; try discriminate.
  destruct (Lex_progress lx t lx' Hio E) as [Hio' Hm'].
  specialize (IH lx' Hio' ltac:(lia)).
  destruct (lex_stream fuel lx'); [discriminate | discriminate | congruence].
Qed.

Theorem shell_lex_total : forall tokens, shell_lex tokens <> LexedOutOfFuel.
Proof.
  intro tokens. unfold shell_lex. apply lex_stream_fuel.
  - left. reflexivity.
  - unfold measure, new_lexer. cbn [remaining ioRedirect]. lia.
Qed.

(* ---------- the only panic site: a word that ShToken() cannot tokenize (WkNil) ---------- *)

Lemma Lex_panic lx : Lex lx = LexPanic ->
  exists first rest, remaining lx = first :: rest /\ t_kind first = WkNil.
Proof.
  rewrite Lex_shape. destruct (remaining lx) as [| first rest]; [discriminate |].
  destruct (ioRedirect lx) as [| b bs]; cbv zeta.
  - destruct (lookup operator_table (t_text first)) as [[t0 eff] |]; [discriminate |].
    destruct (match_io_number (t_text first)) as [[ds op] |]; [discriminate |].
    intro H. exists first, rest. split; [reflexivity |]. exact (lex_tail_panic _ _ _ _ H).
  - destruct (lookup operator_table (b :: bs)) as [[t0 eff] |]; [discriminate |].
    destruct (match_io_number (b :: bs)) as [[ds op] |]; [discriminate |].
    intro H. apply lex_tail_panic in H. discriminate.
Qed.

(* Lex never puts tokens back *)
Lemma Lex_remaining lx t lx' : Lex lx = LexTok t lx' ->
  remaining lx' = remaining lx \/ exists first, remaining lx = first :: remaining lx'.
Proof.
  rewrite Lex_shape. destruct (remaining lx) as [| first rest] eqn:Erem; [discriminate |].
  destruct (ioRedirect lx) as [| b bs]; cbv zeta.
  - intro H. right. exists first. f_equal.
    set (lx2 := set_aa false (set_remaining rest (set_io [] lx))) in *.
    assert (Hr2 : remaining lx2 = rest) by reflexivity.
    destruct (lookup operator_table (t_text first)) as [[t0 eff] |] eqn:Eop.
    + injection H as <- <-. destruct (operator_effects_keep _ _ _ Eop lx2) as [Hr _]. congruence.
    + destruct (match_io_number (t_text first)) as [[ds op] |].
      * injection H as <- <-. reflexivity.
      * apply lex_tail_keeps in H. destruct H as [Hr _]. congruence.
  - intro H. left.
    set (lx2 := set_aa false (set_io [] lx)) in *.
    assert (Hr2 : remaining lx2 = first :: rest) by (unfold lx2; cbn [remaining set_io set_aa]; exact Erem).
    destruct (lookup operator_table (b :: bs)) as [[t0 eff] |] eqn:Eop.
    + injection H as <- <-. destruct (operator_effects_keep _ _ _ Eop lx2) as [Hr _]. congruence.
    + destruct (match_io_number (b :: bs)) as [[ds op] |].
      * injection H as <- <-. cbn [remaining set_io]. exact Hr2.
      * apply lex_tail_keeps in H. destruct H as [Hr _]. congruence.
Qed.

Lemma lex_stream_panic fuel : forall lx,
  lex_stream fuel lx = LexedPanic -> exists t, In t (remaining lx) /\ t_kind t = WkNil.
Proof.
  induction fuel as [| fuel IH]; intros lx H; [discriminate |].
  cbn [lex_stream] in H. destruct (Lex lx) as [t lx' | lx' |] eqn:E.
  - destruct (lex_stream fuel lx') eqn:E'; try discriminate.
    destruct (IH lx' E') as (t0 & Hin & Hk). exists t0. split; [| exact Hk].
    destruct (Lex_remaining _ _ _ E) as [Hr | (first & Hr)]; rewrite Hr in *; [exact Hin | right; exact Hin].
  - discriminate.
  - destruct (Lex_panic lx E) as (first & rest & Hr & Hk). exists first. rewrite Hr. split; [left; reflexivity | exact Hk].
Qed.

(* on tokens that the real tokenizer can re-tokenize (no WkNil), Lex neither panics nor
   runs out of fuel: shell_lex yields a terminal string *)
Theorem shell_lex_defined : forall tokens,
  (forall t, In t tokens -> t_kind t <> WkNil) -> exists ts, shell_lex tokens = Lexed ts.
Proof.
  intros tokens Hk. destruct (shell_lex tokens) as [ts | |] eqn:E.
  - exists ts. reflexivity.
  - unfold shell_lex in E. apply lex_stream_panic in E. destruct E as (t & Hin & Hn).
    exfalso. exact (Hk t Hin Hn).
  - exfalso. exact (shell_lex_total tokens E).
Qed.
