(* The fuel of Model.ShellLex.shell_lex always suffices: every call of Lex that
   returns a terminal consumes a token of `remaining` or the pending `ioRedirect`. *)
From Coq Require Import NArith ZArith List Bool Lia.
From PV Require Import Lib.Bytes Gen.ShellGrammar Model.ShellLex.
Import ListNotations.

Definition io_ok (lx : lexer) : Prop :=
  ioRedirect lx = [] \/ existsb (str_eqb (ioRedirect lx)) redirect_ops = true.

Definition measure (lx : lexer) : nat :=
  2 * length (remaining lx) + match ioRedirect lx with [] => 0 | _ => 1 end.

Definition keeps (eff : lexer -> lexer) : Prop :=
  forall lx, remaining (eff lx) = remaining lx /\ ioRedirect (eff lx) = ioRedirect lx.

Lemma operator_effects_keep s t eff : lookup operator_table s = Some (t, eff) -> keeps eff.
Proof.
  unfold operator_table. cbn [lookup].
  repeat (destruct (str_eqb s _); [intro H; injection H as <- <-; intro lx; split; reflexivity |]).
  discriminate.
Qed.

Lemma keyword_effects_keep s t eff : lookup keyword_table s = Some (t, eff) -> keeps eff.
Proof.
  unfold keyword_table. cbn [lookup].
  repeat (destruct (str_eqb s _); [intro H; injection H as <- <-; intro lx; split; reflexivity |]).
  discriminate.
Qed.

Lemma bump_keeps : keeps bump.
Proof.
  intro lx. unfold bump. destruct (0 <=? sinceFor lx)%Z; cbn [sinceCase set_for];
    destruct (0 <=? sinceCase lx)%Z; split; reflexivity.
Qed.

Lemma lex_word_keeps token kind lx t lx' :
  lex_word token kind lx = LexTok t lx' ->
  remaining lx' = remaining lx /\ ioRedirect lx' = ioRedirect lx.
Proof.
  unfold lex_word.
  repeat match goal with |- context [if ?b then _ else _] => destruct b end;
    try destruct kind; intro H; inversion H; subst; split; reflexivity.
Qed.

Lemma pending_is_operator io :
  existsb (str_eqb io) redirect_ops = true ->
  exists t, lookup operator_table io = Some (t, set_acs false).
Proof.
  intro H. apply existsb_exists in H. destruct H as (k & Hin & Heq).
  apply str_eqb_spec in Heq. subst k. unfold redirect_ops in Hin. simpl in Hin.
  repeat (destruct Hin as [<- | Hin]; [eexists; reflexivity |]). destruct Hin.
Qed.

Lemma match_io_number_op token ds op :
  match_io_number token = Some (ds, op) -> existsb (str_eqb op) redirect_ops = true.
Proof.
  unfold match_io_number. destruct (span is_digit token) as [d r]. destruct d; [discriminate |].
  destruct (existsb (str_eqb r) redirect_ops) eqn:E; [| discriminate].
  intro H. injection H as _ <-. exact E.
Qed.

Lemma Lex_progress lx t lx' :
  io_ok lx -> Lex lx = LexTok t lx' -> io_ok lx' /\ (measure lx' < measure lx)%nat.
Proof.
  intros Hio. unfold Lex. destruct (remaining lx) as [| first rest] eqn:Erem; [discriminate |].
  destruct (ioRedirect lx) as [| b bs] eqn:Eio.
  - (* a token of `remaining` is consumed *)
    set (lx1 := set_remaining rest (set_io [] lx)).
    assert (Hr1 : remaining lx1 = rest) by reflexivity.
    assert (Hi1 : ioRedirect lx1 = []) by reflexivity.
    assert (Hm : forall l, remaining l = rest ->
                (ioRedirect l = [] \/ existsb (str_eqb (ioRedirect l)) redirect_ops = true) ->
                io_ok l /\ (measure l < measure lx)%nat).
    { intros l Hr Hi. split; [exact Hi |]. unfold measure. rewrite Hr, Erem, Eio. cbn [length].
      destruct (ioRedirect l); lia. }
    destruct (lookup operator_table (t_text first)) as [[t0 eff] |] eqn:Eop.
    + intro H. injection H as <- <-. destruct (operator_effects_keep _ _ _ Eop lx1) as [Hr Hi].
      apply Hm; [congruence | left; congruence].
    + destruct (match_io_number (t_text first)) as [[ds op] |] eqn:Enum.
      * intro H. injection H as <- <-. apply Hm; [reflexivity | right].
        cbn [ioRedirect set_io]. exact (match_io_number_op _ _ _ Enum).
      * assert (Hword : forall l, remaining l = rest -> ioRedirect l = [] ->
                  lex_word (t_text first) (t_kind first) (bump l) = LexTok t lx' ->
                  io_ok lx' /\ (measure lx' < measure lx)%nat).
        { intros l Hr Hi H. apply lex_word_keeps in H. destruct H as [Hr' Hi'].
          destruct (bump_keeps l) as [Hrb Hib]. apply Hm; [congruence | left; congruence]. }
        destruct (atCommandStart lx1).
        -- set (lx2 := set_for (-1) (set_case (-1) lx1)).
           destruct (lookup keyword_table (t_text first)) as [[t0 eff] |] eqn:Ekw.
           ++ intro H. injection H as <- <-. destruct (keyword_effects_keep _ _ _ Ekw lx2) as [Hr Hi].
              apply Hm; [rewrite Hr; reflexivity | left; rewrite Hi; reflexivity].
           ++ apply Hword; reflexivity.
        -- apply Hword; reflexivity.
  - (* the pending operator of an io-number token is consumed *)
    destruct Hio as [Hio | Hio]; [congruence |]. rewrite Eio in Hio.
    destruct (pending_is_operator _ Hio) as (t0 & Hop). rewrite Hop.
    intro H. injection H as <- <-. split; [left; reflexivity |].
    unfold measure. cbn [remaining ioRedirect set_acs set_io]. rewrite Erem, Eio. lia.
Qed.

Lemma lex_stream_fuel fuel : forall lx,
  io_ok lx -> (measure lx < fuel)%nat -> lex_stream fuel lx <> LexedOutOfFuel.
Proof.
  induction fuel as [| fuel IH]; intros lx Hio Hm; [lia |].
  cbn [lex_stream]. destruct (Lex lx) as [t lx' | lx' |] eqn:E; try discriminate.
  destruct (Lex_progress lx t lx' Hio E) as [Hio' Hm'].
  specialize (IH lx' Hio' ltac:(lia)).
  destruct (lex_stream fuel lx'); [discriminate | discriminate | congruence].
Qed.

Theorem shell_lex_total : forall tokens, shell_lex tokens <> LexedOutOfFuel.
Proof.
  intro tokens. unfold shell_lex. apply lex_stream_fuel.
  - left. reflexivity.
  - unfold measure, new_lexer. cbn [remaining ioRedirect]. lia.
Qed.

(* ---------- the only panic site: a word that ShToken() cannot tokenize (WkNil) ---------- *)

Lemma lex_word_panic token kind lx : lex_word token kind lx = LexPanic -> kind = WkNil.
Proof.
  unfold lex_word.
  repeat match goal with |- context [if ?b then _ else _] => destruct b end;
    try discriminate; destruct kind; try discriminate; reflexivity.
Qed.

Lemma Lex_panic lx : Lex lx = LexPanic ->
  exists first rest, remaining lx = first :: rest /\ t_kind first = WkNil.
Proof.
  unfold Lex. destruct (remaining lx) as [| first rest]; [discriminate |].
  destruct (ioRedirect lx) as [| b bs].
  - destruct (lookup operator_table (t_text first)) as [[t0 eff] |]; [discriminate |].
    destruct (match_io_number (t_text first)) as [[ds op] |]; [discriminate |].
    intro H. exists first, rest. split; [reflexivity |].
    destruct (atCommandStart _).
    + destruct (lookup keyword_table (t_text first)) as [[t0 eff] |]; [discriminate |].
      exact (lex_word_panic _ _ _ H).
    + exact (lex_word_panic _ _ _ H).
  - destruct (lookup operator_table (b :: bs)) as [[t0 eff] |]; [discriminate |].
    destruct (match_io_number (b :: bs)) as [[ds op] |]; [discriminate |].
    intro H. exfalso.
    destruct (atCommandStart _).
    + destruct (lookup keyword_table (b :: bs)) as [[t0 eff] |]; [discriminate |].
      apply lex_word_panic in H. discriminate.
    + apply lex_word_panic in H. discriminate.
Qed.

(* Lex never puts tokens back *)
Lemma Lex_remaining lx t lx' : Lex lx = LexTok t lx' ->
  remaining lx' = remaining lx \/ exists first, remaining lx = first :: remaining lx'.
Proof.
  unfold Lex. destruct (remaining lx) as [| first rest] eqn:Erem; [discriminate |].
  assert (Hword : forall token kind l, lex_word token kind (bump l) = LexTok t lx' -> remaining lx' = remaining l).
  { intros token kind l H. apply lex_word_keeps in H. destruct H as [Hr _].
    destruct (bump_keeps l) as [Hrb _]. congruence. }
  destruct (ioRedirect lx) as [| b bs].
  - right. exists first. f_equal.
    set (lx1 := set_remaining rest (set_io [] lx)) in *.
    assert (Hr1 : remaining lx1 = rest) by reflexivity.
    destruct (lookup operator_table (t_text first)) as [[t0 eff] |] eqn:Eop.
    + injection H as <- <-. destruct (operator_effects_keep _ _ _ Eop lx1) as [Hr _]. congruence.
    + destruct (match_io_number (t_text first)) as [[ds op] |].
      * injection H as <- <-. reflexivity.
      * destruct (atCommandStart lx1).
        -- destruct (lookup keyword_table (t_text first)) as [[t0 eff] |] eqn:Ekw.
           ++ injection H as <- <-.
              destruct (keyword_effects_keep _ _ _ Ekw (set_for (-1) (set_case (-1) lx1))) as [Hr _].
              rewrite Hr. reflexivity.
           ++ rewrite (Hword _ _ _ H). reflexivity.
        -- rewrite (Hword _ _ _ H). reflexivity.
  - left.
    set (lx1 := set_io [] lx) in *.
    assert (Hr1 : remaining lx1 = first :: rest) by (unfold lx1; cbn [remaining set_io]; exact Erem).
    destruct (lookup operator_table (b :: bs)) as [[t0 eff] |] eqn:Eop.
    + injection H as <- <-. destruct (operator_effects_keep _ _ _ Eop lx1) as [Hr _]. congruence.
    + destruct (match_io_number (b :: bs)) as [[ds op] |].
      * injection H as <- <-. cbn [remaining set_io]. exact Hr1.
      * destruct (atCommandStart lx1).
        -- destruct (lookup keyword_table (b :: bs)) as [[t0 eff] |] eqn:Ekw.
           ++ injection H as <- <-.
              destruct (keyword_effects_keep _ _ _ Ekw (set_for (-1) (set_case (-1) lx1))) as [Hr _].
              rewrite Hr. exact Hr1.
           ++ rewrite (Hword _ _ _ H). exact Hr1.
        -- rewrite (Hword _ _ _ H). exact Hr1.
Qed.

Lemma lex_stream_panic fuel : forall lx,
  lex_stream fuel lx = LexedPanic -> exists t, In t (remaining lx) /\ t_kind t = WkNil.
Proof.
  induction fuel as [| fuel IH]; intros lx H; [discriminate |].
  cbn [lex_stream] in H. destruct (Lex lx) as [t lx' | lx' |] eqn:E.
  - destruct (lex_stream fuel lx') eqn:E'; try discriminate.
    destruct (IH lx' E') as (t0 & Hin & Hk). exists t0. split; [| exact Hk].
    destruct (Lex_remaining _ _ _ E) as [Hr | (first & Hr)]; rewrite Hr in *; [exact Hin | right; exact Hin].
  - discriminate.
  - destruct (Lex_panic lx E) as (first & rest & Hr & Hk). exists first. rewrite Hr. split; [left; reflexivity | exact Hk].
Qed.

(* on tokens that the real tokenizer can re-tokenize (no WkNil), Lex neither panics nor
   runs out of fuel: shell_lex yields a terminal string *)
Theorem shell_lex_defined : forall tokens,
  (forall t, In t tokens -> t_kind t <> WkNil) -> exists ts, shell_lex tokens = Lexed ts.
Proof.
  intros tokens Hk. destruct (shell_lex tokens) as [ts | |] eqn:E.
  - exists ts. reflexivity.
  - unfold shell_lex in E. apply lex_stream_panic in E. destruct E as (t & Hin & Hn).
    exfalso. exact (Hk t Hin Hn).
  - exfalso. exact (shell_lex_total tokens E).
Qed.
