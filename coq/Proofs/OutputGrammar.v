(* Facts about the output grammar specification itself (C06run). *)
From PV Require Import Lib.Bytes Spec.OutputGrammar.
Import ListNotations.
Open Scope N_scope.

(* when the accounting predicate holds, the exit status is the one the counted lines demand *)
Lemma accounting_exit gcc nosummary werror lines exit :
  accounting gcc nosummary werror lines exit = 0 ->
  exit = expected_exit werror (tally gcc lines) /\ c_unknown (tally gcc lines) = 0.
Proof.
  unfold accounting. set (c := tally gcc lines).
  destruct (0 <? c_unknown c) eqn:U; [discriminate|].
  assert (c_unknown c = 0) by (apply N.ltb_ge in U; lia).
  destruct nosummary.
  - destruct ((0 <? c_final c) || (0 <? c_hints c)); [discriminate|].
    destruct (exit =? expected_exit werror c) eqn:E; [|discriminate].
    intros _. apply N.eqb_eq in E. auto.
  - destruct (negb (c_final c =? 1)); [discriminate|].
    destruct (negb (c_final_ok c)); [discriminate|].
    destruct (c_after c); [discriminate|].
    destruct (exit =? expected_exit werror c) eqn:E; [|discriminate].
    intros _. apply N.eqb_eq in E. auto.
Qed.

(* ------------------------------------------------------------------ *)
(* decimal numbers                                                      *)
From Coq Require Import DecimalN DecimalPos.

Definition is_digit_b (c : N) : bool := (48 <=? c) && (c <=? 57).

Lemma bytes_uint_uint_bytes u : bytes_uint (uint_bytes u) = Some u.
Proof. induction u; simpl; try reflexivity; rewrite IHu; reflexivity. Qed.

Lemma uint_bytes_digits u : forallb is_digit_b (uint_bytes u) = true.
Proof. induction u; simpl; auto. Qed.

Lemma uint_bytes_nonnil u : u <> Decimal.Nil -> uint_bytes u <> [].
Proof. destruct u; simpl; intros H; try discriminate. contradiction. Qed.

Lemma to_uint_nonnil n : N.to_uint n <> Decimal.Nil.
Proof.
  destruct n; simpl; [discriminate|]. apply DecimalPos.Unsigned.to_uint_nonnil.
Qed.

Lemma print_dec_nonempty n : print_dec n <> [].
Proof. unfold print_dec. apply uint_bytes_nonnil, to_uint_nonnil. Qed.

Lemma print_dec_digits n : forallb is_digit_b (print_dec n) = true.
Proof. apply uint_bytes_digits. Qed.

Theorem dec_roundtrip n : parse_dec (print_dec n) = Some n.
Proof.
  unfold parse_dec. pose proof (print_dec_nonempty n) as NE.
  destruct (print_dec n) as [|c s] eqn:E; [contradiction|].
  rewrite <- E. unfold print_dec. rewrite bytes_uint_uint_bytes.
  rewrite DecimalN.Unsigned.of_to. reflexivity.
Qed.

(* ------------------------------------------------------------------ *)
(* splitting at the first occurrence of a pattern                       *)

Definition not_byte (b : N) (s : str) : Prop := forallb (fun c => negb (c =? b)) s = true.

Lemma not_byte_app b s t : not_byte b s -> not_byte b t -> not_byte b (s ++ t).
Proof. unfold not_byte. intros. rewrite forallb_app. rewrite H, H0. reflexivity. Qed.

Lemma not_byte_cons b c s : c <> b -> not_byte b s -> not_byte b (c :: s).
Proof.
  unfold not_byte. intros Hc Hs. simpl. rewrite Hs.
  destruct (N.eqb_spec c b); [contradiction|reflexivity].
Qed.

Lemma digits_not_byte d b : forallb is_digit_b d = true -> (b < 48 \/ 57 < b) -> not_byte b d.
Proof.
  unfold not_byte. induction d as [|c d IH]; simpl; intros H Hb; [reflexivity|].
  apply andb_true_iff in H as [Hc Hd]. rewrite (IH Hd Hb).
  unfold is_digit_b in Hc. destruct (N.eqb_spec c b); [subst; lia|reflexivity].
Qed.

Lemma lower_not_byte w b : forallb is_lower w = true -> b < 97 -> not_byte b w.
Proof.
  unfold not_byte. induction w as [|c w IH]; simpl; intros H Hb; [reflexivity|].
  apply andb_true_iff in H as [Hc Hw]. rewrite (IH Hw Hb).
  unfold is_lower in Hc. destruct (N.eqb_spec c b); [subst; lia|reflexivity].
Qed.

Lemma split_at_unfold pat s :
  split_at pat s =
  match strip_prefix pat s with
  | Some r => Some ([], r)
  | None => match s with
            | [] => None
            | c :: s' => match split_at pat s' with Some (a, b) => Some (c :: a, b) | None => None end
            end
  end.
Proof. destruct s; reflexivity. Qed.

Lemma split_at_hit pat r : split_at pat (pat ++ r) = Some ([], r).
Proof.
  rewrite split_at_unfold.
  rewrite (proj2 (strip_prefix_some pat (pat ++ r) r) eq_refl). reflexivity.
Qed.

Lemma split_at_skip p0 pat a : forall s, not_byte p0 a ->
  split_at (p0 :: pat) (a ++ s) =
  match split_at (p0 :: pat) s with Some (x, y) => Some (a ++ x, y) | None => None end.
Proof.
  induction a as [|c a IH]; intros s H.
  - cbn [app]. destruct (split_at (p0 :: pat) s) as [[x y]|]; reflexivity.
  - unfold not_byte in H. cbn [forallb] in H. apply andb_true_iff in H as [Hc Ha].
    apply negb_true_iff in Hc. rewrite N.eqb_sym in Hc.
    cbn [app]. rewrite split_at_unfold. cbn [strip_prefix]. rewrite Hc.
    rewrite (IH s Ha). destruct (split_at (p0 :: pat) s) as [[x y]|]; reflexivity.
Qed.

Lemma split_at_none p0 pat a : not_byte p0 a -> split_at (p0 :: pat) a = None.
Proof.
  intros H. rewrite <- (app_nil_r a). rewrite (split_at_skip p0 pat a [] H). reflexivity.
Qed.

Lemma strip_suffix_app suf s : strip_suffix suf (s ++ suf) = Some s.
Proof.
  unfold strip_suffix. rewrite rev_app_distr.
  rewrite (proj2 (strip_prefix_some (rev suf) (rev suf ++ rev s) (rev s)) eq_refl).
  rewrite rev_involutive. reflexivity.
Qed.

(* ------------------------------------------------------------------ *)
(* the summary line                                                     *)

(* one element of the summary: "<n> <word>" *)
Definition El (n : N) (W : str) : str := print_dec n ++ 32 :: W.
Definition okword (W : str) : Prop :=
  forallb is_lower W = true /\ exists c t, W = c :: t /\ c <> 97.

Lemma El_nonempty n W : str_eqb (El n W) [] = false.
Proof.
  unfold El. pose proof (print_dec_nonempty n). destruct (print_dec n); [contradiction|reflexivity].
Qed.

Lemma El_not_comma n W : okword W -> not_byte 44 (El n W).
Proof.
  intros [L _]. unfold El. apply not_byte_app.
  - apply digits_not_byte; [apply print_dec_digits|lia].
  - apply not_byte_cons; [lia|]. apply lower_not_byte; [exact L|lia].
Qed.

Lemma split_comma_El n W r : okword W -> split_at s_comma (El n W ++ s_comma ++ r) = Some (El n W, r).
Proof.
  intros OK. unfold s_comma. rewrite (split_at_skip 44 [32] (El n W) _ (El_not_comma n W OK)).
  rewrite split_at_hit. rewrite app_nil_r. reflexivity.
Qed.

(* " and " after an element: the blank inside the element is followed by a word that does not start with 'a' *)
Lemma split_and_El_gen n W s rest :
  okword W ->
  split_at s_and s = Some ([], rest) ->
  split_at s_and (El n W ++ s) = Some (El n W, rest).
Proof.
  intros [L (c & t & EW & Hc)] Hs. unfold El. rewrite <- app_assoc. unfold s_and in *.
  rewrite (split_at_skip 32 [97;110;100;32] (print_dec n)); [|apply digits_not_byte; [apply print_dec_digits|lia]].
  cbn [app]. rewrite split_at_unfold. cbn [strip_prefix]. rewrite N.eqb_refl.
  subst W. cbn [app strip_prefix].
  destruct (N.eqb_spec 97 c) as [E|_]; [exfalso; apply Hc; auto|].
  change (c :: t ++ s) with ((c :: t) ++ s).
  rewrite (split_at_skip 32 [97;110;100;32] (c :: t)); [|apply lower_not_byte; [exact L|lia]].
  rewrite Hs. rewrite app_nil_r. reflexivity.
Qed.

Lemma split_and_El n W r : okword W -> split_at s_and (El n W ++ s_and ++ r) = Some (El n W, r).
Proof. intros OK. apply split_and_El_gen; [exact OK|apply split_at_hit]. Qed.

Lemma split_and_El_none n W : okword W -> split_at s_and (El n W) = None.
Proof.
  intros [L (c & t & EW & Hc)]. unfold El, s_and.
  rewrite (split_at_skip 32 [97;110;100;32] (print_dec n)); [|apply digits_not_byte; [apply print_dec_digits|lia]].
  rewrite split_at_unfold. cbn [strip_prefix]. rewrite N.eqb_refl.
  subst W. cbn [strip_prefix].
  destruct (N.eqb_spec 97 c) as [E|_]; [exfalso; apply Hc; auto|].
  rewrite (split_at_none 32 [97;110;100;32] (c :: t)); [reflexivity|apply lower_not_byte; [exact L|lia]].
Qed.

Lemma split_comma_none_2 n W n' W' : okword W -> okword W' ->
  split_at s_comma (El n W ++ s_and ++ El n' W') = None.
Proof.
  intros OK OK'. unfold s_comma. apply split_at_none.
  apply not_byte_app; [apply El_not_comma; exact OK|].
  apply not_byte_app; [vm_compute; reflexivity|apply El_not_comma; exact OK'].
Qed.

(* the six words *)
Definition plural (n : N) (word : str) : str := if n =? 1 then word else word ++ [115].
Lemma okword_plural n word : In word [w_error; w_warning; w_note] -> okword (plural n word).
Proof.
  unfold plural. intros [<-|[<-|[<-|[]]]]; destruct (n =? 1); (split; [vm_compute; reflexivity|]);
    eexists; eexists; (split; [reflexivity|]); vm_compute; discriminate.
Qed.

Lemma num_zero word : num 0 word = [].
Proof. reflexivity. Qed.

Lemma num_nonzero n word : n <> 0 -> num n word = El n (plural n word).
Proof.
  intros H. unfold num, El, plural. destruct (N.eqb_spec n 0); [contradiction|].
  destruct (n =? 1); cbn [app]; reflexivity.
Qed.

Lemma parse_num_El n word k :
  n <> 0 ->
  (word = w_error /\ k = 1) \/ (word = w_warning /\ k = 2) \/ (word = w_note /\ k = 3) ->
  parse_num (El n (plural n word)) = Some (k, n).
Proof.
  intros Hn Hw. unfold parse_num, El.
  rewrite (split_at_skip 32 [] (print_dec n)); [|apply digits_not_byte; [apply print_dec_digits|lia]].
  change (32 :: plural n word) with ([32] ++ plural n word). rewrite split_at_hit.
  rewrite app_nil_r. rewrite dec_roundtrip.
  destruct (N.eqb_spec n 0); [contradiction|].
  unfold plural.
  destruct Hw as [[-> ->]|[[-> ->]|[-> ->]]]; destruct (n =? 1); vm_compute; reflexivity.
Qed.

Ltac okw := apply okword_plural; cbn [In]; auto.

Theorem summary_line_roundtrip e w n :
  (e <> 0 \/ w <> 0 \/ n <> 0) -> parse_summary (print_summary e w n) = Some (e, w, n).
Proof.
  intros NZ. unfold print_summary, parse_summary. rewrite strip_suffix_app.
  destruct (N.eqb_spec e 0) as [->|He], (N.eqb_spec w 0) as [->|Hw], (N.eqb_spec n 0) as [->|Hn];
    try (exfalso; destruct NZ as [H|[H|H]]; apply H; reflexivity);
    rewrite ?num_zero, ?(num_nonzero e), ?(num_nonzero w), ?(num_nonzero n) by assumption;
    unfold join_cambridge; cbn [filter str_eqb negb]; rewrite ?El_nonempty; cbn [filter str_eqb negb].
  - (* notes only *) 
    rewrite (split_at_none 44 [32]) by (apply El_not_comma; okw).
    rewrite split_and_El_none by okw.
    cbn [fold_left]. rewrite (parse_num_El n w_note 3) by (auto; right; right; auto). reflexivity.
  - (* warnings only *)
    rewrite (split_at_none 44 [32]) by (apply El_not_comma; okw).
    rewrite split_and_El_none by okw.
    cbn [fold_left]. rewrite (parse_num_El w w_warning 2) by (auto; right; left; auto). reflexivity.
  - (* warnings and notes *)
    rewrite split_comma_none_2 by okw. rewrite split_and_El by okw.
    cbn [fold_left]. rewrite (parse_num_El w w_warning 2) by (auto; right; left; auto).
    rewrite (parse_num_El n w_note 3) by (auto; right; right; auto). reflexivity.
  - (* errors only *)
    rewrite (split_at_none 44 [32]) by (apply El_not_comma; okw).
    rewrite split_and_El_none by okw.
    cbn [fold_left]. rewrite (parse_num_El e w_error 1) by (auto; left; auto). reflexivity.
  - (* errors and notes *)
    rewrite split_comma_none_2 by okw. rewrite split_and_El by okw.
    cbn [fold_left]. rewrite (parse_num_El e w_error 1) by (auto; left; auto).
    rewrite (parse_num_El n w_note 3) by (auto; right; right; auto). reflexivity.
  - (* errors and warnings *)
    rewrite split_comma_none_2 by okw. rewrite split_and_El by okw.
    cbn [fold_left]. rewrite (parse_num_El e w_error 1) by (auto; left; auto).
    rewrite (parse_num_El w w_warning 2) by (auto; right; left; auto). reflexivity.
  - (* all three *)
    rewrite split_comma_El by okw. rewrite split_and_El by okw.
    cbn [fold_left]. rewrite (parse_num_El e w_error 1) by (auto; left; auto).
    rewrite (parse_num_El w w_warning 2) by (auto; right; left; auto).
    rewrite (parse_num_El n w_note 3) by (auto; right; right; auto). reflexivity.
Qed.

(* ------------------------------------------------------------------ *)
(* a traditional diagnostic line with a line number                     *)

Definition print_diag_trad (lv : level) (path : str) (n : N) (msg : str) : str :=
  level_name false lv ++ s_colon_sp ++ path ++ 58 :: print_dec n ++ s_colon_sp ++ msg.

Lemma strip_level_name lv r :
  strip_level false all_levels (level_name false lv ++ s_colon_sp ++ r) = Some (lv, r).
Proof. destruct lv; reflexivity. Qed.

Lemma classify_trad_level lv r :
  let s := level_name false lv ++ s_colon_sp ++ r in
  classify false s =
  match parse_diag_trad s with
  | Some k => k
  | None => match parse_summary s with Some (e, w, n) => KSummary e w n | None => KUnknown end
  end.
Proof. destruct lv; reflexivity. Qed.

Lemma split_last_none c b : not_byte c b -> split_last c b = None.
Proof.
  unfold not_byte. induction b as [|x b IH]; simpl; intros H; [reflexivity|].
  apply andb_true_iff in H as [Hx Hb]. rewrite (IH Hb). apply negb_true_iff in Hx. rewrite Hx. reflexivity.
Qed.

Lemma split_last_app c a b : not_byte c b -> split_last c (a ++ c :: b) = Some (a, b).
Proof.
  intros H. induction a as [|x a IH]; cbn [app split_last].
  - rewrite (split_last_none c b H). rewrite N.eqb_refl. reflexivity.
  - rewrite IH. reflexivity.
Qed.

Lemma parse_lineno_dec n : parse_lineno (print_dec n) = Some (LNum n).
Proof.
  unfold parse_lineno.
  pose proof (print_dec_digits n) as DG. pose proof (print_dec_nonempty n) as NE. pose proof (dec_roundtrip n) as RT.
  destruct (print_dec n) as [|d0 D] eqn:E; [contradiction|].
  assert (H69 : str_eqb (d0 :: D) [69; 79; 70] = false).
  { cbn [str_eqb]. cbn [forallb] in DG. apply andb_true_iff in DG as [D0 _]. unfold is_digit_b in D0.
    destruct (N.eqb_spec d0 69); [lia|reflexivity]. }
  rewrite H69.
  rewrite (split_at_none 45 [45] (d0 :: D)); [|apply digits_not_byte; [exact DG|lia]].
  rewrite RT. reflexivity.
Qed.

Lemma split_colon_sp path n msg :
  not_byte 58 path ->
  split_at s_colon_sp (path ++ 58 :: print_dec n ++ s_colon_sp ++ msg) = Some (path ++ 58 :: print_dec n, msg).
Proof.
  intros NP. unfold s_colon_sp.
  rewrite (split_at_skip 58 [32] path _ NP).
  pose proof (print_dec_digits n) as DG. pose proof (print_dec_nonempty n) as NE.
  destruct (print_dec n) as [|d0 D] eqn:E; [contradiction|].
  rewrite split_at_unfold. cbn [strip_prefix app]. rewrite N.eqb_refl.
  assert (H32 : (32 =? d0) = false).
  { cbn [forallb] in DG. apply andb_true_iff in DG as [D0 _]. unfold is_digit_b in D0.
    destruct (N.eqb_spec 32 d0); [lia|reflexivity]. }
  rewrite H32.
  change (d0 :: D ++ 58 :: 32 :: msg) with ((d0 :: D) ++ [58; 32] ++ msg).
  rewrite (split_at_skip 58 [32] (d0 :: D)); [|apply digits_not_byte; [exact DG|lia]].
  rewrite split_at_hit. rewrite app_nil_r. reflexivity.
Qed.

Theorem diag_line_roundtrip lv path n msg :
  path <> [] -> not_byte 58 path ->
  classify false (print_diag_trad lv path n msg) = KDiag lv (Some path) (LNum n) msg.
Proof.
  intros NE NP. unfold print_diag_trad.
  rewrite (classify_trad_level lv (path ++ 58 :: print_dec n ++ s_colon_sp ++ msg)).
  unfold parse_diag_trad. rewrite strip_level_name. rewrite (split_colon_sp path n msg NP).
  destruct path as [|c p]; [contradiction|]. cbn [app].
  unfold split_loc. change (c :: p ++ 58 :: print_dec n) with ((c :: p) ++ 58 :: print_dec n).
  rewrite split_last_app; [|apply digits_not_byte; [apply print_dec_digits|lia]].
  rewrite parse_lineno_dec. reflexivity.
Qed.

(* ------------------------------------------------------------------ *)
(* the summary line the spec prints is terminal-safe                    *)

Lemma digits_safe d : forallb is_digit_b d = true -> forallb safe_byte d = true.
Proof.
  induction d as [|c d IH]; simpl; intros H; [reflexivity|].
  apply andb_true_iff in H as [Hc Hd]. rewrite (IH Hd).
  unfold is_digit_b in Hc. unfold safe_byte.
  destruct (N.eqb_spec c 9); [lia|]. simpl.
  replace (32 <=? c) with true by (symmetry; apply N.leb_le; lia).
  replace (c <=? 126) with true by (symmetry; apply N.leb_le; lia). reflexivity.
Qed.

Lemma num_safe n word : In word [w_error; w_warning; w_note] -> safe_line (num n word) = true.
Proof.
  intros HW. unfold num, safe_line. destruct (n =? 0); [reflexivity|].
  destruct (n =? 1); rewrite !forallb_app; rewrite (digits_safe _ (print_dec_digits n));
    destruct HW as [<-|[<-|[<-|[]]]]; reflexivity.
Qed.

Theorem print_summary_safe e w n : safe_line (print_summary e w n) = true.
Proof.
  unfold print_summary, safe_line. rewrite forallb_app.
  replace (forallb safe_byte s_found) with true by reflexivity. rewrite andb_true_r.
  pose proof (num_safe e w_error) as He. pose proof (num_safe w w_warning) as Hw. pose proof (num_safe n w_note) as Hn.
  unfold safe_line in *. cbn [In] in *.
  unfold join_cambridge. cbn [filter].
  destruct (negb (str_eqb (num e w_error) [])), (negb (str_eqb (num w w_warning) [])), (negb (str_eqb (num n w_note) []));
    rewrite ?forallb_app, ?He, ?Hw, ?Hn by auto; reflexivity.
Qed.
