(* Facts about the output grammar specification itself (C06run). *)
From PV Require Import Lib.Bytes Spec.OutputGrammar.
Import ListNotations.
Open Scope N_scope.

(* when the accounting predicate holds, the exit status is the one the counted lines demand *)
Lemma accounting_exit gcc nosummary werror lines exit :
  accounting gcc nosummary werror lines exit = 0 ->
  exit = expected_exit werror (tally gcc lines) /\ c_unknown (tally gcc lines) = 0.
Proof.
  unfold accounting. set (c := tally gcc lines).
  destruct (0 <? c_unknown c) eqn:U; [discriminate|].
  assert (c_unknown c = 0) by (apply N.ltb_ge in U; lia).
  destruct nosummary.
  - destruct ((0 <? c_final c) || (0 <? c_hints c)); [discriminate|].
    destruct (exit =? expected_exit werror c) eqn:E; [|discriminate].
    intros _. apply N.eqb_eq in E. auto.
  - destruct (negb (c_final c =? 1)); [discriminate|].
    destruct (negb (c_final_ok c)); [discriminate|].
    destruct (c_after c); [discriminate|].
    destruct (exit =? expected_exit werror c) eqn:E; [|discriminate].
    intros _. apply N.eqb_eq in E. auto.
Qed.
