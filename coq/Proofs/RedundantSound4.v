(* The corollaries of Proofs/RedundantPaths.v and Proofs/RedundantCondSim.v again,
   with guard4 (no condition when an earlier line is flagged) in place of guard. *)
From PV Require Import Lib.Bytes Model.Redundant Model.RedundantPaths Model.RedundantCond
  Spec.MakeEval Spec.VerdictSound Spec.VerdictSound2 Spec.PathDenote Spec.SpellingIndep
  Proofs.RedundantSound Proofs.RedundantSound3 Proofs.RedundantPaths Proofs.RedundantCond Proofs.RedundantCondSim.

Theorem verdict_sound_spelled4 (p : pprogram) (vs : list verdict) (vd : verdict) :
  wf_program (forget p) = true -> check_spelled p = Ok vs -> In vd vs ->
  guard4 (forget p) vd = true -> deletable (forget p) (vd_flagged vd).
Proof. intros Hw Hc Hi Hg. exact (verdict_sound_partial4 (forget p) vs vd Hw Hc Hi Hg). Qed.

Theorem verdict_sound_denoted4 cwd (p : pprogram) (vs : list verdict) (vd : verdict) :
  wf_program (forget p) = true -> check_denoted cwd p = Ok vs -> In vd vs ->
  guard4 (intern_by (same_denotation cwd) p) vd = true -> deletable (forget p) (vd_flagged vd).
Proof.
  intros Hw Hc Hi Hg.
  assert (Hs : same_shape cwd p p).
  { clear. induction p; constructor; [repeat split | assumption]. }
  apply (deletable_spelling_independent cwd (same_denotation cwd) str_eqb p p _ Hs).
  apply (verdict_sound_partial4 (intern_by (same_denotation cwd) p) vs vd); try assumption.
  revert Hw. unfold forget, wf_program, intern_by. rewrite !forallb_forall.
  intros Hw l Hl. apply in_map_iff in Hl as (a & <- & Ha).
  specialize (Hw (intern_line str_eqb (map pl_path p) a)). apply Hw. apply in_map_iff. exists a; split; [reflexivity|assumption].
Qed.

Theorem verdict_sound_cond4 (p : cprogram) (vsc : list verdict) (vd : verdict) :
  wf_program (map snd p) = true -> check_c p = Ok vsc -> In vd vsc ->
  guard4 (map snd p) vd = true -> deletable (map snd p) (vd_flagged vd).
Proof.
  intros Hw E2 Hin Hg. destruct (cond_verdicts_subset_total p vsc E2) as (vs & E1 & Hsub).
  apply (verdict_sound_partial4 (map snd p) vs vd Hw E1); [|exact Hg]. apply Hsub. exact Hin.
Qed.
