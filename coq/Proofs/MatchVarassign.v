(* matchVarassign on logical lines made of several raw lines (Model/MatchVarassign.v):
   relation to the one-raw-line model, the operator-position guard, and the
   value/comment recombination on the logical text. *)
From Coq Require Import List Lia ZArith NArith Bool.
From PV Require Import Lib.Bytes Gen.MkByteSets Model.MkLexPrim Model.MkLexer Model.MkTokensLexer
  Model.MkLineSplit Model.MatchVarassign Spec.MkPartition Proofs.MkLineSplit Proofs.Varassign.
From PV Require Import Proofs.MkLexPrim Proofs.MkLexer.
From Coq Require Import ZifyBool ZifyN ZifyNat.
From PV Require Model.Lines Proofs.LinesLoop.
Import ListNotations.
Open Scope N_scope.

(* ---- one raw line: the model of Model/MkLineSplit.v, literally ---- *)

Lemma ml_tail_single c text sr : match_varassign_tail_ml false text text c sr = match_varassign_tail c text sr.
Proof. reflexivity. Qed.

Lemma ml_single text : parse_varassign_ml false text text = parse_varassign text.
Proof. reflexivity. Qed.

(* ---- an accepted line is accepted by the one-raw-line tail on the logical text, and passed the guard ---- *)

Ltac ml_stages H :=
  destruct (tokenize (sr_main _)) as [toks| |]; cbn [bind] in *; try discriminate;
  cbv zeta in *;
  destruct (Varname _) as [[vname mkrest]| |]; cbn [bind] in *; try discriminate;
  destruct (tl_skip_mixed _ _ _) as [lexer2| |]; cbn [bind] in *; try discriminate.

Lemma ml_tail_accept ml raw0 text c sr a :
  match_varassign_tail_ml ml raw0 text c sr = Ok (Some a) ->
  match_varassign_tail c text sr = Ok (Some a) /\
  (ml = true -> exists al r, text = al ++ r /\
     (length (rtrim_hspace al) <= length (first_line_of raw0))%nat).
Proof.
  unfold match_varassign_tail_ml, match_varassign_tail. intro H.
  ml_stages H.
  destruct vname as [|v0 vname]; [discriminate|].
  destruct (next_bytes is_hspace (fst lexer2)) as [sav cur3].
  match type of H with context [skip_byte 61 ?c4] => destruct (skip_byte 61 c4) as [cur5|] end; [|discriminate].
  match type of H with (if ?c then Panic else _) = _ => destruct c; [discriminate|] end.
  match type of H with context [has_suffix [43] ?v && ?b && ?d] => destruct (has_suffix [43] v && b && d) end;
  cbv beta iota in *;
  match type of H with context [get_raw_value_align text ?p] =>
    pose proof (get_raw_value_align_post text p) as P; destruct (get_raw_value_align text p) as [al| |] end;
    cbn [bind] in *; try discriminate;
  (destruct ml; cbn [andb] in H;
   [ destruct (length (first_line_of raw0) <? length (rtrim_hspace al))%nat eqn:L; [discriminate|];
     split; [exact H|]; intros _; destruct P as (r & Hr); exists al, r; split; [exact Hr|];
     apply Nat.ltb_ge in L; exact L
   | split; [exact H|discriminate] ]).
Qed.

(* the shape in which matchVarassign reaches its tail: T is the text that was split into sr *)
Lemma ml_accept ml raw0 text a :
  parse_varassign_ml ml raw0 text = Ok (Some a) ->
  exists (c : bool) T sr, split T true = Ok sr /\ text = (if c then [35] else []) ++ T /\
    match_varassign_tail c text sr = Ok (Some a) /\
    (ml = true -> exists al r, text = al ++ r /\
       (length (rtrim_hspace al) <= length (first_line_of raw0))%nat).
Proof.
  unfold parse_varassign_ml. destruct (split text true) as [first| |] eqn:E1; cbn [bind]; try discriminate.
  unfold match_varassign_ml.
  destruct (negb (nonempty (sr_main first)) && sr_has_comment first && has_prefix [35] text) eqn:C.
  - apply andb_true_iff in C as [_ Hp]. apply has_prefix_app in Hp as (t1 & Ht1).
    destruct (next_bytes is_hspace (sr_comment first)) as [hs crest].
    destruct (nonempty hs || negb (nonempty crest)); [discriminate|].
    destruct (skip 1 text) as [t1'| |] eqn:Esk; cbn [bind]; try discriminate.
    assert (t1' = t1) by (subst text; rewrite skip_ok in Esk by (simpl; lia); inversion Esk; reflexivity). subst t1'.
    destruct (split t1 true) as [sr| |] eqn:E2; cbn [bind]; try discriminate.
    intro Hm. apply ml_tail_accept in Hm as [Hm Hg].
    exists true, t1, sr. auto.
  - intro Hm. apply ml_tail_accept in Hm as [Hm Hg].
    exists false, text, first. auto.
Qed.

(* every accepted multi-line assignment has its operator in the first raw line: the raw text of the
   logical line up to the operator (the alignment prefix without its trailing blanks) is no longer
   than the first physical line without its continuation backslash and trailing blanks *)
Lemma varassign_ml_guard raw0 text a :
  parse_varassign_ml true raw0 text = Ok (Some a) ->
  exists al r, text = al ++ r /\ (length (rtrim_hspace al) <= length (first_line_of raw0))%nat.
Proof. intro H. destruct (ml_accept _ _ _ _ H) as (c & T & sr & _ & _ & _ & Hg). auto. Qed.

(* for every accepted assignment, whatever the raw lines are: [#] ++ pre ++ comment is the logical
   text, and the unescaped pre is head ++ value ++ blanks, where head ++ value is the main part *)
Lemma varassign_ml_value_comment_recombine ml raw0 text a :
  parse_varassign_ml ml raw0 text = Ok (Some a) -> va_law text a.
Proof.
  intro H. destruct (ml_accept _ _ _ _ H) as (commented & T & sr & Hs & Ht & Hm & _).
  destruct (match_varassign_tail_law commented text T sr a Hs Hm) as (head & sp & A1 & A2 & A3 & A4 & A5 & A6).
  destruct (split_recombines _ _ _ Hs) as (pre & B1 & B2 & B3 & _).
  exists head, pre, sp. rewrite A1, A2, A3. subst sp.
  split; [rewrite Ht at 1; rewrite B1; reflexivity|].
  split; [rewrite B2, A4, <- app_assoc; reflexivity|].
  split; [exact A4|]. split; [exact B3|exact A6].
Qed.

(* the alignment prefix handed out is a prefix of the text (plus the blanks before the comment when
   the value is empty) *)
Lemma tail_align_prefix c raw sr a : match_varassign_tail c raw sr = Ok (Some a) ->
  exists al r, raw = al ++ r /\
    va_value_align a = al ++ (match va_value a with [] => sr_space_before_comment sr | _ => [] end).
Proof.
  unfold match_varassign_tail. intro H.
  ml_stages H.
  destruct vname as [|v0 vname]; [discriminate|].
  destruct (next_bytes is_hspace (fst lexer2)) as [sav cur3].
  match type of H with context [skip_byte 61 ?c4] => destruct (skip_byte 61 c4) as [cur5|] end; [|discriminate].
  match type of H with (if ?c then Panic else _) = _ => destruct c; [discriminate|] end.
  match type of H with context [has_suffix [43] ?v && ?b && ?d] => destruct (has_suffix [43] v && b && d) end;
  cbv beta iota in H;
  match type of H with context [get_raw_value_align ?r ?p] =>
    pose proof (get_raw_value_align_post r p) as P; destruct (get_raw_value_align r p) as [al| |] end;
    cbn [bind] in H; try discriminate;
  destruct P as (r & Hr); exists al, r; (split; [exact Hr|]);
  match type of H with context [trim_hspace ?x] => destruct (trim_hspace x) end; inversion H; subst a; cbn;
  try reflexivity; rewrite app_nil_r; reflexivity.
Qed.

Lemma varassign_ml_align_prefix ml raw0 text a :
  parse_varassign_ml ml raw0 text = Ok (Some a) ->
  exists al r sp, text = al ++ r /\ va_value_align a = al ++ sp /\ forallb is_hspace sp = true /\
    (va_value a <> [] -> sp = []).
Proof.
  intro H. destruct (ml_accept _ _ _ _ H) as (c & T & sr & Hs & _ & Hm & _).
  destruct (tail_align_prefix _ _ _ _ Hm) as (al & r & Hr & Ha).
  destruct (split_recombines _ _ _ Hs) as (pre & _ & _ & B3 & _).
  exists al, r. destruct (va_value a) as [|x v].
  - exists (sr_space_before_comment sr). repeat split; auto. intro K; contradiction.
  - exists []. repeat split; auto.
Qed.

(* ---- no panic beyond those of parsing the logical text itself ---- *)

Lemma ml_tail_no_panic ml raw0 c text sr r :
  match_varassign_tail c text sr = Ok r ->
  match_varassign_tail_ml ml raw0 text c sr <> Panic.
Proof.
  unfold match_varassign_tail_ml, match_varassign_tail. intros H.
  ml_stages H.
  destruct vname as [|v0 vname]; [discriminate|].
  destruct (next_bytes is_hspace (fst lexer2)) as [sav cur3].
  match type of H with context [skip_byte 61 ?c4] => destruct (skip_byte 61 c4) as [cur5|] end; [|discriminate].
  match type of H with (if ?c then Panic else _) = _ => destruct c; [discriminate|] end.
  match type of H with context [has_suffix [43] ?v && ?b && ?d] => destruct (has_suffix [43] v && b && d) end;
  cbv beta iota in *;
  match type of H with context [get_raw_value_align text ?p] => destruct (get_raw_value_align text p) as [al| |] end;
  cbn [bind] in *; try discriminate;
  destruct (ml && _); try discriminate;
  match goal with |- context [trim_hspace ?x] => destruct (trim_hspace x) end; discriminate.
Qed.

Lemma varassign_ml_no_panic ml raw0 text r :
  parse_varassign text = Ok r -> parse_varassign_ml ml raw0 text <> Panic.
Proof.
  unfold parse_varassign_ml, parse_varassign.
  destruct (split text true) as [first| |] eqn:E1; cbn [bind]; try discriminate.
  unfold match_varassign_ml, match_varassign.
  destruct (negb (nonempty (sr_main first)) && sr_has_comment first && has_prefix [35] text).
  - destruct (next_bytes is_hspace (sr_comment first)) as [hs crest].
    destruct (nonempty hs || negb (nonempty crest)); [discriminate|].
    destruct (skip 1 text) as [t1| |]; cbn [bind]; try discriminate.
    destruct (split t1 true) as [sr| |]; cbn [bind]; try discriminate.
    apply ml_tail_no_panic.
  - apply ml_tail_no_panic.
Qed.

(* ---- all logical lines of a file (C09's convertToLogicalLines) ---- *)

Definition line_multiline (l : Lines.line) : bool :=
  match Lines.raws l with _ :: _ :: _ => true | _ => false end.
Definition line_raw0 (l : Lines.line) : str :=
  match Lines.raws l with r0 :: _ => Lines.orig r0 | [] => [] end.

Lemma varassign_of_file_lines raw_text ls :
  varassign_of_file raw_text = Ok ls ->
  Forall (fun lr : Lines.line * res (option varassign) =>
    forall a, snd lr = Ok (Some a) ->
      va_law (Lines.text (fst lr)) a /\
      (line_multiline (fst lr) = true ->
       exists al r, Lines.text (fst lr) = al ++ r /\
         (length (rtrim_hspace al) <= length (first_line_of (line_raw0 (fst lr))))%nat)) ls.
Proof.
  unfold varassign_of_file.
  destruct (Lines.convert_to_logical_lines raw_text true) as [[lines w]| |]; cbn [lift_lines_res bind]; try discriminate.
  intro H. inversion H; subst ls. clear H.
  apply Forall_forall. intros lr Hin. apply in_map_iff in Hin as (l & <- & _). cbn [fst snd].
  intros a Ha. unfold varassign_of_line in Ha. unfold line_multiline, line_raw0.
  destruct (Lines.raws l) as [|r0 more]; [discriminate|].
  split; [eapply varassign_ml_value_comment_recombine; exact Ha|].
  destruct more as [|r1 more]; [discriminate|]. intros _.
  eapply varassign_ml_guard; exact Ha.
Qed.

(* every line that convertToLogicalLines builds has at least one raw line (C09): line.raw[0] exists *)
Lemma grouped_raws_nonempty k rs ls : LinesLoop.grouped k rs ls -> Forall (fun l => Lines.raws l <> []) ls.
Proof.
  induction 1; constructor; [|assumption].
  match goal with Hr : Lines.raws _ = _ |- _ => rewrite Hr end.
  eapply LinesLoop.group_ok_nonempty; eassumption.
Qed.

Lemma convert_raws_nonempty raw_text ls w :
  Lines.convert_to_logical_lines raw_text true = Lines.Ok (ls, w) -> Forall (fun l => Lines.raws l <> []) ls.
Proof.
  unfold Lines.convert_to_logical_lines.
  set (rl := filter _ _).
  destruct (LinesLoop.mk_loop_spec rl (length rl) 0 []) as (ls' & E & G);
    [change (N.to_nat 0) with 0%nat; apply Nat.le_0_l|change (N.to_nat 0) with 0%nat; rewrite Nat.sub_0_r; apply le_n|].
  rewrite E. cbn [app]. intro H.
  assert (ls = ls').
  { destruct (negb (Lines.is_empty raw_text) && negb (Lines.has_suffix [Lines.nl] raw_text));
      [destruct ls'; [discriminate|inversion H; reflexivity]|inversion H; reflexivity]. }
  subst. eapply grouped_raws_nonempty; eassumption.
Qed.

Definition ml_no_panic_full : Prop :=
  forall raw_text ls, varassign_of_file raw_text = Ok ls ->
    Forall (fun lr : Lines.line * res (option varassign) =>
      (exists r, parse_varassign (Lines.text (fst lr)) = Ok r) -> snd lr <> Panic) ls.

Lemma ml_no_panic : ml_no_panic_full.
Proof.
  unfold ml_no_panic_full, varassign_of_file. intros raw_text ls.
  destruct (Lines.convert_to_logical_lines raw_text true) as [[lines w]| |] eqn:E; cbn [lift_lines_res bind]; try discriminate.
  intro H. inversion H; subst ls. clear H.
  pose proof (convert_raws_nonempty _ _ _ E) as NE. rewrite Forall_forall in NE.
  apply Forall_forall. intros lr Hin. apply in_map_iff in Hin as (l & <- & Hl). cbn [fst snd].
  intros (r & Hr). unfold varassign_of_line. specialize (NE l Hl).
  destruct (Lines.raws l) as [|r0 more]; [congruence|].
  eapply varassign_ml_no_panic; exact Hr.
Qed.

(* ---- the former witness of the panic: VAR.${PARAM:S,=,,}\  /  = value ---- *)
Definition ml_witness_file : str :=
  [86;65;82;46;36;123;80;65;82;65;77;58;83;44;61;44;44;125;92;10;61;32;118;97;108;117;101;10].
Definition ml_witness_raw0 : str := [86;65;82;46;36;123;80;65;82;65;77;58;83;44;61;44;44;125;92].
Definition ml_witness_text : str := [86;65;82;46;36;123;80;65;82;65;77;58;83;44;61;44;44;125;32;61;32;118;97;108;117;101].

(* the operator is in the continuation line: not an assignment, no panic *)
Lemma ml_witness_lines :
  varassign_of_file ml_witness_file =
    Ok [(Lines.mk_line 1 ml_witness_text [ml_witness_raw0 ++ [10]; [61;32;118;97;108;117;101;10]], Ok None)].
Proof. vm_compute. reflexivity. Qed.
