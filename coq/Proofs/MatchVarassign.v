(* matchVarassign on logical lines made of several raw lines (Model/MatchVarassign.v):
   relation to the one-raw-line model, the operator-position guard, and the
   value/comment recombination on the logical text. *)
From Coq Require Import List Lia ZArith NArith Bool.
From PV Require Import Lib.Bytes Gen.MkByteSets Model.MkLexPrim Model.MkLexer Model.MkTokensLexer
  Model.MkLineSplit Model.MatchVarassign Spec.MkPartition Proofs.MkLineSplit Proofs.Varassign.
From PV Require Import Proofs.MkLexPrim Proofs.MkLexer.
From Coq Require Import ZifyBool ZifyN ZifyNat.
From PV Require Model.Lines.
Import ListNotations.
Open Scope N_scope.

(* ---- one raw line: the model of Model/MkLineSplit.v, literally ---- *)

Lemma ml_tail_single c text sr : match_varassign_tail_ml false text c sr = match_varassign_tail c text sr.
Proof. reflexivity. Qed.

Lemma ml_single text : parse_varassign_ml false text text = parse_varassign text.
Proof. reflexivity. Qed.

(* ---- an accepted line passed the guard, and is accepted by the tail run against raw0 ---- *)

Lemma ml_tail_accept ml raw0 c sr a :
  match_varassign_tail_ml ml raw0 c sr = Ok (Some a) ->
  match_varassign_tail c raw0 sr = Ok (Some a) /\ (ml = true -> first_raw_has_equals raw0 = true).
Proof.
  unfold match_varassign_tail_ml, match_varassign_tail. intro H.
  destruct (tokenize (sr_main sr)) as [toks| |]; cbn [bind] in *; try discriminate.
  cbv zeta in *.
  destruct (Varname _) as [[vname mkrest]| |]; cbn [bind] in *; try discriminate.
  destruct (tl_skip_mixed _ _ _) as [lexer2| |]; cbn [bind] in *; try discriminate.
  destruct vname as [|v0 vname]; [discriminate|].
  destruct (next_bytes is_hspace (fst lexer2)) as [sav cur3].
  match type of H with context [skip_byte 61 ?c4] => destruct (skip_byte 61 c4) as [cur5|] end; [|discriminate].
  match type of H with (if ?c then Panic else _) = _ => destruct c; [discriminate|] end.
  destruct ml; cbn [andb] in H.
  - destruct (first_raw_has_equals raw0); cbn [negb] in H; [|discriminate]. split; [exact H|reflexivity].
  - split; [exact H|discriminate].
Qed.

(* the shape in which matchVarassign reaches its tail: T is the text that was split into sr *)
Lemma ml_accept ml raw0 text a :
  parse_varassign_ml ml raw0 text = Ok (Some a) ->
  exists (c : bool) T sr, split T true = Ok sr /\ text = (if c then [35] else []) ++ T /\
    match_varassign_tail c raw0 sr = Ok (Some a) /\ (ml = true -> first_raw_has_equals raw0 = true).
Proof.
  unfold parse_varassign_ml. destruct (split text true) as [first| |] eqn:E1; cbn [bind]; try discriminate.
  unfold match_varassign_ml.
  destruct (negb (nonempty (sr_main first)) && sr_has_comment first && has_prefix [35] text) eqn:C.
  - apply andb_true_iff in C as [_ Hp]. apply has_prefix_app in Hp as (t1 & Ht1).
    destruct (next_bytes is_hspace (sr_comment first)) as [hs crest].
    destruct (nonempty hs || negb (nonempty crest)); [discriminate|].
    subst text. rewrite skip_ok by (simpl; lia). cbn [bind skipn app].
    destruct (split t1 true) as [sr| |] eqn:E2; cbn [bind]; try discriminate.
    intro Hm. apply ml_tail_accept in Hm as [Hm Hg].
    exists true, t1, sr. auto.
  - intro Hm. apply ml_tail_accept in Hm as [Hm Hg].
    exists false, text, first. auto.
Qed.

(* every accepted multi-line assignment has its "=" in the first raw line *)
Lemma varassign_ml_guard raw0 text a :
  parse_varassign_ml true raw0 text = Ok (Some a) -> first_raw_has_equals raw0 = true.
Proof. intro H. destruct (ml_accept _ _ _ _ H) as (c & T & sr & _ & _ & _ & Hg). auto. Qed.

(* for every accepted assignment, whatever the raw lines are: [#] ++ pre ++ comment is the logical
   text, and the unescaped pre is head ++ value ++ blanks, where head ++ value is the main part *)
Lemma varassign_ml_value_comment_recombine ml raw0 text a :
  parse_varassign_ml ml raw0 text = Ok (Some a) -> va_law text a.
Proof.
  intro H. destruct (ml_accept _ _ _ _ H) as (commented & T & sr & Hs & Ht & Hm & _).
  destruct (match_varassign_tail_law commented raw0 T sr a Hs Hm) as (head & sp & A1 & A2 & A3 & A4 & A5 & A6).
  destruct (split_recombines _ _ _ Hs) as (pre & B1 & B2 & B3 & _).
  exists head, pre, sp. rewrite A1, A2, A3. subst sp.
  split; [rewrite Ht, B1; reflexivity|].
  split; [rewrite B2, A4, <- app_assoc; reflexivity|].
  split; [exact A4|]. split; [exact B3|exact A6].
Qed.

(* the alignment prefix handed out is a prefix of the FIRST RAW LINE (plus the blanks before the
   comment when the value is empty) *)
Lemma tail_align_prefix c raw sr a : match_varassign_tail c raw sr = Ok (Some a) ->
  exists al r, raw = al ++ r /\ va_value_align a = al ++ (match va_value a with [] => sr_space_before_comment sr | _ => [] end).
Proof.
  unfold match_varassign_tail. intro H.
  destruct (tokenize (sr_main sr)) as [toks| |]; cbn [bind] in *; try discriminate.
  cbv zeta in *.
  destruct (Varname _) as [[vname mkrest]| |]; cbn [bind] in *; try discriminate.
  destruct (tl_skip_mixed _ _ _) as [lexer2| |]; cbn [bind] in *; try discriminate.
  destruct vname as [|v0 vname]; [discriminate|].
  destruct (next_bytes is_hspace (fst lexer2)) as [sav cur3].
  match type of H with context [skip_byte 61 ?c4] => destruct (skip_byte 61 c4) as [cur5|] end; [|discriminate].
  match type of H with (if ?c then Panic else _) = _ => destruct c; [discriminate|] end.
  match type of H with context [has_suffix [43] ?v && ?b && ?d] => destruct (has_suffix [43] v && b && d) end;
  cbv beta iota in H;
  match type of H with context [get_raw_value_align ?r ?p] =>
    pose proof (get_raw_value_align_post r p) as P; destruct (get_raw_value_align r p) as [al| |] end;
    cbn [bind] in H; try discriminate;
  destruct P as (r & Hr); exists al, r; (split; [exact Hr|]);
  match type of H with context [trim_hspace ?x] => destruct (trim_hspace x) end; inversion H; subst a; cbn;
  try reflexivity; rewrite app_nil_r; reflexivity.
Qed.

Lemma varassign_ml_align_prefix ml raw0 text a :
  parse_varassign_ml ml raw0 text = Ok (Some a) ->
  exists al r sp, raw0 = al ++ r /\ va_value_align a = al ++ sp /\ forallb is_hspace sp = true /\ (va_value a <> [] -> sp = []).
Proof.
  intro H. destruct (ml_accept _ _ _ _ H) as (c & T & sr & Hs & _ & Hm & _).
  destruct (tail_align_prefix _ _ _ _ Hm) as (al & r & Hr & Ha).
  destruct (split_recombines _ _ _ Hs) as (pre & _ & _ & B3 & _).
  exists al, r. destruct (va_value a) as [|x v].
  - exists (sr_space_before_comment sr). repeat split; auto. intro K; contradiction.
  - exists []. repeat split; auto.
Qed.

(* ---- a line without "=" in its first raw line is rejected before the raw line is looked at ---- *)

Lemma ml_tail_rejected raw0 c text sr r :
  first_raw_has_equals raw0 = false ->
  match_varassign_tail c text sr = Ok r ->
  match_varassign_tail_ml true raw0 c sr = Ok None.
Proof.
  unfold match_varassign_tail_ml, match_varassign_tail. intros Hg H. rewrite Hg.
  destruct (tokenize (sr_main sr)) as [toks| |]; cbn [bind] in *; try discriminate.
  cbv zeta in *.
  destruct (Varname _) as [[vname mkrest]| |]; cbn [bind] in *; try discriminate.
  destruct (tl_skip_mixed _ _ _) as [lexer2| |]; cbn [bind] in *; try discriminate.
  destruct vname as [|v0 vname]; [reflexivity|].
  destruct (next_bytes is_hspace (fst lexer2)) as [sav cur3].
  match type of H with context [skip_byte 61 ?c4] => destruct (skip_byte 61 c4) as [cur5|] end; [|reflexivity].
  match type of H with (if ?c then Panic else _) = _ => destruct c; [discriminate|] end.
  reflexivity.
Qed.

Lemma varassign_ml_rejected raw0 text r :
  first_raw_has_equals raw0 = false ->
  parse_varassign text = Ok r ->
  parse_varassign_ml true raw0 text = Ok None.
Proof.
  intro Hg. unfold parse_varassign_ml, parse_varassign.
  destruct (split text true) as [first| |] eqn:E1; cbn [bind]; try discriminate.
  unfold match_varassign_ml, match_varassign.
  destruct (negb (nonempty (sr_main first)) && sr_has_comment first && has_prefix [35] text).
  - destruct (next_bytes is_hspace (sr_comment first)) as [hs crest].
    destruct (nonempty hs || negb (nonempty crest)); [reflexivity|].
    destruct (skip 1 text) as [t1| |]; cbn [bind]; try discriminate.
    destruct (split t1 true) as [sr| |]; cbn [bind]; try discriminate.
    apply ml_tail_rejected; exact Hg.
  - apply ml_tail_rejected; exact Hg.
Qed.

(* ---- all logical lines of a file (C09's convertToLogicalLines) ---- *)

Definition line_multiline (l : Lines.line) : bool :=
  match Lines.raws l with _ :: _ :: _ => true | _ => false end.
Definition line_raw0 (l : Lines.line) : str :=
  match Lines.raws l with r0 :: _ => Lines.orig r0 | [] => [] end.

Lemma varassign_of_file_lines raw_text ls :
  varassign_of_file raw_text = Ok ls ->
  Forall (fun lr : Lines.line * res (option varassign) =>
    forall a, snd lr = Ok (Some a) ->
      va_law (Lines.text (fst lr)) a /\
      (line_multiline (fst lr) = true -> first_raw_has_equals (line_raw0 (fst lr)) = true)) ls.
Proof.
  unfold varassign_of_file.
  destruct (Lines.convert_to_logical_lines raw_text true) as [[lines w]| |]; cbn [lift_lines_res bind]; try discriminate.
  intro H. inversion H; subst ls. clear H.
  apply Forall_forall. intros lr Hin. apply in_map_iff in Hin as (l & <- & _). cbn [fst snd].
  intros a Ha. unfold varassign_of_line in Ha. unfold line_multiline, line_raw0.
  destruct (Lines.raws l) as [|r0 more]; [discriminate|].
  split; [eapply varassign_ml_value_comment_recombine; exact Ha|].
  destruct more as [|r1 more]; [discriminate|]. intros _.
  eapply varassign_ml_guard; exact Ha.
Qed.

(* ---- the guard does not decide "the operator lies in the first raw line" ---- *)

(* VAR.${PARAM:S,=,,}\  /  = value : the first raw line contains "=" (inside the expression), the
   operator is in the continuation line; getRawValueAlign's assert(pch == '#') fails *)
Definition ml_witness_file : str :=
  [86;65;82;46;36;123;80;65;82;65;77;58;83;44;61;44;44;125;92;10;61;32;118;97;108;117;101;10].
Definition ml_witness_raw0 : str := [86;65;82;46;36;123;80;65;82;65;77;58;83;44;61;44;44;125;92].
Definition ml_witness_text : str := [86;65;82;46;36;123;80;65;82;65;77;58;83;44;61;44;44;125;32;61;32;118;97;108;117;101].
(* the shortest one: $=\ / = *)
Definition ml_witness2_file : str := [36;61;92;10;61;10].

Definition ml_no_panic_full : Prop :=
  forall raw_text ls, varassign_of_file raw_text = Ok ls ->
    Forall (fun lr : Lines.line * res (option varassign) =>
      (exists r, parse_varassign (Lines.text (fst lr)) = Ok r) -> snd lr <> Panic) ls.

Lemma ml_witness_lines :
  varassign_of_file ml_witness_file =
    Ok [(Lines.mk_line 1 ml_witness_text [ml_witness_raw0 ++ [10]; [61;32;118;97;108;117;101;10]], Panic)].
Proof. vm_compute. reflexivity. Qed.

Lemma ml_witness_text_parses : exists a, parse_varassign ml_witness_text = Ok (Some a).
Proof. eexists. vm_compute. reflexivity. Qed.

Lemma ml_no_panic_refuted : ~ ml_no_panic_full.
Proof.
  intro H. specialize (H _ _ ml_witness_lines).
  inversion H as [|x l Hx _]; subst. cbn [fst snd Lines.text] in Hx.
  apply Hx; [|reflexivity]. destruct ml_witness_text_parses as (a & Ha). exists (Some a). exact Ha.
Qed.
