(* matchVarassign on logical lines made of several raw lines (Model/MatchVarassign.v):
   relation to the one-raw-line model, the operator-position guard, and the
   value/comment recombination on the logical text. *)
From Coq Require Import List Lia ZArith NArith Bool.
From PV Require Import Lib.Bytes Gen.MkByteSets Model.MkLexPrim Model.MkLexer Model.MkTokensLexer
  Model.MkLineSplit Model.MatchVarassign Spec.MkPartition Proofs.MkLineSplit Proofs.Varassign.
From PV Require Import Proofs.MkLexPrim Proofs.MkLexer.
From Coq Require Import ZifyBool ZifyN ZifyNat.
From PV Require Import Proofs.VarassignFull Proofs.RawAlignWalk.
From PV Require Model.Lines Proofs.LinesLoop.
Import ListNotations.
Open Scope N_scope.

(* ---- one raw line: the model of Model/MkLineSplit.v, literally ---- *)

Lemma ml_tail_single c text sr : match_varassign_tail_ml false text text c sr = match_varassign_tail c text sr.
Proof. reflexivity. Qed.

Lemma ml_single text : parse_varassign_ml false text text = parse_varassign text.
Proof. reflexivity. Qed.

(* ---- an accepted line passed the guard, and is accepted by the tail run against raw0 ---- *)

Lemma ml_tail_accept ml raw0 text c sr a :
  match_varassign_tail_ml ml raw0 text c sr = Ok (Some a) ->
  match_varassign_tail c raw0 sr = Ok (Some a) /\
  (ml = true -> exists up_to_op r, text = up_to_op ++ r /\ (length up_to_op <= length (first_line_of raw0))%nat).
Proof.
  unfold match_varassign_tail_ml, match_varassign_tail. intro H.
  destruct (tokenize (sr_main sr)) as [toks| |]; cbn [bind] in *; try discriminate.
  cbv zeta in *.
  destruct (Varname _) as [[vname mkrest]| |]; cbn [bind] in *; try discriminate.
  destruct (tl_skip_mixed _ _ _) as [lexer2| |]; cbn [bind] in *; try discriminate.
  destruct vname as [|v0 vname]; [discriminate|].
  destruct (next_bytes is_hspace (fst lexer2)) as [sav cur3].
  match type of H with context [skip_byte 61 ?c4] => destruct (skip_byte 61 c4) as [cur5|] end; [|discriminate].
  match type of H with (if ?c then Panic else _) = _ => destruct c; [discriminate|] end.
  destruct ml.
  - match type of H with context [get_raw_value_align text ?p] =>
      pose proof (get_raw_value_align_post text p) as P; destruct (get_raw_value_align text p) as [up| |] end;
      cbn [bind] in H; try discriminate.
    destruct (length (first_line_of raw0) <? length up)%nat eqn:Lt; [discriminate|].
    split; [exact H|]. intros _. destruct P as (r & Hr). exists up, r. split; [exact Hr|].
    apply Nat.ltb_ge in Lt. exact Lt.
  - cbn [bind] in H. split; [exact H|discriminate].
Qed.

(* the shape in which matchVarassign reaches its tail: T is the text that was split into sr *)
Lemma ml_accept ml raw0 text a :
  parse_varassign_ml ml raw0 text = Ok (Some a) ->
  exists (c : bool) T sr, split T true = Ok sr /\ text = (if c then [35] else []) ++ T /\
    match_varassign_tail c raw0 sr = Ok (Some a) /\
    (ml = true -> exists up_to_op r, text = up_to_op ++ r /\ (length up_to_op <= length (first_line_of raw0))%nat).
Proof.
  unfold parse_varassign_ml. destruct (split text true) as [first| |] eqn:E1; cbn [bind]; try discriminate.
  unfold match_varassign_ml.
  destruct (negb (nonempty (sr_main first)) && sr_has_comment first && has_prefix [35] text) eqn:C.
  - apply andb_true_iff in C as [_ Hp]. apply has_prefix_app in Hp as (t1 & Ht1).
    destruct (next_bytes is_hspace (sr_comment first)) as [hs crest].
    destruct (nonempty hs || negb (nonempty crest)); [discriminate|].
    destruct (skip 1 text) as [t1'| |] eqn:Esk; cbn [bind]; try discriminate.
    assert (t1' = t1) by (subst text; rewrite skip_ok in Esk by (simpl; lia); inversion Esk; reflexivity). subst t1'.
    destruct (split t1 true) as [sr| |] eqn:E2; cbn [bind]; try discriminate.
    intro Hm. apply ml_tail_accept in Hm as [Hm Hg].
    exists true, t1, sr. auto.
  - intro Hm. apply ml_tail_accept in Hm as [Hm Hg].
    exists false, text, first. auto.
Qed.

(* every accepted multi-line assignment has its operator in the first raw line: the raw text of the
   logical line up to and including the operator is no longer than the first physical line without
   its continuation backslash and trailing blanks *)
Lemma varassign_ml_guard raw0 text a :
  parse_varassign_ml true raw0 text = Ok (Some a) ->
  exists up_to_op r, text = up_to_op ++ r /\ (length up_to_op <= length (first_line_of raw0))%nat.
Proof. intro H. destruct (ml_accept _ _ _ _ H) as (c & T & sr & _ & _ & _ & Hg). auto. Qed.

(* for every accepted assignment, whatever the raw lines are: [#] ++ pre ++ comment is the logical
   text, and the unescaped pre is head ++ value ++ blanks, where head ++ value is the main part *)
Lemma varassign_ml_value_comment_recombine ml raw0 text a :
  parse_varassign_ml ml raw0 text = Ok (Some a) -> va_law text a.
Proof.
  intro H. destruct (ml_accept _ _ _ _ H) as (commented & T & sr & Hs & Ht & Hm & _).
  destruct (match_varassign_tail_law commented raw0 T sr a Hs Hm) as (head & sp & A1 & A2 & A3 & A4 & A5 & A6).
  destruct (split_recombines _ _ _ Hs) as (pre & B1 & B2 & B3 & _).
  exists head, pre, sp. rewrite A1, A2, A3. subst sp.
  split; [rewrite Ht, B1; reflexivity|].
  split; [rewrite B2, A4, <- app_assoc; reflexivity|].
  split; [exact A4|]. split; [exact B3|exact A6].
Qed.

(* the alignment prefix handed out is a prefix of the FIRST RAW LINE (plus the blanks before the
   comment when the value is empty) *)
Lemma tail_align_prefix c raw sr a : match_varassign_tail c raw sr = Ok (Some a) ->
  exists al r, raw = al ++ r /\ va_value_align a = al ++ (match va_value a with [] => sr_space_before_comment sr | _ => [] end).
Proof.
  unfold match_varassign_tail. intro H.
  destruct (tokenize (sr_main sr)) as [toks| |]; cbn [bind] in *; try discriminate.
  cbv zeta in *.
  destruct (Varname _) as [[vname mkrest]| |]; cbn [bind] in *; try discriminate.
  destruct (tl_skip_mixed _ _ _) as [lexer2| |]; cbn [bind] in *; try discriminate.
  destruct vname as [|v0 vname]; [discriminate|].
  destruct (next_bytes is_hspace (fst lexer2)) as [sav cur3].
  match type of H with context [skip_byte 61 ?c4] => destruct (skip_byte 61 c4) as [cur5|] end; [|discriminate].
  match type of H with (if ?c then Panic else _) = _ => destruct c; [discriminate|] end.
  match type of H with context [has_suffix [43] ?v && ?b && ?d] => destruct (has_suffix [43] v && b && d) end;
  cbv beta iota in H;
  match type of H with context [get_raw_value_align ?r ?p] =>
    pose proof (get_raw_value_align_post r p) as P; destruct (get_raw_value_align r p) as [al| |] end;
    cbn [bind] in H; try discriminate;
  destruct P as (r & Hr); exists al, r; (split; [exact Hr|]);
  match type of H with context [trim_hspace ?x] => destruct (trim_hspace x) end; inversion H; subst a; cbn;
  try reflexivity; rewrite app_nil_r; reflexivity.
Qed.

Lemma varassign_ml_align_prefix ml raw0 text a :
  parse_varassign_ml ml raw0 text = Ok (Some a) ->
  exists al r sp, raw0 = al ++ r /\ va_value_align a = al ++ sp /\ forallb is_hspace sp = true /\ (va_value a <> [] -> sp = []).
Proof.
  intro H. destruct (ml_accept _ _ _ _ H) as (c & T & sr & Hs & _ & Hm & _).
  destruct (tail_align_prefix _ _ _ _ Hm) as (al & r & Hr & Ha).
  destruct (split_recombines _ _ _ Hs) as (pre & _ & _ & B3 & _).
  exists al, r. destruct (va_value a) as [|x v].
  - exists (sr_space_before_comment sr). repeat split; auto. intro K; contradiction.
  - exists []. repeat split; auto.
Qed.

(* ---- no panic: the guard makes getRawValueAlign(raw[0], ...) safe ---- *)

Lemma rtrim_snoc_nh X c : is_hspace c = false -> rtrim_hspace (X ++ [c]) = X ++ [c].
Proof.
  intro Hc. induction X as [|a t IH]; cbn [app rtrim_hspace]; [rewrite Hc; reflexivity|].
  rewrite IH. destruct (t ++ [c]) eqn:E; [destruct t; discriminate|reflexivity].
Qed.

Lemma ends_nh_snoc X c : is_hspace c = false -> ends_nh (X ++ [c]).
Proof. intro Hc. split; [apply rtrim_snoc_nh; exact Hc|destruct X; discriminate]. Qed.

Lemma trim_suffix_app A suf : MkTokensLexer.trim_suffix (A ++ suf) suf = A.
Proof.
  unfold MkTokensLexer.trim_suffix, has_suffix. rewrite app_length.
  replace (length A + length suf - length suf)%nat with (length A) by lia.
  rewrite skipn_app, skipn_all, Nat.sub_diag. cbn [skipn app]. rewrite str_eqb_refl.
  replace (length suf <=? length A + length suf)%nat with true by (symmetry; apply Nat.leb_le; lia).
  cbn [andb]. rewrite firstn_app, firstn_all, Nat.sub_diag. cbn [firstn]. apply app_nil_r.
Qed.

Lemma tl_since_app (mark m : tlexer) A : tl_rest mark = A ++ tl_rest m -> tl_since mark m = A.
Proof. intro H. unfold tl_since. rewrite H. apply trim_suffix_app. Qed.

(* the shape of the two raw texts: F is the first physical line without continuation backslash and
   trailing blanks; it starts the text of the logical line as well *)
Lemma ml_tail_no_panic raw0 (c : bool) text sr r F x y :
  text = F ++ x -> raw0 = F ++ y -> first_line_of raw0 = F ->
  match_varassign_tail c text sr = Ok r ->
  match_varassign_tail_ml true raw0 text c sr <> Panic.
Proof.
  intros Htext Hraw HF H. unfold match_varassign_tail_ml, match_varassign_tail in *.
  destruct (tokenize (sr_main sr)) as [toks| |] eqn:Et; cbn [bind] in *; try discriminate.
  cbv zeta in *.
  set (lexer1 := if c then tl_new toks else tl_lift skip_spaces (tl_new toks)) in *.
  assert (S1 : is_suffix (tl_rest lexer1) (tl_rest (tl_new toks))).
  { unfold lexer1. destruct c; [apply is_suffix_refl|]. unfold tl_lift. apply tl_cur_suffix, skip_spaces_suffix. }
  destruct (Varname _) as [[vname mkrest]| |]; cbn [bind] in *; try discriminate.
  destruct (tl_skip_mixed _ _ lexer1) as [lexer2| |] eqn:E2; cbn [bind] in *; try discriminate.
  apply tl_skip_mixed_suffix in E2.
  destruct vname as [|v0 vname]; [discriminate|].
  destruct (next_bytes is_hspace (fst lexer2)) as [sav cur3] eqn:E3.
  pose proof (next_bytes_eq _ _ _ _ E3) as Hcur.
  match type of H with context [skip_byte 61 ?c4] => destruct (skip_byte 61 c4) as [cur5|] eqn:E5 end; [|discriminate].
  match type of H with (if ?cc then Panic else _) = _ => destruct cc; [discriminate|] end.
  (* the main part = A5 ++ rest of lexer5, and A5 ends with "=" *)
  set (R2 := concat (map fst (snd lexer2))) in *.
  assert (Hop : exists opc, cur3 = opc ++ [61] ++ cur5).
  { destruct cur3 as [|c0 t]; [discriminate|].
    destruct ((c0 =? 33) || (c0 =? 43) || (c0 =? 58) || (c0 =? 63)).
    - destruct t as [|c1 t']; [discriminate|]. cbn [skip_byte] in E5.
      destruct (c1 =? 61) eqn:E61; [|discriminate]. apply N.eqb_eq in E61. inversion E5; subst. exists [c0]. reflexivity.
    - cbn [skip_byte] in E5. destruct (c0 =? 61) eqn:E61; [|discriminate]. apply N.eqb_eq in E61. inversion E5; subst. exists []. reflexivity. }
  destruct Hop as (opc & Hopc).
  destruct (is_suffix_trans _ _ _ E2 S1) as (B & HB).
  assert (H5 : tl_rest (tl_new toks) = ((B ++ sav ++ opc) ++ [61]) ++ tl_rest (cur5, snd lexer2)).
  { rewrite HB. unfold tl_rest. cbn [fst snd]. fold R2. rewrite Hcur, Hopc. rewrite <- !app_assoc. reflexivity. }
  set (A5 := (B ++ sav ++ opc) ++ [61]) in *.
  rewrite (tl_since_app _ _ _ H5).
  (* lexer6 *)
  match type of H with context [has_suffix [43] ?v && ?b && ?d] => destruct (has_suffix [43] v && b && d) end;
  cbv beta iota in *.
  all: set (hs := fst (next_bytes is_hspace cur5)) in *.
  all: assert (Hhs : forallb is_hspace hs = true) by (apply span_all).
  all: assert (H6 : tl_rest (tl_new toks) = (A5 ++ hs) ++ tl_rest (tl_lift (fun s => snd (next_bytes is_hspace s)) (cur5, snd lexer2)))
    by (rewrite H5; unfold tl_rest, tl_lift; cbn [fst snd]; rewrite <- (next_bytes_app is_hspace cur5) at 1; fold hs; rewrite <- !app_assoc; reflexivity).
  all: rewrite (tl_since_app _ _ _ H6) in *.
  all: set (pref := if c then [35] else []) in *.
  all: assert (Hp5 : ends_nh (pref ++ A5)) by (unfold A5; rewrite app_assoc; apply ends_nh_snoc; reflexivity).
  all: destruct (get_raw_value_align text (pref ++ A5 ++ hs)) as [al6| |] eqn:G6; cbn [bind] in H; try discriminate.
  all: unfold get_raw_value_align in G6.
  all: destruct (raw_value_align_loop (S (length (pref ++ A5 ++ hs))) text (pref ++ A5 ++ hs)) as [r6| |] eqn:L6; cbn [bind] in G6; try discriminate.
  all: rewrite app_assoc in L6.
  all: destruct (loop_prefix _ (S (length (pref ++ A5))) _ _ _ _ Hp5 L6 ltac:(lia)) as (rT & LT).
  all: unfold get_raw_value_align at 1; rewrite LT; cbn [bind].
  all: destruct (length (first_line_of raw0) <? length (since text rT))%nat eqn:Lt; [discriminate|].
  all: apply Nat.ltb_ge in Lt.
  all: assert (Hx : (length x <= length rT)%nat)
    by (pose proof (is_suffix_length _ _ (loop_suffix _ _ _ _ LT)) as Sl;
        unfold since in Lt; rewrite firstn_length in Lt; rewrite HF in Lt; subst text; rewrite app_length in *; lia).
  all: assert (HFr : rtrim_hspace F = F) by (rewrite <- HF; unfold first_line_of; apply rtrim_idem).
  all: subst text raw0.
  all: destruct (loop_common_prefix _ (S (length ((pref ++ A5) ++ hs))) (pref ++ A5) hs F x y rT Hp5 Hhs HFr LT Hx
         ltac:(lia)) as (r' & Lr).
  all: unfold get_raw_value_align; rewrite (app_assoc pref A5 hs), Lr; cbn [bind].
  all: match goal with |- context [trim_hspace ?z] => destruct (trim_hspace z) end; discriminate.
Qed.

(* one raw line (raw0 = text), or several with the shape convertToLogicalLines gives them *)
Definition ml_shape (ml : bool) (raw0 text : str) : Prop :=
  if ml then exists x y, text = first_line_of raw0 ++ x /\ raw0 = first_line_of raw0 ++ y
  else raw0 = text.

Lemma varassign_ml_no_panic ml raw0 text r :
  ml_shape ml raw0 text ->
  parse_varassign text = Ok r -> parse_varassign_ml ml raw0 text <> Panic.
Proof.
  destruct ml; cbn [ml_shape].
  - intros (x & y & Ht & Hr). unfold parse_varassign_ml, parse_varassign.
    destruct (split text true) as [first| |] eqn:E1; cbn [bind]; try discriminate.
    unfold match_varassign_ml, match_varassign.
    destruct (negb (nonempty (sr_main first)) && sr_has_comment first && has_prefix [35] text).
    + destruct (next_bytes is_hspace (sr_comment first)) as [hs crest].
      destruct (nonempty hs || negb (nonempty crest)); [discriminate|].
      destruct (skip 1 text) as [t1| |]; cbn [bind]; try discriminate.
      destruct (split t1 true) as [sr| |]; cbn [bind]; try discriminate.
      eapply ml_tail_no_panic; eauto.
    + eapply ml_tail_no_panic; eauto.
  - intros -> H. rewrite ml_single, H. discriminate.
Qed.

(* ---- all logical lines of a file (C09's convertToLogicalLines) ---- *)

Definition line_multiline (l : Lines.line) : bool :=
  match Lines.raws l with _ :: _ :: _ => true | _ => false end.
Definition line_raw0 (l : Lines.line) : str :=
  match Lines.raws l with r0 :: _ => Lines.orig r0 | [] => [] end.

Lemma varassign_of_file_lines raw_text ls :
  varassign_of_file raw_text = Ok ls ->
  Forall (fun lr : Lines.line * res (option varassign) =>
    forall a, snd lr = Ok (Some a) ->
      va_law (Lines.text (fst lr)) a /\
      (line_multiline (fst lr) = true ->
       exists up_to_op r, Lines.text (fst lr) = up_to_op ++ r /\
         (length up_to_op <= length (first_line_of (line_raw0 (fst lr))))%nat)) ls.
Proof.
  unfold varassign_of_file.
  destruct (Lines.convert_to_logical_lines raw_text true) as [[lines w]| |]; cbn [lift_lines_res bind]; try discriminate.
  intro H. inversion H; subst ls. clear H.
  apply Forall_forall. intros lr Hin. apply in_map_iff in Hin as (l & <- & _). cbn [fst snd].
  intros a Ha. unfold varassign_of_line in Ha. unfold line_multiline, line_raw0.
  destruct (Lines.raws l) as [|r0 more]; [discriminate|].
  split; [eapply varassign_ml_value_comment_recombine; exact Ha|].
  destruct more as [|r1 more]; [discriminate|]. intros _.
  eapply varassign_ml_guard; exact Ha.
Qed.

(* every line that convertToLogicalLines builds has at least one raw line (C09): line.raw[0] exists *)
Lemma grouped_raws_nonempty k rs ls : LinesLoop.grouped k rs ls -> Forall (fun l => Lines.raws l <> []) ls.
Proof.
  induction 1; constructor; [|assumption].
  match goal with Hr : Lines.raws _ = _ |- _ => rewrite Hr end.
  eapply LinesLoop.group_ok_nonempty; eassumption.
Qed.

Lemma convert_raws_nonempty raw_text ls w :
  Lines.convert_to_logical_lines raw_text true = Lines.Ok (ls, w) -> Forall (fun l => Lines.raws l <> []) ls.
Proof.
  unfold Lines.convert_to_logical_lines.
  set (rl := filter _ _).
  destruct (LinesLoop.mk_loop_spec rl (length rl) 0 []) as (ls' & E & G);
    [change (N.to_nat 0) with 0%nat; apply Nat.le_0_l|change (N.to_nat 0) with 0%nat; rewrite Nat.sub_0_r; apply le_n|].
  rewrite E. cbn [app]. intro H.
  assert (ls = ls').
  { destruct (negb (Lines.is_empty raw_text) && negb (Lines.has_suffix [Lines.nl] raw_text));
      [destruct ls'; [discriminate|inversion H; reflexivity]|inversion H; reflexivity]. }
  subst. eapply grouped_raws_nonempty; eassumption.
Qed.

(* FULL statement over files (neither proved nor refuted here: it needs, from C09, that the first
   physical line without backslash and trailing blanks starts the logical text - corresponded) *)
Definition ml_no_panic_full : Prop :=
  forall raw_text ls, varassign_of_file raw_text = Ok ls ->
    Forall (fun lr : Lines.line * res (option varassign) =>
      (exists r, parse_varassign (Lines.text (fst lr)) = Ok r) -> snd lr <> Panic) ls.

(* PARTIAL: the same with the shape of the line spelled out *)
Lemma ml_no_panic_lines raw_text ls : varassign_of_file raw_text = Ok ls ->
    Forall (fun lr : Lines.line * res (option varassign) =>
      ml_shape (line_multiline (fst lr)) (line_raw0 (fst lr)) (Lines.text (fst lr)) ->
      (exists r, parse_varassign (Lines.text (fst lr)) = Ok r) -> snd lr <> Panic) ls.
Proof.
  unfold varassign_of_file.
  destruct (Lines.convert_to_logical_lines raw_text true) as [[lines w]| |] eqn:E; cbn [lift_lines_res bind]; try discriminate.
  intro H. inversion H; subst ls. clear H.
  pose proof (convert_raws_nonempty _ _ _ E) as NE. rewrite Forall_forall in NE.
  apply Forall_forall. intros lr Hin. apply in_map_iff in Hin as (l & <- & Hl). cbn [fst snd].
  unfold line_multiline, line_raw0, varassign_of_line. specialize (NE l Hl).
  destruct (Lines.raws l) as [|r0 more]; [congruence|].
  intros Hs (r & Hr). destruct more as [|r1 more]; eapply varassign_ml_no_panic; eauto.
Qed.

(* ---- the former witness of the panic: VAR.${PARAM:S,=,,}\  /  = value ---- *)
Definition ml_witness_file : str :=
  [86;65;82;46;36;123;80;65;82;65;77;58;83;44;61;44;44;125;92;10;61;32;118;97;108;117;101;10].
Definition ml_witness_raw0 : str := [86;65;82;46;36;123;80;65;82;65;77;58;83;44;61;44;44;125;92].
Definition ml_witness_text : str := [86;65;82;46;36;123;80;65;82;65;77;58;83;44;61;44;44;125;32;61;32;118;97;108;117;101].

(* the operator is in the continuation line: not an assignment, no panic *)
Lemma ml_witness_lines :
  varassign_of_file ml_witness_file =
    Ok [(Lines.mk_line 1 ml_witness_text [ml_witness_raw0 ++ [10]; [61;32;118;97;108;117;101;10]], Ok None)].
Proof. vm_compute. reflexivity. Qed.
