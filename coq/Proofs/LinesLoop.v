(* Proofs for C09, part 2: nextLogicalLine's loop, the grouping loop, the
   physical lines, and the clause-by-clause theorems. *)
From PV Require Import Lib.Bytes Lib.LinesLib Model.Lines Spec.LinesSpec Proofs.Lines.
From Coq Require Import ZifyBool ZifyN ZifyNat.
Open Scope N_scope.

Definition obs (l : line) : obs_line := (lineno l, text l, raws l).
Definition P (r : str) : parts := spec_parts (content r).

(* ---- text: the loop's accumulation against `joined` ---------------------- *)

Fixpoint tail_text (trim : str) (ps : list parts) : str :=
  match ps with
  | [] => []
  | p :: rest =>
    match rest with
    | [] => trim_prefix trim (p_body p) ++ p_outdent p ++ p_cont p
    | _ :: _ => trim_prefix trim (p_body p) ++ [space] ++ tail_text (next_string [hash] (p_body p)) rest
    end
  end.

Lemma has_prefix_single a c b : has_prefix [a] (c :: b) = (a =? c).
Proof. unfold has_prefix. cbn [strip_prefix]. destruct (a =? c); reflexivity. Qed.

Lemma trim_prefix_single a d e : trim_prefix [a] (d :: e) = if a =? d then e else d :: e.
Proof. unfold trim_prefix. cbn [strip_prefix]. destruct (a =? d); reflexivity. Qed.

Lemma trim_is_body_after prev cur :
  trim_prefix (next_string [hash] (p_body prev)) (p_body cur) = body_after prev cur.
Proof.
  unfold body_after, next_string, head_is, is_hash, hash.
  destruct (p_body prev) as [|c b]; [reflexivity|].
  rewrite has_prefix_single, (N.eqb_sym 35 c).
  destruct (c =? 35); [|reflexivity].
  destruct (p_body cur) as [|d e]; [reflexivity|].
  rewrite trim_prefix_single, (N.eqb_sym 35 d). destruct (d =? 35); reflexivity.
Qed.

Lemma join_with_cons2 sep x y l : join_with sep (x :: y :: l) = x ++ sep ++ join_with sep (y :: l).
Proof. reflexivity. Qed.

Lemma tail_text_joined prev p rest :
  tail_text (next_string [hash] (p_body prev)) (p :: rest) =
  join_with [32] (map (fun pc => body_after (fst pc) (snd pc)) (combine (prev :: p :: rest) (p :: rest)))
  ++ p_outdent (last (p :: rest) prev) ++ p_cont (last (p :: rest) prev).
Proof.
  revert prev p. induction rest as [|p' rest IH]; intros prev p.
  - simpl. rewrite trim_is_body_after. reflexivity.
  - change (tail_text (next_string [hash] (p_body prev)) (p :: p' :: rest))
      with (trim_prefix (next_string [hash] (p_body prev)) (p_body p) ++ [space]
            ++ tail_text (next_string [hash] (p_body p)) (p' :: rest)).
    rewrite IH, trim_is_body_after.
    change (last (p :: p' :: rest) prev) with (last (p' :: rest) prev).
    replace (last (p' :: rest) prev) with (last (p' :: rest) p)
      by (clear; revert p'; induction rest; intros; [reflexivity|apply IHrest]).
    change (combine (prev :: p :: p' :: rest) (p :: p' :: rest))
      with ((prev, p) :: (p, p') :: combine (p' :: rest) rest).
    change (combine (p :: p' :: rest) (p' :: rest)) with ((p, p') :: combine (p' :: rest) rest).
    cbn [map fst snd]. rewrite (join_with_cons2 _ (body_after prev p)).
    rewrite <- !app_assoc. reflexivity.
Qed.

Lemma first_text_joined p rest :
  p_indent p ++ tail_text [] (p :: rest) = joined (p :: rest).
Proof.
  unfold joined. f_equal. destruct rest as [|p' rest].
  - reflexivity.
  - change (tail_text [] (p :: p' :: rest))
      with (trim_prefix [] (p_body p) ++ [space] ++ tail_text (next_string [hash] (p_body p)) (p' :: rest)).
    rewrite tail_text_joined. unfold trim_prefix. simpl strip_prefix.
    change (last (p :: p' :: rest) p) with (last (p' :: rest) p).
    change (combine (p :: p' :: rest) (p' :: rest)) with ((p, p') :: combine (p' :: rest) rest).
    cbn [map fst snd]. rewrite (join_with_cons2 _ (p_body p)).
    rewrite <- !app_assoc. reflexivity.
Qed.

(* ---- nextLogicalLine ----------------------------------------------------- *)

(* the physical lines of the next logical line, and what follows *)
Fixpoint take_group (rest : list str) : list str * list str :=
  match rest with
  | [] => ([], [])
  | r :: rest' =>
    if continues r && negb (is_empty rest')
    then let (g, post) := take_group rest' in (r :: g, post)
    else ([r], rest')
  end.

Lemma take_group_app rest : fst (take_group rest) ++ snd (take_group rest) = rest.
Proof.
  induction rest as [|r rest IH]; [reflexivity|]. simpl.
  destruct (continues r && negb (is_empty rest)); [|reflexivity].
  destruct (take_group rest) as [g post]. simpl in *. congruence.
Qed.

Lemma take_group_nonempty rest : rest <> [] -> fst (take_group rest) <> [].
Proof.
  destruct rest as [|r rest]; [congruence|]. intros _. simpl.
  destruct (continues r && negb (is_empty rest)); [|discriminate].
  destruct (take_group rest). discriminate.
Qed.

Definition ends_here (post : list str) : bool := match post with [] => true | _ => false end.

Lemma take_group_ok rest : rest <> [] ->
  group_ok (ends_here (snd (take_group rest))) (fst (take_group rest)) = true.
Proof.
  induction rest as [|r rest IH]; [congruence|]. intros _. simpl.
  destruct (continues r) eqn:C; simpl.
  - destruct rest as [|r' rest']; [simpl; apply orb_true_r|]. simpl negb. cbv iota.
    assert (H := IH ltac:(discriminate)).
    assert (N := take_group_nonempty (r' :: rest') ltac:(discriminate)).
    destruct (take_group (r' :: rest')) as [g post]. simpl in *.
    destruct g as [|g0 g]; [congruence|]. rewrite C. exact H.
  - rewrite C. reflexivity.
Qed.

Lemma mcl_P r :
  match_continuation_line (orig r) = (p_indent (P r), p_body (P r), p_outdent (P r), p_cont (P r)).
Proof.
  rewrite orig_is_content. assert (H := mcl_is_spec_parts (content r)).
  destruct (match_continuation_line (content r)) as [[[a b] c] d]. simpl in H.
  unfold P. rewrite <- H. reflexivity.
Qed.

Lemma cont_P r : is_empty (p_cont (P r)) = negb (continues r).
Proof.
  unfold P. rewrite spec_parts_eq. simpl p_cont. unfold cont_of, continues.
  destruct (Nat.odd _); reflexivity.
Qed.

Lemma nll_loop_cons r rest' text lr trim idx :
  nll_loop (r :: rest') text lr trim idx =
  let p := P r in
  let text1 := (if is_empty text then text ++ p_indent p else text) ++ trim_prefix trim (p_body p) in
  if continues r && negb (is_empty rest')
  then nll_loop rest' (text1 ++ [space]) (lr ++ [r]) (next_string [hash] (p_body p)) (idx + 1)
  else (text1 ++ p_outdent p ++ p_cont p, lr ++ [r], idx).
Proof.
  cbn [nll_loop]. rewrite mcl_P, cont_P, negb_involutive. reflexivity.
Qed.

Lemma app_nonempty {A} (a b : list A) : b <> [] -> a ++ b <> [].
Proof. destruct a; simpl; [auto|discriminate]. Qed.

Lemma nll_loop_later rest : forall text lr trim idx, rest <> [] -> text <> [] ->
  nll_loop rest text lr trim idx =
  (text ++ tail_text trim (map P (fst (take_group rest))), lr ++ fst (take_group rest),
   idx + N.of_nat (length (fst (take_group rest))) - 1).
Proof.
  induction rest as [|r rest IH]; intros text lr trim idx Hne Ht; [congruence|].
  rewrite nll_loop_cons. cbv zeta.
  destruct text as [|t0 text']; [congruence|]. cbn [is_empty]. set (text := t0 :: text') in *.
  cbn [take_group].
  destruct (continues r && negb (is_empty rest)) eqn:C.
  - assert (Hr : rest <> []) by (destruct rest; [rewrite andb_false_r in C; discriminate|discriminate]).
    rewrite IH by (try exact Hr; apply app_nonempty; discriminate).
    assert (N := take_group_nonempty rest Hr).
    destruct (take_group rest) as [g post]. cbn [fst snd] in *.
    destruct g as [|g0 g]; [congruence|].
    cbn [map tail_text]. f_equal; [f_equal|].
    + rewrite <- !app_assoc. reflexivity.
    + rewrite <- app_assoc. reflexivity.
    + cbn [length]. lia.
  - cbn [fst snd map tail_text length]. f_equal; [f_equal|].
    + rewrite <- !app_assoc. reflexivity.
    + lia.
Qed.

Lemma nll_loop_first rest idx : rest <> [] ->
  nll_loop rest [] [] [] idx =
  (joined (map P (fst (take_group rest))), fst (take_group rest),
   idx + N.of_nat (length (fst (take_group rest))) - 1).
Proof.
  destruct rest as [|r rest]; [congruence|]. intros _.
  rewrite nll_loop_cons. cbv zeta. cbn [is_empty app take_group].
  unfold trim_prefix at 1. cbn [strip_prefix].
  destruct (continues r && negb (is_empty rest)) eqn:C.
  - assert (Hr : rest <> []) by (destruct rest; [rewrite andb_false_r in C; discriminate|discriminate]).
    rewrite nll_loop_later by (try exact Hr; apply app_nonempty; discriminate).
    assert (N := take_group_nonempty rest Hr).
    destruct (take_group rest) as [g post]. cbn [fst snd] in *.
    destruct g as [|g0 g]; [congruence|].
    cbn [map]. rewrite <- first_text_joined. f_equal; [f_equal|].
    + cbn [tail_text map]. unfold trim_prefix at 2. cbn [strip_prefix].
      rewrite <- !app_assoc. reflexivity.
    + cbn [length]. lia.
  - cbn [fst snd map length]. rewrite <- first_text_joined. f_equal; [f_equal|].
    + cbn [tail_text]. unfold trim_prefix at 1. cbn [strip_prefix].
      rewrite <- !app_assoc. reflexivity.
    + lia.
Qed.

Lemma nth_error_skipn {A} (l : list A) k :
  nth_error l k = match skipn k l with [] => None | x :: _ => Some x end.
Proof.
  revert l; induction k as [|k IH]; intros [|a l]; simpl; try reflexivity. apply IH.
Qed.

Lemma joined_single p : joined [p] = p_indent p ++ p_body p ++ p_outdent p ++ p_cont p.
Proof. reflexivity. Qed.

Lemma spec_text_single r : spec_text [r] = content r.
Proof.
  unfold spec_text. cbn [map]. rewrite joined_single.
  symmetry. apply (d_eq _ _ (spec_parts_decomp (content r))).
Qed.

Lemma next_logical_line_spec raw_lines index :
  skipn (N.to_nat index) raw_lines <> [] ->
  let g := fst (take_group (skipn (N.to_nat index) raw_lines)) in
  next_logical_line raw_lines index =
  Ok (mk_line (index + 1) (spec_text g) g, index + N.of_nat (length g)).
Proof.
  intros Hne g. unfold next_logical_line. rewrite nth_error_skipn.
  assert (Ng := take_group_nonempty _ Hne). fold g in Ng. subst g.
  destruct (skipn (N.to_nat index) raw_lines) as [|r rest] eqn:E; [congruence|].
  destruct (has_suffix [backslash] (orig r)) eqn:S; cbn [negb].
  - rewrite nll_loop_first by discriminate.
    unfold new_line_multi, spec_text, P. f_equal. f_equal.
    destruct (fst (take_group (r :: rest))); [congruence|]. cbn [length]. lia.
  - rewrite orig_is_content in S. apply no_backslash_suffix_count in S.
    assert (Cr : continues r = false) by (unfold continues; rewrite S; reflexivity).
    cbn [take_group]. rewrite Cr. cbn [andb fst length].
    unfold new_line, new_line_multi. rewrite spec_text_single, orig_is_content.
    reflexivity.
Qed.

(* ---- the grouping loop --------------------------------------------------- *)

Inductive grouped : N -> list str -> list line -> Prop :=
| grouped_nil k : grouped k [] []
| grouped_cons k g post l ls :
    group_ok (ends_here post) g = true ->
    lineno l = k + 1 -> raws l = g -> text l = spec_text g ->
    grouped (k + N.of_nat (length g)) post ls ->
    grouped k (g ++ post) (l :: ls).

Lemma skipn_add {A} (l : list A) a b : skipn (a + b) l = skipn a (skipn b l).
Proof.
  revert l; induction b as [|b IH]; intros l.
  - rewrite Nat.add_0_r. reflexivity.
  - rewrite Nat.add_succ_r. destruct l as [|x l]; [rewrite !skipn_nil; reflexivity|]. simpl. apply IH.
Qed.

Lemma skipn_nil_iff {A} (l : list A) k : (length l <= k)%nat -> skipn k l = [].
Proof. apply skipn_all2. Qed.

Lemma skipn_length_lt {A} (l : list A) k : (k < length l)%nat -> skipn k l <> [].
Proof.
  intros H E. apply (f_equal (@length A)) in E. rewrite skipn_length in E. simpl in E. lia.
Qed.

Lemma mk_loop_spec raw_lines fuel : forall index acc,
  (N.to_nat index <= length raw_lines)%nat ->
  (length raw_lines - N.to_nat index <= fuel)%nat ->
  exists ls, mk_loop fuel raw_lines index acc = Ok (acc ++ ls)
             /\ grouped index (skipn (N.to_nat index) raw_lines) ls.
Proof.
  induction fuel as [|fuel IH]; intros index acc Hle Hfuel.
  - exists []. simpl. replace (N.of_nat (length raw_lines) <=? index) with true by lia.
    rewrite app_nil_r, skipn_nil_iff by lia. split; [reflexivity|constructor].
  - cbn [mk_loop]. destruct (N.of_nat (length raw_lines) <=? index) eqn:C.
    + exists []. rewrite app_nil_r, skipn_nil_iff by lia. split; [reflexivity|constructor].
    + assert (Hne : skipn (N.to_nat index) raw_lines <> []) by (apply skipn_length_lt; lia).
      rewrite next_logical_line_spec by exact Hne. cbv zeta.
      assert (A := take_group_app (skipn (N.to_nat index) raw_lines)).
      assert (Ng := take_group_nonempty _ Hne).
      assert (Ok_ := take_group_ok _ Hne).
      destruct (take_group (skipn (N.to_nat index) raw_lines)) as [g post]. cbn [fst snd] in *.
      assert (Lg : (length g + length post = length raw_lines - N.to_nat index)%nat)
        by (rewrite <- app_length, A, skipn_length; reflexivity).
      assert (Hg : (1 <= length g)%nat) by (destruct g; [congruence|simpl; lia]).
      assert (Hpost : skipn (N.to_nat (index + N.of_nat (length g))) raw_lines = post).
      { replace (N.to_nat (index + N.of_nat (length g))) with (length g + N.to_nat index)%nat by lia.
        rewrite skipn_add, <- A. apply skipn_app_exact. }
      destruct (IH (index + N.of_nat (length g)) (acc ++ [mk_line (index + 1) (spec_text g) g]))
        as [ls [H1 H2]]; [lia|lia|].
      exists (mk_line (index + 1) (spec_text g) g :: ls). split.
      * rewrite H1, <- app_assoc. reflexivity.
      * rewrite <- A. rewrite Hpost in H2. constructor; try reflexivity; assumption.
Qed.

Lemma grouped_raws k rs ls : grouped k rs ls -> flat_map raws ls = rs.
Proof. induction 1; simpl; [reflexivity|]. congruence. Qed.

Lemma map_obs_raws ls : all_raws (map obs ls) = flat_map raws ls.
Proof. unfold all_raws. rewrite flat_map_concat_map, map_map, <- flat_map_concat_map. reflexivity. Qed.

Lemma grouped_numbering k rs ls : grouped k rs ls -> numbering_from (k + 1) (map obs ls) = true.
Proof.
  induction 1; simpl; [reflexivity|]. unfold o_lineno, o_raws, obs at 1 2. simpl.
  rewrite H0, N.eqb_refl. simpl. rewrite H1.
  replace (k + 1 + N.of_nat (length g)) with (k + N.of_nat (length g) + 1) by lia. exact IHgrouped.
Qed.

Lemma group_ok_nonempty b g : group_ok b g = true -> g <> [].
Proof. destruct g; simpl; [discriminate|discriminate]. Qed.

Lemma grouped_ends k post ls : grouped k post ls ->
  ends_here post = match map obs ls with [] => true | _ => false end.
Proof.
  destruct 1; [reflexivity|]. simpl.
  apply group_ok_nonempty in H. destruct g; [congruence|reflexivity].
Qed.

Lemma grouped_grouping k rs ls : grouped k rs ls -> grouping_mk (map obs ls) = true.
Proof.
  induction 1; [reflexivity|]. cbn [map grouping_mk].
  rewrite <- (grouped_ends _ _ _ H3). unfold o_raws, obs at 1. simpl. rewrite H1, H, IHgrouped. reflexivity.
Qed.

Lemma grouped_text k rs ls : grouped k rs ls -> text_ok true (map obs ls) = true.
Proof.
  unfold text_ok. induction 1; [reflexivity|]. cbn [map forallb].
  unfold o_text, o_raws, obs at 1 2. simpl. rewrite H1, H2, str_eqb_refl. exact IHgrouped.
Qed.

(* ---- plain mode ---------------------------------------------------------- *)

Lemma plain_raws rs k : flat_map raws (plain_loop rs k) = rs.
Proof. revert k; induction rs as [|r rs IH]; intros k; simpl; [reflexivity|]. rewrite IH. reflexivity. Qed.

Lemma plain_numbering rs k : numbering_from (k + 1) (map obs (plain_loop rs k)) = true.
Proof.
  revert k; induction rs as [|r rs IH]; intros k; simpl; [reflexivity|].
  unfold o_lineno at 1. simpl. rewrite N.eqb_refl. simpl. apply IH.
Qed.

Lemma plain_grouping rs k : grouping_plain (map obs (plain_loop rs k)) = true.
Proof.
  unfold grouping_plain. revert k; induction rs as [|r rs IH]; intros k; simpl; [reflexivity|]. apply IH.
Qed.

Lemma plain_text rs k : text_ok false (map obs (plain_loop rs k)) = true.
Proof.
  unfold text_ok. revert k; induction rs as [|r rs IH]; intros k; simpl; [reflexivity|].
  unfold o_text at 1. simpl. rewrite orig_is_content, str_eqb_refl. apply IH.
Qed.

(* ---- the physical lines -------------------------------------------------- *)

Lemma split_after_acc_concat s : forall cur, concat (split_after_acc cur s) = cur ++ s.
Proof.
  induction s as [|c s IH]; intros cur; simpl; [rewrite !app_nil_r; reflexivity|].
  destruct (c =? nl); simpl; rewrite IH, <- app_assoc; reflexivity.
Qed.

Lemma split_after_acc_nonempty s : forall cur, split_after_acc cur s <> [].
Proof. induction s as [|c s IH]; intros cur; simpl; [discriminate|]. destruct (c =? nl); [discriminate|apply IH]. Qed.

Definition piece_nl (x : str) : bool :=
  ends_nl x && negb (nilb x) && negb (existsb is_nl (removelast x)).
Fixpoint good_pieces (l : list str) : bool :=
  match l with
  | [] => false
  | x :: rest => match rest with
                 | [] => negb (existsb is_nl x)
                 | _ :: _ => piece_nl x && good_pieces rest
                 end
  end.

Lemma split_after_acc_good s : forall cur,
  existsb is_nl cur = false -> good_pieces (split_after_acc cur s) = true.
Proof.
  induction s as [|c s IH]; intros cur Hc; simpl; [rewrite Hc; reflexivity|].
  destruct (c =? nl) eqn:E.
  - assert (N := split_after_acc_nonempty s []).
    destruct (split_after_acc [] s) as [|y rest] eqn:E2; [congruence|].
    assert (G := IH [] eq_refl). rewrite E2 in G.
    change (good_pieces ((cur ++ [c]) :: y :: rest)) with (piece_nl (cur ++ [c]) && good_pieces (y :: rest)).
    rewrite G, andb_true_r.
    unfold piece_nl, ends_nl. rewrite last_snoc, removelast_snoc, Hc.
    unfold is_nl. unfold nl in E. rewrite E. destruct cur; reflexivity.
  - apply IH. rewrite existsb_app, Hc. simpl. unfold is_nl. unfold nl in E. rewrite E. reflexivity.
Qed.

Lemma existsb_removelast {A} (f : A -> bool) l : existsb f l = false -> existsb f (removelast l) = false.
Proof.
  induction l as [|a l IH]; [reflexivity|]. simpl. intros H. apply orb_false_iff in H as [H1 H2].
  destruct l; [reflexivity|]. simpl. rewrite H1. simpl. apply IH. exact H2.
Qed.

Definition nonempty (r : str) : bool := negb (is_empty r).

Lemma good_pieces_filter l : good_pieces l = true ->
  forallb raw_ok (filter nonempty l) = true /\ all_but_last ends_nl (filter nonempty l) = true.
Proof.
  induction l as [|x rest IH]; [discriminate|]. cbn [good_pieces].
  destruct rest as [|y rest'].
  - intros H. apply negb_true_iff in H. simpl. destruct x as [|c x]; simpl; [split; reflexivity|].
    split; [|reflexivity]. rewrite andb_true_r. unfold raw_ok. cbn [nilb negb andb].
    rewrite (existsb_removelast is_nl (c :: x) H). reflexivity.
  - intros H. apply andb_true_iff in H as [Hx Hr]. destruct (IH Hr) as [I1 I2].
    unfold piece_nl in Hx. apply andb_true_iff in Hx as [Hx H3]. apply andb_true_iff in Hx as [H1 H2].
    assert (Nx : nonempty x = true) by (destruct x; [discriminate|reflexivity]).
    change (filter nonempty (x :: y :: rest'))
      with (if nonempty x then x :: filter nonempty (y :: rest') else filter nonempty (y :: rest')).
    rewrite Nx. set (F := filter nonempty (y :: rest')) in *. clearbody F. split.
    + cbn [forallb]. unfold raw_ok at 1. rewrite H2, H3, I1. reflexivity.
    + cbn [all_but_last]. destruct F; [reflexivity|]. rewrite H1, I2. reflexivity.
Qed.

Definition raw_lines_of (s : str) : list str := filter nonempty (split_after_nl s).

Lemma raw_lines_concat s : concat (raw_lines_of s) = s.
Proof.
  transitivity (concat (split_after_nl s)).
  - exact (concat_filter_nonempty (split_after_nl s)).
  - apply split_after_acc_concat.
Qed.

Lemma raw_lines_shape s :
  forallb raw_ok (raw_lines_of s) = true /\ all_but_last ends_nl (raw_lines_of s) = true.
Proof. apply good_pieces_filter, split_after_acc_good. reflexivity. Qed.

(* ---- convertToLogicalLines ----------------------------------------------- *)

Definition eof_flag (s : str) : bool := negb (is_empty s) && negb (has_suffix [nl] s).

Lemma convert_spec s mk :
  exists ls, convert_to_logical_lines s mk = Ok (ls, eof_flag s)
    /\ flat_map raws ls = raw_lines_of s
    /\ numbering_ok (map obs ls) = true
    /\ grouping_ok mk (map obs ls) = true
    /\ text_ok mk (map obs ls) = true.
Proof.
  unfold convert_to_logical_lines. cbv zeta.
  change (filter (fun r : list N => negb (is_empty r)) (split_after_nl s)) with (raw_lines_of s).
  fold (eof_flag s).
  assert (Hnil : forall ls : list line, flat_map raws ls = raw_lines_of s -> eof_flag s = true -> ls <> []).
  { intros ls Hr He ->. simpl in Hr. assert (C := raw_lines_concat s). rewrite <- Hr in C. simpl in C.
    subst s. discriminate. }
  destruct mk.
  - destruct (mk_loop_spec (raw_lines_of s) (length (raw_lines_of s)) 0 []) as [ls [H1 H2]];
      [simpl; lia|simpl; lia|].
    cbn [app N.to_nat skipn] in H1, H2. unfold str in H1 |- *. rewrite H1. exists ls.
    assert (R := grouped_raws _ _ _ H2).
    split; [|split; [exact R|split; [exact (grouped_numbering _ _ _ H2)|split;
      [exact (grouped_grouping _ _ _ H2)|exact (grouped_text _ _ _ H2)]]]].
    destruct (eof_flag s) eqn:E; [|reflexivity].
    destruct ls; [exfalso; apply (Hnil [] R eq_refl); reflexivity|reflexivity].
  - exists (plain_loop (raw_lines_of s) 0).
    assert (R := plain_raws (raw_lines_of s) 0).
    split; [|split; [exact R|split; [exact (plain_numbering _ 0)|split;
      [exact (plain_grouping _ 0)|exact (plain_text _ 0)]]]].
    destruct (eof_flag s) eqn:E; [|reflexivity].
    destruct (plain_loop (raw_lines_of s) 0) eqn:E2; [exfalso; apply (Hnil [] R eq_refl); reflexivity|reflexivity].
Qed.

Theorem convert_total s mk : exists ls, convert_to_logical_lines s mk = Ok (ls, eof_flag s).
Proof. destruct (convert_spec s mk) as [ls [H _]]. eauto. Qed.

Ltac use_convert_spec s mk H :=
  let ls' := fresh "ls" in let E := fresh "E" in
  destruct (convert_spec s mk) as [ls' [E ?]]; rewrite E in H; inversion H; subst; clear H.

Theorem raws_are_raw_lines s mk ls e :
  convert_to_logical_lines s mk = Ok (ls, e) -> flat_map raws ls = raw_lines_of s.
Proof. intros H. use_convert_spec s mk H. tauto. Qed.

Theorem raws_partition s mk ls e :
  convert_to_logical_lines s mk = Ok (ls, e) -> concat (flat_map raws ls) = s.
Proof. intros H. rewrite (raws_are_raw_lines _ _ _ _ H). apply raw_lines_concat. Qed.

Theorem partition_clause s mk ls e :
  convert_to_logical_lines s mk = Ok (ls, e) -> partition_ok s (map obs ls) = true.
Proof.
  intros H. unfold partition_ok. rewrite map_obs_raws, (raws_partition _ _ _ _ H). apply str_eqb_refl.
Qed.

Theorem raws_nonempty_nl s mk ls e :
  convert_to_logical_lines s mk = Ok (ls, e) -> raws_shape_ok (map obs ls) = true.
Proof.
  intros H. unfold raws_shape_ok. rewrite map_obs_raws, (raws_are_raw_lines _ _ _ _ H).
  destruct (raw_lines_shape s) as [-> ->]. reflexivity.
Qed.

Theorem numbering_exact s mk ls e :
  convert_to_logical_lines s mk = Ok (ls, e) -> numbering_ok (map obs ls) = true.
Proof. intros H. use_convert_spec s mk H. tauto. Qed.

Theorem grouping_exact s mk ls e :
  convert_to_logical_lines s mk = Ok (ls, e) -> grouping_ok mk (map obs ls) = true.
Proof. intros H. use_convert_spec s mk H. tauto. Qed.

Theorem text_clause s mk ls e :
  convert_to_logical_lines s mk = Ok (ls, e) -> text_ok mk (map obs ls) = true.
Proof. intros H. use_convert_spec s mk H. tauto. Qed.

Theorem eof_exact s mk ls e :
  convert_to_logical_lines s mk = Ok (ls, e) -> e = eof_flag s.
Proof. intros H. use_convert_spec s mk H. reflexivity. Qed.

Theorem model_meets_spec s mk ls e :
  convert_to_logical_lines s mk = Ok (ls, e) -> spec_holds mk s (map obs ls) = true.
Proof.
  intros H. unfold spec_holds, spec_check. cbn [forallb].
  rewrite (partition_clause _ _ _ _ H), (raws_nonempty_nl _ _ _ _ H), (numbering_exact _ _ _ _ H),
    (grouping_exact _ _ _ _ H), (text_clause _ _ _ _ H). reflexivity.
Qed.

(* ---- reading the boolean clauses ------------------------------------------ *)

Lemma numbering_from_reading k ls : numbering_from k (map obs ls) = true ->
  forall pre l post, ls = pre ++ l :: post ->
  lineno l = k + N.of_nat (length (flat_map raws pre)).
Proof.
  revert k; induction ls as [|a ls IH]; intros k H pre l post E.
  - destruct pre; discriminate.
  - simpl in H. apply andb_true_iff in H as [H1 H2]. unfold o_lineno, o_raws in H1, H2. simpl in H1, H2.
    destruct pre as [|b pre]; simpl in E; inversion E; subst.
    + simpl. apply N.eqb_eq in H1. lia.
    + simpl. rewrite app_length. rewrite (IH _ H2 pre l post eq_refl). lia.
Qed.

Theorem numbering_exact_prop s mk ls e :
  convert_to_logical_lines s mk = Ok (ls, e) ->
  forall pre l post, ls = pre ++ l :: post ->
  lineno l = 1 + N.of_nat (length (flat_map raws pre)).
Proof. intros H. apply numbering_from_reading. exact (numbering_exact _ _ _ _ H). Qed.

Lemma group_ok_reading b g : group_ok b g = true ->
  exists init lst, g = init ++ [lst] /\ Forall (fun r => continues r = true) init
                   /\ (continues lst = false \/ b = true).
Proof.
  induction g as [|r g IH]; [discriminate|]. cbn [group_ok]. destruct g as [|r' g'].
  - intros H. exists [], r. split; [reflexivity|split; [constructor|]].
    apply orb_true_iff in H as [H|H]; [left; apply negb_true_iff; exact H|right; exact H].
  - intros H. apply andb_true_iff in H as [H1 H2]. destruct (IH H2) as [init [lst [E [F O]]]].
    exists (r :: init), lst. rewrite E. split; [reflexivity|split; [constructor; assumption|exact O]].
Qed.

Lemma grouping_mk_reading ls : grouping_mk (map obs ls) = true ->
  forall pre l post, ls = pre ++ l :: post ->
  exists init lst, raws l = init ++ [lst] /\ Forall (fun r => continues r = true) init
                   /\ (continues lst = false \/ post = []).
Proof.
  induction ls as [|a ls IH]; intros H pre l post E.
  - destruct pre; discriminate.
  - cbn [map grouping_mk] in H. apply andb_true_iff in H as [H1 H2].
    destruct pre as [|b pre]; simpl in E; inversion E; subst.
    + destruct (group_ok_reading _ _ H1) as [init [lst [E1 [F O]]]]. exists init, lst.
      split; [exact E1|split; [exact F|]]. destruct O as [O|O]; [left; exact O|right].
      destruct post; [reflexivity|discriminate].
    + apply (IH H2 pre l post eq_refl).
Qed.

Theorem grouping_exact_mk s ls e :
  convert_to_logical_lines s true = Ok (ls, e) ->
  forall pre l post, ls = pre ++ l :: post ->
  exists init lst, raws l = init ++ [lst] /\ Forall (fun r => continues r = true) init
                   /\ (continues lst = false \/ post = []).
Proof. intros H. apply grouping_mk_reading. exact (grouping_exact _ _ _ _ H). Qed.

Theorem grouping_exact_plain s ls e :
  convert_to_logical_lines s false = Ok (ls, e) ->
  Forall (fun l => exists r, raws l = [r] /\ text l = content r) ls.
Proof.
  intros H. assert (G := grouping_exact _ _ _ _ H). assert (T := text_clause _ _ _ _ H).
  clear H. unfold grouping_ok, grouping_plain, text_ok in *.
  induction ls as [|l ls IH]; [constructor|].
  cbn [map forallb] in G, T. apply andb_true_iff in G as [G1 G2]. apply andb_true_iff in T as [T1 T2].
  constructor; [|apply IH; assumption].
  unfold o_raws, o_text, obs in G1, T1. simpl in G1, T1.
  destruct (raws l) as [|r [|r' rs]]; try discriminate. exists r. split; [reflexivity|].
  apply str_eqb_spec. exact T1.
Qed.

Lemma spec_text_rel rs : text_rel rs (spec_text rs).
Proof.
  exists (map (fun r => spec_parts (content r)) rs). split; [|reflexivity].
  induction rs; simpl; constructor; [apply spec_parts_ok|assumption].
Qed.

Theorem text_rel_functional rs t1 t2 : text_rel rs t1 -> text_rel rs t2 -> t1 = t2.
Proof.
  intros [p1 [F1 ->]] [p2 [F2 ->]]. f_equal.
  revert p2 F2; induction F1; intros p2 F2; inversion F2; subst; [reflexivity|].
  f_equal; [eapply decomp_ok_unique; eassumption|apply IHF1; assumption].
Qed.

Theorem text_exact_mk s ls e :
  convert_to_logical_lines s true = Ok (ls, e) ->
  Forall (fun l => text_rel (raws l) (text l)) ls.
Proof.
  intros H. assert (T := text_clause _ _ _ _ H). clear H. unfold text_ok in T.
  induction ls as [|l ls IH]; [constructor|].
  cbn [map forallb] in T. apply andb_true_iff in T as [T1 T2].
  constructor; [|apply IH; assumption].
  unfold o_raws, o_text, obs in T1. simpl in T1. apply str_eqb_spec in T1. rewrite T1.
  apply spec_text_rel.
Qed.

(* ---- writing back ----------------------------------------------------------- *)

(* a line is untouched when it has no fix, or a fix on which nothing was modified
   since line.Autofix() created it *)
Definition untouched (fl : fline) : Prop :=
  snd fl = None \/ snd fl = Some (new_autofix (fst fl)).

Lemma untouched_chlines fl : untouched fl -> chlines_of fl = raws (fst fl).
Proof.
  destruct fl as [l [fx|]]; intros [H|H]; simpl in *; try discriminate; try reflexivity.
  inversion H. subst fx. unfold chlines_of. simpl. apply app_nil_r.
Qed.

Lemma untouched_not_modified fl : untouched fl -> fix_modified fl = false.
Proof.
  destruct fl as [l [fx|]]; intros [H|H]; simpl in *; try discriminate; try reflexivity.
  inversion H. reflexivity.
Qed.

(* the view of a fixed file that spec_saved takes *)
Definition save_view (fl : fline) : obs_line * option (list str) :=
  (obs (fst fl), if fix_modified fl then Some (chlines_of fl) else None).

Definition fix_wf (fl : fline) : Prop := fix_modified fl = false -> untouched fl.

Lemma spec_saved_cons fl rest :
  spec_saved (save_view fl :: rest) =
  (if fix_modified fl then concat (chlines_of fl) else concat (raws (fst fl))) ++ spec_saved rest.
Proof. unfold save_view. cbn [spec_saved]. destruct (fix_modified fl); reflexivity. Qed.

Theorem save_is_spec_saved fls out :
  Forall fix_wf fls -> save_autofix_changes fls = Some out -> out = spec_saved (map save_view fls).
Proof.
  unfold save_autofix_changes. intros W H. destruct (existsb fix_modified fls); [|discriminate].
  inversion H; subst; clear H. induction W as [|fl fls Wf W IH]; [reflexivity|].
  cbn [flat_map map]. rewrite spec_saved_cons, concat_app, IH.
  destruct (fix_modified fl) eqn:M; [reflexivity|].
  rewrite (untouched_chlines fl (Wf M)). reflexivity.
Qed.

Theorem save_nothing_modified fls :
  Forall untouched fls -> save_autofix_changes fls = None.
Proof.
  intros U. unfold save_autofix_changes. replace (existsb fix_modified fls) with false; [reflexivity|].
  symmetry. induction U as [|fl fls H U IH]; [reflexivity|]. simpl. rewrite (untouched_not_modified _ H). exact IH.
Qed.

Lemma untouched_reproduce fls : Forall untouched fls ->
  flat_map chlines_of fls = flat_map raws (map fst fls).
Proof.
  induction 1 as [|fl fls H U IH]; [reflexivity|]. simpl. rewrite (untouched_chlines _ H), IH. reflexivity.
Qed.

(* no fix at all, or only untouched fixes: nothing is written; and what would
   be written is the input, byte for byte *)
Theorem save_untouched s mk ls e fls :
  convert_to_logical_lines s mk = Ok (ls, e) -> map fst fls = ls -> Forall untouched fls ->
  save_autofix_changes fls = None /\ concat (flat_map chlines_of fls) = s.
Proof.
  intros H E U. split; [apply save_nothing_modified; exact U|].
  rewrite (untouched_reproduce _ U), E. exact (raws_partition _ _ _ _ H).
Qed.

(* partial save: an untouched line's physical lines sit verbatim between what is
   written for the lines before and after it *)
Theorem save_partial pre fl post out :
  untouched fl -> save_autofix_changes (pre ++ fl :: post) = Some out ->
  out = concat (flat_map chlines_of pre) ++ concat (raws (fst fl)) ++ concat (flat_map chlines_of post).
Proof.
  unfold save_autofix_changes. intros U H. destruct (existsb _ _); [|discriminate].
  inversion H; subst; clear H. rewrite flat_map_app. cbn [flat_map].
  rewrite !concat_app, (untouched_chlines _ U). reflexivity.
Qed.
