(* reachable() computes graph reachability from state 0 and never runs out of
   fuel; CanMatch is true exactly when some byte string is accepted. *)
From PV Require Import Lib.Bytes Lib.ByteRange Gen.NumberAutomaton Model.Makepat
  Proofs.MakepatBasics Proofs.MakepatNFA.
From Coq Require Import ZifyBool ZifyN ZifyNat.
Open Scope N_scope.

(* ---------- paths in the transition graph (byte ranges ignored, as in the Go code) ---------- *)

Inductive path (a : pattern) : N -> N -> Prop :=
| path_refl q : path a q q
| path_step q st t q' : nth_n a q = Some st -> In t (trans st) -> path a (tto t) q' -> path a q q'.

Lemma path_snoc a q q1 st t : path a q q1 -> nth_n a q1 = Some st -> In t (trans st) -> path a q (tto t).
Proof.
  induction 1 as [q|q st0 t0 q' N0 I0 P IH]; intros N1 I1.
  - eapply path_step; [exact N1|exact I1|apply path_refl].
  - eapply path_step; [exact N0|exact I0|]. apply IH; assumption.
Qed.

(* ---------- counting the states that are done ---------- *)

Definition dn (p : progress_state) : nat := match p with Done => 1 | _ => 0 end.
Fixpoint ndone (l : list progress_state) : nat :=
  match l with [] => 0 | p :: t => dn p + ndone t end.

Lemma ndone_le l : (ndone l <= length l)%nat.
Proof. induction l as [|p l IH]; cbn [ndone length]; [lia|]. destruct p; cbn [dn]; lia. Qed.

Lemma ndone_upd l : forall i v l' old, upd_n l i (fun _ => v) = Some l' -> nth_n l i = Some old ->
  (ndone l' + dn old = ndone l + dn v)%nat.
Proof.
  induction l as [|p l IH]; intros i v l' old H N; [discriminate|].
  rewrite upd_n_cons in H. rewrite nth_n_cons in N. destruct (i =? 0).
  - injection H as <-. injection N as <-. cbn [ndone]. lia.
  - destruct (upd_n l (N.pred i) (fun _ => v)) as [t'|] eqn:E; [|discriminate]. injection H as <-.
    cbn [ndone]. specialize (IH _ _ _ _ E N). lia.
Qed.

(* ---------- marking the targets ---------- *)

Definition pg (pr : list progress_state) (i : N) : option progress_state := nth_n pr i.

Lemma mark_targets_spec ts : forall pr, (forall t, In t ts -> tto t < nlen pr) ->
  exists pr', mark_targets ts pr = Some pr' /\ nlen pr' = nlen pr /\ ndone pr' = ndone pr /\
    (forall j, pg pr j <> Some Unseen -> pg pr' j = pg pr j) /\
    (forall j, pg pr j = Some Unseen ->
               pg pr' j = if existsb (fun t => tto t =? j) ts then Some Todo else Some Unseen).
Proof.
  induction ts as [|t ts IH]; intros pr Ht; cbn [mark_targets].
  - exists pr. split; [reflexivity|]. split; [reflexivity|]. split; [reflexivity|]. split; [auto|].
    intros j H. cbn. exact H.
  - assert (L : tto t < nlen pr) by (apply Ht; left; reflexivity).
    destruct (nth_n_lt pr (tto t) L) as [p Np]. rewrite Np.
    assert (Ht' : forall pr1 : list progress_state, nlen pr1 = nlen pr -> forall t', In t' ts -> tto t' < nlen pr1).
    { intros pr1 E t' I. rewrite E. apply Ht. right; exact I. }
    destruct p.
    + (* unseen: becomes todo *)
      destruct (upd_n_lt pr (tto t) (fun _ => Todo) L) as [pr1 E1]. rewrite E1.
      pose proof (ndone_upd _ _ _ _ _ E1 Np) as D1. cbn [dn] in D1.
      apply upd_n_some in E1 as (_ & L1 & N1).
      destruct (IH pr1 (Ht' pr1 L1)) as (pr' & E' & L' & D' & K1 & K2).
      exists pr'. split; [exact E'|]. split; [lia|]. split; [lia|]. unfold pg in *. split.
      * intros j Hj. rewrite K1.
        -- rewrite N1. destruct (N.eqb_spec j (tto t)) as [->|]; [congruence|reflexivity].
        -- rewrite N1. destruct (N.eqb_spec j (tto t)) as [->|]; [rewrite Np; discriminate|exact Hj].
      * intros j Hj. cbn [existsb]. destruct (N.eqb_spec (tto t) j) as [<-|Hne].
        -- cbn [orb]. rewrite K1; rewrite N1, N.eqb_refl, Np; [reflexivity|discriminate].
        -- cbn [orb]. apply K2. rewrite N1. destruct (N.eqb_spec j (tto t)); [congruence|exact Hj].
    + destruct (IH pr (Ht' pr eq_refl)) as (pr' & E' & L' & D' & K1 & K2).
      exists pr'. split; [exact E'|]. split; [exact L'|]. split; [exact D'|]. split; [exact K1|].
      intros j Hj. cbn [existsb]. destruct (N.eqb_spec (tto t) j) as [<-|Hne].
      * unfold pg in Hj. congruence.
      * cbn [orb]. apply K2. exact Hj.
    + destruct (IH pr (Ht' pr eq_refl)) as (pr' & E' & L' & D' & K1 & K2).
      exists pr'. split; [exact E'|]. split; [exact L'|]. split; [exact D'|]. split; [exact K1|].
      intros j Hj. cbn [existsb]. destruct (N.eqb_spec (tto t) j) as [<-|Hne].
      * unfold pg in Hj. congruence.
      * cbn [orb]. apply K2. exact Hj.
Qed.

(* ---------- the invariant of the fixpoint loop ---------- *)

Record inv (a : pattern) (pr : list progress_state) (rc : list bool) : Prop := {
  inv_lp : nlen pr = nlen a;
  inv_lr : nlen rc = nlen a;
  inv_rc : forall i, on rc i <-> pg pr i = Some Done;
  inv_sound : forall i, pg pr i = Some Todo \/ pg pr i = Some Done -> path a 0 i;
  inv_closed : forall i st t, pg pr i = Some Done -> nth_n a i = Some st -> In t (trans st) ->
                              pg pr (tto t) <> Some Unseen;
  inv_start : pg pr 0 <> Some Unseen
}.

Lemma existsb_target ts j : existsb (fun t => tto t =? j) ts = true <-> exists t, In t ts /\ tto t = j.
Proof.
  rewrite existsb_exists. split; intros (t & I & E); exists t; (split; [exact I|]).
  - apply N.eqb_eq; exact E.
  - apply N.eqb_eq; exact E.
Qed.

(* one pass over the states from index (nlen pre) on *)
Lemma reach_pass_spec a : targets_ok (nlen a) a -> forall sts pre pr rc again,
  a = pre ++ sts -> inv a pr rc ->
  exists pr' rc' again', reach_pass sts (nlen pre) pr rc again = Some (pr', rc', again')
    /\ inv a pr' rc' /\ (ndone pr <= ndone pr')%nat
    /\ (again = true -> again' = true)
    /\ (again = false -> again' = true -> (ndone pr < ndone pr')%nat)
    /\ (again' = false -> pr' = pr /\ rc' = rc /\ forall j, nlen pre <= j -> pg pr j <> Some Todo).
Proof.
  intros Hwf. induction sts as [|st sts IH]; intros pre pr rc again Ea I.
  - cbn [reach_pass]. exists pr, rc, again. split; [reflexivity|]. split; [exact I|]. split; [lia|].
    split; [auto|]. split; [intros -> C; discriminate|]. intros ->. split; [reflexivity|]. split; [reflexivity|].
    intros j Hj. rewrite app_nil_r in Ea. subst pre. unfold pg. rewrite nth_n_ge by (rewrite (inv_lp _ _ _ I); exact Hj).
    discriminate.
  - cbn [reach_pass].
    assert (Li : nlen pre < nlen a) by (rewrite Ea, nlen_app, nlen_cons; lia).
    assert (Na : nth_n a (nlen pre) = Some st).
    { rewrite Ea. rewrite nth_n_app_r by lia. rewrite N.sub_diag. reflexivity. }
    assert (Ea' : a = (pre ++ [st]) ++ sts) by (rewrite <- app_assoc; exact Ea).
    assert (Ln : nlen (pre ++ [st]) = N.succ (nlen pre)) by (rewrite nlen_app; cbn [nlen]; lia).
    destruct (nth_n_lt pr (nlen pre)) as [p Np]; [rewrite (inv_lp _ _ _ I); exact Li|]. rewrite Np.
    assert (Skip : p <> Todo ->
      exists pr' rc' again', reach_pass sts (N.succ (nlen pre)) pr rc again = Some (pr', rc', again')
        /\ inv a pr' rc' /\ (ndone pr <= ndone pr')%nat /\ (again = true -> again' = true)
        /\ (again = false -> again' = true -> (ndone pr < ndone pr')%nat)
        /\ (again' = false -> pr' = pr /\ rc' = rc /\ forall j, nlen pre <= j -> pg pr j <> Some Todo)).
    { intro Hp. destruct (IH (pre ++ [st]) pr rc again Ea' I) as (pr' & rc' & again' & E & I' & D & A1 & A2 & A3).
      rewrite Ln in E. exists pr', rc', again'. split; [exact E|]. split; [exact I'|]. split; [exact D|].
      split; [exact A1|]. split; [exact A2|]. intro Ha. destruct (A3 Ha) as (-> & -> & A).
      split; [reflexivity|]. split; [reflexivity|]. intros j Hj.
      destruct (N.eq_dec j (nlen pre)) as [->|Hne].
      - unfold pg. rewrite Np. congruence.
      - apply A. rewrite Ln. lia. }
    destruct p; [apply Skip; discriminate| |apply Skip; discriminate].
    (* state (nlen pre) is todo: handle it *)
    destruct (upd_n_lt rc (nlen pre) (fun _ => true)) as [rc1 Erc]; [rewrite (inv_lr _ _ _ I); exact Li|].
    destruct (upd_n_lt pr (nlen pre) (fun _ => Done)) as [pr1 Epr]; [rewrite (inv_lp _ _ _ I); exact Li|].
    unfold set_true at 1. rewrite Erc, Epr.
    pose proof (ndone_upd _ _ _ _ _ Epr Np) as D1. cbn [dn] in D1.
    destruct (set_true_spec _ _ _ Erc) as (Lrc1 & Orc1).
    apply upd_n_some in Epr as (_ & Lpr1 & Npr1).
    destruct (mark_targets_spec (trans st) pr1) as (pr2 & E2 & L2 & D2 & K1 & K2).
    { intros t It. rewrite Lpr1, (inv_lp _ _ _ I). apply (Hwf st); [rewrite Ea; apply in_or_app; right; left; reflexivity|exact It]. }
    rewrite E2.
    assert (P1 : forall j, pg pr1 j = if j =? nlen pre then Some Done else pg pr j).
    { intro j. unfold pg. rewrite Npr1. destruct (N.eqb_spec j (nlen pre)) as [->|]; [rewrite Np|]; reflexivity. }
    assert (I2 : inv a pr2 rc1).
    { constructor.
      - rewrite L2, Lpr1. exact (inv_lp _ _ _ I).
      - rewrite Lrc1. exact (inv_lr _ _ _ I).
      - intro i. rewrite Orc1, (inv_rc _ _ _ I). split.
        + intros [H| ->].
          * rewrite K1; rewrite P1; destruct (N.eqb_spec i (nlen pre)); try reflexivity; try exact H; try discriminate.
            rewrite H. discriminate.
          * rewrite K1; rewrite P1, N.eqb_refl; [reflexivity|discriminate].
        + intro H. destruct (N.eq_dec i (nlen pre)) as [->|Hne]; [right; reflexivity|left].
          destruct (pg pr1 i) as [[]|] eqn:E1.
          * rewrite (K2 i E1) in H. destruct (existsb _ _); discriminate.
          * rewrite K1 in H by (rewrite E1; discriminate). congruence.
          * rewrite P1 in E1. destruct (N.eqb_spec i (nlen pre)); [contradiction|exact E1].
          * rewrite K1 in H by (rewrite E1; discriminate). congruence.
      - intros i H.
        destruct (pg pr1 i) as [[]|] eqn:E1.
        + (* was unseen, now todo: a target of st *)
          rewrite (K2 i E1) in H. destruct (existsb (fun t => tto t =? i) (trans st)) eqn:Ex.
          * apply existsb_target in Ex as (t & It & <-).
            eapply path_snoc; [|exact Na|exact It]. apply (inv_sound _ _ _ I). left. unfold pg. exact Np.
          * destruct H; discriminate.
        + rewrite P1 in E1. destruct (N.eqb_spec i (nlen pre)); [discriminate|].
          apply (inv_sound _ _ _ I). left. exact E1.
        + rewrite P1 in E1. destruct (N.eqb_spec i (nlen pre)) as [->|].
          * apply (inv_sound _ _ _ I). left. exact Np.
          * apply (inv_sound _ _ _ I). right. exact E1.
        + rewrite K1 in H by (rewrite E1; discriminate). rewrite E1 in H. destruct H; discriminate.
      - intros i st' t Hd Ni It.
        assert (Hd1 : pg pr1 i = Some Done).
        { destruct (pg pr1 i) as [[]|] eqn:E1; try (rewrite K1 in Hd by (rewrite E1; discriminate); congruence).
          rewrite (K2 i E1) in Hd. destruct (existsb _ _); discriminate. }
        assert (G : pg pr1 (tto t) <> Some Unseen \/ (i = nlen pre /\ st' = st)).
        { rewrite P1 in Hd1. destruct (N.eqb_spec i (nlen pre)) as [->|Hne].
          - right. split; [reflexivity|congruence].
          - left. rewrite P1. destruct (N.eqb_spec (tto t) (nlen pre)); [discriminate|].
            exact (inv_closed _ _ _ I i st' t Hd1 Ni It). }
        destruct (pg pr1 (tto t)) as [[]|] eqn:E1.
        * rewrite (K2 _ E1). destruct G as [G|[-> ->]]; [congruence|].
          assert (Ex : existsb (fun t0 => tto t0 =? tto t) (trans st) = true).
          { apply existsb_target. exists t. auto. }
          rewrite Ex. discriminate.
        * rewrite K1 by (rewrite E1; discriminate). rewrite E1. discriminate.
        * rewrite K1 by (rewrite E1; discriminate). rewrite E1. discriminate.
        * rewrite K1 by (rewrite E1; discriminate). rewrite E1. discriminate.
      - destruct (pg pr1 0) as [[]|] eqn:E1.
        + exfalso. rewrite P1 in E1. destruct (N.eqb_spec 0 (nlen pre)); [discriminate|].
          exact (inv_start _ _ _ I E1).
        + rewrite K1 by (rewrite E1; discriminate). rewrite E1. discriminate.
        + rewrite K1 by (rewrite E1; discriminate). rewrite E1. discriminate.
        + rewrite K1 by (rewrite E1; discriminate). rewrite E1. discriminate. }
    destruct (IH (pre ++ [st]) pr2 rc1 true Ea' I2) as (pr' & rc' & again' & E & I' & D & A1 & A2 & A3).
    rewrite Ln in E. exists pr', rc', again'. split; [exact E|]. split; [exact I'|]. split; [lia|].
    split; [intros _; apply A1; reflexivity|]. split; [intros _ _; lia|].
    intro Ha. rewrite (A1 eq_refl) in Ha. discriminate.
Qed.

(* ---------- the loop ---------- *)

Definition reach_ok (a : pattern) (rc : list bool) : Prop :=
  nlen rc = nlen a /\ forall i, on rc i <-> (i < nlen a /\ path a 0 i).

Lemma path_lt a : targets_ok (nlen a) a -> forall q q', path a q q' -> q < nlen a -> q' < nlen a.
Proof.
  intros Hwf q q' P. induction P as [q|q st t q' N0 I0 P IH]; intro H; [exact H|].
  apply IH. apply (Hwf st); [|exact I0].
  clear - N0. revert q N0. induction a as [|x a IHa]; intros q N0; [discriminate|].
  rewrite nth_n_cons in N0. destruct (q =? 0); [injection N0 as ->; left; reflexivity|right; eapply IHa; exact N0].
Qed.

Lemma reach_loop_spec a : targets_ok (nlen a) a -> 0 < nlen a -> forall fuel pr rc,
  inv a pr rc -> (length a < fuel + ndone pr)%nat ->
  exists rc', reach_loop fuel a pr rc = Ok rc' /\ reach_ok a rc'.
Proof.
  intros Hwf Hne. induction fuel as [|f IH]; intros pr rc I Hf.
  - pose proof (ndone_le pr). pose proof (inv_lp _ _ _ I) as L. rewrite !nlen_length in L. lia.
  - cbn [reach_loop].
    destruct (reach_pass_spec a Hwf a [] pr rc false eq_refl I) as (pr' & rc' & again' & E & I' & D & _ & A2 & A3).
    cbn [nlen] in E. rewrite E. destruct again'.
    + apply IH; [exact I'|]. specialize (A2 eq_refl eq_refl). lia.
    + destruct (A3 eq_refl) as (-> & -> & Hno). exists rc. split; [reflexivity|].
      split; [exact (inv_lr _ _ _ I)|]. intro i.
      assert (Dn : forall j, j < nlen a -> pg pr j <> Some Unseen -> pg pr j = Some Done).
      { intros j Hj Hu. destruct (nth_n_lt pr j) as [p Np]; [rewrite (inv_lp _ _ _ I); exact Hj|].
        unfold pg in *. rewrite Np in *. destruct p; [congruence| |reflexivity].
        exfalso. apply (Hno j); [cbn [nlen]; lia|exact Np]. }
      rewrite (inv_rc _ _ _ I). split.
      * intro Hd. split.
        -- unfold pg in Hd. apply nth_n_some_lt in Hd. rewrite (inv_lp _ _ _ I) in Hd. exact Hd.
        -- apply (inv_sound _ _ _ I). right. exact Hd.
      * intros [Hi P].
        assert (G : forall q q', path a q q' -> q < nlen a -> pg pr q = Some Done -> pg pr q' = Some Done).
        { intros q q' P0. induction P0 as [q|q st t q' N0 I0 P0 IHp]; intros Hq Hd; [exact Hd|].
          assert (Lt : tto t < nlen a).
          { apply (path_lt a Hwf q (tto t)); [|exact Hq]. eapply path_step; [exact N0|exact I0|apply path_refl]. }
          apply IHp; [exact Lt|]. apply Dn; [exact Lt|]. exact (inv_closed _ _ _ I q st t Hd N0 I0). }
        apply (G 0 i P Hne). apply Dn; [exact Hne|exact (inv_start _ _ _ I)].
Qed.

Lemma zeros_pg {A} (l : list A) j p : pg (zeros_like Unseen l) j = Some p -> p = Unseen.
Proof.
  unfold pg, zeros_like. revert j; induction l as [|x l IH]; intros j H; [discriminate|].
  cbn [map] in H. rewrite nth_n_cons in H. destruct (j =? 0); [congruence|eauto].
Qed.

Lemma zeros_ndone {A} (l : list A) : ndone (zeros_like Unseen l) = O.
Proof. unfold zeros_like. induction l; cbn [map ndone dn]; auto. Qed.

(* reachable never panics on a well-formed pattern and never runs out of fuel *)
Theorem reachable_total a : wf a -> exists rc, reachable a = Ok rc /\ reach_ok a rc.
Proof.
  intros [Hne Hwf]. unfold reachable.
  assert (L0 : 0 < nlen a) by (destruct a; [contradiction|rewrite nlen_cons; lia]).
  destruct (upd_n_lt (zeros_like Unseen a) 0 (fun _ => Todo)) as [pr0 E0]; [rewrite zeros_like_nlen; exact L0|].
  rewrite E0.
  pose proof (ndone_upd _ _ _ _ Unseen E0) as D0.
  destruct (nth_n_lt (zeros_like Unseen a) 0) as [p0 Np0]; [rewrite zeros_like_nlen; exact L0|].
  pose proof (zeros_pg a 0 p0 Np0) as ->. specialize (D0 Np0). cbn [dn] in D0. rewrite zeros_ndone in D0.
  apply upd_n_some in E0 as (_ & Lp & Nn).
  apply reach_loop_spec; [exact Hwf|exact L0| |rewrite nlen_length in *; lia].
  assert (P0 : forall j, pg pr0 j = if j =? 0 then Some Todo else pg (zeros_like Unseen a) j).
  { intro j. unfold pg. rewrite Nn. destruct (N.eqb_spec j 0) as [->|]; [rewrite Np0|]; reflexivity. }
  constructor.
  - rewrite Lp. apply zeros_like_nlen.
  - apply zeros_like_nlen.
  - intro i. split.
    + intro H. destruct (on_zeros _ _ H).
    + rewrite P0. destruct (i =? 0); [discriminate|]. intro H. apply zeros_pg in H. discriminate.
  - intros i H. destruct (N.eq_dec i 0) as [E|E]; [rewrite E; apply path_refl|].
    exfalso. rewrite P0 in H. destruct (N.eqb_spec i 0); [contradiction|].
    destruct H as [H|H]; apply zeros_pg in H; discriminate.
  - intros i st t H. rewrite P0 in H. destruct (i =? 0); [discriminate|]. apply zeros_pg in H. discriminate.
  - rewrite P0. cbn. discriminate.
Qed.

(* ---------- CanMatch ---------- *)

(* every transition is a non-empty range of bytes *)
Definition ranges_ok (a : pattern) : Prop :=
  forall st, In st a -> forall t, In t (trans st) -> tmin t <= tmax t /\ tmax t < 256.

Lemma nth_n_In {A} (l : list A) i x : nth_n l i = Some x -> In x l.
Proof.
  revert i; induction l as [|y l IH]; intros i H; [discriminate|].
  rewrite nth_n_cons in H. destruct (i =? 0); [injection H as ->; left; reflexivity|right; eauto].
Qed.

Lemma accepts_path a : forall s q, accepts a q s = true ->
  exists q' st, path a q q' /\ nth_n a q' = Some st /\ fin st = true.
Proof.
  induction s as [|c s IH]; intros q H.
  - rewrite accepts_nil in H. destruct (nth_n a q) as [st|] eqn:N0; [|discriminate].
    exists q, st. split; [apply path_refl|auto].
  - rewrite accepts_cons in H. destruct (nth_n a q) as [st|] eqn:N0; [|discriminate].
    apply existsb_exists in H as (t & It & H). apply andb_true_iff in H as [_ H].
    destruct (IH _ H) as (q' & st' & P & N1 & F). exists q', st'. split; [|auto].
    eapply path_step; [exact N0|exact It|exact P].
Qed.

Lemma path_accepts a : ranges_ok a -> forall q q', path a q q' ->
  forall st, nth_n a q' = Some st -> fin st = true -> exists s, is_bytes s /\ accepts a q s = true.
Proof.
  intros Hr q q' P. induction P as [q|q st0 t q' N0 I0 P IH]; intros st N1 F.
  - exists []. split; [constructor|]. rewrite accepts_nil, N1. exact F.
  - destruct (IH st N1 F) as (s & Hs & A).
    destruct (Hr st0 (nth_n_In _ _ _ N0) t I0) as [R1 R2].
    exists (tmin t :: s). split; [constructor; [lia|exact Hs]|].
    rewrite accepts_cons, N0. apply existsb_exists. exists t. split; [exact I0|].
    rewrite A, andb_true_r. unfold fires. lia.
Qed.

Theorem can_match_exact a : wf a -> ranges_ok a ->
  exists b, can_match a = Ok b /\
            (b = true <-> exists s, is_bytes s /\ matchp a s = Ok true).
Proof.
  intros Hwf Hr. destruct (reachable_total a Hwf) as (rc & E & Lr & Hrc).
  unfold can_match. destruct a as [|st0 a'] eqn:Ea; [destruct Hwf as [C _]; contradiction|]. rewrite <- Ea in *.
  rewrite E. exists (any_end a rc). split; [reflexivity|]. rewrite any_end_spec. split.
  - intros (i & st & N0 & O & F). apply Hrc in O as [_ P].
    destruct (path_accepts a Hr 0 i P st N0 F) as (s & Hs & A).
    exists s. split; [exact Hs|]. rewrite matchp_accepts by exact Hwf. rewrite A. reflexivity.
  - intros (s & Hs & M). rewrite matchp_accepts in M by exact Hwf. injection M as A.
    destruct (accepts_path a s 0 A) as (q' & st & P & N1 & F).
    exists q', st. split; [exact N1|]. split; [|exact F]. apply Hrc. split; [|exact P].
    apply nth_n_some_lt in N1. exact N1.
Qed.
