(* Lemmas about the specification Spec/ApplyLog.v alone. *)
From PV Require Import Lib.Bytes Spec.ApplyLog.
From Coq Require Import Lia.
Open Scope N_scope.

(* applying every entry, in order, with some choice of the occurrence *)
Inductive reach : list block -> list entry -> list block -> Prop :=
| reach_nil st : reach st [] st
| reach_cons st e st1 log st2 :
    In st1 (act_entry e st) -> reach st1 log st2 -> reach st (e :: log) st2.

Lemma reach_app a l1 b l2 c : reach a l1 b -> reach b l2 c -> reach a (l1 ++ l2) c.
Proof.
  induction 1 as [|st e st1 log st2 Hin _ IH]; intro H2; simpl; [exact H2|].
  econstructor; [exact Hin|]. apply IH; exact H2.
Qed.

Lemma reach_one st e st' : In st' (act_entry e st) -> reach st [e] st'.
Proof. intro H. econstructor; [exact H|constructor]. Qed.

Lemma reach_run_log st log st' : reach st log st' -> forall seen, In st' (run_log seen log st).
Proof.
  induction 1 as [st|st e st1 log st2 Hin _ IH]; intro seen; simpl; [left; reflexivity|].
  assert (Happ : In st2 (flat_map (run_log (e :: seen) log) (act_entry e st))).
  { apply in_flat_map. exists st1. split; [exact Hin|apply IH]. }
  destruct (existsb (entry_eqb e) seen); [apply in_or_app; left|]; exact Happ.
Qed.

Lemma replace_each_unfold from to s :
  replace_each from to s =
  (match strip_prefix from s with Some r => [to ++ r] | None => [] end)
  ++ match s with [] => [] | c :: s' => map (cons c) (replace_each from to s') end.
Proof. destruct s; reflexivity. Qed.

Lemma replace_each_in from to x y : In (x ++ to ++ y) (replace_each from to (x ++ from ++ y)).
Proof.
  induction x as [|c x IH].
  - rewrite replace_each_unfold. change ([] ++ from ++ y) with (from ++ y). change ([] ++ to ++ y) with (to ++ y).
    assert (Hs : strip_prefix from (from ++ y) = Some y) by (apply strip_prefix_some; reflexivity).
    rewrite Hs. apply in_or_app. left. left. reflexivity.
  - rewrite replace_each_unfold. apply in_or_app. right. simpl. apply in_map. exact IH.
Qed.

(* at_index on a list that is embedded between a prefix and a suffix *)
Lemma at_index_app_pre {A} (pre : list A) n f l :
  at_index (length pre + n) f (pre ++ l) = map (app pre) (at_index n f l).
Proof.
  induction pre as [|x pre IH]; simpl.
  - rewrite map_id. reflexivity.
  - rewrite IH, map_map. reflexivity.
Qed.

Lemma at_index_app_post {A} n f (l post : list A) :
  (n < length l)%nat -> at_index n f (l ++ post) = map (fun l' => l' ++ post) (at_index n f l).
Proof.
  revert n; induction l as [|x l IH]; intros n Hn; simpl in *; [lia|].
  destruct n as [|n]; simpl.
  - rewrite map_map. reflexivity.
  - rewrite IH by lia. rewrite !map_map. reflexivity.
Qed.

Fixpoint upd_nth {A} (n : nat) (x : A) (l : list A) : list A :=
  match l, n with
  | [], _ => []
  | _ :: l', O => x :: l'
  | y :: l', S n' => y :: upd_nth n' x l'
  end.

Lemma at_index_upd {A} n f (l : list A) x y :
  nth_error l n = Some x -> In y (f x) -> In (upd_nth n y l) (at_index n f l).
Proof.
  revert n; induction l as [|z l IH]; intros [|n] Hn Hy; simpl in *; try discriminate.
  - inversion Hn; subst. apply in_map with (f := fun y => y :: l). exact Hy.
  - apply in_map. apply IH; assumption.
Qed.

Lemma at_index_embedded {A} (pre post l : list A) n f x y :
  nth_error l n = Some x -> In y (f x) ->
  In (pre ++ upd_nth n y l ++ post) (at_index (length pre + n) f (pre ++ l ++ post)).
Proof.
  intros Hn Hy. rewrite at_index_app_pre. apply in_map.
  assert (n < length l)%nat by (apply nth_error_Some; congruence).
  rewrite at_index_app_post by assumption.
  apply in_map with (f := fun l' => l' ++ post). apply at_index_upd with (x := x); assumption.
Qed.

Lemma phys_lines_concat s : concat (phys_lines s) = s.
Proof.
  induction s as [|c s IH]; simpl; [reflexivity|].
  destruct (N.eqb_spec c 10).
  - simpl. rewrite IH. reflexivity.
  - destruct (phys_lines s) as [|l ls] eqn:E; simpl in *.
    + subst s. reflexivity.
    + rewrite <- IH. reflexivity.
Qed.

(* ---------- from whole-file states to the line-by-line definition ---------- *)

(* one block, stepping through the entries of its line *)
Inductive breach : block -> list entry -> block -> Prop :=
| breach_nil b : breach b [] b
| breach_cons b e b1 log b2 : In b1 (act_block (snd e) b) -> breach b1 log b2 -> breach b (e :: log) b2.

Lemma breach_run_block b log b' : breach b log b' -> forall seen, In b' (run_block seen log b).
Proof.
  induction 1 as [b|b e b1 log b2 Hin _ IH]; intro seen; simpl; [left; reflexivity|].
  assert (Happ : In b2 (flat_map (run_block (e :: seen) log) (act_block (snd e) b))).
  { apply in_flat_map. exists b1. split; [exact Hin|apply IH]. }
  destruct (existsb (entry_eqb e) seen); [apply in_or_app; left|]; exact Happ.
Qed.

Lemma at_index_inv {A} n f (l l1 : list A) :
  In l1 (at_index n f l) -> exists x y, nth_error l n = Some x /\ In y (f x) /\ l1 = upd_nth n y l.
Proof.
  revert n l1; induction l as [|z l IH]; intros [|n] l1 H; simpl in *; try contradiction.
  - apply in_map_iff in H as (y & <- & Hy). exists z, y. auto.
  - apply in_map_iff in H as (l' & <- & Hl'). destruct (IH _ _ Hl') as (x & y & Hn & Hy & ->).
    exists x, y. auto.
Qed.

Lemma nth_error_upd_nth {A} n m (y : A) l :
  nth_error (upd_nth n y l) m = if Nat.eqb n m then (match nth_error l m with Some _ => Some y | None => None end) else nth_error l m.
Proof.
  revert n m; induction l as [|z l IH]; intros [|n] [|m]; simpl; try reflexivity.
  - destruct (Nat.eqb n m); reflexivity.
  - apply IH.
Qed.

Lemma line_log_cons_other k e log :
  (needs_line (snd e) && (fst e =? k)) = false -> line_log k (e :: log) = line_log k log.
Proof. intro H. unfold line_log. cbn [filter]. rewrite H. reflexivity. Qed.

Lemma line_log_cons_same k e log :
  (needs_line (snd e) && (fst e =? k)) = true -> line_log k (e :: log) = e :: line_log k log.
Proof. intro H. unfold line_log. cbn [filter]. rewrite H. reflexivity. Qed.

(* the projection of a whole-file run onto one line, and the range of the line numbers *)
Lemma reach_project st log st' : reach st log st' ->
  length st' = length st /\
  forallb (entry_in_range (length st)) log = true /\
  forall i b b', nth_error st i = Some b -> nth_error st' i = Some b' ->
                 breach b (line_log (N.of_nat i + 1) log) b'.
Proof.
  induction 1 as [st|st e st1 log st2 Hin _ IH].
  - repeat split. intros i b b' H1 H2. rewrite H1 in H2. inversion H2; subst. constructor.
  - destruct IH as (L & R & P). unfold act_entry in Hin.
    destruct (needs_line (snd e)) eqn:NL.
    + destruct (fst e) as [|p] eqn:Ek; [contradiction|].
      apply at_index_inv in Hin as (x & y & Hn & Hy & ->).
      assert (Hlt : (N.to_nat (N.pos p - 1) < length st)%nat) by (apply nth_error_Some; congruence).
      assert (Hl1 : length (upd_nth (N.to_nat (N.pos p - 1)) y st) = length st).
      { clear. generalize (N.to_nat (N.pos p - 1)) as n. induction st as [|z st IHs]; intros [|n]; simpl; auto. }
      rewrite Hl1 in *. repeat split; [exact L| |].
      * cbn [forallb]. rewrite R, andb_true_r. unfold entry_in_range. rewrite NL, Ek. cbn [negb orb].
        apply andb_true_iff. split; [apply N.leb_le; lia|apply N.leb_le; lia].
      * intros i b b' H1 H2. destruct (Nat.eq_dec (N.to_nat (N.pos p - 1)) i) as [Ei|Ni].
        -- subst i. rewrite Hn in H1. inversion H1; subst x.
           rewrite line_log_cons_same by (rewrite NL, Ek; apply andb_true_iff; split; [reflexivity|apply N.eqb_eq; lia]).
           econstructor; [exact Hy|]. apply (P (N.to_nat (N.pos p - 1))); [|exact H2].
           rewrite nth_error_upd_nth, Nat.eqb_refl, Hn. reflexivity.
        -- rewrite line_log_cons_other by (rewrite NL, Ek; apply andb_false_iff; right; apply N.eqb_neq; lia).
           apply (P i); [|exact H2]. rewrite nth_error_upd_nth.
           destruct (Nat.eqb_spec (N.to_nat (N.pos p - 1)) i); [contradiction|exact H1].
    + destruct Hin as [<-|[]]. repeat split; [exact L| |].
      * cbn [forallb]. rewrite R, andb_true_r. unfold entry_in_range. rewrite NL. reflexivity.
      * intros i b b' H1 H2. rewrite line_log_cons_other by (rewrite NL; reflexivity). apply (P i); assumption.
Qed.

Lemma match_lines_complete cands st :
  Forall2 (fun cs b => In (flat_block b) cs) cands st -> match_lines cands (flat_blocks st) = true.
Proof.
  induction 1 as [|cs b cands st Hin _ IH]; [reflexivity|].
  cbn [match_lines]. apply existsb_exists. exists (flat_block b). split; [exact Hin|].
  unfold flat_blocks. cbn [map concat].
  assert (Hs : strip_prefix (flat_block b) (flat_block b ++ concat (map flat_block st)) = Some (concat (map flat_block st)))
    by (apply strip_prefix_some; reflexivity).
  rewrite Hs. exact IH.
Qed.

Lemma line_cands_reach log : forall lines k st,
  (forall i b b', nth_error (map (fun l => Block [] l []) lines) i = Some b -> nth_error st i = Some b' ->
                  breach b (line_log (k + N.of_nat i) log) b') ->
  length st = length lines ->
  Forall2 (fun cs b => In (flat_block b) cs) (line_cands k log lines) st.
Proof.
  induction lines as [|l lines IH]; intros k st P L; destruct st as [|b st]; try discriminate; [constructor|].
  cbn [line_cands]. constructor.
  - apply in_map. apply breach_run_block. specialize (P O (Block [] l []) b eq_refl eq_refl).
    rewrite N.add_0_r in P. exact P.
  - apply IH; [|simpl in L; lia]. intros i b0 b' H1 H2.
    specialize (P (S i) b0 b' H1 H2). replace (k + 1 + N.of_nat i) with (k + N.of_nat (S i)) by lia. exact P.
Qed.

(* a state that is reachable by applying every entry is accepted by the line-by-line definition *)
Theorem reach_consistent old log st :
  reach (init_blocks old) log st -> has_sort log = false ->
  consistent old log (flat_blocks st) = true.
Proof.
  intros R Hs. apply reach_project in R as (L & Rg & P).
  unfold init_blocks in *. rewrite map_length in *.
  unfold consistent. rewrite Rg, Hs. cbn [andb]. apply match_lines_complete.
  apply line_cands_reach; [|exact L].
  intros i b b' H1 H2. replace (1 + N.of_nat i) with (N.of_nat i + 1) by lia. apply (P i); assumption.
Qed.

(* ---------- the sorted case: any permutation of terminated blocks is accepted ---------- *)
From Coq Require Import Permutation.

Fixpoint remove_nth {A} (n : nat) (l : list A) : list A :=
  match l, n with
  | [], _ => []
  | _ :: l', O => l'
  | x :: l', S n' => x :: remove_nth n' l'
  end.

Lemma pick_each_nth {A} (l : list A) i x : nth_error l i = Some x -> In (x, remove_nth i l) (pick_each l).
Proof.
  revert i; induction l as [|y l IH]; intros [|i] H; simpl in *; try discriminate.
  - inversion H; subst. left. reflexivity.
  - right. apply (in_map (fun p => (fst p, y :: snd p)) _ _ (IH _ H)).
Qed.

Lemma remove_nth_length {A} (l : list A) i : (i < length l)%nat -> S (length (remove_nth i l)) = length l.
Proof. revert i; induction l as [|y l IH]; intros [|i] H; simpl in *; try lia. rewrite IH by lia. reflexivity. Qed.

Lemma remove_nth_app {A} (l1 : list A) x l2 : remove_nth (length l1) (l1 ++ x :: l2) = l1 ++ l2.
Proof. induction l1; simpl; [reflexivity|]. f_equal. assumption. Qed.

Lemma Permutation_cons_nth {A} (b : A) bs' bs :
  Permutation (b :: bs') bs -> exists i, nth_error bs i = Some b /\ Permutation bs' (remove_nth i bs).
Proof.
  intro P. assert (Hin : In b bs) by (eapply Permutation_in; [exact P|left; reflexivity]).
  apply in_split in Hin as (l1 & l2 & ->). exists (length l1). split.
  - rewrite nth_error_app2 by lia. rewrite Nat.sub_diag. reflexivity.
  - rewrite remove_nth_app. eapply Permutation_cons_app_inv. exact P.
Qed.

Lemma Forall2_remove_nth {A B} (R : A -> B -> Prop) a b i :
  Forall2 R a b -> Forall2 R (remove_nth i a) (remove_nth i b).
Proof.
  intro H. revert i; induction H as [|x y a b Hxy Hab IH]; intros [|i]; simpl.
  - constructor.
  - constructor.
  - exact Hab.
  - constructor; [exact Hxy|apply IH].
Qed.

Lemma Forall2_nth_r {A B} (R : A -> B -> Prop) a b i y :
  Forall2 R a b -> nth_error b i = Some y -> exists x, nth_error a i = Some x /\ R x y.
Proof.
  intro H. revert i; induction H as [|x y' a b Hxy _ IH]; intros [|i] Hn; simpl in *; try discriminate.
  - inversion Hn; subst. exists x. auto.
  - apply IH. exact Hn.
Qed.

Definition nil_or_nl (t : str) : Prop := t = [] \/ ends_nl t = true.

Lemma match_perm_complete bs' : forall cands bs,
  Forall2 (fun cs b => In (flat_block b) cs) cands bs ->
  Permutation bs' bs ->
  Forall (fun b => nil_or_nl (flat_block b)) bs' ->
  match_perm (length cands) cands (flat_blocks bs') = true.
Proof.
  induction bs' as [|b bs' IH]; intros cands bs F P T.
  - apply Permutation_nil in P. subst bs. inversion F; subst. reflexivity.
  - destruct (Permutation_cons_nth _ _ _ P) as (i & Hi & P').
    destruct (Forall2_nth_r _ _ _ _ _ F Hi) as (cs & Hcs & Hin).
    assert (Hlen : S (length (remove_nth i cands)) = length cands).
    { apply remove_nth_length. apply nth_error_Some. congruence. }
    destruct cands as [|c0 cands0]; [destruct i; discriminate|].
    rewrite <- Hlen. cbn [match_perm].
    apply existsb_exists. exists (cs, remove_nth i (c0 :: cands0)). split; [apply pick_each_nth; exact Hcs|].
    cbn [fst snd]. apply existsb_exists. exists (flat_block b). split; [exact Hin|].
    unfold flat_blocks. cbn [map concat]. fold (flat_blocks bs').
    assert (Hs : strip_prefix (flat_block b) (flat_block b ++ flat_blocks bs') = Some (flat_blocks bs'))
      by (apply strip_prefix_some; reflexivity).
    rewrite Hs. inversion T as [|? ? Tb Ts]; subst.
    apply andb_true_iff. split.
    + destruct Tb as [E|E]; rewrite E; [reflexivity|]. rewrite orb_true_r. reflexivity.
    + apply (IH _ (remove_nth i bs)); [apply Forall2_remove_nth; exact F|exact P'|exact Ts].
Qed.

Theorem reach_consistent_sorted old log st bs' :
  reach (init_blocks old) log st -> has_sort log = true ->
  Permutation bs' st -> Forall (fun b => nil_or_nl (flat_block b)) bs' ->
  consistent old log (flat_blocks bs') = true.
Proof.
  intros R Hs P T. apply reach_project in R as (L & Rg & Pr).
  unfold init_blocks in *. rewrite map_length in *.
  unfold consistent. rewrite Rg, Hs. cbn [andb].
  apply (match_perm_complete bs' _ st); [|exact P|exact T].
  apply line_cands_reach; [|exact L].
  intros i b b' H1 H2. replace (1 + N.of_nat i) with (N.of_nat i + 1) by lia. apply (Pr i); assumption.
Qed.

(* terminators *)
Lemma ends_nl_app_nonempty (a b : str) : b <> [] -> ends_nl (a ++ b) = ends_nl b.
Proof.
  intro H. unfold ends_nl. rewrite rev_app_distr. destruct (rev b) as [|c r] eqn:E; [|reflexivity].
  exfalso. apply H. rewrite <- (rev_involutive b), E. reflexivity.
Qed.

Lemma ends_nl_snoc (t : str) : ends_nl (t ++ nl) = true.
Proof. rewrite ends_nl_app_nonempty by discriminate. reflexivity. Qed.

Lemma nil_or_nl_app a b : nil_or_nl a -> nil_or_nl b -> nil_or_nl (a ++ b).
Proof.
  intros Ha [E|Hb]; [subst b; rewrite app_nil_r; exact Ha|].
  right. rewrite ends_nl_app_nonempty; [exact Hb|]. intro E; subst. discriminate.
Qed.

Lemma nil_or_nl_concat (l : list str) : Forall (fun a => ends_nl a = true) l -> nil_or_nl (concat l).
Proof.
  induction 1 as [|a l Ha _ IH]; [left; reflexivity|]. cbn. apply nil_or_nl_app; [right; exact Ha|exact IH].
Qed.

Lemma phys_lines_nonempty s : Forall (fun l => l <> []) (phys_lines s).
Proof.
  induction s as [|c s IH]; cbn; [constructor|].
  destruct (c =? 10); [constructor; [discriminate|exact IH]|].
  destruct (phys_lines s) as [|l ls]; [constructor; [discriminate|constructor]|].
  inversion IH; subst. constructor; [discriminate|assumption].
Qed.

(* every physical line but the last one ends with a newline *)
Lemma phys_lines_terminated s : Forall (fun l => ends_nl l = true) (removelast (phys_lines s)).
Proof.
  induction s as [|c s IH]; cbn [phys_lines]; [constructor|].
  destruct (N.eqb_spec c 10) as [->|Hc].
  - cbn [removelast]. destruct (phys_lines s) as [|l ls]; [constructor|]. constructor; [reflexivity|exact IH].
  - pose proof (phys_lines_nonempty s) as NE.
    destruct (phys_lines s) as [|l ls]; [constructor|].
    cbn [removelast] in *. destruct ls as [|l2 ls]; [constructor|].
    inversion IH as [|? ? Hl Hls]; subst. inversion NE; subst. constructor; [|exact Hls].
    change (c :: l) with ([c] ++ l). rewrite ends_nl_app_nonempty by assumption. exact Hl.
Qed.
