(* Lemmas about the specification Spec/ApplyLog.v alone. *)
From PV Require Import Lib.Bytes Spec.ApplyLog.
From Coq Require Import Lia.
Open Scope N_scope.

(* applying every entry, in order, with some choice of the occurrence *)
Inductive reach : list block -> list entry -> list block -> Prop :=
| reach_nil st : reach st [] st
| reach_cons st e st1 log st2 :
    In st1 (act_entry e st) -> reach st1 log st2 -> reach st (e :: log) st2.

Lemma reach_app a l1 b l2 c : reach a l1 b -> reach b l2 c -> reach a (l1 ++ l2) c.
Proof.
  induction 1 as [|st e st1 log st2 Hin _ IH]; intro H2; simpl; [exact H2|].
  econstructor; [exact Hin|]. apply IH; exact H2.
Qed.

Lemma reach_one st e st' : In st' (act_entry e st) -> reach st [e] st'.
Proof. intro H. econstructor; [exact H|constructor]. Qed.

Lemma reach_run_log st log st' : reach st log st' -> forall seen, In st' (run_log seen log st).
Proof.
  induction 1 as [st|st e st1 log st2 Hin _ IH]; intro seen; simpl; [left; reflexivity|].
  assert (Happ : In st2 (flat_map (run_log (e :: seen) log) (act_entry e st))).
  { apply in_flat_map. exists st1. split; [exact Hin|apply IH]. }
  destruct (existsb (entry_eqb e) seen); [apply in_or_app; left|]; exact Happ.
Qed.

Lemma replace_each_unfold from to s :
  replace_each from to s =
  (match strip_prefix from s with Some r => [to ++ r] | None => [] end)
  ++ match s with [] => [] | c :: s' => map (cons c) (replace_each from to s') end.
Proof. destruct s; reflexivity. Qed.

Lemma replace_each_in from to x y : In (x ++ to ++ y) (replace_each from to (x ++ from ++ y)).
Proof.
  induction x as [|c x IH].
  - rewrite replace_each_unfold. change ([] ++ from ++ y) with (from ++ y). change ([] ++ to ++ y) with (to ++ y).
    assert (Hs : strip_prefix from (from ++ y) = Some y) by (apply strip_prefix_some; reflexivity).
    rewrite Hs. apply in_or_app. left. left. reflexivity.
  - rewrite replace_each_unfold. apply in_or_app. right. simpl. apply in_map. exact IH.
Qed.

(* at_index on a list that is embedded between a prefix and a suffix *)
Lemma at_index_app_pre {A} (pre : list A) n f l :
  at_index (length pre + n) f (pre ++ l) = map (app pre) (at_index n f l).
Proof.
  induction pre as [|x pre IH]; simpl.
  - rewrite map_id. reflexivity.
  - rewrite IH, map_map. reflexivity.
Qed.

Lemma at_index_app_post {A} n f (l post : list A) :
  (n < length l)%nat -> at_index n f (l ++ post) = map (fun l' => l' ++ post) (at_index n f l).
Proof.
  revert n; induction l as [|x l IH]; intros n Hn; simpl in *; [lia|].
  destruct n as [|n]; simpl.
  - rewrite map_map. reflexivity.
  - rewrite IH by lia. rewrite !map_map. reflexivity.
Qed.

Fixpoint upd_nth {A} (n : nat) (x : A) (l : list A) : list A :=
  match l, n with
  | [], _ => []
  | _ :: l', O => x :: l'
  | y :: l', S n' => y :: upd_nth n' x l'
  end.

Lemma at_index_upd {A} n f (l : list A) x y :
  nth_error l n = Some x -> In y (f x) -> In (upd_nth n y l) (at_index n f l).
Proof.
  revert n; induction l as [|z l IH]; intros [|n] Hn Hy; simpl in *; try discriminate.
  - inversion Hn; subst. apply in_map with (f := fun y => y :: l). exact Hy.
  - apply in_map. apply IH; assumption.
Qed.

Lemma at_index_embedded {A} (pre post l : list A) n f x y :
  nth_error l n = Some x -> In y (f x) ->
  In (pre ++ upd_nth n y l ++ post) (at_index (length pre + n) f (pre ++ l ++ post)).
Proof.
  intros Hn Hy. rewrite at_index_app_pre. apply in_map.
  assert (n < length l)%nat by (apply nth_error_Some; congruence).
  rewrite at_index_app_post by assumption.
  apply in_map with (f := fun l' => l' ++ post). apply at_index_upd with (x := x); assumption.
Qed.

Lemma phys_lines_concat s : concat (phys_lines s) = s.
Proof.
  induction s as [|c s IH]; simpl; [reflexivity|].
  destruct (N.eqb_spec c 10).
  - simpl. rewrite IH. reflexivity.
  - destruct (phys_lines s) as [|l ls] eqn:E; simpl in *.
    + subst s. reflexivity.
    + rewrite <- IH. reflexivity.
Qed.
