(* The specification's syntax trees are sentences of shell.y: for every tree
   without `for name ; do` and without empty simple commands, the terminal
   string it is meant to be is derivable from the corresponding nonterminal. *)
From Coq Require Import NArith List Bool Lia.
From PV Require Import Lib.Bytes Gen.ShellGrammar Model.ShellLex Spec.PosixSh.
Import ListNotations.

Definition tm (l : list ptok) : list term := flat_map ptok_terms l.

Lemma tm_app a b : tm (a ++ b) = tm a ++ tm b.
Proof. apply flat_map_app. Qed.

(* ---------- shell.y without newlines ---------- *)

Definition lb := D_linebreak_2.

Lemma D_and w1 w4 : derives nt_and_or w1 -> derives nt_pipeline w4 -> derives nt_and_or (w1 ++ tkAND :: w4).
Proof. intros H1 H2. exact (D_and_or_2 w1 [] w4 H1 lb H2). Qed.
Lemma D_or w1 w4 : derives nt_and_or w1 -> derives nt_pipeline w4 -> derives nt_and_or (w1 ++ tkOR :: w4).
Proof. intros H1 H2. exact (D_and_or_3 w1 [] w4 H1 lb H2). Qed.
Lemma D_pipe w1 w4 : derives nt_pipe_sequence w1 -> derives nt_command w4 -> derives nt_pipe_sequence (w1 ++ tkPIPE :: w4).
Proof. intros H1 H2. exact (D_pipe_sequence_2 w1 [] w4 H1 lb H2). Qed.

Definition sep_term (s : sep) : term := match s with SepSemi => tkSEMI | SepAmp => tkBACKGROUND end.
Lemma tm_sep s : tm [print_sep s] = [sep_term s].
Proof. destruct s; reflexivity. Qed.
Lemma D_sepop s : derives nt_separator_op [sep_term s].
Proof. destruct s; constructor. Qed.
Lemma D_separator s : derives nt_separator [sep_term s].
Proof. exact (D_separator_1 [sep_term s] [] (D_sepop s) lb). Qed.

Lemma D_term_seq w1 s w3 : derives nt_term w1 -> derives nt_and_or w3 -> derives nt_term (w1 ++ sep_term s :: w3).
Proof. intros H1 H3. exact (D_term_2 w1 [sep_term s] w3 H1 (D_separator s) H3). Qed.
Lemma D_clist w : derives nt_term w -> derives nt_compound_list w.
Proof. intro H. exact (D_compound_list_1 [] w lb H). Qed.
Lemma D_clist_sep w s : derives nt_term w -> derives nt_compound_list (w ++ [sep_term s]).
Proof. intro H. exact (D_compound_list_2 [] w [sep_term s] lb H (D_separator s)). Qed.

Lemma D_do w : derives nt_compound_list w -> derives nt_do_group (tkDO :: w ++ [tkDONE]).
Proof. apply D_do_group_1. Qed.
Lemma D_for_do w : derives nt_compound_list w -> derives nt_for_clause (tkFOR :: tkWORD :: tkDO :: w ++ [tkDONE]).
Proof. intro H. exact (D_for_clause_1 [] _ lb (D_do w H)). Qed.
Lemma D_for_in0 w : derives nt_compound_list w ->
  derives nt_for_clause (tkFOR :: tkWORD :: tkIN :: tkSEMI :: tkDO :: w ++ [tkDONE]).
Proof. intro H. exact (D_for_clause_3 [] [tkSEMI] _ lb (D_sequential_sep_1 [] lb) (D_do w H)). Qed.
Lemma D_for_semi w : derives nt_compound_list w ->
  derives nt_for_clause (tkFOR :: tkWORD :: tkSEMI :: tkDO :: w ++ [tkDONE]).
Proof. intro H. exact (D_for_clause_2 [] _ lb (D_do w H)). Qed.
Lemma D_for_in wl w : derives nt_wordlist wl -> derives nt_compound_list w ->
  derives nt_for_clause (tkFOR :: tkWORD :: tkIN :: wl ++ tkSEMI :: tkDO :: w ++ [tkDONE]).
Proof. intros Hl H. exact (D_for_clause_4 [] wl [tkSEMI] _ lb Hl (D_sequential_sep_1 [] lb) (D_do w H)). Qed.

Lemma repeat_snoc {A} (a : A) n : repeat a (S n) = repeat a n ++ [a].
Proof. induction n; simpl; [reflexivity | f_equal; exact IHn]. Qed.

Lemma tm_words ws : tm (print_words ws) = repeat tkWORD (length ws).
Proof. induction ws; simpl; [reflexivity | f_equal; exact IHws]. Qed.

Lemma D_wordlist n : derives nt_wordlist (repeat tkWORD (S n)).
Proof.
  induction n.
  - apply D_wordlist_1.
  - rewrite repeat_snoc. apply D_wordlist_2. exact IHn.
Qed.

(* ---------- redirections and simple commands ---------- *)

Lemma D_redir r : derives nt_io_redirect (tm (print_redir r)).
Proof.
  destruct r as [fd o t]. unfold print_redir, tm. cbn [r_fd r_op r_target].
  destruct fd as [ds |]; destruct o; cbn [flat_map ptok_terms kw app rop_term];
    first
      [ apply D_io_redirect_1; constructor; constructor
      | apply D_io_redirect_2; constructor; constructor
      | apply D_io_redirect_3; constructor; constructor
      | apply D_io_redirect_4; constructor; constructor ].
Qed.

Lemma tm_redirs_cons r rs : tm (print_redirs (r :: rs)) = tm (print_redir r) ++ tm (print_redirs rs).
Proof. unfold print_redirs. cbn [flat_map]. apply tm_app. Qed.

Lemma tm_redirs_app a b : tm (print_redirs (a ++ b)) = tm (print_redirs a) ++ tm (print_redirs b).
Proof. unfold print_redirs. rewrite flat_map_app. apply tm_app. Qed.

Lemma tm_redirs_one r : tm (print_redirs [r]) = tm (print_redir r).
Proof. unfold print_redirs. cbn [flat_map]. rewrite app_nil_r. reflexivity. Qed.

Lemma D_redirs rs : rs <> [] -> derives nt_redirect_list (tm (print_redirs rs)).
Proof.
  induction rs as [| r rs IH] using rev_ind; [congruence |]. intros _.
  rewrite tm_redirs_app, tm_redirs_one. destruct rs as [| r0 rs0].
  - change (tm (print_redirs [])) with (@nil term). cbn [app].
    apply D_redirect_list_1. apply D_redir.
  - apply D_redirect_list_2; [apply IH; discriminate | apply D_redir].
Qed.

Definition tm_items (items : list sitem) : list term := tm (flat_map print_sitem items).

Lemma tm_items_cons i items : tm_items (i :: items) = tm (print_sitem i) ++ tm_items items.
Proof. unfold tm_items. cbn [flat_map]. apply tm_app. Qed.

Lemma tm_items_app a b : tm_items (a ++ b) = tm_items a ++ tm_items b.
Proof. unfold tm_items. rewrite flat_map_app. apply tm_app. Qed.

Lemma D_suffix items : items <> [] -> derives nt_cmd_suffix (tm_items items).
Proof.
  induction items as [| x items IH] using rev_ind; [congruence |]. intros _.
  rewrite tm_items_app, tm_items_cons. change (tm_items []) with (@nil term). rewrite app_nil_r.
  destruct items as [| y items0].
  - change (tm_items []) with (@nil term). cbn [app]. destruct x as [w | r].
    + apply D_cmd_suffix_2.
    + apply D_cmd_suffix_1. apply D_redir.
  - destruct x as [w | r].
    + apply D_cmd_suffix_4. apply IH. discriminate.
    + apply D_cmd_suffix_3; [apply IH; discriminate | apply D_redir].
Qed.

(* after a non-empty prefix: redirections extend the prefix, the first word is the command word *)
Lemma D_simple_tail items : forall wp, derives nt_cmd_prefix wp ->
  derives nt_simple_command (wp ++ tm_items items).
Proof.
  induction items as [| x items IH]; intros wp Hp.
  - change (tm_items []) with (@nil term). rewrite app_nil_r. apply D_simple_command_3. exact Hp.
  - rewrite tm_items_cons. destruct x as [w | r].
    + change (tm (print_sitem (SWord w))) with [tkWORD].
      destruct items as [| y items0].
      * change (tm_items []) with (@nil term). rewrite app_nil_r.
        apply D_simple_command_2; [exact Hp | apply D_cmd_word_1].
      * apply D_simple_command_1; [exact Hp | apply D_cmd_word_1 | apply D_suffix; discriminate].
    + rewrite app_assoc. apply IH. apply D_cmd_prefix_3; [exact Hp | apply D_redir].
Qed.

Lemma D_assigns n : derives nt_cmd_prefix (repeat tkASSIGNMENT_WORD (S n)).
Proof.
  induction n.
  - apply D_cmd_prefix_2.
  - rewrite repeat_snoc. apply D_cmd_prefix_4. exact IHn.
Qed.

Lemma tm_assigns (assigns : list tok) :
  tm (map (fun w => P1 w tkASSIGNMENT_WORD) assigns) = repeat tkASSIGNMENT_WORD (length assigns).
Proof. induction assigns; simpl; [reflexivity | f_equal; exact IHassigns]. Qed.

Lemma tm_simple assigns items :
  tm (print_cmd (CSimple assigns items)) = repeat tkASSIGNMENT_WORD (length assigns) ++ tm_items items.
Proof. cbn [print_cmd]. rewrite tm_app, tm_assigns. reflexivity. Qed.

Lemma D_simple assigns items :
  match assigns, items with [], [] => False | _, _ => True end ->
  derives nt_simple_command (tm (print_cmd (CSimple assigns items))).
Proof.
  intro Hne. rewrite tm_simple. destruct assigns as [| a assigns].
  - cbn [length repeat app]. destruct items as [| x items]; [contradiction |].
    destruct x as [w | r].
    + rewrite tm_items_cons. change (tm (print_sitem (SWord w))) with [tkWORD]. cbn [app].
      destruct items as [| y items0].
      * apply D_simple_command_5.
      * apply D_simple_command_4. apply D_suffix. discriminate.
    + rewrite tm_items_cons. apply D_simple_tail. apply D_cmd_prefix_1. apply D_redir.
  - cbn [length]. apply D_simple_tail. apply D_assigns.
Qed.

(* ---------- case selectors ---------- *)

Lemma tm_pats ps : forall w, w ++ tm (print_pats ps) = w ++ tm (print_pats ps).
Proof. reflexivity. Qed.

Lemma D_pattern ps : forall w, derives nt_pattern w -> derives nt_pattern (w ++ tm (print_pats ps)).
Proof.
  induction ps as [| p ps IH]; intros w Hw.
  - simpl. rewrite app_nil_r. exact Hw.
  - cbn [print_pats]. change (tm (kw s_pipe tkPIPE :: P1 p tkWORD :: print_pats ps))
      with ([tkPIPE; tkWORD] ++ tm (print_pats ps)).
    rewrite app_assoc. apply IH. apply D_pattern_2. exact Hw.
Qed.

Lemma D_selector lp p ps : derives nt_case_selector (tm (print_selector lp p ps)).
Proof.
  unfold print_selector. rewrite tm_app.
  change (tm (P1 p tkWORD :: print_pats ps ++ [kw s_rparen tkRPAREN]))
    with ([tkWORD] ++ tm (print_pats ps ++ [kw s_rparen tkRPAREN])).
  rewrite tm_app. change (tm [kw s_rparen tkRPAREN]) with [tkRPAREN].
  assert (Hp : derives nt_pattern ([tkWORD] ++ tm (print_pats ps))) by (apply D_pattern; apply D_pattern_1).
  destruct lp; cbn [print_lp tm flat_map ptok_terms kw app].
  - rewrite app_comm_cons. change (tkWORD :: tm (print_pats ps)) with ([tkWORD] ++ tm (print_pats ps)).
    apply (D_case_selector_1 _ Hp).
  - rewrite app_comm_cons. change (tkWORD :: tm (print_pats ps)) with ([tkWORD] ++ tm (print_pats ps)).
    apply (D_case_selector_2 _ Hp).
Qed.

(* ---------- induction over the nine mutually inductive types ---------- *)

Scheme cmd_mut := Induction for cmd Sort Prop
  with compound_mut := Induction for compound Sort Prop
  with elsepart_mut := Induction for elsepart Sort Prop
  with caseitems_mut := Induction for caseitems Sort Prop
  with cbody_mut := Induction for cbody Sort Prop
  with pipe_mut := Induction for pipe Sort Prop
  with andor_mut := Induction for andor Sort Prop
  with seq_mut := Induction for seq Sort Prop
  with clist_mut := Induction for clist Sort Prop.
Combined Scheme posix_mutind from cmd_mut, compound_mut, elsepart_mut, caseitems_mut, cbody_mut,
  pipe_mut, andor_mut, seq_mut, clist_mut.

Definition seq_of (l : clist) : seq := match l with CL q _ => q end.

Lemma D_clist_of_term l :
  derives nt_term (tm (print_seq (seq_of l))) -> derives nt_compound_list (tm (print_clist l)).
Proof.
  destruct l as [q [s |]]; cbn [seq_of print_clist]; intro H.
  - rewrite tm_app, tm_sep. apply D_clist_sep. exact H.
  - apply D_clist. exact H.
Qed.

Lemma D_pipeline bang w : derives nt_pipe_sequence w -> derives nt_pipeline (tm (print_bang bang) ++ w).
Proof.
  intro H. destruct bang; cbn [print_bang tm flat_map ptok_terms kw app].
  - apply D_pipeline_2. exact H.
  - apply D_pipeline_1. exact H.
Qed.

Ltac split_and H :=
  repeat match type of H with
  | (_ && _)%bool = true => let H1 := fresh "Hb" in apply andb_true_iff in H; destruct H as [H H1]
  end.

(* the item list of a case clause, with the already derived case_list as accumulator *)
Definition items_goal (i : caseitems) : Prop :=
  forall w0, (w0 = [] \/ derives nt_case_list w0) ->
  derives nt_case_clause (tkCASE :: tkWORD :: tkIN :: w0 ++ tm (print_items i)).

Definition else_goal (e : elsepart) : Prop :=
  e = ENone \/ exists w, tm (print_else e) = w ++ [tkFI] /\ derives nt_else_part w.

Theorem ast_in_grammar :
  (forall c, wf_cmd c = true -> derives nt_command (tm (print_cmd c))) /\
  (forall k, wf_compound k = true -> derives nt_compound_command (tm (print_compound k))) /\
  (forall e, wf_else e = true -> else_goal e) /\
  (forall i, wf_items i = true -> items_goal i) /\
  (forall b, wf_body b = true ->
     match b with BNone => True | BSome l => derives nt_term (tm (print_seq (seq_of l))) end) /\
  (forall p, wf_pipe p = true -> derives nt_pipe_sequence (tm (print_pipe p))) /\
  (forall a, wf_andor a = true -> derives nt_and_or (tm (print_andor a))) /\
  (forall q, wf_seq q = true -> derives nt_term (tm (print_seq q))) /\
  (forall l, wf_clist l = true -> derives nt_term (tm (print_seq (seq_of l)))).
Proof.
  apply posix_mutind.
  - (* CSimple *)
    intros assigns items Hwf. apply D_command_1. apply D_simple.
    cbn [wf_cmd] in Hwf. unfold simple_ok in Hwf. split_and Hwf.
    destruct assigns, items; try exact I. discriminate.
  - (* CCompound *)
    intros k IHk rs Hwf. cbn [wf_cmd] in Hwf. split_and Hwf.
    cbn [print_cmd]. rewrite tm_app. destruct rs as [| r rs].
    + change (tm (print_redirs [])) with (@nil term). rewrite app_nil_r.
      apply D_command_2. apply IHk; assumption.
    + apply D_command_3; [apply IHk; assumption | apply D_redirs; discriminate].
  - (* CFuncDef *)
    intros name body IHk rs Hwf. cbn [wf_cmd] in Hwf. split_and Hwf.
    cbn [print_cmd].
    change (tm (P1 name tkWORD :: kw s_lparen tkLPAREN :: kw s_rparen tkRPAREN :: print_compound body ++ print_redirs rs))
      with ([tkWORD; tkLPAREN; tkRPAREN] ++ tm (print_compound body ++ print_redirs rs)).
    rewrite tm_app, app_assoc.
    assert (Hf : derives nt_function_definition ([tkWORD; tkLPAREN; tkRPAREN] ++ tm (print_compound body)))
      by (exact (D_function_definition_1 [] _ lb (IHk ltac:(assumption)))).
    destruct rs as [| r rs].
    + change (tm (print_redirs [])) with (@nil term). rewrite app_nil_r. apply D_command_4. exact Hf.
    + apply D_command_5; [exact Hf | apply D_redirs; discriminate].
  - (* KBrace *)
    intros l IH Hwf. cbn [wf_compound] in *. cbn [print_compound].
    change (tm (kw s_lbrace tkLBRACE :: print_clist l ++ [kw s_rbrace tkRBRACE]))
      with (tkLBRACE :: tm (print_clist l ++ [kw s_rbrace tkRBRACE])).
    rewrite tm_app. apply D_compound_command_1. apply D_brace_group_1.
    apply D_clist_of_term. apply IH; assumption.
  - (* KSubshell *)
    intros l IH Hwf. cbn [wf_compound] in *. cbn [print_compound].
    change (tm (kw s_lparen tkLPAREN :: print_clist l ++ [kw s_rparen tkRPAREN]))
      with (tkLPAREN :: tm (print_clist l ++ [kw s_rparen tkRPAREN])).
    rewrite tm_app. apply D_compound_command_2. apply D_subshell_1.
    apply D_clist_of_term. apply IH; assumption.
  - (* KFor *)
    intros name m body IH Hwf. cbn [wf_compound] in Hwf. split_and Hwf.
    apply D_compound_command_3. cbn [print_compound].
    destruct m as [| | ws].
    + change (tm (kw s_for tkFOR :: P1 name tkWORD :: [] ++ kw s_do tkDO :: print_clist body ++ [kw s_done tkDONE]))
        with (tkFOR :: tkWORD :: tkDO :: tm (print_clist body ++ [kw s_done tkDONE])).
      rewrite tm_app. apply D_for_do. apply D_clist_of_term. apply IH; assumption.
    + change (tm (kw s_for tkFOR :: P1 name tkWORD :: [kw s_semi tkSEMI] ++ kw s_do tkDO :: print_clist body ++ [kw s_done tkDONE]))
        with (tkFOR :: tkWORD :: tkSEMI :: tkDO :: tm (print_clist body ++ [kw s_done tkDONE])).
      rewrite tm_app. apply D_for_semi. apply D_clist_of_term. apply IH; assumption.
    + change (tm (kw s_for tkFOR :: P1 name tkWORD :: (kw s_in tkIN :: print_words ws ++ [kw s_semi tkSEMI]) ++
                  kw s_do tkDO :: print_clist body ++ [kw s_done tkDONE]))
        with (tkFOR :: tkWORD :: tkIN :: tm ((print_words ws ++ [kw s_semi tkSEMI]) ++
                  kw s_do tkDO :: print_clist body ++ [kw s_done tkDONE])).
      rewrite !tm_app, tm_words.
      change (tm [kw s_semi tkSEMI]) with [tkSEMI].
      change (tm (kw s_do tkDO :: print_clist body ++ [kw s_done tkDONE]))
        with (tkDO :: tm (print_clist body ++ [kw s_done tkDONE])).
      rewrite tm_app. change (tm [kw s_done tkDONE]) with [tkDONE].
      rewrite <- app_assoc. cbn [app].
      assert (Hb' : derives nt_compound_list (tm (print_clist body))) by (apply D_clist_of_term; apply IH; assumption).
      destruct ws as [| w ws].
      * cbn [length repeat app]. apply D_for_in0. exact Hb'.
      * cbn [length]. apply D_for_in; [apply D_wordlist | exact Hb'].
  - (* KCase *)
    intros w items IH Hwf. cbn [wf_compound] in Hwf. split_and Hwf.
    apply D_compound_command_4. cbn [print_compound].
    exact (IH ltac:(assumption) [] (or_introl eq_refl)).
  - (* KIf *)
    intros c IHc t IHt e IHe Hwf. cbn [wf_compound] in Hwf. split_and Hwf.
   
    apply D_compound_command_5. cbn [print_compound].
    change (tm (kw s_if tkIF :: print_clist c ++ kw s_then tkTHEN :: print_clist t ++ print_else e))
      with (tkIF :: tm (print_clist c ++ kw s_then tkTHEN :: print_clist t ++ print_else e)).
    rewrite tm_app.
    change (tm (kw s_then tkTHEN :: print_clist t ++ print_else e)) with (tkTHEN :: tm (print_clist t ++ print_else e)).
    rewrite tm_app.
    assert (Hc : derives nt_compound_list (tm (print_clist c))) by (apply D_clist_of_term; apply IHc; assumption).
    assert (Ht : derives nt_compound_list (tm (print_clist t))) by (apply D_clist_of_term; apply IHt; assumption).
    destruct (IHe ltac:(assumption)) as [-> | (we & Heq & He)].
    + change (tm (print_else ENone)) with [tkFI]. apply D_if_clause_2; assumption.
    + rewrite Heq. apply D_if_clause_1; assumption.
  - (* KWhile *)
    intros c IHc b IHb Hwf. cbn [wf_compound] in Hwf. split_and Hwf.
   
    apply D_compound_command_6. cbn [print_compound].
    change (tm (kw s_while tkWHILE :: print_clist c ++ kw s_do tkDO :: print_clist b ++ [kw s_done tkDONE]))
      with (tkWHILE :: tm (print_clist c ++ kw s_do tkDO :: print_clist b ++ [kw s_done tkDONE])).
    rewrite tm_app.
    change (tm (kw s_do tkDO :: print_clist b ++ [kw s_done tkDONE])) with (tkDO :: tm (print_clist b ++ [kw s_done tkDONE])).
    rewrite tm_app. change (tm [kw s_done tkDONE]) with [tkDONE].
    apply D_while_clause_1; [| apply D_do]; apply D_clist_of_term; [apply IHc | apply IHb]; assumption.
  - (* KUntil *)
    intros c IHc b IHb Hwf. cbn [wf_compound] in Hwf. split_and Hwf.
   
    apply D_compound_command_7. cbn [print_compound].
    change (tm (kw s_until tkUNTIL :: print_clist c ++ kw s_do tkDO :: print_clist b ++ [kw s_done tkDONE]))
      with (tkUNTIL :: tm (print_clist c ++ kw s_do tkDO :: print_clist b ++ [kw s_done tkDONE])).
    rewrite tm_app.
    change (tm (kw s_do tkDO :: print_clist b ++ [kw s_done tkDONE])) with (tkDO :: tm (print_clist b ++ [kw s_done tkDONE])).
    rewrite tm_app. change (tm [kw s_done tkDONE]) with [tkDONE].
    apply D_until_clause_1; [| apply D_do]; apply D_clist_of_term; [apply IHc | apply IHb]; assumption.
  - (* ENone *)
    intros _. left. reflexivity.
  - (* EElse *)
    intros l IH Hwf. cbn [wf_else] in *. right.
    exists (tkELSE :: tm (print_clist l)). split.
    + cbn [print_else]. change (tm (kw s_else tkELSE :: print_clist l ++ [kw s_fi tkFI]))
        with (tkELSE :: tm (print_clist l ++ [kw s_fi tkFI])). rewrite tm_app. reflexivity.
    + apply D_else_part_3. apply D_clist_of_term. apply IH; assumption.
  - (* EElif *)
    intros c IHc t IHt e IHe Hwf. cbn [wf_else] in Hwf. split_and Hwf.
    right.
    assert (Hc : derives nt_compound_list (tm (print_clist c))) by (apply D_clist_of_term; apply IHc; assumption).
    assert (Ht : derives nt_compound_list (tm (print_clist t))) by (apply D_clist_of_term; apply IHt; assumption).
    cbn [print_else].
    change (tm (kw s_elif tkELIF :: print_clist c ++ kw s_then tkTHEN :: print_clist t ++ print_else e))
      with (tkELIF :: tm (print_clist c ++ kw s_then tkTHEN :: print_clist t ++ print_else e)).
    rewrite tm_app.
    change (tm (kw s_then tkTHEN :: print_clist t ++ print_else e)) with (tkTHEN :: tm (print_clist t ++ print_else e)).
    rewrite tm_app.
    destruct (IHe ltac:(assumption)) as [-> | (we & Heq & He)].
    + exists (tkELIF :: tm (print_clist c) ++ tkTHEN :: tm (print_clist t)). split.
      * change (tm (print_else ENone)) with [tkFI]. cbn [app]. rewrite <- ?app_assoc. reflexivity.
      * apply D_else_part_1; assumption.
    + exists (tkELIF :: tm (print_clist c) ++ tkTHEN :: tm (print_clist t) ++ we). split.
      * rewrite Heq. cbn [app]. rewrite <- ?app_assoc. cbn [app]. rewrite <- ?app_assoc. reflexivity.
      * apply D_else_part_2; assumption.
  - (* CINil *)
    intros _ w0 [-> | Hw0].
    + exact (D_case_clause_3 [] [] lb lb).
    + exact (D_case_clause_1 [] [] w0 lb lb Hw0).
  - (* CILast *)
    intros lp p ps body IHb Hwf w0 Hw0. cbn [wf_items] in Hwf. split_and Hwf.
    cbn [print_items]. rewrite tm_app, tm_app. change (tm [kw s_esac tkESAC]) with [tkESAC].
    assert (Hitem : derives nt_case_item_ns (tm (print_selector lp p ps) ++ tm (print_body body))).
    { destruct body as [| l].
      - change (tm (print_body BNone)) with (@nil term).
        exact (D_case_item_ns_1 _ [] (D_selector lp p ps) lb).
      - specialize (IHb ltac:(assumption)). cbn beta iota in IHb. destruct l as [q [s |]]; cbn [seq_of] in IHb.
        + cbn [print_body print_clist]. rewrite tm_app, tm_sep.
          replace (tm (print_selector lp p ps) ++ tm (print_seq q) ++ [sep_term s])
            with (tm (print_selector lp p ps) ++ [] ++ tm (print_seq q) ++ [sep_term s] ++ []) by reflexivity.
          exact (D_case_item_ns_3 _ [] _ _ [] (D_selector lp p ps) lb IHb (D_sepop s) lb).
        + cbn [print_body print_clist].
          replace (tm (print_selector lp p ps) ++ tm (print_seq q))
            with (tm (print_selector lp p ps) ++ [] ++ tm (print_seq q) ++ []) by (cbn [app]; rewrite app_nil_r; reflexivity).
          exact (D_case_item_ns_2 _ [] _ [] (D_selector lp p ps) lb IHb lb). }
    rewrite (app_assoc (tm (print_selector lp p ps))).
    destruct Hw0 as [-> | Hw0].
    + cbn [app]. exact (D_case_clause_2 [] [] _ lb lb (D_case_list_ns_1 _ Hitem)).
    + rewrite (app_assoc w0). exact (D_case_clause_2 [] [] _ lb lb (D_case_list_ns_2 _ _ Hw0 Hitem)).
  - (* CICons *)
    intros lp p ps body IHb rest IHr Hwf w0 Hw0. cbn [wf_items] in Hwf. split_and Hwf.
   
    cbn [print_items]. rewrite tm_app, tm_app.
    change (tm (kw s_semisemi tkSEMISEMI :: print_items rest)) with ([tkSEMISEMI] ++ tm (print_items rest)).
    assert (Hitem : derives nt_case_item (tm (print_selector lp p ps) ++ tm (print_body body) ++ [tkSEMISEMI])).
    { destruct body as [| l].
      - change (tm (print_body BNone)) with (@nil term).
        exact (D_case_item_1 _ [] [] (D_selector lp p ps) lb lb).
      - specialize (IHb ltac:(assumption)). cbn beta iota in IHb.
        exact (D_case_item_2 _ _ [] (D_selector lp p ps) (D_clist_of_term l IHb) lb). }
    replace (w0 ++ tm (print_selector lp p ps) ++ tm (print_body body) ++ [tkSEMISEMI] ++ tm (print_items rest))
      with ((w0 ++ tm (print_selector lp p ps) ++ tm (print_body body) ++ [tkSEMISEMI]) ++ tm (print_items rest))
      by (rewrite <- !app_assoc; reflexivity).
    apply (IHr ltac:(assumption)). right.
    destruct Hw0 as [-> | Hw0].
    + cbn [app]. apply D_case_list_1. exact Hitem.
    + apply D_case_list_2; assumption.
  - (* BNone *)
    intros _. exact I.
  - (* BSome *)
    intros l IH Hwf. cbn [wf_body] in *. apply IH; assumption.
  - (* PCmd *)
    intros c IH Hwf. cbn [wf_pipe print_pipe] in *. apply D_pipe_sequence_1. apply IH; assumption.
  - (* PPipe *)
    intros p IHp c IHc Hwf. cbn [wf_pipe] in Hwf. split_and Hwf.
    cbn [print_pipe]. rewrite tm_app.
    change (tm (kw s_pipe tkPIPE :: print_cmd c)) with (tkPIPE :: tm (print_cmd c)).
    apply D_pipe; [apply IHp | apply IHc]; assumption.
  - (* AOne *)
    intros bang p IH Hwf. cbn [wf_andor print_andor] in *. rewrite tm_app.
    apply D_and_or_1. apply D_pipeline. apply IH; assumption.
  - (* AAnd *)
    intros a IHa bang p IHp Hwf. cbn [wf_andor] in Hwf. split_and Hwf.
    cbn [print_andor]. rewrite tm_app.
    change (tm (kw s_andand tkAND :: print_bang bang ++ print_pipe p)) with (tkAND :: tm (print_bang bang ++ print_pipe p)).
    rewrite tm_app. apply D_and; [apply IHa; assumption | apply D_pipeline; apply IHp; assumption].
  - (* AOr *)
    intros a IHa bang p IHp Hwf. cbn [wf_andor] in Hwf. split_and Hwf.
    cbn [print_andor]. rewrite tm_app.
    change (tm (kw s_oror tkOR :: print_bang bang ++ print_pipe p)) with (tkOR :: tm (print_bang bang ++ print_pipe p)).
    rewrite tm_app. apply D_or; [apply IHa; assumption | apply D_pipeline; apply IHp; assumption].
  - (* QOne *)
    intros a IH Hwf. cbn [wf_seq print_seq] in *. apply D_term_1. apply IH; assumption.
  - (* QSeq *)
    intros q IHq s a IHa Hwf. cbn [wf_seq] in Hwf. split_and Hwf.
    cbn [print_seq]. rewrite tm_app.
    replace (tm (print_sep s :: print_andor a)) with (sep_term s :: tm (print_andor a)) by (destruct s; reflexivity).
    apply D_term_seq; [apply IHq | apply IHa]; assumption.
  - (* CL *)
    intros q IH last Hwf. cbn [wf_clist seq_of] in *. apply IH; assumption.
Qed.
