From Coq Require Import List NArith Bool Lia.
From PV Require Import Lib.Bytes Lib.PanicRes Model.Scope Spec.ScopeSpec.
Import ListNotations.

Lemma str_eqbP a b : reflect (a = b) (str_eqb a b).
Proof.
  destruct (str_eqb a b) eqn:E; constructor.
  - apply str_eqb_spec; exact E.
  - intros ->. rewrite str_eqb_refl in E. discriminate.
Qed.

Lemma slookup_sset st k x v : slookup (sset st k x) v = if str_eqb k v then Some x else slookup st v.
Proof.
  induction st as [|[k0 y] t IH]; cbn [sset slookup].
  - reflexivity.
  - destruct (str_eqbP k0 k) as [->|Hne]; cbn [slookup].
    + destruct (str_eqb k v); reflexivity.
    + rewrite IH. destruct (str_eqbP k0 v) as [->|]; [|reflexivity].
      destruct (str_eqbP k v) as [->|]; [congruence|reflexivity].
Qed.

(* the fields of the entry of v, with the defaults of a missing entry *)
Definition fld {A} (f : svar -> A) (st : sstate) (v : str) : A := f (screate st v).

Lemma fld_sset {A} (f : svar -> A) st k x v :
  fld f (sset st k x) v = if str_eqb k v then f x else fld f st v.
Proof. unfold fld, screate. rewrite slookup_sset. destruct (str_eqb k v); reflexivity. Qed.

Definition or_else {A} (a b : option A) : option A := match a with Some x => Some x | None => b end.

Lemma sdef_first st n l v :
  fld v_first (sdef st n l) v = if str_eqb n v then or_else (fld v_first st v) (Some l) else fld v_first st v.
Proof.
  unfold sdef. rewrite fld_sset. destruct (str_eqbP n v) as [->|]; [|reflexivity].
  unfold fld, or_else. destruct (v_first (screate st v)); destruct (negb (is_varassign l));
    repeat match goal with |- context [if ?c then _ else _] => destruct c end; reflexivity.
Qed.

Lemma sdef_last st n l v :
  fld v_last (sdef st n l) v = if str_eqb n v then Some l else fld v_last st v.
Proof.
  unfold sdef. rewrite fld_sset. destruct (str_eqbP n v) as [->|]; [|reflexivity].
  destruct (negb (is_varassign l));
    repeat match goal with |- context [if ?c then _ else _] => destruct c end; reflexivity.
Qed.

Lemma sdef_indet st n l v :
  fld v_indet (sdef st n l) v = if str_eqb n v then fld v_indet st v || is_shell_assign l else fld v_indet st v.
Proof.
  unfold sdef. rewrite fld_sset. destruct (str_eqbP n v) as [->|]; [|reflexivity].
  unfold is_shell_assign, fld. destruct (is_varassign l); cbn [negb andb].
  - destruct (N.eqb_spec (sl_op l) 3) as [E|]; [rewrite E; cbn; rewrite orb_false_r; reflexivity|].
    destruct (N.eqb_spec (sl_op l) 4) as [E|].
    { rewrite E. cbn [N.eqb Pos.eqb]. rewrite orb_false_r.
      destruct (_ && _); reflexivity. }
    destruct (N.eqb_spec (sl_op l) 1); cbn [v_indet]; [rewrite orb_true_r|rewrite orb_false_r]; reflexivity.
  - cbn [v_indet]. rewrite orb_false_r. reflexivity.
Qed.

(* how one operation changes field f of variable v, when f is changed by sdef only as `upd` says *)
Lemma sdefine_fld {A} (f : svar -> A) (upd : A -> sline -> A)
  (Hdef : forall st n l v, fld f (sdef st n l) v = if str_eqb n v then upd (fld f st v) l else fld f st v)
  st n l v :
  fld f (sdefine st n l) v = if touches n v then upd (fld f st v) l else fld f st v.
Proof.
  unfold sdefine, touches. destruct (str_eqbP (varname_canon n) n) as [E|E].
  - rewrite Hdef, E. destruct (str_eqb n v); reflexivity.
  - rewrite !Hdef. destruct (str_eqbP n v) as [->|]; cbn [orb].
    + destruct (str_eqbP (varname_canon v) v); [congruence|reflexivity].
    + reflexivity.
Qed.
Lemma suse1_first st n l b v : fld v_first (suse1 st n l b) v = fld v_first st v.
Proof. unfold suse1. rewrite fld_sset. destruct (str_eqbP n v) as [->|]; reflexivity. Qed.
Lemma suse1_last st n l b v : fld v_last (suse1 st n l b) v = fld v_last st v.
Proof. unfold suse1. rewrite fld_sset. destruct (str_eqbP n v) as [->|]; reflexivity. Qed.
Lemma suse1_indet st n l b v : fld v_indet (suse1 st n l b) v = fld v_indet st v.
Proof. unfold suse1. rewrite fld_sset. destruct (str_eqbP n v) as [->|]; reflexivity. Qed.
Lemma sfb_first st n x v : fld v_first (sfallback st n x) v = fld v_first st v.
Proof. unfold sfallback. rewrite fld_sset. destruct (str_eqbP n v) as [->|]; reflexivity. Qed.
Lemma sfb_last st n x v : fld v_last (sfallback st n x) v = fld v_last st v.
Proof. unfold sfallback. rewrite fld_sset. destruct (str_eqbP n v) as [->|]; reflexivity. Qed.
Lemma sfb_indet st n x v : fld v_indet (sfallback st n x) v = fld v_indet st v.
Proof. unfold sfallback. rewrite fld_sset. destruct (str_eqbP n v) as [->|]; reflexivity. Qed.

(* the three invariants, for a run from any state *)
Lemma run_first h : forall st v,
  fld v_first (fold_left sstep h st) v = or_else (fld v_first st v) (hd_error (defs_of v h)).
Proof.
  induction h as [|o t IH]; intros st v; cbn [fold_left defs_of].
  - unfold or_else. cbn. destruct (fld v_first st v); reflexivity.
  - rewrite IH. destruct o as [n l|n x|n l b]; cbn [sstep].
    + rewrite (sdefine_fld v_first (fun a l => or_else a (Some l)) sdef_first).
      destruct (touches n v); [|reflexivity]. unfold or_else. cbn. destruct (fld v_first st v); reflexivity.
    + rewrite sfb_first. reflexivity.
    + unfold suse. rewrite !suse1_first. reflexivity.
Qed.

Lemma run_last h : forall st v,
  fld v_last (fold_left sstep h st) v = or_else (last_opt (defs_of v h)) (fld v_last st v).
Proof.
  induction h as [|o t IH]; intros st v; cbn [fold_left defs_of].
  - reflexivity.
  - rewrite IH. destruct o as [n l|n x|n l b]; cbn [sstep].
    + rewrite (sdefine_fld v_last (fun _ l => Some l) sdef_last).
      destruct (touches n v); [|reflexivity]. cbn [last_opt]. unfold or_else.
      destruct (last_opt (defs_of v t)); reflexivity.
    + rewrite sfb_last. reflexivity.
    + unfold suse. rewrite !suse1_last. reflexivity.
Qed.

Lemma run_indet h : forall st v,
  fld v_indet (fold_left sstep h st) v = fld v_indet st v || existsb is_shell_assign (defs_of v h).
Proof.
  induction h as [|o t IH]; intros st v; cbn [fold_left defs_of].
  - cbn. rewrite orb_false_r. reflexivity.
  - rewrite IH. destruct o as [n l|n x|n l b]; cbn [sstep].
    + rewrite (sdefine_fld v_indet (fun a l => a || is_shell_assign l) sdef_indet).
      destruct (touches n v); [|reflexivity]. cbn [existsb]. rewrite orb_assoc. reflexivity.
    + rewrite sfb_indet. reflexivity.
    + unfold suse. rewrite !suse1_indet. reflexivity.
Qed.

Lemma mentioned_fld st v : mentioned st v = fld v_first st v.
Proof. unfold mentioned, fld, screate. destruct (slookup st v); reflexivity. Qed.

Lemma last_definition_fld st v :
  last_definition st v = match fld v_last st v with Some l => if is_varassign l then Some l else None | None => None end.
Proof. unfold last_definition, fld, screate. destruct (slookup st v); reflexivity. Qed.

Lemma first_definition_fld st v :
  first_definition st v = match fld v_first st v with Some l => if is_varassign l then Some l else None | None => None end.
Proof. unfold first_definition, fld, screate. destruct (slookup st v); reflexivity. Qed.

Lemma scope_mentioned_hist h v : mentioned (scope_run h) v = hd_error (defs_of v h).
Proof. rewrite mentioned_fld. unfold scope_run. rewrite run_first. reflexivity. Qed.

Lemma scope_last_hist h v :
  last_definition (scope_run h) v =
  match last_opt (defs_of v h) with Some l => if is_varassign l then Some l else None | None => None end.
Proof.
  rewrite last_definition_fld. unfold scope_run. rewrite run_last. unfold or_else.
  destruct (last_opt (defs_of v h)); reflexivity.
Qed.

(* IsDefined <-> the first Define that reached v was a real assignment *)
Lemma scope_isdefined_iff h v :
  is_defined (scope_run h) v = true <->
  exists l rest, defs_of v h = l :: rest /\ is_varassign l = true.
Proof.
  unfold is_defined. rewrite scope_mentioned_hist. destruct (defs_of v h) as [|l rest]; cbn [hd_error].
  - split; [discriminate|]. intros (l & r & H & _). discriminate.
  - split; [intros H; eauto|]. intros (l' & r & H & Hv). inversion H; subst. exact Hv.
Qed.

(* LastDefinition = l <-> the last Define that reached v was l, a real assignment *)
Lemma scope_lastdef_iff h v l :
  last_definition (scope_run h) v = Some l <->
  last_opt (defs_of v h) = Some l /\ is_varassign l = true.
Proof.
  rewrite scope_last_hist. destruct (last_opt (defs_of v h)) as [l'|].
  - destruct (is_varassign l') eqn:E; split.
    + intros H; inversion H; subst; auto.
    + intros [H _]; exact H.
    + discriminate.
    + intros [H Hv]. inversion H; subst. congruence.
  - split; [discriminate|intros [H _]; discriminate].
Qed.

(* FirstDefinition != nil <-> IsDefined, in every state *)
Lemma scope_firstdef_iff_isdefined st v :
  (exists l, first_definition st v = Some l) <-> is_defined st v = true.
Proof.
  rewrite first_definition_fld. unfold is_defined. rewrite mentioned_fld.
  destruct (fld v_first st v) as [l|]; [destruct (is_varassign l)|]; split;
    try discriminate; try (intros [? H]; discriminate); eauto.
Qed.

(* FirstDefinition returns what Mentioned returns whenever it returns anything *)
Lemma scope_firstdef_is_mentioned st v l :
  first_definition st v = Some l -> mentioned st v = Some l /\ is_varassign l = true.
Proof.
  rewrite first_definition_fld, mentioned_fld. destruct (fld v_first st v) as [l'|]; [|discriminate].
  destruct (is_varassign l') eqn:E; [|discriminate]. intros H; inversion H; subst. auto.
Qed.

Lemma last_opt_in {A} (l : list A) x : last_opt l = Some x -> In x l.
Proof.
  induction l as [|a t IH]; [discriminate|]. cbn [last_opt].
  destruct (last_opt t) eqn:E; intros H; inversion H; subst; [right; auto|left; reflexivity].
Qed.

Lemma last_opt_nonempty {A} (a : A) t : exists x, last_opt (a :: t) = Some x.
Proof. cbn [last_opt]. destruct (last_opt t); eauto. Qed.

(* the callers' idiom `if IsDefined(v) { ... LastDefinition(v).Line ... }` is safe when every
   Define that reached v carried a real assignment *)
Lemma scope_isdefined_lastdef_partial h v :
  (forall l, In l (defs_of v h) -> is_varassign l = true) ->
  is_defined (scope_run h) v = true -> exists l, last_definition (scope_run h) v = Some l.
Proof.
  intros Hall Hd. apply scope_isdefined_iff in Hd. destruct Hd as (l0 & rest & Hdefs & _).
  destruct (last_opt_nonempty l0 rest) as [x Hx]. rewrite <- Hdefs in Hx.
  exists x. apply scope_lastdef_iff. split; [exact Hx|]. apply Hall. apply last_opt_in. exact Hx.
Qed.

(* and it is enough that the last one did *)
Lemma scope_lastdef_nonnil_iff h v :
  (exists l, last_definition (scope_run h) v = Some l) <->
  (exists l, last_opt (defs_of v h) = Some l /\ is_varassign l = true).
Proof.
  split; intros [l H]; exists l; apply scope_lastdef_iff; exact H.
Qed.

(* a variable that was ever really assigned with != stays indeterminate *)
Lemma scope_indeterminate_iff h v :
  snd (last_value_found (scope_run h) v) = true <-> existsb is_shell_assign (defs_of v h) = true.
Proof.
  assert (E : snd (last_value_found (scope_run h) v) = fld v_indet (scope_run h) v).
  { unfold last_value_found, fld, screate. destruct (slookup (scope_run h) v) as [x|]; [|reflexivity].
    destruct (match v_first x with Some l => is_varassign l | None => false end); reflexivity. }
  rewrite E. unfold scope_run. rewrite run_indet. cbn. reflexivity.
Qed.

(* LastValueFound's `found` <-> IsDefined or a non-empty fallback *)
Lemma scope_found_iff st v :
  snd (fst (last_value_found st v)) = true <->
  is_defined st v = true \/ (is_defined st v = false /\ fld v_fallback st v <> []).
Proof.
  unfold last_value_found, is_defined, mentioned, fld, screate.
  destruct (slookup st v) as [x|]; cbn.
  - destruct (match v_first x with Some l => is_varassign l | None => false end) eqn:E; cbn.
    + tauto.
    + destruct (v_fallback x) as [|c fb]; split.
      * discriminate.
      * intros [H|[_ H]]; [discriminate|congruence].
      * intros _. right. split; [reflexivity|discriminate].
      * reflexivity.
  - split; [discriminate|]. intros [H|[_ H]]; [discriminate|congruence].
Qed.

(* ---- the unguarded statement is false ---- *)
Definition real_line (id : N) : sline := {| sl_id := id; sl_kind := 0; sl_op := 0; sl_value := [121%N] |}.
Definition commented_line (id : N) : sline := {| sl_id := id; sl_kind := 1; sl_op := 0; sl_value := [121%N] |}.
Definition name_A : str := [65%N].
Definition hist_real_then_commented : list sop := [ODefine name_A (real_line 1); ODefine name_A (commented_line 2)].
Definition hist_commented_then_real : list sop := [ODefine name_A (commented_line 1); ODefine name_A (real_line 2)].

Definition isdefined_lastdef_full : Prop :=
  forall h v, is_defined (scope_run h) v = true -> exists l, last_definition (scope_run h) v = Some l.

Lemma isdefined_lastdef_refuted : ~ isdefined_lastdef_full.
Proof.
  intros H. destruct (H hist_real_then_commented name_A) as [l Hl]; [vm_compute; reflexivity|].
  vm_compute in Hl. discriminate.
Qed.

(* ---- DefineAll ---- *)

Lemma insert_sorted_in k x l : In x (insert_sorted k l) -> x = k \/ In x l.
Proof.
  induction l as [|y t IH]; cbn [insert_sorted].
  - intros [<-|[]]; auto.
  - destruct (str_leb k y).
    + intros [<-|H]; auto.
    + intros [<-|H]; [right; left; reflexivity|]. destruct (IH H); [auto|right; right; auto].
Qed.

Lemma varnames_in st k : In k (varnames st) -> In k (map fst st).
Proof.
  unfold varnames. induction (map fst st) as [|y t IH]; cbn [fold_right]; [auto|].
  intros H. destruct (insert_sorted_in _ _ _ H) as [->|H']; [left; reflexivity|right; auto].
Qed.

Lemma slookup_key st k : In k (map fst st) -> exists x, slookup st k = Some x.
Proof.
  induction st as [|[k0 y] t IH]; [contradiction|]. cbn [map fst slookup].
  destruct (str_eqbP k0 k) as [->|Hne]; [eauto|]. intros [H|H]; [congruence|auto].
Qed.

(* partial correctness, for all states: when DefineAll does not panic it is that history *)
Lemma define_all_fold other : forall names acc st',
  fold_left (define_all_step other) names acc = Ok st' ->
  exists a, acc = Ok a /\
  st' = fold_left sstep (flat_map (fun k => match slookup other k with
                     | Some x => match v_first x, v_last x with
                                 | Some f, Some l => [ODefine k f; ODefine k l]
                                 | _, _ => []
                                 end
                     | None => []
                     end) names) a.
Proof.
  induction names as [|k t IH]; intros acc st' H; cbn [fold_left flat_map] in *.
  - destruct acc; try discriminate. inversion H; subst. eauto.
  - destruct (IH _ _ H) as (a1 & Hstep & ->). clear IH H.
    unfold define_all_step in Hstep. destruct acc as [a| |]; cbn [bind] in Hstep; try discriminate.
    exists a. split; [reflexivity|].
    destruct (slookup other k) as [x|]; [|discriminate].
    destruct (v_first x) as [f|].
    + destruct (v_last x) as [l|]; [|discriminate]. inversion Hstep; subst.
      rewrite fold_left_app. reflexivity.
    + inversion Hstep; subst. destruct (v_last x); reflexivity.
Qed.

Lemma define_all_as_history st other st' :
  sdefine_all st other = Ok st' -> st' = fold_left sstep (define_all_hist other) st.
Proof.
  unfold sdefine_all, define_all_hist. intros H.
  destruct (define_all_fold _ _ _ _ H) as (a & Ha & ->). inversion Ha; subst. reflexivity.
Qed.

(* a scope built by Define/Fallback/Use has a last definition wherever it has a first one *)
Lemma run_first_last_consistent h k f :
  fld v_first (scope_run h) k = Some f -> exists l, fld v_last (scope_run h) k = Some l.
Proof.
  unfold scope_run. rewrite run_first, run_last. cbn. unfold or_else.
  destruct (defs_of k h) as [|a t]; cbn [hd_error]; [discriminate|].
  intros _. destruct (last_opt_nonempty a t) as [x ->]. eauto.
Qed.

Lemma define_all_fold_ok other :
  (forall k x f, slookup other k = Some x -> v_first x = Some f -> exists l, v_last x = Some l) ->
  forall names, (forall k, In k names -> In k (map fst other)) ->
  forall a, exists st', fold_left (define_all_step other) names (Ok a) = Ok st'.
Proof.
  intros Hwf. induction names as [|k t IH]; intros Hin a; cbn [fold_left]; [eauto|].
  assert (Hk : In k (map fst other)) by (apply Hin; left; reflexivity).
  destruct (slookup_key _ _ Hk) as [x Hx].
  unfold define_all_step at 2. cbn [bind]. rewrite Hx.
  destruct (v_first x) as [f|] eqn:Hf.
  - destruct (Hwf _ _ _ Hx Hf) as [l ->]. apply IH. intros; apply Hin; right; auto.
  - apply IH. intros; apply Hin; right; auto.
Qed.

(* DefineAll(other) never panics when `other` was built by Define/Fallback/Use, whatever the target *)
Lemma define_all_no_panic st h : exists st', sdefine_all st (scope_run h) = Ok st'.
Proof.
  unfold sdefine_all. apply define_all_fold_ok.
  - intros k x f Hx Hf.
    assert (E1 : fld v_first (scope_run h) k = Some f) by (unfold fld, screate; rewrite Hx; exact Hf).
    destruct (run_first_last_consistent _ _ _ E1) as [l Hl].
    unfold fld, screate in Hl. rewrite Hx in Hl. eauto.
  - apply varnames_in.
Qed.

(* hence every history theorem applies to the target after DefineAll *)
Lemma define_all_run h h2 :
  exists st', sdefine_all (scope_run h) (scope_run h2) = Ok st' /\
              st' = scope_run (h ++ define_all_hist (scope_run h2)).
Proof.
  destruct (define_all_no_panic (scope_run h) h2) as [st' H]. exists st'. split; [exact H|].
  rewrite (define_all_as_history _ _ _ H). unfold scope_run. rewrite fold_left_app. reflexivity.
Qed.

(* defect 16 in the model: DefineAll copies the commented last line, the copy is "defined" with a nil
   LastDefinition *)
Lemma define_all_copies_commented :
  exists st', sdefine_all [] (scope_run hist_real_then_commented) = Ok st' /\
              is_defined st' name_A = true /\ last_definition st' name_A = None.
Proof. eexists. split; [vm_compute; reflexivity|]. split; vm_compute; reflexivity. Qed.
