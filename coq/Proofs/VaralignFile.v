(* VaralignBlock over all lines of a file (process_file): blanks only, same
   kinds, same number of lines -- lifted from finish_blanks_only. *)
From PV Require Import Lib.Bytes Model.Tabs Model.Varalign Proofs.Tabs Proofs.VaralignBlanks.
Open Scope Z_scope.

Definition fline_rel (f f' : fline) : Prop :=
  fkind f' = fkind f /\ Forall2 line_rel (finfos f) (finfos f').
Definition wf_fline (f : fline) : Prop := Forall (fun i => wf (ps i)) (finfos f).

Lemma fline_rel_refl f : fline_rel f f.
Proof. split; [reflexivity|apply Forall2_refl, line_rel_refl]. Qed.

Lemma put_back_rel pending : forall ms',
  Forall2 (Forall2 line_rel) (map finfos (filter (fun f => participates (fkind f)) pending)) ms' ->
  Forall2 fline_rel pending (put_back pending ms').
Proof.
  induction pending as [|f r IH]; intros ms' H; simpl; [constructor|].
  simpl in H. destruct (participates (fkind f)) eqn:P.
  - simpl in H. inversion H as [|? x ? fx Hx Hr]; subst.
    constructor; [split; [reflexivity|exact Hx]|]. apply IH, Hr.
  - constructor; [apply fline_rel_refl|]. apply IH, H.
Qed.

Lemma flush_rel pending skip out : Forall wf_fline pending ->
  flush_pending pending skip = Ok out -> Forall2 fline_rel pending out.
Proof.
  intros W H. unfold flush_pending in H.
  destruct (finish _ skip) as [ms|] eqn:F; [|discriminate]. cbn [bind] in H. inversion H; subst.
  apply put_back_rel. eapply finish_blanks_only; [|exact F].
  unfold wf_block. apply Forall_forall. intros l Hl. apply in_map_iff in Hl as (f & <- & Hf).
  apply filter_In in Hf as [Hf _]. rewrite Forall_forall in W. apply W, Hf.
Qed.

Theorem process_file_blanks_only ls : forall pending_rev skip out,
  Forall wf_fline ls -> Forall wf_fline pending_rev ->
  process_file ls pending_rev skip = Ok out ->
  Forall2 fline_rel (rev pending_rev ++ ls) out.
Proof.
  induction ls as [|f r IH]; intros pr skip out W Wp H; simpl in H.
  - rewrite app_nil_r. eapply flush_rel; [|exact H]. apply Forall_rev, Wp.
  - inversion W as [|? ? Wf Wr]; subst.
    assert (STEP : forall sk, process_file r (f :: pr) sk = Ok out -> Forall2 fline_rel (rev pr ++ f :: r) out).
    { intros sk Hs. apply IH in Hs; [|exact Wr|constructor; assumption].
      simpl in Hs. rewrite <- app_assoc in Hs. exact Hs. }
    destruct (fkind f) eqn:K; try (eapply STEP; exact H).
    destruct (flush_pending (rev pr) skip) as [a|] eqn:FA; [|discriminate]. cbn [bind] in H.
    destruct (process_file r [] false) as [b|] eqn:FB; [|discriminate]. cbn [bind] in H.
    inversion H; subst.
    apply Forall2_app; [eapply flush_rel; [apply Forall_rev, Wp|exact FA]|].
    constructor; [apply fline_rel_refl|].
    apply (IH [] false b Wr (Forall_nil _) FB).
Qed.
