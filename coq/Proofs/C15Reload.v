(* C15 x C09: re-loading a makefile after a layout fix.

   The loader model of C09 (Model/Lines.v, convert_to_logical_lines in makefile
   mode) groups the physical lines of a file into logical lines: a physical line
   whose content ends in an odd number of backslashes is continued by the next
   one.  A layout fix rewrites physical lines; "the line structure is the same
   before and after" means: the file that is written back, loaded again, has the
   same number of logical lines and each of them has the physical lines the fix
   made of the old ones.

   Part 1 is generic: any rewriting of the physical lines, logical line by
   logical line, that keeps for every physical line (a) whether it asks for a
   continuation, (b) whether it ends in a line feed, (c) that it is a physical
   line at all (not empty, a line feed only at the end), keeps the grouping.
   Parts 2-4 instantiate it with the trailing-whitespace fix (as repaired in
   /repo a0c5e27), the directive re-indentation and the shell-tab
   normalisation of Model/LayoutFix.v, for ALL file texts.  Part 5: the old
   trailing-whitespace fix (trim regardless of a backslash) is kept here, only
   as the counterexample. *)
From PV Require Import Lib.Bytes Lib.LinesLib Model.Lines Spec.LinesSpec
  Proofs.Lines Proofs.LinesLoop Proofs.LinesComplete.
From PV Require Model.Tabs Model.Varalign Model.LayoutFix Proofs.Tabs Proofs.LayoutFix.
From Coq Require Import ZifyBool ZifyN ZifyNat.
Open Scope N_scope.

(* ================= 1. the generic statement ================= *)

Definition same_cont (r r' : str) : Prop :=
  continues r' = continues r /\ ends_nl r' = ends_nl r /\ raw_ok r' = true.

Lemma group_ok_same b g g' : Forall2 same_cont g g' -> group_ok b g = true -> group_ok b g' = true.
Proof.
  induction 1 as [|r r' g g' (C & _ & _) HF IH]; [trivial|]. cbn [group_ok].
  destruct g as [|x g]; inversion HF; subst.
  - rewrite C. trivial.
  - rewrite C. intros HH. apply andb_true_iff in HH as [HHa HHb]. rewrite HHa. apply IH. exact HHb.
Qed.

Lemma all_but_last_same (p : str -> bool) l l' :
  Forall2 (fun a b => p b = p a) l l' -> all_but_last p l' = all_but_last p l.
Proof.
  induction 1 as [|a b l l' E HF IH]; [reflexivity|]. cbn [all_but_last].
  destruct l as [|x l]; inversion HF; subst; [reflexivity|]. rewrite E, IH. reflexivity.
Qed.

Lemma Forall2_len {A B} (R : A -> B -> Prop) l l' : Forall2 R l l' -> length l = length l'.
Proof. induction 1; simpl; congruence. Qed.

Section Generic.
  Variable F : list str -> list str.

  Lemma flat_same ls : (forall l, In l ls -> Forall2 same_cont (raws l) (F (raws l))) ->
    Forall2 same_cont (flat_map raws ls) (flat_map (fun l => F (raws l)) ls).
  Proof.
    induction ls as [|l ls IH]; intros H; [constructor|]. cbn [flat_map].
    apply Forall2_app; [apply H; left; reflexivity|apply IH; intros x Hx; apply H; right; exact Hx].
  Qed.

  Definition fixed_obs (l : line) : obs_line := (lineno l, text l, F (raws l)).

  Lemma fixed_grouping ls : (forall l, In l ls -> Forall2 same_cont (raws l) (F (raws l))) ->
    grouping_mk (map obs ls) = true -> grouping_mk (map fixed_obs ls) = true.
  Proof.
    induction ls as [|l ls IH]; intros H G; [reflexivity|]. cbn [map grouping_mk] in *.
    apply andb_true_iff in G as [G1 G2]. apply andb_true_iff. split.
    - unfold o_raws, fixed_obs, obs in *. cbn [snd] in *.
      apply (group_ok_same _ (raws l)); [apply H; left; reflexivity|].
      destruct ls; exact G1.
    - apply IH; [intros x Hx; apply H; right; exact Hx|exact G2].
  Qed.

  Theorem reload_same_grouping s ls e :
    convert_to_logical_lines s true = Ok (ls, e) ->
    (forall l, In l ls -> Forall2 same_cont (raws l) (F (raws l))) ->
    exists ls' e',
      convert_to_logical_lines (concat (flat_map (fun l => F (raws l)) ls)) true = Ok (ls', e')
      /\ map raws ls' = map (fun l => F (raws l)) ls.
  Proof.
    intros Hc HF.
    destruct (convert_spec s true) as (ls0 & E0 & R0 & _ & G0 & _).
    rewrite E0 in Hc. injection Hc as <- _.
    set (L' := flat_map (fun l => F (raws l)) ls0).
    pose proof (flat_same ls0 HF) as Hsame. fold L' in Hsame. rewrite R0 in Hsame.
    (* the new physical lines are physical lines *)
    assert (V' : valid_raws L').
    { destruct (raw_lines_shape s) as [_ A]. split.
      - apply forallb_forall. intros r' Hr'.
        clear - Hsame Hr'. induction Hsame as [|a b l l' (_ & _ & K) _ IH]; [contradiction|].
        destruct Hr' as [<-|Hr']; [exact K|exact (IH Hr')].
      - rewrite (all_but_last_same ends_nl (raw_lines_of s) L'); [exact A|].
        clear - Hsame. induction Hsame as [|a b l l' (_ & K & _) _ IH]; constructor; assumption. }
    (* so the loader finds exactly them in the new text *)
    assert (RL : raw_lines_of (concat L') = L').
    { apply valid_raws_unique; [exact (raw_lines_shape (concat L'))|exact V'|apply raw_lines_concat]. }
    destruct (convert_spec (concat L') true) as (ls' & E' & R' & _ & G' & _).
    exists ls', (eof_flag (concat L')). split; [exact E'|].
    assert (M : map o_raws (map obs ls') = map o_raws (map fixed_obs ls0)).
    { apply grouping_mk_unique; [exact G'|apply fixed_grouping; assumption|].
      rewrite map_obs_raws, R', RL. unfold all_raws, L'.
      rewrite !flat_map_concat_map, map_map. reflexivity. }
    rewrite !map_map in M. exact M.
  Qed.

  Corollary reload_same_line_count s ls e :
    convert_to_logical_lines s true = Ok (ls, e) ->
    (forall l, In l ls -> Forall2 same_cont (raws l) (F (raws l))) ->
    exists ls' e',
      convert_to_logical_lines (concat (flat_map (fun l => F (raws l)) ls)) true = Ok (ls', e')
      /\ length ls' = length ls
      /\ map (fun l => length (raws l)) ls' = map (fun l => length (raws l)) ls.
  Proof.
    intros Hc HF. destruct (reload_same_grouping s ls e Hc HF) as (ls' & e' & E & M).
    exists ls', e'. split; [exact E|].
    assert (Len : length ls' = length ls).
    { apply (f_equal (@length _)) in M. rewrite !map_length in M. exact M. }
    split; [exact Len|].
    apply (f_equal (map (@length str))) in M. rewrite !map_map in M. rewrite M.
    apply map_ext_in. intros l Hl. symmetry. exact (Forall2_len _ _ _ (HF l Hl)).
  Qed.
End Generic.

(* ================= physical line = content + optional line feed ================= *)

Definition nlpart (r : str) : str := if ends_nl r then [10] else [].

(* a fix of the content of a physical line, put back in front of its line feed *)
Definition refit (f : str -> str) (r : str) : str := f (content r) ++ nlpart r.

Definition nlfree (s : str) : Prop := existsb is_nl s = false.

Lemma raw_ok_content_nlfree r : raw_ok r = true -> nlfree (content r).
Proof.
  unfold raw_ok, content, nlfree. intros H. apply andb_true_iff in H as [_ H]. apply negb_true_iff in H.
  destruct (ends_nl r) eqn:E; [exact H|].
  destruct (list_snoc_cases r) as [->|(r' & x & ->)]; [reflexivity|].
  rewrite removelast_snoc in H. rewrite existsb_app, H. cbn [existsb].
  unfold ends_nl in E. rewrite last_snoc in E. rewrite E. reflexivity.
Qed.

Lemma last_app_nonempty (a b : str) d : b <> [] -> last (a ++ b) d = last b d.
Proof.
  intros Hb. destruct (list_snoc_cases b) as [->|(b' & x & ->)]; [congruence|].
  rewrite app_assoc, !last_snoc. reflexivity.
Qed.

Lemma nlfree_last_not_nl c : nlfree c -> is_nl (last c 0) = false.
Proof.
  intros H. destruct (list_snoc_cases c) as [->|(c' & x & ->)]; [reflexivity|].
  rewrite last_snoc. unfold nlfree in H. rewrite existsb_app in H. apply orb_false_iff in H as [_ H].
  cbn [existsb] in H. apply orb_false_iff in H as [H _]. exact H.
Qed.

(* the physical line made of a line-feed-free content c and the line feed of r *)
Lemma built_ends_nl c r : nlfree c -> ends_nl (c ++ nlpart r) = ends_nl r.
Proof.
  intros H. unfold nlpart. destruct (ends_nl r) eqn:E.
  - unfold ends_nl. rewrite last_snoc. reflexivity.
  - rewrite app_nil_r. unfold ends_nl. apply nlfree_last_not_nl. exact H.
Qed.

Lemma built_content c r : nlfree c -> content (c ++ nlpart r) = c.
Proof.
  intros H. unfold content. rewrite (built_ends_nl c r H). unfold nlpart.
  destruct (ends_nl r); [apply removelast_snoc|apply app_nil_r].
Qed.

Lemma built_raw_ok c r : nlfree c -> (c <> [] \/ ends_nl r = true) -> raw_ok (c ++ nlpart r) = true.
Proof.
  intros H Hne. unfold raw_ok. apply andb_true_iff. split.
  - apply negb_true_iff. unfold nlpart. destruct (ends_nl r); [destruct c; reflexivity|].
    rewrite app_nil_r. destruct Hne as [Hc|Hc]; [destruct c; [congruence|reflexivity]|discriminate].
  - apply negb_true_iff. unfold nlpart. destruct (ends_nl r).
    + rewrite removelast_snoc. exact H.
    + rewrite app_nil_r. apply existsb_removelast. exact H.
Qed.

Lemma continues_built c r : nlfree c ->
  continues (c ++ nlpart r) = Nat.odd (trailing_count is_bs c).
Proof. intros H. unfold continues. rewrite (built_content c r H). reflexivity. Qed.

Lemma raw_split r : raw_ok r = true -> r = content r ++ nlpart r.
Proof.
  intros H. unfold content, nlpart. destruct (ends_nl r) eqn:E; [|symmetry; apply app_nil_r].
  destruct (list_snoc_cases r) as [->|(r' & x & ->)]; [discriminate|].
  rewrite removelast_snoc. unfold ends_nl in E. rewrite last_snoc in E. apply N.eqb_eq in E. subst x. reflexivity.
Qed.

(* a fix of the content that keeps the parity of the trailing backslashes, adds
   no line feed and does not make an unterminated line vanish *)
Lemma refit_same_cont f r : raw_ok r = true ->
  nlfree (f (content r)) ->
  Nat.odd (trailing_count is_bs (f (content r))) = Nat.odd (trailing_count is_bs (content r)) ->
  (f (content r) <> [] \/ ends_nl r = true) ->
  same_cont r (refit f r).
Proof.
  intros Hr Hn Hc Hne. unfold same_cont, refit. split; [|split].
  - rewrite (continues_built _ r Hn). exact Hc.
  - apply built_ends_nl. exact Hn.
  - apply built_raw_ok; assumption.
Qed.

Lemma same_cont_refl r : raw_ok r = true -> same_cont r r.
Proof. intros H. repeat split. exact H. Qed.

(* trailing backslashes of a string that ends in something else *)
Lemma trailing_count_end_not p s c : p c = false -> trailing_count p (s ++ [c]) = 0%nat.
Proof. intros H. rewrite trailing_count_snoc, H. reflexivity. Qed.

Lemma trailing_count_nil p : trailing_count p [] = 0%nat. Proof. reflexivity. Qed.

(* appending bytes that are not p after a p-free end resets the count; what we need:
   the count only depends on the maximal p-suffix *)
Lemma trailing_count_app_all p a b : forallb p b = true ->
  trailing_count p (a ++ b) = (trailing_count p a + length b)%nat.
Proof.
  revert a. induction b as [|c b IH] using rev_ind; intros a H.
  - rewrite app_nil_r. simpl. lia.
  - rewrite forallb_app in H. apply andb_true_iff in H as [Hb Hc]. cbn [forallb] in Hc.
    apply andb_true_iff in Hc as [Hc _].
    rewrite app_assoc, trailing_count_snoc, Hc, IH by exact Hb. rewrite app_length. simpl. lia.
Qed.

(* s = front ++ back, back all backslashes, front not ending in a backslash *)
Lemma bs_split s : exists front back, s = front ++ back /\ forallb is_bs back = true /\
  trailing_count is_bs front = 0%nat.
Proof.
  induction s as [|c s IH] using rev_ind.
  - exists [], []. repeat split.
  - destruct IH as (front & back & -> & Hb & Hf). destruct (is_bs c) eqn:Ec.
    + exists front, (back ++ [c]). rewrite app_assoc. repeat split; [|exact Hf].
      rewrite forallb_app, Hb. simpl. rewrite Ec. reflexivity.
    + exists ((front ++ back) ++ [c]), []. rewrite app_nil_r. repeat split.
      apply trailing_count_end_not. exact Ec.
Qed.

(* replacing a prefix that is followed by at least one byte, or whose replacement and
   original both end in a non-backslash, keeps the count of trailing backslashes *)
Lemma trailing_count_prefix_change a a' rest :
  trailing_count is_bs a = 0%nat -> trailing_count is_bs a' = 0%nat ->
  trailing_count is_bs (a' ++ rest) = trailing_count is_bs (a ++ rest).
Proof.
  intros Ha Ha'. destruct (bs_split rest) as (front & back & -> & Hb & Hf).
  rewrite !app_assoc.
  rewrite (trailing_count_app_all _ (a' ++ front) back Hb), (trailing_count_app_all _ (a ++ front) back Hb).
  f_equal.
  destruct (list_snoc_cases front) as [->|(f' & x & ->)].
  - rewrite !app_nil_r. congruence.
  - rewrite trailing_count_snoc in Hf. rewrite !app_assoc, !trailing_count_snoc.
    destruct (is_bs x); [discriminate|reflexivity].
Qed.

(* ================= 2. CheckTrailingWhitespace ================= *)

Import Model.Tabs Model.LayoutFix Proofs.LayoutFix.
Open Scope N_scope.

(* the fix on the physical lines of one logical line: the model's function on the
   contents, every line feed stays where it was; a Go panic leaves the lines alone
   (there is none on a logical line, C15_trailing_exact) *)
Definition refit_list (cs' : list str) (rs : list str) : list str :=
  map (fun p => fst p ++ nlpart (snd p)) (combine cs' rs).

Definition trailing_fix (rs : list str) : list str :=
  match checkTrailingWhitespace (map content rs) with
  | Varalign.Ok cs' => refit_list cs' rs
  | Varalign.Panic => rs
  end.

Definition trailing_fix_file (ls : list line) : str :=
  concat (flat_map (fun l => trailing_fix (raws l)) ls).

Lemma is_hspace_not_bs c : is_hspace c = true -> is_bs c = false.
Proof. unfold is_hspace, is_bs. intros H. destruct (N.eqb_spec c 92); [subst; discriminate|reflexivity]. Qed.

Lemma blank_trailing_count t b : blankb b = true -> b <> [] -> trailing_count is_bs (t ++ b) = 0%nat.
Proof.
  intros B NE. destruct (list_snoc_cases b) as [->|(b' & x & ->)]; [congruence|].
  rewrite app_assoc. apply trailing_count_end_not. apply is_hspace_not_bs.
  unfold blankb in B. rewrite forallb_app in B. apply andb_true_iff in B as [_ B]. simpl in B.
  apply andb_true_iff in B as [B _]. exact B.
Qed.

Lemma ends_backslash_count t : ends_backslash t = false -> trailing_count is_bs t = 0%nat.
Proof.
  unfold ends_backslash. destruct (list_snoc_cases t) as [->|(t' & x & ->)]; [reflexivity|].
  rewrite last_snoc. intros H. apply trailing_count_end_not. exact H.
Qed.

Lemma nlfree_app a b : nlfree (a ++ b) <-> nlfree a /\ nlfree b.
Proof. unfold nlfree. rewrite existsb_app, orb_false_iff. reflexivity. Qed.

(* the one line the fix may change *)
Lemma trim_result_same_cont r : raw_ok r = true ->
  (trim_result (content r) <> [] \/ ends_nl r = true) ->
  same_cont r (trim_result (content r) ++ nlpart r).
Proof.
  intros Hr Hne. apply (refit_same_cont trim_result r Hr).
  - pose proof (raw_ok_content_nlfree r Hr) as Hn. unfold trim_result.
    destruct (ends_backslash _); [exact Hn|].
    destruct (Proofs.Tabs.rtrimHspace_split (content r)) as (b & E & _). rewrite E in Hn.
    apply nlfree_app in Hn. tauto.
  - unfold trim_result. destruct (ends_backslash (rtrimHspace (content r))) eqn:Eb; [reflexivity|].
    destruct (Proofs.Tabs.rtrimHspace_split (content r)) as (b & E & B).
    destruct b as [|b0 b].
    + rewrite app_nil_r in E. rewrite <- E. reflexivity.
    + rewrite E at 2. rewrite (blank_trailing_count _ (b0 :: b) B) by discriminate.
      rewrite (ends_backslash_count _ Eb). reflexivity.
  - exact Hne.
Qed.

(* a physical line that is blanks only and has no line feed (the last line of a file
   that does not end in a line feed) would vanish; everything else is covered *)
Definition no_vanishing_line (rs : list str) : Prop :=
  trim_result (content (last rs [])) <> [] \/ ends_nl (last rs []) = true.

Lemma refit_list_id rs : Forall (fun r => raw_ok r = true) rs -> refit_list (map content rs) rs = rs.
Proof.
  induction 1 as [|r rs Hr _ IH]; [reflexivity|]. unfold refit_list in *. cbn [map combine fst snd].
  rewrite IH, <- (raw_split r Hr). reflexivity.
Qed.

Lemma combine_app_eq {A B} (a1 a2 : list A) (b1 b2 : list B) : length a1 = length b1 ->
  combine (a1 ++ a2) (b1 ++ b2) = combine a1 b1 ++ combine a2 b2.
Proof.
  revert b1. induction a1 as [|x a1 IH]; intros [|y b1] H; simpl in *; try discriminate; [reflexivity|].
  f_equal. apply IH. lia.
Qed.

Lemma trailing_fix_spec rs : rs <> [] -> Forall (fun r => raw_ok r = true) rs ->
  exists init last_, rs = init ++ [last_] /\
    trailing_fix rs = init ++ [trim_result (content last_) ++ nlpart last_].
Proof.
  intros NE Hok. destruct (list_snoc_cases rs) as [->|(init & l & ->)]; [congruence|].
  exists init, l. split; [reflexivity|]. unfold trailing_fix.
  destruct (checkTrailingWhitespace_spec (map content (init ++ [l]))) as (i2 & l2 & E2 & R2).
  { rewrite map_app. destruct (map content init); discriminate. }
  rewrite map_app in E2. cbn [map] in E2. apply app_inj_tail in E2 as [<- <-]. rewrite R2.
  apply Forall_app in Hok as [Hi Hl].
  unfold refit_list. rewrite combine_app_eq by (rewrite map_length; reflexivity).
  rewrite map_app. cbn [combine map fst snd]. f_equal.
  exact (refit_list_id init Hi).
Qed.

Lemma trailing_fix_same rs : rs <> [] -> Forall (fun r => raw_ok r = true) rs ->
  no_vanishing_line rs -> Forall2 same_cont rs (trailing_fix rs).
Proof.
  intros NE Hok Hv. destruct (trailing_fix_spec rs NE Hok) as (init & l & -> & ->).
  apply Forall_app in Hok as [Hi Hl]. inversion Hl as [|? ? Hl1 _]; subst.
  unfold no_vanishing_line in Hv. rewrite last_snoc in Hv.
  apply Forall2_app.
  - clear - Hi. induction Hi; constructor; [apply same_cont_refl; assumption|assumption].
  - constructor; [|constructor]. apply trim_result_same_cont; assumption.
Qed.

Lemma loaded_raws_ok s mk ls e l : convert_to_logical_lines s mk = Ok (ls, e) -> In l ls ->
  raws l <> [] /\ Forall (fun r => raw_ok r = true) (raws l).
Proof.
  intros Hc Hl. pose proof (raws_are_raw_lines _ _ _ _ Hc) as R.
  destruct (raw_lines_shape s) as [A _]. rewrite <- R in A. rewrite forallb_forall in A.
  split.
  - destruct (convert_spec s mk) as (ls0 & E0 & _ & _ & G0 & _). rewrite E0 in Hc. injection Hc as <- _.
    destruct mk; cbn [grouping_ok] in G0.
    + clear - G0 Hl. induction ls0 as [|x ls0 IH]; [contradiction|]. cbn [map grouping_mk] in G0.
      apply andb_true_iff in G0 as [G1 G2]. destruct Hl as [<-|Hl]; [|exact (IH Hl G2)].
      apply group_ok_nonempty in G1. exact G1.
    + unfold grouping_plain in G0. rewrite forallb_forall in G0.
      specialize (G0 (obs l) (in_map obs _ _ Hl)). unfold o_raws, obs in G0. cbn [snd] in G0.
      destruct (raws l); [discriminate|discriminate].
  - apply Forall_forall. intros r Hr. apply A. apply in_flat_map. exists l. split; assumption.
Qed.

(* for ALL file texts: after CheckTrailingWhitespace on every logical line the file,
   loaded again, has the same logical lines, each made of the fixed physical lines *)
Theorem trailing_keeps_line_structure s ls e :
  convert_to_logical_lines s true = Ok (ls, e) ->
  (forall l, In l ls -> no_vanishing_line (raws l)) ->
  exists ls' e',
    convert_to_logical_lines (trailing_fix_file ls) true = Ok (ls', e')
    /\ length ls' = length ls
    /\ map (fun l => length (raws l)) ls' = map (fun l => length (raws l)) ls
    /\ map raws ls' = map (fun l => trailing_fix (raws l)) ls.
Proof.
  intros Hc Hv.
  assert (HF : forall l, In l ls -> Forall2 same_cont (raws l) (trailing_fix (raws l))).
  { intros l Hl. destruct (loaded_raws_ok _ _ _ _ l Hc Hl) as [NE Hok].
    apply trailing_fix_same; [exact NE|exact Hok|exact (Hv l Hl)]. }
  destruct (reload_same_line_count trailing_fix s ls e Hc HF) as (ls' & e' & E & L1 & L2).
  destruct (reload_same_grouping trailing_fix s ls e Hc HF) as (ls'' & e'' & E2 & M).
  unfold trailing_fix_file. rewrite E in E2. injection E2 as <- <-.
  exists ls', e'. repeat split; assumption.
Qed.

(* the side condition only excludes a last line of blanks without a line feed: every
   line that ends in a line feed satisfies it *)
Lemma no_vanishing_of_nl rs : ends_nl (last rs []) = true -> no_vanishing_line rs.
Proof. intros H. right. exact H. Qed.

(* ================= 3. checkDirectiveIndentation ================= *)

(* a "prefix of blanks after one non-backslash byte" never ends in a backslash *)
Lemma head_blanks_count c b : is_bs c = false -> blankb b = true -> trailing_count is_bs (c :: b) = 0%nat.
Proof.
  intros Hc B. destruct (list_snoc_cases b) as [->|(b' & x & ->)].
  - change [c] with ([] ++ [c]). apply trailing_count_end_not. exact Hc.
  - change (c :: b' ++ [x]) with ((c :: b') ++ [x]). apply trailing_count_end_not. apply is_hspace_not_bs.
    unfold blankb in B. rewrite forallb_app in B. apply andb_true_iff in B as [_ B]. simpl in B.
    apply andb_true_iff in B as [B _]. exact B.
Qed.

Lemma nlfree_blank b : blankb b = true -> nlfree b.
Proof.
  unfold nlfree, blankb. induction b as [|c b IH]; [reflexivity|]. cbn [forallb existsb]. intros H.
  apply andb_true_iff in H as [Hc Hb]. rewrite (IH Hb), orb_false_r.
  unfold is_hspace in Hc. unfold is_nl. destruct (N.eqb_spec c 10); [subst; discriminate|reflexivity].
Qed.

(* the fix on the physical lines of a directive line: the first one is re-indented *)
Definition directive_fix (sn : bool) (indent : str) (d : Z) (rs : list str) : list str :=
  match rs with
  | [] => []
  | r0 :: rest =>
    match checkDirectiveIndentation sn (content r0) indent d with
    | Varalign.Ok c' => (c' ++ nlpart r0) :: rest
    | Varalign.Panic => rs
    end
  end.

Lemma directive_fix_same sn indent d rs : blankb indent = true ->
  Forall (fun r => raw_ok r = true) rs -> Forall2 same_cont rs (directive_fix sn indent d rs).
Proof.
  intros B Hok. destruct rs as [|r0 rest]; [constructor|]. cbn [directive_fix].
  inversion Hok as [|? ? H0 Hrest]; subst.
  assert (Hrefl : Forall2 same_cont rest rest).
  { clear - Hrest. induction Hrest; constructor; [apply same_cont_refl; assumption|assumption]. }
  destruct (checkDirectiveIndentation sn (content r0) indent d) as [c'|] eqn:E;
    [|constructor; [apply same_cont_refl; exact H0|exact Hrefl]].
  constructor; [|exact Hrefl].
  destruct (directive_blanks_only sn (content r0) indent d c' B E) as [_ [->|(rest' & E1 & ->)]].
  - rewrite <- (raw_split r0 H0). apply same_cont_refl. exact H0.
  - pose proof (raw_ok_content_nlfree r0 H0) as Hn. rewrite E1 in Hn.
    change (DOT :: indent ++ rest') with ((DOT :: indent) ++ rest') in Hn.
    apply nlfree_app in Hn as [_ Hn].
    apply (refit_same_cont (fun _ => DOT :: spaces d ++ rest') r0 H0).
    + change (DOT :: spaces d ++ rest') with ((DOT :: spaces d) ++ rest').
      apply nlfree_app. split; [|exact Hn].
      change (DOT :: spaces d) with ([DOT] ++ spaces d). apply nlfree_app. split; [reflexivity|].
      apply nlfree_blank. apply Proofs.Tabs.blankb_spaces.
    + rewrite E1.
      change (DOT :: spaces d ++ rest') with ((DOT :: spaces d) ++ rest').
      change (DOT :: indent ++ rest') with ((DOT :: indent) ++ rest').
      rewrite (trailing_count_prefix_change (DOT :: indent) (DOT :: spaces d) rest'); [reflexivity| |].
      * apply head_blanks_count; [reflexivity|exact B].
      * apply head_blanks_count; [reflexivity|apply Proofs.Tabs.blankb_spaces].
    + left. discriminate.
Qed.

(* for ALL file texts: re-indenting the directives (any choice of lines, depths and parsed
   indentations made of blanks) keeps the line structure *)
Theorem directive_keeps_line_structure s ls e (choice : line -> bool * str * Z) :
  convert_to_logical_lines s true = Ok (ls, e) ->
  (forall l, In l ls -> blankb (snd (fst (choice l))) = true) ->
  let F := fun l => directive_fix (fst (fst (choice l))) (snd (fst (choice l))) (snd (choice l)) (raws l) in
  exists ls' e',
    convert_to_logical_lines (concat (flat_map F ls)) true = Ok (ls', e')
    /\ map raws ls' = map F ls.
Proof.
  intros Hc HB F.
  (* the generic theorem wants a function of the physical lines; lines with equal physical lines
     may be treated differently here, so go through the grouping lemmas directly *)
  destruct (convert_spec s true) as (ls0 & E0 & R0 & _ & G0 & _).
  rewrite E0 in Hc. injection Hc as <- _.
  assert (HF : forall l, In l ls0 -> Forall2 same_cont (raws l) (F l)).
  { intros l Hl. unfold F. apply directive_fix_same; [apply HB; exact Hl|].
    destruct (loaded_raws_ok s true ls0 _ l E0 Hl) as [_ Hok]. exact Hok. }
  set (L' := flat_map F ls0).
  assert (Hsame : Forall2 same_cont (flat_map raws ls0) L').
  { unfold L'. clear - HF. revert HF. induction ls0 as [|l ls IH]; intros HF; [constructor|]. cbn [flat_map].
    apply Forall2_app; [apply HF; left; reflexivity|apply IH; intros x Hx; apply HF; right; exact Hx]. }
  rewrite R0 in Hsame.
  assert (V' : valid_raws L').
  { destruct (raw_lines_shape s) as [_ A]. split.
    - apply forallb_forall. intros r' Hr'.
      clear - Hsame Hr'. induction Hsame as [|a b l l' (_ & _ & K) _ IH]; [contradiction|].
      destruct Hr' as [<-|Hr']; [exact K|exact (IH Hr')].
    - rewrite (all_but_last_same ends_nl (raw_lines_of s) L'); [exact A|].
      clear - Hsame. induction Hsame as [|a b l l' (_ & K & _) _ IH]; constructor; assumption. }
  assert (RL : raw_lines_of (concat L') = L').
  { apply valid_raws_unique; [exact (raw_lines_shape (concat L'))|exact V'|apply raw_lines_concat]. }
  destruct (convert_spec (concat L') true) as (ls' & E' & R' & _ & G' & _).
  exists ls', (eof_flag (concat L')). split; [exact E'|].
  set (O2 := map (fun l => (lineno l, text l, F l)) ls0).
  assert (G2 : grouping_mk O2 = true).
  { unfold O2. clear - HF G0. cbn [grouping_ok] in G0. revert HF G0.
    induction ls0 as [|l ls IH]; intros HF G0; [reflexivity|].
    cbn [map grouping_mk] in *. apply andb_true_iff in G0 as [G1 G2]. apply andb_true_iff. split.
    - unfold o_raws, obs in *. cbn [snd] in *.
      apply (group_ok_same _ (raws l)); [apply HF; left; reflexivity|]. destruct ls; exact G1.
    - apply IH; [intros x Hx; apply HF; right; exact Hx|exact G2]. }
  assert (M : map o_raws (map obs ls') = map o_raws O2).
  { apply grouping_mk_unique; [exact G'|exact G2|].
    rewrite map_obs_raws, R', RL. unfold all_raws, L', O2.
    rewrite !flat_map_concat_map, map_map. reflexivity. }
  unfold O2 in M. rewrite !map_map in M. exact M.
Qed.

(* ================= 4. the tab normalisation of checkShellCommand ================= *)

Definition shell_fix (flag : bool) (rs : list str) : list str :=
  match shellTabs flag (map content rs) with
  | Varalign.Ok cs' => refit_list cs' rs
  | Varalign.Panic => rs
  end.

Lemma shellTabs_shape flag cs cs' : shellTabs flag cs = Varalign.Ok cs' ->
  Forall2 (fun c c' => c' = c \/ exists tb rest, trailing_count is_bs tb = 0%nat /\ nlfree [TAB] /\
                                         c = tb ++ rest /\ c' = [TAB] ++ rest) cs cs'.
Proof.
  unfold shellTabs. destruct (negb flag).
  { intro H; inversion H; subst. clear. induction cs'; constructor; auto. }
  destruct cs as [|r0 rs]; [discriminate|].
  set (tb := leading_tabs r0). pose proof (leading_tabs_blank r0 : blankb tb = true) as B.
  generalize (r0 :: rs). clearbody tb. clear r0 rs. intros l. revert cs'.
  induction l as [|r l IH]; intros cs' H; simpl in H.
  - inversion H; constructor.
  - destruct (if has_prefix tb r then Varalign.replace_at r 0 tb [TAB] else Varalign.Ok r) as [r'|] eqn:E; [|discriminate].
    cbn [Varalign.bind] in H. destruct (Varalign.map_res _ l) as [l'|] eqn:M; [|discriminate]. cbn [Varalign.bind] in H.
    inversion H; subst. constructor; [|apply IH; reflexivity].
    destruct (has_prefix tb r).
    + apply replace_at_0 in E as (rest & E1 & E2). subst. right. exists tb, rest. repeat split.
      destruct (list_snoc_cases tb) as [->|(t' & x & ->)]; [reflexivity|].
      apply trailing_count_end_not. apply is_hspace_not_bs.
      unfold blankb in B. rewrite forallb_app in B. apply andb_true_iff in B as [_ B]. simpl in B.
      apply andb_true_iff in B as [B _]. exact B.
    + inversion E; left; reflexivity.
Qed.

Lemma shell_fix_same flag rs : Forall (fun r => raw_ok r = true) rs ->
  Forall2 same_cont rs (shell_fix flag rs).
Proof.
  intros Hok. unfold shell_fix.
  destruct (shellTabs flag (map content rs)) as [cs'|] eqn:E.
  2:{ clear - Hok. induction Hok; constructor; [apply same_cont_refl; assumption|assumption]. }
  apply shellTabs_shape in E. unfold refit_list.
  revert cs' E. induction Hok as [|r rs Hr Hrs IH]; intros cs' E; inversion E; subst; [constructor|].
  cbn [combine map fst snd]. constructor; [|apply IH; assumption].
  match goal with H : _ \/ _ |- _ => destruct H as [->|(tb & rest & Htb & _ & Ec & ->)] end.
  - rewrite <- (raw_split r Hr). apply same_cont_refl. exact Hr.
  - pose proof (raw_ok_content_nlfree r Hr) as Hn. rewrite Ec in Hn. apply nlfree_app in Hn as [_ Hn].
    apply (refit_same_cont (fun _ => [TAB] ++ rest) r Hr).
    + apply nlfree_app. split; [reflexivity|exact Hn].
    + rewrite Ec. rewrite (trailing_count_prefix_change tb [TAB] rest); [reflexivity|exact Htb|reflexivity].
    + left. discriminate.
Qed.

(* for ALL file texts: normalising the tabs of shell lines (any choice of lines) keeps the line structure *)
Theorem shell_keeps_line_structure s ls e flag :
  convert_to_logical_lines s true = Ok (ls, e) ->
  exists ls' e',
    convert_to_logical_lines (concat (flat_map (fun l => shell_fix flag (raws l)) ls)) true = Ok (ls', e')
    /\ map raws ls' = map (fun l => shell_fix flag (raws l)) ls.
Proof.
  intros Hc. apply (reload_same_grouping (shell_fix flag) s ls e Hc).
  intros l Hl. apply shell_fix_same. destruct (loaded_raws_ok _ _ _ _ l Hc Hl) as [_ Hok]. exact Hok.
Qed.

(* ================= 5. the old behaviour: trim regardless ================= *)

Definition trim_result_old (t : str) : str := rtrimHspace t.
Definition trailing_fix_old (rs : list str) : list str :=
  match rev rs with
  | [] => []
  | l :: init_rev => rev init_rev ++ [trim_result_old (content l) ++ nlpart l]
  end.
Definition trailing_fix_file_old (ls : list line) : str :=
  concat (flat_map (fun l => trailing_fix_old (raws l)) ls).

(* "VAR=\tvalue \\ \nOTHER=\tx\n" *)
Definition witness_text : str :=
  [86;65;82;61;9;118;97;108;117;101;32;92;32;10; 79;84;72;69;82;61;9;120;10].

Definition line_structure (s : str) : option (list nat) :=
  match convert_to_logical_lines s true with
  | Ok (ls, _) => Some (map (fun l => length (raws l)) ls)
  | _ => None
  end.

Definition fix_text (fixf : list line -> str) (s : str) : option str :=
  match convert_to_logical_lines s true with
  | Ok (ls, _) => Some (fixf ls)
  | _ => None
  end.

Example old_trailing_fix_joins_lines :
  line_structure witness_text = Some [1; 1]%nat /\
  (exists s', fix_text trailing_fix_file_old witness_text = Some s' /\ line_structure s' = Some [2]%nat) /\
  fix_text trailing_fix_file witness_text = Some witness_text.
Proof.
  split; [vm_compute; reflexivity|]. split; [|vm_compute; reflexivity].
  eexists. split; vm_compute; reflexivity.
Qed.

Definition old_keeps_line_structure : Prop :=
  forall s ls e, convert_to_logical_lines s true = Ok (ls, e) ->
    (forall l, In l ls -> ends_nl (last (raws l) []) = true) ->
    exists ls' e', convert_to_logical_lines (trailing_fix_file_old ls) true = Ok (ls', e')
                   /\ length ls' = length ls.

Theorem old_keeps_line_structure_refuted : ~ old_keeps_line_structure.
Proof.
  intros H.
  destruct (convert_to_logical_lines witness_text true) as [[ls e]| |] eqn:E; try (vm_compute in E; discriminate).
  specialize (H witness_text ls e E).
  vm_compute in E. injection E as <- <-.
  destruct H as (ls' & e' & E' & L).
  - intros l [<-|[<-|[]]]; vm_compute; reflexivity.
  - vm_compute in E'. injection E' as <- _. vm_compute in L. discriminate.
Qed.

(* the side condition of trailing_keeps_line_structure is needed: "A=1\n  " (the last line is
   two blanks without a line feed) becomes "A=1\n" -- the empty remainder is no physical line *)
Definition vanishing_text : str := [65; 61; 49; 10; 32; 32].

Example trailing_blank_last_line_vanishes :
  line_structure vanishing_text = Some [1; 1]%nat /\
  fix_text trailing_fix_file vanishing_text = Some [65; 61; 49; 10] /\
  line_structure [65; 61; 49; 10] = Some [1]%nat.
Proof. repeat split; vm_compute; reflexivity. Qed.
