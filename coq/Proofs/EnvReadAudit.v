(* The regenerated list of environment reads (Gen/EnvReadAudit.v, written by gen/c07env.go from
   /repo/v23 and audit/envreads.json) is fully classified: every use has a known class (no 0 =
   new / changed / unclassified / unjustified item), the list has the announced length, NO use is
   a `finding` (class 6: reaches stdout/stderr/exit/files and is neither tree nor arguments), and
   the scanner really visited the source files (floor below the 73 non-test files of today).
   The statement is split so that a recorded finding fails in env_audit_no_finding, with the
   number of findings in the error message, and a stale audit fails in env_audit_complete. *)
From PV Require Import Lib.Bytes Gen.EnvReadAudit.
Import ListNotations.
Open Scope N_scope.

Definition env_class_known (c : N) : bool := (1 <=? c) && (c <=? 6).
Definition env_count_class (c : N) (l : list N) : N := N.of_nat (length (filter (N.eqb c) l)).

Lemma env_audit_complete :
  forallb env_class_known envread_classes = true
  /\ N.of_nat (length envread_classes) = envread_count
  /\ (60 <=? envread_files_scanned) = true.
Proof. vm_compute. repeat split. Qed.

(* the full statement: no use is a finding *)
Definition env_audit_full : Prop :=
  forallb env_class_known envread_classes = true
  /\ N.of_nat (length envread_classes) = envread_count
  /\ env_count_class 6 envread_classes = 0
  /\ (60 <=? envread_files_scanned) = true.

(* holds today: the one finding of round 4 (os.Getwd in NewPkglint returned the spelling from $PWD)
   was repaired by /repo 873c354 and is recorded as `fixed` in known-findings.json *)
Lemma env_audit_no_finding : env_count_class 6 envread_classes = 0.
Proof. vm_compute. reflexivity. Qed.

Lemma env_audit_classified : env_audit_full.
Proof.
  destruct env_audit_complete as (Hknown & Hcount & Hfiles).
  exact (conj Hknown (conj Hcount (conj env_audit_no_finding Hfiles))).
Qed.
