(* The chain built by Compile accepts exactly the words its element list matches. *)
From PV Require Import Lib.Bytes Lib.ByteRange Gen.NumberAutomaton Model.Makepat
  Proofs.MakepatBasics Proofs.MakepatNFA Proofs.MakepatChain.
From Coq Require Import ZifyBool ZifyN ZifyNat.
Open Scope N_scope.

Definition loops (n : N) (k : nat) : list transition := repeat (mkT 0 255 n) k.

Lemma loops_snoc n k : loops n k ++ [mkT 0 255 n] = loops n (S k).
Proof. unfold loops. symmetry. apply repeat_cons. Qed.

Lemma stars_snoc k es : repeat EStar k ++ EStar :: es = repeat EStar (S k) ++ es.
Proof.
  change (EStar :: es) with ([EStar] ++ es). rewrite app_assoc. f_equal. symmetry. apply repeat_cons.
Qed.

Lemma existsb_loops (f : transition -> bool) n k :
  existsb f (loops n k) = match k with O => false | S _ => f (mkT 0 255 n) end.
Proof.
  destruct k as [|k]; [reflexivity|]. unfold loops. induction k as [|k IH]; cbn [repeat existsb] in *.
  - apply orb_false_r.
  - rewrite IH. apply orb_diag.
Qed.

Lemma existsb_mk_trans c (g : N -> bool) m rs :
  existsb (fun t => fires c t && g (tto t)) (map (mk_trans m) rs) = in_ranges rs c && g m.
Proof.
  induction rs as [|[lo hi] rs IH]; [reflexivity|].
  cbn [map existsb in_ranges]. unfold in_ranges in IH. rewrite IH.
  unfold mk_trans, fires. cbn [fst snd tmin tmax tto].
  destruct ((lo <=? c) && (c <=? hi)), (existsb (fun r => (fst r <=? c) && (c <=? snd r)) rs), (g m); reflexivity.
Qed.

Lemma nth_n_mid {A} (pre : list A) x post : nth_n (pre ++ x :: post) (nlen pre) = Some x.
Proof. rewrite nth_n_app_r by lia. rewrite N.sub_diag. reflexivity. Qed.

Lemma gmatch_stars_any k es s :
  gmatch (repeat EStar k ++ es) s = match k with O => gmatch es s | S _ => gmatch (EStar :: es) s end.
Proof. destruct k; [reflexivity|apply gmatch_stars]. Qed.

Lemma chain_accepts es : forall pre k s, is_bytes s ->
  accepts (pre ++ chain_from (nlen pre) (loops (nlen pre) k) es) (nlen pre) s
  = gmatch (repeat EStar k ++ es) s.
Proof.
  induction es as [|[|rs] es IH]; intros pre k s Hs.
  - (* end of the pattern *)
    cbn [chain_from].
    induction Hs as [|c s Hc Hs IHs].
    + rewrite accepts_nil, nth_n_mid. cbn [fin]. rewrite gmatch_stars_any. destruct k; reflexivity.
    + rewrite accepts_cons, nth_n_mid. cbn [trans]. rewrite existsb_loops, gmatch_stars_any.
      destruct k as [|k]; [reflexivity|].
      cbn [tto]. rewrite IHs, gmatch_stars_any, !gmatch_star_nil_true.
      unfold fires. cbn [tmin tmax]. assert (c <=? 255 = true) by lia. rewrite H.
      assert (0 <=? c = true) by lia. rewrite H0. reflexivity.
  - (* a star: one more self-loop *)
    cbn [chain_from]. rewrite loops_snoc, stars_snoc. apply IH. exact Hs.
  - (* a byte set *)
    cbn [chain_from].
    set (n := nlen pre).
    set (st := mkS (loops n k ++ map (mk_trans (n + 1)) rs) false).
    set (A := pre ++ st :: chain_from (n + 1) [] es).
    assert (Hnext : forall s', is_bytes s' -> accepts A (n + 1) s' = gmatch es s').
    { intros s' Hs'. specialize (IH (pre ++ [st]) O s' Hs').
      rewrite nlen_app in IH. cbn [nlen] in IH. replace (nlen pre + N.succ 0) with (n + 1) in IH by (unfold n; lia).
      unfold loops in IH. cbn [repeat app] in IH. rewrite <- app_assoc in IH. exact IH. }
    assert (Hnth : nth_n A n = Some st) by (unfold A, n; apply nth_n_mid).
    induction Hs as [|c s Hc Hs IHs].
    + rewrite accepts_nil, Hnth. cbn [fin].
      rewrite gmatch_stars_any. destruct k; reflexivity.
    + rewrite accepts_cons, Hnth. unfold st at 1. cbn [trans].
      rewrite existsb_app, existsb_loops, (existsb_mk_trans c (fun q => accepts A q s)).
      rewrite Hnext by exact Hs. rewrite !gmatch_stars_any.
      destruct k as [|k].
      * reflexivity.
      * cbn [tto]. rewrite IHs, gmatch_stars_any.
        rewrite (gmatch_star (ERanges rs :: es) (c :: s)).
        unfold fires. cbn [tmin tmax]. assert (c <=? 255 = true) by lia. rewrite H.
        assert (0 <=? c = true) by lia. rewrite H0. cbn [andb].
        cbn [gmatch]. apply orb_comm.
Qed.

(* the chain is a well-formed automaton *)
Lemma chain_targets es : forall n cur, (forall t, In t cur -> tto t <= n) ->
  targets_ok (n + 1 + nonstars es) (chain_from n cur es).
Proof.
  induction es as [|[|rs] es IH]; intros n cur Hcur; cbn [chain_from nonstars].
  - intros st [<-|[]] t Ht. cbn [trans] in Ht. specialize (Hcur t Ht). lia.
  - apply IH. intros t Ht. apply in_app_or in Ht as [Ht|[<-|[]]]; [apply Hcur; exact Ht|cbn [tto]; lia].
  - intros st [<-|Hst] t Ht.
    + cbn [trans] in Ht. apply in_app_or in Ht as [Ht|Ht].
      * specialize (Hcur t Ht). lia.
      * apply in_map_iff in Ht as (r & <- & _). cbn [mk_trans tto]. lia.
    + assert (G : targets_ok (n + 1 + 1 + nonstars es) (chain_from (n + 1) [] es)) by (apply IH; intros ? []).
      specialize (G st Hst t Ht). lia.
Qed.

Lemma chain_wf es : wf (chain_from 0 [] es).
Proof.
  split.
  - intro E. pose proof (chain_from_nlen es 0 []) as L. rewrite E in L. cbn [nlen] in L. lia.
  - rewrite chain_from_nlen. pose proof (chain_targets es 0 [] (fun t (H : In t []) => match H with end)) as G.
    replace (0 + 1 + nonstars es) with (1 + nonstars es) in G by lia. exact G.
Qed.

(* Match on a compiled pattern is matching of its element list *)
Theorem matchp_chain es s : is_bytes s -> matchp (chain_from 0 [] es) s = Ok (gmatch es s).
Proof.
  intro Hs. rewrite matchp_accepts by apply chain_wf. f_equal.
  exact (chain_accepts es [] O s Hs).
Qed.
