(* Proofs about the Logger/Autofix mode machine (Model/Modes.v).
   Organised helper by helper: every Logger/Autofix helper gets its own
   lemma about the projection a theorem needs, then the step, then the run. *)
From PV Require Import Lib.Bytes Model.Modes.
Open Scope N_scope.

Definition fixes (g : lg) : list item := filter is_fix_item (g_out g).

(* ---------- what each Logger helper does to the output ---------- *)
Lemma out_set_suppress g d e : g_out (set_suppress g d e) = g_out g.
Proof. reflexivity. Qed.

Lemma relevant_fst only f g : fst (relevant only f g) = shall_be_logged only f.
Proof. reflexivity. Qed.
Lemma relevant_out only f g : g_out (snd (relevant only f g)) = g_out g.
Proof. reflexivity. Qed.
Lemma relevant_sd only f g : g_suppressDiag (snd (relevant only f g)) = negb (shall_be_logged only f).
Proof. reflexivity. Qed.
Lemma relevant_avail only f g : g_autofixAvail (snd (relevant only f g)) = g_autofixAvail g.
Proof. reflexivity. Qed.

Lemma first_time_out g k : g_out (snd (first_time g k)) = g_out g.
Proof. unfold first_time. destruct (existsb _ _); reflexivity. Qed.
Lemma first_time_avail g k : g_autofixAvail (snd (first_time g k)) = g_autofixAvail g.
Proof. unfold first_time. destruct (existsb _ _); reflexivity. Qed.

Lemma logf_diag_fixes g lv f ln msg : fixes (logf_diag g lv f ln msg) = fixes g.
Proof.
  unfold logf_diag, fixes. destruct (g_suppressDiag g); simpl; [reflexivity|].
  rewrite filter_app. simpl. apply app_nil_r.
Qed.
Lemma logf_diag_sd g lv f ln msg : g_suppressDiag (logf_diag g lv f ln msg) = false.
Proof. unfold logf_diag. destruct (g_suppressDiag g); reflexivity. Qed.
Lemma logf_diag_avail g lv f ln msg : g_autofixAvail (logf_diag g lv f ln msg) = g_autofixAvail g.
Proof. unfold logf_diag. destruct (g_suppressDiag g); reflexivity. Qed.

Lemma logf_fix_avail g f a : g_autofixAvail (logf_fix g f a) = g_autofixAvail g.
Proof. unfold logf_fix. destruct (g_suppressDiag g); reflexivity. Qed.

Lemma explain_out g : g_out (explain g) = g_out g.
Proof. unfold explain. destruct (g_suppressExpl g); reflexivity. Qed.
Lemma explain_avail g : g_autofixAvail (explain g) = g_autofixAvail g.
Proof. unfold explain. destruct (g_suppressExpl g); reflexivity. Qed.
Lemma explain_sd g : g_suppressDiag (explain g) = g_suppressDiag g.
Proof. unfold explain. destruct (g_suppressExpl g); reflexivity. Qed.

Definition fix_items (file : str) (acts : list action) : list item :=
  map (fun a => IFix file (snd a) (fst a)) acts.

(* logging the actions when nothing is suppressed *)
Lemma fold_logf_fix file acts : forall g, g_suppressDiag g = false ->
  g_out (fold_left (fun g a => logf_fix g file a) acts g) = g_out g ++ fix_items file acts
  /\ g_suppressDiag (fold_left (fun g a => logf_fix g file a) acts g) = false.
Proof.
  induction acts as [|a acts IH]; intros g Hs; simpl.
  - rewrite app_nil_r. auto.
  - assert (H1 : g_suppressDiag (logf_fix g file a) = false)
      by (unfold logf_fix; rewrite Hs; reflexivity).
    destruct (IH _ H1) as [Ho Hd]. split; [|exact Hd].
    rewrite Ho. unfold logf_fix. rewrite Hs. simpl. rewrite <- app_assoc. reflexivity.
Qed.

Lemma fold_logf_fix_avail file acts : forall g,
  g_autofixAvail (fold_left (fun g a => logf_fix g file a) acts g) = g_autofixAvail g.
Proof.
  induction acts as [|a acts IH]; intros g; simpl; [reflexivity|].
  rewrite IH. apply logf_fix_avail.
Qed.

Lemma fixes_fix_items file acts : filter is_fix_item (fix_items file acts) = fix_items file acts.
Proof. induction acts as [|a acts IH]; simpl; [reflexivity|]. rewrite IH. reflexivity. Qed.

Lemma diag_fixes m only g l lv f msg : fixes (diag m only g l lv f msg) = fixes g.
Proof.
  unfold diag. destruct (is_autofix m); [reflexivity|].
  destruct (relevant only f g) as [r g1] eqn:E.
  assert (H1 : g_out g1 = g_out g) by (change g1 with (snd (r, g1)); rewrite <- E; apply relevant_out).
  destruct r; simpl; [|unfold fixes; rewrite H1; reflexivity].
  destruct (first_time g1 _) as [ft g2] eqn:E2.
  assert (H2 : g_out g2 = g_out g1) by (change g2 with (snd (ft, g2)); rewrite <- E2; apply first_time_out).
  destruct ft; simpl.
  - rewrite logf_diag_fixes. unfold fixes. rewrite H2, H1. reflexivity.
  - unfold fixes. simpl. rewrite H2, H1. reflexivity.
Qed.

Lemma diag_avail m only g l lv f msg : g_autofixAvail (diag m only g l lv f msg) = g_autofixAvail g.
Proof.
  unfold diag. destruct (is_autofix m); [reflexivity|].
  destruct (relevant only f g) as [r g1] eqn:E.
  assert (H1 : g_autofixAvail g1 = g_autofixAvail g) by (change g1 with (snd (r, g1)); rewrite <- E; apply relevant_avail).
  destruct r; simpl; [|exact H1].
  destruct (first_time g1 _) as [ft g2] eqn:E2.
  assert (H2 : g_autofixAvail g2 = g_autofixAvail g1) by (change g2 with (snd (ft, g2)); rewrite <- E2; apply first_time_avail).
  destruct ft; simpl.
  - rewrite logf_diag_avail. congruence.
  - congruence.
Qed.

Lemma save_out m g ls : g_out (save m g ls) = g_out g.
Proof. unfold save. destruct (m_fix m); [reflexivity|]. destruct (existsb _ _); reflexivity. Qed.

Lemma summary_fixes m g : fixes (summary m g) = fixes g.
Proof.
  unfold summary, fixes. destruct (m_fix m); [reflexivity|]. simpl.
  rewrite filter_app. simpl.
  destruct (g_explAvail g), (g_autofixAvail g), (m_show m); simpl; apply app_nil_r.
Qed.

(* ---------- Apply in the two autofix modes ---------- *)
Definition nonempty {A} (l : list A) : bool := match l with [] => false | _ => true end.

(* Apply with `relevant` inlined and the two tests on the action list as one boolean *)
Definition apply_fix' (m : mode) (only : list str) (g : lg) (f : fx)
                      (lv : level) (format msg : str) (expl : bool) : lg * lstate :=
  let l := f_line f in
  let acts := f_acts f in
  let l' := if nonempty acts then set_modified l true else l in
  let r := shall_be_logged only format in
  let g1 := set_suppress g (negb r) (negb r) in
  if negb (r && (nonempty acts || negb (is_autofix m))) then (g1, l')
  else
    let logDiagnostic := negb (str_eqb format silent_format) && negb (m_fix m && negb (m_show m)) in
    let logFix := is_autofix m in
    let g2 :=
      if logDiagnostic then
        let ln := affected_linenos l acts in
        let g1' := if negb logFix then snd (first_time g1 (l_file l, ln, msg)) else g1 in
        logf_diag g1' lv (l_file l) ln msg
      else g1 in
    let g3 := if logFix then fold_left (fun g a => logf_fix g (l_file l) a) acts g2 else g2 in
    let g4 := if logDiagnostic && expl then explain g3 else g3 in
    (g4, l').

Lemma apply_fix_eq m only g f lv fmt msg expl :
  apply_fix m only g f lv fmt msg expl = apply_fix' m only g f lv fmt msg expl.
Proof. unfold apply_fix, apply_fix', relevant. destruct (f_acts f); reflexivity. Qed.

(* with -f or -F the AUTOFIX lines of a transaction are exactly its actions,
   provided the diagnostic passes --only and there is at least one action *)
Lemma apply_fix_fixes m only g f lv fmt msg expl :
  is_autofix m = true ->
  fixes (fst (apply_fix m only g f lv fmt msg expl))
  = fixes g ++ (if shall_be_logged only fmt && nonempty (f_acts f)
                then fix_items (l_file (f_line f)) (f_acts f) else []).
Proof.
  intros Hm. rewrite apply_fix_eq. unfold apply_fix'. rewrite Hm.
  destruct (shall_be_logged only fmt) eqn:Er; cbn [negb andb orb].
  2:{ cbn [fst]. unfold fixes. rewrite out_set_suppress, app_nil_r. reflexivity. }
  rewrite orb_false_r.
  destruct (nonempty (f_acts f)) eqn:Ea; cbn [negb fst].
  2:{ unfold fixes. rewrite out_set_suppress, app_nil_r. reflexivity. }
  set (g1 := set_suppress g false false).
  set (ld := negb (str_eqb fmt silent_format) && negb (m_fix m && negb (m_show m))).
  set (g2 := if ld then logf_diag g1 lv (l_file (f_line f)) (affected_linenos (f_line f) (f_acts f)) msg else g1).
  assert (H2 : fixes g2 = fixes g /\ g_suppressDiag g2 = false).
  { subst g2. destruct ld.
    - rewrite logf_diag_fixes, logf_diag_sd. auto.
    - auto. }
  destruct H2 as [H2f H2s].
  destruct (fold_logf_fix (l_file (f_line f)) (f_acts f) g2 H2s) as [Hfo _].
  set (g3 := fold_left _ (f_acts f) g2) in *.
  assert (H4 : g_out (if ld && expl then explain g3 else g3) = g_out g2 ++ fix_items (l_file (f_line f)) (f_acts f)).
  { destruct (ld && expl); [rewrite explain_out|]; exact Hfo. }
  unfold fixes in *. rewrite H4, filter_app, fixes_fix_items, H2f. reflexivity.
Qed.

Lemma apply_fix_line m1 m2 only g1 g2 f lv fmt msg expl :
  snd (apply_fix m1 only g1 f lv fmt msg expl) = snd (apply_fix m2 only g2 f lv fmt msg expl).
Proof.
  rewrite !apply_fix_eq. unfold apply_fix'.
  destruct (negb (_ && (_ || negb (is_autofix m1)))), (negb (_ && (_ || negb (is_autofix m2)))); reflexivity.
Qed.

(* ---------- the operations depend on the mode only through IsAutofix ---------- *)
Lemma do_op_mode m1 m2 skip f o : is_autofix m1 = is_autofix m2 -> do_op m1 skip f o = do_op m2 skip f o.
Proof. intros H. destruct o; simpl; try reflexivity. rewrite H. reflexivity. Qed.

Lemma do_ops_mode m1 m2 skip ops : is_autofix m1 = is_autofix m2 ->
  forall f, do_ops m1 skip f ops = do_ops m2 skip f ops.
Proof.
  intros H. induction ops as [|o ops IH]; intros f; simpl; [reflexivity|].
  rewrite (do_op_mode m1 m2 skip f o H). destruct (do_op m2 skip f o); [apply IH|reflexivity].
Qed.

(* ---------- show_equals_do ---------- *)
Definition same_actions (s1 s2 : state) : Prop :=
  s_lines s1 = s_lines s2 /\ s_panic s1 = s_panic s2 /\ fixes (s_lg s1) = fixes (s_lg s2).

Lemma step_same_actions m1 m2 only s1 s2 e :
  is_autofix m1 = true -> is_autofix m2 = true ->
  same_actions s1 s2 -> same_actions (step m1 only s1 e) (step m2 only s2 e).
Proof.
  intros H1 H2 (Hl & Hp & Hf). unfold step. rewrite <- Hp, <- Hl.
  destruct (s_panic s1) eqn:Ep.
  { repeat split; auto; congruence. }
  destruct e as [i lv fmt msg| |i lv fmt msg expl ops| |].
  - destruct (nth_error (s_lines s1) i) as [l|].
    + repeat split; simpl; auto. rewrite !diag_fixes. exact Hf.
    + repeat split; simpl; auto.
  - repeat split; simpl; auto. unfold fixes. rewrite !explain_out. exact Hf.
  - destruct (nth_error (s_lines s1) i) as [l|]; [|repeat split; simpl; auto].
    destruct (expl && str_eqb fmt silent_format); [repeat split; simpl; auto|].
    destruct (match ops with [] => false | _ => str_eqb fmt [] end); [repeat split; simpl; auto|].
    rewrite (do_ops_mode m1 m2 _ ops (eq_trans H1 (eq_sym H2))).
    destruct (do_ops m2 _ _ ops) as [f|]; [|repeat split; simpl; auto].
    pose proof (apply_fix_fixes m1 only (s_lg s1) f lv fmt msg expl H1) as F1.
    pose proof (apply_fix_fixes m2 only (s_lg s2) f lv fmt msg expl H2) as F2.
    pose proof (apply_fix_line m1 m2 only (s_lg s1) (s_lg s2) f lv fmt msg expl) as FL.
    destruct (apply_fix m1 only (s_lg s1) f lv fmt msg expl) as [g1' l1'].
    destruct (apply_fix m2 only (s_lg s2) f lv fmt msg expl) as [g2' l2'].
    simpl in *. subst l2'. repeat split; simpl; auto. rewrite F1, F2, Hf. reflexivity.
  - repeat split; simpl; auto. unfold fixes. rewrite !save_out. exact Hf.
  - repeat split; simpl; auto. rewrite !summary_fixes. exact Hf.
Qed.

Lemma run_events_same_actions m1 m2 only evs :
  is_autofix m1 = true -> is_autofix m2 = true ->
  forall s1 s2, same_actions s1 s2 -> same_actions (run_events m1 only s1 evs) (run_events m2 only s2 evs).
Proof.
  intros H1 H2. induction evs as [|e evs IH]; intros s1 s2 H; simpl; [exact H|].
  apply IH. apply step_same_actions; assumption.
Qed.

Lemma checks_same_actions m1 m2 only (cs : list check) :
  is_autofix m1 = true -> is_autofix m2 = true ->
  forall s1 s2, same_actions s1 s2 ->
  same_actions (fold_left (run_check m1 only) cs s1) (fold_left (run_check m2 only) cs s2).
Proof.
  intros H1 H2. induction cs as [|c cs IH]; intros s1 s2 H; simpl; [exact H|].
  apply IH. unfold run_check. destruct H as (Hl & Hp & Hf). rewrite <- Hl.
  apply run_events_same_actions; auto. repeat split; auto.
Qed.

(* any two of the modes -f, -F, -f -F log the same actions and leave the same line states *)
Theorem autofix_modes_agree m1 m2 only ls cs :
  is_autofix m1 = true -> is_autofix m2 = true ->
  actions (run m1 only ls cs) = actions (run m2 only ls cs)
  /\ s_lines (run m1 only ls cs) = s_lines (run m2 only ls cs)
  /\ s_panic (run m1 only ls cs) = s_panic (run m2 only ls cs).
Proof.
  intros H1 H2. unfold run.
  assert (H : same_actions (init ls) (init ls)) by (repeat split).
  pose proof (checks_same_actions m1 m2 only cs H1 H2 _ _ H) as H3.
  pose proof (step_same_actions m1 m2 only _ _ ESave H1 H2 H3) as (Hl & Hp & Hf).
  unfold actions. auto.
Qed.

Theorem show_equals_do only ls cs :
  actions (run ShowAutofix only ls cs) = actions (run Autofix only ls cs).
Proof. apply (autofix_modes_agree ShowAutofix Autofix); reflexivity. Qed.

(* ---------- facts about the operations ---------- *)
Ltac break_some H :=
  repeat match type of H with
  | (if ?c then _ else _) = Some _ => destruct c eqn:?
  | match ?x with _ => _ end = Some _ => destruct x eqn:?
  | (let (_, _) := ?x in _) = Some _ => destruct x eqn:?
  | None = Some _ => discriminate H
  end.

Lemma do_op_acts_app m skip f o f' :
  do_op m skip f o = Some f' -> exists x, f_acts f' = f_acts f ++ x.
Proof.
  intros H. destruct o; cbn [do_op] in H; break_some H; inversion H; subst; cbn [f_acts describe];
    try (exists []; rewrite app_nil_r; reflexivity); eexists; reflexivity.
Qed.

Lemma do_op_modified m skip f o f' :
  do_op m skip f o = Some f' -> l_modified (f_line f') = l_modified (f_line f).
Proof.
  intros H. destruct o; cbn [do_op] in H; break_some H; inversion H; subst; try reflexivity;
    cbn [f_line describe]; try destruct (is_autofix m); try destruct (l_below (f_line f)); reflexivity.
Qed.

(* an operation of a diagnostic that --only filters out does nothing *)
Lemma do_op_skip m f o f' : do_op m true f o = Some f' -> f' = f.
Proof.
  intros H. destruct o; cbn [do_op] in H; break_some H; inversion H; reflexivity.
Qed.

Lemma do_ops_acts_app m skip ops : forall f f',
  do_ops m skip f ops = Some f' -> exists x, f_acts f' = f_acts f ++ x.
Proof.
  induction ops as [|o ops IH]; intros f f' H; cbn [do_ops] in H.
  - inversion H. exists []. rewrite app_nil_r. reflexivity.
  - destruct (do_op m skip f o) as [f1|] eqn:E; [|discriminate].
    destruct (do_op_acts_app _ _ _ _ _ E) as [x Hx]. destruct (IH _ _ H) as [y Hy].
    exists (x ++ y). rewrite Hy, Hx, app_assoc. reflexivity.
Qed.

Lemma do_ops_modified m skip ops : forall f f',
  do_ops m skip f ops = Some f' -> l_modified (f_line f') = l_modified (f_line f).
Proof.
  induction ops as [|o ops IH]; intros f f' H; cbn [do_ops] in H.
  - inversion H. reflexivity.
  - destruct (do_op m skip f o) as [f1|] eqn:E; [|discriminate].
    rewrite (IH _ _ H). eapply do_op_modified; eauto.
Qed.

Lemma do_ops_skip m ops : forall f f', do_ops m true f ops = Some f' -> f' = f.
Proof.
  induction ops as [|o ops IH]; intros f f' H; cbn [do_ops] in H.
  - inversion H. reflexivity.
  - destruct (do_op m true f o) as [f1|] eqn:E; [|discriminate].
    apply do_op_skip in E. subst f1. apply IH. exact H.
Qed.

Lemma app_nonempty {A} (a x : list A) : a <> [] -> a ++ x <> [].
Proof. destruct a; [congruence|discriminate]. Qed.

(* the two runs of one operation list from one state: identical results, or
   both have got an action (or an assertion failure) *)
Definition acted (r : option fx) : Prop := r = None \/ exists f, r = Some f /\ f_acts f <> [].
Definition diverged (rD rS : option fx) : Prop := acted rD /\ acted rS.

Lemma do_op_sim mD mS skip f o :
  do_op mD skip f o = do_op mS skip f o \/ diverged (do_op mD skip f o) (do_op mS skip f o).
Proof.
  destruct o; try (left; reflexivity).
  cbn [do_op].
  destruct (negb (real_line (f_line f))); [left; reflexivity|].
  destruct skip; [left; reflexivity|].
  destruct (negb (_ =? 1)); [left; reflexivity|].
  destruct (find_replace _ _ _ _) as [[ri texts']|]; [|left; reflexivity].
  right. split; right; eexists; (split; [reflexivity|]); cbn [f_acts describe];
    intro H; apply app_eq_nil in H; destruct H; discriminate.
Qed.

Lemma acted_do_ops m skip ops f :
  f_acts f <> [] -> acted (do_ops m skip f ops).
Proof.
  intros Hf. destruct (do_ops m skip f ops) as [f'|] eqn:E; [|left; reflexivity].
  right. exists f'. split; [reflexivity|].
  destruct (do_ops_acts_app _ _ _ _ _ E) as [x ->]. apply app_nonempty. exact Hf.
Qed.

Lemma do_ops_sim mD mS skip ops : forall f,
  do_ops mD skip f ops = do_ops mS skip f ops \/ diverged (do_ops mD skip f ops) (do_ops mS skip f ops).
Proof.
  induction ops as [|o ops IH]; intros f; cbn [do_ops]; [left; reflexivity|].
  destruct (do_op_sim mD mS skip f o) as [E|[HD HS]].
  - rewrite E. destruct (do_op mS skip f o) as [f1|]; [apply IH|left; reflexivity].
  - right. split.
    + destruct HD as [->|(f1 & -> & Hn)]; [left; reflexivity|apply acted_do_ops; exact Hn].
    + destruct HS as [->|(f1 & -> & Hn)]; [left; reflexivity|apply acted_do_ops; exact Hn].
Qed.

(* ---------- advertise_iff_show ---------- *)
Lemma apply_fix_avail m only g f lv fmt msg expl :
  g_autofixAvail (fst (apply_fix m only g f lv fmt msg expl)) = g_autofixAvail g.
Proof.
  rewrite apply_fix_eq. unfold apply_fix'.
  destruct (negb (_ && (_ || _))); cbn [fst]; [reflexivity|].
  match goal with |- g_autofixAvail (if ?c then explain ?x else ?y) = _ =>
    assert (H : g_autofixAvail x = g_autofixAvail g); [|destruct c; [rewrite explain_avail|]; exact H] end.
  destruct (is_autofix m); cbn [negb].
  - rewrite fold_logf_fix_avail. destruct (_ && _); [rewrite logf_diag_avail|]; reflexivity.
  - destruct (_ && _); [rewrite logf_diag_avail, first_time_avail|]; reflexivity.
Qed.

Lemma apply_fix_snd m only g f lv fmt msg expl :
  snd (apply_fix m only g f lv fmt msg expl)
  = if nonempty (f_acts f) then set_modified (f_line f) true else f_line f.
Proof. rewrite apply_fix_eq. unfold apply_fix'. destruct (negb (_ && (_ || _))); reflexivity. Qed.

Lemma nth_unmodified ls : forall i l,
  existsb l_modified ls = false -> nth_error ls i = Some l -> l_modified l = false.
Proof.
  induction ls as [|x ls IH]; intros [|i] l H E; cbn in *; try discriminate.
  - inversion E; subst. apply orb_false_iff in H. tauto.
  - apply orb_false_iff in H. eapply IH; [tauto|exact E].
Qed.

Lemma set_line_unmodified ls : forall i l',
  existsb l_modified ls = false -> l_modified l' = false -> existsb l_modified (set_line ls i l') = false.
Proof.
  induction ls as [|x ls IH]; intros [|i] l' H E; cbn in *; auto.
  - apply orb_false_iff in H. rewrite E. tauto.
  - apply orb_false_iff in H. destruct H as [H1 H2]. rewrite H1. cbn. apply IH; auto.
Qed.

Lemma set_line_modified_mono ls : forall i l l',
  nth_error ls i = Some l -> (l_modified l = true -> l_modified l' = true) ->
  existsb l_modified ls = true -> existsb l_modified (set_line ls i l') = true.
Proof.
  induction ls as [|x ls IH]; intros [|i] l l' E Hm H; cbn in *; try discriminate.
  - inversion E; subst. apply orb_true_iff in H. apply orb_true_iff. destruct H; auto.
  - apply orb_true_iff in H. apply orb_true_iff. destruct H; [auto|]. right. eapply IH; eauto.
Qed.

Lemma set_line_modified ls : forall i l l',
  nth_error ls i = Some l -> l_modified l' = true -> existsb l_modified (set_line ls i l') = true.
Proof.
  induction ls as [|x ls IH]; intros [|i] l l' E Hm; cbn in *; try discriminate.
  - rewrite Hm. reflexivity.
  - apply orb_true_iff. right. eapply IH; eauto.
Qed.

(* the default run: "crashed, or some line is marked as modified" is stable *)
Definition PD (s : state) : Prop := s_panic s = true \/ existsb l_modified (s_lines s) = true.
(* the -f run: "crashed, or an AUTOFIX line has been printed" is stable *)
Definition PS (s : state) : Prop := s_panic s = true \/ fixes (s_lg s) <> [].

Lemma step_PD m only s e : PD s -> PD (step m only s e).
Proof.
  intros H. unfold step. destruct (s_panic s) eqn:Ep; [exact H|].
  destruct H as [H|H]; [congruence|].
  destruct e as [i lv fmt msg| |i lv fmt msg expl ops| |]; try (right; exact H).
  - destruct (nth_error (s_lines s) i); [right; exact H|left; reflexivity].
  - destruct (nth_error (s_lines s) i) as [l|] eqn:En; [|left; reflexivity].
    destruct (expl && _); [left; reflexivity|].
    destruct (match ops with [] => false | _ => _ end); [left; reflexivity|].
    destruct (do_ops m _ _ ops) as [f|] eqn:Eo; [|left; reflexivity].
    pose proof (apply_fix_snd m only (s_lg s) f lv fmt msg expl) as Hs.
    destruct (apply_fix m only (s_lg s) f lv fmt msg expl) as [g' l']. cbn [snd] in Hs.
    right. cbn [s_lines]. eapply set_line_modified_mono; [exact En| |exact H].
    intros Hl. subst l'. apply do_ops_modified in Eo. cbn [f_line] in Eo.
    destruct (nonempty (f_acts f)); [reflexivity|congruence].
Qed.

Lemma step_PS m only s e : is_autofix m = true -> PS s -> PS (step m only s e).
Proof.
  intros Hm H. unfold step. destruct (s_panic s) eqn:Ep; [exact H|].
  destruct H as [H|H]; [congruence|].
  destruct e as [i lv fmt msg| |i lv fmt msg expl ops| |].
  - destruct (nth_error (s_lines s) i); [right; cbn [s_lg]; rewrite diag_fixes; exact H|left; reflexivity].
  - right. cbn [s_lg]. unfold fixes. rewrite explain_out. exact H.
  - destruct (nth_error (s_lines s) i) as [l|]; [|left; reflexivity].
    destruct (expl && _); [left; reflexivity|].
    destruct (match ops with [] => false | _ => _ end); [left; reflexivity|].
    destruct (do_ops m _ _ ops) as [f|]; [|left; reflexivity].
    pose proof (apply_fix_fixes m only (s_lg s) f lv fmt msg expl Hm) as Hf.
    destruct (apply_fix m only (s_lg s) f lv fmt msg expl) as [g' l']. cbn [fst] in Hf.
    right. cbn [s_lg]. rewrite Hf. apply app_nonempty. exact H.
  - right. cbn [s_lg]. unfold fixes. rewrite save_out. exact H.
  - right. cbn [s_lg]. rewrite summary_fixes. exact H.
Qed.

Lemma run_events_PD m only evs : forall s, PD s -> PD (run_events m only s evs).
Proof. induction evs as [|e evs IH]; intros s H; cbn; [exact H|]. apply IH, step_PD, H. Qed.
Lemma run_events_PS m only evs : is_autofix m = true -> forall s, PS s -> PS (run_events m only s evs).
Proof. intros Hm. induction evs as [|e evs IH]; intros s H; cbn; [exact H|]. apply IH, step_PS; auto. Qed.
Lemma checks_PD m only (cs : list check) : forall s, PD s -> PD (fold_left (run_check m only) cs s).
Proof. induction cs as [|c cs IH]; intros s H; cbn; [exact H|]. apply IH, run_events_PD, H. Qed.
Lemma checks_PS m only (cs : list check) : is_autofix m = true -> forall s, PS s -> PS (fold_left (run_check m only) cs s).
Proof. intros Hm. induction cs as [|c cs IH]; intros s H; cbn; [exact H|]. apply IH, run_events_PS; auto. Qed.

Lemma summary_avail m g : g_autofixAvail (summary m g) = g_autofixAvail g.
Proof. unfold summary. destruct (m_fix m); reflexivity. Qed.
Lemma save_unmodified m g ls : existsb l_modified ls = false -> save m g ls = g.
Proof. intros H. unfold save. rewrite H. destruct (m_fix m); reflexivity. Qed.
Lemma nth_error_set_line_len ls : forall i l l', nth_error ls i = Some l -> length (set_line ls i l') = length ls.
Proof. induction ls; intros [|i] l l' E; cbn in *; try discriminate; auto. f_equal. eapply IHls; eauto. Qed.

(* phase 1: no transaction has had an action yet; both runs are in the same
   line state, nothing is modified, nothing is advertised, nothing is shown *)
Definition phase1 (sD sS : state) : Prop :=
  s_lines sD = s_lines sS /\ s_panic sD = s_panic sS /\ existsb l_modified (s_lines sD) = false
  /\ g_autofixAvail (s_lg sD) = false /\ fixes (s_lg sS) = [].

Ltac rs := repeat split; cbn [s_lines s_lg s_panic panic]; auto.
Ltac fin Ha Hf Hu :=
  try solve [ rewrite ?diag_avail, ?explain_avail, ?summary_avail; exact Ha
            | rewrite ?diag_fixes, ?summary_fixes; exact Hf
            | unfold fixes; rewrite ?explain_out, ?save_out; exact Hf
            | rewrite (save_unmodified _ _ _ Hu); exact Ha ].

Lemma step_phase1 only sD sS e : phase1 sD sS ->
  phase1 (step Default only sD e) (step ShowAutofix only sS e)
  \/ (PD (step Default only sD e) /\ PS (step ShowAutofix only sS e)).
Proof.
  intros (Hl & Hp & Hu & Ha & Hf). unfold step. rewrite <- Hp, <- Hl.
  destruct (s_panic sD) eqn:Ep.
  { left. repeat split; auto; congruence. }
  destruct e as [i lv fmt msg| |i lv fmt msg expl ops| |].
  - left. destruct (nth_error (s_lines sD) i) as [l|]; rs; fin Ha Hf Hu.
  - left. rs; fin Ha Hf Hu.
  - destruct (nth_error (s_lines sD) i) as [l|] eqn:En; [|left; rs].
    destruct (expl && _); [left; rs|].
    destruct (match ops with [] => false | _ => _ end); [left; rs|].
    pose proof (nth_unmodified _ _ _ Hu En) as Hlm.
    (* an action implies that --only lets the diagnostic through *)
    assert (Hshall : forall m f, do_ops m (negb (shall_be_logged only fmt)) {| f_line := l; f_acts := [] |} ops = Some f ->
                     f_acts f <> [] -> shall_be_logged only fmt = true).
    { intros m f Ho Hn. destruct (shall_be_logged only fmt); [reflexivity|].
      cbn [negb] in Ho. apply do_ops_skip in Ho. subst f. cbn in Hn. congruence. }
    destruct (do_ops_sim Default ShowAutofix (negb (shall_be_logged only fmt)) ops {| f_line := l; f_acts := [] |}) as [E|[HD HS]].
    + rewrite E. destruct (do_ops ShowAutofix _ _ ops) as [f|] eqn:Eo; [|left; rs].
      pose proof (apply_fix_snd Default only (s_lg sD) f lv fmt msg expl) as SD.
      pose proof (apply_fix_snd ShowAutofix only (s_lg sS) f lv fmt msg expl) as SS.
      pose proof (apply_fix_avail Default only (s_lg sD) f lv fmt msg expl) as AD.
      pose proof (apply_fix_fixes ShowAutofix only (s_lg sS) f lv fmt msg expl eq_refl) as FS.
      destruct (apply_fix Default only (s_lg sD) f lv fmt msg expl) as [gD lD].
      destruct (apply_fix ShowAutofix only (s_lg sS) f lv fmt msg expl) as [gS lS].
      cbn [fst snd] in *.
      destruct (nonempty (f_acts f)) eqn:Ene.
      * right. split.
        -- right. cbn [s_lines]. eapply set_line_modified; [exact En|]. subst lD. reflexivity.
        -- right. cbn [s_lg]. rewrite FS.
           assert (Hn : f_acts f <> []) by (destruct (f_acts f); [discriminate|congruence]).
           rewrite (Hshall _ _ Eo Hn). cbn [andb].
           destruct (f_acts f); [congruence|]. intro H. apply app_eq_nil in H. destruct H; discriminate.
      * left. subst lD lS. rs.
        -- apply set_line_unmodified; [exact Hu|]. apply do_ops_modified in Eo. cbn in Eo. congruence.
        -- congruence.
        -- rewrite FS, andb_false_r, app_nil_r. exact Hf.
    + right. split.
      * destruct HD as [->|(f & -> & Hn)]; [left; reflexivity|].
        pose proof (apply_fix_snd Default only (s_lg sD) f lv fmt msg expl) as SD.
        destruct (apply_fix Default only (s_lg sD) f lv fmt msg expl) as [gD lD]. cbn [snd] in SD.
        right. cbn [s_lines]. eapply set_line_modified; [exact En|]. subst lD.
        destruct (f_acts f); [congruence|reflexivity].
      * destruct HS as [->|(f & Eo & Hn)]; [left; reflexivity|]. rewrite Eo.
        pose proof (apply_fix_fixes ShowAutofix only (s_lg sS) f lv fmt msg expl eq_refl) as FS.
        destruct (apply_fix ShowAutofix only (s_lg sS) f lv fmt msg expl) as [gS lS]. cbn [fst] in FS.
        right. cbn [s_lg]. rewrite FS, (Hshall _ _ Eo Hn). cbn [andb].
        destruct (f_acts f); [congruence|]. intro H. apply app_eq_nil in H. destruct H; discriminate.
  - left. rs; fin Ha Hf Hu.
  - left. rs; fin Ha Hf Hu.
Qed.

Definition phase2 (sD sS : state) : Prop := PD sD /\ PS sS.

Lemma run_events_phase1 only evs : forall sD sS, phase1 sD sS ->
  phase1 (run_events Default only sD evs) (run_events ShowAutofix only sS evs)
  \/ phase2 (run_events Default only sD evs) (run_events ShowAutofix only sS evs).
Proof.
  induction evs as [|e evs IH]; intros sD sS H; cbn; [left; exact H|].
  destruct (step_phase1 only sD sS e H) as [H1|[HD HS]]; [apply IH; exact H1|].
  right. split; [apply run_events_PD; exact HD|apply run_events_PS; [reflexivity|exact HS]].
Qed.

Lemma checks_phase1 only (cs : list check) : forall sD sS, phase1 sD sS ->
  phase1 (fold_left (run_check Default only) cs sD) (fold_left (run_check ShowAutofix only) cs sS)
  \/ phase2 (fold_left (run_check Default only) cs sD) (fold_left (run_check ShowAutofix only) cs sS).
Proof.
  induction cs as [|c cs IH]; intros sD sS H; cbn [fold_left]; [left; exact H|].
  assert (E : run_check ShowAutofix only sS c = run_events ShowAutofix only sS (c (s_lines sD)))
    by (unfold run_check; destruct H as [El _]; rewrite El; reflexivity).
  rewrite E. change (run_check Default only sD c) with (run_events Default only sD (c (s_lines sD))).
  destruct (run_events_phase1 only (c (s_lines sD)) sD sS H) as [H1|[HD HS]]; [apply IH; exact H1|].
  right. split; [apply checks_PD; exact HD|apply checks_PS; [reflexivity|exact HS]].
Qed.

Lemma phase1_init ls : Forall (fun l => l_modified l = false) ls -> phase1 (init ls) (init ls).
Proof.
  intros H. repeat split.
  induction H as [|l ls Hl _ IH]; cbn; [reflexivity|]. rewrite Hl. exact IH.
Qed.

Lemma run_phases only ls cs : Forall (fun l => l_modified l = false) ls ->
  phase1 (run Default only ls cs) (run ShowAutofix only ls cs)
  \/ phase2 (run Default only ls cs) (run ShowAutofix only ls cs).
Proof.
  intros H. unfold run.
  destruct (checks_phase1 only cs _ _ (phase1_init ls H)) as [H1|[HD HS]].
  - destruct (step_phase1 only _ _ ESave H1) as [H3|H3]; [left|right]; exact H3.
  - right. split; [apply step_PD; exact HD|apply step_PS; [reflexivity|exact HS]].
Qed.

Lemma panic_sticky m only s e : s_panic s = true -> step m only s e = s.
Proof. intros H. unfold step. rewrite H. reflexivity. Qed.

(* the property's direction: a default run advertises automatic fixing only
   when -f has an action to show (unless the -f run dies of an assertion) *)
Theorem advertise_implies_show only ls cs :
  Forall (fun l => l_modified l = false) ls ->
  s_panic (run ShowAutofix only ls cs) = false ->
  autofix_available (run Default only ls cs) = true ->
  actions (run ShowAutofix only ls cs) <> [].
Proof.
  intros Hfresh Hnp Hadv.
  destruct (run_phases only ls cs Hfresh) as [(Hl & Hp & Hu & Ha & Hf)|[HD HS]].
  - unfold autofix_available in Hadv. congruence.
  - destruct HS as [H|H]; [congruence|exact H].
Qed.

(* the converse, which the property does not demand, also holds in the model
   when every line is saved at the end of the run *)
Theorem show_implies_advertise only ls cs :
  Forall (fun l => l_modified l = false) ls ->
  s_panic (run Default only ls cs) = false ->
  actions (run ShowAutofix only ls cs) <> [] ->
  autofix_available (run Default only ls cs) = true.
Proof.
  intros Hfresh Hnp Hact.
  destruct (run_phases only ls cs Hfresh) as [(Hl & Hp & Hu & Ha & Hf)|[HD HS]].
  - unfold actions in Hact. unfold fixes in Hf. congruence.
  - destruct HD as [HD|HD]; [congruence|].
    unfold run in *. set (s := fold_left (run_check Default only) cs (init ls)) in *.
    destruct (s_panic s) eqn:Ep.
    + rewrite (panic_sticky _ _ _ _ Ep) in Hnp. congruence.
    + unfold step in *. rewrite Ep in *. unfold autofix_available. cbn [s_lg s_lines] in *.
      unfold save. cbn [m_fix Default]. rewrite HD. reflexivity.
Qed.

Theorem advertise_iff_show only ls cs :
  Forall (fun l => l_modified l = false) ls ->
  s_panic (run Default only ls cs) = false ->
  s_panic (run ShowAutofix only ls cs) = false ->
  (autofix_available (run Default only ls cs) = true <-> actions (run ShowAutofix only ls cs) <> []).
Proof.
  intros Hf HD HS. split.
  - apply advertise_implies_show; assumption.
  - apply show_implies_advertise; assumption.
Qed.

(* ---------- show_diags_subset_default: false of the faithful model ---------- *)
Definition fresh (l : lstate) : Prop := l_modified l = false.

Definition show_diags_subset_default_full : Prop :=
  forall only ls cs, Forall fresh ls ->
  s_panic (run Default only ls cs) = false -> s_panic (run ShowAutofix only ls cs) = false ->
  forall it, In it (diags (run ShowAutofix only ls cs)) -> In it (diags (run Default only ls cs)).

(* witness: the line `X = v`; the first check removes the space after the
   variable name with Replace (= ReplaceAfter); the second check looks at
   Line.Text and re-aligns the value only when it sees `X=`.  Neither check
   looks at the mode. *)
Definition wit_line : lstate := mk_line [102] 1 [88;32;61;32;118] [[88;32;61;32;118;10]].
Definition wit_check1 : check :=
  fun _ => [EFix 0 Note [49] [49] false [OReplaceAfter [] [88;32;61] [88;61]]].
Definition wit_check2 : check :=
  fun ls => match ls with
            | l :: _ => if has_prefix [88;61] (l_text l)
                        then [EFix 0 Note [50] [50] false [OReplaceAt 0 2 [32] [9]]]
                        else []
            | [] => []
            end.
Definition wit_item : item := IDiag Note [102] (1, 1) [50].

Lemma wit_show : In wit_item (diags (run ShowAutofix [] [wit_line] [wit_check1; wit_check2])).
Proof. vm_compute. right. left. reflexivity. Qed.
Lemma wit_default : ~ In wit_item (diags (run Default [] [wit_line] [wit_check1; wit_check2])).
Proof. vm_compute. intros [H|[]]. discriminate H. Qed.
Lemma wit_no_panic :
  s_panic (run Default [] [wit_line] [wit_check1; wit_check2]) = false
  /\ s_panic (run ShowAutofix [] [wit_line] [wit_check1; wit_check2]) = false.
Proof. split; vm_compute; reflexivity. Qed.

Theorem show_diags_subset_default_refuted : ~ show_diags_subset_default_full.
Proof.
  intros H. apply wit_default. apply H.
  - repeat constructor.
  - apply wit_no_panic.
  - apply wit_no_panic.
  - apply wit_show.
Qed.

(* ---------- fixed_point_quiet (used by C16) ---------- *)
Lemma step_modified_mono m only s e :
  existsb l_modified (s_lines s) = true -> existsb l_modified (s_lines (step m only s e)) = true.
Proof.
  intros H. unfold step. destruct (s_panic s); [exact H|].
  destruct e as [i lv fmt msg| |i lv fmt msg expl ops| |]; try exact H.
  - destruct (nth_error (s_lines s) i); exact H.
  - destruct (nth_error (s_lines s) i) as [l|] eqn:En; [|exact H].
    destruct (expl && _); [exact H|].
    destruct (match ops with [] => false | _ => _ end); [exact H|].
    destruct (do_ops m _ _ ops) as [f|] eqn:Eo; [|exact H].
    pose proof (apply_fix_snd m only (s_lg s) f lv fmt msg expl) as Hs.
    destruct (apply_fix m only (s_lg s) f lv fmt msg expl) as [g' l']. cbn [snd] in Hs.
    cbn [s_lines]. eapply set_line_modified_mono; [exact En| |exact H].
    intros Hl. subst l'. apply do_ops_modified in Eo. cbn [f_line] in Eo.
    destruct (nonempty (f_acts f)); [reflexivity|congruence].
Qed.

(* with -f or -F: an AUTOFIX line has been printed only if a line is marked modified *)
Definition Qinv (s : state) : Prop := fixes (s_lg s) <> [] -> existsb l_modified (s_lines s) = true.

Lemma step_Q m only s e : is_autofix m = true -> Qinv s -> Qinv (step m only s e).
Proof.
  intros Hm HQ. unfold Qinv. intros Hne. 
  destruct (existsb l_modified (s_lines s)) eqn:Em.
  { apply step_modified_mono. exact Em. }
  assert (Hf0 : fixes (s_lg s) = []).
  { destruct (fixes (s_lg s)) eqn:E; [reflexivity|]. exfalso.
    assert (X : existsb l_modified (s_lines s) = true) by (apply HQ; rewrite E; discriminate). congruence. }
  revert Hne. unfold step. destruct (s_panic s); [congruence|].
  destruct e as [i lv fmt msg| |i lv fmt msg expl ops| |].
  - destruct (nth_error (s_lines s) i); cbn [s_lg panic]; [rewrite diag_fixes|]; congruence.
  - cbn [s_lg]. unfold fixes in *. rewrite explain_out. congruence.
  - destruct (nth_error (s_lines s) i) as [l|] eqn:En; [|cbn [s_lg panic]; congruence].
    destruct (expl && _); [cbn [s_lg panic]; congruence|].
    destruct (match ops with [] => false | _ => _ end); [cbn [s_lg panic]; congruence|].
    destruct (do_ops m _ _ ops) as [f|] eqn:Eo; [|cbn [s_lg panic]; congruence].
    pose proof (apply_fix_snd m only (s_lg s) f lv fmt msg expl) as Hs.
    pose proof (apply_fix_fixes m only (s_lg s) f lv fmt msg expl Hm) as Hf.
    destruct (apply_fix m only (s_lg s) f lv fmt msg expl) as [g' l']. cbn [fst snd] in *.
    cbn [s_lg s_lines]. rewrite Hf, Hf0. cbn [app].
    destruct (nonempty (f_acts f)).
    + intros _. eapply set_line_modified; [exact En|]. subst l'. reflexivity.
    + rewrite andb_false_r. congruence.
  - cbn [s_lg]. unfold fixes in *. rewrite save_out. congruence.
  - cbn [s_lg]. rewrite summary_fixes. congruence.
Qed.

Lemma run_events_Q m only evs : is_autofix m = true -> forall s, Qinv s -> Qinv (run_events m only s evs).
Proof. intros Hm. induction evs as [|e evs IH]; intros s H; cbn; [exact H|]. apply IH, step_Q; auto. Qed.
Lemma checks_Q m only (cs : list check) : is_autofix m = true -> forall s, Qinv s -> Qinv (fold_left (run_check m only) cs s).
Proof. intros Hm. induction cs as [|c cs IH]; intros s H; cbn; [exact H|]. apply IH, run_events_Q; auto. Qed.

(* if --autofix marks no line as modified (the model's fixed point: nothing is
   written), then --show-autofix logs no action and the default run does not
   advertise automatic fixing *)
Theorem fixed_point_quiet only ls cs :
  Forall fresh ls ->
  existsb l_modified (s_lines (run Autofix only ls cs)) = false ->
  actions (run ShowAutofix only ls cs) = []
  /\ (s_panic (run ShowAutofix only ls cs) = false -> autofix_available (run Default only ls cs) = false).
Proof.
  intros Hfresh Hnm.
  assert (HQ : Qinv (run Autofix only ls cs)).
  { unfold run. apply step_Q; [reflexivity|]. apply checks_Q; [reflexivity|]. intros H. cbn in H. congruence. }
  assert (Ha : actions (run ShowAutofix only ls cs) = []).
  { rewrite show_equals_do. unfold actions. destruct (filter _ _) eqn:E; [reflexivity|].
    exfalso.
    assert (X : existsb l_modified (s_lines (run Autofix only ls cs)) = true)
      by (apply HQ; unfold fixes; rewrite E; discriminate).
    congruence. }
  split; [exact Ha|]. intros Hnp.
  destruct (autofix_available (run Default only ls cs)) eqn:Ea; [|reflexivity].
  exfalso. apply (advertise_implies_show only ls cs Hfresh Hnp Ea). exact Ha.
Qed.
