(* Spec/CNumber.v: the derivative matcher recognises exactly the textbook
   language of the regular expression. *)
From PV Require Import Lib.Bytes Spec.CNumber.
From Coq Require Import ZifyBool ZifyN.
Open Scope N_scope.

Lemma lang_empty_inv s : ~ lang Empty s.
Proof. intro H; inversion H. Qed.

Lemma lang_eps_inv s : lang Eps s -> s = [].
Proof. intro H; inversion H; reflexivity. Qed.

Lemma lang_alt_iff a b s : lang (Alt a b) s <-> lang a s \/ lang b s.
Proof.
  split.
  - intro H; inversion H; subst; auto.
  - intros [H|H]; [apply LAltL|apply LAltR]; exact H.
Qed.

Lemma lang_cat_iff a b s : lang (Cat a b) s <-> exists s1 s2, s = s1 ++ s2 /\ lang a s1 /\ lang b s2.
Proof.
  split.
  - intro H; inversion H; subst. eauto.
  - intros (s1 & s2 & -> & H1 & H2). apply LCat; assumption.
Qed.

Lemma mk_alt_lang a b s : lang (mk_alt a b) s <-> lang a s \/ lang b s.
Proof.
  unfold mk_alt.
  destruct a; destruct b; try apply lang_alt_iff;
    split; intro H; auto;
    try (destruct H as [H|H]; auto; exfalso; exact (lang_empty_inv _ H)).
Qed.

Lemma mk_cat_lang a b s : lang (mk_cat a b) s <-> exists s1 s2, s = s1 ++ s2 /\ lang a s1 /\ lang b s2.
Proof.
  assert (E1 : forall b s, (exists s1 s2, s = s1 ++ s2 /\ lang Empty s1 /\ lang b s2) -> False).
  { intros ? ? (s1 & s2 & _ & H & _). exact (lang_empty_inv _ H). }
  assert (E2 : forall a s, (exists s1 s2, s = s1 ++ s2 /\ lang a s1 /\ lang Empty s2) -> False).
  { intros ? ? (s1 & s2 & _ & _ & H). exact (lang_empty_inv _ H). }
  assert (P1 : forall b s, lang b s <-> exists s1 s2, s = s1 ++ s2 /\ lang Eps s1 /\ lang b s2).
  { intros b0 s0. split.
    - intro H. exists [], s0. repeat split; [constructor|exact H].
    - intros (s1 & s2 & -> & H1 & H2). apply lang_eps_inv in H1. subst. exact H2. }
  assert (P2 : forall a s, lang a s <-> exists s1 s2, s = s1 ++ s2 /\ lang a s1 /\ lang Eps s2).
  { intros a0 s0. split.
    - intro H. exists s0, []. rewrite app_nil_r. repeat split; [exact H|constructor].
    - intros (s1 & s2 & -> & H1 & H2). apply lang_eps_inv in H2. subst. rewrite app_nil_r. exact H1. }
  unfold mk_cat.
  destruct a; destruct b; try apply lang_cat_iff; try apply P1; try apply P2;
    split; intro H; try (exfalso; exact (lang_empty_inv _ H));
    try (exfalso; exact (E1 _ _ H)); try (exfalso; exact (E2 _ _ H)).
Qed.

Lemma nullable_spec r : nullable r = true <-> lang r [].
Proof.
  induction r; simpl.
  - split; [discriminate|intro H; inversion H].
  - split; [constructor|reflexivity].
  - split; [discriminate|intro H; inversion H].
  - rewrite orb_true_iff, IHr1, IHr2, lang_alt_iff. reflexivity.
  - rewrite andb_true_iff, IHr1, IHr2, lang_cat_iff. split.
    + intros [H1 H2]. exists [], []. auto.
    + intros (s1 & s2 & E & H1 & H2). symmetry in E. apply app_eq_nil in E as [-> ->]. auto.
  - split; [constructor|reflexivity].
Qed.

(* a non-empty word of a star: the first factor can be taken non-empty *)
Lemma lang_star_cons a c s :
  lang (Star a) (c :: s) -> exists s1 s2, s = s1 ++ s2 /\ lang a (c :: s1) /\ lang (Star a) s2.
Proof.
  intro H. remember (Star a) as r eqn:Er. remember (c :: s) as w eqn:Ew.
  revert c s Ew. induction H; try discriminate; intros c0 s0 Ew.
  inversion Er; subst a0. clear Er IHlang1.
  destruct s as [|x s1].
  - simpl in Ew. apply IHlang2; [reflexivity|exact Ew].
  - simpl in Ew. inversion Ew; subst. exists s1, t. auto.
Qed.

Lemma deriv_spec c r : forall s, lang (deriv c r) s <-> lang r (c :: s).
Proof.
  induction r; intro s; simpl.
  - split; intro H; inversion H.
  - split; intro H; inversion H.
  - destruct ((lo <=? c) && (c <=? hi)) eqn:E.
    + split.
      * intro H. apply lang_eps_inv in H. subst. constructor; lia.
      * intro H. inversion H; subst. constructor.
    + split; intro H; inversion H; subst. lia.
  - rewrite mk_alt_lang, IHr1, IHr2, lang_alt_iff. reflexivity.
  - assert (C : lang (mk_cat (deriv c r1) r2) s <->
                exists s1 s2, s = s1 ++ s2 /\ lang r1 (c :: s1) /\ lang r2 s2).
    { rewrite mk_cat_lang. split; intros (s1 & s2 & E & H1 & H2); exists s1, s2;
        (split; [exact E|split; [apply IHr1; exact H1|exact H2]]). }
    destruct (nullable r1) eqn:N.
    + rewrite mk_alt_lang, C, IHr2, lang_cat_iff. split.
      * intros [(s1 & s2 & -> & H1 & H2)|H].
        -- exists (c :: s1), s2. auto.
        -- exists [], (c :: s). repeat split; [apply nullable_spec; exact N|exact H].
      * intros (s1 & s2 & E & H1 & H2). destruct s1 as [|x s1]; simpl in E.
        -- right. subst s2. exact H2.
        -- inversion E; subst. left. exists s1, s2. auto.
    + rewrite C, lang_cat_iff. split.
      * intros (s1 & s2 & -> & H1 & H2). exists (c :: s1), s2. auto.
      * intros (s1 & s2 & E & H1 & H2). destruct s1 as [|x s1]; simpl in E.
        -- apply nullable_spec in H1. congruence.
        -- inversion E; subst. exists s1, s2. auto.
  - rewrite mk_cat_lang. split.
    + intros (s1 & s2 & -> & H1 & H2). apply IHr in H1.
      change (c :: s1 ++ s2) with ((c :: s1) ++ s2). apply LStarS; assumption.
    + intro H. apply lang_star_cons in H as (s1 & s2 & -> & H1 & H2).
      exists s1, s2. split; [reflexivity|]. split; [apply IHr; exact H1|exact H2].
Qed.

Theorem re_match_spec r s : re_match r s = true <-> lang r s.
Proof.
  revert r; induction s as [|c s IH]; intro r; simpl.
  - apply nullable_spec.
  - rewrite IH. apply deriv_spec.
Qed.

Lemma re_match_empty s : re_match Empty s = false.
Proof. induction s; simpl; auto. Qed.
