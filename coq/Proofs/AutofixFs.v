(* C02: which file operations the model performs. *)
From PV Require Import Lib.Bytes Spec.ApplyLog Model.Autofix Proofs.ApplyLog Proofs.Autofix.
From Coq Require Import Lia.
Open Scope Z_scope.

(* ---------- without --autofix: no file operation at all ---------- *)

Lemma save_no_autofix o ls : o_autofix o = false -> save o ls = ([], false).
Proof. intro H. unfold save. rewrite H. reflexivity. Qed.

Lemma plist_sort_no_autofix o keys store store' printed ops af :
  o_autofix o = false -> plist_sort o keys store = Ok (store', printed, ops, af) -> ops = [] /\ af = false.
Proof.
  intro Ha. unfold plist_sort.
  destruct (split_plist (combine (seq 0 (length keys)) keys)) as [[header middle] footer].
  match goal with |- context [if ?c then _ else _] => destruct c end;
    [intro H; inversion H; auto|].
  destruct (negb (shall_be_logged o sorted_before_format)); [intro H; inversion H; auto|].
  destruct (negb (shall_be_logged o silent_format)); [intro H; inversion H; auto|].
  destruct middle as [|[first k] middle']; [intro H; inversion H; auto|].
  destruct (nat_list_eqb _ _); [intro H; inversion H; auto|].
  destruct (nth_error store first) as [l0|]; [|discriminate].
  unfold bind. destruct (autofix l0) as [[l1 f1]|]; [|discriminate].
  destruct (set_diag silent_format l1) as [l2|]; [|discriminate].
  destruct (the_fix l2) as [f2|]; [|discriminate].
  destruct (apply o _) as [[l4 pr]|]; [|discriminate].
  rewrite save_no_autofix by exact Ha. intro H. inversion H; auto.
Qed.

Lemma step_no_autofix o keys e st st' :
  o_autofix o = false -> step o keys e st = Ok st' -> s_ops st' = s_ops st.
Proof.
  intro Ha. destruct e; cbn [step].
  - destruct (nth_error (s_store st) (t_line t)); [|intro H; inversion H; reflexivity].
    unfold bind. destruct (do_txn o t l) as [[l1 pr]|]; [|discriminate]. intro H; inversion H; reflexivity.
  - rewrite save_no_autofix by exact Ha. intro H; inversion H. cbn. apply app_nil_r.
  - unfold bind. destruct (plist_sort o keys (s_store st)) as [[[[store' pr] ops] af]|] eqn:PS; [|discriminate].
    apply plist_sort_no_autofix in PS as [-> ->]; [|exact Ha].
    rewrite save_no_autofix by exact Ha. intro H; inversion H. cbn. apply app_nil_r.
  - unfold bind. destruct (check_executable o file executable committed) as [[pr ops]|] eqn:CE; [|discriminate].
    apply check_executable_spec in CE as [_ [->|[_ [Hc _]]]]; [|congruence].
    intro H; inversion H. cbn. apply app_nil_r.
Qed.

Theorem no_autofix_no_ops o keys evs : forall st st',
  o_autofix o = false -> run o keys evs st = Ok st' -> s_ops st' = s_ops st.
Proof.
  induction evs as [|e evs IH]; intros st st' Ha; cbn [run].
  - intro H; inversion H; reflexivity.
  - unfold bind. destruct (step o keys e st) as [s1|] eqn:S; [|discriminate]. intro H.
    rewrite (IH _ _ Ha H). eapply step_no_autofix; eassumption.
Qed.

(* ---------- with --autofix: only logged files are touched ---------- *)

Definition logged (log : list logline) (f : str) : Prop := exists g, In g log /\ g_file g = f.

Definition op_justified (log : list logline) (op : fsop) : Prop :=
  match op with
  | OpCreateExcl p => exists f, p = f ++ tmp_suffix /\ logged log f
  | OpWrite p _ => exists f, p = f ++ tmp_suffix /\ logged log f
  | OpChmodLike p like => exists f, p = f ++ tmp_suffix /\ like = f /\ logged log f
  | OpRename a b => exists f, a = f ++ tmp_suffix /\ b = f /\ logged log f
  | OpRemove p => exists f, p = f ++ tmp_suffix /\ logged log f
  | OpChmod p => exists g, In g log /\ g_file g = p /\ g_descr g = DChmod
  end.

(* every temporary file is renamed onto its target right after it was written *)
Inductive wpaired : list fsop -> Prop :=
| wp_nil : wpaired []
| wp_save f c ops : wpaired ops -> wpaired (save_seq f c ++ ops)
| wp_chmod p ops : wpaired ops -> wpaired (OpChmod p :: ops).

Lemma wpaired_app a b : wpaired a -> wpaired b -> wpaired (a ++ b).
Proof. induction 1; intro; cbn; [assumption|constructor; auto|constructor; auto]. Qed.

Lemma logged_mono log log' f : logged log f -> logged (log ++ log') f.
Proof. intros (g & H & E). exists g. split; [apply in_or_app; left; exact H|exact E]. Qed.

Lemma op_justified_mono log log' op : op_justified log op -> op_justified (log ++ log') op.
Proof.
  destruct op; cbn.
  - intros (f & E & L). exists f. split; [exact E|apply logged_mono; exact L].
  - intros (f & E & L). exists f. split; [exact E|apply logged_mono; exact L].
  - intros (f & E1 & E2 & L). exists f. split; [exact E1|]. split; [exact E2|apply logged_mono; exact L].
  - intros (f & E1 & E2 & L). exists f. split; [exact E1|]. split; [exact E2|apply logged_mono; exact L].
  - intros (f & E & L). exists f. split; [exact E|apply logged_mono; exact L].
  - intros (g & H & E). exists g. split; [apply in_or_app; left; exact H|exact E].
Qed.

(* the light-weight facts about one operation (no well-formedness needed) *)
Definition light (o : opts) (l l' : line) : Prop :=
  match l_fix l, l_fix l' with
  | Some f, Some f' =>
    f_diag f' = f_diag f /\ f_level f' = f_level f /\ f_modified f' = f_modified f /\ l_file l' = l_file l /\
    exists acts, f_actions f' = f_actions f ++ acts /\ (acts <> [] -> shall_be_logged o (f_diag f) = true)
  | _, _ => False
  end.

Lemma light_refl o l f : l_fix l = Some f -> light o l l.
Proof. intro E. unfold light. rewrite E. repeat split. exists []. rewrite app_nil_r. split; [reflexivity|congruence]. Qed.

Lemma light_trans o a b c : light o a b -> light o b c -> light o a c.
Proof.
  unfold light. destruct (l_fix a) as [fa|]; [|tauto]. destruct (l_fix b) as [fb|]; [|tauto].
  destruct (l_fix c) as [fc|]; [|tauto].
  intros (D1 & L1 & M1 & F1 & a1 & A1 & S1) (D2 & L2 & M2 & F2 & a2 & A2 & S2).
  repeat split; try congruence. exists (a1 ++ a2). split; [rewrite A2, A1, app_assoc; reflexivity|].
  intro Hne. destruct a1; [apply S2 in Hne; congruence|apply S1; discriminate].
Qed.

Ltac light_prelude E :=
  unfold bind; try (destruct (real_line _); [|discriminate]);
  unfold the_fix; rewrite E;
  match goal with |- context [skip ?o ?f] => destruct (skip o f) as [[|]|] eqn:K; [| |discriminate] end;
  [let H := fresh "H" in intro H; inversion H; subst; eapply light_refl; eassumption
  |match goal with K : skip _ _ = Ok false |- _ => apply skip_false in K end].

Ltac light_done E :=
  let H := fresh "H" in
  intro H; inversion H; subst; unfold light; rewrite E; cbn;
  repeat split; eexists; split; [reflexivity|intros _; assumption].

Lemma do_op_light o p l l' f : l_fix l = Some f -> do_op o p l = Ok l' -> light o l l'.
Proof.
  intro E. destruct p; cbn [do_op].
  - unfold replace_after. light_prelude E.
    destruct (negb _); [intro H; inversion H; subst; eapply light_refl; eassumption|].
    destruct (first_replace _ _ _ _) as [[ri rep]|]; [|intro H; inversion H; subst; eapply light_refl; eassumption].
    destruct (is_autofix o); light_done E.
  - unfold replace_at. destruct (str_eqb from to); [discriminate|]. light_prelude E.
    destruct (_ || _); [discriminate|]. destruct (negb _); [discriminate|]. destruct (_ <? 0); [discriminate|].
    destruct (strip_prefix _ _); [|discriminate]. light_done E.
  - unfold insert_above. light_prelude E. light_done E.
  - unfold insert_below. light_prelude E. light_done E.
  - unfold delete. light_prelude E.
    intro H; inversion H; subst; unfold light; rewrite E; cbn.
    repeat split. eexists. split; [reflexivity|intros _; assumption].
  - unfold bind, custom. light_prelude E. light_done E.
Qed.

Lemma do_ops_light o ps : forall l l' f, l_fix l = Some f -> do_ops o ps l = Ok l' -> light o l l'.
Proof.
  induction ps as [|p ps IH]; intros l l' f E; cbn [do_ops].
  - intro H; inversion H; subst. eapply light_refl; eassumption.
  - unfold bind. destruct (do_op o p l) as [l1|] eqn:D; [|discriminate]. intro H.
    pose proof (do_op_light o p l l1 f E D) as L1.
    assert (exists f1, l_fix l1 = Some f1) as [f1 E1].
    { unfold light in L1. rewrite E in L1. destruct (l_fix l1); [eexists; reflexivity|tauto]. }
    eapply light_trans; [exact L1|]. eapply IH; eassumption.
Qed.

(* a transaction on an idle line: the line is idle again, and if it is now marked
   as modified, it was before or an AUTOFIX line was printed *)
Lemma do_txn_light o t l0 l4 printed :
  o_autofix o = true -> idle l0 -> do_txn o t l0 = Ok (l4, printed) ->
  idle l4 /\ l_file l4 = l_file l0 /\
  (line_modified l4 = true -> line_modified l0 = true \/ printed <> []).
Proof.
  intros Ha I. unfold do_txn, bind.
  destruct (autofix l0) as [[l1 f1]|] eqn:AF; [|discriminate].
  destruct (set_diag (t_diag t) l1) as [l2|] eqn:SD; [|discriminate].
  destruct (do_ops o (t_ops t) l2) as [l3|] eqn:DO; [|discriminate].
  assert (P : exists f2, l_fix l2 = Some f2 /\ f_actions f2 = [] /\ f_level f2 = true /\
                         f_modified f2 = line_modified l0 /\ l_file l2 = l_file l0).
  { unfold autofix, idle, line_modified in *. destruct (l_fix l0) as [f|] eqn:E.
    - destruct I as (A & D & L). rewrite D in AF. inversion AF; subst l1 f1.
      unfold set_diag, bind, the_fix in SD. rewrite E, L, D in SD. inversion SD; subst l2.
      eexists. cbn. repeat split; try reflexivity. exact A.
    - inversion AF; subst l1 f1. unfold set_diag, bind, the_fix in SD. cbn in SD. inversion SD; subst l2.
      eexists. cbn. repeat split; reflexivity. }
  destruct P as (f2 & E2 & A2 & L2 & M2 & F2).
  pose proof (do_ops_light o (t_ops t) l2 l3 f2 E2 DO) as Lt.
  unfold light in Lt. rewrite E2 in Lt. destruct (l_fix l3) as [f3|] eqn:E3; [|tauto].
  destruct Lt as (D3 & L3 & M3 & F3 & acts & A3 & S3). rewrite A2 in A3. cbn [app] in A3.
  rewrite (apply_autofix o l3 f3); [|unfold is_autofix; rewrite Ha; reflexivity|exact E3|congruence|].
  2:{ rewrite A3, D3. exact S3. }
  intro H. inversion H; subst l4 printed. clear H.
  split; [unfold idle; cbn; auto|]. split; [cbn; congruence|].
  unfold line_modified. cbn. rewrite A3. destruct acts; [|intros _; right; discriminate].
  intro Hm. left. change (line_modified l0 = true). rewrite <- M2, <- M3. exact Hm.
Qed.

Lemma changed_files_in ls : forall seen f,
  In f (changed_files ls seen) -> exists l, In l ls /\ line_modified l = true /\ l_file l = f.
Proof.
  induction ls as [|l ls IH]; intros seen f H; cbn [changed_files] in H; [contradiction|].
  destruct (line_modified l && negb (existsb (str_eqb (l_file l)) seen)) eqn:C.
  - destruct H as [<-|H].
    + apply andb_true_iff in C as [C _]. exists l. repeat split; [left; reflexivity|exact C].
    + destruct (IH _ _ H) as (x & Hx & R). exists x. split; [right; exact Hx|exact R].
  - destruct (IH _ _ H) as (x & Hx & R). exists x. split; [right; exact Hx|exact R].
Qed.

Lemma save_ops_justified o ls log :
  modified_logged ls log -> Forall (op_justified log) (fst (save o ls)) /\ wpaired (fst (save o ls)).
Proof.
  intro ML. unfold save. destruct (negb (o_autofix o)); cbn [fst]; [split; constructor|].
  assert (Hf : forall f, In f (changed_files ls []) -> logged log f).
  { intros f Hin. apply changed_files_in in Hin as (l & Hl & Hm & <-).
    unfold modified_logged in ML. rewrite Forall_forall in ML. exact (ML l Hl Hm). }
  induction (changed_files ls []) as [|f fs IH]; cbn [flat_map]; [split; constructor|].
  destruct IH as [IH1 IH2]; [intros; apply Hf; right; assumption|].
  assert (Lf : logged log f) by (apply Hf; left; reflexivity).
  split.
  - unfold save_seq. cbn [app].
    constructor; [exists f; split; [reflexivity|exact Lf]|].
    constructor; [exists f; split; [reflexivity|exact Lf]|].
    constructor; [exists f; split; [reflexivity|split; [reflexivity|exact Lf]]|].
    constructor; [exists f; split; [reflexivity|split; [reflexivity|exact Lf]]|exact IH1].
  - constructor. exact IH2.
Qed.

Record fs_inv (st : state) : Prop := {
  fi_idle : Forall idle (s_store st);
  fi_logged : modified_logged (s_store st) (s_log st);
  fi_just : Forall (op_justified (s_log st)) (s_ops st);
  fi_paired : wpaired (s_ops st)
}.

Lemma modified_logged_set ls log log' i l0 l1 :
  nth_error ls i = Some l0 -> modified_logged ls log ->
  (line_modified l1 = true -> line_modified l0 = true \/ logged (log ++ log') (l_file l1)) ->
  l_file l1 = l_file l0 ->
  modified_logged (set_nth i l1 ls) (log ++ log').
Proof.
  intros En ML H F. apply nth_error_split in En as (s1 & s2 & -> & <-). rewrite set_nth_split.
  unfold modified_logged in *. apply Forall_split_mid in ML as (M1 & M0 & M2).
  apply Forall_split_mid. repeat split.
  - apply (modified_logged_mono s1 log). exact M1.
  - intro Hm. destruct (H Hm) as [Hm0|Hl]; [|exact Hl].
    rewrite F. apply logged_mono. exact (M0 Hm0).
  - apply (modified_logged_mono s2 log). exact M2.
Qed.

Lemma idle_set ls i l0 l1 : nth_error ls i = Some l0 -> Forall idle ls -> idle l1 -> Forall idle (set_nth i l1 ls).
Proof.
  intros En F I. apply nth_error_split in En as (s1 & s2 & -> & <-). rewrite set_nth_split.
  apply Forall_split_mid in F as (A & _ & B). apply Forall_split_mid. auto.
Qed.

Lemma Forall_justified_mono log log' ops : Forall (op_justified log) ops -> Forall (op_justified (log ++ log')) ops.
Proof. apply Forall_impl. intros; apply op_justified_mono; assumption. Qed.

(* plistLineSorter.Sort with --autofix: the line that is marked as modified got its AUTOFIX line *)
Lemma plist_sort_fs o keys store store' printed ops af :
  o_autofix o = true -> Forall idle store -> forall log, modified_logged store log ->
  plist_sort o keys store = Ok (store', printed, ops, af) ->
  Forall idle store' /\ modified_logged store' (log ++ printed) /\
  Forall (op_justified (log ++ printed)) ops /\ wpaired ops.
Proof.
  intros Ha Id log ML. unfold plist_sort.
  assert (U : Forall idle store /\ modified_logged store (log ++ []) /\
              Forall (op_justified (log ++ [])) [] /\ wpaired []).
  { rewrite app_nil_r. repeat split; try assumption; constructor. }
  destruct (split_plist (combine (seq 0 (length keys)) keys)) as [[header middle] footer].
  match goal with |- context [if ?c then _ else _] => destruct c end;
    [intro H; inversion H; subst; exact U|].
  destruct (negb (shall_be_logged o sorted_before_format)); [intro H; inversion H; subst; exact U|].
  destruct (shall_be_logged o silent_format) eqn:SL; cbn [negb]; [|intro H; inversion H; subst; exact U].
  destruct middle as [|[first k] middle']; [intro H; inversion H; subst; exact U|].
  destruct (nat_list_eqb _ _); [intro H; inversion H; subst; exact U|].
  destruct (nth_error store first) as [l0|] eqn:En; [|discriminate].
  assert (I0 : idle l0).
  { rewrite Forall_forall in Id. apply Id. eapply nth_error_In; eassumption. }
  unfold bind. destruct (autofix l0) as [[l1 f1]|] eqn:AF; [|discriminate].
  destruct (set_diag silent_format l1) as [l2|] eqn:SD; [|discriminate].
  destruct (the_fix l2) as [f2|] eqn:TF; [|discriminate].
  assert (P : l_fix l2 = Some f2 /\ f_actions f2 = [] /\ f_level f2 = true /\ f_diag f2 = silent_format /\
              f_modified f2 = line_modified l0 /\ l_file l2 = l_file l0).
  { unfold the_fix in TF. destruct (l_fix l2) as [f|] eqn:E2; [|discriminate]. inversion TF; subst f.
    unfold autofix, idle, line_modified in *. destruct (l_fix l0) as [f|] eqn:E.
    - destruct I0 as (A & D & L). rewrite D in AF. inversion AF; subst l1 f1.
      unfold set_diag, bind, the_fix in SD. rewrite E, L, D in SD. inversion SD; subst l2.
      cbn in E2. inversion E2; subst f2. cbn. repeat split; try reflexivity. exact A.
    - inversion AF; subst l1 f1. unfold set_diag, bind, the_fix in SD. cbn in SD. inversion SD; subst l2.
      cbn in E2. inversion E2; subst f2. cbn. repeat split; reflexivity. }
  destruct P as (E2 & A2 & L2 & D2 & M2 & F2).
  set (l3 := with_fix l2 (describe 0 DSort l2 f2)).
  rewrite (apply_autofix o l3 (describe 0 DSort l2 f2));
    [|unfold is_autofix; rewrite Ha; reflexivity|reflexivity|exact L2|intros _; cbn; rewrite D2; exact SL].
  set (l4 := with_fix l3 (reset (describe 0 DSort l2 f2))).
  set (store1 := set_nth first l4 store).
  set (view := map _ _).
  assert (Hp : log_of l4 (f_actions (describe 0 DSort l2 f2)) = [Log (l_file l0) DSort (lineno_of l2 0)]).
  { unfold log_of, describe. cbn. rewrite A2. cbn. rewrite F2. reflexivity. }
  assert (ML1 : modified_logged store1 (log ++ log_of l4 (f_actions (describe 0 DSort l2 f2)))).
  { eapply modified_logged_set; [exact En|exact ML| |cbn; exact F2].
    intros _. right. rewrite Hp. exists (Log (l_file l0) DSort (lineno_of l2 0)).
    split; [apply in_or_app; right; left; reflexivity|cbn; symmetry; exact F2]. }
  assert (Id1 : Forall idle store1).
  { eapply idle_set; [exact En|exact Id|]. unfold idle. cbn. auto. }
  (* the sorted view consists of lines of the store *)
  assert (MLv : modified_logged view (log ++ log_of l4 (f_actions (describe 0 DSort l2 f2)))).
  { unfold modified_logged in *. apply Forall_forall. intros x Hx. unfold view in Hx.
    apply in_map_iff in Hx as (p & <- & _).
    destruct (nth_error store1 (fst p)) as [y|] eqn:Ey.
    - rewrite (nth_error_nth _ _ _ Ey). rewrite Forall_forall in ML1. apply ML1. eapply nth_error_In; eassumption.
    - rewrite nth_overflow by (apply nth_error_None; exact Ey). cbn. discriminate. }
  destruct (save_ops_justified o view _ MLv) as [J W].
  destruct (save o view) as [sops saf]. cbn [fst] in J, W.
  intro H. inversion H; subst. repeat split; assumption.
Qed.

Lemma step_fs_inv o keys e st st' :
  o_autofix o = true -> fs_inv st -> step o keys e st = Ok st' -> fs_inv st'.
Proof.
  intros Ha [Id ML Ju Pa]. destruct e; cbn [step].
  - destruct (nth_error (s_store st) (t_line t)) as [l0|] eqn:En.
    2:{ intro H. inversion H; subst st'. constructor; assumption. }
    unfold bind. destruct (do_txn o t l0) as [[l1 printed]|] eqn:DT; [|discriminate].
    intro H. inversion H; subst st'. clear H.
    assert (I0 : idle l0) by (rewrite Forall_forall in Id; apply Id; eapply nth_error_In; eassumption).
    destruct (do_txn_light o t l0 l1 printed Ha I0 DT) as (I1 & F1 & M1).
    constructor; cbn [s_store s_log s_ops].
    + eapply idle_set; eassumption.
    + eapply modified_logged_set; [exact En|exact ML| |exact F1].
      intro Hm. destruct (M1 Hm) as [H0|Hne]; [left; exact H0|right].
      destruct printed as [|p ps]; [congruence|].
      exists (Log (l_file l1) (fst p) (snd p)). split; [apply in_or_app; right; left; reflexivity|reflexivity].
    + apply Forall_justified_mono. exact Ju.
    + exact Pa.
  - destruct (save_ops_justified o (s_store st) (s_log st) ML) as [J W].
    destruct (save o (s_store st)) as [ops b]. cbn [fst] in J, W.
    intro H. inversion H; subst st'. constructor; cbn [s_store s_log s_ops]; try assumption.
    + apply Forall_app. split; assumption.
    + apply wpaired_app; assumption.
  - unfold bind. destruct (plist_sort o keys (s_store st)) as [[[[store' pr] ops] af]|] eqn:PS; [|discriminate].
    destruct (plist_sort_fs o keys _ _ _ _ _ Ha Id (s_log st) ML PS) as (Id' & ML' & J' & W').
    destruct (save_ops_justified o store' _ ML') as [J2 W2].
    intro H. inversion H; subst st'. constructor; cbn [s_store s_log s_ops]; try assumption.
    + apply Forall_app. split; [apply Forall_justified_mono; exact Ju|].
      apply Forall_app. split; [exact J'|]. destruct af; [constructor|exact J2].
    + apply wpaired_app; [exact Pa|]. apply wpaired_app; [exact W'|]. destruct af; [constructor|exact W2].
  - unfold bind. destruct (check_executable o file executable committed) as [[pr ops]|] eqn:CE; [|discriminate].
    intro H. inversion H; subst st'. clear H.
    apply check_executable_spec in CE as [Hp Hops].
    constructor; cbn [s_store s_log s_ops]; try assumption.
    + apply modified_logged_mono. exact ML.
    + apply Forall_app. split; [apply Forall_justified_mono; exact Ju|].
      destruct Hops as [->|(-> & _ & Hne)]; [constructor|].
      constructor; [|constructor]. cbn. destruct pr as [|p ps]; [congruence|].
      inversion Hp as [|? ? Hd _]; subst.
      exists (Log file (fst p) (snd p)). split; [apply in_or_app; right; left; reflexivity|].
      split; [reflexivity|exact Hd].
    + apply wpaired_app; [exact Pa|]. destruct Hops as [->|(-> & _)]; repeat constructor.
Qed.

Lemma run_fs_inv o keys evs : forall st st',
  o_autofix o = true -> fs_inv st -> run o keys evs st = Ok st' -> fs_inv st'.
Proof.
  induction evs as [|e evs IH]; intros st st' Ha I; cbn [run].
  - intro H; inversion H; subst; exact I.
  - unfold bind. destruct (step o keys e st) as [s1|] eqn:S; [|discriminate]. intro H.
    eapply IH; [exact Ha| |exact H]. eapply step_fs_inv; eassumption.
Qed.

(* a freshly loaded state: no fix object anywhere, nothing logged, nothing done *)
Definition fresh (st : state) : Prop :=
  Forall (fun l => l_fix l = None) (s_store st) /\ s_log st = [] /\ s_ops st = [].

Lemma fresh_fs_inv st : fresh st -> fs_inv st.
Proof.
  intros (F & L & O). constructor; rewrite ?L, ?O; try constructor.
  - eapply Forall_impl; [|exact F]. intros l E. unfold idle. rewrite E. exact I.
  - unfold modified_logged. eapply Forall_impl; [|exact F]. intros l E. unfold line_modified. rewrite E. discriminate.
Qed.

Theorem autofix_touches_only_changed o keys evs st st' :
  o_autofix o = true -> fresh st -> run o keys evs st = Ok st' ->
  Forall (op_justified (s_log st')) (s_ops st').
Proof. intros Ha F R. exact (fi_just _ (run_fs_inv o keys evs st st' Ha (fresh_fs_inv st F) R)). Qed.

Theorem no_tmp_left o keys evs st st' :
  o_autofix o = true -> fresh st -> run o keys evs st = Ok st' -> wpaired (s_ops st').
Proof. intros Ha F R. exact (fi_paired _ (run_fs_inv o keys evs st st' Ha (fresh_fs_inv st F) R)). Qed.

Theorem changed_implies_logged o keys evs st st' :
  o_autofix o = true -> fresh st -> run o keys evs st = Ok st' ->
  forall l, In l (s_store st') -> line_modified l = true -> logged (s_log st') (l_file l).
Proof.
  intros Ha F R l Hl Hm.
  pose proof (fi_logged _ (run_fs_inv o keys evs st st' Ha (fresh_fs_inv st F) R)) as ML.
  unfold modified_logged in ML. rewrite Forall_forall in ML. exact (ML l Hl Hm).
Qed.

(* ---------- one save, with faults ---------- *)

(* the temporary files that exist after the operations *)
Fixpoint remove_one (p : str) (l : list str) : list str :=
  match l with
  | [] => []
  | x :: l' => if str_eqb p x then l' else x :: remove_one p l'
  end.

Fixpoint tmp_left (existing : list str) (ops : list fsop) : list str :=
  match ops with
  | [] => existing
  | OpCreateExcl p :: r => tmp_left (p :: existing) r
  | OpRename a _ :: r => tmp_left (remove_one a existing) r
  | OpRemove p :: r => tmp_left (remove_one p existing) r
  | _ :: r => tmp_left existing r
  end.

Lemma save_file_cases e f c :
  let tmp := f ++ tmp_suffix in
  save_file e f c = ([], false) \/
  (exists mid last, fst (save_file e f c) = OpCreateExcl tmp :: mid ++ [last] /\
     Forall (fun op => op = OpWrite tmp c \/ op = OpChmodLike tmp f) mid /\
     ((last = OpRemove tmp /\ snd (save_file e f c) = false) \/
      (last = OpRename tmp f /\ snd (save_file e f c) = true))).
Proof.
  intro tmp. unfold save_file. fold tmp.
  destruct (e_tmp_exists e tmp); [left; reflexivity|right].
  set (werr := e_write_fails e tmp). set (sf := e_stat_fails e f).
  set (cf := e_chmod_fails e tmp). set (rf := e_rename_fails e tmp).
  exists ((if werr then [] else [OpWrite tmp c]) ++
          (if negb werr && negb sf && negb (negb werr && negb sf && cf) then [OpChmodLike tmp f] else [])),
         (if werr || (negb werr && negb sf && cf) || rf then OpRemove tmp else OpRename tmp f).
  destruct werr, sf, cf, rf; cbn; (split; [reflexivity|]);
    (split; [repeat (apply Forall_cons; [first [left; reflexivity|right; reflexivity]|]); apply Forall_nil|]); auto.
Qed.

Lemma tmp_left_mid tmp f c mid : Forall (fun op => op = OpWrite tmp c \/ op = OpChmodLike tmp f) mid ->
  forall ex rest, tmp_left ex (mid ++ rest) = tmp_left ex rest.
Proof.
  induction 1 as [|op mid [->| ->] _ IH]; intros ex rest; cbn [app tmp_left]; auto.
Qed.

Lemma save_file_balanced e f c ex rest :
  tmp_left ex (fst (save_file e f c) ++ rest) = tmp_left ex rest.
Proof.
  destruct (save_file_cases e f c) as [E|(mid & last & E & M & L)].
  - rewrite E. reflexivity.
  - rewrite E. cbn [app tmp_left]. rewrite <- app_assoc, (tmp_left_mid _ _ _ _ M).
    destruct L as [[-> _]|[-> _]]; cbn [app tmp_left remove_one]; rewrite str_eqb_refl; reflexivity.
Qed.

(* whatever fails: no temporary file is left behind by SaveAutofixChanges *)
Theorem no_tmp_left_faults e o ls : tmp_left [] (fst (save_env e o ls)) = [].
Proof.
  unfold save_env. destruct (negb (o_autofix o)); [reflexivity|]. cbn [fst].
  induction (changed_files ls []) as [|f fs IH]; [reflexivity|].
  cbn [map flat_map]. rewrite save_file_balanced. exact IH.
Qed.

(* when the temporary file cannot be created exclusively, nothing is touched *)
Theorem create_fails_untouched e f c :
  e_tmp_exists e (f ++ tmp_suffix) = true -> save_file e f c = ([], false).
Proof. intro H. unfold save_file. rewrite H. reflexivity. Qed.

(* a file is only replaced by a temporary file that carries its bytes and, if the
   original could be examined, its mode *)
Theorem saved_with_mode e f c :
  snd (save_file e f c) = true -> e_stat_fails e f = false -> fst (save_file e f c) = save_seq f c.
Proof.
  unfold save_file, save_seq. destruct (e_tmp_exists e (f ++ tmp_suffix)); [discriminate|].
  destruct (e_write_fails e (f ++ tmp_suffix)), (e_stat_fails e f), (e_chmod_fails e (f ++ tmp_suffix)),
    (e_rename_fails e (f ++ tmp_suffix)); cbn; intros; try discriminate; reflexivity.
Qed.

(* every operation of a save concerns f.pkglint.tmp of a changed file f; only the
   rename touches f itself *)
Definition op_on_changed (fs : list str) (op : fsop) : Prop :=
  match op with
  | OpCreateExcl p | OpWrite p _ | OpRemove p => exists f, In f fs /\ p = f ++ tmp_suffix
  | OpChmodLike p like => exists f, In f fs /\ p = f ++ tmp_suffix /\ like = f
  | OpRename a b => exists f, In f fs /\ a = f ++ tmp_suffix /\ b = f
  | OpChmod _ => False
  end.

Theorem save_env_touches_only_changed e o ls :
  Forall (op_on_changed (changed_files ls [])) (fst (save_env e o ls)).
Proof.
  unfold save_env. destruct (negb (o_autofix o)); [constructor|]. cbn [fst].
  assert (G : forall fs all, (forall f, In f fs -> In f all) ->
            Forall (op_on_changed all) (flat_map fst (map (fun f => save_file e f (file_content f ls)) fs))).
  { induction fs as [|f fs IH]; intros all Hall; [constructor|]. cbn [map flat_map].
    apply Forall_app. split; [|apply IH; intros; apply Hall; right; assumption].
    assert (Hf : In f all) by (apply Hall; left; reflexivity).
    destruct (save_file_cases e f (file_content f ls)) as [E|(mid & last & E & M & L)]; rewrite E; [constructor|].
    constructor; [exists f; auto|]. apply Forall_app. split.
    - eapply Forall_impl; [|exact M]. intros op [->| ->]; exists f; auto.
    - constructor; [|constructor]. destruct L as [[-> _]|[-> _]]; exists f; auto. }
  apply G. auto.
Qed.

Lemma save_env_no_faults o ls : save_env no_faults o ls = save o ls.
Proof.
  unfold save_env, save. destruct (negb (o_autofix o)); [reflexivity|].
  induction (changed_files ls []) as [|f fs IH]; [reflexivity|].
  cbn [map flat_map existsb]. inversion IH as [[H1 H2]]. rewrite H1.
  unfold save_file at 1 3. cbn. reflexivity.
Qed.
