(* C19: HasPrefixPath agrees with the prefix relation on component lists. *)
From PV Require Import Lib.Bytes Model.Paths Spec.PathDenote Proofs.PathsBase.
Open Scope N_scope.

(* ---------- list prefix ---------- *)
Lemma list_prefixb_spec a b : list_prefixb a b = true <-> exists c, b = a ++ c.
Proof.
  revert b; induction a as [|x a IH]; intro b; simpl.
  - split; [intros _; exists b; reflexivity|reflexivity].
  - destruct b as [|y b].
    + split; [discriminate|intros [c H]; discriminate].
    + rewrite andb_true_iff, str_eqb_spec, IH. split.
      * intros [-> [c ->]]. exists c. reflexivity.
      * intros [c H]. inversion H; subst. split; [reflexivity|exists c; reflexivity].
Qed.

Lemma list_prefixb_app a c : list_prefixb a (a ++ c) = true.
Proof. apply list_prefixb_spec. exists c. reflexivity. Qed.

Lemma list_prefixb_refl a : list_prefixb a a = true.
Proof. apply list_prefixb_spec. exists []. symmetry. apply app_nil_r. Qed.

Lemma parts_prefix_eq a b : parts_prefix a b = list_prefixb a b.
Proof.
  revert b; induction a as [|x a IH]; intro b; simpl; [reflexivity|].
  destruct b as [|y b]; [reflexivity|]. rewrite IH, (str_eqb_sym y x). reflexivity.
Qed.

(* ---------- components of a concatenation ---------- *)
Lemma names_app_slash a b : names (a ++ slash :: b) = names a ++ names b.
Proof.
  unfold names. rewrite (segs_split (a ++ slash :: b)), split_app_slash, filter_app.
  rewrite <- (segs_split a), <- (segs_split b). reflexivity.
Qed.

Lemma rooted_app a b : a <> [] -> rooted (a ++ b) = rooted a.
Proof. destruct a; [contradiction|reflexivity]. Qed.

Lemma components_app_slash a b : a <> [] -> components (a ++ slash :: b) = components a ++ names b.
Proof.
  intro H. unfold components. fold (names (a ++ slash :: b)) (names a).
  rewrite names_app_slash, rooted_app by exact H. rewrite app_assoc. reflexivity.
Qed.

(* the first component tells whether the path is rooted *)
Lemma name_nonempty x p : In x (names p) -> x <> [] /\ x <> dotstr.
Proof.
  unfold names. intro H. apply filter_In in H as [_ H]. unfold seg_is_name in H.
  apply andb_true_iff in H as [H1 H2]. split.
  - intros ->. discriminate.
  - intros ->. discriminate.
Qed.

Lemma components_head p x t : components p = x :: t -> is_empty x = rooted p /\ x <> dotstr.
Proof.
  unfold components. fold (names p). destruct (rooted p); simpl; intro H.
  - inversion H; subst. split; [reflexivity|discriminate].
  - assert (Hx : In x (names p)) by (rewrite H; left; reflexivity).
    apply name_nonempty in Hx as [H1 H2]. split; [destruct x; [contradiction|reflexivity]|exact H2].
Qed.

Lemma components_nil p : components p = [] <-> rooted p = false /\ names p = [].
Proof.
  unfold components. fold (names p). destruct (rooted p); simpl.
  - split; [discriminate|intros [H _]; discriminate].
  - split; [intro H; split; [reflexivity|exact H]|intros [_ H]; exact H].
Qed.

Lemma prefix_same_root q p :
  components q <> [] -> list_prefixb (components q) (components p) = true -> rooted q = rooted p.
Proof.
  intros Hq H. apply list_prefixb_spec in H as [c H].
  destruct (components q) as [|x t] eqn:Eq; [contradiction|].
  destruct (components_head q x t Eq) as [H1 _].
  destruct (components_head p x (t ++ c) H) as [H2 _]. congruence.
Qed.

(* ---------- (i) the text shortcut ---------- *)
Lemma text_prefix_sound p q : q <> [] -> text_prefix p q = true -> path_prefixb q p = true.
Proof.
  intros Hq H. unfold text_prefix in H. destruct (strip_prefix q p) as [r|] eqn:E; [|discriminate].
  apply strip_prefix_some in E. subst p. unfold path_prefixb.
  destruct r as [|c r].
  - rewrite app_nil_r, eqb_reflx, list_prefixb_refl. reflexivity.
  - apply N.eqb_eq in H. subst c. rewrite rooted_app by exact Hq. rewrite eqb_reflx.
    rewrite components_app_slash by exact Hq. rewrite list_prefixb_app. reflexivity.
Qed.

(* ---------- (iii) the quick-reject loop ---------- *)
Definition strip (s : str) : str := filter (fun c => negb (dot_or_slash c)) s.

Lemma quick_reject_sound p : forall q,
  quick_reject p q = true -> forall r, strip p <> strip q ++ r.
Proof.
  induction p as [|c p IH]; intros q H; [discriminate|].
  simpl in H. unfold strip at 1. simpl filter. destruct (dot_or_slash c) eqn:Ec.
  - simpl negb. cbv iota. apply IH. exact H.
  - simpl negb. cbv iota. fold (strip p).
    revert H. induction q as [|d q IHq]; intro H; [discriminate|].
    unfold strip at 2. simpl filter. destruct (dot_or_slash d) eqn:Ed.
    + simpl negb. cbv iota. apply IHq. exact H.
    + simpl negb. cbv iota. fold (strip q). destruct (N.eqb_spec c d) as [->|Hne].
      * intros r Hr. inversion Hr. eapply IH; eauto.
      * intros r Hr. inversion Hr. contradiction.
Qed.

Lemma strip_app a b : strip (a ++ b) = strip a ++ strip b.
Proof. apply filter_app. Qed.

Lemma strip_join l : strip (join_slash l) = concat (map strip l).
Proof.
  induction l as [|x l IH]; [reflexivity|]. destruct l as [|y l].
  - simpl. rewrite app_nil_r. reflexivity.
  - change (join_slash (x :: y :: l)) with (x ++ slash :: join_slash (y :: l)).
    rewrite strip_app. change (strip (slash :: join_slash (y :: l))) with (strip (join_slash (y :: l))).
    rewrite IH. reflexivity.
Qed.

Lemma strip_not_name x : seg_is_name x = false -> strip x = [].
Proof.
  unfold seg_is_name. destruct x as [|c x]; [reflexivity|]. simpl. intro H.
  apply negb_false_iff in H. apply (proj1 (str_eqb_spec _ _)) in H. inversion H; subst. reflexivity.
Qed.

Lemma strip_filter_names l : concat (map strip (filter seg_is_name l)) = concat (map strip l).
Proof.
  induction l as [|x l IH]; [reflexivity|]. simpl. destruct (seg_is_name x) eqn:E; simpl.
  - rewrite IH. reflexivity.
  - rewrite strip_not_name by exact E. exact IH.
Qed.

Lemma strip_components p : concat (map strip (components p)) = strip p.
Proof.
  unfold components. rewrite map_app, concat_app.
  destruct (rooted p); simpl; rewrite strip_filter_names, (segs_split p), <- (strip_join (split_slash p)), (join_split p); reflexivity.
Qed.

Lemma prefix_strip q p :
  list_prefixb (components q) (components p) = true -> exists r, strip p = strip q ++ r.
Proof.
  intro H. apply list_prefixb_spec in H as [c H].
  exists (concat (map strip c)).
  rewrite <- (strip_components p), H, map_app, concat_app, strip_components. reflexivity.
Qed.

Lemma quick_reject_ok p q : quick_reject p q = true -> path_prefixb q p = false.
Proof.
  intro H. unfold path_prefixb. destruct (list_prefixb (components q) (components p)) eqn:E.
  - exfalso. destruct (prefix_strip q p E) as [r Hr]. eapply quick_reject_sound; eauto.
  - apply andb_false_r.
Qed.

(* ---------- (iv) the comparison of the Parts ---------- *)
Lemma parts_compare p q :
  p <> [] -> q <> [] -> components q <> [] ->
  parts_prefix (parts q) (parts p) = path_prefixb q p.
Proof.
  intros Hp Hq Hcq. rewrite parts_prefix_eq. rewrite (parts_components q Hq), (parts_components p Hp).
  unfold path_prefixb.
  destruct (components q) as [|x t] eqn:Eq; [contradiction|]. rewrite <- Eq.
  destruct (components p) as [|y u] eqn:Ep.
  - (* p has no component: Parts(p) = ["."], and the first component of q is not "." *)
    rewrite Eq. simpl. destruct (components_head q x t Eq) as [_ Hx].
    destruct (str_eqb x dotstr) eqn:E; [apply str_eqb_spec in E; contradiction|].
    simpl. rewrite andb_false_r. reflexivity.
  - rewrite <- Ep. destruct (list_prefixb (components q) (components p)) eqn:E.
    + rewrite (prefix_same_root q p) by (congruence || exact E). rewrite eqb_reflx. reflexivity.
    + rewrite andb_false_r. reflexivity.
Qed.

(* ---------- the theorem ---------- *)
Lemma is_dot_parts_components q : q <> [] ->
  is_dot_parts (parts q) = match components q with [] => true | _ => false end.
Proof.
  intro Hq. rewrite (parts_components q Hq). destruct (components q) as [|x t] eqn:E; [reflexivity|].
  destruct (components_head q x t E) as [_ Hx]. destruct t; [|reflexivity]. simpl.
  apply str_eqb_false. exact Hx.
Qed.

Theorem prefix_is_parts_prefix p q :
  p <> [] -> q <> [] -> (components q = [] -> is_abs p = rooted p) ->
  has_prefix_path p q = path_prefixb q p.
Proof.
  intros Hp Hq Habs. unfold has_prefix_path.
  destruct (text_prefix p q) eqn:Et.
  - symmetry. apply text_prefix_sound; assumption.
  - destruct q as [|c0 q0] eqn:Eq0; [contradiction|]. rewrite <- Eq0 in *. simpl is_empty.
    replace (is_empty q) with false by (rewrite Eq0; reflexivity).
    destruct (str_eqb q dotstr) eqn:Ed.
    + apply str_eqb_spec in Ed. rewrite Ed in *. rewrite (Habs eq_refl). unfold path_prefixb.
      change (components dotstr) with (@nil str). change (rooted dotstr) with false.
      simpl. destruct (rooted p); reflexivity.
    + destruct (quick_reject p q) eqn:Eqr.
      * symmetry. apply quick_reject_ok. exact Eqr.
      * rewrite (is_dot_parts_components q Hq). destruct (components q) as [|x t] eqn:Ec.
        -- (* "./", "./.": no component, relative *)
           rewrite (Habs eq_refl). unfold path_prefixb. rewrite Ec.
           apply components_nil in Ec as [Hr _]. rewrite Hr. simpl. destruct (rooted p); reflexivity.
        -- apply parts_compare; try assumption. rewrite Ec. discriminate.
Qed.
