(* Character lists: the byte array filled by compileCharClass, the runs
   addTransitions cuts it into, and bmake's list scanner agree -- except for a
   non-negated list containing a range that ends in ']'. *)
From PV Require Import Lib.Bytes Lib.ByteRange Gen.NumberAutomaton Model.Makepat Spec.StrMatch
  Proofs.MakepatBasics Proofs.MakepatChain.
From Coq Require Import ZifyBool ZifyN ZifyNat.
Open Scope N_scope.

Definition chars_at (chars : list bool) (i : N) : bool :=
  match nth_n chars i with Some b => b | None => false end.

Lemma chars_at_cons b chars i : chars_at (b :: chars) i = if i =? 0 then b else chars_at chars (N.pred i).
Proof. unfold chars_at. rewrite nth_n_cons. destruct (i =? 0); reflexivity. Qed.

Lemma set_range_from_nlen chars : forall i lo hi, nlen (set_range_from chars i lo hi) = nlen chars.
Proof. induction chars as [|b chars IH]; intros; cbn [set_range_from nlen]; [reflexivity|]. rewrite IH. reflexivity. Qed.

Lemma set_range_from_at chars : forall i0 lo hi j,
  chars_at (set_range_from chars i0 lo hi) j
  = chars_at chars j || ((j <? nlen chars) && (lo <=? i0 + j) && (i0 + j <=? hi)).
Proof.
  induction chars as [|b chars IH]; intros i0 lo hi j; cbn [set_range_from].
  - unfold chars_at. cbn [nth_n nlen]. assert (j <? 0 = false) by lia. rewrite H. reflexivity.
  - rewrite !chars_at_cons, nlen_cons. destruct (N.eqb_spec j 0) as [->|Hj].
    + rewrite N.add_0_r. assert (0 <? N.succ (nlen chars) = true) by lia. rewrite H. cbn [andb].
      destruct ((lo <=? i0) && (i0 <=? hi)), b; reflexivity.
    + rewrite IH. f_equal.
      replace (N.succ i0 + N.pred j) with (i0 + j) by lia.
      assert ((N.pred j <? nlen chars) = (j <? N.succ (nlen chars))) by lia. rewrite H. reflexivity.
Qed.

Lemma set_range_at chars lo hi j : j < nlen chars ->
  chars_at (set_range chars lo hi) j = chars_at chars j || ((lo <=? j) && (j <=? hi)).
Proof.
  intro H. unfold set_range. rewrite set_range_from_at. rewrite N.add_0_l.
  assert (j <? nlen chars = true) by lia. rewrite H0. reflexivity.
Qed.

Lemma set_range_nlen chars lo hi : nlen (set_range chars lo hi) = nlen chars.
Proof. apply set_range_from_nlen. Qed.

Lemma chars_empty_nlen : nlen chars_empty = 256.
Proof. reflexivity. Qed.

Lemma chars_empty_at j : chars_at chars_empty j = false.
Proof.
  unfold chars_at. destruct (nth_n chars_empty j) as [b|] eqn:E; [|reflexivity].
  assert (G : forall n i b, nth_n (nrepeat false n) i = Some b -> b = false).
  { induction n as [|n IH]; intros i b0 H; [discriminate|]. cbn [nrepeat] in H. rewrite nth_n_cons in H.
    destruct (i =? 0); [congruence|eauto]. }
  exact (G _ _ _ E).
Qed.

Lemma chars_at_negb chars j : j < nlen chars -> chars_at (map negb chars) j = negb (chars_at chars j).
Proof.
  revert j; induction chars as [|b chars IH]; intros j H; [cbn in H; lia|].
  cbn [map]. rewrite !chars_at_cons. destruct (N.eqb_spec j 0); [reflexivity|].
  apply IH. rewrite nlen_cons in H. lia.
Qed.

Lemma map_negb_nlen (chars : list bool) : nlen (map negb chars) = nlen chars.
Proof. rewrite !nlen_length, map_length. reflexivity. Qed.

(* ---------- addTransitions: the runs cover exactly the true entries ---------- *)

Lemma in_ranges_cons lo hi rs c : in_ranges ((lo, hi) :: rs) c = ((lo <=? c) && (c <=? hi)) || in_ranges rs c.
Proof. reflexivity. Qed.

Lemma runs_from_exact chars : forall i run c,
  (forall st, run = Some st -> st < i) ->
  (in_ranges (runs_from chars i run) c = true <->
   (exists st, run = Some st /\ st <= c /\ c < i) \/ (i <= c /\ chars_at chars (c - i) = true)).
Proof.
  induction chars as [|b chars IH]; intros i run c Hrun; cbn [runs_from].
  - destruct run as [st|].
    + specialize (Hrun st eq_refl). rewrite in_ranges_cons. cbn [in_ranges existsb]. rewrite orb_false_r. split.
      * intro H. left. exists st. split; [reflexivity|]. lia.
      * intros [(st' & E & H1 & H2)|[_ H]]; [injection E as <-; lia|discriminate].
    + cbn. split; [discriminate|]. intros [(st' & E & _)|[_ H]]; discriminate.
  - destruct run as [st|].
    + specialize (Hrun st eq_refl). destruct b.
      * rewrite IH by (intros st' E; injection E as <-; lia). split.
        -- intros [(st' & E & H1 & H2)|[H1 H2]].
           ++ injection E as <-. destruct (N.eq_dec c i) as [->|Hne].
              ** right. split; [lia|]. rewrite N.sub_diag. reflexivity.
              ** left. exists st. split; [reflexivity|lia].
           ++ right. split; [lia|]. rewrite chars_at_cons. destruct (N.eqb_spec (c - i) 0); [reflexivity|].
              replace (N.pred (c - i)) with (c - N.succ i) by lia. exact H2.
        -- intros [(st' & E & H1 & H2)|[H1 H2]].
           ++ injection E as <-. left. exists st. split; [reflexivity|lia].
           ++ rewrite chars_at_cons in H2. destruct (N.eqb_spec (c - i) 0) as [E0|Hne].
              ** left. exists st. split; [reflexivity|lia].
              ** right. split; [lia|]. replace (c - N.succ i) with (N.pred (c - i)) by lia. exact H2.
      * rewrite in_ranges_cons, orb_true_iff. rewrite IH by (intros st' E; discriminate). split.
        -- intros [H|[(st' & E & _)|[H1 H2]]]; [|discriminate|].
           ++ left. exists st. split; [reflexivity|lia].
           ++ right. split; [lia|]. rewrite chars_at_cons. destruct (N.eqb_spec (c - i) 0); [lia|].
              replace (N.pred (c - i)) with (c - N.succ i) by lia. exact H2.
        -- intros [(st' & E & H1 & H2)|[H1 H2]].
           ++ injection E as <-. left. lia.
           ++ rewrite chars_at_cons in H2. destruct (N.eqb_spec (c - i) 0) as [E0|Hne]; [discriminate|].
              right. right. split; [lia|]. replace (c - N.succ i) with (N.pred (c - i)) by lia. exact H2.
    + destruct b.
      * rewrite IH by (intros st' E; injection E as <-; lia). split.
        -- intros [(st' & E & H1 & H2)|[H1 H2]].
           ++ injection E as <-. right. split; [lia|]. assert (c = i) as -> by lia. rewrite N.sub_diag. reflexivity.
           ++ right. split; [lia|]. rewrite chars_at_cons. destruct (N.eqb_spec (c - i) 0); [reflexivity|].
              replace (N.pred (c - i)) with (c - N.succ i) by lia. exact H2.
        -- intros [(st' & E & _)|[H1 H2]]; [discriminate|].
           rewrite chars_at_cons in H2. destruct (N.eqb_spec (c - i) 0) as [E0|Hne].
           ++ left. exists i. split; [reflexivity|lia].
           ++ right. split; [lia|]. replace (c - N.succ i) with (N.pred (c - i)) by lia. exact H2.
      * rewrite IH by (intros st' E; discriminate). split.
        -- intros [(st' & E & _)|[H1 H2]]; [discriminate|].
           right. split; [lia|]. rewrite chars_at_cons. destruct (N.eqb_spec (c - i) 0); [lia|].
           replace (N.pred (c - i)) with (c - N.succ i) by lia. exact H2.
        -- intros [(st' & E & _)|[H1 H2]]; [discriminate|].
           rewrite chars_at_cons in H2. destruct (N.eqb_spec (c - i) 0) as [E0|Hne]; [discriminate|].
           right. split; [lia|]. replace (c - N.succ i) with (N.pred (c - i)) by lia. exact H2.
Qed.

(* add_transitions_exact *)
Theorem runs_exact chars c : in_ranges (runs chars) c = chars_at chars c.
Proof.
  unfold runs. pose proof (runs_from_exact chars 0 None c) as H.
  assert (H0 : forall st : N, None = Some st -> st < 0) by (intros; discriminate).
  specialize (H H0). rewrite N.sub_0_r in H.
  destruct (in_ranges (runs_from chars 0 None) c), (chars_at chars c); try reflexivity.
  - destruct (proj1 H eq_refl) as [(st & E & _)|[_ G]]; discriminate.
  - apply (proj2 H). right. split; [lia|reflexivity].
Qed.

(* ---------- bmake's scanner against the array ---------- *)

Lemma rb_elem_step neg x d r2 : x <> 93 -> d <> 45 ->
  range_to_rbracket_from (PElem neg) (x :: d :: r2) = range_to_rbracket_from (PElem neg) (d :: r2).
Proof.
  intros Hx Hd. cbn [range_to_rbracket_from pnext orb].
  destruct (N.eqb_spec x 93); [contradiction|]. cbn [range_to_rbracket_from pnext orb].
  destruct (N.eqb_spec d 45); [contradiction|]. reflexivity.
Qed.

Lemma class_loop_scan n : forall r cs chars rest2 neg sc, (length r <= n)%nat ->
  class_loop r cs = Some (chars, rest2) ->
  range_to_rbracket_from (PElem neg) r = false ->
  nlen cs = 256 -> sc < 256 ->
  range_to_rbracket_from PTop rest2 = false /\ nlen chars = 256 /\
  (neg = false -> after_rbracket r = rest2) /\
  exists h, chars_at chars sc = chars_at cs sc || h /\
            list_scan neg sc r = if xorb h neg then LMatch rest2 else LNoMatch.
Proof.
  induction n as [|n IH]; intros r cs chars rest2 neg sc Hn H G Lcs Hsc.
  - destruct r; [discriminate|cbn in Hn; lia].
  - destruct r as [|x p1]; [discriminate|]. cbn [class_loop] in H.
    destruct (N.eqb_spec x 93) as [->|Hx].
    + (* the closing bracket *)
      injection H as <- <-. cbn [range_to_rbracket_from pnext orb] in G.
      split; [exact G|]. split; [exact Lcs|]. split; [reflexivity|].
      exists false. split; [rewrite orb_false_r; reflexivity|].
      cbn [list_scan]. destruct neg; reflexivity.
    + destruct p1 as [|d p2]; [discriminate|].
      destruct (N.eqb_spec d 45) as [->|Hd].
      * (* a range x-e2 *)
        destruct p2 as [|e2 p3]; [discriminate|].
        cbn [range_to_rbracket_from pnext] in G.
        destruct (N.eqb_spec x 93); [contradiction|].
        cbn [range_to_rbracket_from pnext orb] in G.
        apply orb_false_iff in G as [Ge G].
        assert (L3 : (length p3 <= n)%nat) by (cbn [length] in Hn; lia).
        set (lo := if e2 <? x then e2 else x) in *.
        set (hi := if e2 <? x then x else e2) in *.
        assert (H' : class_loop p3 (set_range cs lo hi) = Some (chars, rest2)).
        { unfold lo, hi. destruct (e2 <? x); exact H. }
        destruct (IH p3 (set_range cs lo hi) chars rest2 neg sc L3 H' G) as (G2 & Lc & Ha & h' & Hh & Hl);
          [rewrite set_range_nlen; exact Lcs|exact Hsc|].
        split; [exact G2|]. split; [exact Lc|].
        assert (Hafter : neg = false -> after_rbracket (x :: 45 :: e2 :: p3) = rest2).
        { intro En. subst neg. cbn [after_rbracket]. destruct (N.eqb_spec x 93); [contradiction|].
          destruct (N.eqb_spec e2 93); [discriminate|]. cbn. exact (Ha eq_refl). }
        split; [exact Hafter|].
        assert (Hin : (lo <=? sc) && (sc <=? hi) = in_range_either x e2 sc).
        { unfold lo, hi, in_range_either. destruct (N.ltb_spec e2 x); lia. }
        exists (in_range_either x e2 sc || h'). split.
        { rewrite Hh, set_range_at by lia. rewrite Hin, orb_assoc. reflexivity. }
        cbn [list_scan]. destruct (N.eqb_spec x 93); [contradiction|].
        destruct (N.eqb_spec x sc) as [->|Hxs].
        { assert (E1 : in_range_either sc e2 sc = true) by (unfold in_range_either; lia).
          rewrite E1. cbn [orb]. unfold end_of_char_list. destruct (N.eqb_spec sc 93); [contradiction|].
          destruct neg; [reflexivity|]. cbn [andb xorb]. rewrite (Hafter eq_refl). reflexivity. }
        cbn [N.eqb]. destruct (in_range_either x e2 sc) eqn:Er.
        { cbn [orb]. unfold end_of_char_list. destruct (N.eqb_spec x 93); [contradiction|].
          destruct neg; [reflexivity|]. cbn [andb xorb]. rewrite (Hafter eq_refl). reflexivity. }
        cbn [orb]. exact Hl.
      * (* a single byte x; d starts the next element *)
        rewrite rb_elem_step in G by assumption.
        assert (L1 : (length (d :: p2) <= n)%nat) by (cbn [length] in *; lia).
        destruct (IH (d :: p2) (set_range cs x x) chars rest2 neg sc L1 H G) as (G2 & Lc & Ha & h' & Hh & Hl);
          [rewrite set_range_nlen; exact Lcs|exact Hsc|].
        split; [exact G2|]. split; [exact Lc|].
        assert (Hafter : neg = false -> after_rbracket (x :: d :: p2) = rest2).
        { intro En. cbn [after_rbracket]. destruct (N.eqb_spec x 93); [contradiction|]. exact (Ha En). }
        split; [exact Hafter|].
        exists ((x =? sc) || h'). split.
        { rewrite Hh, set_range_at by lia. rewrite orb_assoc. f_equal. f_equal. lia. }
        cbn [list_scan]. destruct (N.eqb_spec x 93); [contradiction|].
        destruct (N.eqb_spec x sc) as [->|Hxs].
        { cbn [orb]. unfold end_of_char_list. destruct (N.eqb_spec sc 93); [contradiction|].
          destruct neg; [reflexivity|]. cbn [andb xorb]. rewrite (Hafter eq_refl). reflexivity. }
        destruct (N.eqb_spec d 45); [contradiction|]. cbn [orb]. exact Hl.
Qed.

(* '[' followed by an optional '^' *)
Lemma skip_caret rest :
  skip_byte 94 rest
  = (match rest with c :: _ => c =? 94 | [] => false end,
     if match rest with c :: _ => c =? 94 | [] => false end then tl rest else rest).
Proof.
  destruct rest as [|c r]; [reflexivity|]. unfold skip_byte. destruct (c =? 94); reflexivity.
Qed.

Lemma rb_list0 rest neg r1 : skip_byte 94 rest = (neg, r1) ->
  range_to_rbracket_from PList0 rest = range_to_rbracket_from (PElem neg) r1.
Proof.
  destruct rest as [|c r]; unfold skip_byte.
  - intro H; injection H as <- <-. reflexivity.
  - destruct (N.eqb_spec c 94) as [->|Hc]; intro H; injection H as <- <-.
    + reflexivity.
    + cbn [range_to_rbracket_from pnext orb]. destruct (N.eqb_spec c 94); [contradiction|]. reflexivity.
Qed.

(* the list as a whole *)
Theorem list_scan_class rest neg r1 chars rest2 sc :
  skip_byte 94 rest = (neg, r1) -> class_loop r1 chars_empty = Some (chars, rest2) ->
  range_to_rbracket_from PList0 rest = false -> sc < 256 ->
  range_to_rbracket_from PTop rest2 = false /\
  list_scan neg sc r1
  = if in_ranges (runs (if neg then map negb chars else chars)) sc then LMatch rest2 else LNoMatch.
Proof.
  intros Hsk Hcl G Hsc. rewrite (rb_list0 _ _ _ Hsk) in G.
  destruct (class_loop_scan _ r1 chars_empty chars rest2 neg sc (le_n _) Hcl G chars_empty_nlen Hsc)
    as (G2 & Lc & _ & h & Hh & Hl).
  split; [exact G2|]. rewrite Hl, runs_exact. rewrite chars_empty_at in Hh. cbn [orb] in Hh.
  destruct neg.
  - rewrite chars_at_negb by lia. rewrite Hh. destruct h; reflexivity.
  - rewrite Hh. destruct h; reflexivity.
Qed.
