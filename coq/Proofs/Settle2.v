(* C16, round 4: proofs about check_cvsid, plist_pass and used_by of Model/Settle.v. *)
From Coq Require Import Lia.
From PV Require Import Lib.Bytes Model.Settle.
Open Scope N_scope.

(* ---------- Lines.CheckCvsID ---------- *)
Lemma id_suggest_is_id k : is_cvsid_k k (id_suggest k) = true.
Proof. destruct k; vm_compute; reflexivity. Qed.

Theorem check_cvsid_total k ls : ls <> [] -> check_cvsid k ls <> None.
Proof. destruct ls; [congruence|cbn; discriminate]. Qed.

Theorem check_cvsid_settles k ls ls' :
  check_cvsid k ls = Some ls' -> check_cvsid k ls' = Some ls'.
Proof.
  destruct ls as [|l0 r]; cbn; [discriminate|].
  destruct (is_cvsid_k k l0) eqn:E; intro H; inversion H; subst; cbn.
  - rewrite E. reflexivity.
  - rewrite id_suggest_is_id. reflexivity.
Qed.

(* ---------- PLIST ---------- *)
Lemma strip_conds_fuel_some f : forall l, (length l < f)%nat -> strip_conds_fuel f l <> None.
Proof.
  induction f as [|f IH]; intros l Hl; [lia|].
  cbn [strip_conds_fuel].
  destruct (strip_prefix plist_cond_open l) as [r|] eqn:Hp; [|discriminate].
  apply strip_prefix_some in Hp.
  destruct (span is_cond_char r) as [name rest] eqn:Hs.
  pose proof (span_length is_cond_char r) as Hlen. rewrite Hs in Hlen. cbn [fst snd] in Hlen.
  destruct name as [|n0 name]; [discriminate|].
  destruct rest as [|c rest']; [discriminate|].
  destruct (c =? 125); [|discriminate].
  apply IH. subst l. rewrite app_length in Hl. cbn [length] in *. lia.
Qed.

Lemma strip_conds_total l : strip_conds l <> None.
Proof. unfold strip_conds. apply strip_conds_fuel_some. lia. Qed.

Lemma plist_line_fix_no_fuel l : plist_line_fix l <> LFuel.
Proof.
  unfold plist_line_fix. pose proof (strip_conds_total l) as H.
  destruct (strip_conds l) as [text|]; [|congruence].
  destruct text as [|c t]; [discriminate|].
  destruct (plist_line_start c); [|destruct (unexec_rmdir (c :: t)); discriminate].
  destruct (str_eqb (first_part (c :: t)) pkgmandir); [discriminate|].
  destruct (str_eqb (first_part (c :: t)) [109;97;110]); discriminate.
Qed.

Lemma plist_lines_fix_total ls : plist_lines_fix ls <> None.
Proof.
  induction ls as [|l r IH]; cbn; [discriminate|].
  pose proof (plist_line_fix_no_fuel l).
  destruct (plist_line_fix l); destruct (plist_lines_fix r); congruence.
Qed.

Theorem plist_pass_total ls : ls <> [] -> exists o, plist_pass ls = POk o.
Proof.
  destruct ls as [|l0 r]; [congruence|]. intros _. unfold plist_pass.
  pose proof (plist_lines_fix_total (l0 :: r)) as H.
  destruct (is_cvsid_k IdPlist l0).
  - destruct r; [eexists; reflexivity|].
    destruct (plist_lines_fix (l0 :: s :: r)); [eexists; reflexivity|congruence].
  - destruct (plist_lines_fix (l0 :: r)); [eexists; reflexivity|congruence].
Qed.

(* the lines are treated independently of each other: no per-file state *)
Lemma plist_lines_fix_app a b :
  plist_lines_fix (a ++ b) =
  match plist_lines_fix a, plist_lines_fix b with
  | Some x, Some y => Some (x ++ y)
  | _, _ => None
  end.
Proof.
  induction a as [|l a IH]; cbn.
  - destruct (plist_lines_fix b); reflexivity.
  - rewrite IH. destruct (plist_line_fix l); destruct (plist_lines_fix a); destruct (plist_lines_fix b); reflexivity.
Qed.

Lemma gz_line_fixed l : gz_offered l = true -> plist_line_fix l = LKeep (drop_last3 l).
Proof.
  unfold gz_offered, plist_line_fix.
  destruct (strip_conds l) as [[|c t]|]; try discriminate.
  intro H. repeat (apply andb_prop in H; destruct H as [H ?]).
  rewrite H.
  destruct (str_eqb (first_part (c :: t)) pkgmandir) eqn:E.
  - apply str_eqb_spec in E. rewrite E in H2. vm_compute in H2. discriminate.
  - rewrite H2, H1, H0. reflexivity.
Qed.

(* every line for which the ".gz" fix is offered is fixed by the one pass,
   wherever it stands and whatever else the file contains *)
Theorem gz_all_fixed_in_one_pass a l b :
  gz_offered l = true ->
  exists a' b', plist_lines_fix a = Some a' /\ plist_lines_fix b = Some b' /\
                plist_lines_fix (a ++ l :: b) = Some (a' ++ drop_last3 l :: b').
Proof.
  intro H. pose proof (plist_lines_fix_total a) as Ha. pose proof (plist_lines_fix_total b) as Hb.
  destruct (plist_lines_fix a) as [a'|] eqn:Ea; [|congruence].
  destruct (plist_lines_fix b) as [b'|] eqn:Eb; [|congruence].
  exists a', b'. repeat split; try reflexivity.
  rewrite plist_lines_fix_app, Ea. cbn [plist_lines_fix]. rewrite (gz_line_fixed l H), Eb. reflexivity.
Qed.

Definition lres_eqb (a b : lres) : bool :=
  match a, b with
  | LKeep x, LKeep y => str_eqb x y
  | LDelete, LDelete => true
  | LFuel, LFuel => true
  | _, _ => false
  end.
(* the fixed line is left alone by a further pass *)
Definition line_settles (l : str) : bool :=
  match plist_line_fix l with
  | LKeep l' => lres_eqb (plist_line_fix l') (LKeep l')
  | LDelete => true
  | LFuel => false
  end.

Lemma lines_fix_settled : forall ls o,
  forallb line_settles ls = true -> plist_lines_fix ls = Some o -> plist_lines_fix o = Some o.
Proof.
  induction ls as [|l r IH]; intros o Hs H; cbn in *.
  - inversion H. reflexivity.
  - apply andb_prop in Hs. destruct Hs as [Hl Hr]. unfold line_settles in Hl.
    destruct (plist_line_fix l) as [l'| |] eqn:El; try discriminate;
      destruct (plist_lines_fix r) as [r'|] eqn:Er; try discriminate.
    + inversion H; subst. cbn.
      destruct (plist_line_fix l') as [l''| |] eqn:El'; cbn in Hl; try discriminate.
      apply str_eqb_spec in Hl. subst l''. rewrite (IH r' Hr eq_refl). reflexivity.
    + inversion H; subst. apply IH; [exact Hr|reflexivity].
Qed.

Lemma plist_lines_fix_cons l r :
  plist_lines_fix (l :: r) =
  match plist_line_fix l, plist_lines_fix r with
  | LFuel, _ => None
  | _, None => None
  | LDelete, Some r' => Some r'
  | LKeep l', Some r' => Some (l' :: r')
  end.
Proof. reflexivity. Qed.

Lemma cvsid_plist_line_kept l : is_cvsid_k IdPlist l = true -> plist_line_fix l = LKeep l.
Proof.
  unfold is_cvsid_k. cbn [id_strip].
  destruct (strip_prefix at_comment l) as [r|] eqn:E; [|discriminate]. intros _.
  apply strip_prefix_some in E. subst l. reflexivity.
Qed.

Theorem plist_settles_partial ls o :
  forallb line_settles ls = true -> plist_pass ls = POk o -> plist_pass o = POk o.
Proof.
  intros Hs H. destruct ls as [|l0 r]; [discriminate|]. unfold plist_pass in H.
  destruct (is_cvsid_k IdPlist l0) eqn:Eid.
  - destruct r as [|l1 r]; [inversion H; subst; unfold plist_pass; rewrite Eid; reflexivity|].
    destruct (plist_lines_fix (l0 :: l1 :: r)) as [o'|] eqn:Ef; [|discriminate].
    inversion H; subst o'. clear H.
    pose proof (lines_fix_settled _ _ Hs Ef) as Hfix.
    rewrite plist_lines_fix_cons, (cvsid_plist_line_kept l0 Eid) in Ef.
    destruct (plist_lines_fix (l1 :: r)) as [t|]; [|discriminate].
    inversion Ef; subst o.
    unfold plist_pass. rewrite Eid. destruct t; [reflexivity|]. rewrite Hfix. reflexivity.
  - destruct (plist_lines_fix (l0 :: r)) as [o'|] eqn:Ef; [|discriminate].
    inversion H; subst o. clear H.
    pose proof (lines_fix_settled _ _ Hs Ef) as Hfix.
    unfold plist_pass. rewrite id_suggest_is_id.
    destruct o' as [|x o']; [reflexivity|].
    rewrite plist_lines_fix_cons, (cvsid_plist_line_kept _ (id_suggest_is_id IdPlist)), Hfix. reflexivity.
Qed.

(* "one pass always reaches the fixed point" is false of the faithful model *)
Definition plist_one_pass_full : Prop :=
  forall ls o, plist_pass ls = POk o -> plist_pass o = POk o.
Definition plist_stacked_gz : list str :=
  [ [64;99;111;109;109;101;110;116;32;36;78;101;116;66;83;68;36];           (* @comment $NetBSD$ *)
    [109;97;110;47;109;97;110;49;47;97;46;49;46;103;122;46;103;122] ].        (* man/man1/a.1.gz.gz *)
Definition plist_pkgmandir_gz : list str :=
  [ [64;99;111;109;109;101;110;116;32;36;78;101;116;66;83;68;36];
    [36;123;80;75;71;77;65;78;68;73;82;125;47;109;97;110;49;47;97;46;49;46;103;122] ].   (* ${PKGMANDIR}/man1/a.1.gz *)
Theorem plist_one_pass_refuted : ~ plist_one_pass_full.
Proof.
  intro H.
  specialize (H plist_stacked_gz
    [ [64;99;111;109;109;101;110;116;32;36;78;101;116;66;83;68;36];
      [109;97;110;47;109;97;110;49;47;97;46;49;46;103;122] ] eq_refl).
  vm_compute in H. discriminate.
Qed.
Lemma plist_guard_needed :
  forallb line_settles plist_stacked_gz = false /\ forallb line_settles plist_pkgmandir_gz = false.
Proof. split; vm_compute; reflexivity. Qed.

(* ---------- Makefile.common: CheckUsedBy ---------- *)
Lemma flatten_group fl : flatten (group fl) = map snd fl.
Proof.
  induction fl as [|[b l] r IH]; cbn; [reflexivity|].
  destruct b; cbn.
  - unfold flatten in IH. rewrite IH. reflexivity.
  - unfold flatten in *. destruct (group r) as [|[s|p] gs]; cbn in *; rewrite <- IH; reflexivity.
Qed.

Lemma sep_flags_snd : forall ls b, map snd (sep_flags b ls) = ls.
Proof. induction ls as [|l r IH]; intros b; cbn; [reflexivity|]. rewrite IH. reflexivity. Qed.

Lemma insert_below_flatten sel ins : forall gs gs',
  insert_below sel ins gs = Some gs' ->
  exists a b, flatten gs = a ++ b /\ flatten gs' = a ++ ins ++ b.
Proof.
  induction gs as [|s r IH]; intros gs' H; cbn in H; [discriminate|].
  destruct s as [l|p].
  - destruct (insert_below sel ins r) as [r'|] eqn:E; [|discriminate]. inversion H; subst.
    destruct (IH r' eq_refl) as (a & b & H1 & H2).
    exists (l :: a), b. unfold flatten in *. cbn. rewrite H1, H2. split; reflexivity.
  - destruct (sel p).
    + inversion H; subst. exists p, (flatten r). unfold flatten. cbn. rewrite <- app_assoc. split; reflexivity.
    + destruct (insert_below sel ins r) as [r'|] eqn:E; [|discriminate]. inversion H; subst.
      destruct (IH r' eq_refl) as (a & b & H1 & H2).
      exists (p ++ a), b. unfold flatten in *. cbn. rewrite H1, H2, <- !app_assoc. split; reflexivity.
Qed.

(* the relative name of the including file: not empty, no white-space *)
Definition name_ok (name : str) : Prop :=
  name <> [] /\ forallb (fun c => negb (is_space_go c)) name = true.

Lemma fields_count_word : forall name, forallb (fun c => negb (is_space_go c)) name = true ->
  fields_count true name = 0.
Proof.
  induction name as [|c r IH]; cbn; [reflexivity|]. intro H. apply andb_prop in H. destruct H as [Hc Hr].
  destruct (is_space_go c); [discriminate|]. rewrite (IH Hr). reflexivity.
Qed.

Lemma expected_is_used_by name : name_ok name -> is_used_by_line (used_by_prefix ++ name) = true.
Proof.
  intros [Hne Hns]. unfold is_used_by_line. apply andb_true_intro. split.
  - unfold has_prefix. destruct (strip_prefix used_by_prefix (used_by_prefix ++ name)) eqn:E; [reflexivity|].
    assert (strip_prefix used_by_prefix (used_by_prefix ++ name) = Some name) by (apply strip_prefix_some; reflexivity).
    congruence.
  - destruct name as [|c r]; [congruence|]. cbn in Hns. apply andb_prop in Hns. destruct Hns as [Hc Hr].
    change (fields_count false (used_by_prefix ++ c :: r)) with
      (1 + (1 + (1 + fields_count false (c :: r)))).
    cbn [fields_count]. destruct (is_space_go c); [discriminate|]. rewrite (fields_count_word r Hr). reflexivity.
Qed.

Lemma expected_not_cvsid name : is_cvsid_k IdMk (used_by_prefix ++ name) = false.
Proof. reflexivity. Qed.

Lemma expected_flag name b r : exists b',
  sep_flags b ((used_by_prefix ++ name) :: r) = (false, used_by_prefix ++ name) :: sep_flags b' r.
Proof. eexists. reflexivity. Qed.

Lemma in_sep_flags name : forall ls b, In (used_by_prefix ++ name) ls ->
  In (false, used_by_prefix ++ name) (sep_flags b ls).
Proof.
  induction ls as [|l r IH]; intros b H; [contradiction|].
  destruct H as [->|H].
  - destruct (expected_flag name b r) as [b' E]. rewrite E. left. reflexivity.
  - cbn [sep_flags]. right. apply IH. exact H.
Qed.

Lemma in_group l : forall fl, In (false, l) fl -> exists p, In (Par p) (group fl) /\ In l p.
Proof.
  induction fl as [|[b x] r IH]; intro H; [contradiction|].
  destruct H as [H|H].
  - inversion H; subst. cbn. destruct (group r) as [|[s|p] gs].
    + exists [l]. split; left; reflexivity.
    + exists [l]. split; left; reflexivity.
    + exists (l :: p). split; left; reflexivity.
  - destruct (IH H) as (p & Hp & Hl). destruct b; cbn.
    + exists p. split; [right; exact Hp|exact Hl].
    + destruct (group r) as [|[s|q] gs]; [contradiction| |].
      * exists p. split; [right; exact Hp|exact Hl].
      * destruct Hp as [Hp|Hp].
        -- inversion Hp; subst. exists (x :: p). split; [left; reflexivity|right; exact Hl].
        -- exists p. split; [right; exact Hp|exact Hl].
Qed.

Lemma para_step_found e st l : ps_found st = true -> ps_found (para_step e st l) = true.
Proof.
  intro H. unfold para_step. destruct (is_cvsid_k IdMk l); [exact H|].
  destruct (is_used_by_line l); cbn; rewrite H; reflexivity.
Qed.

Lemma fold_found e : forall p st, ps_found st = true -> ps_found (fold_left (para_step e) p st) = true.
Proof. induction p as [|l r IH]; intros st H; cbn; [exact H|]. apply IH. apply para_step_found. exact H. Qed.

Lemma para_scan_found name : name_ok name -> forall p st, In (used_by_prefix ++ name) p ->
  ps_found (fold_left (para_step (used_by_prefix ++ name)) p st) = true.
Proof.
  intros Hn. induction p as [|l r IH]; intros st H; [contradiction|]. cbn [fold_left].
  destruct H as [->|H]; [|apply IH; exact H].
  apply fold_found. unfold para_step. rewrite expected_not_cvsid, (expected_is_used_by name Hn). cbn.
  rewrite str_eqb_refl. apply orb_true_r.
Qed.

Lemma found_when_present name ls : name_ok name -> In (used_by_prefix ++ name) ls ->
  found_in (used_by_prefix ++ name) (group (sep_flags true ls)) = true
  /\ insert_below (fun _ => true) [] (group (sep_flags true ls)) <> None
  /\ has_par (group (sep_flags true ls)) = true.
Proof.
  intros Hn H. destruct (in_group _ _ (in_sep_flags name ls true H)) as (p & Hp & Hl). split; [|split].
  3: { unfold has_par. apply existsb_exists. exists (Par p). split; [exact Hp|reflexivity]. }
  - unfold found_in. apply existsb_exists. exists (Par p). split; [exact Hp|].
    unfold para_scan. apply para_scan_found; assumption.
  - clear Hl. induction (group (sep_flags true ls)) as [|s gs IH]; [contradiction|].
    destruct s as [l|q]; cbn; [|discriminate].
    destruct Hp as [Hp|Hp]; [discriminate|]. specialize (IH Hp).
    destruct (insert_below (fun _ => true) [] gs); [discriminate|congruence].
Qed.

Lemma used_by_fixed_when_present name ls : name_ok name -> In (used_by_prefix ++ name) ls ->
  used_by name ls = Some ls.
Proof.
  intros Hn H. unfold used_by. destruct (_ <? 3)%nat; [reflexivity|].
  destruct (found_when_present name ls Hn H) as (Hf & Hi & Hp). rewrite Hp, Hf. cbn [negb].
  destruct (has_used_para _ _); [reflexivity|].
  destruct (insert_below (fun _ => true) [] _); [reflexivity|congruence].
Qed.

(* whatever the file looks like: the result of the fix is left alone by the check *)
Theorem used_by_settles name ls ls' : name_ok name ->
  used_by name ls = Some ls' -> used_by name ls' = Some ls'.
Proof.
  intros Hn H. pose proof H as H0. unfold used_by in H.
  destruct (_ <? 3)%nat; [inversion H; subst; exact H0|].
  set (e := used_by_prefix ++ name) in *. set (gs := group (sep_flags true ls)) in *.
  destruct (negb (has_par gs)); [inversion H; subst; exact H0|].
  destruct (found_in e gs).
  { destruct (has_used_para e gs); [inversion H; subst; exact H0|].
    destruct (insert_below (fun _ => true) [] gs); [inversion H; subst; exact H0|discriminate]. }
  assert (Hin : forall sel pre gs', insert_below sel (pre ++ [e]) gs = Some gs' -> In e (flatten gs')).
  { intros sel pre gs' E. destruct (insert_below_flatten _ _ _ _ E) as (a & b & _ & ->).
    apply in_or_app. right. apply in_or_app. left. apply in_or_app. right. left. reflexivity. }
  destruct (has_used_para e gs).
  - destruct (insert_below (para_is_used e) [e] gs) as [gs'|] eqn:E; [|discriminate].
    inversion H; subst ls'. apply used_by_fixed_when_present; [exact Hn|]. exact (Hin _ [] _ E).
  - destruct (insert_below (fun _ => true) ((if first_para_to_gt1 gs then [[]] else []) ++ [e]) gs) as [gs'|] eqn:E; [|discriminate].
    inversion H; subst ls'. apply used_by_fixed_when_present; [exact Hn|]. exact (Hin _ _ _ E).
Qed.

(* and the line is really there afterwards, exactly when it was missing before *)
Theorem used_by_inserts name ls ls' : used_by name ls = Some ls' ->
  ls' = ls \/ In (used_by_prefix ++ name) ls'.
Proof.
  intro H. unfold used_by in H.
  destruct (_ <? 3)%nat; [inversion H; left; reflexivity|].
  set (e := used_by_prefix ++ name) in *. set (gs := group (sep_flags true ls)) in *.
  destruct (negb (has_par gs)); [inversion H; left; reflexivity|].
  destruct (found_in e gs).
  { destruct (has_used_para e gs); [inversion H; left; reflexivity|].
    destruct (insert_below (fun _ => true) [] gs); [inversion H; left; reflexivity|discriminate]. }
  assert (Hin : forall sel pre gs', insert_below sel (pre ++ [e]) gs = Some gs' -> In e (flatten gs')).
  { intros sel pre gs' E. destruct (insert_below_flatten _ _ _ _ E) as (a & b & _ & ->).
    apply in_or_app. right. apply in_or_app. left. apply in_or_app. right. left. reflexivity. }
  destruct (has_used_para e gs).
  - destruct (insert_below (para_is_used e) [e] gs) as [gs'|] eqn:E; [|discriminate].
    inversion H; subst ls'. right. exact (Hin _ [] _ E).
  - destruct (insert_below (fun _ => true) ((if first_para_to_gt1 gs then [[]] else []) ++ [e]) gs) as [gs'|] eqn:E; [|discriminate].
    inversion H; subst ls'. right. exact (Hin _ _ _ E).
Qed.

(* a file without paragraphs (>= 3 lines, all of them separators) is left alone *)
Definition only_separators : list str := [[]; []; []].
Lemma used_by_no_paragraph_example : used_by [120] only_separators = Some only_separators.
Proof. vm_compute. reflexivity. Qed.

(* if the name contains a blank the inserted line is never recognised: the guard name_ok is needed *)
Lemma used_by_name_guard_needed :
  exists ls', used_by [97;32;98] [[35;32;120];[];[120;61;121]] = Some ls' /\ used_by [97;32;98] ls' <> Some ls'.
Proof. eexists. split; [vm_compute; reflexivity|vm_compute; discriminate]. Qed.

(* ---------- PLIST: every pass that changes the file makes it smaller ---------- *)
Definition plist_measure (ls : list str) : nat := fold_right (fun l n => (length l + 1 + n)%nat) 0%nat ls.

Lemma plist_measure_cons l r : plist_measure (l :: r) = (length l + 1 + plist_measure r)%nat.
Proof. reflexivity. Qed.

Lemma replace_first_length pat rep : forall s,
  replace_first pat rep s = s \/ (length (replace_first pat rep s) + length pat = length s + length rep)%nat.
Proof.
  induction s as [|c t IH].
  - cbn. destruct (strip_prefix pat []) as [r|] eqn:E; [|left; reflexivity].
    apply strip_prefix_some in E. right. rewrite app_length.
    assert (length (@nil N) = length (pat ++ r)) as L by (rewrite <- E; reflexivity).
    rewrite app_length in L. cbn in L. lia.
  - cbn [replace_first]. destruct (strip_prefix pat (c :: t)) as [r|] eqn:E.
    + apply strip_prefix_some in E. right. rewrite E, !app_length. lia.
    + destruct IH as [IH|IH]; [left; rewrite IH; reflexivity|right; cbn [length]; lia].
Qed.

Lemma plist_line_fix_shrinks l l' : plist_line_fix l = LKeep l' -> l' = l \/ (length l' < length l)%nat.
Proof.
  unfold plist_line_fix. destruct (strip_conds l) as [[|c t]|]; try discriminate.
  destruct (plist_line_start c); [|destruct (unexec_rmdir (c :: t)); intro H; [discriminate|inversion H; left; reflexivity]].
  destruct (str_eqb (first_part (c :: t)) pkgmandir).
  - destruct (count_pkgmandir l =? 1); intro H; inversion H; [|left; reflexivity].
    destruct (replace_first_length pkgmandir_slash man_slash l) as [E|E]; [left; exact E|right].
    change (length pkgmandir_slash) with 13%nat in E. change (length man_slash) with 4%nat in E. lia.
  - destruct (str_eqb (first_part (c :: t)) [109;97;110]); [|intro H; inversion H; left; reflexivity].
    destruct (gz_text (c :: t) && ends_gz l); intro H; inversion H; [|left; reflexivity].
    unfold drop_last3. destruct l as [|x r]; [left; reflexivity|right].
    rewrite firstn_length. cbn [length]. lia.
Qed.

Lemma plist_lines_fix_shrinks : forall ls o, plist_lines_fix ls = Some o ->
  o = ls \/ (plist_measure o < plist_measure ls)%nat.
Proof.
  induction ls as [|l r IH]; intros o H.
  - inversion H. left. reflexivity.
  - rewrite plist_lines_fix_cons in H.
    destruct (plist_line_fix l) as [l'| |] eqn:El; try discriminate;
      destruct (plist_lines_fix r) as [r'|]; try discriminate; inversion H; subst o.
    + rewrite !plist_measure_cons.
      destruct (IH r' eq_refl) as [Hr|Hr]; destruct (plist_line_fix_shrinks l l' El) as [Hl|Hl];
        [left; congruence|right; subst r'; lia|right; subst l'; lia|right; lia].
    + right. rewrite plist_measure_cons. destruct (IH r' eq_refl) as [Hr|Hr]; [subst r'|]; lia.
Qed.

(* once the CVS id is there (that is: from the second pass on), every pass either leaves the
   PLIST alone or makes it strictly smaller: repeated passes reach the fixed point, for ALL PLISTs *)
Theorem plist_pass_shrinks l0 r o : is_cvsid_k IdPlist l0 = true -> plist_pass (l0 :: r) = POk o ->
  o = l0 :: r \/ (plist_measure o < plist_measure (l0 :: r))%nat.
Proof.
  intros Hid H. unfold plist_pass in H. rewrite Hid in H.
  destruct r as [|l1 r]; [inversion H; left; reflexivity|].
  destruct (plist_lines_fix (l0 :: l1 :: r)) as [o'|] eqn:E; [|discriminate].
  inversion H; subst o'. apply plist_lines_fix_shrinks. exact E.
Qed.
(* and the first pass establishes the CVS id *)
Theorem plist_pass_header ls o : plist_pass ls = POk o ->
  exists l0 r, o = l0 :: r /\ is_cvsid_k IdPlist l0 = true.
Proof.
  destruct ls as [|l0 r]; [discriminate|]. unfold plist_pass.
  destruct (is_cvsid_k IdPlist l0) eqn:Eid.
  - destruct r as [|l1 r]; [intro H; inversion H; eauto|].
    rewrite plist_lines_fix_cons, (cvsid_plist_line_kept l0 Eid).
    destruct (plist_lines_fix (l1 :: r)); [|discriminate]. intro H; inversion H. eauto.
  - destruct (plist_lines_fix (l0 :: r)); [|discriminate]. intro H; inversion H.
    exists (id_suggest IdPlist). eexists. split; [reflexivity|apply id_suggest_is_id].
Qed.

(* ---------- round 5: settling over the re-loaded file ---------- *)
Lemma split_nl_app : forall l cur rest, nl_free l = true ->
  split_nl cur (l ++ rest) = split_nl (rev l ++ cur) rest.
Proof.
  induction l as [|c l IH]; intros cur rest H; [reflexivity|].
  cbn in H. apply andb_prop in H. destruct H as [Hc Hl].
  cbn [app split_nl]. destruct (c =? 10); [discriminate|].
  rewrite (IH _ _ Hl). cbn [rev]. rewrite <- app_assoc. reflexivity.
Qed.

Lemma load_save : forall ls t, forallb nl_free ls = true -> saveable ls t ->
  load_file (save_file ls t) = (ls, match ls with [] => true | _ => t end).
Proof.
  unfold load_file. induction ls as [|l r IH]; intros t H Hs; [reflexivity|].
  cbn in H. apply andb_prop in H. destruct H as [Hl Hr].
  destruct r as [|l1 r].
  - cbn [save_file]. destruct t.
    + rewrite (split_nl_app l [] [10] Hl). cbn [split_nl]. rewrite N.eqb_refl. cbn [split_nl].
      rewrite app_nil_r, rev_involutive. reflexivity.
    + rewrite <- (app_nil_r l) at 1. rewrite (split_nl_app l [] [] Hl). rewrite app_nil_r. cbn [split_nl].
      destruct Hs as [Hs|Hs]; [discriminate|]. cbn in Hs.
      destruct (rev l) eqn:E.
      * exfalso. apply Hs. rewrite <- (rev_involutive l), E. reflexivity.
      * rewrite <- E, rev_involutive. reflexivity.
  - change (save_file (l :: l1 :: r) t) with (l ++ 10 :: save_file (l1 :: r) t).
    rewrite (split_nl_app l [] _ Hl). cbn [split_nl]. rewrite N.eqb_refl.
    assert (Hs' : saveable (l1 :: r) t) by (destruct Hs as [Hs|Hs]; [left; exact Hs|right; exact Hs]).
    rewrite (IH t Hr Hs'). rewrite app_nil_r, rev_involutive. reflexivity.
Qed.

Lemma nl_free_rev cur : nl_free cur = true -> nl_free (rev cur) = true.
Proof.
  unfold nl_free. intro H. rewrite forallb_forall in H. apply forallb_forall.
  intros y Hy. apply H. apply in_rev. exact Hy.
Qed.

Lemma rev_not_nil (x : N) cur : rev (x :: cur) <> [].
Proof. intro E. apply (f_equal (@rev N)) in E. rewrite rev_involutive in E. discriminate. Qed.

Lemma split_nl_nl_free : forall bs cur ls t, nl_free cur = true -> split_nl cur bs = (ls, t) ->
  forallb nl_free ls = true /\ saveable ls t.
Proof.
  induction bs as [|c r IH]; intros cur ls t Hc H; cbn [split_nl] in H.
  - destruct cur as [|x cur].
    + injection H as <- <-. split; [reflexivity|left; reflexivity].
    + injection H as <- <-. split.
      * pose proof (nl_free_rev _ Hc) as Hr. cbn [forallb rev] in *. rewrite Hr. reflexivity.
      * right. cbn [last]. apply (rev_not_nil x cur).
  - destruct (c =? 10) eqn:Ec.
    + destruct (split_nl [] r) as [ls0 t0] eqn:E. injection H as <- <-.
      destruct (IH [] ls0 t0 eq_refl E) as [H1 H2]. split.
      * pose proof (nl_free_rev _ Hc) as Hr. cbn [forallb]. rewrite H1, Hr. reflexivity.
      * destruct H2 as [H2|H2]; [left; exact H2|right].
        destruct ls0 as [|a b]; [exfalso; apply H2; reflexivity|exact H2].
    + apply (IH (c :: cur)); [|exact H]. unfold nl_free in *. cbn [forallb]. rewrite Ec, Hc. reflexivity.
Qed.

Lemma load_nl_free bs ls t : load_file bs = (ls, t) -> forallb nl_free ls = true /\ saveable ls t.
Proof. apply split_nl_nl_free. reflexivity. Qed.

(* CheckCvsID: for ALL files on disk (any mixture of LF, CR LF, unterminated last line): save the
   result -- the inserted line ends in "\n" --, load it again: the check leaves it alone *)
Theorem cvsid_settles_after_reload k bs ls t ls' t' :
  load_file bs = (ls, t) -> check_cvsid k ls = Some ls' -> saveable ls' t' ->
  check_cvsid k (fst (load_file (save_file ls' t'))) = Some (fst (load_file (save_file ls' t'))).
Proof.
  intros Hl Hc Hs. destruct (load_nl_free _ _ _ Hl) as [Hn _].
  assert (Hn' : forallb nl_free ls' = true).
  { destruct ls as [|l0 r]; [discriminate|]. cbn in Hc. destruct (is_cvsid_k k l0); inversion Hc; subst; [exact Hn|].
    change (forallb nl_free (id_suggest k :: l0 :: r)) with (nl_free (id_suggest k) && forallb nl_free (l0 :: r)).
    rewrite Hn, andb_true_r. destruct k; reflexivity. }
  rewrite (load_save ls' t' Hn' Hs). cbn [fst]. exact (check_cvsid_settles k ls ls' Hc).
Qed.

Lemma flatten_insert_nl_free sel ins gs gs' : insert_below sel ins gs = Some gs' ->
  forallb nl_free (flatten gs) = true -> forallb nl_free ins = true -> forallb nl_free (flatten gs') = true.
Proof.
  intros E H Hi. destruct (insert_below_flatten _ _ _ _ E) as (a & b & H1 & H2).
  rewrite H1 in H. rewrite H2. rewrite !forallb_app in *. apply andb_prop in H. destruct H as [Ha Hb].
  rewrite Ha, Hi, Hb. reflexivity.
Qed.

(* CheckUsedBy: the same, for all names without white-space or line feed *)
Theorem used_by_settles_after_reload name bs ls t ls' t' : name_ok name -> nl_free name = true ->
  load_file bs = (ls, t) -> used_by name ls = Some ls' -> saveable ls' t' ->
  used_by name (fst (load_file (save_file ls' t'))) = Some (fst (load_file (save_file ls' t'))).
Proof.
  intros Hn Hnl Hl Hu Hs. destruct (load_nl_free _ _ _ Hl) as [Hf _].
  assert (Hf' : forallb nl_free ls' = true).
  { pose proof Hu as H. unfold used_by in H.
    assert (He : nl_free (used_by_prefix ++ name) = true)
      by (unfold nl_free in *; rewrite forallb_app, Hnl; reflexivity).
    assert (Hg : forallb nl_free (flatten (group (sep_flags true ls))) = true)
      by (rewrite flatten_group, sep_flags_snd; exact Hf).
    destruct (_ <? 3)%nat; [inversion H; subst; exact Hf|].
    destruct (negb (has_par _)); [inversion H; subst; exact Hf|].
    destruct (found_in _ _).
    { destruct (has_used_para _ _); [inversion H; subst; exact Hf|].
      destruct (insert_below (fun _ => true) [] _); [inversion H; subst; exact Hf|discriminate]. }
    destruct (has_used_para _ _).
    - destruct (insert_below (para_is_used _) _ _) as [gs'|] eqn:E; [|discriminate]. inversion H; subst.
      apply (flatten_insert_nl_free _ _ _ _ E Hg). cbn [forallb]. rewrite He. reflexivity.
    - destruct (insert_below (fun _ => true) _ _) as [gs'|] eqn:E; [|discriminate]. inversion H; subst.
      apply (flatten_insert_nl_free _ _ _ _ E Hg).
      destruct (first_para_to_gt1 _); cbn [forallb app]; rewrite He; reflexivity. }
  rewrite (load_save ls' t' Hf' Hs). cbn [fst]. exact (used_by_settles name ls ls' Hn Hu).
Qed.
