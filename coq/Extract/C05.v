From Coq Require Extraction ExtrOcamlBasic.
From PV Require Import Lib.Bytes Model.FsProto Model.FsLinks Spec.CrashSpec Model.SaveLog.

(* the final world of a run with an optional fault plan *)
Definition run_plan (s : state) (prog : list action) (plan : option (nat * fault)) : world :=
  run prog (init_world s plan).

(* the final world of a link-aware run under a plan (none / failing call / crash point) *)
Definition lrun_plan (s : state) (prog : list laction) (plan : lplan) : lworld :=
  lrun prog (init_lworld s plan).

(* oracle/common.ml refers to the extracted type z *)
Definition z_of_mode (m : N) : Z := Z.of_N m.

Extraction "C05_model.ml" z_of_mode prog_ops exec check_crashes first_bad tmp_freeb run_plan
  inplace_ops remove_rename_ops copyback_ops versions foreign_bad lrun_plan l_unnamed_changed
  err_message error_line tech_line.
