From Coq Require Extraction ExtrOcamlBasic.
From PV Require Import Lib.Bytes Lib.Utf8 Model.Escape Model.Logger.
Extraction "C06log_model.ml" Z.of_N escape_printable log_run log_step new_logger exit_status xprint summary_line.
