From Coq Require Extraction ExtrOcamlBasic.
From PV Require Import Lib.Bytes Lib.PanicRes Model.Indent Model.SepWriter Spec.SepSpec
  Model.Resolve Spec.ResolveSpec Model.Scope.
Extraction "C01_model.ml" run sw_run disciplined written in_line
  resolve_exprs resolve_passes resolve_fuel value_budget
  scope_run scope_trace scope_bindings observe sdefine_all varnames.
