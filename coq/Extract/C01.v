From Coq Require Extraction ExtrOcamlBasic.
From PV Require Import Lib.Bytes Lib.PanicRes Model.Indent Model.SepWriter Spec.SepSpec.
Extraction "C01_model.ml" run sw_run disciplined written in_line.
