From Coq Require Extraction ExtrOcamlBasic.
From PV Require Import Lib.Bytes Gen.ShellGrammar Gen.ShellTables Model.ShellLex Model.ShellLR
  Spec.PosixSh Spec.Derivation.
Extraction "C11_model.ml" shell_lex lr_parse_terms lr_accepts_certified check_trace tok_code
  tokens terms wf_words wf_words_posix supported faithful productions nt_number start_symbol.
