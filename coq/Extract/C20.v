From Coq Require Extraction ExtrOcamlBasic.
From PV Require Import Lib.Bytes Model.FileCache Spec.FreshLoad.
Open Scope N_scope.
(* file keys below 8 stand for names ending in ".mk" *)
Definition c20_is_mk (k : N) : bool := k <? 8.
(* per operation: did the protocol guard hold before it, the fresh read of the
   spec (loads only), the model's observation; then the stop reason if any *)
Fixpoint c20_trace (md : mode) (s : state) (h : list op)
  : list (bool * option (list lobs) * obs) * option stop :=
  match h with
  | [] => ([], None)
  | o :: t =>
    let g := guard_step s o in
    let fr := match o with
              | OLoad fn opts => fresh_read convert_plain (st_disk s) fn opts
              | _ => None
              end in
    match step convert_plain c20_is_mk md s o with
    | Stop w => ([], Some w)
    | Ok (s', ob) => let '(l, w) := c20_trace md s' t in ((g, fr, ob) :: l, w)
    end
  end.
Definition c20_run (md : mode) (cap : nat) (disk : list (N * str)) (h : list op) :=
  c20_trace md (init_state cap disk) h.
(* oracle/common.ml mentions the extracted type z *)
Definition c20_z : Z := Z.of_N 0.
Extraction "C20_model.ml" c20_run c20_z.
