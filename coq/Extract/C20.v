From Coq Require Extraction ExtrOcamlBasic.
From PV Require Import Lib.Bytes Model.FileCache Model.FileCacheLines Spec.FreshLoad.
Open Scope N_scope.
(* file keys below 8 stand for names ending in ".mk" *)
Definition c20_is_mk (k : N) : bool := k <? 8.
(* Coverage events of one step, read off the states before and after (bit mask):
   1 cache hit, 2 key cached with other options, 4 removeOldEntries ran,
   16 Evict removed an entry, 32 ... and it was not the last of the table,
   64 load of a file that is not cached (no .mk suffix) *)
Definition c20_events (s s' : state) (o : op) : N :=
  let c := st_cache s in
  let c' := st_cache s' in
  match o with
  | OLoad fn opts =>
    (if c_hits c' =? c_hits c then 0 else 1) +
    (match map_get (key fn) (c_map c) with
     | Some eid => if e_opts (entry_at (c_store c) eid) =? opts then 0 else 2
     | None =>
       match map_get (key fn) (c_map c') with
       | Some _ => if Nat.leb (length (c_table c')) (length (c_table c)) then 4 else 0
       | None => 0
       end
     end) +
    (if c20_is_mk (key fn) then 0 else 64)
  | OSave _ _ | OModify _ _ =>
    if Nat.ltb (length (c_map c')) (length (c_map c)) then
      16 + (if list_eq_dec Nat.eq_dec (removelast (c_table c)) (c_table c') then 0 else 32)
    else 0
  | _ => 0
  end.

(* The model is run with convert_lines (Model/FileCacheLines.v): the C09 model of
   convertToLogicalLines in the mode the Load asks for (round 5; before: convert_plain). *)
(* per operation: did the protocol guard hold before it, the fresh read of the
   spec (loads only), the model's observation, coverage events; then the stop
   reason if any *)
Fixpoint c20_trace (md : mode) (s : state) (h : list op)
  : list (bool * option (list lobs) * obs * N) * option stop :=
  match h with
  | [] => ([], None)
  | o :: t =>
    let g := guard_step s o in
    let fr := match o with
              | OLoad fn opts => fresh_read convert_lines (st_disk s) fn opts
              | _ => None
              end in
    match step convert_lines c20_is_mk md s o with
    | Stop w => ([], Some w)
    | Ok (s', ob) => let '(l, w) := c20_trace md s' t in ((g, fr, ob, c20_events s s' o) :: l, w)
    end
  end.
Definition c20_run (md : mode) (cap : nat) (disk : list (N * str)) (h : list op) :=
  c20_trace md (init_state cap disk) h.
(* oracle/common.ml mentions the extracted type z *)
Definition c20_z : Z := Z.of_N 0.
Extraction "C20_model.ml" c20_run c20_z.
