From Coq Require Extraction ExtrOcamlBasic.
From PV Require Import Lib.Bytes Model.Paths Spec.PathDenote.
(* what the oracle calls *)
Definition m_parts := parts.
Definition m_dir := dir.
Definition m_is_abs := is_abs.
Definition m_clean := clean.
Definition m_clean_dot := clean_dot.
Definition m_clean_path := clean_path.
Definition m_has_prefix_path := has_prefix_path.
Definition m_contains_path := contains_path.
Definition m_has_suffix_path := has_suffix_path.
Definition m_rel_go := rel_go.
Definition m_path_rel := path_rel.
Definition m_relpath_b := relpath_b.
Definition m_line_rel := line_rel.
Definition s_same := same_denotation.
Definition s_inside := inside.
Definition s_join := join_path.
Definition s_prefix := path_prefixb.
Definition s_infix := path_infixb.
Definition s_suffix := path_suffixb.
Definition s_components := components.
Definition s_denote := denote.
(* oracle/common.ml mentions the extracted type z *)
Definition z_unused : Z := 0%Z.
Extraction "C19_model.ml" z_unused m_parts m_dir m_is_abs m_clean m_clean_dot m_clean_path
  m_has_prefix_path m_contains_path m_has_suffix_path m_rel_go m_path_rel m_relpath_b m_line_rel
  s_same s_inside s_join s_prefix s_infix s_suffix s_components s_denote.
