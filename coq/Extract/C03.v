From Coq Require Extraction ExtrOcamlBasic.
From PV Require Import Lib.Bytes Spec.ApplyLog Model.Autofix.

(* strings.TrimSuffix(s, "\n"), for Line.RawText *)
Definition trim_nl (s : str) : str :=
  match rev s with
  | 10%N :: r => rev r
  | _ => s
  end.

Definition final_info (l : line) : list str * str :=
  (map trim_nl (match l_fix l with Some f => f_texts f | None => l_raw l end), l_text l).

(* one unit case: options, the loaded lines, the events; result = printed AUTOFIX
   lines, file content afterwards, number of file operations, per-line state, number of
   chmod operations (checkExecutable's Custom fixer with autofix = true) *)
Definition run_script (a s : bool) (only : list str) (file : str)
           (groups : list (list str * str)) (evs : list event) (before : str)
  : option (list (Z * descr) * str * nat * list (list str * str) * nat) :=
  match run (Opts a s only) (map (fun g => new_pkey (snd g)) groups) evs (init_state file groups) with
  | Panic => None
  | Ok st => Some (map (fun g => (g_lineno g, g_descr g)) (s_log st),
                   disk_after file before None (s_ops st),
                   length (s_ops st),
                   map final_info (s_store st),
                   length (filter (fun op => match op with OpChmod _ => true | _ => false end) (s_ops st)))
  end.

Extraction "C03_model.ml" consistent consistent_hist phys_lines run_script check_executable Z.of_N Nat.add.
