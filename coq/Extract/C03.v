From Coq Require Extraction ExtrOcamlBasic.
From PV Require Import Lib.Bytes Spec.ApplyLog.
Extraction "C03_model.ml" consistent consistent_hist phys_lines Z.of_N Nat.add.
