From Coq Require Extraction ExtrOcamlBasic.
From PV Require Import Lib.Bytes Spec.OutputGrammar.
(* oracle/common.ml refers to the types z and nat *)
Definition c06run_z : Z := 0%Z.
Definition c06run_nat : nat := 0%nat.
Extraction "C06run_model.ml" classify accounting tally expected_exit safe_line print_summary parse_summary print_dec c06run_z c06run_nat.
