From Coq Require Extraction ExtrOcamlBasic.
From PV Require Import Lib.Bytes Lib.Utf8 Model.Getopt Gen.Options Spec.OptionsDoc Model.Escape Model.Logger.
Open Scope N_scope.

(* A second table for the correspondence with the exported getopt package: it has
   the cases pkglint's own table lacks (AddStrVar, a default of true, a long name
   that is a prefix of another, a long-only option (short name 0), non-ASCII short
   names of 2 and 3 bytes, a flag whose name starts with "no-", two options with a
   common prefix "include"). *)
Definition test_table : table :=
  [ mk_odecl 118 [118; 101; 114; 98; 111; 115; 101] KBool false [] [] [116; 48];
    mk_odecl 113 [113; 117; 105; 101; 116] KBool true [] [] [116; 49];
    mk_odecl 111 [111; 117; 116; 112; 117; 116] KStr false [111; 117; 116] [] [116; 50];
    mk_odecl 105 [105; 110; 99; 108; 117; 100; 101] KList false [] [] [116; 51];
    mk_odecl 87 [119; 97; 114; 110; 105; 110; 103; 115] KGroup false [] [mk_gflag [101; 120; 116; 114; 97] true false [116; 52; 46; 101; 120; 116; 114; 97]; mk_gflag [112; 101; 114; 109] true true [116; 52; 46; 112; 101; 114; 109]; mk_gflag [101; 114; 114; 111; 114] false false [116; 52; 46; 101; 114; 114; 111; 114]; mk_gflag [110; 111; 45; 120] true false [116; 52; 46; 110; 111; 45; 120]] [116; 52];
    mk_odecl 115 [115; 111; 117; 114; 99; 101] KBool false [] [] [116; 53];
    mk_odecl 0 [115; 111; 117; 114; 99; 101; 115] KBool false [] [] [116; 54];
    mk_odecl 233 [101; 97; 99; 117; 116; 101] KBool false [] [] [116; 55];
    mk_odecl 252 [117; 117; 109; 108] KStr false [] [] [116; 56];
    mk_odecl 8364 [101; 117; 114; 111] KList false [] [] [116; 57];
    mk_odecl 120 [105; 110; 99; 108; 117; 100; 101; 45; 97; 108; 108] KGroup false [] [mk_gflag [97] true false [116; 49; 48; 46; 97]; mk_gflag [98] false true [116; 49; 48; 46; 98]] [116; 49; 48] ].

Extraction "C08_model.ml" Z.of_N parse parse_from init option_table documented_options doc_view test_table
  escape_printable log_run log_step new_logger exit_status.
