From Coq Require Extraction ExtrOcamlBasic.
From PV Require Import Lib.Bytes Model.Redundant Model.RedundantPaths Model.RedundantCond Spec.MakeEval Spec.VerdictSound
  Spec.PathDenote Spec.SpellingIndep Model.RedundantDir Spec.MakeEvalDir Spec.VerdictSoundDir.
(* oracle/common.ml mentions the type z; nothing in this model uses Z *)
Definition c17_zero : Z := 0%Z.
Extraction "C17_model.ml" check changed_vars guard wf_program final to_spec vars_of delete_nth c17_zero
  intern_by check_spelled check_denoted one_spelling_b analysed_alone same_denotation check_c
  check_file check_pkg find_guard changed_vars_d final_d to_spec_d vars_of_d in_conditional_section.
