From Coq Require Extraction ExtrOcamlBasic.
From PV Require Import Lib.Bytes Model.Autofix.
(* the whole-run check of C02 compares snapshots and needs no model evaluation;
   the oracle only offers the save protocol of the model for inspection *)
Definition save_paths (autofix : bool) (file : str) (modified : bool) : list str :=
  let l := Line file 1 [[97;10]%N] [97%N] (Some (Fix [] [[98;10]%N] [] modified [] false [])) in
  map (fun o => match o with OpCreateExcl p => p | OpWrite p _ => p | OpChmodLike p _ => p
                           | OpRename _ p => p | OpRemove p => p | OpChmod p => p end)
      (fst (save (Opts autofix false []) [l])).
Extraction "C02_model.ml" save_paths Z.of_N Nat.add.
