From Coq Require Extraction ExtrOcamlBasic.
From PV Require Import Lib.Bytes Model.Vercmp Spec.Dewey.
Definition dewey_sign (a b : str) : Z := match dewey_cmp a b with Some z => z | None => 99%Z end.
Definition version_in_range (v : list Z * Z) : bool :=
  forallb (fun z => Z.leb z max_int) (fst v) && Z.leb (snd v) max_int.
Definition dewey_in_range (a b : str) : bool :=
  match mkversion a, mkversion b with
  | Some va, Some vb => version_in_range va && version_in_range vb
  | _, _ => false
  end.
Extraction "C12_model.ml" compare_sign dewey_sign dewey_in_range new_version.
