From Coq Require Extraction ExtrOcamlBasic.
From PV Require Import Lib.Bytes Model.Lines Model.PatchSum Spec.PatchSumSpec.
(* oracle/common.ml needs the type z in scope *)
Definition lineno_z18 (l : line) : Z := Z.of_N (lineno l).
Extraction "C18_model.ml" lineno_z18 convert_to_logical_lines hashed_bytes check_patch_sha1
  fix_distinfo_line autofix_replace makepatchsum_filter
  cvs_handle cvs_log_line load_cvs_entries is_committed check_uncommitted_patch check_entry_cvs distinfo_name sha1_name.
