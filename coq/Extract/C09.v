From Coq Require Extraction ExtrOcamlBasic.
From PV Require Import Lib.Bytes Model.Lines Spec.LinesSpec.
Definition obs_of_line (l : line) : obs_line := (lineno l, text l, raws l).
(* oracle/common.ml needs the type z in scope *)
Definition lineno_z (l : line) : Z := Z.of_N (lineno l).
Extraction "C09_model.ml" lineno_z convert_to_logical_lines obs_of_line spec_check
  save_autofix_changes new_autofix spec_saved match_continuation_line spec_parts.
