From Coq Require Extraction ExtrOcamlBasic.
From PV Require Import Lib.Bytes Model.Tabs Model.Varalign Model.LayoutFix.
Extraction "C15_model.ml"
  tabWidthAppend tabWidth alignmentToWidths indent alignmentAfter alignWith rtrimHspace
  strip_blanks parts_string mk_info finish process_file realign_para optimalWidth line_width
  checkTrailingWhitespace checkDirectiveIndentation shellTabs fixSpaceAfterVarname.
