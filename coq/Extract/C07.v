From Coq Require Extraction ExtrOcamlBasic.
From PV Require Import Lib.Bytes Model.MapIter Model.CvsEntries.
Definition keys_sorted_of (ks : list str) : list str := keys_sorted (map (fun k => (k, tt)) ks).
Definition keys_joined_of (ks : list str) : str := keys_joined (map (fun k => (k, tt)) ks).
Definition for_each_of (ks : list str) : list str :=
  map fst (for_each_sorted (map (fun k => (k, tt)) ks) (map (fun k => (k, tt)) ks)).
(* oracle/common.ml refers to the types z and nat *)
Definition c07_z : Z := 0%Z.
Definition c07_nat : nat := 0%nat.
(* two environments for the oracle: UTC and a zone 5 h 45 min east whose user, home, locale, cwd and umask differ too *)
Definition c07_env_utc : env := mk_env (fun _ => 0%Z) [] [] [] [] 18%N.
Definition c07_env_other : env := mk_env (fun _ => 20700%Z) [120%N] [47%N; 104%N] [100%N; 101%N] [47%N; 108%N] 63%N.
Extraction "C07_model.ml" keys_sorted_of keys_joined_of for_each_of str_cmp c07_z c07_nat
  parse_entry_line load_entries entries_lookup ansic_utc civil_from_days days_from_civil weekday_of_days
  is_locally_modified is_locally_modified_local c07_env_utc c07_env_other.
