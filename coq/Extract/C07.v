From Coq Require Extraction ExtrOcamlBasic.
From PV Require Import Lib.Bytes Model.MapIter.
Definition keys_sorted_of (ks : list str) : list str := keys_sorted (map (fun k => (k, tt)) ks).
Definition keys_joined_of (ks : list str) : str := keys_joined (map (fun k => (k, tt)) ks).
Definition for_each_of (ks : list str) : list str :=
  map fst (for_each_sorted (map (fun k => (k, tt)) ks) (map (fun k => (k, tt)) ks)).
(* oracle/common.ml refers to the types z and nat *)
Definition c07_z : Z := 0%Z.
Definition c07_nat : nat := 0%nat.
Extraction "C07_model.ml" keys_sorted_of keys_joined_of for_each_of str_cmp c07_z c07_nat.
