From Coq Require Extraction ExtrOcamlBasic.
From PV Require Import Lib.Bytes Gen.CondSimpSets Spec.BmakeCond Model.CondSimp.
(* the oracle: the model's walk over a condition + Autofix.Replace (check_line,
   walk), the spec's reader and evaluator (parse_cond, eval_text), and the
   pieces the harness uses to test the mayMatchNumber assumption (str_match,
   try_parse_number, num_is_zero) *)
Extraction "C14_model.ml" check_line eval_text eval_text_env expand_pat env_of parse_cond str_match try_parse_number num_is_zero.
