From Coq Require Extraction ExtrOcamlBasic.
From PV Require Import Lib.Bytes Gen.CondSimpSets Spec.BmakeCond Spec.PrefsFile Model.CondSimp Model.CondFile.
(* the oracle: the model's walk over a condition + Autofix.Replace (check_line,
   walk), the spec's reader and evaluator (parse_cond, eval_text), and the
   pieces the harness uses to test the mayMatchNumber assumption (str_match,
   try_parse_number, num_is_zero) *)
Extraction "C14_model.ml" check_line check_file_line scan init_state loads_prefs path_base really_loads_prefs sure_after conditional_prefs_include in_strs eval_text eval_text_env expand_pat env_of parse_cond str_match try_parse_number num_is_zero.
