From Coq Require Extraction ExtrOcamlBasic.
From PV Require Import Lib.Bytes Model.ShTok Spec.ShPartition.
(* Z.opp only so that the type z, which oracle/common.ml mentions, is extracted too *)
Extraction "C10sh_model.ml" sh_atoms_from sh_atoms sh_tokens split_tokens table_expr partition_ok tokens_ok Z.opp.
