From Coq Require Extraction ExtrOcamlBasic.
From PV Require Import Lib.Bytes Gen.NumberAutomaton Model.Makepat Spec.StrMatch Spec.CNumber.
(* oracle/common.ml mentions the type z *)
Definition z_unused : Z := 0%Z.
Extraction "C13_model.ml" z_unused compile matchp intersect can_match reachable number may_match_number
  str_match malformed range_to_rbracket is_c_number.
