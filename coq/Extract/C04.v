From Coq Require Extraction ExtrOcamlBasic.
From PV Require Import Lib.Bytes Model.Modes Model.ModesPara.
(* a script = the events of constant checks; the harness drives the real
   Logger+Autofix with the same events *)
Definition run_script (m : mode) (only : list str) (ls : list lstate) (evs : list event) : state :=
  run_events m only (init ls) evs.
(* oracle/common.ml mentions the type z *)
Definition z_for_common : Z := 0%Z.
Extraction "C04_model.ml" run_script mk_line run para_decision z_for_common.
