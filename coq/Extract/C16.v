From Coq Require Extraction ExtrOcamlBasic.
From PV Require Import Lib.Bytes Model.Settle.
(* oracle/common.ml mentions the types z and nat *)
Definition z_for_common : Z := 0%Z.
Definition nat_for_common : nat := 0%nat.
Extraction "C16_model.ml" trim_file fix_header header_ok isort text_pass
  check_cvsid plist_pass plist_line_fix gz_offered used_by load_file save_file z_for_common nat_for_common.
