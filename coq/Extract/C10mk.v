From Coq Require Extraction ExtrOcamlBasic.
From PV Require Import Lib.Bytes Model.MkLexPrim Model.MkLexer Model.MkTokensLexer Model.MkLineSplit
  Model.VaralignSplit Spec.MkPartition Model.MatchVarassign.
From PV Require Model.Lines.

(* the drain loop of the shim's VerifMkTokensLexer, on the model *)
Fixpoint tl_drain (fuel : nat) (m : tlexer) : list token * str :=
  match fuel with
  | O => ([], tl_rest m)
  | S f =>
    if tl_eof m then ([], tl_rest m)
    else match tl_next_expr m with
         | Some (t, m') => let (ps, r) := tl_drain f m' in (t :: ps, r)
         | None =>
           match fst m with
           | [] => ([], tl_rest m)
           | text => let (ps, r) := tl_drain f ([], snd m) in ((text, false) :: ps, r)
           end
         end
  end.

Definition c10_tokenslexer (s : str) : res (str * (list token * str)) :=
  bind (tokenize s) (fun toks =>
    let m := tl_new toks in Ok (tl_rest m, tl_drain (S (length toks)) m)).

Definition c10_mktokens := MkTokens.
Definition c10_expr := Expr.
Definition c10_varname := Varname.
Definition c10_tokenize := tokenize.
Definition c10_unescape_comment := unescape_comment.
Definition c10_split := split.
Definition c10_varalign := varalign_split.
Definition c10_varassign := parse_varassign.
Definition c10_raw_value_align := get_raw_value_align.
Definition c10_unescape_hash := unescape_hash.
(* every logical line of a file: (text, number of raw lines, matchVarassign) *)
Definition c10_varassign_file (raw : str) : res (list (str * nat * res (option varassign))) :=
  bind (varassign_of_file raw) (fun ls =>
    Ok (map (fun lr : Lines.line * res (option varassign) =>
      (Lines.text (fst lr), length (Lines.raws (fst lr)), snd lr)) ls)).

Extraction "C10mk_model.ml" c10_mktokens c10_expr c10_varname c10_tokenize c10_tokenslexer
  c10_unescape_comment c10_split c10_varalign c10_varassign c10_raw_value_align c10_unescape_hash
  c10_varassign_file
  parts_string.
