(* Model of Scope (scope.go): which variables are defined / used in a package or file.
   One definition per Go function, same case structure.  No proofs here.

   A makefile line is abstracted to what Scope looks at: identity, kind (variable assignment /
   commented-out variable assignment `#VAR=value` / anything else, e.g. a documentation
   comment), operator and value.  A nil *MkLine is never passed to Define/Use by the callers
   (Define would dereference it), so lines are total here and nil results are `None`. *)
From Coq Require Import List NArith Bool.
From PV Require Import Lib.Bytes Lib.PanicRes.
Import ListNotations.
Open Scope N_scope.

Record sline := { sl_id : N;
                  sl_kind : N;     (* 0 = IsVarassign, 1 = IsCommentedVarassign, other = neither *)
                  sl_op : N;       (* 0 "=", 1 "!=", 2 ":=", 3 "+=", 4 "?=" (MkOperator) *)
                  sl_value : str }.
Definition is_varassign (l : sline) : bool := sl_kind l =? 0.
Definition is_commented_varassign (l : sline) : bool := sl_kind l =? 1.

(* scopeVar *)
Record svar := { v_first : option sline; v_last : option sline; v_value : str;
                 v_used : option sline; v_fallback : str; v_load : bool; v_indet : bool }.
Definition empty_svar : svar :=
  {| v_first := None; v_last := None; v_value := []; v_used := None; v_fallback := [];
     v_load := false; v_indet := false |}.

(* Scope.vs *)
Definition sstate := list (str * svar).

Fixpoint slookup (st : sstate) (v : str) : option svar :=
  match st with
  | [] => None
  | (k, x) :: t => if str_eqb k v then Some x else slookup t v
  end.

Fixpoint sset (st : sstate) (v : str) (x : svar) : sstate :=
  match st with
  | [] => [(v, x)]
  | (k, y) :: t => if str_eqb k v then (k, x) :: t else (k, y) :: sset t v x
  end.

(* create: the existing entry or a fresh one *)
Definition screate (st : sstate) (v : str) : svar :=
  match slookup st v with Some x => x | None => empty_svar end.

(* varnameCanon: "NAME.param" -> "NAME.*" when the first dot is not at index 0 *)
Definition varname_canon (v : str) : str :=
  let (base, rest) := span (fun c => negb (c =? 46)) v in
  match base, rest with
  | _ :: _, _ :: _ => base ++ [46; 42]
  | _, _ => v
  end.

(* Scope.def *)
Definition sdef (st : sstate) (name : str) (l : sline) : sstate :=
  let v := screate st name in
  let first := match v_first v with None => Some l | Some f => Some f end in
  let v1 := {| v_first := first; v_last := Some l; v_value := v_value v; v_used := v_used v;
               v_fallback := v_fallback v; v_load := v_load v; v_indet := v_indet v |} in
  let v2 :=
    if negb (is_varassign l) then v1
    else
      let setval (x : str) (ind : bool) :=
        {| v_first := first; v_last := Some l; v_value := x; v_used := v_used v;
           v_fallback := v_fallback v; v_load := v_load v; v_indet := ind |} in
      if sl_op l =? 3 then setval (v_value v ++ 32 :: sl_value l) (v_indet v)
      else if sl_op l =? 4 then
        (if (match v_value v with [] => true | _ => false end) && negb (v_indet v)
         then setval (sl_value l) (v_indet v) else v1)
      else if sl_op l =? 1 then setval [] true
      else setval (sl_value l) (v_indet v) in
  sset st name v2.

(* Scope.Define *)
Definition sdefine (st : sstate) (name : str) (l : sline) : sstate :=
  let st1 := sdef st name l in
  let canon := varname_canon name in
  if str_eqb canon name then st1 else sdef st1 canon l.

(* Scope.Fallback *)
Definition sfallback (st : sstate) (name : str) (value : str) : sstate :=
  let v := screate st name in
  sset st name {| v_first := v_first v; v_last := v_last v; v_value := v_value v; v_used := v_used v;
                  v_fallback := value; v_load := v_load v; v_indet := v_indet v |}.

(* Scope.Use *)
Definition suse1 (st : sstate) (name : str) (l : sline) (load : bool) : sstate :=
  let v := screate st name in
  sset st name {| v_first := v_first v; v_last := v_last v; v_value := v_value v;
                  v_used := match v_used v with None => Some l | Some u => Some u end;
                  v_fallback := v_fallback v; v_load := v_load v || load; v_indet := v_indet v |}.
Definition suse (st : sstate) (name : str) (l : sline) (load : bool) : sstate :=
  suse1 (suse1 st name l load) (varname_canon name) l load.

Inductive sop :=
| ODefine (name : str) (l : sline)
| OFallback (name : str) (value : str)
| OUse (name : str) (l : sline) (load : bool).

Definition sstep (st : sstate) (o : sop) : sstate :=
  match o with
  | ODefine n l => sdefine st n l
  | OFallback n x => sfallback st n x
  | OUse n l b => suse st n l b
  end.

(* NewScope() followed by the history *)
Definition scope_run (h : list sop) : sstate := fold_left sstep h [].

(* ---- queries ---- *)
Definition mentioned (st : sstate) (v : str) : option sline :=
  match slookup st v with Some x => v_first x | None => None end.

Definition is_defined (st : sstate) (v : str) : bool :=
  match mentioned st v with Some l => is_varassign l | None => false end.

Definition is_defined_similar (st : sstate) (v : str) : bool :=
  if is_defined st v then true else is_defined st (varname_canon v).

Definition first_use (st : sstate) (v : str) : option sline :=
  match slookup st v with Some x => v_used x | None => None end.

Definition is_used (st : sstate) (v : str) : bool :=
  match first_use st v with Some _ => true | None => false end.

Definition is_used_similar (st : sstate) (v : str) : bool :=
  is_used st v || is_used st (varname_canon v).

Definition is_used_at_load_time (st : sstate) (v : str) : bool :=
  match slookup st v with Some x => v_load x | None => false end.

Definition last_definition (st : sstate) (v : str) : option sline :=
  match slookup st v with
  | None => None
  | Some x => match v_last x with
              | Some l => if is_varassign l then Some l else None
              | None => None
              end
  end.

Definition first_definition (st : sstate) (v : str) : option sline :=
  match slookup st v with
  | None => None
  | Some x => match v_first x with
              | Some l => if is_varassign l then Some l else None
              | None => None
              end
  end.

Definition opt_list {A} (o : option A) : list A := match o with Some a => [a] | None => [] end.

Definition commented (st : sstate) (v : str) : option sline :=
  match slookup st v with
  | None => None
  | Some x =>
    let ls := opt_list (v_first x) ++ opt_list (v_last x) in
    if existsb is_varassign ls then None
    else find is_commented_varassign ls
  end.

(* LastValueFound: (value, found, indeterminate) *)
Definition last_value_found (st : sstate) (v : str) : str * bool * bool :=
  match slookup st v with
  | None => ([], false, false)
  | Some x =>
    let found := match v_first x with Some l => is_varassign l | None => false end in
    if found then (v_value x, true, v_indet x)
    else (v_fallback x, match v_fallback x with [] => false | _ => true end, v_indet x)
  end.

Definition last_value (st : sstate) (v : str) : str := fst (fst (last_value_found st v)).

(* what resolveExprs takes from a scope: the names with found && !indeterminate, with their values *)
Definition scope_bindings (st : sstate) : list (str * str) :=
  flat_map (fun kv => match last_value_found st (fst kv) with
                      | (x, true, false) => [(fst kv, x)]
                      | _ => []
                      end) st.

(* everything observable about one name *)
Record sobs := { ob_mentioned : option sline; ob_defined : bool; ob_defined_similar : bool;
                 ob_used : bool; ob_used_similar : bool; ob_load : bool;
                 ob_first : option sline; ob_last : option sline; ob_commented : option sline;
                 ob_first_use : option sline; ob_lvf : str * bool * bool }.

Definition observe (st : sstate) (v : str) : sobs :=
  {| ob_mentioned := mentioned st v; ob_defined := is_defined st v;
     ob_defined_similar := is_defined_similar st v; ob_used := is_used st v;
     ob_used_similar := is_used_similar st v; ob_load := is_used_at_load_time st v;
     ob_first := first_definition st v; ob_last := last_definition st v;
     ob_commented := commented st v; ob_first_use := first_use st v;
     ob_lvf := last_value_found st v |}.

(* the observations of the given names after every operation of the history *)
Fixpoint scope_trace (st : sstate) (h : list sop) (names : list str) : list (list sobs) :=
  match h with
  | [] => []
  | o :: t => let st' := sstep st o in map (observe st') names :: scope_trace st' t names
  end.

(* ---- Scope.DefineAll ---- *)

(* bytewise lexicographic order of sort.Strings *)
Fixpoint str_leb (a b : str) : bool :=
  match a, b with
  | [], _ => true
  | _ :: _, [] => false
  | x :: a', y :: b' => if x <? y then true else if y <? x then false else str_leb a' b'
  end.

Fixpoint insert_sorted (k : str) (l : list str) : list str :=
  match l with
  | [] => [k]
  | x :: t => if str_leb k x then k :: l else x :: insert_sorted k t
  end.

(* Scope.varnames: the keys of vs, sorted *)
Definition varnames (st : sstate) : list str := fold_right insert_sorted [] (map fst st).

(* one iteration of the loop of DefineAll: v := other.vs[varname] (Panic 7: nil entry, cannot happen
   for a name taken from the map); Define(varname, v.firstDef); Define(varname, v.lastDef), where a nil
   lastDef would be dereferenced by Define (Panic 6) *)
Definition define_all_step (other : sstate) (acc : res sstate) (k : str) : res sstate :=
  bind acc (fun a =>
    match slookup other k with
    | None => Panic 7
    | Some x =>
      match v_first x with
      | None => Ok a
      | Some f => match v_last x with
                  | None => Panic 6
                  | Some l => Ok (sdefine (sdefine a k f) k l)
                  end
      end
    end).

Definition sdefine_all (st other : sstate) : res sstate :=
  fold_left (define_all_step other) (varnames other) (Ok st).
