(* Compact models of the other layout fixers:
     LineChecker.CheckTrailingWhitespace            (linechecker.go)
     MkLineChecker.checkDirectiveIndentation        (mklinechecker.go)
     the tab normalisation in MkLineChecker.checkShellCommand (mklinechecker.go)
     MkLineParser.fixSpaceAfterVarname              (mklineparser.go)
   together with Autofix.ReplaceAfter / replaceOnce as far as fix.texts is
   concerned.  Raw lines are modelled without their trailing "\n".  No proofs. *)
From PV Require Import Lib.Bytes Model.Tabs Model.Varalign.
Open Scope Z_scope.

(* ---- func (ck LineChecker) CheckTrailingWhitespace() ----
   raws = the raw lines of the logical line; only the last one is looked at *)
(* hasSuffix(s, "\\") *)
Definition ends_backslash (s : str) : bool := (last s 0 =? 92)%N.

Definition trim_raw (t : str) : res str :=
  let trimmedLen := len (rtrimHspace t) in
  if trimmedLen =? len t then Ok t
  else if ends_backslash (firstn (Z.to_nat trimmedLen) t) then Ok t
       (* /repo a0c5e27: without the blanks the backslash would continue the line *)
  else replace_at t trimmedLen (skipn (Z.to_nat trimmedLen) t) [].

Fixpoint checkTrailingWhitespace (raws : list str) : res (list str) :=
  match raws with
  | [] => Panic                                   (* RawText(len(raw)-1) with no raw line *)
  | [t] => t' <- trim_raw t ;; Ok [t']
  | t :: r => r' <- checkTrailingWhitespace r ;; Ok (t :: r')
  end.

(* ---- func (ck MkLineChecker) checkDirectiveIndentation(expectedDepth int) ----
   raw0 = RawText(0), indent = mkline.Indent() as parsed (the blanks after the dot) *)
Definition checkDirectiveIndentation (stmtsNil : bool) (raw0 indent : str) (expectedDepth : Z) : res str :=
  if stmtsNil then Ok raw0                        (* if ck.MkLines.stmts == nil { return } *)
  else if expectedDepth <? 0 then Panic                (* strings.Repeat: negative count *)
  else
    let expected := spaces expectedDepth in
    if str_eqb indent expected then Ok raw0
    else if has_prefix (DOT :: indent) raw0
    then replace_at raw0 0 (DOT :: indent) (DOT :: expected)
    else Ok raw0.

(* ---- checkShellCommand: `if hasPrefix(mkline.Text, "\t\t")` ----
   textHasTwoTabs = that condition (on the logical text); raws = the raw lines *)
Definition leading_tabs (s : str) : str := fst (span (fun c => (c =? TAB)%N) s).

Definition shellTabs (textHasTwoTabs : bool) (raws : list str) : res (list str) :=
  if negb textHasTwoTabs then Ok raws
  else
    match raws with
    | [] => Panic                                 (* RawText(0) *)
    | r0 :: _ =>
      let tabs := leading_tabs r0 in
      map_res (fun r => if has_prefix tabs r then replace_at r 0 tabs [TAB] else Ok r) raws
    end.

(* ---- strings.Index / LastIndex / Count, replaceOnce, Autofix.ReplaceAfter ---- *)
Fixpoint index_of (sub s : str) : option Z :=                   (* strings.Index *)
  if has_prefix sub s then Some 0
  else match s with
       | _ :: s' => match index_of sub s' with Some i => Some (i + 1) | None => None end
       | [] => None
       end.
Fixpoint last_index_of (sub s : str) : option Z :=              (* strings.LastIndex *)
  match s with
  | _ :: s' =>
    match last_index_of sub s' with
    | Some i => Some (i + 1)
    | None => if has_prefix sub s then Some 0 else None
    end
  | [] => if has_prefix sub s then Some 0 else None
  end.
(* strings.Count for a non-empty substring: non-overlapping, from the left;
   `skip` = bytes of the current occurrence still to be stepped over *)
Fixpoint count_sub (sub s : str) (skip : nat) : Z :=
  match s with
  | [] => 0
  | _ :: s' =>
    match skip with
    | S k => count_sub sub s' k
    | O => if has_prefix sub s then 1 + count_sub sub s' (pred (length sub)) else count_sub sub s' 0
    end
  end.

(* func replaceOnce(s, from, to string) (ok bool, replaced string) *)
Definition replaceOnce (s from to : str) : option str :=
  match index_of from s, last_index_of from s with
  | Some i, Some j =>
    if i =? j then Some (firstn (Z.to_nat i) s ++ to ++ skipn (Z.to_nat i + length from) s) else None
  | _, _ => None
  end.

(* func (fix *Autofix) ReplaceAfter(prefix, from, to) on fix.texts, in --autofix mode;
   from is not empty and contains no '\n' *)
Fixpoint replace_first (raws : list str) (from to : str) : list str :=
  match raws with
  | [] => []
  | t :: r => match replaceOnce t from to with
              | Some t' => t' :: r
              | None => t :: replace_first r from to
              end
  end.
Definition replaceAfter (raws : list str) (prefix from to : str) : list str :=
  let prefixFrom := prefix ++ from in
  let prefixTo := prefix ++ to in
  let n := fold_left (fun n t => n + count_sub prefixFrom t 0) raws 0 in
  if negb (n =? 1) then raws else replace_first raws prefixFrom prefixTo.

(* ---- func (p MkLineParser) fixSpaceAfterVarname(line, a) ----
   varname, spaceAfterVarname, op = what matchVarassign parsed;
   p0 = VaralignSplitter.split(line.RawText(0), true) *)
Definition ends_with_plus (s : str) : bool :=
  match rev s with c :: _ => (c =? 43)%N | [] => false end.
Definition starts_lower (s : str) : bool :=
  match s with c :: _ => is_lower c | [] => false end.
Definition OP_ASSIGN : str := [61]%N.
Definition OP_APPEND : str := [43; 61]%N.
Definition OP_EVAL : str := [58; 61]%N.

(* hasSuffix(s, suffix) *)
Definition has_suffix_b (suffix s : str) : bool := has_prefix (rev suffix) (rev s).

Definition fixSpaceAfterVarname (raws : list str) (varname spaceAfterVarname op : str) (p0 : parts)
  : res (list str) :=
  if is_nil spaceAfterVarname then Ok raws
  else if ends_with_plus varname && (str_eqb op OP_ASSIGN || str_eqb op OP_APPEND) then Ok raws
  else if starts_lower varname && str_eqb op OP_EVAL then Ok raws
  else
    let before := lc p0 ++ vo p0 ++ sbv p0 in
    (* only the blanks directly in front of the operator go; the name is taken from the raw text
       (/repo 84b7475: it may contain an escaped '#'; it may also contain blanks inside ${...}) *)
    if negb (has_suffix_b op (vo p0)) then Ok raws                 (* if !hasSuffix(parts.varnameOp, opText) { return } *)
    else
      let rawVarname := rtrimHspace (firstn (length (vo p0) - length op) (vo p0)) in
      after <- lift (alignWith (lc p0 ++ rawVarname ++ op) before) ;;
      Ok (replaceAfter raws [] before after).
