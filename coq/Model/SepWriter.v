(* Model of logging.go's SeparatorWriter for property C01.  No proofs here.

   state: 0 = beginning of line, 1 = in line, 2 = separator wanted, 3 = paragraph.
   sw_out is everything handed to the underlying io.Writer so far, sw_line the
   bytes.Buffer `line`.  The only panic site is the assertion in Separate():
     Panic 5  Separate(): assert(wr.state != 1) *)
From Coq Require Import List NArith Bool.
From PV Require Import Lib.Bytes Lib.PanicRes.
Import ListNotations.
Open Scope N_scope.

Record sw := { sw_out : str; sw_state : N; sw_line : str }.

(* NewSeparatorWriter *)
Definition sw_new : sw := {| sw_out := []; sw_state := 3; sw_line := [] |}.

(* func (wr *SeparatorWriter) Flush(): io.Copy(wr.out, &wr.line); wr.line.Reset() *)
Definition sw_flush (w : sw) : sw :=
  {| sw_out := sw_out w ++ sw_line w; sw_state := sw_state w; sw_line := [] |}.

(* func (wr *SeparatorWriter) write(b byte) *)
Definition sw_write_byte (w : sw) (b : N) : sw :=
  if b =? 10 then
    let st := if sw_state w =? 1 then 0 else 3 in
    sw_flush {| sw_out := sw_out w; sw_state := st; sw_line := sw_line w ++ [10] |}
  else
    let w1 := if sw_state w =? 2
              then sw_flush {| sw_out := sw_out w; sw_state := sw_state w;
                               sw_line := sw_line w ++ [10] |}
              else w in
    {| sw_out := sw_out w1; sw_state := 1; sw_line := sw_line w1 ++ [b] |}.

(* func (wr *SeparatorWriter) Write(text string) *)
Definition sw_write (w : sw) (s : str) : sw := fold_left sw_write_byte s w.

(* func (wr *SeparatorWriter) WriteLine(text string) *)
Definition sw_write_line (w : sw) (s : str) : sw := sw_write_byte (sw_write w s) 10.

(* func (wr *SeparatorWriter) Separate() *)
Definition sw_separate (w : sw) : res sw :=
  if sw_state w =? 1 then Panic 5
  else Ok (if sw_state w <? 2
           then {| sw_out := sw_out w; sw_state := 2; sw_line := sw_line w |}
           else w).

Inductive sw_event :=
| EWrite (s : str)
| EWriteLine (s : str)
| ESeparate
| EFlush.

Definition sw_step (w : sw) (e : sw_event) : res sw :=
  match e with
  | EWrite s => Ok (sw_write w s)
  | EWriteLine s => Ok (sw_write_line w s)
  | ESeparate => sw_separate w
  | EFlush => Ok (sw_flush w)
  end.

Fixpoint sw_run_from (w : sw) (evs : list sw_event) : res sw :=
  match evs with
  | [] => Ok w
  | e :: r => bind (sw_step w e) (fun w' => sw_run_from w' r)
  end.

Definition sw_run (evs : list sw_event) : res sw := sw_run_from sw_new evs.
