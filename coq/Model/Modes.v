(* The Logger/Autofix mode machine: what C04 (and C16's fixed_point_quiet) need
   of /repo/v23/autofix.go and logging.go.  One definition per Go function,
   same case structure; no proofs here.

   State: per logical line the Autofix record as later checks see it
   (texts, Line.Text, above, below, modified), and of the Logger
   suppressDiag/suppressExpl, the `logged` set (FirstTime), the counters,
   explanationsAvailable, autofixAvailable and the items printed so far.
   Not modelled (presentation only, C08): --source, --explain, --gcc-output,
   --quiet, the text of explanations; `Once` is an exact set (CRC-64 collisions
   are in the trusted base); paths are printed as given (CleanPath is C19's). *)
From PV Require Import Lib.Bytes.
Open Scope N_scope.

(* ---------- command line: the two mode flags and --only ---------- *)
Record mode := { m_show : bool; m_fix : bool }.   (* Opts.ShowAutofix, Opts.Autofix *)
Definition Default := {| m_show := false; m_fix := false |}.
Definition ShowAutofix := {| m_show := true; m_fix := false |}.
Definition Autofix := {| m_show := false; m_fix := true |}.
Definition Both := {| m_show := true; m_fix := true |}.
(* Logger.IsAutofix *)
Definition is_autofix (m : mode) : bool := m_show m || m_fix m.

Inductive level := Error | Warn | Note.

(* ---------- strings: Index, LastIndex, Count, replaceOnce ---------- *)
(* strings.Index *)
Fixpoint index_of (pat s : str) : option nat :=
  if has_prefix pat s then Some 0%nat
  else match s with
       | [] => None
       | _ :: s' => option_map S (index_of pat s')
       end.
(* strings.LastIndex *)
Fixpoint last_index_of (pat s : str) : option nat :=
  match s with
  | [] => if has_prefix pat [] then Some 0%nat else None
  | _ :: s' => match last_index_of pat s' with
               | Some i => Some (S i)
               | None => if has_prefix pat s then Some 0%nat else None
               end
  end.
(* strings.Contains *)
Definition contains (s sub : str) : bool :=
  match index_of sub s with Some _ => true | None => false end.
(* strings.Count for a non-empty pattern: non-overlapping occurrences from the
   left; `skip` bytes of the last match are still to be stepped over *)
Fixpoint count_skip (pat s : str) (skip : nat) : N :=
  match s with
  | [] => 0
  | _ :: s' =>
    match skip with
    | S k => count_skip pat s' k
    | O => if has_prefix pat s then 1 + count_skip pat s' (length pat - 1)%nat
           else count_skip pat s' 0%nat
    end
  end.
(* strings.Count; for the empty pattern Go returns 1 + the number of runes
   (= bytes for ASCII text, which is what the scripts use) *)
Definition count_sub (pat s : str) : N :=
  match pat with
  | [] => 1 + N.of_nat (length s)
  | _ => count_skip pat s 0%nat
  end.
(* util.go replaceOnce: replaces iff there is exactly one starting position *)
Definition replace_once (s from to : str) : bool * str :=
  match index_of from s, last_index_of from s with
  | Some i, Some j =>
    if Nat.eqb i j then (true, firstn i s ++ to ++ skipn (i + length from)%nat s)
    else (false, s)
  | _, _ => (false, s)
  end.

(* ---------- a logical line with its Autofix record ---------- *)
Record lstate := {
  l_file : str;            (* Location.Filename *)
  l_lineno : N;            (* Location.lineno; 0 = the file as a whole *)
  l_raw : list str;        (* RawLine.orignl *)
  l_texts : list str;      (* Autofix.texts *)
  l_text : str;            (* Line.Text *)
  l_above : list str;
  l_below : list str;
  l_modified : bool;       (* Autofix.modified *)
}.
(* NewLineMulti + NewAutofix *)
Definition mk_line (file : str) (lineno : N) (text : str) (raw : list str) : lstate :=
  {| l_file := file; l_lineno := lineno; l_raw := raw; l_texts := raw; l_text := text;
     l_above := []; l_below := []; l_modified := false |}.
Definition set_texts (l : lstate) (texts : list str) (text : str) : lstate :=
  {| l_file := l_file l; l_lineno := l_lineno l; l_raw := l_raw l; l_texts := texts; l_text := text;
     l_above := l_above l; l_below := l_below l; l_modified := l_modified l |}.
Definition set_above (l : lstate) (a : list str) : lstate :=
  {| l_file := l_file l; l_lineno := l_lineno l; l_raw := l_raw l; l_texts := l_texts l; l_text := l_text l;
     l_above := a; l_below := l_below l; l_modified := l_modified l |}.
Definition set_below (l : lstate) (b : list str) : lstate :=
  {| l_file := l_file l; l_lineno := l_lineno l; l_raw := l_raw l; l_texts := l_texts l; l_text := l_text l;
     l_above := l_above l; l_below := b; l_modified := l_modified l |}.
Definition set_modified (l : lstate) (b : bool) : lstate :=
  {| l_file := l_file l; l_lineno := l_lineno l; l_raw := l_raw l; l_texts := l_texts l; l_text := l_text l;
     l_above := l_above l; l_below := l_below l; l_modified := b |}.

(* Line.Linenos as a pair: (0,0) = no line number, (a,a) = "a", (a,b) = "a--b" *)
Definition linenos := (N * N)%type.
Definition line_linenos (l : lstate) : linenos :=
  if l_lineno l =? 0 then (0, 0)
  else if Nat.eqb (length (l_raw l)) 1 then (l_lineno l, l_lineno l)
  else (l_lineno l, l_lineno l + N.of_nat (length (l_raw l)) - 1).

(* ---------- fix operations ---------- *)
Inductive adesc :=
| AReplace (from to : str)          (* Replacing %q with %q. *)
| AInsertAbove (t : str)            (* Inserting a line %q above this line. *)
| AInsertBelow (t : str)            (* Inserting a line %q below this line. *)
| ADelete                           (* Deleting this line. *)
| ACustom (msg : str).              (* Describef from within Custom *)
Definition action := (adesc * N)%type.   (* autofixAction: description, lineno *)

Inductive op :=
| OReplaceAfter (prefix from to : str)
| OReplaceAt (rawIndex textIndex : N) (from to : str)
| OInsertAbove (t : str)
| OInsertBelow (t : str)
| ODelete
| ODescribe (rawIndex : N) (msg : str).  (* Custom(func(...) { Describef(rawIndex, msg) }) *)

(* SilentAutofixFormat *)
Definition silent_format : str :=
  [83;105;108;101;110;116;65;117;116;111;102;105;120;70;111;114;109;97;116].

(* Logger.shallBeLogged *)
Definition shall_be_logged (only : list str) (format : str) : bool :=
  match only with
  | [] => true
  | _ => existsb (contains format) only
  end.

(* the Autofix while a transaction is open: the line and the short-term actions *)
Record fx := { f_line : lstate; f_acts : list action }.
(* Autofix.Describef *)
Definition describe (f : fx) (rawIndex : N) (d : adesc) : fx :=
  {| f_line := f_line f; f_acts := f_acts f ++ [(d, l_lineno (f_line f) + rawIndex)] |}.

Fixpoint sum_counts (pat : str) (texts : list str) : N :=
  match texts with [] => 0 | t :: r => count_sub pat t + sum_counts pat r end.
(* the loop of ReplaceAfter: the first raw line in which replaceOnce succeeds *)
Fixpoint find_replace (texts : list str) (pf pt : str) (i : N) : option (N * list str) :=
  match texts with
  | [] => None
  | t :: r =>
    let (ok, replaced) := replace_once t pf pt in
    if ok then Some (i, replaced :: r)
    else match find_replace r pf pt (i + 1) with
         | Some (j, r') => Some (j, t :: r')
         | None => None
         end
  end.

Fixpoint set_nth (texts : list str) (i : nat) (v : str) : list str :=
  match texts, i with
  | [], _ => []
  | _ :: r, O => v :: r
  | t :: r, S k => t :: set_nth r k v
  end.

(* InsertBelow: an unterminated last raw line gets its newline first *)
Fixpoint terminate_last (texts : list str) : list str :=
  match texts with
  | [] => []
  | [t] => match t with
           | [] => [t]
           | _ => if last t 0 =? 10 then [t] else [t ++ [10]]
           end
  | t :: r => t :: terminate_last r
  end.

(* Autofix.assertRealLine *)
Definition real_line (l : lstate) : bool := 1 <=? l_lineno l.

(* one operation; None = a Go panic (assert or index out of range).
   `skip` = Autofix.skip(): the diagnostic is filtered out by --only *)
Definition do_op (m : mode) (skip : bool) (f : fx) (o : op) : option fx :=
  let l := f_line f in
  match o with
  | OReplaceAfter prefix from to =>
    if negb (real_line l) then None
    else if skip then Some f
    else
      let pf := prefix ++ from in
      let pt := prefix ++ to in
      if negb (sum_counts pf (l_texts l) =? 1) then Some f
      else match find_replace (l_texts l) pf pt 0 with
           | None => Some f
           | Some (ri, texts') =>
             let l' := if is_autofix m
                       then set_texts l texts' (snd (replace_once (l_text l) pf pt))
                       else l in
             Some (describe {| f_line := l'; f_acts := f_acts f |} ri (AReplace from to))
           end
  | OReplaceAt rawIndex textIndex from to =>
    if str_eqb from to then None
    else if negb (real_line l) then None
    else if skip then Some f
    else match nth_error (l_texts l) (N.to_nat rawIndex) with
         | None => None
         | Some text =>
           if negb (textIndex <? N.of_nat (length text)) then None
           else match strip_prefix from (skipn (N.to_nat textIndex) text) with
                | None => None
                | Some rest =>
                  let replaced := firstn (N.to_nat textIndex) text ++ to ++ rest in
                  let l' := set_texts l (set_nth (l_texts l) (N.to_nat rawIndex) replaced)
                                      (snd (replace_once (l_text l) from to)) in
                  Some (describe {| f_line := l'; f_acts := f_acts f |} rawIndex (AReplace from to))
                end
         end
  | OInsertAbove t =>
    if negb (real_line l) then None
    else if skip then Some f
    else Some (describe {| f_line := set_above l (l_above l ++ [t ++ [10]]); f_acts := f_acts f |} 0 (AInsertAbove t))
  | OInsertBelow t =>
    if negb (real_line l) then None
    else if skip then Some f
    else
      let l1 := match l_below l with
                | [] => set_texts l (terminate_last (l_texts l)) (l_text l)
                | _ => l
                end in
      Some (describe {| f_line := set_below l1 (l_below l1 ++ [t ++ [10]]); f_acts := f_acts f |}
                     (N.of_nat (length (l_raw l)) - 1) (AInsertBelow t))
  | ODelete =>
    if negb (real_line l) then None
    else if skip then Some f
    else Some {| f_line := set_texts l (map (fun _ => []) (l_texts l)) (l_text l);
                 f_acts := f_acts f ++ map (fun i => (ADelete, l_lineno l + N.of_nat i)) (seq 0 (length (l_texts l))) |}
  | ODescribe rawIndex msg =>
    if skip then Some f else Some (describe f rawIndex (ACustom msg))
  end.

Fixpoint do_ops (m : mode) (skip : bool) (f : fx) (ops : list op) : option fx :=
  match ops with
  | [] => Some f
  | o :: r => match do_op m skip f o with
              | None => None
              | Some f' => do_ops m skip f' r
              end
  end.

(* Autofix.affectedLinenos *)
Definition affected_linenos (l : lstate) (acts : list action) : linenos :=
  match acts with
  | [] => line_linenos l
  | _ =>
    let fl := fold_left (fun (fl : N * N) (a : action) =>
                let (first, last) := fl in
                let n := snd a in
                if n =? 0 then fl
                else ((if (last =? 0) || (n <? first) then n else first),
                      (if (last =? 0) || (last <? n) then n else last)))
              acts (0, 0) in
    if snd fl =? 0 then line_linenos l else fl
  end.

(* ---------- the Logger ---------- *)
Inductive item :=
| IDiag (lv : level) (file : str) (ln : linenos) (msg : str)
| IFix (file : str) (lineno : N) (d : adesc)          (* an AUTOFIX line *)
| ISummary (errors warnings notes : N)
| IHintExplain | IHintShow | IHintFix.

Definition key := (str * linenos * str)%type.
Definition key_eqb (a b : key) : bool :=
  let '(f1, (a1, b1), m1) := a in
  let '(f2, (a2, b2), m2) := b in
  str_eqb f1 f2 && (a1 =? a2) && (b1 =? b2) && str_eqb m1 m2.

Record lg := {
  g_suppressDiag : bool;
  g_suppressExpl : bool;
  g_logged : list key;
  g_errors : N; g_warnings : N; g_notes : N;
  g_explAvail : bool;
  g_autofixAvail : bool;
  g_out : list item;       (* in output order *)
}.
Definition lg0 : lg :=
  {| g_suppressDiag := false; g_suppressExpl := false; g_logged := [];
     g_errors := 0; g_warnings := 0; g_notes := 0; g_explAvail := false; g_autofixAvail := false; g_out := [] |}.
Definition set_suppress (g : lg) (d e : bool) : lg :=
  {| g_suppressDiag := d; g_suppressExpl := e; g_logged := g_logged g;
     g_errors := g_errors g; g_warnings := g_warnings g; g_notes := g_notes g;
     g_explAvail := g_explAvail g; g_autofixAvail := g_autofixAvail g; g_out := g_out g |}.

(* Logger.Relevant *)
Definition relevant (only : list str) (format : str) (g : lg) : bool * lg :=
  let r := shall_be_logged only format in
  (r, set_suppress g (negb r) (negb r)).

(* Logger.FirstTime (verbose = false) *)
Definition first_time (g : lg) (k : key) : bool * lg :=
  if existsb (key_eqb k) (g_logged g) then (false, set_suppress g true true)
  else (true,
        {| g_suppressDiag := g_suppressDiag g; g_suppressExpl := g_suppressExpl g; g_logged := k :: g_logged g;
           g_errors := g_errors g; g_warnings := g_warnings g; g_notes := g_notes g;
           g_explAvail := g_explAvail g; g_autofixAvail := g_autofixAvail g; g_out := g_out g |}).

(* Logger.Logf for a diagnostic: dropped once if suppressDiag is set *)
Definition logf_diag (g : lg) (lv : level) (file : str) (ln : linenos) (msg : str) : lg :=
  if g_suppressDiag g then set_suppress g false (g_suppressExpl g)
  else {| g_suppressDiag := false; g_suppressExpl := g_suppressExpl g; g_logged := g_logged g;
          g_errors := (match lv with Error => g_errors g + 1 | _ => g_errors g end);
          g_warnings := (match lv with Warn => g_warnings g + 1 | _ => g_warnings g end);
          g_notes := (match lv with Note => g_notes g + 1 | _ => g_notes g end);
          g_explAvail := g_explAvail g; g_autofixAvail := g_autofixAvail g;
          g_out := g_out g ++ [IDiag lv file ln msg] |}.
(* Logger.Logf with AutofixLogLevel: no counter *)
Definition logf_fix (g : lg) (file : str) (a : action) : lg :=
  if g_suppressDiag g then set_suppress g false (g_suppressExpl g)
  else {| g_suppressDiag := false; g_suppressExpl := g_suppressExpl g; g_logged := g_logged g;
          g_errors := g_errors g; g_warnings := g_warnings g; g_notes := g_notes g;
          g_explAvail := g_explAvail g; g_autofixAvail := g_autofixAvail g;
          g_out := g_out g ++ [IFix file (snd a) (fst a)] |}.

(* Logger.Explain with Opts.Explain = false *)
Definition explain (g : lg) : lg :=
  if g_suppressExpl g then g
  else {| g_suppressDiag := g_suppressDiag g; g_suppressExpl := g_suppressExpl g; g_logged := g_logged g;
          g_errors := g_errors g; g_warnings := g_warnings g; g_notes := g_notes g;
          g_explAvail := true; g_autofixAvail := g_autofixAvail g; g_out := g_out g |}.

(* Logger.Diag *)
Definition diag (m : mode) (only : list str) (g : lg) (l : lstate) (lv : level) (format msg : str) : lg :=
  if is_autofix m then set_suppress g (g_suppressDiag g) true
  else
    let (r, g1) := relevant only format g in
    if negb r then g1
    else
      let (ft, g2) := first_time g1 (l_file l, line_linenos l, msg) in
      if negb ft then set_suppress g2 false (g_suppressExpl g2)
      else logf_diag g2 lv (l_file l) (line_linenos l) msg.

(* Autofix.Apply; returns the Logger and the line after `reset` *)
Definition apply_fix (m : mode) (only : list str) (g : lg) (f : fx)
                     (lv : level) (format msg : str) (expl : bool) : lg * lstate :=
  let l := f_line f in
  let acts := f_acts f in
  let l' := match acts with [] => l | _ => set_modified l true end in   (* reset() *)
  let (r, g1) := relevant only format g in
  if negb (r && (negb (match acts with [] => true | _ => false end) || negb (is_autofix m))) then (g1, l')
  else
    let logDiagnostic := negb (str_eqb format silent_format) && negb (m_fix m && negb (m_show m)) in
    let logFix := is_autofix m in
    let g2 :=
      if logDiagnostic then
        let ln := affected_linenos l acts in
        let g1' := if negb logFix then snd (first_time g1 (l_file l, ln, msg)) else g1 in
        logf_diag g1' lv (l_file l) ln msg
      else g1 in
    let g3 := if logFix then fold_left (fun g a => logf_fix g (l_file l) a) acts g2 else g2 in
    let g4 := if logDiagnostic && expl then explain g3 else g3 in
    (g4, l').

(* ---------- events, checks, runs ---------- *)
Inductive event :=
| EDiag (line : nat) (lv : level) (format msg : str)       (* line.Errorf/Warnf/Notef *)
| EExplain                                                  (* line.Explain(...) *)
| EFix (line : nat) (lv : level) (format msg : str) (expl : bool) (ops : list op)
                                                            (* fix.Xxxf; [fix.Explain]; ops; fix.Apply *)
| ESave                                                     (* SaveAutofixChanges(lines) *)
| ESummary.                                                 (* Logger.ShowSummary *)

Record state := { s_lines : list lstate; s_lg : lg; s_panic : bool }.

Fixpoint set_line (ls : list lstate) (i : nat) (l : lstate) : list lstate :=
  match ls, i with
  | [], _ => []
  | _ :: r, O => l :: r
  | x :: r, S k => x :: set_line r k l
  end.

(* SaveAutofixChanges, as far as the Logger is concerned: without --autofix a
   modified line makes autofixAvailable true; with --autofix the files are
   written (C03/C05) and the Logger is not touched *)
Definition save (m : mode) (g : lg) (ls : list lstate) : lg :=
  if m_fix m then g
  else if existsb l_modified ls then
    {| g_suppressDiag := g_suppressDiag g; g_suppressExpl := g_suppressExpl g; g_logged := g_logged g;
       g_errors := g_errors g; g_warnings := g_warnings g; g_notes := g_notes g;
       g_explAvail := g_explAvail g; g_autofixAvail := true; g_out := g_out g |}
  else g.

(* Logger.ShowSummary with Quiet = false, Explain = false *)
Definition summary (m : mode) (g : lg) : lg :=
  if m_fix m then g
  else
    let items :=
      [ISummary (g_errors g) (g_warnings g) (g_notes g)]
      ++ (if g_explAvail g then [IHintExplain] else [])
      ++ (if g_autofixAvail g then (if negb (m_show m) then [IHintShow] else []) ++ [IHintFix] else []) in
    {| g_suppressDiag := g_suppressDiag g; g_suppressExpl := g_suppressExpl g; g_logged := g_logged g;
       g_errors := g_errors g; g_warnings := g_warnings g; g_notes := g_notes g;
       g_explAvail := g_explAvail g; g_autofixAvail := g_autofixAvail g; g_out := g_out g ++ items |}.

Definition panic (st : state) : state := {| s_lines := s_lines st; s_lg := s_lg st; s_panic := true |}.

Definition step (m : mode) (only : list str) (st : state) (e : event) : state :=
  if s_panic st then st
  else match e with
  | EDiag i lv format msg =>
    match nth_error (s_lines st) i with
    | None => panic st
    | Some l => {| s_lines := s_lines st; s_lg := diag m only (s_lg st) l lv format msg; s_panic := false |}
    end
  | EExplain => {| s_lines := s_lines st; s_lg := explain (s_lg st); s_panic := false |}
  | EFix i lv format msg expl ops =>
    match nth_error (s_lines st) i with
    | None => panic st
    | Some l =>
      (* setDiag; Explain asserts a non-silent format; skip() asserts a non-empty format *)
      if expl && str_eqb format silent_format then panic st
      else if match ops with [] => false | _ => str_eqb format [] end then panic st
      else match do_ops m (negb (shall_be_logged only format)) {| f_line := l; f_acts := [] |} ops with
           | None => panic st
           | Some f =>
             let (g', l') := apply_fix m only (s_lg st) f lv format msg expl in
             {| s_lines := set_line (s_lines st) i l'; s_lg := g'; s_panic := false |}
           end
    end
  | ESave => {| s_lines := s_lines st; s_lg := save m (s_lg st) (s_lines st); s_panic := false |}
  | ESummary => {| s_lines := s_lines st; s_lg := summary m (s_lg st); s_panic := false |}
  end.

Definition run_events (m : mode) (only : list str) (st : state) (evs : list event) : state :=
  fold_left (step m only) evs st.

(* a check: any function from the line states as they are now to events *)
Definition check := list lstate -> list event.
Definition run_check (m : mode) (only : list str) (st : state) (c : check) : state :=
  run_events m only st (c (s_lines st)).
Definition init (ls : list lstate) : state := {| s_lines := ls; s_lg := lg0; s_panic := false |}.
(* a run: all checks in order, then the lines are saved (every file pkglint
   checks is passed to SaveAutofixChanges when its checks are done) *)
Definition run (m : mode) (only : list str) (ls : list lstate) (cs : list check) : state :=
  step m only (fold_left (run_check m only) cs (init ls)) ESave.

(* ---------- observations ---------- *)
Definition is_fix_item (it : item) : bool := match it with IFix _ _ _ => true | _ => false end.
Definition is_diag_item (it : item) : bool := match it with IDiag _ _ _ _ => true | _ => false end.
Definition actions (st : state) : list item := filter is_fix_item (g_out (s_lg st)).
Definition diags (st : state) : list item := filter is_diag_item (g_out (s_lg st)).
Definition autofix_available (st : state) : bool := g_autofixAvail (s_lg st).
