(* Model of /repo/v23/mklexer.go: MkTokens, MkToken, Expr, exprBrace, Varname,
   exprText, exprModifierSysV, ExprModifiers, exprModifier (every modifier kind),
   exprModifierTs/Match/Subst/At, parseModifierPart, isEscapedModifierPart,
   exprAlnum.  One definition per Go function, same case order.

   Diagnostics (p.diag, Warnf, Explain, Autofix) are left out: they do not move
   the lexer.  Of an MkExpr only what steers the control flow is kept (the
   modifier texts: emptiness and first byte decide `mayOmitColon`).

   Recursion.  All functions of the mutually recursive block reach each other
   only through Expr; the block is therefore written with Expr as a parameter
   `E` (Section WithExpr) and the knot is tied once, on a single fuel that
   bounds the nesting depth (`expr`).  Loops inside one function run on
   `loop`/explicit fuel computed from the length of the rest; running out of
   either is the distinct result OutOfFuel.  Definitions only. *)
From PV Require Import Lib.Bytes Gen.MkByteSets Model.MkLexPrim.
Open Scope N_scope.

(* p.Expr(): Ok None = nil (lexer unchanged), Ok (Some r) = an expression was
   parsed and r is the new rest *)
Definition exprfn := str -> res (option str).

Section WithExpr.
Variable E : exprfn.

(* for lexer.NextBytesSet(set) != "" || p.Expr() != nil { } *)
Definition bytes_or_expr (set : str) : step := orelse (st_bytes (in_set set)) E.

Definition str_SITES_ : str := [83; 73; 84; 69; 83; 95].

(* Varname: (varname, rest) *)
Definition varname (s : str) : res (str * str) :=
  let mark := s in
  let builtin :=
    match s with
    | c :: s1 =>
      if in_set builtin_variable_spec c then
        if peek_is s1 58 || peek_is s1 41 || peek_is s1 125 then Some s1 else None
      else None
    | [] => None
    end in
  match builtin with
  | Some s1 => Ok (since mark s1, s1)
  | None => (* lexer.Reset(mark) *)
    let s1 := skip_byte_opt 46 s in
    s2 <- loop (bytes_or_expr varbase_spec) s1 ;;
    match skip_byte 46 s2 with
    | Some s3 =>
      s4 <- loop (bytes_or_expr varparam_spec) s3 ;;
      Ok (since mark s4, s4)
    | None =>
      if has_prefix str_SITES_ (since mark s2) then
        s4 <- loop (bytes_or_expr varparam_spec) s2 ;;
        Ok (since mark s4, s4)
      else Ok (since mark s2, s2)
    end
  end.

(* exprText(closing): for p.Expr() != nil || lexer.SkipRegexp(re) { } *)
Definition expr_text (closing : N) (s : str) : res (str * str) :=
  r <- loop (orelse E (st_opt (re_text closing))) s ;;
  Ok (since s r, r).

(* exprModifierSysV(closing): the second result (the text without expressions)
   only feeds a diagnostic and is left out *)
Definition expr_modifier_sysv (closing : N) (s : str) : res (str * str) :=
  r <- loop (orelse E (st_opt (re_sysv closing))) s ;;
  Ok (since s r, r).

(* exprModifierTs(mod, closing, lexer, varname, mark); the lexer is at s *)
Definition expr_modifier_ts (md : str) (closing : N) (mark s : str) : res (str * str) :=
  '(t, s1) <- expr_text closing s ;;
  md2 <- skip 2 md ;;                       (* mod[2:] *)
  let sep := md2 ++ t in
  let s2 := match sep with
            | [] => match skip_string [58] s1 with Some r => r | None => s1 end
            | _ => s1
            end in
  Ok (since mark s2, s2).

(* the loop of exprModifierMatch: (seenBackslash, rest) *)
Fixpoint match_loop (opening closing : N) (nest : Z) (seen : bool) (s : str) : bool * str :=
  match s with
  | [] => (seen, [])
  | ch :: t =>
    if (ch =? 58) && (nest =? 1)%Z then (seen, s)
    else if ch =? 92 then
      match t with
      | d :: t' =>
        if (d =? 58) || (d =? opening) || (d =? closing)
        then match_loop opening closing nest true t'
        else match_loop opening closing nest true t
      | [] => (true, [])
      end
    else if (ch =? 40) || (ch =? 123) then match_loop opening closing (nest + 1) seen t
    else if (ch =? 41) || (ch =? 125) then
      if (nest - 1 =? 0)%Z then (seen, s)
      else match_loop opening closing (nest - 1) seen t
    else match_loop opening closing nest seen t
  end.

(* replaceAll(arg, `\\([:}])`, "$1") resp. `\\([:)])` *)
Fixpoint unescape_match (closing : N) (s : str) : str :=
  match s with
  | [] => []
  | c :: t =>
    match t with
    | d :: t' =>
      if (c =? 92) && ((d =? 58) || (d =? closing)) then d :: unescape_match closing t'
      else c :: unescape_match closing t
    | [] => [c]
    end
  end.

(* exprModifierMatch(closing) *)
Definition expr_modifier_match (closing : N) (s : str) : res (str * str) :=
  let mark := s in
  s1 <- skip 1 s ;;
  let opening := if closing =? 125 then 123 else 40 in
  let '(seen, r) := match_loop opening closing 1%Z false s1 in
  let arg := since mark r in
  Ok (if seen then unescape_match closing arg else arg, r).

(* skipOther of exprModifierSubst *)
Definition is_other (sep : N) (b : N) : bool :=
  negb (b =? sep) && negb (b =? 36) && negb (b =? 92).

Definition skip_other_step (sep : N) : step := fun s =>
  let stop := match s with
              | c :: d :: _ => (c =? 36) && (d =? sep)
              | _ => false
              end in
  if stop then Ok None
  else
    orelse E
     (orelse (st_string [36; 36])
      (orelse (fun s => if (2 <=? length s)%nat && peek_is s 92 && negb (sep =? 92)
                        then r <- skip 2 s ;; Ok (Some r) else Ok None)
       (st_bytes (is_other sep)))) s.

Definition skip_other (sep : N) (s : str) : res str := loop (skip_other_step sep) s.

Definition is_subst_option (b : N) : bool := (b =? 49) || (b =? 103) || (b =? 87).

(* exprModifierSubst(closing): (ok, rest) *)
Definition expr_modifier_subst (closing : N) (s : str) : res (bool * str) :=
  let after_cs :=
    match skip_byte 67 s with
    | Some r => Some r
    | None => skip_byte 83 s
    end in
  match after_cs with
  | None => Ok (false, s)
  | Some s1 =>
    match s1 with
    | [] => Ok (false, s1)
    | sep :: s2 =>
      if sep =? closing then Ok (false, s1)
      else (* lexer.Skip(1) *)
        let s3 := skip_byte_opt 94 s2 in
        s4 <- skip_other sep s3 ;;
        let s5 := skip_byte_opt 36 s4 in
        match skip_byte sep s5 with
        | None => Ok (false, s5)
        | Some s6 =>
          s7 <- skip_other sep s6 ;;
          match skip_byte sep s7 with
          | None => Ok (false, s7)
          | Some s8 => Ok (true, snd (next_bytes is_subst_option s8))
          end
        end
    end
  end.

(* exprModifierAt: (ok, rest); the lexer is at the '@' *)
Definition expr_modifier_at (s : str) : res (bool * str) :=
  s1 <- skip 1 s ;;
  let '(loop_var, s2) := next_bytes (in_set alnum_dot_spec) s1 in
  match loop_var with
  | [] => Ok (false, s2)
  | _ =>
    match skip_byte 64 s2 with
    | None => Ok (false, s2)
    | Some s3 =>
      s4 <- loop (orelse E (orelse (st_string [36; 36]) (st_opt re_at))) s3 ;;
      Ok (true, skip_byte_opt 64 s4)
    end
  end.

(* isEscapedModifierPart(end, subst) *)
Definition is_escaped_modifier_part (end_ : N) (subst : bool) (s : str) : bool :=
  match s with
  | c :: d :: _ =>
    if c =? 92 then
      if (d =? end_) || (d =? 92) || (d =? 36) then true
      else (d =? 38) && subst
    else false
  | _ => false
  end.

(* the loop of parseModifierPart; b is the Go variable `b` *)
Fixpoint pmp_loop (end1 end2 : N) (subst : bool) (fuel : nat) (b : N) (s : str) : res (N * str) :=
  match fuel with
  | O => OutOfFuel
  | S f =>
    match s with
    | [] => Ok (b, s)
    | c :: t =>
      if (c =? end1) || (c =? end2) then Ok (c, s)
      else if is_escaped_modifier_part end2 subst s then
        s' <- skip 2 s ;; pmp_loop end1 end2 subst f c s'
      else if negb (c =? 36) then pmp_loop end1 end2 subst f c t
      else if (2 <=? length s)%nat && peek_is t end2 then pmp_loop end1 end2 subst f c t
      else
        r <- E s ;;
        match r with
        | Some s' => pmp_loop end1 end2 subst f c s'
        | None =>
          match skip_string [36; 36] s with
          | Some s' => pmp_loop end1 end2 subst f c s'
          | None => pmp_loop end1 end2 subst f c t   (* a lonely dollar: Skip(1) *)
          end
        end
    end
  end.

(* parseModifierPart(end1, end2, subst): (ok, rest) *)
Definition parse_modifier_part (end1 end2 : N) (subst : bool) (s : str) : res (bool * str) :=
  '(b, s1) <- pmp_loop end1 end2 subst (S (length s)) 0 s ;;
  if negb (b =? end1) && negb (b =? end2) then Ok (false, s1)
  else if end1 =? end2 then s2 <- skip 1 s1 ;; Ok (true, s2)
  else Ok (true, s1).

(* the modifiers that consist of their name only *)
Definition simple_modifiers : list str :=
  [ [69]; [72]; [76]; [79]; [79; 120]; [81]; [82]; [84]; [115; 104]; [116; 65];
    [116; 87]; [116; 108]; [116; 117]; [116; 119]; [117] ].

(* the part of exprModifier after the switch:  ${SOURCES:%.c=%.o}, an indirect
   modifier ${VAR:${M_indirect}}, :!cmd!  -- every attempt starts at mark *)
Definition expr_modifier_tail (closing : N) (mark : str) : res (str * str) :=
  '(modifier, s1) <- expr_modifier_sysv closing mark ;;
  if contains_byte 61 modifier then Ok (modifier, s1)
  else
    ind <- E mark ;;
    let indirect :=
      match ind with
      | Some s2 => if peek_is s2 58 || peek_is s2 closing then Some s2 else None
      | None => None
      end in
    match indirect with
    | Some s2 => Ok (since mark s2, s2)
    | None =>
      '(modifier2, s3) <- expr_text closing mark ;;
      if has_prefix [33] modifier2 && has_suffix [33] modifier2 then Ok (modifier2, s3)
      else Ok ([], s3)
    end.

(* exprModifier(varname, closing): (modifier text, rest); the lexer is after the colon *)
Definition expr_modifier (vname : str) (closing : N) (s : str) : res (str * str) :=
  let mark := s in
  let tail := expr_modifier_tail closing mark in
  match s with
  | [] => tail
  | c :: _ =>
    if existsb (N.eqb c) [69; 72; 76; 79; 81; 82; 84; 115; 116; 117] then
      let '(md, s1) := next_bytes (in_set alnum_spec) s in
      if existsb (str_eqb md) simple_modifiers then Ok (md, s1)
      else if has_prefix [116; 115] md then expr_modifier_ts md closing mark s1
      else tail
    else if (c =? 68) || (c =? 85) then expr_text closing s
    else if (c =? 77) || (c =? 78) then expr_modifier_match closing s
    else if (c =? 67) || (c =? 83) then
      '(ok, s1) <- expr_modifier_subst closing s ;;
      if ok then Ok (since mark s1, s1) else tail
    else if c =? 33 then
      s1 <- skip 1 s ;;
      '(ok, s2) <- parse_modifier_part 33 33 false s1 ;;
      if ok then Ok (since mark s2, s2) else Ok ([], s2)
    else if c =? 64 then
      '(ok, s1) <- expr_modifier_at s ;;
      if ok then Ok (since mark s1, s1) else tail
    else if c =? 91 then
      match re_index s with
      | Some s1 => Ok (since mark s1, s1)
      | None => tail
      end
    else if c =? 63 then
      s1 <- skip 1 s ;;
      '(_, s2) <- expr_text closing s1 ;;
      match skip_byte 58 s2 with
      | Some s3 => '(_, s4) <- expr_text closing s3 ;; Ok (since mark s4, s4)
      | None => tail
      end
    else if c =? 58 then
      s1 <- skip 1 s ;;
      match re_assign_op s1 with
      | None => tail
      | Some s2 =>
        match vname with
        | [] => tail
        | _ => '(_, s3) <- expr_text closing s2 ;; Ok (since mark s3, s3)
        end
      end
    else tail
  end.

(* ExprModifiers(varname, closing): (modifiers, rest) *)
Fixpoint expr_modifiers_loop (vname : str) (closing : N) (fuel : nat) (may_omit_colon : bool)
    (s : str) : res (list str * str) :=
  match fuel with
  | O => OutOfFuel
  | S f =>
    let body (s1 : str) :=
      '(modifier, s2) <- expr_modifier vname closing s1 ;;
      let may := match modifier with
                 | c :: _ => (c =? 83) || (c =? 67)
                 | [] => false
                 end in
      '(mods, s3) <- expr_modifiers_loop vname closing f may s2 ;;
      Ok (match modifier with [] => mods | _ => modifier :: mods end, s3) in
    match skip_byte 58 s with
    | Some s1 => body s1
    | None => if may_omit_colon then body s else Ok ([], s)
    end
  end.

Definition expr_modifiers (vname : str) (closing : N) (s : str) : res (list str * str) :=
  expr_modifiers_loop vname closing (2 * length s + 2) false s.

(* exprBrace(usingRoundParen); the lexer is at the '$' *)
Definition expr_brace (round : bool) (s : str) : res (option str) :=
  s1 <- skip 2 s ;;
  let closing := if round then 41 else 125 in
  let before_varname := s1 in
  '(_, s2) <- varname s1 ;;
  '(_, s3) <- expr_text closing s2 ;;
  let var_expr := since before_varname s3 in
  '(_, s4) <- expr_modifiers var_expr closing s3 ;;
  Ok (Some (skip_byte_opt closing s4)).

(* exprAlnum *)
Definition expr_alnum (s : str) : res (option str) :=
  match s with
  | [] => Panic                                   (* lexer.Rest()[1:] *)
  | _ :: t =>
    match fst (next_bytes (in_set alnum_u_spec) t) with
    | [] => Ok None
    | _ => r <- skip 2 s ;; Ok (Some r)
    end
  end.

(* the body of Expr, with the recursive calls going to E *)
Definition expr_body (s : str) : res (option str) :=
  match s with
  | c0 :: c :: _ =>
    if negb (c0 =? 36) then Ok None
    else if (c =? 123) || (c =? 40) then expr_brace (c =? 40) s
    else if c =? 36 then Ok None
    else if existsb (N.eqb c) [62; 33; 60; 37; 63; 42; 64] then
      r <- skip 2 s ;; Ok (Some r)
    else
      a <- expr_alnum s ;;
      match a with
      | Some r => Ok (Some r)
      | None => r <- skip 2 s ;; Ok (Some r)
      end
  | _ => Ok None
  end.

(* MkToken: (text, is an expression, rest) or nil *)
Definition mk_token (s : str) : res (option (str * bool * str)) :=
  let mark := s in
  e <- E s ;;
  match e with
  | Some s1 => Ok (Some (since mark s1, true, s1))
  | None =>
    s1 <- loop (orelse (st_bytes (fun b => negb (b =? 36))) (st_string [36; 36])) s ;;
    match since mark s1 with
    | [] => Ok None
    | text => Ok (Some (text, false, s1))
    end
  end.

(* MkTokens: (tokens, rest) *)
Fixpoint mk_tokens_loop (fuel : nat) (s : str) : res (list (str * bool) * str) :=
  match fuel with
  | O => OutOfFuel
  | S f =>
    match s with
    | [] => Ok ([], s)
    | _ =>
      t <- mk_token s ;;
      match t with
      | None => Ok ([], s)
      | Some (text, is_expr, s1) =>
        '(toks, rest) <- mk_tokens_loop f s1 ;;
        Ok ((text, is_expr) :: toks, rest)
      end
    end
  end.

End WithExpr.

(* Expr: the knot.  fuel bounds the nesting depth of expressions. *)
Fixpoint expr (fuel : nat) (s : str) : res (option str) :=
  match fuel with
  | O => OutOfFuel
  | S f => expr_body (expr f) s
  end.

(* p.Expr() on a lexer whose rest is s: a nested expression starts at least two
   bytes further in, so |s| levels are more than enough (expr_total) *)
Definition Expr (s : str) : res (option str) := expr (S (length s)) s.

Definition Varname (s : str) : res (str * str) := varname Expr s.

Definition MkTokens (s : str) : res (list (str * bool) * str) :=
  mk_tokens_loop Expr (S (length s)) s.
