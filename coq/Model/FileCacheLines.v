(* The file cache run with the REAL line conversion: Model/FileCache.v leaves
   convertToLogicalLines as a parameter; here it is instantiated with the model of
   files.go:convertToLogicalLines (Model/Lines.v, property C09), so that what a
   Load returns depends on the `Makefile` bit of the REQUESTED LoadOptions:
     Load(f, o) with o&Makefile != 0  -> backslash continuation lines are joined,
     Load(f, o) with o&Makefile == 0  -> one logical line per physical line.
   Also: a VARIANT of FileCache.Get / Load whose hit condition is
   `entry.options&options == options` (a cached entry serves every request with a
   subset of its options) -- NOT what the Go code does; Props/C20.v refutes its
   transparency.  No proofs here. *)
From PV Require Import Lib.Bytes Model.FileCache.
From PV Require Model.Lines.
Open Scope N_scope.

Definition lval_of_line (l : Model.Lines.line) : lval :=
  (Model.Lines.lineno l, Model.Lines.text l, Model.Lines.raws l).

(* convertToLogicalLines(filename, rawText, options&Makefile != 0).  The two
   non-Ok results of the C09 model (index panic, fuel) never occur
   (C09_convert_total); the theorems of Props/C20.v state the Ok case explicitly. *)
Definition convert_lines (raw : str) (o : N) : list lval :=
  match Model.Lines.convert_to_logical_lines raw (has_opt o Makefile) with
  | Model.Lines.Ok (ls, _) => map lval_of_line ls
  | _ => []
  end.

(* ---------- the variant: options matched as "superset" ---------- *)

Definition get_superset (c : cache) (h : heap) (fn : fname) (o : N) : cache * heap * option (list nat) :=
  match map_get (key fn) (c_map c) with
  | Some eid =>
    let e := entry_at (c_store c) eid in
    if N.land (e_opts e) o =? o then
      let e' := mkEntry (e_count e + 1) (e_key e) (e_opts e) (e_lines e) in
      let fresh := map (fun a => let l := line_at h a in
                                 mkLine fn (ln_lineno l) (ln_text l) (ln_raw l) None)
                       (e_lines e) in
      (mkCache (upd eid e' (c_store c)) (c_table c) (c_map c) (c_cap c) (c_hits c + 1) (c_misses c),
       h ++ fresh,
       Some (seq (length h) (length fresh)))
    else
      (mkCache (c_store c) (c_table c) (c_map c) (c_cap c) (c_hits c) (c_misses c + 1), h, None)
  | None =>
    (mkCache (c_store c) (c_table c) (c_map c) (c_cap c) (c_hits c) (c_misses c + 1), h, None)
  end.

(* files.go: Load, with get_superset in the place of get; otherwise identical *)
Definition load_superset (convert : str -> N -> list lval) (is_mk : N -> bool)
           (s : state) (fn : fname) (o : N) : res (state * option nat) :=
  let '(c1, h1, r) := get_superset (st_cache s) (st_heap s) fn o in
  match r with
  | Some addrs =>
    Ok (mkState c1 h1 (st_views s ++ [(fn, addrs)]) (st_disk s) (st_pending s),
        Some (length (st_views s)))
  | None =>
    match map_get (key fn) (st_disk s) with
    | None =>
      if has_opt o MustSucceed then Stop Fatal
      else Ok (mkState c1 h1 (st_views s) (st_disk s) (st_pending s), None)
    | Some raw =>
      if FileCache.is_empty raw && has_opt o NotEmpty then
        if has_opt o MustSucceed then Stop Fatal
        else Ok (mkState c1 h1 (st_views s) (st_disk s) (st_pending s), None)
      else
        let vals := convert raw o in
        let addrs := seq (length h1) (length vals) in
        let h2 := h1 ++ map (new_line fn) vals in
        bind (if is_mk (key fn) then put c1 (key fn) o addrs else Ok c1)
          (fun c2 =>
             Ok (mkState c2 h2 (st_views s ++ [(fn, addrs)]) (st_disk s) (st_pending s),
                 Some (length (st_views s))))
    end
  end.
