(* Model of what feeds MkCondSimplifier.isDefined while pkglint reads a makefile
   fragment line by line (the ':U' decision of the rewrites, property C14):

     util.go      LoadsPrefs (path.Base, Path.ContainsPath with a plain component)
     tools.go     Tools.ParseToolLine, case mkline.IsInclude(): SeenPrefs
     mklines.go   ForEachEnd (SeenPrefs := false, Indentation), checkAll (hacks.mk:
                  SeenPrefs := true before every line), checkLine
                  (checkAllData.vars.Define unless Indentation.IsConditional())
     mkline.go    Indentation.TrackBefore / TrackAfter (push, pop), IsConditional

   The name table of LoadsPrefs and its directory are regenerated from the source
   (Gen/CondSimpSets.v: loads_prefs_names, loads_prefs_dir).  No proofs here. *)
From PV Require Import Lib.Bytes Gen.CondSimpSets Spec.BmakeCond Spec.PrefsFile Model.CondSimp.
Open Scope N_scope.

(* ---------- path.Base (Go standard library), as used by Path.Base ---------- *)

(* for len(path) > 0 && path[len(path)-1] == '/' { path = path[:len(path)-1] } *)
Fixpoint strip_trailing_slashes (s : str) : str :=
  match s with
  | [] => []
  | c :: r =>
    match strip_trailing_slashes r with
    | [] => if c =? 47 then [] else [c]
    | r' => c :: r'
    end
  end.

(* if i := strings.LastIndex(path, "/"); i >= 0 { path = path[i+1:] } *)
Fixpoint after_last_slash (s : str) : str :=
  match s with
  | [] => []
  | c :: r =>
    if existsb (N.eqb 47) r then after_last_slash r
    else if c =? 47 then r else c :: r
  end.

Definition path_base (p : str) : str :=
  match p with
  | [] => [46]                                    (* "" -> "." *)
  | _ =>
    match after_last_slash (strip_trailing_slashes p) with
    | [] => [47]                                  (* only slashes -> "/" *)
    | b => b
    end
  end.

(* ---------- Path.ContainsPath(sub) for a sub without '.' and '/' ----------
   for i := 0; i <= len(p); i++ {
       atComponent := i == 0 || p[i-1] == '/' && (i == len(p) || p[i] != '/')
       if atComponent && p[i:].HasPrefixPath(sub) { return true } }
   HasPrefixPath's first case: hasPrefix(p, sub) && (len(p) == len(sub) || p[len(sub)] == '/');
   its general case compares the first component of p.Parts() with sub, which
   says the same for such a sub at a component start. *)
Definition has_prefix_path (sub p : str) : bool :=
  match strip_prefix sub p with
  | Some [] => true
  | Some (c :: _) => c =? 47
  | None => false
  end.

Definition starts_with_slash (s : str) : bool :=
  match s with c :: _ => c =? 47 | [] => false end.

Fixpoint contains_path_from (at_component : bool) (sub p : str) : bool :=
  (at_component && has_prefix_path sub p)
  || match p with
     | [] => false
     | c :: r => contains_path_from ((c =? 47) && negb (starts_with_slash r)) sub r
     end.

Definition contains_path (sub p : str) : bool := contains_path_from true sub p.

(* ---------- util.go LoadsPrefs ---------- *)
Definition loads_prefs (p : str) : bool :=
  existsb (str_eqb (path_base p)) loads_prefs_names || contains_path loads_prefs_dir p.

(* the lines of a fragment ([fline]: FInclude path | FAssign v | FOpen guard | FClose |
   FUndef v | FOther) are the syntax shared with Spec/PrefsFile.v *)

Record fstate := mkfstate {
  fs_seen_prefs : bool;       (* MkLines.Tools.SeenPrefs *)
  fs_defined : list str;      (* MkLines.checkAllData.vars, exact names *)
  fs_levels : list bool       (* Indentation.levels: the guard flag of each open level *)
}.

(* Indentation.IsConditional *)
Definition is_conditional (st : fstate) : bool := existsb negb (fs_levels st).

(* one line through TrackBefore, checkLine (ParseToolLine, vars.Define), TrackAfter *)
Definition scan_line (st : fstate) (l : fline) : fstate :=
  match l with
  | FInclude p =>
    if loads_prefs p then mkfstate true (fs_defined st) (fs_levels st) else st
  | FAssign v =>
    if is_conditional st then st else mkfstate (fs_seen_prefs st) (v :: fs_defined st) (fs_levels st)
  | FOpen g => mkfstate (fs_seen_prefs st) (fs_defined st) (g :: fs_levels st)
  | FClose => mkfstate (fs_seen_prefs st) (fs_defined st) (tl (fs_levels st))
  | FUndef _ => st            (* checkDirective only comments on .undef; vars keeps the name *)
  | FOther => st
  end.

(* ForEachEnd: SeenPrefs := false; checkAll sets it in every line of a hacks.mk *)
Definition init_state (hacks : bool) : fstate := mkfstate hacks [] [].

Definition scan (st : fstate) (ls : list fline) : fstate := fold_left scan_line ls st.

(* ---------- the context MkCondChecker sees at a line ---------- *)

(* vars.IsDefined(varname) *)
Definition in_file (st : fstate) (v : str) : bool := existsb (str_eqb v) (fs_defined st).

(* the declaration of a variable (vardefs) plus what the file has shown so far *)
Definition with_in_file (vi : varinfo) (b : bool) : varinfo :=
  mkvarinfo (vi_typed vi) (vi_bt_unknown vi) (vi_list vi) (vi_always_in_scope vi)
            (vi_defined_if_in_scope vi) b (vi_use_loadtime vi) (vi_nonempty_if_defined vi).

Definition file_ctx (decl : str -> varinfo) (mmn : str -> mmn) (st : fstate) : ctx :=
  mkctx (fun v => with_in_file (decl v) (in_file st v)) (fs_seen_prefs st) mmn.

(* MkCondChecker.Check on the condition of a line that follows the lines [pre] *)
Definition check_file_line (decl : str -> varinfo) (mmn : str -> mmn) (hacks : bool)
    (pre : list fline) (line : str) (c : mkcond) : str * list rewrite :=
  check_line (file_ctx decl mmn (scan (init_state hacks) pre)) line c.
