(* Model of /repo/v23/path.go (Parts, Dir, IsAbs, HasPrefixPath, ContainsPath,
   HasSuffixPath, Clean, CleanDot, CleanPath, Rel, JoinNoClean), of
   Pkglint.Abs (pkglint.go) and of Pkgsrc.Relpath (pkgsrc.go), as the code is
   after the fix: commits 514c6db and 9dfe426 and the four C19 repairs of path.go
   (root spellings in CleanDot/CleanPath, "./" as a prefix, ContainsPath tries every
   component start, HasSuffixPath compares parts).

   One Gallina definition per Go function, same case order.  Go's library
   functions path.Clean and filepath.Rel (Unix) are written out as explicit
   functions on the list of slash-separated elements (`clean`, `rel_go`); they
   are corresponded against the Go standard library itself on every run.

   Strings are byte lists.  A Go panic (assert, assertNil) is the explicit
   result `Panic`; an endless loop is `Hang`.  No proofs here. *)
From PV Require Import Lib.Bytes.
Open Scope N_scope.

Definition slash : N := 47.
Definition dot : N := 46.
Definition colon : N := 58.
Definition dotstr : str := [46].
Definition dotdot : str := [46; 46].

Definition is_empty (s : str) : bool := match s with [] => true | _ => false end.

(* strings.Split(s, "/"): never empty; "" gives [""] *)
Fixpoint split_slash (s : str) : list str :=
  match s with
  | [] => [[]]
  | c :: s' =>
    if c =? slash then [] :: split_slash s'
    else match split_slash s' with
         | h :: t => (c :: h) :: t
         | [] => [[c]]
         end
  end.

(* strings.Join(l, "/") *)
Fixpoint join_slash (l : list str) : str :=
  match l with
  | [] => []
  | [x] => x
  | x :: t => x ++ slash :: join_slash t
  end.

(* ---------- Path.IsAbs ---------- *)
Definition is_abs (p : str) : bool :=
  match p with
  | [] => false
  | c0 :: r =>
    (c0 =? slash) ||
    match r with
    | c1 :: c2 :: _ => (c1 =? colon) && (c2 =? slash)
    | _ => false
    end
  end.

(* ---------- Path.Parts ---------- *)
(* the loop: keep part i iff (i == 0 || part != "") && part != "." *)
Fixpoint parts_keep (first : bool) (l : list str) : list str :=
  match l with
  | [] => []
  | x :: t =>
    if (first || negb (is_empty x)) && negb (str_eqb x dotstr)
    then x :: parts_keep false t else parts_keep false t
  end.

Definition parts (p : str) : list str :=
  match p with
  | [] => []                               (* p.IsEmpty() -> nil *)
  | _ => match parts_keep true (split_slash p) with
         | [] => [dotstr]
         | l => l
         end
  end.

(* ---------- Path.Dir ---------- *)
(* both loops walk `end` down from len(s); the model walks the reversed string,
   whose length is `end`. *)
Fixpoint dir_skip_base (r : str) : str :=         (* for end > 0 && s[end-1] != '/' *)
  match r with
  | [] => []
  | c :: r' => if c =? slash then r else dir_skip_base r'
  end.

Fixpoint dir_trim (r : str) : str :=
  (* for end > 1 && s[end-1] == '/' || end > 2 && hasPrefix(s[end-2:], "/.") *)
  match r with
  | c1 :: ((c2 :: r2) as r') =>
    if (c1 =? slash) then dir_trim r'
    else match r2 with
         | _ :: _ => if (c2 =? slash) && (c1 =? dot) then dir_trim r' else r
         | [] => r
         end
  | _ => r
  end.

Definition dir (p : str) : str :=
  match dir_trim (dir_skip_base (rev p)) with
  | [] => dotstr
  | r => rev r
  end.

(* ---------- Path.HasPrefixPath ---------- *)
Definition dot_or_slash (c : N) : bool := (c =? dot) || (c =? slash).

(* the text shortcut: hasPrefix(p, prefix) && (len(p) == len(prefix) || p[len(prefix)] == '/') *)
Definition text_prefix (p prefix : str) : bool :=
  match strip_prefix prefix p with
  | Some [] => true
  | Some (c :: _) => c =? slash
  | None => false
  end.

(* the quick-reject loop; true = "return false" was reached *)
Fixpoint quick_reject (p prefix : str) : bool :=
  match p with
  | [] => false                                            (* si >= len(p): break *)
  | c :: p' =>
    if dot_or_slash c then quick_reject p' prefix
    else (fix skipq (q : str) : bool :=
            match q with
            | [] => false                                  (* pi >= len(prefix): break *)
            | d :: q' =>
              if dot_or_slash d then skipq q'
              else if c =? d then quick_reject p' q' else true
            end) prefix
  end.

(* the final loop over the parts *)
Fixpoint parts_prefix (prefixParts ps : list str) : bool :=
  match prefixParts with
  | [] => true
  | x :: pt =>
    match ps with
    | [] => false                                          (* len(prefixParts) > len(parts) *)
    | y :: t => str_eqb y x && parts_prefix pt t
    end
  end.

(* len(parts) == 1 && parts[0] == "." *)
Definition is_dot_parts (ps : list str) : bool :=
  match ps with [x] => str_eqb x dotstr | _ => false end.

Definition has_prefix_path (p prefix : str) : bool :=
  if text_prefix p prefix then true
  else if is_empty prefix then false
  else if str_eqb prefix dotstr then negb (is_abs p)
  else if quick_reject p prefix then false
  else if is_dot_parts (parts prefix) then negb (is_abs p)    (* "./" and "./." mean "." *)
  else parts_prefix (parts prefix) (parts p).

(* ---------- Path.ContainsPath ---------- *)
(* for i := 0; i <= len(p); i++: rest = p[i:], prev = p[i-1], first = (i == 0);
   atComponent := i == 0 || p[i-1] == '/' && (i == len(p) || p[i] != '/') *)
Fixpoint contains_loop (first : bool) (prev : N) (rest sub : str) : bool :=
  let at_component :=
    first || ((prev =? slash) && match rest with [] => true | c :: _ => negb (c =? slash) end) in
  if at_component && has_prefix_path rest sub then true
  else match rest with
       | [] => false                    (* i = len(p) was the last index *)
       | c :: r => contains_loop false c r sub
       end.

Definition contains_path (p sub : str) : bool :=
  contains_loop true 0 p sub || str_eqb sub dotstr.

(* ---------- Path.HasSuffixPath ---------- *)
Definition starts_slash (s : str) : bool :=
  match s with c :: _ => c =? slash | [] => false end.

(* hasSuffix(p, suffix) && (len(p) == len(suffix) || p[len(p)-len(suffix)-1] == '/' && suffix[0] != '/') *)
Definition text_suffix (p suffix : str) : bool :=
  match strip_prefix (rev suffix) (rev p) with
  | Some [] => true
  | Some (c :: _) => (c =? slash) && negb (starts_slash suffix)
  | None => false
  end.

Definition has_suffix_path (p suffix : str) : bool :=
  if is_empty p || is_empty suffix then str_eqb p suffix
  else if text_suffix p suffix then true
  else
    let ps := parts p in
    let ss := parts suffix in
    if is_dot_parts ss then false
    else if (length ps <? length ss)%nat then false
    else parts_prefix ss (skipn (length ps - length ss) ps).   (* parts[offset+i] != suffixPart *)

(* ---------- path.Clean (Go standard library) ---------- *)
(* State of the lazybuf, element-wise: dd = number of leading ".." elements
   written (the `dotdot` mark), real = the elements after them, last first. *)
Definition clean_step (rooted : bool) (st : nat * list str) (c : str) : nat * list str :=
  let (dd, real) := st in
  if is_empty c || str_eqb c dotstr then st            (* empty element, "." element *)
  else if str_eqb c dotdot then
    match real with
    | _ :: r => (dd, r)                                 (* out.w > dotdot: backtrack *)
    | [] => if rooted then st else (S dd, [])           (* !rooted: append ".." *)
    end
  else (dd, c :: real).                                 (* real path element *)

Definition clean (p : str) : str :=
  match p with
  | [] => dotstr
  | c0 :: _ =>
    let rooted := c0 =? slash in
    let (dd, real) := fold_left (clean_step rooted) (split_slash p) (O, []) in
    let elems := repeat dotdot dd ++ rev real in
    if rooted then slash :: join_slash elems
    else match elems with [] => dotstr | _ => join_slash elems end
  end.

(* ---------- Path.CleanDot ---------- *)
Fixpoint has_double_slash (p : str) : bool :=
  match p with
  | c1 :: ((c2 :: _) as p') => ((c1 =? slash) && (c2 =? slash)) || has_double_slash p'
  | _ => false
  end.

Definition clean_dot (p : str) : str :=
  if negb (existsb (N.eqb dot) p) && negb (has_double_slash p) then p
  else match parts p with
       | [[]] => [slash]                 (* a spelling of the root *)
       | ps => join_slash ps
       end.

(* ---------- Path.CleanPath ---------- *)
Definition is_dotdot (s : str) : bool := str_eqb s dotdot.

(* rest = parts[i:]; what is returned is the final parts[i:] *)
Fixpoint clean_path_loop (rest : list str) : list str :=
  match rest with
  | a :: ((b :: c :: d :: tl) as rest1) =>               (* i+3 < len(parts) *)
    if negb (is_dotdot a) && negb (is_dotdot b) && is_dotdot c && is_dotdot d
       && match tl with [] => true | e :: _ => negb (is_dotdot e) end
    then clean_path_loop tl                              (* parts = parts[:i] + parts[i+4:]; continue *)
    else a :: clean_path_loop rest1                      (* i++ *)
  | _ => rest
  end.

Definition clean_path (p : str) : str :=
  let ps := parts p in
  match firstn 2 ps ++ clean_path_loop (skipn 2 ps) with (* i starts at 2 *)
  | [] => dotstr
  | [[]] => [slash]
  | l => join_slash l
  end.

(* ---------- filepath.Rel (Go standard library, Unix) ---------- *)
Inductive relres := RelOk (s : str) | RelErr | RelHang.

(* the elements the scanning loop sees: a final empty element is the end of the string *)
Fixpoint drop_last_empty (l : list str) : list str :=
  match l with
  | [] => []
  | [x] => if is_empty x then [] else [x]
  | x :: t => x :: drop_last_empty t
  end.
Definition rel_elems (s : str) : list str := drop_last_empty (split_slash s).

(* "Position base[b0:bi] and targ[t0:ti] at the first differing elements";
   past its end a string yields empty elements. None = both ended: the Go loop
   would not terminate. *)
Fixpoint rel_strip (b t : list str) : option (list str * list str) :=
  match b with
  | [] => (fix go (t : list str) := match t with
                                    | [] => None
                                    | y :: t' => if is_empty y then go t' else Some ([], t)
                                    end) t
  | x :: b' =>
    match t with
    | [] => if is_empty x then rel_strip b' [] else Some (b, [])
    | y :: t' => if str_eqb x y then rel_strip b' t' else Some (b, t)
    end
  end.

Definition rel_go (basepath targpath : str) : relres :=
  let base := clean basepath in
  let targ := clean targpath in
  if str_eqb targ base then RelOk dotstr
  else
    let base := if str_eqb base dotstr then [] else base in
    if negb (Bool.eqb (starts_slash base) (starts_slash targ)) then RelErr
    else match rel_strip (rel_elems base) (rel_elems targ) with
         | None => RelHang
         | Some (b', t') =>
           if str_eqb (hd [] b') dotdot then RelErr
           else RelOk (join_slash (repeat dotdot (length b') ++ t'))
         end.

(* ---------- results of pkglint functions that can panic ---------- *)
Inductive res := Ok (s : str) | Panic | Hang.

(* NewRelPath: assert(!p.IsAbs()) *)
Definition new_rel_path (p : str) : res := if is_abs p then Panic else Ok p.

(* Path.Rel: assertNil(err); NewRelPath *)
Definition path_rel (p other : str) : res :=
  match rel_go p other with
  | RelOk r => new_rel_path r
  | RelErr => Panic
  | RelHang => Hang
  end.

(* Path.JoinNoClean *)
Definition join_no_clean (p s : str) : str := p ++ slash :: s.

(* Pkglint.Abs with G.cwd = cwd *)
Definition abs_path (cwd f : str) : str :=
  if negb (is_abs f) then clean (join_no_clean cwd f) else clean f.

(* ---------- Pkgsrc.Relpath ---------- *)
Definition bind (r : res) (k : str -> nat * res) : nat * res :=
  match r with Ok s => k s | Panic => (O, Panic) | Hang => (O, Hang) end.

Definition nth_str (l : list str) (i : nat) : str := nth i l [].

(* the result is tagged with the branch that produced it:
   1 cfrom == cto, 2 cto.HasPrefixPath(cfrom), 3 category/package -> ".",
   4 cfrom == ".", 5 one absolute path is a prefix of the other,
   6 same category/package, 7 up to topdir and down; 0 = a panic on the way *)
Definition relpath_b (cwd topdir from to : str) : nat * res :=
  let cfrom := clean from in
  let cto := clean to in
  if str_eqb cfrom cto then (1%nat, Ok dotstr)
  else if has_prefix_path cto cfrom then (2%nat, path_rel cfrom cto)
  else if str_eqb cto dotstr
          && (length (parts cfrom) =? 2)%nat
          && negb (str_eqb (nth_str (parts cfrom) 0) dotdot)
          && negb (is_abs cfrom)
       then (3%nat, Ok [46; 46; 47; 46; 46])
  else if str_eqb cfrom dotstr && negb (is_abs cto) then (4%nat, new_rel_path (clean cto))
  else
    let absFrom := abs_path cwd cfrom in
    let absTopdir := abs_path cwd topdir in
    let absTo := abs_path cwd cto in
    bind (path_rel absFrom absTopdir) (fun up =>
    bind (path_rel absTopdir absTo) (fun down =>
      if has_prefix_path absFrom absTo || has_prefix_path absTo absFrom
      then (5%nat, path_rel absFrom absTo)
      else
        bind (path_rel absTopdir absFrom) (fun topToFrom =>
          let fromParts := parts topToFrom in
          let toParts := parts down in
          if (2 <=? length fromParts)%nat && (2 <=? length toParts)%nat
             && str_eqb (nth_str fromParts 0) (nth_str toParts 0)
             && str_eqb (nth_str fromParts 1) (nth_str toParts 1)
          then
            let relParts := repeat dotdot (length fromParts - 2) ++ skipn 2 toParts in
            (6%nat, new_rel_path (clean_dot (join_slash relParts)))
          else
            (7%nat, new_rel_path (clean_dot (join_no_clean up down)))))).

Definition relpath (cwd topdir from to : str) : res := snd (relpath_b cwd topdir from to).

(* Line.Rel: G.Pkgsrc.Relpath(line.Filename().Dir(), other) *)
Definition line_rel (cwd topdir filename other : str) : res :=
  relpath cwd topdir (dir filename) other.
