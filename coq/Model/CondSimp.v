(* Model of /repo/v23/mkcondsimplifier.go (SimplifyExpr, simplifyWord,
   simplifyYesNo, simplifyMatch, isDefined), of MkCondChecker.Check's walk over
   the parsed condition and checkAnd (mkcondchecker.go), of
   MkExprModifier.MatchMatch / MkExpr.Mod / MkExpr.HasModifier (mktypes.go) and
   of Autofix.Replace's "exactly once" rule (autofix.go), as far as they decide
   WHICH rewrite is offered and what its from/to texts are.  This is the code
   after the repairs 01-05 of the C14 findings (docs/C14.md).

   One definition per Go function, same case order.  The texts are built the
   way the Go code builds them (sprintf of the same pieces).  Next to each text
   the model says what it means as a syntax tree of Spec/BmakeCond.v
   ([rw_from_c], [rw_to_c]); the theorems are about these trees, and the
   oracle checks on every case that the spec's own reader maps the text to the
   tree.  No proofs here.

   Inputs the model does not compute itself (observed from the real code by the
   harness): the variable's type facts ([varinfo]), Tools.SeenPrefs, and
   mayMatchNumber(pattern) (makepat.Intersect(...).CanMatch(), property C13's
   territory). *)
From PV Require Import Lib.Bytes Gen.CondSimpSets Spec.BmakeCond.
Open Scope N_scope.

Definition in_set (set : list N) (c : N) : bool := existsb (N.eqb c) set.

(* ---------- mktypes.go ---------- *)

(* MkExprModifier.MatchMatch: (ok, positive, pattern, exact) *)
Definition match_match (m : str) : bool * bool * str * bool :=
  match m with
  | c :: p =>
    if (c =? 77) || (c =? 78)
    then (true, c =? 77, p, negb (existsb (in_set match_special_set) p))
    else (false, false, [], false)
  | [] => (false, false, [], false)
  end.

(* MkExpr.Mod(): ":" + modifier, concatenated *)
Definition mods_text (ms : list str) : str := concat (map (fun m => 58 :: m) ms).

(* MkExpr.HasModifier(prefix) *)
Definition has_modifier (prefix : str) (ms : list str) : bool := existsb (has_prefix prefix) ms.

(* ---------- what the simplifier asks about the variable ---------- *)

Inductive ynu := Yes | No | Unknown.

Record varinfo := mkvarinfo {
  vi_typed : bool;               (* G.Pkgsrc.VariableType(...) != nil *)
  vi_bt_unknown : bool;          (* basicType == BtUnknown *)
  vi_list : bool;                (* options & List *)
  vi_always_in_scope : bool;
  vi_defined_if_in_scope : bool;
  vi_in_file : bool;             (* MkLines.checkAllData.vars.IsDefined(varname) *)
  vi_use_loadtime : bool;        (* Union().Contains(aclpUseLoadtime) *)
  vi_nonempty_if_defined : bool
}.

(* Vartype.IsList *)
Definition is_list (vi : varinfo) : ynu :=
  if negb (vi_typed vi) || vi_bt_unknown vi then Unknown
  else if vi_list vi then Yes else No.

(* MkCondSimplifier.isDefined *)
Definition is_defined (seen_prefs : bool) (vi : varinfo) : bool :=
  if vi_always_in_scope vi && vi_defined_if_in_scope vi then true
  else if vi_in_file vi then true
  else seen_prefs && vi_use_loadtime vi && vi_defined_if_in_scope vi.

(* mayMatchNumber(pattern): (true, err) | (false, nil) | (true, nil) *)
Inductive mmn := MmnErr | MmnNo | MmnYes.

Record ctx := mkctx {
  cx_var : str -> varinfo;
  cx_seen_prefs : bool;
  cx_mmn : str -> mmn
}.

(* ---------- a rewrite: fix.Replace(from, to) ---------- *)

Inductive rwkind := KWord | KYesNo | KMatch | KAnd.

Record rewrite := mkrw {
  rw_kind : rwkind;
  rw_from : str;
  rw_to : str;
  rw_from_c : option cond;   (* what the texts mean; None for checkAnd, whose *)
  rw_to_c : option cond      (* from-text is not a condition by itself        *)
}.

(* condStr(cond, a, b) *)
Definition cond_str (c : bool) (a b : str) : str := if c then a else b.

Definition s_bang : str := [33].
Definition s_empty_lp : str := [101; 109; 112; 116; 121; 40].
Definition s_dollar_lbrace : str := [36; 123].
Definition s_colon_M : str := [58; 77].
Definition s_colon_N : str := [58; 78].
Definition s_colon_U : str := [58; 85].
Definition s_colon_tl : str := [58; 116; 108].
Definition s_eq : str := [61; 61].
Definition s_ne : str := [33; 61].
Definition s_quote : str := [34].
Definition s_ne_empty : str := [32; 33; 61; 32; 34; 34].  (* ' != ""' *)
Definition s_defined_lp : str := [100; 101; 102; 105; 110; 101; 100; 40].
Definition s_rp_and : str := [41; 32; 38; 38; 32].        (* ') && ' *)
Definition s_U : str := [85].

(* the "from" text shared by simplifyWord and simplifyYesNo *)
Definition from_text (neg from_empty positive : bool) (varname prefix pattern : str) : str :=
  cond_str (negb (Bool.eqb neg from_empty)) [] s_bang
  ++ cond_str from_empty s_empty_lp s_dollar_lbrace
  ++ varname ++ prefix
  ++ cond_str positive s_colon_M s_colon_N
  ++ pattern
  ++ cond_str from_empty [41] [125].

(* ... and what it means *)
Definition from_cond (neg from_empty positive : bool) (varname : str) (prefix : list str)
    (pattern : str) : cond :=
  let ms := map classify_mod prefix ++ [if positive then ModM pattern else ModN pattern] in
  let atom := if from_empty then CEmpty varname ms else CLeaf (LExpr varname ms) in
  if negb (Bool.eqb neg from_empty) then atom else CNot atom.

(* regex ^[\d+\-.] : the pattern starts like a number *)
Definition numeric_head (p : str) : bool :=
  match p with c :: _ => in_set numeric_head_set c | [] => false end.

(* needsQuotes in simplifyWord.replace *)
Definition needs_quotes (pattern : str) : bool :=
  negb (forallb (in_set lit_unquoted_set) pattern)
  || match pattern with [] => true | _ => false end
  || numeric_head pattern.

(* ---------- simplifyWord ---------- *)
Definition simplify_word (cx : ctx) (varname : str) (mods : list str) (from_empty neg : bool)
    : list rewrite :=
  match mods with
  | [] => []
  | _ =>
    let prefix := removelast mods in
    let vi := cx_var cx varname in
    match is_list vi with
    | No =>
      let '(ok, positive, pattern, exact) := match_match (last mods []) in
      if negb ok || (negb positive && negb (Nat.eqb (length mods) 1)) || negb exact
         || match pattern with [] => true | _ => false end
      then []
      else if negb (forallb (in_set lit_pattern_set) pattern) then []
      else
        (* replace(positive, pattern) *)
        if numeric_head pattern && negb from_empty then []
        else
        let defined := is_defined (cx_seen_prefs cx) vi in
        if negb defined && negb positive then []
        else
          let add_u := negb defined && negb (has_modifier s_U mods) in
          let is_eq := Bool.eqb neg positive in
          let quoted := needs_quotes pattern in
          let quote := cond_str quoted s_quote [] in
          let from := from_text neg from_empty positive varname (mods_text prefix) pattern in
          let to := s_dollar_lbrace ++ varname ++ cond_str add_u s_colon_U [] ++ mods_text prefix
                    ++ [125; 32] ++ cond_str is_eq s_eq s_ne ++ [32] ++ quote ++ pattern ++ quote in
          let to_c := CCmp (LExpr varname ((if add_u then [ModU []] else []) ++ map classify_mod prefix))
                           is_eq (if quoted then LQuoted [PLit pattern] else LWord pattern) in
          [mkrw KWord from to (Some (from_cond neg from_empty positive varname prefix pattern)) (Some to_c)]
    | _ => []
    end
  end.

(* ---------- simplifyYesNo ---------- *)

(* toLower: "[yY][eE][sS]" or "[Yy][Ee][Ss]" -> "yes"; "" when the pattern has any other shape *)
Fixpoint yesno_lower (p : str) : option str :=
  match p with
  | [] => Some []
  | a :: r =>
    match r with
    | b :: c :: d :: r' =>
      if (a =? 91) && (d =? 93) then
        if is_upper b && (c =? b + 32) then option_map (cons c) (yesno_lower r')
        else if is_lower b && (c + 32 =? b) then option_map (cons b) (yesno_lower r')
        else None
      else None
    | _ => None
    end
  end.
Definition to_lower_pat (p : str) : str := match yesno_lower p with Some l => l | None => [] end.

(* the rewrites and whether the caller is done *)
Definition simplify_yesno (cx : ctx) (varname : str) (mods : list str) (from_empty neg : bool)
    : list rewrite * bool :=
  match mods with
  | [] => ([], false)
  | _ =>
    let prefix := removelast mods in
    let vi := cx_var cx varname in
    match is_list vi with
    | No =>
      let '(ok, positive, pattern, exact) := match_match (last mods []) in
      if negb ok || (negb positive && negb (Nat.eqb (length mods) 1)) || exact then ([], false)
      else
        let lower := to_lower_pat pattern in
        match lower with
        | [] => ([], false)
        | _ =>
          let defined := is_defined (cx_seen_prefs cx) vi in
          if negb positive && negb (defined && from_empty && vi_nonempty_if_defined vi) then ([], false)
          else
            let add_u := negb defined && negb (has_modifier s_U mods) in
            let is_eq := Bool.eqb neg positive in
            let from := from_text neg from_empty positive varname (mods_text prefix) pattern in
            let to := s_dollar_lbrace ++ varname ++ cond_str add_u s_colon_U [] ++ mods_text prefix
                      ++ s_colon_tl ++ [125; 32] ++ cond_str is_eq s_eq s_ne ++ [32] ++ lower in
            let to_c := CCmp (LExpr varname ((if add_u then [ModU []] else [])
                                             ++ map classify_mod prefix ++ [ModTl]))
                             is_eq (LWord lower) in
            ([mkrw KYesNo from to
                   (Some (from_cond neg from_empty positive varname prefix pattern)) (Some to_c)], true)
        end
    | _ => ([], false)
    end
  end.

(* ---------- simplifyMatch ---------- *)

(* regex ^[*+\-.:\w\[\]]+$ on expr.Mod() *)
Definition simple_mod_text (t : str) : bool :=
  match t with [] => false | _ => forallb (in_set simple_mod_set) t end.

Definition simplify_match (cx : ctx) (varname : str) (mods : list str) (from_empty neg : bool)
    : list rewrite :=
  match mods with
  | [] => []
  | _ =>
    let prefix := removelast mods in
    let vi := cx_var cx varname in
    let '(ok, positive, pattern, exact) := match_match (last mods []) in
    if negb ok || (negb positive && negb (Nat.eqb (length mods) 1)) then []
    else if negb from_empty then []
    else if negb positive then []
    else if exact then []
    else if negb (vi_typed vi) then []
    else if negb (is_defined (cx_seen_prefs cx) vi) then []
    else if negb (simple_mod_text (mods_text mods)) then []
    else
      match (match pattern with [] => MmnNo | _ => cx_mmn cx pattern end) with
      | MmnErr => []
      | m =>
        let may := match m with MmnYes => true | _ => false end in
        let fixed := varname ++ mods_text prefix ++ s_colon_M ++ pattern in
        let from := cond_str neg s_bang [] ++ s_empty_lp ++ fixed ++ [41] in
        let to := cond_str neg [] s_bang ++ s_dollar_lbrace ++ fixed ++ [125] ++ cond_str may s_ne_empty [] in
        let ms := map classify_mod prefix ++ [ModM pattern] in
        let from_c := (if neg then CNot (CEmpty varname ms) else CEmpty varname ms) in
        let inner := if may then CCmp (LExpr varname ms) false (LQuoted []) else CLeaf (LExpr varname ms) in
        let to_c := if neg then inner else CNot inner in
        [mkrw KMatch from to (Some from_c) (Some to_c)]
      end
  end.

(* ---------- autofix.go: Replace = "replace the only occurrence" ---------- *)

(* strings.Count: non-overlapping occurrences *)
Fixpoint count_sub (fuel : nat) (sub s : str) : nat :=
  match fuel with
  | O => 0%nat
  | S f =>
    match strip_prefix sub s with
    | Some r => S (count_sub f sub r)
    | None => match s with [] => 0%nat | _ :: s' => count_sub f sub s' end
    end
  end.
Definition count_str (sub s : str) : nat :=
  match sub with [] => S (length s) | _ => count_sub (S (length s)) sub s end.

Fixpoint replace_first (sub repl s : str) : option str :=
  match strip_prefix sub s with
  | Some r => Some (repl ++ r)
  | None => match s with
            | [] => None
            | c :: s' => option_map (cons c) (replace_first sub repl s')
            end
  end.

(* Autofix.Replace: nothing happens unless the text occurs exactly once *)
Definition autofix_replace (line from to : str) : option str :=
  if Nat.eqb (count_str from line) 1 then replace_first from to line else None.

(* the line after all fixes, and the fixes that were actually logged *)
Fixpoint apply_rewrites (line : str) (rws : list rewrite) : str * list rewrite :=
  match rws with
  | [] => (line, [])
  | rw :: rest =>
    match autofix_replace line (rw_from rw) (rw_to rw) with
    | Some line' => let (l, done) := apply_rewrites line' rest in (l, rw :: done)
    | None => apply_rewrites line rest
    end
  end.

(* ---------- SimplifyExpr ---------- *)
Definition expr_text (varname : str) (mods : list str) : str :=
  s_dollar_lbrace ++ varname ++ mods_text mods ++ [125].   (* MkExpr.String() *)

Definition simplify_expr (cx : ctx) (line : str) (varname : str) (mods : list str) (from_empty neg : bool)
    : list rewrite :=
  (* a quoted term "${VAR:Mpattern}": the replacement would land inside the quotes *)
  if negb from_empty && negb (Nat.eqb (count_str (34 :: expr_text varname mods ++ [34]) line) 0) then []
  else
  let (r1, done) := simplify_yesno cx varname mods from_empty neg in
  if done then r1
  else
    r1 ++ simplify_match cx varname mods from_empty neg
    ++ match is_list (cx_var cx varname) with
       | No => simplify_word cx varname mods from_empty neg
       | _ => []
       end.

(* ---------- MkCondChecker: the parsed condition and the walk ---------- *)

Inductive mkcond :=
| MOr (cs : list mkcond)
| MAnd (cs : list mkcond)
| MNot (c : mkcond)
| MParen (c : mkcond)
| MDefined (v : str)
| MEmpty (v : str) (ms : list str)
| MTerm (v : str) (ms : list str)   (* Term.Expr: ${V:mods} or "${V:mods}" *)
| MOther.                           (* Compare, Call, literal terms *)

(* checkAnd *)
Definition check_and (cs : list mkcond) : list rewrite :=
  match cs with
  | [MDefined d; MNot (MEmpty v ms)] =>
    if str_eqb d v && negb (match d with [] => true | _ => false end) && negb (has_modifier s_U ms)
    then [mkrw KAnd (s_defined_lp ++ d ++ s_rp_and) [] None None]
    else []
  | _ => []
  end.

(* Check: cond.Walk with the And / Not / Empty / Var callbacks; the "done" map
   makes the walk skip the operand of a '!' that checkNot has handled.  Every
   fix is applied to the line at once (autofix mode), later callbacks see the
   changed text: the result is the final line and the fixes that were logged. *)
Fixpoint walk (cx : ctx) (c : mkcond) (line : str) : str * list rewrite :=
  match c with
  | MOr cs =>
    (fix go (l : list mkcond) (line : str) : str * list rewrite :=
       match l with
       | [] => (line, [])
       | x :: r => let (l1, a1) := walk cx x line in let (l2, a2) := go r l1 in (l2, a1 ++ a2)
       end) cs line
  | MAnd cs =>
    let (l0, a0) := apply_rewrites line (check_and cs) in
    let (l3, a3) :=
      (fix go (l : list mkcond) (line : str) : str * list rewrite :=
         match l with
         | [] => (line, [])
         | x :: r => let (l1, a1) := walk cx x line in let (l2, a2) := go r l1 in (l2, a1 ++ a2)
         end) cs l0 in
    (l3, a0 ++ a3)
  | MNot c1 =>
    match c1 with
    | MEmpty v ms => apply_rewrites line (simplify_expr cx line v ms true true)
    | MTerm v ms => apply_rewrites line (simplify_expr cx line v ms false false)
    | _ => walk cx c1 line
    end
  | MParen c1 => walk cx c1 line
  | MDefined _ => (line, [])
  | MEmpty v ms => apply_rewrites line (simplify_expr cx line v ms true false)
  | MTerm v ms => apply_rewrites line (simplify_expr cx line v ms false true)
  | MOther => (line, [])
  end.

Definition check_line (cx : ctx) (line : str) (c : mkcond) : str * list rewrite := walk cx c line.
