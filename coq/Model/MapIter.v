(* Model of iteration over Go maps and of the helpers in util.go / scope.go /
   tools.go / histogram.go that make the result independent of it.

   A Go map with string keys is an association list with duplicate-free keys;
   ONE execution of `for k, v := range m` visits an ARBITRARY permutation of
   that list (the Go runtime picks a random start bucket and offset for every
   range statement).  Everything below takes the visiting order as an explicit
   argument [order]; the theorems in Proofs/MapIter.v quantify over all
   permutations.  No proofs in this file. *)
From PV Require Import Lib.Bytes.
Import ListNotations.
Open Scope N_scope.

(* ---- Go's `<` on strings: bytewise lexicographic (used by sort.Strings) ---- *)
Fixpoint str_cmp (a b : str) : comparison :=
  match a, b with
  | [], [] => Eq
  | [], _ :: _ => Lt
  | _ :: _, [] => Gt
  | x :: a', y :: b' =>
      match N.compare x y with
      | Eq => str_cmp a' b'
      | Lt => Lt
      | Gt => Gt
      end
  end.
Definition str_leb (a b : str) : bool :=
  match str_cmp a b with Gt => false | _ => true end.

(* ---- sorting: sort.Strings, sort.Slice(less), sort.SliceStable(less) ----
   Modelled by insertion sort over a boolean "less or equal".  For a total
   order every correct sorting algorithm returns the same list
   (Proofs: isort_perm_eq), so the choice of algorithm is immaterial there; for
   an order with ties insertion sort is one of the behaviours sort.Slice may
   show (it IS the algorithm Go uses below 12 elements). *)
Section Sort.
  Context {A : Type} (leb : A -> A -> bool).
  Fixpoint insert_by (x : A) (l : list A) : list A :=
    match l with
    | [] => [x]
    | y :: l' => if leb x y then x :: y :: l' else y :: insert_by x l'
    end.
  Fixpoint isort (l : list A) : list A :=
    match l with
    | [] => []
    | x :: l' => insert_by x (isort l')
    end.
End Sort.

Definition sort_strings (l : list str) : list str := isort str_leb l.

(* ---- maps ---- *)
Definition gomap (V : Type) := list (str * V).
Definition keys {V} (m : gomap V) : list str := map fst m.
Fixpoint lookup {V} (k : str) (m : gomap V) : option V :=
  match m with
  | [] => None
  | (k', v) :: m' => if str_eqb k k' then Some v else lookup k m'
  end.

(* util.go keysSorted: `for key := range m { keys = append(keys, key) }; sort.Strings(keys)` *)
Definition keys_sorted {V} (order : gomap V) : list str := sort_strings (keys order).

(* strings.Join(elems, " ") *)
Fixpoint join_sp (l : list str) : str :=
  match l with
  | [] => []
  | [x] => x
  | x :: l' => x ++ [32] ++ join_sp l'
  end.
(* util.go keysJoined *)
Definition keys_joined {V} (order : gomap V) : str := join_sp (keys_sorted order).

(* util.go forEachStringMkLine, scope.go Scope.forEach, tools.go Tools.Trace:
   collect the keys in iteration order, sort them, then call action(key, m[key]).
   The observable is the sequence of calls. *)
Definition for_each_sorted {V} (m order : gomap V) : list (str * option V) :=
  map (fun k => (k, lookup k m)) (keys_sorted order).

(* histogram.go PrintStats / changes.go checkRemovedAfterLastFreeze:
   collect the entries in iteration order, then sort.Slice by a key *)
Definition sort_by {A K} (key : A -> K) (kleb : K -> K -> bool) (order : list A) : list A :=
  isort (fun x y => kleb (key x) (key y)) order.

(* "commutative accumulation" loops: acc = step(acc, entry) for every entry *)
Definition range_fold {A B} (step : B -> A -> B) (init : B) (order : list A) : B :=
  fold_left step order init.

(* existence / universal tests: `for k := range m { if p(k) { return true } }; return false` *)
Definition range_exists {A} (p : A -> bool) (order : list A) : bool := existsb p order.
Definition range_forall {A} (p : A -> bool) (order : list A) : bool := forallb p order.

(* set insertion: `for k := range m { set[f(k)] = true }`; a set is its membership function *)
Definition set_add (k : str) (s : str -> bool) : str -> bool := fun x => str_eqb x k || s x.
Definition range_set_insert {A} (f : A -> str) (s0 : str -> bool) (order : list A) : str -> bool :=
  fold_left (fun s a => set_add (f a) s) order s0.

(* map copy: `for k, v := range m { c[k] = v }` (copyStringMkLine, loadPlistDirs);
   the destination is a lookup function *)
Definition map_put {V} (k : str) (v : V) (c : str -> option V) : str -> option V :=
  fun x => if str_eqb x k then Some v else c x.
Definition range_copy {V} (c0 : str -> option V) (order : gomap V) : str -> option V :=
  fold_left (fun c kv => map_put (fst kv) (snd kv) c) order c0.

(* urlchecker.go CheckFetchURL (after 37e2b2f): among the entries that match, keep the one
   with the largest measure; the best so far is replaced only by a strictly larger one:
     if !found || len(k) > len(best) { best, found = k, true } *)
Definition argmax_step {A} (p : A -> bool) (m : A -> N) (best : option A) (x : A) : option A :=
  if p x then
    match best with
    | None => Some x
    | Some b => if m b <? m x then Some x else Some b
    end
  else best.
Definition range_argmax {A} (p : A -> bool) (m : A -> N) (order : list A) : option A :=
  fold_left (argmax_step p m) order None.

(* ---- the order-dependent shapes (what must NOT be done) ---- *)
(* printing inside the loop: the output is the concatenation in visiting order *)
Definition range_print {A} (line : A -> str) (order : list A) : str := concat (map line order).
(* urlchecker.go CheckFetchURL: the first entry (in visiting order) that matches wins *)
Definition range_first {A} (p : A -> bool) (order : list A) : option A := find p order.
