(* Model of the goyacc driver loop, shyyParserImpl.Parse and shyylex1 in
   /repo/v23/shellyacc.go, over the tables of Gen/ShellTables.v.

   The semantic actions (the `switch shyynt` at the end of Parse) build the
   MkSh* tree and do not influence the parse; they are not modelled.  The
   grammar has no `error` productions, so the error-recovery block can only pop
   the whole stack and return 1: a syntax error is modelled as [LrReject]
   (Proofs/ShellLR.v checks that no entry of shyyChk equals shyyErrCode, i.e.
   that there is no state with a shift on `error`).

   Every table access is an explicit index check: an index outside the table is
   a Go run-time panic, here [LrPanic].  The loop runs on fuel; [LrOutOfFuel] is
   a distinct result.

   The lexer does not depend on the parser, and the parser never calls Lex
   again after Lex returned 0 (shyyrcvr.char stays 0 >= 0 until a shift, and
   $end is never shifted), so the input is the list of values Lex returns
   before its first 0. *)
From Coq Require Import ZArith List Bool.
From PV Require Import Gen.ShellGrammar Gen.ShellTables.
Import ListNotations.
Open Scope Z_scope.

(* tbl[i]; None = index out of range (panic) *)
Fixpoint znth_pos (l : list Z) (i : Z) : option Z :=
  match l with
  | [] => None
  | x :: r => if i =? 0 then Some x else znth_pos r (i - 1)
  end.
Definition znth (l : list Z) (i : Z) : option Z :=
  if i <? 0 then None else znth_pos l i.

Definition zlen (l : list Z) : Z := Z.of_nat (length l).

(* shyylex1: the value returned by Lex (0 at the end) -> goyacc's token number *)

(* for i := 0; i < len(shyyTok3); i += 2 { token = shyyTok3[i]; if token == char
   { token = shyyTok3[i+1]; goto out } }   -- `token` keeps the last key read *)
Fixpoint tok3_scan (l : list Z) (char : Z) (token : Z) : option Z :=
  match l with
  | [] => Some token
  | a :: r =>
    if a =? char then match r with b :: _ => Some b | [] => None (* index panic *) end
    else match r with _ :: r' => tok3_scan r' char a | [] => Some a end
  end.

Definition lex1 (char : Z) : option Z :=
  let token : option Z :=
    if char <=? 0 then znth shyyTok1 0
    else if char <? zlen shyyTok1 then znth shyyTok1 char
    else if (shyyPrivate <=? char) && (char <? shyyPrivate + zlen shyyTok2)
      then znth shyyTok2 (char - shyyPrivate)
    else tok3_scan shyyTok3 char 0 in
  match token with
  | None => None
  | Some t => if t =? 0 then znth shyyTok2 1 (* unknown char *) else Some t
  end.

(* one step of the trace: what the parser did *)
Inductive lr_action : Set := Shift (token : Z) | Reduce (production : Z).

Inductive lr_result : Set :=
| LrAccept (trace : list lr_action)   (* Parse returned 0 *)
| LrReject (consumed : nat)           (* Parse returned 1; number of terminals shifted before the error *)
| LrPanic
| LrOutOfFuel.

(* the exception table: find the block `-1, state`, then the first entry whose
   key is negative or equals the token; the result is that entry's value *)
Fixpoint exca_find_block (l : list Z) (state : Z) : option (list Z) :=
  match l with
  | a :: b :: r => if (a =? -1) && (b =? state) then Some r else exca_find_block r state
  | _ => None (* runs off the table: index panic *)
  end.
Fixpoint exca_find_entry (l : list Z) (token : Z) : option Z :=
  match l with
  | a :: b :: r => if (a <? 0) || (a =? token) then Some b else exca_find_entry r token
  | _ => None
  end.

Definition pop_n {A} (n : Z) (l : list A) : option (list A) :=
  if n <? 0 then None
  else if Z.of_nat (length l) <? n then None
  else Some (skipn (Z.to_nat n) l).

(* The state of the loop at label shyynewstate:
   stack   the state stack, top first (shyyS[0..shyyp].yys, reversed); its head is shyystate
   input   the values Lex will still return
   la      the lookahead: None when shyyrcvr.char < 0, else the translated token *)
Section Driver.

Definition read_la (la : option Z) (input : list Z) : option (Z * list Z) :=
  match la with
  | Some t => Some (t, input)
  | None =>
    match input with
    | [] => match lex1 0 with Some t => Some (t, []) | None => None end
    | c :: r => match lex1 c with Some t => Some (t, r) | None => None end
    end
  end.

(* shyydefault and what follows it: the default action, the exception table, reduce *)
Inductive after_default : Set :=
| DAccept | DError | DPanic
| DReduce (production : Z) (newstate : Z) (stack : list Z).

Definition do_reduce (n : Z) (stack : list Z) : after_default :=
  match znth shyyR2 n, znth shyyR1 n with
  | Some len, Some nt =>
    match pop_n len stack with
    | Some ((top :: _) as stack') =>
      match znth shyyPgo nt with
      | Some g =>
        let j := g + top + 1 in
        if shyyLast <=? j then
          match znth shyyAct g with Some s => DReduce n s stack' | None => DPanic end
        else
          match znth shyyAct j with
          | Some s =>
            match znth shyyChk s with
            | Some c =>
              if c =? - nt then DReduce n s stack'
              else match znth shyyAct g with Some s' => DReduce n s' stack' | None => DPanic end
            | None => DPanic
            end
          | None => DPanic
          end
      | None => DPanic
      end
    | _ => DPanic (* shyyS[shyyp] with shyyp < 0 *)
    end
  | _, _ => DPanic
  end.

Fixpoint parse_loop (fuel : nat) (stack : list Z) (input : list Z) (la : option Z)
         (shifted : nat) (trace : list lr_action) : lr_result :=
  match fuel with
  | O => LrOutOfFuel
  | S fuel' =>
    match stack with
    | [] => LrPanic
    | state :: _ =>
      let default (la : option Z) (input : list Z) : lr_result :=
        match znth shyyDef state with
        | None => LrPanic
        | Some d =>
          let decided : option (Z * option Z * list Z) :=
            if d =? -2 then
              match read_la la input with
              | None => None
              | Some (tokn, input') =>
                match exca_find_block shyyExca state with
                | None => None
                | Some blk =>
                  match exca_find_entry blk tokn with
                  | None => None
                  | Some n => Some (n, Some tokn, input')
                  end
                end
              end
            else Some (d, la, input) in
          match decided with
          | None => LrPanic
          | Some (n, la', input') =>
            if (d =? -2) && (n <? 0) then LrAccept (rev trace)
            else if n =? 0 then LrReject shifted
            else
              match do_reduce n stack with
              | DReduce p s stack' => parse_loop fuel' (s :: stack') input' la' shifted (Reduce p :: trace)
              | _ => LrPanic
              end
          end
        end in
      match znth shyyPact state with
      | None => LrPanic
      | Some n =>
        if n <=? shyyFlag then default la input
        else
          match read_la la input with
          | None => LrPanic
          | Some (tokn, input') =>
            let n := n + tokn in
            if (n <? 0) || (shyyLast <=? n) then default (Some tokn) input'
            else
              match znth shyyAct n with
              | None => LrPanic
              | Some n' =>
                match znth shyyChk n' with
                | None => LrPanic
                | Some c =>
                  if c =? tokn then (* valid shift *)
                    parse_loop fuel' (n' :: stack) input' None (S shifted) (Shift tokn :: trace)
                  else default (Some tokn) input'
                end
              end
          end
      end
    end
  end.

End Driver.

Definition lr_fuel (n : nat) : nat := 64 * (n + 2).

(* shyyParse on the values returned by Lex *)
Definition lr_parse (chars : list Z) : lr_result :=
  parse_loop (lr_fuel (length chars)) [0] chars None O [].

Definition lr_parse_terms (ts : list term) : lr_result := lr_parse (map tok_code ts).

Definition lr_accepts (ts : list term) : bool :=
  match lr_parse_terms ts with LrAccept _ => true | _ => false end.
